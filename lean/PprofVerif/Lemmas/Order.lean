import PprofVerif.Model.Order
/-!
# Lemmas for C08: `lessOf` of a proper descriptor list is a strict weak order whose
incomparability is "equal on every key"; sorted permutations are unique; the model's insertion
sort produces that unique list.  (Core Lean tactics only.)
-/
namespace PV.Order

/-! ### `Key.lt` is a strict total order -/

theorem Key.lt_irrefl : ∀ x : Key, Key.lt x x = false
  | [] => rfl
  | a :: as => by
    have := Key.lt_irrefl as
    simp [Key.lt, this]

theorem Key.lt_trans : ∀ {x y z : Key}, Key.lt x y = true → Key.lt y z = true → Key.lt x z = true
  | [], [], _, h, _ => by simp [Key.lt] at h
  | [], _ :: _, [], _, h => by simp [Key.lt] at h
  | [], _ :: _, _ :: _, _, _ => by simp [Key.lt]
  | _ :: _, [], _, h, _ => by simp [Key.lt] at h
  | _ :: _, _ :: _, [], _, h => by simp [Key.lt] at h
  | a :: as, b :: bs, c :: cs, h1, h2 => by
    simp only [Key.lt] at h1 h2 ⊢
    by_cases hab : a < b
    · by_cases hbc : b < c
      · have : a < c := by omega
        simp [this]
      · simp only [hbc, if_false] at h2
        by_cases hcb : c < b
        · simp [hcb] at h2
        · have : a < c := by omega
          simp [this]
    · simp only [hab, if_false] at h1
      by_cases hba : b < a
      · simp [hba] at h1
      · simp only [hba, if_false] at h1
        have hab' : a = b := by omega
        subst hab'
        by_cases hbc : a < c
        · simp [hbc]
        · simp only [hbc, if_false] at h2 ⊢
          by_cases hcb : c < a
          · simp [hcb] at h2
          · simp only [hcb, if_false] at h2 ⊢
            exact Key.lt_trans h1 h2

theorem Key.lt_tri : ∀ {x y : Key}, Key.lt x y = false → Key.lt y x = false → x = y
  | [], [], _, _ => rfl
  | [], _ :: _, h, _ => by simp [Key.lt] at h
  | _ :: _, [], _, h => by simp [Key.lt] at h
  | a :: as, b :: bs, h1, h2 => by
    simp only [Key.lt] at h1 h2
    by_cases hab : a < b
    · simp [hab] at h1
    · by_cases hba : b < a
      · simp [hba] at h2
      · simp only [hab, hba, if_false] at h1 h2
        have : a = b := by omega
        rw [this, Key.lt_tri h1 h2]

theorem Key.lt_asymm {x y : Key} (h : Key.lt x y = true) : Key.lt y x = false := by
  cases hyx : Key.lt y x with
  | false => rfl
  | true =>
    have := Key.lt_trans h hyx
    rw [Key.lt_irrefl] at this
    exact absurd this (by simp)

/-! ### the per-key relation -/

namespace KeyDesc
variable {α : Type} (k : KeyDesc α)

theorem rel_irrefl (x : Key) : k.rel x x = false := by
  unfold rel; cases k.dir <;> simp [Key.lt_irrefl]

theorem rel_trans {x y z : Key} (h1 : k.rel x y = true) (h2 : k.rel y z = true) : k.rel x z = true := by
  unfold rel at *
  cases hd : k.dir <;> simp only [hd] at h1 h2 ⊢
  · exact Key.lt_trans h1 h2
  · exact Key.lt_trans h2 h1

theorem rel_tri {x y : Key} (h1 : k.rel x y = false) (h2 : k.rel y x = false) : x = y := by
  unfold rel at *
  cases hd : k.dir <;> simp only [hd] at h1 h2
  · exact Key.lt_tri h1 h2
  · exact Key.lt_tri h2 h1

theorem rel_asymm {x y : Key} (h : k.rel x y = true) : k.rel y x = false := by
  cases hyx : k.rel y x with
  | false => rfl
  | true =>
    have := k.rel_trans h hyx
    rw [k.rel_irrefl] at this
    exact absurd this (by simp)

theorem rel_ne {x y : Key} (h : k.rel x y = true) : x ≠ y := by
  intro e; subst e; rw [k.rel_irrefl] at h; exact absurd h (by simp)

/-- for a proper key the guard tests exactly the order quantity -/
theorem guardVal_eq_ordVal (hp : k.proper = true) (a : α) : k.guardVal a = k.ordVal a := by
  unfold proper at hp
  unfold guardVal ordVal
  cases hg : k.guard <;> cases hx : k.xf <;> simp [hg, hx, Xf.app] at hp ⊢
end KeyDesc

/-! ### `lessOf` on a proper list: one step -/

theorem lessOf_cons_proper {α : Type} (k : KeyDesc α) (ks : List (KeyDesc α)) (hp : k.proper = true) (a b : α) :
    lessOf (k :: ks) a b = if k.ordVal a = k.ordVal b then lessOf ks a b else k.rel (k.ordVal a) (k.ordVal b) := by
  simp only [lessOf, k.guardVal_eq_ordVal hp, KeyDesc.cmp]
  by_cases h : k.ordVal a = k.ordVal b <;> simp [h]

theorem allProper_cons {α : Type} {k : KeyDesc α} {ks : List (KeyDesc α)} (h : AllProper (k :: ks)) :
    k.proper = true ∧ AllProper ks :=
  ⟨h k (List.mem_cons_self ..), fun k' hk' => h k' (List.mem_cons_of_mem _ hk')⟩

theorem lessOf_irrefl {α : Type} (ks : List (KeyDesc α)) (a : α) : lessOf ks a a = false := by
  induction ks with
  | nil => rfl
  | cons k ks ih => simp [lessOf, ih]

theorem lessOf_trans {α : Type} (ks : List (KeyDesc α)) (hp : AllProper ks) (a b c : α)
    (h1 : lessOf ks a b = true) (h2 : lessOf ks b c = true) : lessOf ks a c = true := by
  induction ks with
  | nil => simp [lessOf] at h1
  | cons k ks ih =>
    obtain ⟨hk, hks⟩ := allProper_cons hp
    rw [lessOf_cons_proper k ks hk] at h1 h2 ⊢
    by_cases hab : k.ordVal a = k.ordVal b
    · by_cases hbc : k.ordVal b = k.ordVal c
      · simp only [hab, hbc, if_true] at h1 h2 ⊢
        exact ih hks h1 h2
      · have hac : ¬ k.ordVal b = k.ordVal c := hbc
        simp only [hab, hbc, if_true, if_false] at h1 h2 ⊢
        exact h2
    · by_cases hbc : k.ordVal b = k.ordVal c
      · simp only [hab, if_false] at h1
        rw [← hbc]; simp only [hab, if_false]; exact h1
      · simp only [hab, hbc, if_false] at h1 h2
        have h3 := k.rel_trans h1 h2
        have hne := k.rel_ne h3
        simp only [hne, if_false]; exact h3

/-- incomparable elements agree on every order quantity -/
theorem lessOf_incomparable {α : Type} (ks : List (KeyDesc α)) (hp : AllProper ks) (a b : α)
    (h1 : lessOf ks a b = false) (h2 : lessOf ks b a = false) : ∀ k ∈ ks, k.ordVal a = k.ordVal b := by
  induction ks with
  | nil => intro k hk; cases hk
  | cons k ks ih =>
    obtain ⟨hk, hks⟩ := allProper_cons hp
    rw [lessOf_cons_proper k ks hk] at h1 h2
    by_cases hab : k.ordVal a = k.ordVal b
    · simp only [hab, if_true] at h1 h2
      intro k' hk'
      rcases List.mem_cons.mp hk' with e | hm
      · subst e; exact hab
      · exact ih hks h1 h2 k' hm
    · have hba : ¬ k.ordVal b = k.ordVal a := fun e => hab e.symm
      simp only [hab, hba, if_false] at h1 h2
      exact absurd (k.rel_tri h1 h2) hab

/-- negative transitivity: "not after" chains — with irreflexivity and transitivity this makes
`lessOf` a strict weak order -/
theorem lessOf_negTrans {α : Type} (ks : List (KeyDesc α)) (hp : AllProper ks) (a b c : α)
    (h1 : lessOf ks b a = false) (h2 : lessOf ks c b = false) : lessOf ks c a = false := by
  induction ks with
  | nil => rfl
  | cons k ks ih =>
    obtain ⟨hk, hks⟩ := allProper_cons hp
    rw [lessOf_cons_proper k ks hk] at h1 h2 ⊢
    by_cases hba : k.ordVal b = k.ordVal a
    · by_cases hcb : k.ordVal c = k.ordVal b
      · have hca : k.ordVal c = k.ordVal a := hcb.trans hba
        simp only [hba, hcb, if_true] at h1 h2 ⊢
        exact ih hks h1 h2
      · simp only [hba, if_true] at h1
        rw [← hba]; simp only [hcb, if_false] at h2 ⊢; exact h2
    · by_cases hcb : k.ordVal c = k.ordVal b
      · simp only [hba, if_false] at h1
        rw [hcb]; simp only [hba, if_false]; exact h1
      · simp only [hba, hcb, if_false] at h1 h2
        -- ¬ b<a, b≠a ⇒ a<b ; ¬ c<b, c≠b ⇒ b<c ; so a<c and ¬ c<a
        have hab : k.rel (k.ordVal a) (k.ordVal b) = true := by
          cases h : k.rel (k.ordVal a) (k.ordVal b) with
          | true => rfl
          | false => exact absurd (k.rel_tri h1 h) hba
        have hbc : k.rel (k.ordVal b) (k.ordVal c) = true := by
          cases h : k.rel (k.ordVal b) (k.ordVal c) with
          | true => rfl
          | false => exact absurd (k.rel_tri h2 h) hcb
        have hac := k.rel_trans hab hbc
        have hne : ¬ k.ordVal c = k.ordVal a := fun e => k.rel_ne hac e.symm
        simp only [hne, if_false]
        exact k.rel_asymm hac

theorem lessOf_asymm {α : Type} (ks : List (KeyDesc α)) (hp : AllProper ks) (a b : α)
    (h : lessOf ks a b = true) : lessOf ks b a = false := by
  cases hba : lessOf ks b a with
  | false => rfl
  | true =>
    have := lessOf_trans ks hp a b a h hba
    rw [lessOf_irrefl] at this
    exact absurd this (by simp)

/-! ### strict weak orders on an arbitrary carrier, sorted lists -/

/-- what the uniqueness argument needs of a comparator -/
structure StrictWeak {α : Type} (lt : α → α → Bool) : Prop where
  irrefl : ∀ a, lt a a = false
  trans : ∀ a b c, lt a b = true → lt b c = true → lt a c = true
  negTrans : ∀ a b c, lt b a = false → lt c b = false → lt c a = false

theorem StrictWeak.asymm {α : Type} {lt : α → α → Bool} (h : StrictWeak lt) {a b : α}
    (hab : lt a b = true) : lt b a = false := by
  cases hba : lt b a with
  | false => rfl
  | true =>
    have := h.trans a b a hab hba
    rw [h.irrefl] at this
    exact absurd this (by simp)

theorem lessOf_strictWeak {α : Type} (ks : List (KeyDesc α)) (hp : AllProper ks) : StrictWeak (lessOf ks) :=
  ⟨lessOf_irrefl ks, lessOf_trans ks hp, lessOf_negTrans ks hp⟩

/-- no inversion anywhere -/
def NoInv {α : Type} (lt : α → α → Bool) (l : List α) : Prop := l.Pairwise (fun a b => lt b a = false)

theorem adjSorted_noInv {α : Type} {lt : α → α → Bool} (h : StrictWeak lt) :
    ∀ l : List α, AdjSorted lt l → NoInv lt l
  | [], _ => List.Pairwise.nil
  | [a], _ => List.pairwise_singleton _ a
  | a :: b :: l, hs => by
    obtain ⟨hab, hrest⟩ := hs
    have ih := adjSorted_noInv h (b :: l) hrest
    refine List.Pairwise.cons ?_ ih
    intro x hx
    rcases List.mem_cons.mp hx with e | hm
    · subst e; exact hab
    · have hxb : lt x b = false := (List.pairwise_cons.mp ih).1 x hm
      exact h.negTrans a b x hab hxb

theorem noInv_adjSorted {α : Type} {lt : α → α → Bool} : ∀ l : List α, NoInv lt l → AdjSorted lt l
  | [], _ => trivial
  | [_], _ => trivial
  | a :: b :: l, h => by
    have h' := List.pairwise_cons.mp h
    exact ⟨h'.1 b (List.mem_cons_self ..), noInv_adjSorted (b :: l) h'.2⟩

theorem adjSortedB_iff {α : Type} (lt : α → α → Bool) : ∀ l : List α, adjSortedB lt l = true ↔ AdjSorted lt l
  | [] => by simp [adjSortedB, AdjSorted]
  | [_] => by simp [adjSortedB, AdjSorted]
  | a :: b :: l => by
    have ih := adjSortedB_iff lt (b :: l)
    simp only [adjSortedB, AdjSorted, Bool.and_eq_true, Bool.not_eq_true', ih]

/-- Two inversion-free arrangements of the same elements are equal, provided incomparable elements
of the list are equal. -/
theorem noInv_perm_unique {α : Type} {lt : α → α → Bool}
    {l₁ l₂ : List α} (hperm : l₁.Perm l₂)
    (htri : ∀ a ∈ l₁, ∀ b ∈ l₁, lt a b = false → lt b a = false → a = b)
    (h₁ : NoInv lt l₁) (h₂ : NoInv lt l₂) : l₁ = l₂ := by
  refine List.Perm.eq_of_pairwise (le := fun a b => lt b a = false) ?_ h₁ h₂ hperm
  intro a b ha hb hab hba
  exact htri a ha b (hperm.mem_iff.mpr hb) hba hab

/-! ### the model's insertion sort -/

theorem mem_insertBy {α : Type} (lt : α → α → Bool) (a x : α) : ∀ l : List α, x ∈ insertBy lt a l ↔ x = a ∨ x ∈ l
  | [] => by simp [insertBy]
  | b :: l => by
    have ih := mem_insertBy lt a x l
    unfold insertBy
    by_cases h : lt b a = true
    · simp only [h, if_true, List.mem_cons, ih]
      constructor
      · rintro (e | e | e)
        · exact Or.inr (Or.inl e)
        · exact Or.inl e
        · exact Or.inr (Or.inr e)
      · rintro (e | e | e)
        · exact Or.inr (Or.inl e)
        · exact Or.inl e
        · exact Or.inr (Or.inr e)
    · simp only [h, List.mem_cons]
      simp

theorem perm_insertBy {α : Type} (lt : α → α → Bool) (a : α) : ∀ l : List α, (insertBy lt a l).Perm (a :: l)
  | [] => List.Perm.refl _
  | b :: l => by
    unfold insertBy
    by_cases h : lt b a = true
    · simp only [h, if_true]
      exact ((perm_insertBy lt a l).cons b).trans (List.Perm.swap a b l)
    · simp only [h]
      exact List.Perm.refl _

theorem perm_sortBy {α : Type} (lt : α → α → Bool) : ∀ l : List α, (sortBy lt l).Perm l
  | [] => List.Perm.refl _
  | a :: l => by
    have ih := perm_sortBy lt l
    show (insertBy lt a (sortBy lt l)).Perm (a :: l)
    exact (perm_insertBy lt a _).trans (ih.cons a)

theorem noInv_insertBy {α : Type} {lt : α → α → Bool} (h : StrictWeak lt) (a : α) :
    ∀ l : List α, NoInv lt l → NoInv lt (insertBy lt a l)
  | [], _ => List.pairwise_singleton _ a
  | b :: l, hs => by
    have hs' := List.pairwise_cons.mp hs
    unfold insertBy
    by_cases hba : lt b a = true
    · simp only [hba, if_true]
      refine List.Pairwise.cons ?_ (noInv_insertBy h a l hs'.2)
      intro x hx
      rcases (mem_insertBy lt a x l).mp hx with e | hm
      · subst e; exact h.asymm hba
      · exact hs'.1 x hm
    · have hba' : lt b a = false := by cases hb : lt b a <;> simp_all
      simp only [hba]
      refine List.Pairwise.cons ?_ hs
      intro x hx
      rcases List.mem_cons.mp hx with e | hm
      · subst e; exact hba'
      · exact h.negTrans a b x hba' (hs'.1 x hm)

theorem noInv_sortBy {α : Type} {lt : α → α → Bool} (h : StrictWeak lt) : ∀ l : List α, NoInv lt (sortBy lt l)
  | [] => List.Pairwise.nil
  | a :: l => noInv_insertBy h a _ (noInv_sortBy h l)

end PV.Order
