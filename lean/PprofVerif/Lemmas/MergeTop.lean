import PprofVerif.Lemmas.MergeMain
/-!
`merge` (one pass + the re-merge that removes zero samples): conservation, validity, each stack
once, no all-zero sample, termination of the recursion, header.
-/
namespace PV.Merge
open PV.Spec
open PV.Wire (InI64 two63)

/-- hypotheses of C03 on the inputs: valid, values are int64, compatible with the first. -/
structure Inputs (first : Profile) (rest : List Profile) : Prop where
  valid : ∀ p ∈ first :: rest, p.Valid
  typed : ∀ p ∈ first :: rest, Typed p
  compat : ∀ p ∈ rest, compatibleB first p = true

theorem sampleType_length_of_compatibleB {a b : Profile} (h : compatibleB a b = true) :
    b.sampleType.length = a.sampleType.length := by
  unfold compatibleB at h
  simp only [Bool.and_eq_true, beq_iff_eq] at h
  exact h.1.2.symm

theorem Inputs.lengths {first : Profile} {rest : List Profile} (h : Inputs first rest) :
    ∀ p ∈ first :: rest, p.sampleType.length = first.sampleType.length := by
  intro p hp
  rcases List.mem_cons.mp hp with rfl | hp
  · rfl
  · exact sampleType_length_of_compatibleB (h.compat p hp)

/-- the weight over all traversed samples is the sum of the inputs' weights. -/
theorem weight_allSamples {n : Nat} : ∀ {ps : List Profile} {srcs : List Src}, List.Forall₂ (SrcOK n) ps srcs →
    (∀ p ∈ ps, p.sampleType.length = n) → ∀ k,
    weightR n (allSamples srcs) k = sumV n (ps.map (weight · k)) := by
  intro ps srcs hfa hn k
  have h1 : allSamples srcs = (srcs.map processed).flatten := by
    simp [allSamples, List.flatMap_def]
  have hproc : ∀ src ∈ srcs, SamplesOK n (processed src) ∧ weightR n (processed src) k = weightR n src.samples k := by
    intro src hsrc
    obtain ⟨p, _, hp⟩ := forall₂_mem_right hfa hsrc
    exact ⟨fun s hs => hp.ok s (List.mem_of_mem_filter hs), weightR_filter_nonzero hp.ok k⟩
  rw [h1, weightR_flatten _ (by
    intro rs hrs
    obtain ⟨src, hsrc, rfl⟩ := List.mem_map.mp hrs
    exact (hproc src hsrc).1)]
  congr 1
  rw [List.map_map]
  have : ∀ {ps : List Profile} {srcs : List Src}, List.Forall₂ (SrcOK n) ps srcs →
      (∀ p ∈ ps, p.sampleType.length = n) →
      srcs.map ((fun rs => weightR n rs k) ∘ processed) = ps.map (weight · k) := by
    intro ps srcs h
    induction h with
    | nil => intro _; rfl
    | @cons p src ps' srcs' hr _ ih =>
      intro hn'
      simp only [List.map_cons, Function.comp]
      rw [ih (fun q hq => hn' q (List.mem_cons_of_mem _ hq))]
      congr 1
      have h1 := weightR_filter_nonzero hr.ok k
      have h2 : weight p k = weightR n src.samples k := by
        simp only [weight, hr.res, hn' p (by simp)]
      rw [h2, ← h1]; rfl
  exact this hfa hn

theorem headerOf_sampleType {a b : Profile} (h : headerOf a = headerOf b) : a.sampleType = b.sampleType := by
  have := congrArg Header.sampleType h
  exact this

/-- what one pass guarantees, stated on the profiles. -/
structure PassSpec (n : Nat) (ps : List Profile) (hdr r : Profile) : Prop where
  hdr : headerOf r = headerOf hdr
  valid : r.Valid
  typed : Typed r
  weight : ∀ k, weight r k = sumV n (ps.map (Spec.weight · k))
  rr : ∃ rr, resolve r = some rr ∧ SamplesOK n rr ∧ (rr.map stackKey).Nodup ∧
        List.Forall₂ (fun (e : Sample) rs => rs.values = e.values) r.samples rr ∧
        ∀ rs ∈ rr, ∃ p ∈ ps, ∃ rsp, resolve p = some rsp ∧ ∃ s ∈ rsp, isZeroSample s.values = false ∧
          stackKey s = stackKey rs

theorem mergeOnce_pass (first : Profile) (rest : List Profile) (h : Inputs first rest) :
    ∃ hdr r, combineHeaders first rest = .ok hdr ∧ hdr.sampleType = first.sampleType ∧
      hdr.periodType = first.periodType ∧
      mergeOnce (first :: rest) = .ok r ∧ PassSpec first.sampleType.length (first :: rest) hdr r := by
  obtain ⟨hdr, hh, hst, hpt, _⟩ := combineHeaders_ok_fields first rest h.compat
  obtain ⟨srcs, hsrcs, hfa⟩ := srcs_of_valid first.sampleType.length (first :: rest) h.valid h.typed h.lengths
  obtain ⟨r, hr, hspec⟩ := mergeOnce_spec first.sampleType.length first rest hdr srcs hh (by rw [hst]) hsrcs hfa
  obtain ⟨rr, hres, hok, hnd, hvals, hfrom, hw⟩ := hspec.rr
  refine ⟨hdr, r, hh, hst, hpt, hr, hspec.hdr, hspec.valid, hspec.typed, ?_, rr, hres, hok, hnd, hvals, ?_⟩
  · intro k
    have hwr : weight r k = weightR first.sampleType.length rr k := by
      simp only [weight, hres, headerOf_sampleType hspec.hdr, hst]
    rw [hwr, hw k]
    exact weight_allSamples hfa h.lengths k
  · intro rs hrs
    obtain ⟨s, hs, hk⟩ := hfrom rs hrs
    obtain ⟨src, hsrc, hmem, hz⟩ := mem_allSamples.mp hs
    obtain ⟨p, hp, hpok⟩ := forall₂_mem_right hfa hsrc
    exact ⟨p, hp, src.samples, hpok.res, s, hmem, hz, hk⟩

/-! ### the re-merge -/

theorem compatibleB_self_single (r : Profile) : ∀ p ∈ ([] : List Profile), compatibleB r p = true := by
  intro p hp; cases hp

theorem nodup_map_filter {α κ : Type} (f : α → κ) (q : α → Bool) (l : List α) (h : (l.map f).Nodup) :
    ((l.filter q).map f).Nodup :=
  List.Nodup.sublist (List.Sublist.map f List.filter_sublist) h

theorem mem_le_sum : ∀ (l : List Nat) (x : Nat), x ∈ l → x ≤ l.sum
  | [], _, h => by cases h
  | a :: l, x, h => by
    simp only [List.sum_cons]
    rcases List.mem_cons.mp h with rfl | h
    · omega
    · have := mem_le_sum l x h; omega

theorem totalSamples_pos_of_mem {ps : List Profile} {p : Profile} (hp : p ∈ ps) (hne : p.samples ≠ []) :
    1 ≤ totalSamples ps := by
  unfold totalSamples
  have hmem : p.samples.length ∈ ps.map (·.samples.length) := List.mem_map_of_mem hp
  have hpos : 1 ≤ p.samples.length := by
    cases hs : p.samples with
    | nil => exact absurd hs hne
    | cons _ _ => simp
  have := mem_le_sum _ _ hmem
  omega

/-- **`merge` on valid compatible inputs**: returns a valid profile that conserves every
stack's weight, carries each stack once and no all-zero sample; the recursion never runs out
of fuel. -/
theorem merge_spec (first : Profile) (rest : List Profile) (h : Inputs first rest) :
    ∃ r, merge (first :: rest) = .ok r ∧ r.Valid ∧ Typed r ∧
      r.sampleType = first.sampleType ∧ r.periodType = first.periodType ∧
      (∀ k, weight r k = mergedWeight (first :: rest) k) ∧
      (∃ rr, resolve r = some rr ∧ (rr.map stackKey).Nodup) ∧
      (∀ s ∈ r.samples, isZeroSample s.values = false) ∧
      ∃ hdr r1, combineHeaders first rest = .ok hdr ∧ headerOf r1 = headerOf hdr ∧
        (r = r1 ∨ ∃ hdr2, combineHeaders r1 [] = .ok hdr2 ∧ headerOf r = headerOf hdr2) := by
  obtain ⟨hdr, r1, hh, hst, hpt, hr1, hp1⟩ := mergeOnce_pass first rest h
  have hst1 : r1.sampleType = first.sampleType := by rw [headerOf_sampleType hp1.hdr, hst]
  have hpt1 : r1.periodType = first.periodType := by
    have := congrArg Header.periodType hp1.hdr
    exact this.trans hpt
  have hmw : ∀ k, mergedWeight (first :: rest) k =
      sumV first.sampleType.length ((first :: rest).map (weight · k)) := fun k => rfl
  by_cases hz : r1.samples.any (fun s => isZeroSample s.values) = true
  · -- re-merge [r1]
    have hin2 : Inputs r1 [] := ⟨by intro p hp; simp at hp; subst hp; exact hp1.valid,
      by intro p hp; simp at hp; subst hp; exact hp1.typed, compatibleB_self_single r1⟩
    obtain ⟨hdr2, r2, hh2, hst2, hpt2, hr2, hp2⟩ := mergeOnce_pass r1 [] hin2
    rw [hst1] at hp2
    obtain ⟨rr1, hres1, hok1, hnd1, _, _⟩ := hp1.rr
    obtain ⟨rr2, hres2, hok2, hnd2, hvals2, hfrom2⟩ := hp2.rr
    -- r2 has no zero sample
    have hnz : ∀ s ∈ r2.samples, isZeroSample s.values = false := by
      intro e he
      obtain ⟨rs, hrs, hv⟩ := forall₂_mem_left hvals2 he
      obtain ⟨p, hp, rsp, hrsp, s, hs, hsz, hsk⟩ := hfrom2 rs hrs
      simp only [List.mem_singleton] at hp
      rw [hp, hres1] at hrsp
      simp only [Option.some.injEq] at hrsp
      subst hrsp
      -- rs.values = weight r2 (stackKey rs) = weight r1 (stackKey rs) = s.values
      have hw2 := hp2.weight (stackKey rs)
      have e2 : weight r2 (stackKey rs) = weightR first.sampleType.length rr2 (stackKey rs) := by
        simp only [weight, hres2, headerOf_sampleType hp2.hdr, hst2, hst1]
      have e1 : weight r1 (stackKey rs) = weightR first.sampleType.length rr1 (stackKey rs) := by
        simp only [weight, hres1, hst1]
      simp only [List.map_cons, List.map_nil] at hw2
      rw [e2, e1, weightR_of_nodup hok2 hnd2 hrs, sumV_singleton (weightR_VecOK hok1 _), ← hsk,
        weightR_of_nodup hok1 hnd1 hs] at hw2
      rw [← hv, hw2]; exact hsz
    have hz2 : r2.samples.any (fun s => isZeroSample s.values) = false := by
      rw [List.any_eq_false]
      intro s hs; simp [hnz s hs]
    -- fuel
    have hfuel : 1 ≤ totalSamples (first :: rest) := by
      obtain ⟨s0, hs0, _⟩ := List.any_eq_true.mp hz
      obtain ⟨rr1', hres1', _, _, hvals1, hfrom1⟩ := hp1.rr
      obtain ⟨rs, hrs, _⟩ := forall₂_mem_left hvals1 hs0
      obtain ⟨p, hp, rsp, hrsp, s, hs, _, _⟩ := hfrom1 rs hrs
      apply totalSamples_pos_of_mem hp
      intro hnil
      unfold resolve at hrsp
      rw [hnil] at hrsp
      simp only [optMap, Option.some.injEq] at hrsp
      subst hrsp; cases hs
    refine ⟨r2, ?_, hp2.valid, hp2.typed, ?_, ?_, ?_, ⟨rr2, hres2, hnd2⟩, hnz, hdr, r1, hh, hp1.hdr,
      Or.inr ⟨hdr2, hh2, hp2.hdr⟩⟩
    · unfold merge
      obtain ⟨m, hm⟩ : ∃ m, totalSamples (first :: rest) = m + 1 := ⟨totalSamples (first :: rest) - 1, by omega⟩
      rw [hm]
      simp only [mergeFuel, hr1, hz, if_true, hr2, hz2, Bool.false_eq_true, if_false]
    · rw [headerOf_sampleType hp2.hdr, hst2, hst1]
    · have := congrArg Header.periodType hp2.hdr
      exact this.trans (hpt2.trans hpt1)
    · intro k
      rw [hmw k, hp2.weight k, ← hp1.weight k]
      simp only [List.map_cons, List.map_nil]
      apply sumV_singleton
      have e1 : weight r1 k = weightR first.sampleType.length rr1 k := by
        simp only [weight, hres1, hst1]
      rw [e1]
      exact weightR_VecOK hok1 k
  · -- no zero sample: done after one pass
    have hz' : r1.samples.any (fun s => isZeroSample s.values) = false := by simpa using hz
    obtain ⟨rr1, hres1, _, hnd1, _, _⟩ := hp1.rr
    refine ⟨r1, ?_, hp1.valid, hp1.typed, hst1, hpt1, ?_, ⟨rr1, hres1, hnd1⟩, ?_, hdr, r1, hh, hp1.hdr, Or.inl rfl⟩
    · unfold merge
      simp only [mergeFuel, hr1, hz', Bool.false_eq_true, if_false]
    · intro k; rw [hmw k]; exact hp1.weight k
    · intro s hs
      rw [List.any_eq_false] at hz'
      simpa using hz' s hs

/-! ### header across the re-merge -/

theorem dedupInOrder_nodup : ∀ (cs : List Str), (dedupInOrder cs).Nodup
  | [] => by simp [dedupInOrder]
  | c :: cs => by
    simp only [dedupInOrder, List.nodup_cons, List.mem_filter, decide_eq_true_eq, ne_eq, not_true_eq_false,
      and_false, not_false_eq_true, true_and]
    exact List.Nodup.sublist List.filter_sublist (dedupInOrder_nodup cs)

theorem dedupInOrder_of_nodup : ∀ (cs : List Str), cs.Nodup → dedupInOrder cs = cs
  | [], _ => rfl
  | c :: cs, h => by
    rw [List.nodup_cons] at h
    simp only [dedupInOrder, dedupInOrder_of_nodup cs h.2, List.cons.injEq, true_and]
    rw [List.filter_eq_self]
    intro a ha
    simp only [decide_eq_true_eq]
    intro hac; exact h.1 (hac ▸ ha)

theorem sumI64_InI64 (ds : List Int) : InI64 (sumI64 ds) := by
  unfold sumI64
  have : ∀ (l : List Int) (a : Int), InI64 a → InI64 (l.foldl (fun a d => wrapI64 (a + d)) a) := by
    intro l
    induction l with
    | nil => intro a ha; exact ha
    | cons d l ih => intro a _; exact ih _ (wrapI64_InI64 _)
  exact this ds 0 (by unfold InI64 two63; omega)

theorem maxPeriod_nonneg (ps : List Int) : 0 ≤ maxPeriod ps := by
  unfold maxPeriod
  have : ∀ (l : List Int) (a : Int), 0 ≤ a → 0 ≤ l.foldl max a := by
    intro l
    induction l with
    | nil => intro a ha; exact ha
    | cons d l ih => intro a ha; exact ih _ (by omega)
  exact this ps 0 (by omega)

/-- compacting a header that was produced by `combineHeadersSpec` leaves it unchanged. -/
theorem combineHeadersSpec_single (r : Profile) (first : Profile) (rest : List Profile)
    (h : headerOf r = combineHeadersSpec first rest) : combineHeadersSpec r [] = headerOf r := by
  have ht : r.timeNanos = (headerOf r).timeNanos := rfl
  have hd : r.durationNanos = sumI64 ((first :: rest).map (·.durationNanos)) := by
    have := congrArg Header.durationNanos h; exact this
  have hp : r.period = maxPeriod ((first :: rest).map (·.period)) := by
    have := congrArg Header.period h; exact this
  have hc : r.comments = dedupInOrder ((first :: rest).flatMap (·.comments)) := by
    have := congrArg Header.comments h; exact this
  unfold combineHeadersSpec headerOf
  simp only [List.map_cons, List.map_nil, List.flatMap_cons, List.flatMap_nil, List.append_nil, Header.mk.injEq,
    true_and]
  refine ⟨?_, ?_, ?_, ?_, ?_, ?_⟩
  · unfold earliestNonZero
    by_cases h0 : r.timeNanos = 0
    · simp [h0]
    · simp [h0]
  · have := sumI64_InI64 ((first :: rest).map (·.durationNanos))
    rw [← hd] at this
    simp only [sumI64, List.foldl_cons, List.foldl_nil, Int.zero_add]
    exact wrapI64_of_InI64 this
  · have := maxPeriod_nonneg ((first :: rest).map (·.period))
    rw [← hp] at this
    simp only [maxPeriod, List.foldl_cons, List.foldl_nil]
    omega
  · rw [hc]; exact dedupInOrder_of_nodup _ (dedupInOrder_nodup _)
  · simp only [firstNonEmpty]; split <;> simp_all
  · simp only [firstNonEmpty]; split <;> simp_all

theorem headerOf_period {a b : Profile} (h : headerOf a = headerOf b) : a.period = b.period := by
  have := congrArg Header.period h; exact this

/-- the header of `merge` is the documented one (periods non-negative). -/
theorem merge_header (first : Profile) (rest : List Profile) (h : Inputs first rest)
    (hper : ∀ p ∈ first :: rest, 0 ≤ p.period) (r : Profile) (hr : merge (first :: rest) = .ok r) :
    headerOf r = combineHeadersSpec first rest := by
  obtain ⟨r', hr', _, _, _, _, _, _, _, hdr, r1, hh, hh1, hcase⟩ := merge_spec first rest h
  rw [hr] at hr'
  simp only [Outcome.ok.injEq] at hr'
  subst hr'
  obtain ⟨hdr', hh', hspec, _⟩ := combineHeaders_spec first rest h.compat hper
  rw [hh] at hh'
  simp only [Outcome.ok.injEq] at hh'
  subst hh'
  have h1 : headerOf r1 = combineHeadersSpec first rest := hh1.trans hspec
  rcases hcase with rfl | ⟨hdr2, hh2, hr2⟩
  · exact h1
  · have hp1 : 0 ≤ r1.period := by
      have := congrArg Header.period h1
      have h2 : r1.period = maxPeriod ((first :: rest).map (·.period)) := this
      rw [h2]; exact maxPeriod_nonneg _
    obtain ⟨hdr2', hh2', hspec2, _⟩ := combineHeaders_spec r1 [] (compatibleB_self_single r1)
      (by intro p hp; simp at hp; subst hp; exact hp1)
    rw [hh2] at hh2'
    simp only [Outcome.ok.injEq] at hh2'
    subst hh2'
    rw [hr2, hspec2, combineHeadersSpec_single r1 first rest h1, h1]

end PV.Merge
