import PprofVerif.Lemmas.MergeIntern
import PprofVerif.Lemmas.MergeAccum
import Mathlib.Data.List.Induction
import Mathlib.Data.List.Nodup
/-!
First-occurrence de-duplication (`dedupKeys = internBy id`) and how it commutes with the
traversals of the merge.  These are the order lemmas behind "merging a profile that is already
in normal form interns everything in the same order" (`Lemmas/MergeIdem.lean`):

* the keys of a memo table are the de-duplicated keys of what was fed in (`internBy_keys`);
* de-duplication of a concatenation only depends on the de-duplications of the parts
  (`dedupKeys_append_congr`);
* de-duplicating an outer list first does not change the de-duplicated inner traversal
  (`dedupKeys_flatMap_congr`, `dedupKeys_flatMap_table`);
* a table with pairwise distinct keys is rebuilt exactly by interning any list of its entries
  that meets the keys in table order (`internBy_eq_table`);
* the sample memo keeps its keys in first-occurrence order (`accumulate_keys`) and is the
  identity on a list with pairwise distinct keys (`accumulate_nodup`).
-/
namespace PV.Merge

section Dedup
variable {κ : Type} [DecidableEq κ]

/-- first-occurrence de-duplication of a list of keys. -/
def dedupKeys (ks : List κ) : List κ := internBy id ks

theorem internStep_id_map {ε : Type} (key : ε → κ) (acc : List ε) (e : ε) :
    (internStep key acc e).map key = internStep id (acc.map key) (key e) := by
  unfold internStep
  simp only [List.map_id, id]
  split <;> simp

theorem foldl_internStep_map {ε : Type} (key : ε → κ) (es acc : List ε) :
    (es.foldl (internStep key) acc).map key = (es.map key).foldl (internStep id) (acc.map key) := by
  induction es generalizing acc with
  | nil => rfl
  | cons e es ih => simp only [List.foldl_cons, List.map_cons, ih, internStep_id_map]

/-- the keys of a memo table = the de-duplicated keys of the entities fed in, in that order. -/
theorem internBy_keys {ε : Type} (key : ε → κ) (es : List ε) :
    (internBy key es).map key = dedupKeys (es.map key) := by
  unfold internBy dedupKeys internBy
  rw [foldl_internStep_map]; rfl

theorem dedupKeys_nodup (ks : List κ) : (dedupKeys ks).Nodup := by
  have := internBy_keys_nodup (id : κ → κ) ks
  simpa [dedupKeys] using this

theorem mem_dedupKeys (ks : List κ) (k : κ) : k ∈ dedupKeys ks ↔ k ∈ ks := by
  have := mem_internBy_keys (id : κ → κ) ks k
  simpa [dedupKeys] using this

theorem dedupKeys_append (a b : List κ) : dedupKeys (a ++ b) = b.foldl (internStep id) (dedupKeys a) := by
  unfold dedupKeys internBy
  rw [List.foldl_append]

/-- folding in keys that are already there changes nothing. -/
theorem foldl_internStep_absorb (b acc : List κ) (h : ∀ x ∈ b, x ∈ acc) :
    b.foldl (internStep id) acc = acc := by
  induction b with
  | nil => rfl
  | cons x b ih =>
    have hx : internStep id acc x = acc := by
      unfold internStep
      simp [h x (by simp)]
    rw [List.foldl_cons, hx]
    exact ih (fun y hy => h y (List.mem_cons_of_mem _ hy))

theorem mem_foldl_internStep_id (b acc : List κ) (k : κ) :
    k ∈ b.foldl (internStep id) acc ↔ k ∈ acc ∨ k ∈ b := by
  have := mem_foldl_internStep_keys (id : κ → κ) b acc k
  simpa using this

/-- `acc`-relative form of the fold: what is appended is the de-duplicated list minus `acc`. -/
theorem foldl_internStep_filter (cs acc : List κ) :
    cs.foldl (internStep id) acc = acc ++ (dedupKeys cs).filter (fun x => decide (x ∉ acc)) := by
  induction cs using List.reverseRecOn with
  | nil => simp [dedupKeys, internBy]
  | append_singleton cs c ih =>
    rw [List.foldl_append, List.foldl_cons, List.foldl_nil, ih, dedupKeys_append, List.foldl_cons, List.foldl_nil]
    by_cases hd : c ∈ dedupKeys cs
    · have h1 : internStep id (dedupKeys cs) c = dedupKeys cs := by
        unfold internStep; simp [hd]
      rw [h1]
      unfold internStep
      have : id c ∈ (acc ++ (dedupKeys cs).filter (fun x => decide (x ∉ acc))).map id := by
        simp only [List.map_id, id, List.mem_append, List.mem_filter, decide_eq_true_eq]
        by_cases ha : c ∈ acc
        · exact Or.inl ha
        · exact Or.inr ⟨hd, ha⟩
      rw [if_pos this]
    · have h1 : internStep id (dedupKeys cs) c = dedupKeys cs ++ [c] := by
        unfold internStep; simp [hd]
      rw [h1, List.filter_append]
      unfold internStep
      by_cases ha : c ∈ acc
      · have : id c ∈ (acc ++ (dedupKeys cs).filter (fun x => decide (x ∉ acc))).map id := by
          simp only [List.map_id, id, List.mem_append]; exact Or.inl ha
        rw [if_pos this]
        simp [ha]
      · have : ¬ id c ∈ (acc ++ (dedupKeys cs).filter (fun x => decide (x ∉ acc))).map id := by
          simp only [List.map_id, id, List.mem_append, List.mem_filter, decide_eq_true_eq, not_or, not_and]
          exact ⟨ha, fun h => absurd h hd⟩
        rw [if_neg this]
        simp [ha]

/-- de-duplication of `p ++ a` only depends on `p` and on the de-duplication of `a`. -/
theorem dedupKeys_append_congr (p a a' : List κ) (h : dedupKeys a' = dedupKeys a) :
    dedupKeys (p ++ a') = dedupKeys (p ++ a) := by
  rw [dedupKeys_append, dedupKeys_append, foldl_internStep_filter, foldl_internStep_filter, h]

theorem dedupKeys_append_right_congr (a a' b : List κ) (h : dedupKeys a' = dedupKeys a) :
    dedupKeys (a' ++ b) = dedupKeys (a ++ b) := by
  rw [dedupKeys_append, dedupKeys_append, h]

theorem dedupKeys_idem (ks : List κ) : dedupKeys (dedupKeys ks) = dedupKeys ks := by
  induction ks using List.reverseRecOn with
  | nil => rfl
  | append_singleton ks c ih =>
    rw [dedupKeys_append, List.foldl_cons, List.foldl_nil]
    by_cases hd : c ∈ dedupKeys ks
    · have h1 : internStep id (dedupKeys ks) c = dedupKeys ks := by unfold internStep; simp [hd]
      rw [h1, ih]
    · have h1 : internStep id (dedupKeys ks) c = dedupKeys ks ++ [c] := by unfold internStep; simp [hd]
      rw [h1, dedupKeys_append, ih, List.foldl_cons, List.foldl_nil, h1]

/-- a list without duplicates is its own de-duplication. -/
theorem dedupKeys_of_nodup (ks : List κ) (h : ks.Nodup) : dedupKeys ks = ks := by
  induction ks using List.reverseRecOn with
  | nil => rfl
  | append_singleton ks c ih =>
    rw [List.nodup_append] at h
    rw [dedupKeys_append, ih h.1, List.foldl_cons, List.foldl_nil]
    unfold internStep
    have : ¬ id c ∈ ks.map id := by
      simp only [List.map_id, id]
      intro hc; exact h.2.2 c hc c (by simp) rfl
    rw [if_neg this]

/-- the first element of a de-duplication is the first element. -/
theorem dedupKeys_head? (ks : List κ) : (dedupKeys ks).head? = ks.head? := by
  cases ks with
  | nil => rfl
  | cons k ks =>
    have : dedupKeys (k :: ks) = ks.foldl (internStep id) [k] := by
      unfold dedupKeys internBy
      simp [internStep]
    obtain ⟨l, hl⟩ := foldl_internStep_prefix (id : κ → κ) ks [k]
    rw [this, hl]; rfl

/-- **the de-duplicated inner traversal does not see outer duplicates**: traversing
`h a₁ ++ h a₂ ++ …` along `as` or along any `as'` with the same de-duplication meets new keys in
the same order. -/
theorem dedupKeys_flatMap_dedup {α : Type} [DecidableEq α] {κ' : Type} [DecidableEq κ'] (h : α → List κ') (as : List α) :
    dedupKeys ((dedupKeys as).flatMap h) = dedupKeys (as.flatMap h) := by
  induction as using List.reverseRecOn with
  | nil => rfl
  | append_singleton as a ih =>
    rw [dedupKeys_append, List.foldl_cons, List.foldl_nil, List.flatMap_append, List.flatMap_cons, List.flatMap_nil,
      List.append_nil]
    by_cases hd : a ∈ dedupKeys as
    · have h1 : internStep id (dedupKeys as) a = dedupKeys as := by unfold internStep; simp [hd]
      rw [h1, ih, dedupKeys_append, foldl_internStep_absorb]
      intro x hx
      rw [mem_dedupKeys, List.mem_flatMap]
      exact ⟨a, (mem_dedupKeys as a).mp hd, hx⟩
    · have h1 : internStep id (dedupKeys as) a = dedupKeys as ++ [a] := by unfold internStep; simp [hd]
      rw [h1, List.flatMap_append, List.flatMap_cons, List.flatMap_nil, List.append_nil]
      exact dedupKeys_append_right_congr _ _ _ ih

theorem dedupKeys_flatMap_congr {α : Type} [DecidableEq α] {κ' : Type} [DecidableEq κ'] (h : α → List κ')
    (as as' : List α) (hd : dedupKeys as' = dedupKeys as) :
    dedupKeys (as'.flatMap h) = dedupKeys (as.flatMap h) := by
  rw [← dedupKeys_flatMap_dedup h as', ← dedupKeys_flatMap_dedup h as, hd]

/-- pointwise transfer along equal key lists. -/
theorem map_eq_of_keys_eq {α β γ : Type} (k : α → β) (g : α → γ) :
    ∀ (as bs : List α), as.map k = bs.map k → (∀ a ∈ as, ∀ b ∈ bs, k a = k b → g a = g b) →
      as.map g = bs.map g
  | [], [], _, _ => rfl
  | [], _ :: _, h, _ => by simp at h
  | _ :: _, [], h, _ => by simp at h
  | a :: as, b :: bs, h, hg => by
    simp only [List.map_cons, List.cons.injEq] at h ⊢
    exact ⟨hg a (by simp) b (by simp) h.1,
      map_eq_of_keys_eq k g as bs h.2 (fun x hx y hy => hg x (List.mem_cons_of_mem _ hx) y (List.mem_cons_of_mem _ hy))⟩

/-- the same with an explicit outer memo table: `tab` holds one representative per key of `xs`
in first-occurrence order, and the inner traversal `h` only depends on the key. -/
theorem dedupKeys_flatMap_table {α : Type} {κ' : Type} [DecidableEq κ'] (k : α → κ) (h : α → List κ')
    (xs tab : List α) (hkeys : tab.map k = dedupKeys (xs.map k))
    (hh : ∀ a ∈ xs ++ tab, ∀ b ∈ xs ++ tab, k a = k b → h a = h b) :
    dedupKeys (tab.flatMap h) = dedupKeys (xs.flatMap h) := by
  -- tab.flatMap h = (internBy k xs).flatMap h
  have h1 : tab.map h = (internBy k xs).map h := by
    apply map_eq_of_keys_eq k h
    · rw [hkeys, internBy_keys]
    · intro a ha b hb hab
      exact hh a (List.mem_append_right _ ha) b (List.mem_append_left _ (mem_internBy k xs b hb)) hab
  have h2 : tab.flatMap h = (internBy k xs).flatMap h := by
    rw [List.flatMap_def, List.flatMap_def, h1]
  rw [h2]
  clear h1 h2 hkeys
  have hh' : ∀ a ∈ xs, ∀ b ∈ xs, k a = k b → h a = h b :=
    fun a ha b hb => hh a (List.mem_append_left _ ha) b (List.mem_append_left _ hb)
  clear hh
  induction xs using List.reverseRecOn with
  | nil => rfl
  | append_singleton xs a ih =>
    have ih' := ih (fun x hx y hy => hh' x (List.mem_append_left _ hx) y (List.mem_append_left _ hy))
    have hstep : internBy k (xs ++ [a]) = internStep k (internBy k xs) a := by
      unfold internBy; rw [List.foldl_append]; rfl
    rw [hstep, List.flatMap_append, List.flatMap_cons, List.flatMap_nil, List.append_nil]
    unfold internStep
    by_cases hd : k a ∈ (internBy k xs).map k
    · rw [if_pos hd, ih', dedupKeys_append, foldl_internStep_absorb]
      intro x hx
      rw [mem_dedupKeys, List.mem_flatMap]
      obtain ⟨b, hb, hkb⟩ := List.mem_map.mp ((mem_internBy_keys k xs _).mp hd)
      refine ⟨b, hb, ?_⟩
      rw [hh' b (List.mem_append_left _ hb) a (by simp) hkb]
      exact hx
    · rw [if_neg hd, List.flatMap_append, List.flatMap_cons, List.flatMap_nil, List.append_nil]
      exact dedupKeys_append_right_congr _ _ _ ih'

/-- a de-duplication that starts with (at most one) pre-inserted key: replacing the traversal by
one with the same de-duplication and pre-inserting the *resulting* first key gives the same table.
(`Merge` pre-inserts the first mapping of the first source that has one.) -/
theorem dedupKeys_preinsert (pre a a' : List κ) (hpre : pre.length ≤ 1) (h : dedupKeys a' = dedupKeys a) :
    dedupKeys ((dedupKeys (pre ++ a)).head?.toList ++ a') = dedupKeys (pre ++ a) := by
  match pre, hpre with
  | [], _ =>
    simp only [List.nil_append]
    rw [← h, dedupKeys_head?]
    cases a' with
    | nil => rfl
    | cons x a' =>
      simp only [List.head?_cons, Option.toList_some, List.singleton_append]
      unfold dedupKeys internBy
      simp [internStep]
  | [m], _ =>
    rw [dedupKeys_head?]
    simp only [List.singleton_append, List.head?_cons, Option.toList_some]
    exact dedupKeys_append_congr [m] a a' h
end Dedup

section Table
variable {ε κ : Type} [DecidableEq κ] (key : ε → κ)

omit [DecidableEq κ] in
theorem eq_of_keys_eq_of_mem : ∀ (Q T : List ε), Q.map key = T.map key → (∀ q ∈ Q, q ∈ T) →
    (T.map key).Nodup → Q = T := by
  intro Q T hk hm hn
  have hinj : ∀ a ∈ T, ∀ b ∈ T, key a = key b → a = b := fun a ha b hb => List.inj_on_of_nodup_map hn ha hb
  have hlen : Q.length = T.length := by simpa using congrArg List.length hk
  apply List.ext_getElem hlen
  intro i h1 h2
  apply hinj _ (hm _ (List.getElem_mem h1)) _ (List.getElem_mem h2)
  have := congrArg (fun l => l[i]?) hk
  simp only [List.getElem?_map, List.getElem?_eq_getElem h1, List.getElem?_eq_getElem h2, Option.map_some,
    Option.some.injEq] at this
  exact this

/-- **a table is rebuilt by interning its own entries in table order**: if every entity of `P`
is an entry of `T` (pairwise distinct keys) and `P` meets the keys in the order of `T`, then
`internBy key P = T`. -/
theorem internBy_eq_table (T P : List ε) (hn : (T.map key).Nodup) (hm : ∀ p ∈ P, p ∈ T)
    (hk : dedupKeys (P.map key) = T.map key) : internBy key P = T := by
  apply eq_of_keys_eq_of_mem key _ _ _ _ hn
  · rw [internBy_keys, hk]
  · intro q hq; exact hm q (mem_internBy key P q hq)

/-- the entry found under the key of an entry of a table with distinct keys is that entry. -/
theorem entryOf_of_mem (tab : List ε) (hn : (tab.map key).Nodup) (e : ε) (he : e ∈ tab) :
    entryOf key tab (key e) = some e := by
  induction tab with
  | nil => cases he
  | cons x xs ih =>
    rw [List.map_cons, List.nodup_cons] at hn
    unfold entryOf
    rw [List.find?_cons]
    by_cases hx : key x = key e
    · simp only [hx, decide_true]
      rcases List.mem_cons.mp he with rfl | hm
      · rfl
      · exact absurd (hx ▸ List.mem_map_of_mem hm) hn.1
    · simp only [hx, decide_false]
      rcases List.mem_cons.mp he with rfl | hm
      · exact absurd rfl hx
      · exact ih hn.2 hm

/-- the id of the key stored at index `i`. -/
theorem idOf_of_getElem? (tab : List ε) (hn : (tab.map key).Nodup) (i : Nat) (e : ε) (h : tab[i]? = some e) :
    idOf key tab (key e) = i + 1 := by
  unfold idOf
  rw [pos_of_getElem? hn (by rw [List.getElem?_map, h]; rfl)]
end Table

section Accum

theorem mapSampleStep_keys (tab : List (Str × Sample)) (x : Str × Sample) (t : List (Str × Sample))
    (h : mapSampleStep tab x = .ok t) : t.map (·.1) = internStep id (tab.map (·.1)) x.1 := by
  unfold mapSampleStep at h
  unfold internStep
  simp only [List.map_id, id]
  split at h
  · cases h
  · split at h
    · rename_i hin
      simp only [Outcome.ok.injEq] at h
      subst h
      rw [map_bump_keys, if_pos hin]
    · rename_i hin
      simp only [Outcome.ok.injEq] at h
      subst h
      rw [if_neg hin]; simp

theorem accumulate_keys_acc (xs : List (Str × Sample)) : ∀ (tab t : List (Str × Sample)),
    accumulate tab xs = .ok t → t.map (·.1) = (xs.map (·.1)).foldl (internStep id) (tab.map (·.1)) := by
  induction xs with
  | nil => intro tab t h; simp only [accumulate, Outcome.ok.injEq] at h; subst h; rfl
  | cons x xs ih =>
    intro tab t h
    simp only [accumulate] at h
    cases hs : mapSampleStep tab x with
    | ok t1 =>
      rw [hs] at h
      simp only [List.map_cons, List.foldl_cons]
      rw [← mapSampleStep_keys tab x t1 hs]
      exact ih t1 t h
    | err e => rw [hs] at h; cases h
    | panic s => rw [hs] at h; cases h

/-- the sample memo lists its keys in order of first appearance. -/
theorem accumulate_keys (xs t : List (Str × Sample)) (h : accumulate [] xs = .ok t) :
    t.map (·.1) = dedupKeys (xs.map (·.1)) := accumulate_keys_acc xs [] t h

theorem accumulate_nodup_acc (xs : List (Str × Sample)) : ∀ (tab : List (Str × Sample)),
    ((tab ++ xs).map (·.1)).Nodup → accumulate tab xs = .ok (tab ++ xs) := by
  induction xs with
  | nil => intro tab _; simp [accumulate]
  | cons x xs ih =>
    intro tab hn
    have hx : x.1 ∉ tab.map (·.1) := by
      rw [List.map_append, List.map_cons, List.nodup_append] at hn
      intro hm
      exact hn.2.2 x.1 hm x.1 (by simp) rfl
    have hstep : mapSampleStep tab x = .ok (tab ++ [x]) := by
      unfold mapSampleStep
      have hany : (tab.any fun e => decide (e.1 = x.1) && decide (e.2.values.length < x.2.values.length)) = false := by
        rw [List.any_eq_false]
        intro e he
        have : e.1 ≠ x.1 := fun heq => hx (heq ▸ List.mem_map_of_mem he)
        simp [this]
      rw [hany]
      simp only [Bool.false_eq_true, if_false]
      rw [if_neg hx]
    simp only [accumulate, hstep]
    have := ih (tab ++ [x]) (by simpa using hn)
    simpa using this

/-- fed a list whose keys are pairwise distinct, the sample memo returns that list. -/
theorem accumulate_nodup (xs : List (Str × Sample)) (h : (xs.map (·.1)).Nodup) : accumulate [] xs = .ok xs := by
  simpa using accumulate_nodup_acc xs [] (by simpa using h)
end Accum

end PV.Merge
