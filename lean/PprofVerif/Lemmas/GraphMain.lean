import PprofVerif.Lemmas.GraphSamples
namespace PV.Graph
open PV.GSpec
variable {κ : Type} [DecidableEq κ]

@[simp] theorem empty_weight (x y : κ) : (GState.empty : GState κ).weight x y = 0 := rfl
@[simp] theorem empty_residual (x y : κ) : (GState.empty : GState κ).residual x y = false := rfl
@[simp] theorem empty_hasEdge (x y : κ) : (GState.empty : GState κ).hasEdge x y = false := rfl

theorem counted_restrict (K : κ → Bool) (s : GSample κ) : counted (restrict K s) = counted s := rfl

theorem newGraph_weight (K : κ → Bool) (ss : List (GSample κ)) (a b : κ) :
    (newGraph K ss).weight a b = edgeSpecK K ss a b := by
  unfold newGraph
  rw [(foldSamples_edge K a b ss GState.empty).1]
  unfold edgeSpecK edgeSpec
  rw [sumOver_map_restrict]
  simp only [empty_weight, WD.zero_add]
  congr 1
  funext s
  rw [edgeEv_isSome]
  rfl

theorem newGraph_hasEdge (K : κ → Bool) (ss : List (GSample κ)) (a b : κ) :
    (newGraph K ss).hasEdge a b = edgeExistsK K ss a b := by
  unfold newGraph
  rw [(foldSamples_edge K a b ss GState.empty).2.2]
  unfold edgeExistsK edgeExists
  rw [List.any_map]
  simp only [empty_hasEdge, Bool.false_or]
  congr 1
  funext s
  unfold sampleEv
  simp only [Function.comp, counted_restrict]
  by_cases hc : counted s = true
  · simp only [hc, if_true, Bool.true_and, edgeEv_isSome]; rfl
  · simp [hc]

theorem newGraph_residual (K : κ → Bool) (ss : List (GSample κ)) (a b : κ) :
    (newGraph K ss).residual a b = edgeResidualSpecK K ss a b := by
  unfold newGraph
  rw [(foldSamples_edge K a b ss GState.empty).2.1]
  unfold edgeResidualSpecK
  simp only [empty_residual, Bool.false_or]
  congr 1
  funext s
  unfold sampleEv edgeEv
  by_cases hc : counted s = true
  · by_cases hab : a = b
    · simp [hc, hab]
    · simp [hc, hab]
  · simp [hc]

/-! ### restriction by the all-true predicate -/
theorem restrict_allKept (s : GSample κ) : restrict allKept s = s := by
  cases s
  simp [restrict, allKept]
theorem map_restrict_allKept (ss : List (GSample κ)) : ss.map (restrict allKept) = ss := by
  induction ss with
  | nil => rfl
  | cons s ss ih => rw [List.map_cons, ih, restrict_allKept]

theorem cumSpecK_allKept (ss : List (GSample κ)) (n : κ) : cumSpecK allKept ss n = cumSpec ss n := by
  unfold cumSpecK; rw [map_restrict_allKept]
theorem flatSpecK_allKept (ss : List (GSample κ)) (n : κ) : flatSpecK allKept ss n = flatSpec ss n := by
  unfold flatSpecK flatSpec allKept; simp
theorem edgeSpecK_allKept (ss : List (GSample κ)) (a b : κ) : edgeSpecK allKept ss a b = edgeSpec ss a b := by
  unfold edgeSpecK; rw [map_restrict_allKept]
theorem edgeExistsK_allKept (ss : List (GSample κ)) (a b : κ) : edgeExistsK allKept ss a b = edgeExists ss a b := by
  unfold edgeExistsK; rw [map_restrict_allKept]

/-! ### kept-set invariance of the specification -/
theorem cumSpecK_of_kept (K : κ → Bool) (ss : List (GSample κ)) (n : κ) (h : K n = true) :
    cumSpecK K ss n = cumSpec ss n := by
  unfold cumSpecK cumSpec
  rw [sumOver_map_restrict]
  congr 1
  funext s
  simp [restrict, List.mem_filter, h]

theorem flatSpecK_of_kept (K : κ → Bool) (ss : List (GSample κ)) (n : κ) (h : K n = true) :
    flatSpecK K ss n = flatSpec ss n := by
  unfold flatSpecK flatSpec
  simp [h]
end PV.Graph
