import PprofVerif.Lemmas.LegacyJava
import PprofVerif.Lemmas.LegacyLineEnds
import PprofVerif.Model.LegacyJavaCpu
/-!
Helper lemmas for C14: binary Java CPU profiles — `parseCPU (printJavaCpu d) = ok (expectedJavaCpu d)`,
and `parseCPU` on C++ CPU documents (`parseCPU = parseCPUWith javaCpuProfile`).
-/
namespace PV.Legacy
open PV

theorem parseCPU_printCpu (d : CpuDoc) (h : d.wf = true) : parseCPU (printCpu d) = .ok (expectedCpu d) :=
  parseCPUWith_printCpu javaCpuProfile d h

/-! ### the trailer under any line termination -/

theorem trimSpace_snoc_cr (l : Str) : trimSpace (l ++ [13]) = trimSpace l := by
  unfold trimSpace trimLeft trimRight
  rw [List.dropWhile_append]
  cases hD : l.dropWhile isSpace with
  | nil => simp [show isSpace 13 = true by decide]
  | cons c t =>
    simp only [List.isEmpty_cons, Bool.false_eq_true, if_false]
    rw [List.reverse_append]
    simp [List.dropWhile_cons, show isSpace 13 = true by decide]

theorem javaLocLoop_congr (a b : List Str) (h : a.map trimSpace = b.map trimSpace) : javaLocLoop a = javaLocLoop b := by
  induction a generalizing b with
  | nil =>
    cases b with
    | nil => rfl
    | cons _ _ => simp at h
  | cons x a ih =>
    cases b with
    | nil => simp at h
    | cons y b =>
      simp only [List.map_cons, List.cons.injEq] at h
      rw [javaLocLoop, javaLocLoop, h.1, ih b h.2]

theorem javaLocLoop_cons_congr (x y : Str) (a b : List Str) (hxy : trimSpace x = trimSpace y)
    (hab : javaLocLoop a = javaLocLoop b) : javaLocLoop (x :: a) = javaLocLoop (y :: b) := by
  simp only [javaLocLoop, hxy, hab]

theorem javaLocLoop_append_blank (a : List Str) : javaLocLoop (a ++ [[]]) = javaLocLoop a := by
  induction a with
  | nil => simp [javaLocLoop, show trimSpace ([] : Str) = [] by decide]
  | cons x a ih =>
    simp only [List.cons_append]
    rw [javaLocLoop, javaLocLoop, ih]

/-- the lines as `ReadString` delivers them: with the `\r` of a `\r\n` still attached -/
def crLines : List Bool → List Str → List Str
  | _, [] => []
  | cs, l :: r => (if cs.headD false then l ++ [13] else l) :: crLines cs.tail r

theorem crLines_trim (cs : List Bool) (ls : List Str) : (crLines cs ls).map trimSpace = ls.map trimSpace := by
  induction ls generalizing cs with
  | nil => rfl
  | cons l r ih =>
    simp only [crLines, List.map_cons, ih]
    cases cs.headD false <;> simp [trimSpace_snoc_cr]

theorem splitNLAux_eol (c : Bool) (l rest : Str) (h : LineOK l) :
    splitNLAux (l ++ eol c ++ rest) [] = ((if c then l ++ [13] else l) :: (splitNLAux rest []).1, (splitNLAux rest []).2) := by
  cases c with
  | false =>
    simp only [eol, Bool.false_eq_true, if_false, List.append_assoc, List.singleton_append]
    rw [splitNLAux_line l rest [] (fun b hb => (h b hb).1)]
    simp
  | true =>
    have e : l ++ eol true ++ rest = (l ++ [13]) ++ 10 :: rest := by simp [eol]
    rw [e, splitNLAux_line (l ++ [13]) rest [] (by
      intro b hb
      rcases List.mem_append.1 hb with hb | hb
      · exact (h b hb).1
      · simp at hb; subst hb; decide)]
    simp

theorem splitNLAux_noNL (l acc : Str) (h : ∀ b ∈ l, b.toNat ≠ 10) : splitNLAux l acc = ([], acc.reverse ++ l) := by
  induction l generalizing acc with
  | nil => simp [splitNLAux]
  | cons b l ih =>
    have hb : b.toNat ≠ 10 := h b (by simp)
    simp only [splitNLAux, beq_iff_eq, hb, if_false]
    rw [ih (b :: acc) (fun x hx => h x (by simp [hx]))]
    simp

def locLinesOf (p : List Str × Str) : List Str := p.1 ++ (if p.2.isEmpty then [] else [p.2])

theorem javaLocLines_eq (b : Str) : javaLocLines b = locLinesOf (splitNLAux b []) := rfl

theorem locLinesOf_eol (c : Bool) (l rest : Str) (h : LineOK l) :
    locLinesOf (splitNLAux (l ++ eol c ++ rest) []) = (if c then l ++ [13] else l) :: locLinesOf (splitNLAux rest []) := by
  rw [splitNLAux_eol c l rest h]; rfl

theorem javaLocLines_renderLines (cs : List Bool) (nf : Bool) (ls : List Str) (h : ∀ l ∈ ls, LineOK l) :
    javaLocLoop (javaLocLines (renderLines cs nf ls)) = javaLocLoop ls := by
  rw [javaLocLines_eq]
  induction ls generalizing cs with
  | nil => simp [renderLines, splitNLAux, locLinesOf]
  | cons l r ih =>
    have hl := h l (by simp)
    have hcr : ∀ c : Bool, trimSpace (if c then l ++ [13] else l) = trimSpace l := by
      intro c; cases c <;> simp [trimSpace_snoc_cr]
    cases r with
    | nil =>
      cases nf with
      | true =>
        simp only [renderLines, if_true, List.append_nil]
        rw [splitNLAux_noNL l [] (fun b hb => (hl b hb).1)]
        simp only [List.reverse_nil, List.nil_append, locLinesOf]
        cases l with
        | nil => simpa using (javaLocLoop_append_blank []).symm
        | cons c t => simp
      | false =>
        simp only [renderLines, Bool.false_eq_true, if_false]
        have := locLinesOf_eol (cs.headD false) l [] hl
        simp only [List.append_nil] at this
        rw [this]
        simp only [splitNLAux, locLinesOf, List.reverse_nil, List.isEmpty_nil, if_true, List.append_nil]
        apply javaLocLoop_congr
        simp [hcr]
    | cons l2 r2 =>
      simp only [renderLines]
      rw [locLinesOf_eol _ l _ hl]
      have := ih cs.tail (fun x hx => h x (by simp [hx]))
      exact javaLocLoop_cons_congr _ _ _ _ (hcr _) this

/-! ### the binary part -/
theorem cpuHeaderWords_printJava (big w64 : Bool) (period : Nat) (R : Str) (hp : 0 < period) (hpb : period < wordBound w64) :
    cpuHeaderWords big w64 (words big w64 [0, 3, 1, period, 0] ++ R) = some (true, period, R) := by
  have h0 : 0 < wordBound w64 := by have := wordBound_pos w64; omega
  have h1 : 1 < wordBound w64 := by have := wordBound_pos w64; omega
  have h3 : 3 < wordBound w64 := wordBound_pos w64
  unfold cpuHeaderWords
  simp only [words_cons, words_nil, List.append_nil, List.append_assoc]
  rw [getWord_word big w64 0 _ h0]
  simp only [Option.bind_eq_bind, Option.bind_some]
  rw [getWord_word big w64 3 _ h3]
  simp only [Option.bind_some]
  rw [getWord_word big w64 1 _ h1]
  simp only [Option.bind_some]
  rw [getWord_word big w64 period _ hpb]
  simp only [Option.bind_some]
  rw [getWord_word big w64 0 _ h0]
  simp [hp]

def JavaCpuDoc.text (d : JavaCpuDoc) : Str := if d.eod then unlines d.trailerLines else []

def JavaCpuDoc.bodyT (d : JavaCpuDoc) (T : Str) : Str :=
  words d.big d.w64 (d.recs.flatMap CpuRec.words) ++ (words d.big d.w64 (if d.eod then [0, 1, 0] else []) ++ T)

def JavaCpuDoc.body (d : JavaCpuDoc) : Str := d.bodyT d.text

theorem printJavaCpu_eq (d : JavaCpuDoc) : printJavaCpu d = words d.big d.w64 [0, 3, 1, d.period, 0] ++ d.body := by
  unfold printJavaCpu JavaCpuDoc.body JavaCpuDoc.bodyT JavaCpuDoc.text
  simp only [words_append, List.append_assoc]

theorem printJavaCpu_eq2 (d : JavaCpuDoc) :
    printJavaCpu d = word d.big d.w64 0 ++ (word d.big d.w64 3 ++ (words d.big d.w64 [1, d.period, 0] ++ d.body)) := by
  rw [printJavaCpu_eq]
  simp only [words_cons, words_nil, List.append_nil, List.append_assoc]

theorem LineOK_trailerLines (d : JavaCpuDoc)
    (hlocs : ∀ l ∈ d.locs, (∀ f ∈ l.fill, f.wf = true) ∧ l.kind.wf = true) : ∀ l ∈ d.trailerLines, LineOK l := by
  intro l hl
  simp only [JavaCpuDoc.trailerLines, List.mem_append, List.mem_replicate, List.mem_flatMap, List.mem_singleton] at hl
  rcases hl with hl | ⟨jl, hjl, hl⟩
  · rw [hl.2]; exact LineOK_nil
  · rcases hl with hl | hl
    · simp only [printFillers, List.mem_map] at hl
      obtain ⟨f, hf, rfl⟩ := hl
      exact LineOK_filler ((hlocs jl hjl).1 f hf)
    · subst hl
      intro b hb
      have := jl.print_bytes (hlocs jl hjl).2 b hb
      exact ⟨this.2.2.1, this.2.2.2⟩

theorem javaCpuProfile_bodyT (d : JavaCpuDoc) (h : d.wf = true) (T : Str) (hE : d.eod = false → T = [])
    (hT : javaLocLoop (javaLocLines T) = .ok (if d.eod then d.locs.map JavaLoc.info else [])) :
    javaCpuProfile d.big d.w64 d.period (d.bodyT T) = .ok (expectedJavaCpu d) := by
  simp only [JavaCpuDoc.wf, Bool.and_eq_true, decide_eq_true_eq, List.all_eq_true, Bool.not_eq_true',
    Bool.and_eq_false_iff, beq_eq_false_iff_ne, ne_eq, Bool.or_eq_true, beq_iff_eq, List.isEmpty_iff] at h
  obtain ⟨⟨⟨⟨hp, hpb⟩, hrecs⟩, heodc⟩, hlocs⟩ := h
  have hb : d.wordBound = wordBound d.w64 := rfl
  have hrecs' : ∀ r ∈ d.recs, r.count < wordBound d.w64 ∧ r.addrs.length < two32 ∧ (∀ a ∈ r.addrs, a < wordBound d.w64) ∧
      ¬ (r.count = 0 ∧ r.addrs = [0]) := by
    intro r hr
    have := hrecs r hr
    rw [hb] at this
    refine ⟨this.1.1.1, this.1.1.2, this.1.2, ?_⟩
    intro hc
    rcases this.2 with h1 | h1
    · exact h1 hc.1
    · exact h1 hc.2
  have hlocwf : ∀ l ∈ d.locs, l.kind.wf = true ∧ l.addr < two64 := fun l hl => ⟨(hlocs l hl).2, (hlocs l hl).1.2⟩
  unfold javaCpuProfile
  have hfuel : (d.bodyT T).length + 1 = ((d.bodyT T).length + 1 - d.recs.length) + d.recs.length := by
    have := words_recs_length d.big d.w64 d.recs
    unfold JavaCpuDoc.bodyT
    simp only [List.length_append]; omega
  have hpos : ∃ f, (d.bodyT T).length + 1 - d.recs.length = f + 1 := by
    have := words_recs_length d.big d.w64 d.recs
    refine ⟨(d.bodyT T).length - d.recs.length, ?_⟩
    unfold JavaCpuDoc.bodyT
    simp only [List.length_append]; omega
  obtain ⟨f, hf⟩ := hpos
  rw [hfuel, hf]
  rw [show d.bodyT T = words d.big d.w64 (d.recs.flatMap CpuRec.words) ++
    (words d.big d.w64 (if d.eod then [0, 1, 0] else []) ++ T) from rfl]
  rw [cpuSamplesLoop_recs d.big d.w64 (javaCpuSample d.period) d.recs hrecs']
  simp only [List.append_nil]
  unfold expectedJavaCpu
  cases heod : d.eod with
  | false =>
    rw [hE heod]
    simp only [Bool.false_eq_true, if_false, words_nil, List.append_nil]
    rw [cpuSamplesLoop_end]
    simp [javaLocLines, splitNL, splitNLAux, javaLocLoop]
  | true =>
    simp only [if_true]
    rw [cpuSamplesLoop_eod]
    simp only [List.reverse_reverse, hT, heod, if_true]

/-- the trailer of a well-formed document, whatever its line termination -/
theorem trailer_renderLines (d : JavaCpuDoc) (h : d.wf = true) (cs : List Bool) (nf : Bool) :
    javaLocLoop (javaLocLines (renderLines cs nf d.trailerLines)) = .ok (d.locs.map JavaLoc.info) := by
  simp only [JavaCpuDoc.wf, Bool.and_eq_true, List.all_eq_true, decide_eq_true_eq] at h
  have hlocs := h.2
  rw [javaLocLines_renderLines cs nf _ (LineOK_trailerLines d (fun l hl => ⟨(hlocs l hl).1.1, (hlocs l hl).2⟩))]
  unfold JavaCpuDoc.trailerLines
  rw [javaLocLoop_blanks, javaLocLoop_locs d.locs (fun l hl => ⟨(hlocs l hl).2, (hlocs l hl).1.2⟩)]

theorem javaCpuProfile_body (d : JavaCpuDoc) (h : d.wf = true) :
    javaCpuProfile d.big d.w64 d.period d.body = .ok (expectedJavaCpu d) := by
  apply javaCpuProfile_bodyT d h d.text
  · intro he; simp [JavaCpuDoc.text, he]
  · unfold JavaCpuDoc.text
    cases heod : d.eod with
    | false => simp [javaLocLines, splitNL, splitNLAux, javaLocLoop]
    | true =>
      simp only [if_true]
      rw [← renderLines_unlines]
      exact trailer_renderLines d h [] false

theorem parseCPU_javaText (d : JavaCpuDoc) (h : d.wf = true) (B : Str)
    (hbody : javaCpuProfile d.big d.w64 d.period B = .ok (expectedJavaCpu d)) :
    parseCPU (words d.big d.w64 [0, 3, 1, d.period, 0] ++ B) = .ok (expectedJavaCpu d) := by
  have hwf := h
  simp only [JavaCpuDoc.wf, Bool.and_eq_true, decide_eq_true_eq] at h
  obtain ⟨⟨⟨⟨hp, hpb⟩, _⟩, _⟩, _⟩ := h
  have hb : d.wordBound = wordBound d.w64 := rfl
  rw [hb] at hpb
  have hright : cpuHeaderWords d.big d.w64 (words d.big d.w64 [0, 3, 1, d.period, 0] ++ B) = some (true, d.period, B) :=
    cpuHeaderWords_printJava d.big d.w64 d.period B hp hpb
  have e : words d.big d.w64 [0, 3, 1, d.period, 0] ++ B =
      word d.big d.w64 0 ++ (word d.big d.w64 3 ++ (words d.big d.w64 [1, d.period, 0] ++ B)) := by
    simp only [words_cons, words_nil, List.append_nil, List.append_assoc]
  unfold parseCPU parseCPUWith
  cases hbig : d.big <;> cases hw : d.w64 <;> rw [hbig, hw] at hright hbody e
  · generalize hX : words false false [0, 3, 1, d.period, 0] ++ B = X at hright e ⊢
    simp only [hright, hbody]
  · generalize hX : words false true [0, 3, 1, d.period, 0] ++ B = X at hright e ⊢
    have w1 : cpuHeaderWords false false X = none := by
      rw [e]
      exact cpuHeaderWords_none false false [0, 0, 0, 0] [0, 0, 0, 0] ([3, 0, 0, 0, 0, 0, 0, 0] ++ _) rfl rfl (by decide)
    have w2 : cpuHeaderWords true false X = none := by
      rw [e]
      exact cpuHeaderWords_none true false [0, 0, 0, 0] [0, 0, 0, 0] ([3, 0, 0, 0, 0, 0, 0, 0] ++ _) rfl rfl (by decide)
    simp only [w1, w2, hright, hbody]
  · generalize hX : words true false [0, 3, 1, d.period, 0] ++ B = X at hright e ⊢
    have w1 : cpuHeaderWords false false X = none := by
      rw [e]
      exact cpuHeaderWords_none false false [0, 0, 0, 0] [0, 0, 0, 3] _ rfl rfl (by decide)
    simp only [w1, hright, hbody]
  · generalize hX : words true true [0, 3, 1, d.period, 0] ++ B = X at hright e ⊢
    have w1 : cpuHeaderWords false false X = none := by
      rw [e]
      exact cpuHeaderWords_none false false [0, 0, 0, 0] [0, 0, 0, 0] ([0, 0, 0, 0, 0, 0, 0, 3] ++ _) rfl rfl (by decide)
    have w2 : cpuHeaderWords true false X = none := by
      rw [e]
      exact cpuHeaderWords_none true false [0, 0, 0, 0] [0, 0, 0, 0] ([0, 0, 0, 0, 0, 0, 0, 3] ++ _) rfl rfl (by decide)
    have w3 : cpuHeaderWords false true X = none := by
      rw [e]
      exact cpuHeaderWords_none false true [0, 0, 0, 0, 0, 0, 0, 0] [0, 0, 0, 0, 0, 0, 0, 3] _ rfl rfl (by decide)
    simp only [w1, w2, w3, hright, hbody]

theorem parseCPU_printJavaCpu (d : JavaCpuDoc) (h : d.wf = true) : parseCPU (printJavaCpu d) = .ok (expectedJavaCpu d) := by
  rw [printJavaCpu_eq]; exact parseCPU_javaText d h d.body (javaCpuProfile_body d h)

/-- any line termination of the trailer: CRLF on any lines, last line terminated or not -/
theorem parseCPU_printJavaCpuWith (cs : List Bool) (nf : Bool) (d : JavaCpuDoc) (h : d.wf = true) :
    parseCPU (printJavaCpuWith cs nf d) = .ok (expectedJavaCpu d) := by
  have e : printJavaCpuWith cs nf d = words d.big d.w64 [0, 3, 1, d.period, 0] ++
      d.bodyT (if d.eod then renderLines cs nf d.trailerLines else []) := by
    unfold printJavaCpuWith JavaCpuDoc.bodyT
    simp only [words_append, List.append_assoc]
  rw [e]
  apply parseCPU_javaText d h
  apply javaCpuProfile_bodyT d h
  · intro he; simp [he]
  · cases heod : d.eod with
    | false => simp [javaLocLines, splitNL, splitNLAux, javaLocLoop]
    | true => simpa using trailer_renderLines d h cs nf

/-- C++ CPU profiles: any line termination of the memory map after the end marker -/
theorem parseCPU_printCpuWith (cs : List Bool) (nf : Bool) (d : CpuDoc) (h : d.wf = true)
    (hlast : nf = true → ∀ m, d.map = some m → m.bodyLines.getLast? ≠ some []) :
    parseCPU (printCpuWith cs nf d) = .ok (expectedCpu d) := by
  have hmap : ∀ m, d.map = some m → d.eod = true ∧ m.wf = true := by
    intro m hm
    simp only [CpuDoc.wf, Bool.and_eq_true] at h
    have := h.2; rw [hm] at this; simpa using this
  have e : printCpuWith cs nf d = words d.big d.w64 [0, 3, 0, d.period, 0] ++
      d.bodyT (if d.eod then (match d.map with | none => [] | some m => renderLines cs nf m.bodyLines) else []) := by
    unfold printCpuWith CpuDoc.bodyT
    simp only [words_append, List.append_assoc]
    cases d.eod <;> cases d.map <;> rfl
  rw [e]
  apply parseCPUWith_text javaCpuProfile d h
  apply cpuProfile_bodyT d h
  · intro he; simp [he]
  · cases heod : d.eod with
    | false => simp [splitLines, splitLinesAux]
    | true =>
      cases hm : d.map with
      | none => simp [splitLines, splitLinesAux, tailMappings]
      | some m =>
        simp only [if_true, tailMappings]
        rw [splitLines_renderLines cs nf _ (LineOK_bodyLines (hmap m hm).2) (fun hn => hlast hn m hm),
          parseProcMaps_bodyLines m (hmap m hm).2]

end PV.Legacy
