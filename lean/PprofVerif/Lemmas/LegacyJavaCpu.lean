import PprofVerif.Lemmas.LegacyJava
import PprofVerif.Model.LegacyJavaCpu
/-!
Helper lemmas for C14: binary Java CPU profiles — `parseCPU (printJavaCpu d) = ok (expectedJavaCpu d)`,
and `parseCPU` on C++ CPU documents (`parseCPU = parseCPUWith javaCpuProfile`).
-/
namespace PV.Legacy
open PV

theorem parseCPU_printCpu (d : CpuDoc) (h : d.wf = true) : parseCPU (printCpu d) = .ok (expectedCpu d) :=
  parseCPUWith_printCpu javaCpuProfile d h

theorem cpuHeaderWords_printJava (big w64 : Bool) (period : Nat) (R : Str) (hp : 0 < period) (hpb : period < wordBound w64) :
    cpuHeaderWords big w64 (words big w64 [0, 3, 1, period, 0] ++ R) = some (true, period, R) := by
  have h0 : 0 < wordBound w64 := by have := wordBound_pos w64; omega
  have h1 : 1 < wordBound w64 := by have := wordBound_pos w64; omega
  have h3 : 3 < wordBound w64 := wordBound_pos w64
  unfold cpuHeaderWords
  simp only [words_cons, words_nil, List.append_nil, List.append_assoc]
  rw [getWord_word big w64 0 _ h0]
  simp only [Option.bind_eq_bind, Option.bind_some]
  rw [getWord_word big w64 3 _ h3]
  simp only [Option.bind_some]
  rw [getWord_word big w64 1 _ h1]
  simp only [Option.bind_some]
  rw [getWord_word big w64 period _ hpb]
  simp only [Option.bind_some]
  rw [getWord_word big w64 0 _ h0]
  simp [hp]

def JavaCpuDoc.text (d : JavaCpuDoc) : Str := if d.eod then unlines d.trailerLines else []

def JavaCpuDoc.body (d : JavaCpuDoc) : Str :=
  words d.big d.w64 (d.recs.flatMap CpuRec.words) ++ (words d.big d.w64 (if d.eod then [0, 1, 0] else []) ++ d.text)

theorem printJavaCpu_eq (d : JavaCpuDoc) : printJavaCpu d = words d.big d.w64 [0, 3, 1, d.period, 0] ++ d.body := by
  unfold printJavaCpu JavaCpuDoc.body JavaCpuDoc.text
  simp only [words_append, List.append_assoc]

theorem printJavaCpu_eq2 (d : JavaCpuDoc) :
    printJavaCpu d = word d.big d.w64 0 ++ (word d.big d.w64 3 ++ (words d.big d.w64 [1, d.period, 0] ++ d.body)) := by
  rw [printJavaCpu_eq]
  simp only [words_cons, words_nil, List.append_nil, List.append_assoc]

theorem LineOK_trailerLines (d : JavaCpuDoc)
    (hlocs : ∀ l ∈ d.locs, (∀ f ∈ l.fill, f.wf = true) ∧ l.kind.wf = true) : ∀ l ∈ d.trailerLines, LineOK l := by
  intro l hl
  simp only [JavaCpuDoc.trailerLines, List.mem_append, List.mem_replicate, List.mem_flatMap, List.mem_singleton] at hl
  rcases hl with hl | ⟨jl, hjl, hl⟩
  · rw [hl.2]; exact LineOK_nil
  · rcases hl with hl | hl
    · simp only [printFillers, List.mem_map] at hl
      obtain ⟨f, hf, rfl⟩ := hl
      exact LineOK_filler ((hlocs jl hjl).1 f hf)
    · subst hl
      intro b hb
      have := jl.print_bytes (hlocs jl hjl).2 b hb
      exact ⟨this.2.2.1, this.2.2.2⟩

theorem javaCpuProfile_body (d : JavaCpuDoc) (h : d.wf = true) :
    javaCpuProfile d.big d.w64 d.period d.body = .ok (expectedJavaCpu d) := by
  simp only [JavaCpuDoc.wf, Bool.and_eq_true, decide_eq_true_eq, List.all_eq_true, Bool.not_eq_true',
    Bool.and_eq_false_iff, beq_eq_false_iff_ne, ne_eq, Bool.or_eq_true, beq_iff_eq, List.isEmpty_iff] at h
  obtain ⟨⟨⟨⟨hp, hpb⟩, hrecs⟩, heodc⟩, hlocs⟩ := h
  have hb : d.wordBound = wordBound d.w64 := rfl
  have hrecs' : ∀ r ∈ d.recs, r.count < wordBound d.w64 ∧ r.addrs.length < two32 ∧ (∀ a ∈ r.addrs, a < wordBound d.w64) ∧
      ¬ (r.count = 0 ∧ r.addrs = [0]) := by
    intro r hr
    have := hrecs r hr
    rw [hb] at this
    refine ⟨this.1.1.1, this.1.1.2, this.1.2, ?_⟩
    intro hc
    rcases this.2 with h1 | h1
    · exact h1 hc.1
    · exact h1 hc.2
  have hlocwf : ∀ l ∈ d.locs, l.kind.wf = true ∧ l.addr < two64 := fun l hl => ⟨(hlocs l hl).2, (hlocs l hl).1.2⟩
  unfold javaCpuProfile
  have hfuel : d.body.length + 1 = (d.body.length + 1 - d.recs.length) + d.recs.length := by
    have := words_recs_length d.big d.w64 d.recs
    unfold JavaCpuDoc.body
    simp only [List.length_append]; omega
  have hpos : ∃ f, d.body.length + 1 - d.recs.length = f + 1 := by
    have := words_recs_length d.big d.w64 d.recs
    refine ⟨d.body.length - d.recs.length, ?_⟩
    unfold JavaCpuDoc.body
    simp only [List.length_append]; omega
  obtain ⟨f, hf⟩ := hpos
  rw [hfuel, hf]
  rw [show d.body = words d.big d.w64 (d.recs.flatMap CpuRec.words) ++
    (words d.big d.w64 (if d.eod then [0, 1, 0] else []) ++ d.text) from rfl]
  rw [cpuSamplesLoop_recs d.big d.w64 (javaCpuSample d.period) d.recs hrecs']
  simp only [List.append_nil]
  unfold JavaCpuDoc.text expectedJavaCpu
  cases heod : d.eod with
  | false =>
    simp only [Bool.false_eq_true, if_false, words_nil, List.append_nil]
    rw [cpuSamplesLoop_end]
    simp [splitNL, splitNLAux, javaLocLoop]
  | true =>
    simp only [if_true]
    rw [cpuSamplesLoop_eod]
    simp only [List.reverse_reverse]
    rw [splitNL_unlines _ (LineOK_trailerLines d (fun l hl => ⟨(hlocs l hl).1.1, (hlocs l hl).2⟩))]
    simp only [List.isEmpty_nil, if_true, List.append_nil]
    unfold JavaCpuDoc.trailerLines
    rw [javaLocLoop_blanks, javaLocLoop_locs d.locs hlocwf]

theorem parseCPU_printJavaCpu (d : JavaCpuDoc) (h : d.wf = true) : parseCPU (printJavaCpu d) = .ok (expectedJavaCpu d) := by
  have hwf := h
  simp only [JavaCpuDoc.wf, Bool.and_eq_true, decide_eq_true_eq] at h
  obtain ⟨⟨⟨⟨hp, hpb⟩, _⟩, _⟩, _⟩ := h
  have hb : d.wordBound = wordBound d.w64 := rfl
  rw [hb] at hpb
  have hright : cpuHeaderWords d.big d.w64 (printJavaCpu d) = some (true, d.period, d.body) := by
    rw [printJavaCpu_eq]; exact cpuHeaderWords_printJava d.big d.w64 d.period d.body hp hpb
  have hbody := javaCpuProfile_body d hwf
  unfold parseCPU parseCPUWith
  cases hbig : d.big <;> cases hw : d.w64 <;> rw [hbig, hw] at hright hbody
  · simp only [hright, hbody]
  · have e := printJavaCpu_eq2 d
    rw [hbig, hw] at e
    have w1 : cpuHeaderWords false false (printJavaCpu d) = none := by
      rw [e]
      exact cpuHeaderWords_none false false [0, 0, 0, 0] [0, 0, 0, 0] ([3, 0, 0, 0, 0, 0, 0, 0] ++ _) rfl rfl (by decide)
    have w2 : cpuHeaderWords true false (printJavaCpu d) = none := by
      rw [e]
      exact cpuHeaderWords_none true false [0, 0, 0, 0] [0, 0, 0, 0] ([3, 0, 0, 0, 0, 0, 0, 0] ++ _) rfl rfl (by decide)
    simp only [w1, w2, hright, hbody]
  · have e := printJavaCpu_eq2 d
    rw [hbig, hw] at e
    have w1 : cpuHeaderWords false false (printJavaCpu d) = none := by
      rw [e]
      exact cpuHeaderWords_none false false [0, 0, 0, 0] [0, 0, 0, 3] _ rfl rfl (by decide)
    simp only [w1, hright, hbody]
  · have e := printJavaCpu_eq2 d
    rw [hbig, hw] at e
    have w1 : cpuHeaderWords false false (printJavaCpu d) = none := by
      rw [e]
      exact cpuHeaderWords_none false false [0, 0, 0, 0] [0, 0, 0, 0] ([0, 0, 0, 0, 0, 0, 0, 3] ++ _) rfl rfl (by decide)
    have w2 : cpuHeaderWords true false (printJavaCpu d) = none := by
      rw [e]
      exact cpuHeaderWords_none true false [0, 0, 0, 0] [0, 0, 0, 0] ([0, 0, 0, 0, 0, 0, 0, 3] ++ _) rfl rfl (by decide)
    have w3 : cpuHeaderWords false true (printJavaCpu d) = none := by
      rw [e]
      exact cpuHeaderWords_none false true [0, 0, 0, 0, 0, 0, 0, 0] [0, 0, 0, 0, 0, 0, 0, 3] _ rfl rfl (by decide)
    simp only [w1, w2, w3, hright, hbody]

end PV.Legacy
