import PprofVerif.Lemmas.Aggregate
/-!
Which `NodeInfo` fields can be non-blank at each flag set of `Aggregate`, and how many frames a
location contributes — read off `framesAgg`.
-/
namespace PV.Graph
open PV

theorem optAll_mem {α β : Type} (f : α → Option β) (l : List α) (bs : List β) (h : optAll f l = some bs)
    (b : β) (hb : b ∈ bs) : ∃ a ∈ l, f a = some b := by
  induction l generalizing bs with
  | nil => simp [optAll] at h; subst h; simp at hb
  | cons a r ih =>
    cases hfa : f a with
    | none => simp [optAll, hfa] at h
    | some b0 =>
      cases hr : optAll f r with
      | none => simp [optAll, hfa, hr] at h
      | some bs' =>
        simp [optAll, hfa, hr] at h
        subst h
        rcases List.mem_cons.mp hb with rfl | hb'
        · exact ⟨a, List.mem_cons_self, hfa⟩
        · obtain ⟨x, hx, hfx⟩ := ih bs' hr hb'
          exact ⟨x, List.mem_cons_of_mem _ hx, hfx⟩

theorem optAll_length {α β : Type} (f : α → Option β) (l : List α) (bs : List β) (h : optAll f l = some bs) :
    bs.length = l.length := by
  induction l generalizing bs with
  | nil => simp [optAll] at h; subst h; rfl
  | cons a r ih =>
    cases hfa : f a with
    | none => simp [optAll, hfa] at h
    | some b0 =>
      cases hr : optAll f r with
      | none => simp [optAll, hfa, hr] at h
      | some bs' =>
        simp [optAll, hfa, hr] at h
        subst h
        simp [ih bs' hr]

/-- every frame at a granularity comes from `nodeInfoAgg` on some location and line of the profile -/
theorem framesAgg_mem (clean : Str → Str) (p : Profile) (o : GOpts) (f : AggFlags) (s : Sample)
    (fs : List NodeInfo) (h : framesAgg clean p o f s = some fs) (ni : NodeInfo) (hni : ni ∈ fs) :
    ∃ l ln objfile, nodeInfoAgg clean p o f l ln objfile = some ni := by
  unfold framesAgg at h
  cases hp : optAll (locOfAgg clean p o f) s.locationIDs with
  | none => simp [hp] at h
  | some perLoc =>
    simp only [hp, Option.map_some, Option.some.injEq] at h
    subst h
    simp only [List.mem_flatten, List.mem_reverse, List.mem_map] at hni
    obtain ⟨per', ⟨per, hper, rfl⟩, hmem⟩ := hni
    have hmem' : ni ∈ per := List.mem_reverse.mp hmem
    obtain ⟨id, _, hloc⟩ := optAll_mem _ _ _ hp per hper
    unfold locOfAgg at hloc
    cases hl : p.findLocation id with
    | none => simp [hl] at hloc
    | some l =>
      simp only [hl] at hloc
      unfold locNodesAgg at hloc
      obtain ⟨ln, _, hln⟩ := optAll_mem _ _ _ hloc ni hmem'
      exact ⟨l, ln, _, hln⟩

/-- a blanked field is blank in every entry -/
theorem nodeInfoAgg_fields (clean : Str → Str) (p : Profile) (o : GOpts) (f : AggFlags) (l : Location) (ln : Line)
    (objfile : Str) (ni : NodeInfo) (h : nodeInfoAgg clean p o f l ln objfile = some ni) :
    (f.address = false → ni.address = 0) ∧
    (f.linenumber = false → ni.lineno = 0 ∧ ni.columnno = 0) ∧
    (f.columnnumber = false → ni.columnno = 0) ∧
    (f.filename = false → ni.file = []) ∧
    (f.function = false → ni.name = [] ∧ ni.origName = [] ∧ ni.startLine = 0) := by
  unfold nodeInfoAgg at h
  by_cases h0 : ln.functionID = 0
  · simp only [h0, if_true, Option.some.injEq] at h
    subst h
    refine ⟨fun ha => by simp [ha], fun _ => ⟨rfl, rfl⟩, fun _ => rfl, fun _ => rfl, fun _ => ⟨rfl, rfl, rfl⟩⟩
  · simp only [h0, if_false] at h
    cases hf : p.findFunction ln.functionID with
    | none => simp [hf] at h
    | some fn =>
      simp only [hf, Option.some.injEq] at h
      subst h
      refine ⟨fun ha => by simp [ha], fun hl => by simp [hl], fun hc => by simp [hc], fun hfl => by simp [hfl], ?_⟩
      intro hfn
      simp only [hfn, Bool.false_eq_true, if_false]
      cases o.origFnNames <;> simp

/-- without inline frames every location contributes exactly one entry -/
theorem framesAgg_length_noinline (clean : Str → Str) (p : Profile) (o : GOpts) (f : AggFlags) (s : Sample)
    (hinl : f.inlineFrame = false) (fs : List NodeInfo) (h : framesAgg clean p o f s = some fs) :
    fs.length = s.locationIDs.length := by
  unfold framesAgg at h
  cases hp : optAll (locOfAgg clean p o f) s.locationIDs with
  | none => simp [hp] at h
  | some perLoc =>
    simp only [hp, Option.map_some, Option.some.injEq] at h
    subst h
    have hone : ∀ per ∈ perLoc, per.length = 1 := by
      intro per hper
      obtain ⟨id, _, hloc⟩ := optAll_mem _ _ _ hp per hper
      unfold locOfAgg at hloc
      cases hl : p.findLocation id with
      | none => simp [hl] at hloc
      | some l =>
        simp only [hl] at hloc
        unfold locNodesAgg at hloc
        rw [optAll_length _ _ _ hloc]
        by_cases he : l.lines.isEmpty = true
        · simp [he]
        · simp only [he, Bool.false_eq_true, if_false]
          unfold keepLines
          have hne : l.lines ≠ [] := by simpa using he
          have hpos : 0 < l.lines.length := List.length_pos_iff.mpr hne
          by_cases h1 : l.lines.length > 1
          · simp [hinl, h1]; omega
          · simp [hinl, h1]; omega
    have hlen : ∀ (L : List (List NodeInfo)), (∀ per ∈ L, per.length = 1) → L.flatten.length = L.length := by
      intro L
      induction L with
      | nil => intro _; rfl
      | cons a r ih =>
        intro hL
        simp [hL a List.mem_cons_self, ih (fun x hx => hL x (List.mem_cons_of_mem _ hx))]
        omega
    rw [hlen]
    · simp [optAll_length _ _ _ hp]
    · intro per hper
      simp only [List.mem_reverse, List.mem_map] at hper
      obtain ⟨per0, h0, rfl⟩ := hper
      simp [hone per0 h0]

end PV.Graph
