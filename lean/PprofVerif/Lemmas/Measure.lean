import PprofVerif.Model.MeasureFacts
import Mathlib.Tactic.Ring
import Mathlib.Tactic.Linarith
/-!
# Lemmas about the model of internal/measurement (C15)
-/
namespace PV.Measure
open PV

/-! Q basics -/
namespace Q
theorem eqv_refl (a : Q) : eqv a a := rfl
theorem eqv_symm {a b : Q} (h : eqv a b) : eqv b a := by unfold eqv at *; exact h.symm
theorem eqv_trans {a b c : Q} (hb : 0 < b.den) (h1 : eqv a b) (h2 : eqv b c) : eqv a c := by
  unfold eqv at *
  have hb' : (0 : Int) < b.den := by exact_mod_cast hb
  have : (a.num * c.den) * b.den = (c.num * a.den) * b.den := by
    calc (a.num * c.den) * b.den = (a.num * b.den) * c.den := by ring
      _ = (b.num * a.den) * c.den := by rw [h1]
      _ = (b.num * c.den) * a.den := by ring
      _ = (c.num * b.den) * a.den := by rw [h2]
      _ = (c.num * a.den) * b.den := by ring
  exact Int.eq_of_mul_eq_mul_right (ne_of_gt hb') this

@[simp] theorem neg_neg (a : Q) : a.neg.neg = a := by
  cases a; simp [neg]

theorem neg_ofInt (v : Int) : (ofInt (-v)).neg = ofInt v := by simp [neg, ofInt]
end Q

theorem convertUnit_eq (F : Family) (v : Int) (frm dst : Str) :
    convertUnit F v frm dst = (sniffUnit F frm).map fun fu => convertFrom F fu v dst := by
  unfold convertUnit convertFrom
  cases sniffUnit F frm with
  | none => rfl
  | some fu =>
    simp only [Option.map_some]
    split
    · cases autoScale F ((Q.ofInt v).mul fu.factor) <;> rfl
    · cases sniffUnit F dst <;> rfl

theorem scaleCore_eq (T : Table) (v : Int) (frm dst : Str) :
    scaleCore T v frm dst =
      match firstFamily T frm with
      | some (F, fu) => convertFrom F fu v dst
      | none => passthrough v dst := by
  unfold scaleCore firstFamily passthrough
  induction T with
  | nil => rfl
  | cons F T ih =>
    simp only [List.findSome?_cons, convertUnit_eq]
    cases h : sniffUnit F frm with
    | none => simpa [convertUnit_eq] using ih
    | some fu => simp

namespace Q
theorem div_neg (a b : Q) : (a.neg).div b = (a.div b).neg := by
  simp [div, neg]
theorem abs_neg (a : Q) : a.neg.abs = a.abs := by
  simp [abs, neg]
theorem mul_ofInt_neg (v : Int) (f : Q) : (ofInt (-v)).mul f = ((ofInt v).mul f).neg := by
  simp [mul, ofInt, neg]
end Q

theorem autoStep_neg (m : Q) : autoStep m.neg = autoStep m := by
  funext acc u; simp [autoStep, Q.abs_neg]

theorem autoScale_neg (F : Family) (m : Q) :
    autoScale F m.neg = (autoScale F m).map fun r => (r.1.neg, r.2) := by
  unfold autoScale
  rw [autoStep_neg]
  simp only
  split <;> simp [Q.div_neg]

theorem convertFrom_neg (F : Family) (fu : MUnit) (v : Int) (dst : Str) :
    convertFrom F fu (-v) dst = ((convertFrom F fu v dst).1.neg, (convertFrom F fu v dst).2) := by
  unfold convertFrom
  simp only [Q.mul_ofInt_neg]
  split
  · rw [autoScale_neg]
    cases autoScale F ((Q.ofInt v).mul fu.factor) <;> simp [Q.div_neg]
  · cases sniffUnit F dst <;> simp [Q.div_neg]

theorem passthrough_neg (v : Int) (dst : Str) :
    passthrough (-v) dst = ((passthrough v dst).1.neg, (passthrough v dst).2) := by
  simp [passthrough, Q.ofInt, Q.neg]

theorem scaleCore_neg (T : Table) (v : Int) (frm dst : Str) :
    scaleCore T (-v) frm dst = ((scaleCore T v frm dst).1.neg, (scaleCore T v frm dst).2) := by
  rw [scaleCore_eq, scaleCore_eq]
  cases firstFamily T frm with
  | none => simp [passthrough_neg]
  | some p => obtain ⟨F, fu⟩ := p; simp [convertFrom_neg]

/-- In exact arithmetic the sign guard of `Scale` is transparent. -/
theorem scale_eq_core (T : Table) (v : Int) (frm dst : Str) :
    scale T v frm dst = scaleCore T v frm dst := by
  unfold scale
  split
  · rename_i h
    have hv : negI64 v = -v := by
      unfold negI64; split
      · rename_i h2; exfalso; have := h.2; simp [negI64, h2, minInt64] at this
      · rfl
    have : v = -(-v) := by simp
    rw [hv]
    conv_rhs => rw [this, scaleCore_neg]
  · rfl

end PV.Measure
