import PprofVerif.Model.MeasureFacts
import Mathlib.Tactic.Ring
import Mathlib.Tactic.Linarith
/-!
# Lemmas about the model of internal/measurement (C15)
-/
namespace PV.Measure
open PV

/-! Q basics -/
namespace Q
theorem eqv_refl (a : Q) : eqv a a := rfl
theorem eqv_symm {a b : Q} (h : eqv a b) : eqv b a := by unfold eqv at *; exact h.symm
theorem eqv_trans {a b c : Q} (hb : 0 < b.den) (h1 : eqv a b) (h2 : eqv b c) : eqv a c := by
  unfold eqv at *
  have hb' : (0 : Int) < b.den := by exact_mod_cast hb
  have : (a.num * c.den) * b.den = (c.num * a.den) * b.den := by
    calc (a.num * c.den) * b.den = (a.num * b.den) * c.den := by ring
      _ = (b.num * a.den) * c.den := by rw [h1]
      _ = (b.num * c.den) * a.den := by ring
      _ = (c.num * b.den) * a.den := by rw [h2]
      _ = (c.num * a.den) * b.den := by ring
  exact Int.eq_of_mul_eq_mul_right (ne_of_gt hb') this

@[simp] theorem neg_neg (a : Q) : a.neg.neg = a := by
  cases a; simp [neg]

theorem neg_ofInt (v : Int) : (ofInt (-v)).neg = ofInt v := by simp [neg, ofInt]
end Q

theorem convertUnit_eq (F : Family) (v : Int) (frm dst : Str) :
    convertUnit F v frm dst = (sniffUnit F frm).map fun fu => convertFrom F fu v dst := by
  unfold convertUnit convertFrom
  cases sniffUnit F frm with
  | none => rfl
  | some fu =>
    simp only [Option.map_some]
    split
    · cases autoScale F ((Q.ofInt v).mul fu.factor) <;> rfl
    · cases sniffUnit F dst <;> rfl

theorem scaleCore_eq (T : Table) (v : Int) (frm dst : Str) :
    scaleCore T v frm dst =
      match firstFamily T frm with
      | some (F, fu) => convertFrom F fu v dst
      | none => passthrough v dst := by
  unfold scaleCore firstFamily passthrough
  induction T with
  | nil => rfl
  | cons F T ih =>
    simp only [List.findSome?_cons, convertUnit_eq]
    cases h : sniffUnit F frm with
    | none => simpa [convertUnit_eq] using ih
    | some fu => simp

namespace Q
theorem div_neg (a b : Q) : (a.neg).div b = (a.div b).neg := by
  simp [div, neg]
theorem abs_neg (a : Q) : a.neg.abs = a.abs := by
  simp [abs, neg]
theorem mul_ofInt_neg (v : Int) (f : Q) : (ofInt (-v)).mul f = ((ofInt v).mul f).neg := by
  simp [mul, ofInt, neg]
end Q

theorem autoStep_neg (m : Q) : autoStep m.neg = autoStep m := by
  funext acc u; simp [autoStep, Q.abs_neg]

theorem autoScale_neg (F : Family) (m : Q) :
    autoScale F m.neg = (autoScale F m).map fun r => (r.1.neg, r.2) := by
  unfold autoScale
  rw [autoStep_neg]
  simp only
  split <;> simp [Q.div_neg]

theorem convertFrom_neg (F : Family) (fu : MUnit) (v : Int) (dst : Str) :
    convertFrom F fu (-v) dst = ((convertFrom F fu v dst).1.neg, (convertFrom F fu v dst).2) := by
  unfold convertFrom
  simp only [Q.mul_ofInt_neg]
  split
  · rw [autoScale_neg]
    cases autoScale F ((Q.ofInt v).mul fu.factor) <;> simp [Q.div_neg]
  · cases sniffUnit F dst <;> simp [Q.div_neg]

theorem passthrough_neg (v : Int) (dst : Str) :
    passthrough (-v) dst = ((passthrough v dst).1.neg, (passthrough v dst).2) := by
  simp [passthrough, Q.ofInt, Q.neg]

theorem scaleCore_neg (T : Table) (v : Int) (frm dst : Str) :
    scaleCore T (-v) frm dst = ((scaleCore T v frm dst).1.neg, (scaleCore T v frm dst).2) := by
  rw [scaleCore_eq, scaleCore_eq]
  cases firstFamily T frm with
  | none => simp [passthrough_neg]
  | some p => obtain ⟨F, fu⟩ := p; simp [convertFrom_neg]

/-- In exact arithmetic the sign guard of `Scale` is transparent. -/
theorem scale_eq_core (T : Table) (v : Int) (frm dst : Str) :
    scale T v frm dst = scaleCore T v frm dst := by
  unfold scale
  split
  · rename_i h
    have hv : negI64 v = -v := by
      unfold negI64; split
      · rename_i h2; exfalso; have := h.2; simp [negI64, h2, minInt64] at this
      · rfl
    have : v = -(-v) := by simp
    rw [hv]
    conv_rhs => rw [this, scaleCore_neg]
  · rfl


namespace Q
theorem le_total' (a b : Q) : le a b ∨ le b a := by unfold le; omega
theorem le_of_not_le {a b : Q} (h : ¬ le a b) : le b a := by unfold le at *; omega
theorem le_trans' {a b c : Q} (hb : 0 < b.den) (ha : 0 < a.den) (hc : 0 < c.den)
    (h1 : le a b) (h2 : le b c) : le a c := by
  unfold le at *
  have hb' : (0 : Int) < b.den := by exact_mod_cast hb
  have ha' : (0 : Int) < a.den := by exact_mod_cast ha
  have hc' : (0 : Int) < c.den := by exact_mod_cast hc
  have e1 : a.num * b.den * c.den ≤ b.num * a.den * c.den := Int.mul_le_mul_of_nonneg_right h1 (le_of_lt hc')
  have e2 : b.num * c.den * a.den ≤ c.num * b.den * a.den := Int.mul_le_mul_of_nonneg_right h2 (le_of_lt ha')
  have : (a.num * c.den) * b.den ≤ (c.num * a.den) * b.den := by nlinarith
  exact Int.le_of_mul_le_mul_right this hb'
end Q

def AutoInv (m : Q) (seen : List MUnit) (acc : Q × Str) : Prop :=
  (acc = (Q.zero, []) ∧ ∀ u ∈ seen, ¬ Qual m u) ∨
  (∃ u ∈ seen, acc = (u.factor, u.name) ∧ Qual m u ∧ ∀ w ∈ seen, Qual m w → Q.le w.factor u.factor)

theorem autoStep_inv (m : Q) (seen : List MUnit) (acc : Q × Str) (u : MUnit)
    (hs : ∀ w ∈ seen, PosU w) (hu : PosU u) (h : AutoInv m seen acc) :
    AutoInv m (seen ++ [u]) (autoStep m acc u) := by
  unfold autoStep
  by_cases hq : Qual m u
  · have hqB : Q.leB Q.one (m.abs.div u.factor) = true := by simpa [Q.leB, Qual] using hq
    rcases h with ⟨hacc, hnone⟩ | ⟨a, ha, hacc, hqa, hmax⟩
    · -- nothing chosen yet: zero ≤ any positive factor
      have : Q.leB acc.1 u.factor = true := by
        subst hacc
        have h1 := hu.1
        simp [Q.leB, Q.le, Q.zero, Gen.Units.RawUnit.factor]
        omega
      simp only [this, hqB, Bool.and_self, if_true]
      right
      refine ⟨u, by simp, rfl, hq, ?_⟩
      intro w hw hqw
      rcases List.mem_append.1 hw with hw | hw
      · exact absurd hqw (hnone w hw)
      · simp at hw; subst hw; unfold Q.le; omega
    · by_cases hle : Q.le acc.1 u.factor
      · have : Q.leB acc.1 u.factor = true := by simpa [Q.leB] using hle
        simp only [this, hqB, Bool.and_self, if_true]
        right
        refine ⟨u, by simp, rfl, hq, ?_⟩
        intro w hw hqw
        rcases List.mem_append.1 hw with hw | hw
        · have h1 := hmax w hw hqw
          rw [hacc] at hle
          have pa := hs a ha
          have pw := hs w hw
          exact Q.le_trans' (b := a.factor) (by exact pa.2) (by exact pw.2) (by exact hu.2) h1 hle
        · simp at hw; subst hw; unfold Q.le; omega
      · have : Q.leB acc.1 u.factor = false := by simpa [Q.leB] using hle
        simp only [this, Bool.false_and]
        right
        refine ⟨a, by simp [ha], hacc, hqa, ?_⟩
        intro w hw hqw
        rcases List.mem_append.1 hw with hw | hw
        · exact hmax w hw hqw
        · simp at hw; subst hw
          rw [hacc] at hle
          exact Q.le_of_not_le hle
  · have hqB : Q.leB Q.one (m.abs.div u.factor) = false := by simpa [Q.leB, Qual] using hq
    simp only [hqB, Bool.and_false]
    rcases h with ⟨hacc, hnone⟩ | ⟨a, ha, hacc, hqa, hmax⟩
    · left
      refine ⟨hacc, ?_⟩
      intro w hw
      rcases List.mem_append.1 hw with hw | hw
      · exact hnone w hw
      · simp at hw; subst hw; exact hq
    · right
      refine ⟨a, by simp [ha], hacc, hqa, ?_⟩
      intro w hw hqw
      rcases List.mem_append.1 hw with hw | hw
      · exact hmax w hw hqw
      · simp at hw; subst hw; exact absurd hqw hq

theorem autoFold_inv (m : Q) : ∀ (us seen : List MUnit) (acc : Q × Str),
    (∀ w ∈ seen, PosU w) → (∀ w ∈ us, PosU w) → AutoInv m seen acc →
    AutoInv m (seen ++ us) (us.foldl (autoStep m) acc)
  | [], seen, acc, _, _, h => by simpa using h
  | u :: us, seen, acc, hs, hu, h => by
    have h1 := autoStep_inv m seen acc u hs (hu u (by simp)) h
    have := autoFold_inv m us (seen ++ [u]) (autoStep m acc u)
      (by intro w hw; rcases List.mem_append.1 hw with hw | hw
          · exact hs w hw
          · simp at hw; subst hw; exact hu w (by simp))
      (by intro w hw; exact hu w (by simp [hw])) h1
    simpa using this

/-- `autoScale` picks the unit with the largest factor among those that keep the magnitude at
or above one, and fails exactly when there is none. -/
theorem autoScale_spec (F : Family) (m : Q) (hpos : ∀ u ∈ F.units, PosU u) :
    match autoScale F m with
    | none => ∀ u ∈ F.units, ¬ Qual m u
    | some r => ∃ u ∈ F.units, r = (m.div u.factor, u.name) ∧ Qual m u ∧
        ∀ w ∈ F.units, Qual m w → Q.le w.factor u.factor := by
  have h := autoFold_inv m F.units [] (Q.zero, []) (by simp) hpos (Or.inl ⟨rfl, by simp⟩)
  simp only [List.nil_append] at h
  unfold autoScale
  simp only
  rcases h with ⟨hacc, hnone⟩ | ⟨a, ha, hacc, hqa, hmax⟩
  · rw [hacc]; simpa [Q.zero] using hnone
  · rw [hacc]
    have : a.factor.num ≠ 0 := by
      have := (hpos a ha).1
      simp only [Gen.Units.RawUnit.factor]; omega
    simp only [this, if_false]
    exact ⟨a, ha, rfl, hqa, hmax⟩

theorem findByAlias_some {F : Family} {a : Str} {u : MUnit} (h : findByAlias F a = some u) :
    u ∈ F.units ∧ a ∈ u.aliases := by
  unfold findByAlias at h
  have h1 := List.mem_of_find?_eq_some h
  have h2 := List.find?_some h
  exact ⟨h1, by simpa using h2⟩

theorem sniffUnit_some {F : Family} {s : Str} {u : MUnit} (h : sniffUnit F s = some u) :
    u ∈ F.units ∧ (asciiLower s ∈ unitNames u ∨
      (2 < (asciiLower s).length ∧ trimS (asciiLower s) ∈ unitNames u)) := by
  unfold sniffUnit at h
  split at h
  · rename_i u' hu
    cases h
    have h1 := List.mem_of_find?_eq_some hu
    have h2 := List.find?_some hu
    have : u.name = s := by simpa using h2
    exact ⟨h1, Or.inl (by rw [← this]; simp [unitNames])⟩
  · simp only at h
    split at h
    · rename_i u' hu
      cases h
      exact ⟨(findByAlias_some hu).1, Or.inl (List.mem_cons_of_mem _ (findByAlias_some hu).2)⟩
    · split at h
      · rename_i hl
        exact ⟨(findByAlias_some h).1, Or.inr ⟨hl, List.mem_cons_of_mem _ (findByAlias_some h).2⟩⟩
      · cases h

theorem firstFamily_some {T : Table} {s : Str} {F : Family} {u : MUnit}
    (h : firstFamily T s = some (F, u)) : F ∈ T ∧ sniffUnit F s = some u := by
  unfold firstFamily at h
  obtain ⟨G, hG, hs⟩ := List.exists_of_findSome?_eq_some h
  cases hsn : sniffUnit G s with
  | none => simp [hsn] at hs
  | some w =>
    simp [hsn] at hs
    obtain ⟨rfl, rfl⟩ := hs
    exact ⟨hG, hsn⟩

theorem posU_of_table {T : Table} (hpos : factorsPosB T = true) {F : Family} (hF : F ∈ T) :
    PosU F.default ∧ ∀ u ∈ F.units, PosU u := by
  unfold factorsPosB at hpos
  rw [List.all_eq_true] at hpos
  have h := hpos F hF
  simp only [Bool.and_eq_true, List.all_eq_true, posQ, Gen.Units.RawUnit.factor] at h
  exact ⟨⟨of_decide_eq_true h.1.1, of_decide_eq_true h.1.2⟩,
    fun u hu => ⟨of_decide_eq_true (h.2 u hu).1, of_decide_eq_true (h.2 u hu).2⟩⟩

namespace Q
theorem div_mul_cancel (a b : Q) (hn : 0 < b.num) : eqv ((a.div b).mul b) a := by
  unfold eqv div mul
  simp only
  have h1 : b.num.sign = 1 := Int.sign_eq_one_of_pos hn
  rw [h1]; push_cast; rw [abs_of_pos hn]; ring

theorem mul_div_assoc (a b c : Q) : eqv ((a.mul b).div c) (a.mul (b.div c)) := by
  unfold eqv div mul; simp only; push_cast; ring
end Q

/-- the value `convertFrom` returns, times the factor of the unit it is expressed in, is the
source value times the source factor -/
theorem convertFrom_magnitude (F : Family) (fu : MUnit) (v : Int) (dst : Str)
    (hu : ∀ u ∈ F.units, PosU u) :
    ∃ u, (u ∈ F.units ∨ u = F.default) ∧ (convertFrom F fu v dst).2 = u.name ∧
      (convertFrom F fu v dst).1 = ((Q.ofInt v).mul fu.factor).div u.factor := by
  unfold convertFrom
  simp only
  split
  · have hs := autoScale_spec F ((Q.ofInt v).mul fu.factor) hu
    cases ha : autoScale F ((Q.ofInt v).mul fu.factor) with
    | none => exact ⟨F.default, Or.inr rfl, rfl, rfl⟩
    | some r =>
      rw [ha] at hs
      obtain ⟨u, hu', hr, _, _⟩ := hs
      exact ⟨u, Or.inl hu', by simp [hr], by simp [hr]⟩
  · cases hsn : sniffUnit F dst with
    | none => exact ⟨F.default, Or.inr rfl, rfl, rfl⟩
    | some tu => exact ⟨tu, Or.inl (sniffUnit_some hsn).1, rfl, rfl⟩

theorem round2_of_nonneg (q : Q) (hn : 0 ≤ q.num) (hd : 0 < q.den) :
    round2 q = ⟨(200 * q.num + q.den) / (2 * q.den), 100⟩ := by
  unfold round2
  have hd0 : q.den ≠ 0 := by omega
  simp only [hd0, if_false]
  congr 1
  rcases Int.lt_or_eq_of_le hn with hpos | hz
  · rw [Int.sign_eq_one_of_pos hpos]
    push_cast
    rw [abs_of_pos hpos]
    simp
  · rw [← hz]
    simp only [Int.sign_zero, Int.zero_mul, Int.mul_zero, Int.zero_add]
    have hd' : (0 : Int) < q.den := by exact_mod_cast hd
    rw [Int.ediv_eq_zero_of_lt (le_of_lt hd') (by omega)]

theorem ediv_mono_cross {A B C D : Int} (hB : 0 < B) (hD : 0 < D) (h : A * D ≤ C * B) :
    A / B ≤ C / D := by
  rw [Int.le_ediv_iff_mul_le hD]
  have h1 : A / B * B ≤ A := Int.ediv_mul_le A (ne_of_gt hB)
  have h2 : (A / B * D) * B ≤ C * B := by
    calc (A / B * D) * B = (A / B * B) * D := by ring
      _ ≤ A * D := Int.mul_le_mul_of_nonneg_right h1 (le_of_lt hD)
      _ ≤ C * B := h
  exact Int.le_of_mul_le_mul_right h2 hB

theorem round2_mono (a b : Q) (ha : 0 ≤ a.num) (had : 0 < a.den) (hbd : 0 < b.den)
    (h : Q.le a b) : Q.le (round2 a) (round2 b) := by
  have had' : (0 : Int) < a.den := by exact_mod_cast had
  have hbd' : (0 : Int) < b.den := by exact_mod_cast hbd
  unfold Q.le at h
  have hb : 0 ≤ b.num := by
    by_contra hneg
    have : b.num * a.den < 0 := Int.mul_neg_of_neg_of_pos (by omega) had'
    have : 0 ≤ a.num * b.den := Int.mul_nonneg ha (le_of_lt hbd')
    omega
  rw [round2_of_nonneg a ha had, round2_of_nonneg b hb hbd]
  unfold Q.le
  simp only
  have := ediv_mono_cross (A := 200 * a.num + a.den) (B := 2 * a.den) (C := 200 * b.num + b.den)
    (D := 2 * b.den) (by omega) (by omega) (by nlinarith)
  omega

theorem round2_fix (q : Q) (hn : 0 ≤ q.num) (hd : 0 < q.den)
    (hc : (100 * q.num) % q.den = 0) : Q.eqv (round2 q) q := by
  have hd' : (0 : Int) < q.den := by exact_mod_cast hd
  rw [round2_of_nonneg q hn hd]
  unfold Q.eqv
  simp only
  obtain ⟨k, hk⟩ := Int.dvd_of_emod_eq_zero hc
  have h1 : 200 * q.num + q.den = (2 * q.den) * k + q.den := by rw [show 200 * q.num = 2 * (100 * q.num) by ring, hk]; ring
  have h2 : (200 * q.num + q.den) / (2 * q.den) = k := by
    rw [h1, Int.add_comm, Int.add_mul_ediv_left _ _ (by omega : (2 * (q.den : Int)) ≠ 0)]
    rw [Int.ediv_eq_zero_of_lt (le_of_lt hd') (by omega)]; simp
  rw [h2]
  have : q.num * 100 = q.den * k := by rw [← hk]; ring
  push_cast
  nlinarith

theorem round2_ge_one (q : Q) (hd : 0 < q.den) (h : Q.le Q.one q) : Q.le Q.one (round2 q) := by
  have h1 := round2_mono Q.one q (by decide) (by decide) hd h
  have : round2 Q.one = ⟨100, 100⟩ := by decide
  rw [this] at h1
  unfold Q.le at *
  simp only [Q.one] at *
  omega

theorem qual_iff_le (m : Q) (u : MUnit) (hu : PosU u) (hm : 0 ≤ m.num) :
    Qual m u ↔ Q.le u.factor m := by
  unfold Qual Q.le Q.abs Q.div Q.one Gen.Units.RawUnit.factor
  simp only
  rw [Int.sign_eq_one_of_pos hu.1]
  push_cast
  rw [abs_of_pos hu.1, abs_of_nonneg hm]
  constructor <;> intro h <;> nlinarith

theorem mul_le_mul_eq {a b p q : Int} (h : a ≤ b) (e : p = q) (hq : 0 ≤ q) : a * p ≤ b * q := by
  subst e; exact Int.mul_le_mul_of_nonneg_right h hq

theorem div_pos_eq (m : Q) (u : MUnit) (hu : PosU u) :
    m.div u.factor = ⟨m.num * u.fden, m.den * u.fnum.toNat⟩ := by
  have : u.fnum.natAbs = u.fnum.toNat := by have := hu.1; omega
  simp [Q.div, Gen.Units.RawUnit.factor, Int.sign_eq_one_of_pos hu.1, this]


theorem mulfac_le_same (a b f1 f2 : Q) (ha : a.den = 100) (hb : b.den = 100) (h : Q.le a b)
    (e : f1.num * f2.den = f2.num * f1.den) (hp : 0 ≤ f2.num * f1.den) :
    Q.le (a.mul f1) (b.mul f2) := by
  unfold Q.le at *
  simp only [Q.mul, ha, hb] at *
  push_cast
  have hab : a.num ≤ b.num := by omega
  have key := mul_le_mul_eq hab e hp
  linarith [key]

theorem mulfac_le_step (a r f1 f2 : Q) (ha : a.den = 100) (hr : r.den = 100) (h : Q.le a r)
    (e : r.num * (f2.den * f1.num) = f2.num * f1.den * 100)
    (p1 : 0 < f1.num) (p2 : 0 < f2.den) : Q.le (a.mul f1) f2 := by
  unfold Q.le at *
  simp only [Q.mul, ha, hr] at *
  push_cast
  have hab : a.num ≤ r.num := by omega
  have p2' : (0 : Int) < f2.den := by exact_mod_cast p2
  have key := Int.mul_le_mul_of_nonneg_right hab (le_of_lt (Int.mul_pos p2' p1))
  linarith [key, e]

theorem le_mulfac_of_ge_one (b f : Q) (hb : b.den = 100) (h : Q.le Q.one b)
    (pn : 0 < f.num) (pd : 0 < f.den) : Q.le f (b.mul f) := by
  unfold Q.le at *
  simp only [Q.mul, hb, Q.one] at *
  push_cast
  have pd' : (0 : Int) < f.den := by exact_mod_cast pd
  have key := Int.mul_le_mul_of_nonneg_right (show (100 : Int) ≤ b.num by omega) (le_of_lt (Int.mul_pos pn pd'))
  linarith [key]

/-- the label read back with its unit: `round2 x · f` -/
theorem autoLabel_mono (F : Family) (hpos : ∀ u ∈ F.units, PosU u) (hcent : centesimalB F = true)
    (m1 m2 : Q) (h0 : 0 ≤ m1.num) (hd1 : 0 < m1.den) (hd2 : 0 < m2.den) (hle : Q.le m1 m2)
    (u1 u2 : MUnit) (hu1 : u1 ∈ F.units) (hu2 : u2 ∈ F.units)
    (hq1 : Qual m1 u1) (hq2 : Qual m2 u2)
    (hmax1 : ∀ w ∈ F.units, Qual m1 w → Q.le w.factor u1.factor)
    (hmax2 : ∀ w ∈ F.units, Qual m2 w → Q.le w.factor u2.factor) :
    Q.le ((round2 (m1.div u1.factor)).mul u1.factor) ((round2 (m2.div u2.factor)).mul u2.factor) := by
  have P1 := hpos u1 hu1
  have P2 := hpos u2 hu2
  obtain ⟨p1n, p1d⟩ := P1
  obtain ⟨p2n, p2d⟩ := P2
  have hd1' : (0 : Int) < m1.den := by exact_mod_cast hd1
  have hd2' : (0 : Int) < m2.den := by exact_mod_cast hd2
  have p1d' : (0 : Int) < u1.fden := by exact_mod_cast p1d
  have p2d' : (0 : Int) < u2.fden := by exact_mod_cast p2d
  have h02 : 0 ≤ m2.num := by
    unfold Q.le at hle
    by_contra hneg
    have : m2.num * m1.den < 0 := Int.mul_neg_of_neg_of_pos (by omega) hd1'
    have : 0 ≤ m1.num * m2.den := Int.mul_nonneg h0 (le_of_lt hd2')
    omega
  have l1 : Q.le u1.factor m1 := (qual_iff_le m1 u1 ⟨p1n, p1d⟩ h0).1 hq1
  have l2 : Q.le u2.factor m2 := (qual_iff_le m2 u2 ⟨p2n, p2d⟩ h02).1 hq2
  have l12 : Q.le u1.factor u2.factor := by
    apply hmax2 u1 hu1
    rw [qual_iff_le m2 u1 ⟨p1n, p1d⟩ h02]
    exact Q.le_trans' (b := m1) hd1 p1d hd2 l1 hle
  have t1 : ((u1.fnum.toNat : Nat) : Int) = u1.fnum := Int.toNat_of_nonneg (le_of_lt p1n)
  have t2 : ((u2.fnum.toNat : Nat) : Int) = u2.fnum := Int.toNat_of_nonneg (le_of_lt p2n)
  have x1eq := div_pos_eq m1 u1 ⟨p1n, p1d⟩
  have x2eq := div_pos_eq m2 u2 ⟨p2n, p2d⟩
  have x1d : 0 < (m1.div u1.factor).den := by
    rw [x1eq]; simp only; exact Nat.mul_pos hd1 (by omega)
  have x2d : 0 < (m2.div u2.factor).den := by
    rw [x2eq]; simp only; exact Nat.mul_pos hd2 (by omega)
  have x1n : 0 ≤ (m1.div u1.factor).num := by
    rw [x1eq]; exact Int.mul_nonneg h0 (le_of_lt p1d')
  have x2n : 0 ≤ (m2.div u2.factor).num := by
    rw [x2eq]; exact Int.mul_nonneg h02 (le_of_lt p2d')
  have rd1 : (round2 (m1.div u1.factor)).den = 100 := by rw [round2_of_nonneg _ x1n x1d]
  have rd2 : (round2 (m2.div u2.factor)).den = 100 := by rw [round2_of_nonneg _ x2n x2d]
  by_cases hq12 : Qual m1 u2
  · -- units of the same size: rounding is monotone
    have l21 : Q.le u2.factor u1.factor := hmax1 u2 hu2 hq12
    have e : u1.fnum * u2.fden = u2.fnum * u1.fden := by
      unfold Q.le at l12 l21; simp only [Gen.Units.RawUnit.factor] at l12 l21; omega
    have hx : Q.le (m1.div u1.factor) (m2.div u2.factor) := by
      rw [x1eq, x2eq]
      unfold Q.le at hle ⊢
      simp only
      push_cast
      rw [t1, t2]
      have key := mul_le_mul_eq hle (p := u1.fden * u2.fnum) (q := u2.fden * u1.fnum)
        (by linarith [e]) (le_of_lt (Int.mul_pos p2d' p1n))
      linarith [key]
    have hr := round2_mono _ _ x1n x1d x2d hx
    exact mulfac_le_same _ _ u1.factor u2.factor rd1 rd2 hr e (le_of_lt (Int.mul_pos p2n p1d'))
  · -- a unit step lies between the two values
    have nl : ¬ Q.le u2.factor m1 := fun h => hq12 ((qual_iff_le m1 u2 ⟨p2n, p2d⟩ h0).2 h)
    have lt12 : Q.lt u1.factor u2.factor := by
      unfold Q.lt
      by_contra hcon
      have l21 : Q.le u2.factor u1.factor := by unfold Q.le; omega
      exact nl (Q.le_trans' (b := u1.factor) p1d p2d hd1 l21 l1)
    -- R = f2 / f1 is a whole number of hundredths
    have hc : (100 * u2.fnum * (u1.fden : Int)) % (u2.fden * u1.fnum) = 0 := by
      unfold centesimalB at hcent
      rw [List.all_eq_true] at hcent
      have h1 := hcent u1 hu1
      rw [List.all_eq_true] at h1
      have h2 := h1 u2 hu2
      have : Q.ltB u1.factor u2.factor = true := by simpa [Q.ltB] using lt12
      simp only [this, Bool.not_true, Bool.false_or, decide_eq_true_eq] at h2
      exact h2
    let R : Q := ⟨u2.fnum * u1.fden, u2.fden * u1.fnum.toNat⟩
    have Rd : 0 < R.den := Nat.mul_pos p2d (by omega)
    have Rn : 0 ≤ R.num := Int.mul_nonneg (le_of_lt p2n) (le_of_lt p1d')
    have Rfix : Q.eqv (round2 R) R := by
      apply round2_fix R Rn Rd
      show (100 * (u2.fnum * ↑u1.fden)) % ((u2.fden * u1.fnum.toNat : Nat) : Int) = 0
      push_cast; rw [t1]
      rw [show 100 * (u2.fnum * (u1.fden : Int)) = 100 * u2.fnum * u1.fden by ring]
      exact hc
    have hxR : Q.le (m1.div u1.factor) R := by
      rw [x1eq]
      unfold Q.le at nl ⊢
      simp only [Gen.Units.RawUnit.factor] at nl ⊢
      show m1.num * ↑u1.fden * ((u2.fden * u1.fnum.toNat : Nat) : Int) ≤ u2.fnum * ↑u1.fden * ((m1.den * u1.fnum.toNat : Nat) : Int)
      push_cast; rw [t1]
      have hlt : m1.num * u2.fden ≤ u2.fnum * m1.den := by omega
      have key := Int.mul_le_mul_of_nonneg_right hlt (le_of_lt (Int.mul_pos p1d' p1n))
      linarith [key]
    have hr1 := round2_mono _ _ x1n x1d Rd hxR
    -- round2 x1 ≤ R, hence (round2 x1)·f1 ≤ f2
    have A : Q.le ((round2 (m1.div u1.factor)).mul u1.factor) u2.factor := by
      have rR : (round2 R).den = 100 := by rw [round2_of_nonneg _ Rn Rd]
      have e : (round2 R).num * ((u2.fden : Int) * u1.fnum) = u2.fnum * u1.fden * 100 := by
        have := Rfix
        unfold Q.eqv at this
        rw [rR] at this
        have Rden : ((R.den : Nat) : Int) = u2.fden * u1.fnum := by
          show ((u2.fden * u1.fnum.toNat : Nat) : Int) = _
          push_cast; rw [t1]
        rw [Rden] at this
        exact this
      exact mulfac_le_step _ (round2 R) u1.factor u2.factor rd1 rR hr1 e p1n p2d
    have x2ge : Q.le Q.one (m2.div u2.factor) := by
      have := hq2
      unfold Qual at this
      have e : m2.abs = m2 := by
        cases m2 with | mk n d => simp only [Q.abs]; congr 1; exact Int.natAbs_of_nonneg h02
      rwa [e] at this
    have B : Q.le u2.factor ((round2 (m2.div u2.factor)).mul u2.factor) :=
      le_mulfac_of_ge_one _ u2.factor rd2 (round2_ge_one _ x2d x2ge) p2n p2d
    refine Q.le_trans' (b := u2.factor) p2d ?_ ?_ A B
    · show 0 < (round2 (m1.div u1.factor)).den * u1.fden
      rw [rd1]; exact Nat.mul_pos (by decide) p1d
    · show 0 < (round2 (m2.div u2.factor)).den * u2.fden
      rw [rd2]; exact Nat.mul_pos (by decide) p2d

theorem trimS_cases : ∀ s : Str, trimS s = s ∨ s = trimS s ++ [115]
  | [] => Or.inl rfl
  | [c] => by
    unfold trimS
    by_cases h : c = 115
    · right; simp [h]
    · left; simp [h]
  | c :: d :: cs => by
    have ih := trimS_cases (d :: cs)
    have e : trimS (c :: d :: cs) = c :: trimS (d :: cs) := by rw [trimS]
    rw [e]
    rcases ih with ih | ih
    · left; rw [ih]
    · right; rw [List.cons_append, ← ih]

theorem pairwiseB_forall {α} (r : α → α → Bool) : ∀ (l : List α), pairwiseB r l = true →
    ∀ x ∈ l, ∀ y ∈ l, x ≠ y → r x y = true ∨ r y x = true
  | [], _, x, hx, _, _, _ => by cases hx
  | a :: l, h, x, hx, y, hy, hne => by
    unfold pairwiseB at h
    rw [Bool.and_eq_true, List.all_eq_true] at h
    rcases List.mem_cons.1 hx with rfl | hx' <;> rcases List.mem_cons.1 hy with rfl | hy'
    · exact absurd rfl hne
    · exact Or.inl (h.1 y hy')
    · exact Or.inr (h.1 x hx')
    · exact pairwiseB_forall r l h.2 x hx' y hy' hne

theorem mem_allAliases {F : Family} {u : MUnit} {a : Str} (hu : u ∈ F.units) (ha : a ∈ unitNames u) :
    a ∈ allAliases F := by
  unfold allAliases; exact List.mem_flatMap.2 ⟨u, hu, ha⟩

theorem uniqueFamily_of_disjoint (T : Table) (h : aliasesDisjointB T = true) : UniqueFamily T := by
  intro s F G u w hF hG hu hw
  by_contra hne
  obtain ⟨hu1, hu2⟩ := sniffUnit_some hu
  obtain ⟨hw1, hw2⟩ := sniffUnit_some hw
  -- a clash-free pair of alias lists
  have key : ∀ a ∈ allAliases F, ∀ b ∈ allAliases G, aliasClash a b = false := by
    intro a ha b hb
    rcases pairwiseB_forall _ T h F hF G hG hne with hr | hr
    · rw [List.all_eq_true] at hr
      have := hr a ha
      rw [List.all_eq_true] at this
      simpa using this b hb
    · rw [List.all_eq_true] at hr
      have := hr b hb
      rw [List.all_eq_true] at this
      have := this a ha
      simp only [aliasClash, Bool.not_eq_true', Bool.or_eq_false_iff, beq_eq_false_iff_ne, ne_eq] at this ⊢
      exact ⟨⟨fun h => this.1.1 h.symm, this.2⟩, this.1.2⟩
  set l := asciiLower s
  have clash : ∀ a b : Str, (a = l ∨ a = trimS l) → (b = l ∨ b = trimS l) → aliasClash a b = true := by
    intro a b ha hb
    unfold aliasClash
    rcases trimS_cases l with ht | ht
    · have : a = b := by rcases ha with rfl | rfl <;> rcases hb with rfl | rfl <;> simp [ht]
      simp [this]
    · rcases ha with rfl | rfl <;> rcases hb with rfl | rfl
      · simp
      · have : (l == trimS l ++ [115]) = true := by rw [← ht]; simp
        simp [this]
      · have : (l == trimS l ++ [115]) = true := by rw [← ht]; simp
        simp [this]
      · simp
  obtain ⟨a, haF, hal⟩ : ∃ a, a ∈ allAliases F ∧ (a = l ∨ a = trimS l) := by
    rcases hu2 with h1 | ⟨_, h2⟩
    · exact ⟨l, mem_allAliases hu1 h1, Or.inl rfl⟩
    · exact ⟨trimS l, mem_allAliases hu1 h2, Or.inr rfl⟩
  obtain ⟨b, hbG, hbl⟩ : ∃ b, b ∈ allAliases G ∧ (b = l ∨ b = trimS l) := by
    rcases hw2 with h1 | ⟨_, h2⟩
    · exact ⟨l, mem_allAliases hw1 h1, Or.inl rfl⟩
    · exact ⟨trimS l, mem_allAliases hw1 h2, Or.inr rfl⟩
  have := key a haF b hbG
  rw [clash a b hal hbl] at this
  cases this

theorem compatU_of_compatible {T : Table} {x y : VT} (h : compatible T x y = true) :
    CompatU T x.unit y.unit := by
  unfold compatible at h
  rw [Bool.and_eq_true, Bool.or_eq_true] at h
  rcases h.2 with h1 | h1
  · left; simpa using h1
  · right
    unfold sniffsBoth at h1
    rw [List.any_eq_true] at h1
    obtain ⟨F, hF, hb⟩ := h1
    rw [Bool.and_eq_true] at hb
    exact ⟨F, hF, Option.isSome_iff_exists.1 hb.1, Option.isSome_iff_exists.1 hb.2⟩

theorem CompatU.symm {T : Table} {a b : Str} (h : CompatU T a b) : CompatU T b a := by
  rcases h with h | ⟨F, hF, h1, h2⟩
  · exact Or.inl h.symm
  · exact Or.inr ⟨F, hF, h2, h1⟩

theorem CompatU.trans {T : Table} (hU : UniqueFamily T) {a b c : Str}
    (h1 : CompatU T a b) (h2 : CompatU T b c) : CompatU T a c := by
  rcases h1 with rfl | ⟨F, hF, ha, hb⟩
  · exact h2
  · rcases h2 with rfl | ⟨G, hG, hb', hc⟩
    · exact Or.inr ⟨F, hF, ha, hb⟩
    · obtain ⟨u, hu⟩ := hb
      obtain ⟨w, hw⟩ := hb'
      have : F = G := hU b F G u w hF hG hu hw
      subst this
      exact Or.inr ⟨F, hF, ha, hc⟩

theorem firstFamily_of_sniff {T : Table} (hU : UniqueFamily T) {F : Family} (hF : F ∈ T) {s : Str}
    {u : MUnit} (hs : sniffUnit F s = some u) : firstFamily T s = some (F, u) := by
  cases h : firstFamily T s with
  | none =>
    unfold firstFamily at h
    rw [List.findSome?_eq_none_iff] at h
    have := h F hF
    simp [hs] at this
  | some p =>
    obtain ⟨G, w⟩ := p
    obtain ⟨hG, hw⟩ := firstFamily_some h
    have : G = F := hU s G F w u hG hF hw hs
    subst this
    rw [hs] at hw; cases hw; rfl

theorem isAuto_false_of_sniff {T : Table} (hA : autoNotUnitB T = true) {F : Family} (hF : F ∈ T)
    {s : Str} {u : MUnit} (hs : sniffUnit F s = some u) : isAuto s = false := by
  unfold autoNotUnitB at hA
  rw [List.all_eq_true] at hA
  have h := hA F hF
  rw [Bool.and_eq_true] at h
  by_contra hc
  have hc' : isAuto s = true := by simpa using hc
  unfold isAuto at hc'
  rw [Bool.or_eq_true] at hc'
  rcases hc' with h1 | h1
  · have : s = sMinimum := by simpa using h1
    subst this; rw [hs] at h; simp at h
  · have : s = sAuto := by simpa using h1
    subst this; rw [hs] at h; simp at h

theorem phys_of_sniff {T : Table} (hU : UniqueFamily T) {F : Family} (hF : F ∈ T) {s : Str}
    {u : MUnit} (hs : sniffUnit F s = some u) : phys T s = u.factor := by
  unfold phys; rw [firstFamily_of_sniff hU hF hs]

/-- a value converted between two compatible units keeps its physical size:
`Scale(v, a, b) · size(b) = v · size(a)` -/
theorem scale_phys {T : Table} (hpos : factorsPosB T = true) (hU : UniqueFamily T)
    (hA : autoNotUnitB T = true) {a b : Str} (h : CompatU T a b) (v : Int) :
    Q.eqv ((scale T v a b).1.mul (phys T b)) ((Q.ofInt v).mul (phys T a)) := by
  rw [scale_eq_core, scaleCore_eq]
  have both : ∀ F ∈ T, ∀ ua ub, sniffUnit F a = some ua → sniffUnit F b = some ub →
      Q.eqv ((convertFrom F ua v b).1.mul ub.factor) ((Q.ofInt v).mul ua.factor) := by
    intro F hF ua ub ha hb
    have hauto := isAuto_false_of_sniff hA hF hb
    unfold convertFrom
    simp only [hauto, hb]
    have pb := ((posU_of_table hpos hF).2 ub (sniffUnit_some hb).1)
    exact Q.div_mul_cancel ((Q.ofInt v).mul ua.factor) ub.factor pb.1
  rcases h with rfl | ⟨F, hF, ⟨ua, ha⟩, ⟨ub, hb⟩⟩
  · cases hff : firstFamily T a with
    | none =>
      unfold phys passthrough
      simp only [hff]
      exact Q.eqv_refl _
    | some p =>
      obtain ⟨F, ua⟩ := p
      obtain ⟨hF, ha⟩ := firstFamily_some hff
      unfold phys
      simp only [hff]
      exact both F hF ua ua ha ha
  · rw [firstFamily_of_sniff hU hF ha, phys_of_sniff hU hF ha, phys_of_sniff hU hF hb]
    exact both F hF ua ub ha hb

/-- the ratio `ScaleProfiles` multiplies by is the quotient of the physical sizes of the units -/
theorem ratio_phys {T : Table} (hpos : factorsPosB T = true) (hU : UniqueFamily T)
    (hA : autoNotUnitB T = true) {a b : Str} (h : CompatU T a b) :
    Q.eqv ((scale T 1 a b).1.mul (phys T b)) (phys T a) := by
  have := scale_phys hpos hU hA h 1
  unfold Q.eqv at this ⊢
  simp only [Q.mul, Q.ofInt] at this ⊢
  push_cast at this ⊢
  linarith [this]

theorem commonStep_ok {T : Table} {m t r : VT} (h : commonStep T m t = .ok r) :
    compatible T m t = true ∧ (r = t ∨ r = m) := by
  unfold commonStep at h
  split at h
  · cases h
  · rename_i hc
    refine ⟨by simpa using hc, ?_⟩
    split at h <;> cases h
    · exact Or.inl rfl
    · exact Or.inr rfl

theorem commonFold_ok {T : Table} (hU : UniqueFamily T) : ∀ (ts : List VT) (m r : VT),
    commonFold T m ts = .ok r →
    CompatU T m.unit r.unit ∧ (∀ t ∈ ts, CompatU T t.unit r.unit) ∧ (r = m ∨ r ∈ ts)
  | [], m, r, h => by
    unfold commonFold at h; cases h
    exact ⟨Or.inl rfl, by simp, Or.inl rfl⟩
  | t :: ts, m, r, h => by
    unfold commonFold at h
    cases hs : commonStep T m t with
    | ok m' =>
      rw [hs] at h
      simp only at h
      obtain ⟨hc, hm'⟩ := commonStep_ok hs
      have hmt : CompatU T m.unit t.unit := compatU_of_compatible hc
      obtain ⟨h1, h2, h3⟩ := commonFold_ok hU ts m' r h
      have hm : CompatU T m.unit r.unit := by
        rcases hm' with rfl | rfl
        · exact hmt.trans hU h1
        · exact h1
      have ht : CompatU T t.unit r.unit := by
        rcases hm' with rfl | rfl
        · exact h1
        · exact hmt.symm.trans hU h1
      refine ⟨hm, ?_, ?_⟩
      · intro t' ht'
        rcases List.mem_cons.1 ht' with rfl | ht'
        · exact ht
        · exact h2 t' ht'
      · rcases h3 with rfl | h3
        · rcases hm' with rfl | rfl
          · exact Or.inr (by simp)
          · exact Or.inl rfl
        · exact Or.inr (List.mem_cons_of_mem _ h3)
    | err e => rw [hs] at h; cases h
    | panic s => rw [hs] at h; cases h

theorem commonValueType_ok {T : Table} (hU : UniqueFamily T) {l : List VT} {c : VT}
    (h : commonValueType T l = .ok (some c)) : c ∈ l ∧ ∀ t ∈ l, CompatU T t.unit c.unit := by
  match l, h with
  | [], h => cases h
  | [_], h => cases h
  | t0 :: t1 :: rest, h =>
    simp only [commonValueType] at h
    cases hf : commonFold T t0 (t1 :: rest) with
    | ok m =>
      rw [hf] at h; simp only at h
      cases h
      obtain ⟨h1, h2, h3⟩ := commonFold_ok hU _ _ _ hf
      refine ⟨?_, ?_⟩
      · rcases h3 with rfl | h3
        · simp
        · exact List.mem_cons_of_mem _ h3
      · intro t ht
        rcases List.mem_cons.1 ht with rfl | ht
        · exact h1
        · exact h2 t ht
    | err e => rw [hf] at h; cases h
    | panic s => rw [hf] at h; cases h

theorem commons_spec {T : Table} {ps : List MProf} : ∀ (is : List Nat) (cs : List (Option VT)),
    commons T ps is = .ok cs →
    cs.length = is.length ∧
      ∀ k (h1 : k < is.length) (h2 : k < cs.length),
        commonValueType T (column ps is[k]) = .ok cs[k]
  | [], cs, h => by
    simp only [commons] at h; cases h; exact ⟨rfl, fun k h1 => absurd h1 (by simp)⟩
  | i :: is, cs, h => by
    simp only [commons] at h
    cases hc : commonValueType T (column ps i) with
    | ok c =>
      rw [hc] at h; simp only at h
      cases hr : commons T ps is with
      | ok cs' =>
        rw [hr] at h; simp only at h; cases h
        obtain ⟨hl, hk⟩ := commons_spec is cs' hr
        refine ⟨by simp [hl], ?_⟩
        intro k h1 h2
        cases k with
        | zero => simpa using hc
        | succ k => simpa using hk k (by simpa using h1) (by simpa using h2)
      | err e => rw [hr] at h; cases h
      | panic s => rw [hr] at h; cases h
    | err e => rw [hc] at h; cases h
    | panic s => rw [hc] at h; cases h


theorem scale_den_pos {T : Table} (hpos : factorsPosB T = true) (v : Int) (a b : Str) :
    0 < (scale T v a b).1.den := by
  rw [scale_eq_core, scaleCore_eq]
  cases hff : firstFamily T a with
  | none => simp [passthrough, Q.ofInt]
  | some p =>
    obtain ⟨F, ua⟩ := p
    obtain ⟨hF, ha⟩ := firstFamily_some hff
    simp only
    obtain ⟨hd, hu⟩ := posU_of_table hpos hF
    obtain ⟨u, hu', _, hval⟩ := convertFrom_magnitude F ua v b hu
    rw [hval]
    have pu : PosU u := by
      rcases hu' with h | h
      · exact hu u h
      · rw [h]; exact hd
    have pa := hu ua (sniffUnit_some ha).1
    rw [div_pos_eq _ u pu]
    simp only [Q.mul, Q.ofInt, Gen.Units.RawUnit.factor]
    have := pu.1
    exact Nat.mul_pos (Nat.mul_pos (by decide) pa.2) (by omega)

theorem scaleType_spec {T : Table} (hpos : factorsPosB T = true) (hU : UniqueFamily T)
    (hA : autoNotUnitB T = true) (st : VT) (c : Option VT)
    (hc : ∀ cv, c = some cv → CompatU T st.unit cv.unit) :
    (scaleType T st c).1.typ = st.typ ∧ 0 < (scaleType T st c).2.den ∧
    Q.eqv ((scaleType T st c).2.mul (phys T (scaleType T st c).1.unit)) (phys T st.unit) := by
  cases c with
  | none =>
    simp only [scaleType]
    exact ⟨trivial, by decide, by simp [Q.eqv, Q.mul, Q.one]⟩
  | some cv =>
    simp only [scaleType]
    exact ⟨trivial, scale_den_pos hpos _ _ _, ratio_phys hpos hU hA (hc cv rfl)⟩

theorem scaleOne_harmonised {T : Table} (hpos : factorsPosB T = true) (hU : UniqueFamily T)
    (hA : autoNotUnitB T = true) (pc : Option VT) (cs : List (Option VT)) (p : MProf)
    (hlen : cs.length = p.sampleTypes.length)
    (hcs : ∀ i (h1 : i < p.sampleTypes.length) (h2 : i < cs.length) cv, cs[i] = some cv →
      CompatU T p.sampleTypes[i].unit cv.unit)
    (hpc : ∀ pt cv, p.periodType = some pt → pc = some cv → CompatU T pt.unit cv.unit) :
    Harmonised T p (scaleOne T pc cs p) := by
  unfold Harmonised scaleOne
  simp only [List.length_map, List.length_zipWith, hlen, Nat.min_self, List.getElem_map,
    List.getElem_zipWith, true_and]
  refine ⟨?_, ?_⟩
  · intro i h1 _ _
    exact scaleType_spec hpos hU hA _ _ (fun cv hcv => hcs i h1 (by omega) cv hcv)
  · cases hp : p.periodType with
    | none => simp
    | some pt =>
      cases hpc' : pc with
      | none => simp [Q.eqv, Q.mul, Q.ofInt]
      | some cv =>
        simp only
        exact ⟨trivial, scale_phys hpos hU hA (hpc pt cv hp hpc') p.period⟩

theorem mem_column {ps : List MProf} {p : MProf} (hp : p ∈ ps) {i : Nat} (hi : i < p.sampleTypes.length) :
    p.sampleTypes[i] ∈ column ps i := by
  unfold column
  exact List.mem_filterMap.2 ⟨p, hp, by simp [hi]⟩

theorem scaleProfiles_spec {T : Table} (hpos : factorsPosB T = true) (hU : UniqueFamily T)
    (hA : autoNotUnitB T = true) (ps : List MProf) (out : List MProfOut)
    (h : scaleProfiles T ps = .ok out) :
    ∃ f : MProf → MProfOut, out = ps.map f ∧ ∀ p ∈ ps, Harmonised T p (f p) := by
  unfold scaleProfiles at h
  match ps, h with
  | [], h => cases h; exact ⟨fun p => scaleOne T none [] p, rfl, by simp⟩
  | p0 :: rest, h =>
    simp only at h
    cases hpc : commonValueType T ((p0 :: rest).filterMap (·.periodType)) with
    | err e => rw [hpc] at h; cases h
    | panic s => rw [hpc] at h; cases h
    | ok pc =>
      rw [hpc] at h; simp only at h
      split at h
      · cases h
      · rename_i hlen
        cases hcs : commons T (p0 :: rest) (List.range p0.sampleTypes.length) with
        | err e => rw [hcs] at h; cases h
        | panic s => rw [hcs] at h; cases h
        | ok cs =>
          rw [hcs] at h; simp only at h; cases h
          obtain ⟨hl, hk⟩ := commons_spec _ _ hcs
          rw [List.length_range] at hl
          have hall : ∀ p ∈ p0 :: rest, p.sampleTypes.length = p0.sampleTypes.length := by
            intro p hp
            rcases List.mem_cons.1 hp with rfl | hp
            · rfl
            · have : ¬ (rest.any fun p => p.sampleTypes.length != p0.sampleTypes.length) = true := hlen
              rw [List.any_eq_true] at this
              by_contra hne
              exact this ⟨p, hp, by simpa using hne⟩
          refine ⟨scaleOne T pc cs, rfl, ?_⟩
          intro p hp
          apply scaleOne_harmonised hpos hU hA pc cs p (by rw [hl, hall p hp])
          · intro i h1 h2 cv hcv
            have hi : i < (List.range p0.sampleTypes.length).length := by
              rw [List.length_range, ← hall p hp]; exact h1
            have := hk i hi h2
            rw [List.getElem_range, hcv] at this
            exact (commonValueType_ok hU this).2 _ (mem_column hp h1)
          · intro pt cv hpt hcv
            rw [hcv] at hpc
            exact (commonValueType_ok hU hpc).2 pt (List.mem_filterMap.2 ⟨p, hp, hpt⟩)

/-- `Σ (v_k · r) = (Σ v_k) · r`, stated without dividing -/
theorem sum_mul_ratio (r : Q) : ∀ vs : List Int,
    (Q.sum (vs.map fun v => (Q.ofInt v).mul r)).num * r.den =
      vs.sum * r.num * (Q.sum (vs.map fun v => (Q.ofInt v).mul r)).den
  | [] => by simp [Q.sum, Q.zero]
  | v :: vs => by
    have ih := sum_mul_ratio r vs
    simp only [List.map_cons, Q.sum, Q.add, Q.mul, Q.ofInt, List.sum_cons] at ih ⊢
    push_cast at ih ⊢
    nlinarith [ih]

theorem sum_den_pos (r : Q) (hr : 0 < r.den) : ∀ vs : List Int,
    0 < (Q.sum (vs.map fun v => (Q.ofInt v).mul r)).den
  | [] => by simp [Q.sum, Q.zero]
  | v :: vs => by
    have ih := sum_den_pos r hr vs
    simp only [List.map_cons, Q.sum, Q.add, Q.mul, Q.ofInt]
    exact Nat.mul_pos (Nat.mul_pos (by decide) hr) ih

theorem filterMap_zipWith_col (rows : List (List Int)) (rs : List Q) (i : Nat) (hi : i < rs.length)
    (hrows : ∀ s ∈ rows, s.length = rs.length) :
    (rows.map fun s => List.zipWith (fun v r => (Q.ofInt v).mul r) s rs).filterMap (·[i]?) =
      (rows.filterMap (·[i]?)).map fun v => (Q.ofInt v).mul rs[i] := by
  induction rows with
  | nil => rfl
  | cons s rows ih =>
    have hs : s.length = rs.length := hrows s (by simp)
    have hi' : i < s.length := by omega
    have ih' := ih (fun t ht => hrows t (by simp [ht]))
    simp only [List.map_cons, List.filterMap_cons]
    rw [List.getElem?_eq_getElem (by simp [hs, hi]), List.getElem?_eq_getElem hi']
    simp only [List.getElem_zipWith, List.map_cons]
    rw [ih']

/-- the physical total of every column is preserved: `Σ' · size(new) = Σ · size(old)` -/
theorem harmonised_totals {T : Table} {p : MProf} {o : MProfOut} (h : Harmonised T p o)
    (hrows : ∀ s ∈ p.samples, s.length = p.sampleTypes.length)
    (i : Nat) (h1 : i < p.sampleTypes.length) (h2 : i < o.sampleTypes.length) :
    Q.eqv ((colTotalQ o.samples i).mul (phys T o.sampleTypes[i].unit))
      ((Q.ofInt (colTotal p.samples i)).mul (phys T p.sampleTypes[i].unit)) := by
  obtain ⟨_, hl2, hcol, hs, _⟩ := h
  have h3 : i < o.ratios.length := by omega
  obtain ⟨_, hden, hr⟩ := hcol i h1 h2 h3
  unfold colTotalQ colTotal
  rw [hs, filterMap_zipWith_col p.samples o.ratios i h3 (fun s hs' => by rw [hrows s hs', hl2])]
  have hsum := sum_mul_ratio o.ratios[i] (p.samples.filterMap (·[i]?))
  have hdp := sum_den_pos o.ratios[i] hden (p.samples.filterMap (·[i]?))
  generalize Q.sum ((p.samples.filterMap (·[i]?)).map fun v => (Q.ofInt v).mul o.ratios[i]) = S at hsum hdp
  generalize (p.samples.filterMap (·[i]?)).sum = tot at hsum
  generalize o.ratios[i] = r at hsum hr hden
  generalize phys T o.sampleTypes[i].unit = fn at hr
  generalize phys T p.sampleTypes[i].unit = fo at hr
  unfold Q.eqv at hr ⊢
  simp only [Q.mul, Q.ofInt] at hr ⊢
  push_cast at hr ⊢
  have hd' : (0 : Int) < r.den := by exact_mod_cast hden
  -- S.num * r.den = tot * r.num * S.den ;  r.num * fn.num * fo.den = fo.num * (r.den * fn.den)
  apply Int.eq_of_mul_eq_mul_right (ne_of_gt hd')
  calc S.num * fn.num * (1 * ↑fo.den) * ↑r.den
      = (S.num * ↑r.den) * (fn.num * ↑fo.den) := by ring
    _ = (tot * r.num * ↑S.den) * (fn.num * ↑fo.den) := by rw [hsum]
    _ = tot * ↑S.den * (r.num * fn.num * ↑fo.den) := by ring
    _ = tot * ↑S.den * (fo.num * (↑r.den * ↑fn.den)) := by rw [hr]
    _ = tot * fo.num * (↑S.den * ↑fn.den) * ↑r.den := by ring

/-- truncation toward zero loses less than one unit and never overshoots -/
theorem scaleByRatio_bounds (v : Int) (r : Q) (hd : 0 < r.den) :
    (v * r.num - scaleByRatio v r * r.den).natAbs < r.den ∧
    (0 ≤ v * r.num → 0 ≤ scaleByRatio v r ∧ scaleByRatio v r * r.den ≤ v * r.num) ∧
    (v * r.num ≤ 0 → scaleByRatio v r ≤ 0 ∧ v * r.num ≤ scaleByRatio v r * r.den) := by
  have hd0 : r.den ≠ 0 := by omega
  unfold scaleByRatio
  simp only [hd0, if_false]
  generalize v * r.num = a
  have hdm := Nat.div_add_mod a.natAbs r.den
  have hml := Nat.mod_lt a.natAbs hd
  generalize hq : a.natAbs / r.den = q at hdm
  generalize a.natAbs % r.den = m at hdm hml
  have hcast : ((r.den * q + m : Nat) : Int) = (a.natAbs : Int) := by exact_mod_cast hdm
  push_cast at hcast
  rcases Int.lt_trichotomy a 0 with hneg | hz | hpos
  · rw [Int.sign_eq_neg_one_of_neg hneg]
    have hab : (a.natAbs : Int) = -a := by omega
    have e : (r.den : Int) * q = (q : Int) * r.den := Int.mul_comm _ _
    refine ⟨?_, ?_, ?_⟩ <;> (try intro _) <;> (try constructor) <;> simp only [Int.neg_mul, Int.one_mul] <;> omega
  · subst hz
    have : q = 0 := by
      have : (0 : Int).natAbs = 0 := rfl
      rw [this] at hq; rw [← hq]; exact Nat.zero_div _
    subst this
    simp; omega
  · rw [Int.sign_eq_one_of_pos hpos]
    have hab : (a.natAbs : Int) = a := by omega
    have e : (r.den : Int) * q = (q : Int) * r.den := Int.mul_comm _ _
    refine ⟨?_, ?_, ?_⟩ <;> (try intro _) <;> (try constructor) <;> simp only [Int.one_mul] <;> omega

theorem foldl_minStep_congr {a b : List (Int × Int)} (h : SameMagnitudes a b) (m0 : Nat) :
    a.foldl minStep m0 = b.foldl minStep m0 := by
  induction h generalizing m0 with
  | nil => rfl
  | cons h1 h2 _ ih =>
    simp only [List.foldl_cons]
    have : ∀ m x y, (x : Int × Int).1.natAbs = (y : Int × Int).1.natAbs → x.2.natAbs = y.2.natAbs →
        minStep m x = minStep m y := by
      intro m x y h1 h2; unfold minStep; rw [h1, h2]
    rw [this _ _ _ h1 h2]
    exact ih _

theorem minMagnitude_congr {a b : List (Int × Int)} (h : SameMagnitudes a b) :
    minMagnitude a = minMagnitude b := foldl_minStep_congr h 0

theorem selectOutputUnit_congr (T : Table) {a b : List (Int × Int)} (h : SameMagnitudes a b)
    (total : Int) (r : Q) (su : Str) (cg : Bool) :
    selectOutputUnit T a total r su cg = selectOutputUnit T b total r su cg := by
  unfold selectOutputUnit
  rw [minMagnitude_congr h]

theorem sameMagnitudes_neg (a : List (Int × Int)) :
    SameMagnitudes (a.map fun n => (-n.1, -n.2)) a := by
  induction a with
  | nil => exact SameMagnitudes.nil
  | cons x xs ih => exact SameMagnitudes.cons (by simp) (by simp) ih
end PV.Measure
