import PprofVerif.Lemmas.MergeTop
/-!
Per-type totals: the sum of all value vectors of a profile equals the sum, over any duplicate-free
list of stack keys covering its samples, of the weights — hence conservation of every stack's
weight implies conservation of the totals.
-/
namespace PV.Merge
open PV.Spec
open PV.Wire (InI64 two63)

theorem sumV_cons' {n : Nat} {x : List Int} {xs : List (List Int)} (hx : VecOK n x)
    (hxs : ∀ w ∈ xs, w.length = n) : sumV n (x :: xs) = addV x (sumV n xs) := by
  rw [sumV_cons x xs hx.1 hxs, zeroV_addV hx]

theorem sumV_zeros {n : Nat} {α : Type} (l : List α) : sumV n (l.map fun _ => zeroV n) = zeroV n := by
  induction l with
  | nil => rfl
  | cons a l ih =>
    rw [List.map_cons, sumV_cons' (zeroV_VecOK n) (by intro w hw; obtain ⟨_, _, rfl⟩ := List.mem_map.mp hw; simp [zeroV]),
      ih, zeroV_addV (zeroV_VecOK n)]

/-- adding `v` to exactly one summand adds `v` to the sum. -/
theorem sumV_bump_one {n : Nat} {κ : Type} [DecidableEq κ] (g : κ → List Int) (v : List Int) (k0 : κ)
    (hv : VecOK n v) (hg : ∀ k, VecOK n (g k)) : ∀ (K : List κ), K.Nodup → k0 ∈ K →
      sumV n (K.map fun k => if k = k0 then addV v (g k) else g k) = addV v (sumV n (K.map g))
  | [], _, h => by cases h
  | k :: K, hn, hm => by
    rw [List.nodup_cons] at hn
    have hlen : ∀ (f : κ → List Int), (∀ k, (f k).length = n) → ∀ w ∈ K.map f, w.length = n := by
      intro f hf w hw; obtain ⟨a, _, rfl⟩ := List.mem_map.mp hw; exact hf a
    have hf' : ∀ k, (if k = k0 then addV v (g k) else g k).length = n := by
      intro k; split
      · exact (addV_VecOK hv.1 (hg k).1).1
      · exact (hg k).1
    by_cases hk : k = k0
    · subst hk
      have hrest : K.map (fun k' => if k' = k then addV v (g k') else g k') = K.map g := by
        apply List.map_congr_left
        intro a ha
        have : a ≠ k := fun h => hn.1 (h ▸ ha)
        simp [this]
      rw [List.map_cons, List.map_cons, hrest, if_pos rfl,
        sumV_cons' (addV_VecOK hv.1 (hg k).1) (hlen g (fun k => (hg k).1)),
        sumV_cons' (hg k) (hlen g (fun k => (hg k).1)), addV_assoc]
    · have hm' : k0 ∈ K := by
        rcases List.mem_cons.mp hm with h | h
        · exact absurd h.symm hk
        · exact h
      have ih := sumV_bump_one g v k0 hv hg K hn.2 hm'
      rw [List.map_cons, List.map_cons, if_neg hk,
        sumV_cons' (hg k) (hlen _ hf'), ih,
        sumV_cons' (hg k) (hlen g (fun k => (hg k).1)),
        ← addV_assoc, addV_comm (g k) v, addV_assoc]

def totalR (n : Nat) (rs : List RSample) : List Int := sumV n (rs.map (·.values))

theorem weightR_cons {n : Nat} (s : RSample) (S : List RSample) (hs : VecOK n s.values) (hS : SamplesOK n S)
    (k : StackKey) :
    weightR n (s :: S) k = if stackKey s = k then addV s.values (weightR n S k) else weightR n S k := by
  unfold weightR
  by_cases h : stackKey s = k
  · simp only [List.filter_cons, h, decide_true, if_true, List.map_cons]
    apply sumV_cons' hs
    intro w hw
    obtain ⟨x, hx, rfl⟩ := List.mem_map.mp hw
    exact (hS x (List.mem_of_mem_filter hx)).1
  · simp only [List.filter_cons, h, decide_false, Bool.false_eq_true, if_false]

/-- **regrouping**: the total of a sample list is the sum of the weights of its stacks. -/
theorem totalR_eq_sum_weights {n : Nat} (K : List StackKey) (hK : K.Nodup) : ∀ (S : List RSample),
    SamplesOK n S → (∀ s ∈ S, stackKey s ∈ K) → totalR n S = sumV n (K.map (weightR n S))
  | [], _, _ => by
    have : K.map (weightR n []) = K.map fun _ => zeroV n := by
      apply List.map_congr_left; intro k _; rfl
    rw [this, sumV_zeros]; rfl
  | s :: S, hS, hcov => by
    have hs := hS s (by simp)
    have hS' : SamplesOK n S := fun x hx => hS x (List.mem_cons_of_mem _ hx)
    have ih := totalR_eq_sum_weights K hK S hS' (fun x hx => hcov x (List.mem_cons_of_mem _ hx))
    have h1 : totalR n (s :: S) = addV s.values (totalR n S) := by
      unfold totalR
      rw [List.map_cons]
      apply sumV_cons' hs
      intro w hw
      obtain ⟨x, hx, rfl⟩ := List.mem_map.mp hw
      exact (hS' x hx).1
    have h2 : K.map (weightR n (s :: S)) =
        K.map fun k => if k = stackKey s then addV s.values (weightR n S k) else weightR n S k := by
      apply List.map_congr_left
      intro k _
      rw [weightR_cons s S hs hS' k]
      by_cases h : stackKey s = k
      · simp [h]
      · have : ¬ k = stackKey s := fun h' => h h'.symm
        simp [h, this]
    rw [h1, h2, sumV_bump_one (weightR n S) s.values (stackKey s) hs (fun k => weightR_VecOK hS' k) K hK
      (hcov s (by simp)), ih]

theorem sumV_flatten {n : Nat} : ∀ (vss : List (List (List Int))), (∀ vs ∈ vss, ∀ v ∈ vs, v.length = n) →
    sumV n vss.flatten = sumV n (vss.map (sumV n))
  | [], _ => rfl
  | vs :: vss, h => by
    have hvs := h vs (by simp)
    have hvss : ∀ x ∈ vss, ∀ v ∈ x, v.length = n := fun x hx => h x (List.mem_cons_of_mem _ hx)
    have hfl : ∀ v ∈ vss.flatten, v.length = n := by
      intro v hv
      obtain ⟨x, hx, hvx⟩ := List.mem_flatten.mp hv
      exact hvss x hx v hvx
    rw [List.flatten_cons, sumV_append _ _ hvs hfl, sumV_flatten vss hvss, List.map_cons,
      sumV_cons' (sumV_VecOK vs hvs)]
    intro w hw
    obtain ⟨x, hx, rfl⟩ := List.mem_map.mp hw
    exact (sumV_VecOK x (hvss x hx)).1

theorem resolve_values {p : Profile} {rs : List RSample} (h : resolve p = some rs) :
    rs.map (·.values) = p.samples.map (·.values) := by
  have hfa := optMap_some _ _ _ h
  exact (forall₂_map_eq hfa (fun s r hsr => (resolveSample_fields hsr).1.symm)).symm

theorem totals_eq_totalR {p : Profile} {rs : List RSample} (h : resolve p = some rs) :
    totals p = totalR p.sampleType.length rs := by
  unfold totals totalR; rw [resolve_values h]

/-- stack keys covering two sample lists, without duplicates. -/
theorem exists_cover (A B : List RSample) :
    ∃ K : List StackKey, K.Nodup ∧ (∀ s ∈ A, stackKey s ∈ K) ∧ (∀ s ∈ B, stackKey s ∈ K) := by
  refine ⟨internBy id ((A ++ B).map stackKey), ?_, ?_, ?_⟩
  · have := internBy_keys_nodup (id : StackKey → StackKey) ((A ++ B).map stackKey)
    simpa using this
  · intro s hs
    have := (mem_internBy_keys (id : StackKey → StackKey) ((A ++ B).map stackKey) (stackKey s)).mpr
      (by simp only [List.map_id]; exact List.mem_map_of_mem (List.mem_append_left _ hs))
    simpa using this
  · intro s hs
    have := (mem_internBy_keys (id : StackKey → StackKey) ((A ++ B).map stackKey) (stackKey s)).mpr
      (by simp only [List.map_id]; exact List.mem_map_of_mem (List.mem_append_right _ hs))
    simpa using this

/-- **per-type totals are conserved by `merge`.** -/
theorem merge_totals_eq (first : Profile) (rest : List Profile) (h : Inputs first rest) :
    ∃ r, merge (first :: rest) = .ok r ∧
      totals r = sumV first.sampleType.length ((first :: rest).map totals) := by
  obtain ⟨r, hr, hval, htyp, hst, _, hw, _⟩ := merge_spec first rest h
  refine ⟨r, hr, ?_⟩
  let n := first.sampleType.length
  obtain ⟨srcR, _, hokR⟩ := srcOK_of_valid hval htyp
  rw [hst] at hokR
  obtain ⟨srcs, _, hfa⟩ := srcs_of_valid n (first :: rest) h.valid h.typed h.lengths
  let Sall := (srcs.map (·.samples)).flatten
  have hSall : SamplesOK n Sall := by
    intro s hs
    obtain ⟨x, hx, hsx⟩ := List.mem_flatten.mp hs
    obtain ⟨src, hsrc, rfl⟩ := List.mem_map.mp hx
    obtain ⟨p, _, hp⟩ := forall₂_mem_right hfa hsrc
    exact hp.ok s hsx
  obtain ⟨K, hK, hcovR, hcovA⟩ := exists_cover srcR.samples Sall
  -- the two weight functions agree
  have hweq : ∀ k, weightR n srcR.samples k = weightR n Sall k := by
    intro k
    have e1 : weight r k = weightR n srcR.samples k := by simp only [weight, hokR.res, hst, n]
    rw [← e1, hw k]
    show sumV n _ = _
    rw [weightR_flatten _ (by
      intro rs hrs
      obtain ⟨src, hsrc, rfl⟩ := List.mem_map.mp hrs
      obtain ⟨p, _, hp⟩ := forall₂_mem_right hfa hsrc
      exact hp.ok)]
    congr 1
    rw [List.map_map]
    have : ∀ {ps : List Profile} {srcs : List Src}, List.Forall₂ (SrcOK n) ps srcs →
        (∀ p ∈ ps, p.sampleType.length = n) →
        ps.map (weight · k) = srcs.map ((fun rs => weightR n rs k) ∘ (·.samples)) := by
      intro ps srcs hh
      induction hh with
      | nil => intro _; rfl
      | @cons p src ps' srcs' hr0 _ ih =>
        intro hn'
        simp only [List.map_cons, Function.comp]
        rw [ih (fun q hq => hn' q (List.mem_cons_of_mem _ hq))]
        congr 1
        simp only [weight, hr0.res, hn' p (by simp)]
    exact this hfa h.lengths
  -- totals of the result
  have hT1 : totals r = sumV n (K.map (weightR n srcR.samples)) := by
    rw [totals_eq_totalR hokR.res, hst]
    exact totalR_eq_sum_weights K hK srcR.samples hokR.ok hcovR
  -- totals of the inputs
  have hT2 : sumV n ((first :: rest).map totals) = sumV n (K.map (weightR n Sall)) := by
    rw [← totalR_eq_sum_weights K hK Sall hSall hcovA]
    unfold totalR
    rw [List.map_flatten, sumV_flatten]
    · congr 1
      rw [List.map_map, List.map_map]
      have : ∀ {ps : List Profile} {srcs : List Src}, List.Forall₂ (SrcOK n) ps srcs →
          (∀ p ∈ ps, p.sampleType.length = n) →
          ps.map totals = srcs.map (sumV n ∘ List.map (·.values) ∘ (·.samples)) := by
        intro ps srcs hh
        induction hh with
        | nil => intro _; rfl
        | @cons p src ps' srcs' hr0 _ ih =>
          intro hn'
          simp only [List.map_cons, Function.comp]
          rw [ih (fun q hq => hn' q (List.mem_cons_of_mem _ hq)), totals_eq_totalR hr0.res, hn' p (by simp)]
          rfl
      exact this hfa h.lengths
    · intro vs hvs v hv
      obtain ⟨x, hx, rfl⟩ := List.mem_map.mp hvs
      obtain ⟨src, hsrc, rfl⟩ := List.mem_map.mp hx
      obtain ⟨s, hs, rfl⟩ := List.mem_map.mp hv
      obtain ⟨p, _, hp⟩ := forall₂_mem_right hfa hsrc
      exact (hp.ok s hs).1
  rw [hT1, hT2]
  congr 1
  apply List.map_congr_left
  intro k _
  exact hweq k

end PV.Merge
