import PprofVerif.Lemmas.StacksFrames
/-! C17 helper lemmas, part F: on a valid profile every read of the sample loop succeeds. -/
namespace PV.Stacks
open PV

theorem snd_mem_of_mem_swap {α} (xs : List α) (a : Nat × α)
    (h : a ∈ (xs.zipIdx.map (fun q => (q.2, q.1))).reverse) : a.2 ∈ xs := by
  have h1 : a ∈ xs.zipIdx.map (fun q => (q.2, q.1)) := List.mem_reverse.1 h
  have h2 : a.2 ∈ (xs.zipIdx.map (fun q => (q.2, q.1))).map (fun q => id q.2) :=
    List.mem_map.2 ⟨a, h1, rfl⟩
  rw [zipIdx_swap_map_snd id xs 0] at h2
  simpa using h2

theorem find?_of_any {α} (l : List α) (q : α → Bool) (h : l.any q = true) :
    ∃ a, l.find? q = some a ∧ a ∈ l := by
  cases hf : l.find? q with
  | some a => exact ⟨a, rfl, List.mem_of_find?_eq_some hf⟩
  | none =>
    rw [List.find?_eq_none] at hf
    obtain ⟨x, hx, hq⟩ := List.any_eq_true.1 h
    exact absurd hq (hf x hx)

theorem valid_resolve (p : Profile) (idx : Nat) (hv : p.Valid) (hi : idx < p.sampleType.length) :
    ∃ rs, resolve p idx = .ok rs := by
  simp only [Profile.Valid, Profile.validB, Bool.and_eq_true, List.all_eq_true] at hv
  obtain ⟨⟨⟨⟨⟨_, hs⟩, _⟩, _⟩, _⟩, hl⟩ := hv
  have hloc : ∀ loc ∈ p.locations, ∃ fs, locFrames p loc = .ok fs := by
    intro loc hloc
    rw [locFrames_eq]
    apply mapO_ok_of_forall
    intro a ha
    have hmem := snd_mem_of_mem_swap loc.lines a ha
    have h1 := (hl loc hloc).2 a.2 hmem
    obtain ⟨fn, hfn, _⟩ := find?_of_any p.functions (·.id == a.2.functionID) h1.2
    simp only [lineStep, Profile.findFunction, hfn]
    exact ⟨_, rfl⟩
  apply mapO_ok_of_forall
  intro s hsm
  have h1 := hs s hsm
  have hlen : s.values.length = p.sampleType.length := by simpa using h1.1
  have hval : sampleValue idx s = .ok (s.values[idx]'(by omega)) := by
    simp [sampleValue, List.getElem?_eq_getElem (show idx < s.values.length by omega)]
  have hfr : ∃ fs, sampleFrames p s = .ok fs := by
    rw [sampleFrames_eq]
    obtain ⟨fss, hfss⟩ := mapO_ok_of_forall (locStep p)
      ((s.locationIDs.zipIdx.map (fun q => (q.2, q.1))).reverse) (by
        intro a ha
        have hmem := snd_mem_of_mem_swap s.locationIDs a ha
        have h2 := h1.2 a.2 hmem
        obtain ⟨loc, hfl, hin⟩ := find?_of_any p.locations (·.id == a.2) h2.2
        obtain ⟨fs, hfs⟩ := hloc loc hin
        simp only [locStep, Profile.findLocation, hfl, hfs]
        exact ⟨_, rfl⟩)
    exact ⟨fss.flatten, by simp [hfss, bind, Outcome.bind, pure]⟩
  obtain ⟨fs, hfs⟩ := hfr
  simp only [hval, hfs, bind, Outcome.bind, pure]
  exact ⟨_, rfl⟩

end PV.Stacks
