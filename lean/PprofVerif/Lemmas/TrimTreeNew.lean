import PprofVerif.Lemmas.TrimTreeLoop
/-!
Structure of the graph `newTree` builds: its edge table is a path-keyed forest (`PathForest`) —
every node has exactly the one parent its path names —, no edge is residual, and an edge is
present iff some counted sample walks it.
-/
namespace PV.Graph
open PV PV.GSpec PV.TrimTree
variable {κ : Type} [DecidableEq κ]

/-! ### which edges exist -/

theorem treeStep_hasEdge_none (v : WD) (a : TInner κ) (f : κ) (x y : List κ) (h : a.parent = none) :
    (treeStep v a f).g.hasEdge x y = a.g.hasEdge x y := by
  unfold treeStep; simp [h]
theorem treeStep_hasEdge_some (v : WD) (a : TInner κ) (f : κ) (p x y : List κ) (h : a.parent = some p) :
    (treeStep v a f).g.hasEdge x y = (a.g.hasEdge x y || decide (p = x ∧ p ++ [f] = y)) := by
  unfold treeStep; simp [h, addEdge_hasEdge]

theorem foldTree_hasEdge (v : WD) (x y : List κ) (fs : List κ) : ∀ (a : TInner κ) (par : Option (List κ)),
    a.parent = par →
    (fs.foldl (treeStep v) a).g.hasEdge x y = (a.g.hasEdge x y || decide ((x, y) ∈ treePairs par fs)) := by
  induction fs with
  | nil => intro a par _; simp [treePairs]
  | cons f fs ih =>
    intro a par hpar
    rw [List.foldl_cons]
    cases par with
    | none =>
      have hp' : (treeStep v a f).parent = some [f] := by rw [treeStep_parent, hpar]; rfl
      rw [ih _ _ hp', treeStep_hasEdge_none v a f x y hpar]
      rfl
    | some p =>
      have hp' : (treeStep v a f).parent = some (p ++ [f]) := by rw [treeStep_parent, hpar]; rfl
      rw [ih _ _ hp', treeStep_hasEdge_some v a f p x y hpar, Bool.or_assoc]
      congr 1
      simp only [treePairs, List.mem_cons, Prod.mk.injEq]
      by_cases h1 : p = x ∧ p ++ [f] = y
      · obtain ⟨rfl, rfl⟩ := h1; simp
      · have : ¬ (x = p ∧ y = p ++ [f]) := fun h => h1 ⟨h.1.symm, h.2.symm⟩
        simp [h1, this]

theorem treeSampleStep_hasEdge (g : GState (List κ)) (s : GSample κ) (x y : List κ) :
    (treeSampleStep g s).hasEdge x y =
      (g.hasEdge x y || (counted s && decide ((x, y) ∈ treePairs none s.frames))) := by
  unfold treeSampleStep
  by_cases hs : (s.d == 0 && s.w == 0) = true
  · have : counted s = false := by rw [counted_eq, hs]; rfl
    simp [hs, this]
  · have hc : counted s = true := by
      rw [counted_eq]
      cases h : (s.d == 0 && s.w == 0) with
      | true => exact absurd h hs
      | false => rfl
    simp only [hs]
    have h := foldTree_hasEdge s.wd x y s.frames ⟨g, none⟩ none rfl
    generalize List.foldl (treeStep s.wd) ⟨g, none⟩ s.frames = r at h
    cases hp : r.parent with
    | none => simpa [hp, hc] using h
    | some p => simpa [hp, hc] using h

theorem foldTreeSamples_hasEdge (x y : List κ) (ss : List (GSample κ)) : ∀ (g : GState (List κ)),
    (ss.foldl treeSampleStep g).hasEdge x y =
      (g.hasEdge x y || ss.any (fun s => counted s && decide ((x, y) ∈ treePairs none s.frames))) := by
  induction ss with
  | nil => intro g; simp
  | cons s ss ih =>
    intro g
    rw [List.foldl_cons, ih, treeSampleStep_hasEdge, List.any_cons, Bool.or_assoc]

theorem newTree_hasEdge (ss : List (GSample κ)) (x y : List κ) :
    (newTree ss).hasEdge x y = ss.any (fun s => counted s && decide ((x, y) ∈ treePairs none s.frames)) := by
  unfold newTree
  rw [foldTreeSamples_hasEdge]
  simp [GState.hasEdge, GState.empty, thas]

/-- an edge of the call tree is present iff some counted sample has that adjacency on path keys -/
theorem tree_edge_exists_iff (ss : List (GSample κ)) (a b : List κ) :
    (newTree ss).hasEdge a b = edgeExists (ss.map treeSample) a b := by
  rw [newTree_hasEdge]
  unfold edgeExists
  rw [List.any_map]
  congr 1
  funext s
  show _ = (counted (treeSample s) && decide (a ≠ b) && adjacent a b (treeSample s).frames)
  have hc : counted (treeSample s) = counted s := rfl
  rw [hc]
  unfold adjacent treeSample
  simp only
  rw [← treePairs_none_eq_zip]
  by_cases h : (a, b) ∈ treePairs none s.frames
  · have := treePairs_none_ne _ _ _ h
    simp [h, this]
  · simp [h]

/-! ### shape of the pairs -/

theorem treePairs_some_shape (fs : List κ) : ∀ (q x y : List κ), q ≠ [] →
    (x, y) ∈ treePairs (some q) fs → 2 ≤ y.length ∧ x = y.dropLast := by
  induction fs with
  | nil => intro q x y _ h; simp [treePairs] at h
  | cons f fs ih =>
    intro q x y hq h
    simp only [treePairs, List.mem_cons, Prod.mk.injEq] at h
    rcases h with ⟨rfl, rfl⟩ | h
    · have : 0 < x.length := List.length_pos_iff.mpr hq
      simp; omega
    · exact ih (q ++ [f]) x y (by simp) h

theorem treePairs_none_shape (fs : List κ) (x y : List κ) (h : (x, y) ∈ treePairs none fs) :
    2 ≤ y.length ∧ x = y.dropLast := by
  cases fs with
  | nil => simp [treePairs] at h
  | cons f r => simp only [treePairs] at h; exact treePairs_some_shape r [f] x y (by simp) h

theorem treePairs_some_closed (fs : List κ) : ∀ (q x y : List κ),
    (x, y) ∈ treePairs (some q) fs → x = q ∨ (x.dropLast, x) ∈ treePairs (some q) fs := by
  induction fs with
  | nil => intro q x y h; simp [treePairs] at h
  | cons f fs ih =>
    intro q x y h
    simp only [treePairs, List.mem_cons, Prod.mk.injEq] at h ⊢
    rcases h with ⟨rfl, _⟩ | h
    · exact Or.inl rfl
    · rcases ih (q ++ [f]) x y h with rfl | h'
      · right; left; simp
      · right; right; exact h'

theorem treePairs_none_closed (fs : List κ) (x y : List κ) (h : (x, y) ∈ treePairs none fs)
    (h2 : 2 ≤ x.length) : (x.dropLast, x) ∈ treePairs none fs := by
  cases fs with
  | nil => simp [treePairs] at h
  | cons f r =>
    simp only [treePairs] at h ⊢
    rcases treePairs_some_closed r [f] x y h with rfl | h'
    · simp at h2
    · exact h'

/-! ### unique keys, no residual edge -/

theorem forall_tupd {κ' α : Type} [DecidableEq κ'] (Q : α → Prop) (t : List (κ' × α)) (k : κ') (f : α → α) (d : α)
    (ht : ∀ x ∈ t, Q x.2) (hf : ∀ v, Q v → Q (f v)) (hd : Q (f d)) : ∀ x ∈ tupd t k f d, Q x.2 := by
  induction t with
  | nil => intro x hx; simp [tupd] at hx; subst hx; exact hd
  | cons hd' tl ih =>
    obtain ⟨k0, v0⟩ := hd'
    intro x hx
    by_cases h0 : k0 = k
    · simp only [tupd, h0, if_true, List.mem_cons] at hx
      rcases hx with rfl | hx
      · exact hf _ (ht (k0, v0) List.mem_cons_self)
      · exact ht x (List.mem_cons_of_mem _ hx)
    · simp only [tupd, h0, if_false, List.mem_cons] at hx
      rcases hx with rfl | hx
      · exact ht (k0, v0) List.mem_cons_self
      · exact ih (fun y hy => ht y (List.mem_cons_of_mem _ hy)) x hx

/-- edge-table facts preserved by every mutation the tree builder performs -/
def EdgesOK (g : GState (List κ)) : Prop := KeysNodup g.edges ∧ ∀ x ∈ g.edges, x.2.residual = false

theorem EdgesOK.addEdge {g : GState (List κ)} (h : EdgesOK g) (p n : List κ) (v : WD) :
    EdgesOK (g.addEdge p n v false) := by
  refine ⟨h.1.tupd _ _ _, ?_⟩
  unfold GState.addEdge
  apply forall_tupd (fun e : EdgeAcc => e.residual = false)
  · exact h.2
  · intro e he; simp [he]
  · simp [EdgeAcc.zero]

theorem treeStep_edgesOK (v : WD) (a : TInner κ) (f : κ) (h : EdgesOK a.g) : EdgesOK (treeStep v a f).g := by
  unfold treeStep
  cases a.parent with
  | none => exact h
  | some p => exact EdgesOK.addEdge (g := a.g.addCum (p ++ [f]) v) h _ _ _

theorem foldTree_edgesOK (v : WD) (fs : List κ) : ∀ (a : TInner κ), EdgesOK a.g →
    EdgesOK (fs.foldl (treeStep v) a).g := by
  induction fs with
  | nil => intro a h; exact h
  | cons f fs ih => intro a h; exact ih _ (treeStep_edgesOK v a f h)

theorem treeSampleStep_edgesOK (g : GState (List κ)) (s : GSample κ) (h : EdgesOK g) :
    EdgesOK (treeSampleStep g s) := by
  unfold treeSampleStep
  split
  · exact h
  · have := foldTree_edgesOK s.wd s.frames ⟨g, none⟩ h
    generalize List.foldl (treeStep s.wd) ⟨g, none⟩ s.frames = r at this
    simp only
    cases hp : r.parent with
    | none => simpa [hp] using this
    | some p => simp only [hp]; exact this

theorem newTree_edgesOK (ss : List (GSample κ)) : EdgesOK (newTree ss) := by
  unfold newTree
  suffices h : ∀ (l : List (GSample κ)) (g : GState (List κ)), EdgesOK g → EdgesOK (l.foldl treeSampleStep g) from
    h ss _ ⟨by simp [KeysNodup, GState.empty], by simp [GState.empty]⟩
  intro l
  induction l with
  | nil => intro g h; exact h
  | cons s l ih => intro g h; exact ih _ (treeSampleStep_edgesOK g s h)

/-- the edge table of a tree built by `newTree` is a path-keyed forest -/
theorem newTree_pathForest (ss : List (GSample κ)) : PathForest (newTree ss).edges := by
  have hmem : ∀ a b e, ((a, b), e) ∈ (newTree ss).edges →
      ∃ s ∈ ss, (a, b) ∈ treePairs none s.frames := by
    intro a b e he
    have h := thas_of_mem _ _ _ he
    have h' : (newTree ss).hasEdge a b = true := h
    rw [newTree_hasEdge, List.any_eq_true] at h'
    obtain ⟨s, hs, hc⟩ := h'
    simp only [Bool.and_eq_true, decide_eq_true_eq] at hc
    exact ⟨s, hs, hc.2⟩
  refine ⟨(newTree_edgesOK ss).1, ?_, ?_⟩
  · intro a b e he
    obtain ⟨s, _, hp⟩ := hmem a b e he
    exact treePairs_none_shape _ _ _ hp
  · intro a b e he h2
    have h := thas_of_mem _ _ _ he
    have h' : (newTree ss).hasEdge a b = true := h
    rw [newTree_hasEdge, List.any_eq_true] at h'
    obtain ⟨s, hs, hc⟩ := h'
    simp only [Bool.and_eq_true, decide_eq_true_eq] at hc
    have hcl := treePairs_none_closed _ _ _ hc.2 h2
    rw [← thas_eq_tfind]
    show (newTree ss).hasEdge a.dropLast a = true
    rw [newTree_hasEdge, List.any_eq_true]
    exact ⟨s, hs, by simp [hc.1, hcl]⟩

end PV.Graph
