import PprofVerif.Lemmas.MergeOutput
import PprofVerif.Lemmas.MergeWeight
import PprofVerif.Lemmas.MergeHeaders
/-!
One pass of the merge (`mergeOnce`): for valid, well-typed, compatible inputs it returns a valid
profile whose weight function is the sum of the inputs' weight functions, in which every stack
occurs once (DESIGN A.2: conservation, validity and "each key once" read off the invariants).
-/
namespace PV.Merge
open PV.Spec
open PV.Wire (InI64 two63)

/-- Go's types: sample values and numeric label values are `int64`. -/
def Typed (p : Profile) : Prop :=
  ∀ s ∈ p.samples, (∀ v ∈ s.values, InI64 v) ∧ ∀ kv ∈ s.numLabel, ∀ v ∈ kv.2, InI64 v

def mkOut (hdr : Profile) (t : Tables) (stab : List (Str × Sample)) : Profile :=
  { hdr with
    samples := stab.map (·.2),
    mappings := renum setMappingId 1 t.mtab,
    locations := renum setLocationId 1 (t.ltab.map (·.2)),
    functions := renum setFunctionId 1 t.ftab }

theorem mkOut_hasTables (hdr : Profile) (t : Tables) (stab : List (Str × Sample)) :
    HasTables (mkOut hdr t stab) t := ⟨rfl, rfl, rfl⟩

theorem mergeOnce_eq (first : Profile) (rest : List Profile) (hdr : Profile) (srcs : List Src)
    (stab : List (Str × Sample)) (h1 : combineHeaders first rest = .ok hdr)
    (h2 : optMap resolveSrc (first :: rest) = some srcs)
    (h3 : accumulate [] ((allSamples srcs).map (keyedSample (buildTables srcs))) = .ok stab) :
    mergeOnce (first :: rest) = .ok (mkOut hdr (buildTables srcs) stab) := by
  simp only [mergeOnce, h1, h2, h3]
  rfl

/-! ### sources -/

structure SrcOK (n : Nat) (p : Profile) (src : Src) : Prop where
  res : resolve p = some src.samples
  ok : SamplesOK n src.samples
  nums : ∀ s ∈ src.samples, ∀ kv ∈ s.numLabel, ∀ v ∈ kv.2, InI64 v
  fns : ∀ s ∈ src.samples, ∀ l ∈ s.locs, l.linesHaveFn

theorem srcOK_of_valid {p : Profile} (hv : p.Valid) (ht : Typed p) :
    ∃ src, resolveSrc p = some src ∧ SrcOK p.sampleType.length p src := by
  obtain ⟨rs, hrs, hfa, hfn⟩ := resolve_valid hv
  have hvp := validParts_of_valid hv
  refine ⟨⟨rs, p.mappings.head?⟩, by simp only [resolveSrc, hrs], hrs, ?_, ?_, hfn⟩
  · intro r hr
    obtain ⟨s, hs, hres⟩ := forall₂_mem_right hfa hr
    obtain ⟨hval, _⟩ := resolveSample_fields hres
    rw [hval]
    exact ⟨(hvp.samples s hs).1, (ht s hs).1⟩
  · intro r hr
    obtain ⟨s, hs, hres⟩ := forall₂_mem_right hfa hr
    obtain ⟨_, _, hnl, _⟩ := resolveSample_fields hres
    rw [hnl]
    exact (ht s hs).2

theorem srcs_of_valid (n : Nat) : ∀ (ps : List Profile), (∀ p ∈ ps, p.Valid) → (∀ p ∈ ps, Typed p) →
    (∀ p ∈ ps, p.sampleType.length = n) →
    ∃ srcs, optMap resolveSrc ps = some srcs ∧ List.Forall₂ (SrcOK n) ps srcs
  | [], _, _, _ => ⟨[], rfl, List.Forall₂.nil⟩
  | p :: ps, hv, ht, hn => by
    obtain ⟨src, hsrc, hok⟩ := srcOK_of_valid (hv p (by simp)) (ht p (by simp))
    obtain ⟨srcs, hsrcs, hfa⟩ := srcs_of_valid n ps (fun q hq => hv q (List.mem_cons_of_mem _ hq))
      (fun q hq => ht q (List.mem_cons_of_mem _ hq)) (fun q hq => hn q (List.mem_cons_of_mem _ hq))
    rw [hn p (by simp)] at hok
    exact ⟨src :: srcs, by simp only [optMap, hsrc, hsrcs], List.Forall₂.cons hok hfa⟩

theorem mem_allSamples {srcs : List Src} {s : RSample} :
    s ∈ allSamples srcs ↔ ∃ src ∈ srcs, s ∈ src.samples ∧ isZeroSample s.values = false := by
  simp only [allSamples, processed, List.mem_flatMap, List.mem_filter, Bool.not_eq_true']

theorem mem_allLocs_of_sample {srcs : List Src} {s : RSample} (hs : s ∈ allSamples srcs) {l : RLocation}
    (hl : l ∈ s.locs) : l ∈ allLocs srcs := by
  simp only [allLocs, List.mem_flatMap]
  exact ⟨s, hs, hl⟩

/-! ### validity of the output -/

theorem mem_renum {ε : Type} (setId : ε → Nat → ε) : ∀ (n : Nat) (tab : List ε) (x : ε),
    x ∈ renum setId n tab → ∃ e ∈ tab, ∃ i, x = setId e i
  | _, [], _, h => by cases h
  | n, e :: es, x, h => by
    simp only [renum, List.mem_cons] at h
    rcases h with rfl | h
    · exact ⟨e, by simp, n, rfl⟩
    · obtain ⟨e', he', i, hi⟩ := mem_renum setId (n + 1) es x h
      exact ⟨e', List.mem_cons_of_mem _ he', i, hi⟩

theorem renum_idsNodup {ε : Type} (setId : ε → Nat → ε) (getId : ε → Nat)
    (hget : ∀ e n, getId (setId e n) = n) (tab : List ε) :
    idsNodup ((renum setId 1 tab).map getId) := by
  rw [renum_ids setId getId hget]
  unfold idsNodup
  rw [decide_eq_true_eq]
  exact ⟨List.nodup_range', by rw [List.mem_range'_1]; omega⟩

theorem renum_any_id {ε : Type} (setId : ε → Nat → ε) (getId : ε → Nat)
    (hget : ∀ e n, getId (setId e n) = n) (tab : List ε) (id : Nat) (h1 : 1 ≤ id) (h2 : id ≤ tab.length) :
    (renum setId 1 tab).any (fun x => getId x == id) = true := by
  have : id ∈ (renum setId 1 tab).map getId := by
    rw [renum_ids setId getId hget, List.mem_range'_1]
    omega
  obtain ⟨x, hx, hxid⟩ := List.mem_map.mp this
  exact List.any_eq_true.mpr ⟨x, hx, by simp [hxid]⟩

theorem valid_of_parts (r : Profile)
    (hT : r.sampleType.length ≠ 0 ∨ r.samples = [])
    (hS : ∀ s ∈ r.samples, s.values.length = r.sampleType.length ∧
      ∀ id ∈ s.locationIDs, id ≠ 0 ∧ r.locations.any (·.id == id) = true)
    (hM : idsNodup (r.mappings.map (·.id))) (hF : idsNodup (r.functions.map (·.id)))
    (hL : idsNodup (r.locations.map (·.id)))
    (hLoc : ∀ l ∈ r.locations, (l.mappingID = 0 ∨ r.mappings.any (·.id == l.mappingID) = true) ∧
      ∀ ln ∈ l.lines, ln.functionID ≠ 0 ∧ r.functions.any (·.id == ln.functionID) = true) : r.Valid := by
  unfold Profile.Valid Profile.validB
  simp only [Bool.and_eq_true, List.all_eq_true, Bool.or_eq_true, bne_iff_ne, ne_eq,
    beq_iff_eq, decide_eq_true_eq, List.isEmpty_iff]
  refine ⟨⟨⟨⟨⟨hT, ?_⟩, hM⟩, hF⟩, hL⟩, ?_⟩
  · intro s hs
    exact ⟨(hS s hs).1, fun id hid => (hS s hs).2 id hid⟩
  · intro l hl
    exact ⟨(hLoc l hl).1, fun ln hln => (hLoc l hl).2 ln hln⟩

/-! ### one pass -/

structure OnceSpec (n : Nat) (srcs : List Src) (hdr r : Profile) : Prop where
  hdr : headerOf r = headerOf hdr
  valid : r.Valid
  typed : Typed r
  rr : ∃ rr, resolve r = some rr ∧ SamplesOK n rr ∧ (rr.map stackKey).Nodup ∧
        List.Forall₂ (fun (e : Sample) rs => rs.values = e.values) r.samples rr ∧
        (∀ rs ∈ rr, ∃ s ∈ allSamples srcs, stackKey s = stackKey rs) ∧
        ∀ k, weightR n rr k = weightR n (allSamples srcs) k

theorem mergeOnce_spec (n : Nat) (first : Profile) (rest : List Profile) (hdr : Profile) (srcs : List Src)
    (hh : combineHeaders first rest = .ok hdr) (hst : hdr.sampleType.length = n)
    (hsrcs : optMap resolveSrc (first :: rest) = some srcs)
    (hok : List.Forall₂ (SrcOK n) (first :: rest) srcs) :
    ∃ r, mergeOnce (first :: rest) = .ok r ∧ OnceSpec n srcs hdr r := by
  let t := buildTables srcs
  let S := allSamples srcs
  let items := S.map (keyedSample t)
  -- facts about the traversed samples
  have hS : ∀ s ∈ S, VecOK n s.values ∧ (∀ kv ∈ s.numLabel, ∀ v ∈ kv.2, InI64 v) ∧
      (∀ l ∈ s.locs, l.linesHaveFn) ∧ isZeroSample s.values = false := by
    intro s hs
    obtain ⟨src, hsrc, hmem, hz⟩ := mem_allSamples.mp hs
    obtain ⟨p, _, hp⟩ := forall₂_mem_right hok hsrc
    exact ⟨hp.ok s hmem, hp.nums s hmem, hp.fns s hmem, hz⟩
  have hfnAll : ∀ l' ∈ allLocs srcs, l'.linesHaveFn := by
    intro l hl
    simp only [allLocs, List.mem_flatMap] at hl
    obtain ⟨s, hs, hls⟩ := hl
    exact (hS s hs).2.2.1 l hls
  have hitems : ∀ x ∈ items, VecOK n x.2.values := by
    intro x hx
    obtain ⟨s, hs, rfl⟩ := List.mem_map.mp hx
    exact (hS s hs).1
  obtain ⟨tab, htab, hinv⟩ := accumulate_spec items hitems
  have hlen := hinv.len (fun y hy => (hitems y hy).1)
  refine ⟨mkOut hdr t tab, mergeOnce_eq first rest hdr srcs tab hh hsrcs htab, ?_⟩
  have hT := mkOut_hasTables hdr t tab
  -- key ⇔ stack key on the traversed samples
  have hkey : ∀ s1 ∈ S, ∀ s2 ∈ S, ((keyedSample t s1).1 = (keyedSample t s2).1 ↔ stackKey s1 = stackKey s2) := by
    intro s1 h1 s2 h2
    exact sampleKey_eq_iff t.ftab t.mtab t.ltab s1 s2
      (fun l hl => ⟨locIn_of_mem_allLocs srcs (mem_allLocs_of_sample h1 hl),
        locKey_mem_ltab srcs (mem_allLocs_of_sample h1 hl)⟩)
      (hS s1 h1).2.1 (hS s2 h2).2.1
  -- every entry resolves
  have hentry : ∀ e ∈ tab, ∃ rs, resolveSample (mkOut hdr t tab) e.2 = some rs ∧
      (∃ s ∈ S, (keyedSample t s).1 = e.1 ∧ stackKey rs = stackKey s ∧ rs.numLabel = s.numLabel) ∧
      rs.values = e.2.values ∧ ∀ l ∈ rs.locs, l.linesHaveFn := by
    intro e he
    obtain ⟨x, hx, hxk, hshape⟩ := hinv.shape e he
    obtain ⟨s, hs, rfl⟩ := List.mem_map.mp hx
    obtain ⟨rs, h1, h2, h3, h4, h5⟩ := resolveSample_out srcs hT s hs e.2 hshape
    exact ⟨rs, h1, ⟨s, hs, hxk, h2, h4⟩, h3, h5 hfnAll⟩
  obtain ⟨rr, hrr, hfa⟩ := optMap_map_exists (resolveSample (mkOut hdr t tab)) (fun e : Str × Sample => e.2)
    (fun e rs => (∃ s ∈ S, (keyedSample t s).1 = e.1 ∧ stackKey rs = stackKey s ∧ rs.numLabel = s.numLabel) ∧
      rs.values = e.2.values ∧ ∀ l ∈ rs.locs, l.linesHaveFn) tab (by
      intro e he
      obtain ⟨rs, h1, h2, h3, h4⟩ := hentry e he
      exact ⟨rs, h1, h2, h3, h4⟩)
  have hres : resolve (mkOut hdr t tab) = some rr := hrr
  have hrrOK : SamplesOK n rr := by
    intro rs hrs
    obtain ⟨e, he, _, hv, _⟩ := forall₂_mem_right hfa hrs
    rw [hv, hinv.vals e he]
    apply sumV_VecOK
    intro v hv'
    obtain ⟨x, hx, rfl⟩ := List.mem_map.mp hv'
    exact (hitems x (List.mem_of_mem_filter hx)).1
  -- each stack once
  have hnodup : (rr.map stackKey).Nodup := by
    refine forall₂_nodup (fun e : Str × Sample => e.1) stackKey hfa hinv.nodup ?_
    intro e _ e' _ rs rs' hr hr' hg
    obtain ⟨⟨s, hs, hk, hsk, _⟩, _⟩ := hr
    obtain ⟨⟨s', hs', hk', hsk', _⟩, _⟩ := hr'
    rw [← hk, ← hk']
    exact (hkey s hs s' hs').mpr (by rw [← hsk, ← hsk', hg])
  -- values of an entry = weight of its stack over the traversed samples
  have hval : ∀ rs ∈ rr, rs.values = weightR n S (stackKey rs) := by
    intro rs hrs
    obtain ⟨e, he, ⟨s, hs, hk, hsk, _⟩, hv, _⟩ := forall₂_mem_right hfa hrs
    rw [hv, hinv.vals e he, hsk]
    unfold weightR
    congr 1
    simp only [items, List.filter_map, List.map_map]
    congr 1
    apply List.filter_congr
    intro s' hs'
    simp only [Function.comp, decide_eq_decide]
    rw [← hk]
    exact hkey s' hs' s hs
  have hcomplete : ∀ s ∈ S, ∃ rs ∈ rr, stackKey rs = stackKey s := by
    intro s hs
    have hk : (keyedSample t s).1 ∈ tab.map (·.1) := (hinv.keys _).mpr (List.mem_map_of_mem (List.mem_map_of_mem hs))
    obtain ⟨e, he, hek⟩ := List.mem_map.mp hk
    obtain ⟨rs, hrs, ⟨s', hs', hk', hsk', _⟩, _⟩ := forall₂_mem_left hfa he
    refine ⟨rs, hrs, ?_⟩
    rw [hsk']
    exact (hkey s' hs' s hs).mp (by rw [hk', hek])
  have hweight : ∀ k, weightR n rr k = weightR n S k := by
    intro k
    by_cases hex : ∃ rs ∈ rr, stackKey rs = k
    · obtain ⟨rs, hrs, rfl⟩ := hex
      rw [weightR_of_nodup hrrOK hnodup hrs, hval rs hrs]
    · rw [weightR_of_not_mem (fun rs hrs h => hex ⟨rs, hrs, h⟩), weightR_of_not_mem]
      intro s hs h
      obtain ⟨rs, hrs, hk⟩ := hcomplete s hs
      exact hex ⟨rs, hrs, hk.trans h⟩
  have hsampOut : (mkOut hdr t tab).samples = tab.map (·.2) := rfl
  refine ⟨rfl, ?_, ?_, ⟨rr, hres, hrrOK, hnodup, ?_, ?_, hweight⟩⟩
  · -- validity
    apply valid_of_parts
    · by_cases h0 : n = 0
      · right
        rw [hsampOut]
        have hnil : items = [] := by
          simp only [items, List.map_eq_nil_iff]
          apply List.eq_nil_iff_forall_not_mem.mpr
          intro s hs
          obtain ⟨hv, _, _, hz⟩ := hS s hs
          have : s.values = [] := List.eq_nil_of_length_eq_zero (by rw [hv.1, h0])
          rw [this] at hz
          simp [isZeroSample] at hz
        have hk : ∀ k, k ∉ tab.map (·.1) := by
          intro k hk; have := (hinv.keys k).mp hk; rw [hnil] at this; cases this
        cases htab' : tab with
        | nil => rfl
        | cons e es => exact absurd (by rw [htab']; simp) (hk e.1)
      · left; show hdr.sampleType.length ≠ 0; omega
    · intro s hs
      rw [hsampOut] at hs
      obtain ⟨e, he, rfl⟩ := List.mem_map.mp hs
      refine ⟨by show e.2.values.length = hdr.sampleType.length; rw [hlen e he, hst], ?_⟩
      intro id hid
      obtain ⟨x, hx, _, hshape⟩ := hinv.shape e he
      obtain ⟨s0, hs0, rfl⟩ := List.mem_map.mp hx
      rw [hshape.1] at hid
      obtain ⟨l, hl, rfl⟩ := List.mem_map.mp hid
      have hlm := locKey_mem_ltab srcs (mem_allLocs_of_sample hs0 hl)
      have h1 := idOf_pos Prod.fst t.ltab (locKeyOf t.ftab t.mtab l)
      have h2 := idOf_le Prod.fst t.ltab _ hlm
      refine ⟨by show t.lid l ≠ 0; rw [tables_lid]; exact Nat.ne_of_gt h1, ?_⟩
      exact renum_any_id setLocationId (·.id) (fun _ _ => rfl) _ _ h1 (by rw [List.length_map]; exact h2)
    · exact renum_idsNodup setMappingId (·.id) (fun _ _ => rfl) _
    · exact renum_idsNodup setFunctionId (·.id) (fun _ _ => rfl) _
    · exact renum_idsNodup setLocationId (·.id) (fun _ _ => rfl) _
    · intro lo hlo
      obtain ⟨l', hl', i, rfl⟩ := mem_renum setLocationId 1 _ lo hlo
      obtain ⟨e, he, rfl⟩ := List.mem_map.mp hl'
      have hsrc : e ∈ (allLocs srcs).map fun l => (locKeyOf t.ftab t.mtab l, remapLoc t.ftab t.mtab l) :=
        mem_internBy Prod.fst _ e he
      obtain ⟨l0, hl0, rfl⟩ := List.mem_map.mp hsrc
      have hin := locIn_of_mem_allLocs srcs hl0
      constructor
      · show (remapLoc t.ftab t.mtab l0).mappingID = 0 ∨ _
        unfold remapLoc
        cases hm : l0.mapping with
        | none => left; rfl
        | some m =>
          right
          exact renum_any_id setMappingId (·.id) (fun _ _ => rfl) _ _ (idOf_pos _ _ _) (idOf_le _ _ _ (hin.1 m hm))
      · intro ln hln
        have hln' : ln ∈ l0.lines.map (remapLine t.ftab) := by
          have : (setLocationId (remapLoc t.ftab t.mtab l0) i).lines = l0.lines.map (remapLine t.ftab) := by
            unfold setLocationId remapLoc; cases l0.mapping <;> rfl
          rw [← this]; exact hln
        obtain ⟨rl, hrl, rfl⟩ := List.mem_map.mp hln'
        have hsome := hfnAll l0 hl0 rl hrl
        cases hfn : rl.fn with
        | none => rw [hfn] at hsome; cases hsome
        | some f =>
          rw [remapLine_eq]
          simp only [hfn, fidOpt]
          have h1 := idOf_pos functionKey t.ftab (functionKey f)
          exact ⟨Nat.ne_of_gt h1, renum_any_id setFunctionId (·.id) (fun _ _ => rfl) _ _ h1
            (idOf_le _ _ _ (hin.2 rl hrl f hfn))⟩
  · -- typed
    intro s hs
    rw [hsampOut] at hs
    obtain ⟨e, he, rfl⟩ := List.mem_map.mp hs
    constructor
    · rw [hinv.vals e he]
      refine (sumV_VecOK _ ?_).2
      intro v hv'
      obtain ⟨x, hx, rfl⟩ := List.mem_map.mp hv'
      exact (hitems x (List.mem_of_mem_filter hx)).1
    · obtain ⟨x, hx, _, hshape⟩ := hinv.shape e he
      obtain ⟨s0, hs0, rfl⟩ := List.mem_map.mp hx
      rw [hshape.2.2.1]
      exact (hS s0 hs0).2.1
  · rw [hsampOut]
    have : ∀ {l : List (Str × Sample)} {l' : List RSample},
        List.Forall₂ (fun e rs => (∃ s ∈ S, (keyedSample t s).1 = e.1 ∧ stackKey rs = stackKey s ∧ rs.numLabel = s.numLabel) ∧
          rs.values = e.2.values ∧ ∀ l ∈ rs.locs, l.linesHaveFn) l l' →
        List.Forall₂ (fun (e : Sample) rs => rs.values = e.values) (l.map (·.2)) l' := by
      intro l l' h
      induction h with
      | nil => exact List.Forall₂.nil
      | cons hr _ ih => exact List.Forall₂.cons hr.2.1 ih
    exact this hfa
  · intro rs hrs
    obtain ⟨e, _, ⟨s, hs, _, hsk, _⟩, _⟩ := forall₂_mem_right hfa hrs
    exact ⟨s, hs, hsk.symm⟩

end PV.Merge
