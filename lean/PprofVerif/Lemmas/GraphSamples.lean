import PprofVerif.Lemmas.GraphEdges
namespace PV.Graph
open PV.GSpec
variable {κ : Type} [DecidableEq κ]

/-- event of one sample on edge (x,y) -/
def sampleEv (K : κ → Bool) (s : GSample κ) (x y : κ) : Option Bool :=
  if counted s = true then edgeEv K [] none false s.frames x y else none

theorem counted_eq (s : GSample κ) : counted s = !(s.d == 0 && s.w == 0) := by
  unfold counted; cases h1 : s.w == 0 <;> cases h2 : s.d == 0 <;> rfl

theorem sampleStep_edge (K : κ → Bool) (g : GState κ) (s : GSample κ) (x y : κ) :
    (sampleStep K g s).edgeAt x y = applyEvent (g.edgeAt x y) s.wd (sampleEv K s x y) ∧
    (sampleStep K g s).hasEdge x y = (g.hasEdge x y || (sampleEv K s x y).isSome) := by
  unfold sampleStep sampleEv
  rw [counted_eq]
  by_cases hs : (s.d == 0 && s.w == 0) = true
  · simp [hs, applyEvent]
  · simp only [hs]
    obtain ⟨h1, h2⟩ := foldFrames_edge K s.wd x y s.frames ⟨g, [], [], none, false⟩
    generalize List.foldl (stepFrame K s.wd) ⟨g, [], [], none, false⟩ s.frames = r at h1 h2
    simp only [Bool.not_eq_true] at hs
    simp only [hs, Bool.not_false, if_true]
    cases hp : r.parent with
    | none => exact ⟨h1, h2⟩
    | some p =>
      cases hr : r.residual
      · simp only [Bool.not_false, if_true, addFlat_edgeAt, addFlat_hasEdge]; exact ⟨h1, h2⟩
      · simp only [Bool.not_true]; exact ⟨h1, h2⟩

theorem applyEvent_weight (e : EdgeAcc) (v : WD) (ev : Option Bool) :
    (applyEvent e v ev).weight = e.weight + ind (ev.isSome = true) v := by
  cases ev <;> simp [applyEvent]
theorem applyEvent_residual (e : EdgeAcc) (v : WD) (ev : Option Bool) :
    (applyEvent e v ev).residual = (e.residual || (ev == some true)) := by
  cases ev with
  | none => simp [applyEvent]
  | some r => cases r <;> simp [applyEvent]

theorem sampleEv_isSome_wd (K : κ → Bool) (s : GSample κ) (x y : κ) :
    ind ((sampleEv K s x y).isSome = true) s.wd = ind ((edgeEv K [] none false s.frames x y).isSome = true) s.wd := by
  unfold sampleEv
  by_cases hc : counted s = true
  · simp [hc]
  · have : s.wd = 0 := by
      apply wd_zero_of_skip
      rw [counted_eq] at hc
      simpa using hc
    simp [this]

theorem foldSamples_edge (K : κ → Bool) (x y : κ) (ss : List (GSample κ)) : ∀ (g : GState κ),
    (ss.foldl (sampleStep K) g).weight x y =
      g.weight x y + sumOver ss (fun s => (edgeEv K [] none false s.frames x y).isSome) ∧
    (ss.foldl (sampleStep K) g).residual x y =
      (g.residual x y || ss.any (fun s => sampleEv K s x y == some true)) ∧
    (ss.foldl (sampleStep K) g).hasEdge x y =
      (g.hasEdge x y || ss.any (fun s => (sampleEv K s x y).isSome)) := by
  induction ss with
  | nil => intro g; simp
  | cons s ss ih =>
    intro g
    rw [List.foldl_cons]
    obtain ⟨i1, i2, i3⟩ := ih (sampleStep K g s)
    obtain ⟨s1, s2⟩ := sampleStep_edge K g s x y
    refine ⟨?_, ?_, ?_⟩
    · rw [i1, weight_eq_edgeAt, s1, applyEvent_weight, sampleEv_isSome_wd, sumOver_cons, WD.add_assoc]
      rfl
    · rw [i2, residual_eq_edgeAt, s1, applyEvent_residual, List.any_cons, Bool.or_assoc]
      rfl
    · rw [i3, s2, List.any_cons, Bool.or_assoc]

/-! ### `firstFlag ∘ pairsK` is adjacency in the filtered stack -/
theorem firstFlag_isSome (x y : κ) (l : List (κ × κ × Bool)) :
    (firstFlag x y l).isSome = true ↔ ∃ r, (x, y, r) ∈ l := by
  induction l with
  | nil => simp [firstFlag]
  | cons hd tl ih =>
    obtain ⟨a, b, r⟩ := hd
    unfold firstFlag
    by_cases h : a = x ∧ b = y
    · obtain ⟨rfl, rfl⟩ := h
      simp
    · simp only [h, if_false, ih, List.mem_cons, Prod.mk.injEq]
      constructor
      · rintro ⟨r', hr'⟩; exact ⟨r', Or.inr hr'⟩
      · rintro ⟨r', hr' | hr'⟩
        · exact absurd ⟨hr'.1.symm, hr'.2.1.symm⟩ h
        · exact ⟨r', hr'⟩

/-- adjacent pairs of `par? ++ kf` -/
def adjP : Option κ → List κ → List (κ × κ)
  | none, kf => kf.zip kf.tail
  | some p, kf => (p :: kf).zip kf

theorem mem_pairsK (K : κ → Bool) (x y : κ) (fs : List κ) : ∀ (par : Option κ) (res : Bool),
    (∃ r, (x, y, r) ∈ pairsK K par res fs) ↔ (x, y) ∈ adjP par (fs.filter K) := by
  induction fs with
  | nil => intro par res; cases par <;> simp [pairsK, adjP]
  | cons f fs ih =>
    intro par res
    by_cases hk : K f = true
    · cases par with
      | none =>
        simp only [pairsK, hk, if_true, List.filter_cons]
        rw [ih]
        simp [adjP]
      | some p =>
        simp only [pairsK, hk, if_true, List.filter_cons, List.mem_cons, Prod.mk.injEq]
        have := ih (some f) false
        simp only [adjP, List.zip_cons_cons, List.mem_cons, Prod.mk.injEq] at this ⊢
        constructor
        · rintro ⟨r, h | h⟩
          · exact Or.inl ⟨h.1, h.2.1⟩
          · exact Or.inr (this.mp ⟨r, h⟩)
        · rintro (h | h)
          · exact ⟨res, Or.inl ⟨h.1, h.2, rfl⟩⟩
          · obtain ⟨r, hr⟩ := this.mpr h
            exact ⟨r, Or.inr hr⟩
    · have hkf : K f = false := by simpa using hk
      simp only [pairsK, hkf, List.filter_cons]
      simpa using ih par true

theorem edgeEv_isSome (K : κ → Bool) (fs : List κ) (x y : κ) :
    (edgeEv K [] none false fs x y).isSome = (decide (x ≠ y) && adjacent x y (fs.filter K)) := by
  unfold edgeEv adjacent
  by_cases hxy : x = y
  · simp [hxy]
  · simp only [hxy, ne_eq, not_false_eq_true, List.not_mem_nil, and_self, if_true, decide_true, Bool.true_and]
    rw [Bool.eq_iff_iff, firstFlag_isSome, mem_pairsK]
    simp [adjP]
end PV.Graph
