import PprofVerif.Model.Crash
/-!
Helper lemmas for property C09 (no-panic of the modelled decision logic). Core Lean only.
-/
namespace PV.Crash
open PV

def NoPanic {α} (x : Outcome α) : Prop := ∀ site, x ≠ .panic site

theorem NoPanic.ok {α} (a : α) : NoPanic (Outcome.ok a) := by intro s h; cases h

theorem NoPanic.pure {α} (a : α) : NoPanic (pure a : Outcome α) := by intro s h; cases h

theorem NoPanic.err {α} (e : String) : NoPanic (Outcome.err e : Outcome α) := by intro s h; cases h

theorem NoPanic.bind {α β} {x : Outcome α} {f : α → Outcome β}
    (hx : NoPanic x) (hf : ∀ a, x = .ok a → NoPanic (f a)) : NoPanic (x >>= f) := by
  cases x with
  | ok a => simpa using hf a rfl
  | err e => simp [NoPanic]
  | panic s => exact absurd rfl (hx s)

theorem idx_lt {α} (site : String) : ∀ (l : List α) (i : Nat), i < l.length → ∃ a, idx site l i = .ok a ∧ a ∈ l
  | [], _, h => by simp at h
  | a :: _, 0, _ => ⟨a, rfl, by simp⟩
  | _ :: as, n+1, h => by
    obtain ⟨a, h1, h2⟩ := idx_lt site as n (by simpa using h)
    exact ⟨a, by simpa [idx] using h1, by simp [h2]⟩

theorem compileTagFilterG_noPanic (ptr : Str → Outcome (Option RangeKind)) (h : ∀ v, NoPanic (ptr v)) (value : Str) :
    NoPanic (compileTagFilterG ptr value) := by
  unfold compileTagFilterG
  intro site
  have hs : ∀ v : Str, (splitN2 61 v).length = 2 → ∃ a b, splitN2 61 v = [a, b] := by
    intro v hv
    match hsp : splitN2 61 v, hv with
    | [a, b], _ => exact ⟨a, b, rfl⟩
  simp only [pure, bind]
  split
  · simp
  · by_cases h2 : (splitN2 61 value).length = 2
    · obtain ⟨a, b, hab⟩ := hs value h2
      simp [hab, idx, Outcome.bind]
      have := h b site
      split <;> simp_all
      split <;> simp
    · simp [h2, Outcome.bind]
      have := h value site
      split <;> simp_all
      split <;> simp

theorem candidateNames_guarded_noPanic (e : PathEnv) (path : Str) (m : MappingM) :
    NoPanic (candidateNames true e path m) := by
  intro site
  unfold candidateNames
  simp [sliceTo, sliceFrom]
  repeat' split
  all_goals first | (simp; done) | (exfalso; omega)

theorem locateOne_noPanic (e : PathEnv) (m : MappingM) : ∀ paths, NoPanic (locateOne true e paths m)
  | [] => by simp [locateOne, NoPanic]
  | p :: rest => by
    unfold locateOne
    apply NoPanic.bind (candidateNames_guarded_noPanic e p m)
    intro names _
    split
    · exact NoPanic.pure _
    · exact locateOne_noPanic e m rest

theorem locateAll_noPanic (e : PathEnv) (paths : List Str) : ∀ ms, NoPanic (locateAll true e paths ms)
  | [] => by simp [locateAll, NoPanic]
  | m :: ms => by
    unfold locateAll
    apply NoPanic.bind (locateOne_noPanic e m paths)
    intro r _
    apply NoPanic.bind (locateAll_noPanic e paths ms)
    intro rest _
    exact NoPanic.pure _

theorem locateBinaries_noPanic' (e : PathEnv) (paths : List Str) (ms : List MappingM) (x b : Str) :
    NoPanic (locateBinaries e paths ms x b) := by
  unfold locateBinaries locateBinariesG
  apply NoPanic.bind (locateAll_noPanic e paths ms)
  intro ms' _ site
  cases ms' <;> simp <;> split <;> simp [idx]

theorem set_noPanic (pf : Str → Bool) (c : Cfg) (f : Field) (v : Str) (hk : f.kind.supported = true) :
    NoPanic (set pf c f v) := by
  intro site
  unfold set
  split <;> (try split) <;> simp_all [Kind.supported]

theorem fields_supported : ∀ f ∈ fields, f.kind.supported = true := by
  decide

theorem matchAt_len3 (s : Str) (m : List Str) (rest : Str) (h : matchAt s = some (m, rest)) :
    ∃ a b c, m = [a, b, c] := by
  unfold matchAt at h
  simp only at h
  split at h
  · cases h
  · simp at h
    exact ⟨_, _, _, h.1.symm⟩

theorem findRangesF_len3 : ∀ (fuel k : Nat) (s : Str), ∀ m ∈ findRangesF fuel k s, ∃ a b c, m = [a, b, c]
  | 0, _, _ => by simp [findRangesF]
  | _+1, 0, _ => by simp [findRangesF]
  | fuel+1, k+1, s => by
    intro m hm
    unfold findRangesF at hm
    split at hm
    · rename_i m0 rest h0
      simp at hm
      rcases hm with rfl | hm
      · exact matchAt_len3 _ _ _ h0
      · exact findRangesF_len3 fuel k rest m hm
    · split at hm
      · simp at hm
      · exact findRangesF_len3 fuel (k+1) _ m hm

theorem parseTagFilterRangeG_noPanic (onOv : String → Outcome (Option RangeKind))
    (h : ∀ s, NoPanic (onOv s)) (su : Int → Str → Str → Str) (filter : Str) :
    NoPanic (parseTagFilterRangeG onOv su filter) := by
  unfold parseTagFilterRangeG
  have hlen : ∀ m ∈ findRanges 2 filter, ∃ a b c, m = [a, b, c] := findRangesF_len3 _ _ _
  generalize findRanges 2 filter = ranges at *
  intro site
  match ranges, hlen with
  | [], _ => simp
  | [r0], h3 =>
    obtain ⟨a, b, c, rfl⟩ := h3 r0 (by simp)
    simp [idx]
    repeat' split
    all_goals first | exact h _ site | simp
  | r0 :: r1 :: tl, h3 =>
    obtain ⟨a, b, c, rfl⟩ := h3 r0 (by simp)
    obtain ⟨a', b', c', rfl⟩ := h3 r1 (by simp)
    simp [idx]
    repeat' split
    all_goals first | exact h _ site | simp

theorem idxInt_ok {α} (site : String) (l : List α) (i : Int) (h0 : 0 ≤ i) (h1 : i < l.length) :
    ∃ a, idxInt site l i = .ok a ∧ a ∈ l := by
  unfold idxInt
  have : ¬ i < 0 := by omega
  simp [this]
  exact idx_lt site l i.toNat (by omega)

theorem find?_mem' {α} (p : α → Bool) : ∀ (l : List α) (a : α), l.find? p = some a → a ∈ l
  | [], _, h => by simp at h
  | b :: r, a, h => by
    simp [List.find?] at h
    split at h
    · cases h; simp
    · simp [find?_mem' p r a h]

theorem lookupField_mem (tbl : List Field) (name : Str) (f : Field) (h : lookupField tbl name = some f) : f ∈ tbl := by
  unfold lookupField at h
  split at h
  · rename_i f' hf
    cases h
    exact find?_mem' _ _ _ hf
  · exact find?_mem' _ _ _ h

theorem configure_noPanic (tbl : List Field) (ht : ∀ f ∈ tbl, f.kind.supported = true)
    (pf : Str → Bool) (c : Cfg) (name value : Str) : NoPanic (configure tbl pf c name value) := by
  unfold configure
  split
  · exact NoPanic.err _
  · rename_i f hf
    have hs := ht f (lookupField_mem _ _ _ hf)
    split
    · exact set_noPanic _ _ _ _ hs
    · split
      · exact set_noPanic _ _ _ _ hs
      · exact NoPanic.err _

theorem findIx_lt {α} (p : α → Bool) : ∀ (l : List α) (i : Nat), findIx p l = some i → i < l.length
  | [], _, h => by simp [findIx] at h
  | a :: r, i, h => by
    unfold findIx at h
    split at h
    · cases h; simp
    · cases hr : findIx p r with
      | none => simp [hr] at h
      | some j =>
        simp [hr] at h
        have := findIx_lt p r j hr
        simp; omega

theorem sampleIndexByName_range (p : Prof) (si : Str) (i : Int) (h : sampleIndexByName p si = .ok i) :
    -1 ≤ i ∧ i < p.sampleTypes.length ∧ (0 < p.sampleTypes.length → 0 ≤ i) := by
  unfold sampleIndexByName at h
  split at h
  · split at h
    · rename_i j hj
      cases h
      split at hj
      · cases hj
      · have := findIx_lt _ _ _ hj
        omega
    · cases h; omega
  · split at h
    · split at h
      · cases h
      · cases h; omega
    · simp only at h
      split at h
      · rename_i j hj
        cases h
        have := findIx_lt _ _ _ hj
        omega
      · cases h

theorem sampleIndexByName_noPanic (p : Prof) (si : Str) : NoPanic (sampleIndexByName p si) := by
  intro site
  unfold sampleIndexByName
  repeat' split
  all_goals first | (simp; done) | (simp; split <;> simp)

theorem sampleValue_noPanic (p : Prof) (si : Str) (mean : Bool) (values : List Int)
    (hv : values.length = p.sampleTypes.length) : NoPanic (sampleValue p si mean values) := by
  unfold sampleValue
  by_cases h0 : p.sampleTypes.length = 0
  · simp [h0, NoPanic]
  · simp only [h0, if_false]
    intro site
    simp only [bind, pure, Outcome.bind]
    split
    case h_2 => simp
    case h_3 s hs => exact absurd hs (sampleIndexByName_noPanic p si s)
    case h_1 index hi =>
      have hr := sampleIndexByName_range p si index hi
      obtain ⟨t, ht, _⟩ := idxInt_ok "driver.go sampleFormat p.SampleType[index]" p.sampleTypes index (by omega) (by omega)
      obtain ⟨v, hv', _⟩ := idxInt_ok "driver.go valueExtractor v[ix]" values index (by omega) (by omega)
      obtain ⟨d, hd, _⟩ := idx_lt "driver.go valueExtractor v[0]" values 0 (by omega)
      simp [ht, hv', hd]
      split <;> simp

theorem argStep_spec (args : List Str) (i : Nat) (acc : ArgAcc) (t : Str) (ht : t ≠ []) (hi : i < args.length) :
    NoPanic (argStep args i acc t) ∧
    ∀ i' acc', argStep args i acc t = .ok (i', acc') → i < i' ∧ i' ≤ args.length := by
  obtain ⟨c, r, rfl⟩ : ∃ c r, t = c :: r := by cases t <;> simp_all
  unfold argStep
  split
  · refine ⟨NoPanic.ok _, ?_⟩
    intro i' acc' h
    cases h
    omega
  · simp only [idx, sliceFrom, Outcome.bind_ok]
    by_cases hc : c = 62
    · simp only [hc, if_true]
      have h1 : (0:Int) ≤ 1 ∧ (1:Int) ≤ ((62 :: r : Str).length : Int) := by simp; omega
      simp only [h1, and_self, if_true, Outcome.bind_ok]
      split
      · split
        · exact ⟨NoPanic.err _, by intro _ _ h; cases h⟩
        · rename_i hlt
          obtain ⟨o, ho, _⟩ := idx_lt "interactive.go parseCommandLine args[i] after >" args (i+1) (by omega)
          simp only [ho, Outcome.bind_ok]
          refine ⟨NoPanic.pure _, ?_⟩
          intro i' acc' h
          cases h
          omega
      · refine ⟨NoPanic.pure _, ?_⟩
        intro i' acc' h
        cases h
        omega
    · simp only [hc, if_false]
      split
      · split
        · refine ⟨NoPanic.pure _, ?_⟩
          intro i' acc' h
          cases h
          omega
        · have h1 : (0:Int) ≤ 1 ∧ (1:Int) ≤ ((c :: r : Str).length : Int) := by simp; omega
          simp only [h1, and_self, if_true, Outcome.bind_ok]
          refine ⟨NoPanic.pure _, ?_⟩
          intro i' acc' h
          cases h
          omega
      · refine ⟨NoPanic.pure _, ?_⟩
        intro i' acc' h
        cases h
        omega

theorem argLoop_noPanic (args : List Str) (hne : ∀ t ∈ args, t ≠ []) :
    ∀ fuel i acc, i ≤ args.length → args.length + 1 ≤ fuel + i → NoPanic (argLoop args fuel i acc)
  | 0, i, acc, hi, hf => by omega
  | fuel+1, i, acc, hi, hf => by
    unfold argLoop
    split
    · exact NoPanic.ok _
    · rename_i hlt
      obtain ⟨t, ht, hmem⟩ := idx_lt "interactive.go parseCommandLine args[i]" args i (by omega)
      have hsp := argStep_spec args i acc t (hne t hmem) (by omega)
      simp only [ht, Outcome.bind_ok]
      apply NoPanic.bind hsp.1
      intro ⟨i', acc'⟩ hok
      have := hsp.2 i' acc' hok
      exact argLoop_noPanic args hne fuel i' acc' (by omega) (by omega)

theorem spanP_fst_length_le (p : UInt8 → Bool) : ∀ s : Str, (spanP p s).1.length ≤ s.length
  | [] => by simp [spanP]
  | b :: r => by
    unfold spanP
    split
    · have := spanP_fst_length_le p r
      simp; omega
    · simp

theorem tailDigits_length_le (s : Str) : (tailDigits s).length ≤ s.length := by
  unfold tailDigits
  have := spanP_fst_length_le isDigit s.reverse
  simpa using this

theorem sliceTo_ok {α} (site : String) (s : List α) (n : Int) (h0 : 0 ≤ n) (h1 : n ≤ s.length) :
    sliceTo site s n = .ok (s.take n.toNat) := by
  unfold sliceTo; simp [h0, h1]

theorem sliceFrom_ok {α} (site : String) (s : List α) (n : Int) (h0 : 0 ≤ n) (h1 : n ≤ s.length) :
    sliceFrom site s n = .ok (s.drop n.toNat) := by
  unfold sliceFrom; simp [h0, h1]

theorem splitCmdName_spec (cmds : List (Str × Bool)) (name : Str) (args : List Str)
    (hne : ∀ t ∈ args, t ≠ []) :
    NoPanic (splitCmdName cmds name args) ∧
    ∀ n a c, splitCmdName cmds name args = .ok (n, a, c) → ∀ t ∈ a, t ≠ [] := by
  unfold splitCmdName
  split
  · refine ⟨NoPanic.ok _, ?_⟩
    intro n a c h; cases h; exact hne
  · simp only []
    split
    · rename_i hd
      have hle := tailDigits_length_le name
      rw [sliceTo_ok _ _ _ (by omega) (by omega)]
      simp only [Outcome.bind_ok]
      refine ⟨NoPanic.pure _, ?_⟩
      intro n a c h
      cases h
      intro t ht
      simp at ht
      rcases ht with rfl | ht
      · simp at hd
        intro h0; simp [h0] at hd
      · exact hne t ht
    · refine ⟨NoPanic.ok _, ?_⟩
      intro n a c h; cases h; exact hne

theorem unknownCmd_noPanic {α} (tbl : List Field) (name : Str) (args : List Str) :
    NoPanic (unknownCmd (α := α) tbl name args) := by
  unfold unknownCmd
  intro site
  split
  · split
    · rename_i h
      obtain ⟨a, ha, _⟩ := idx_lt "interactive.go parseCommandLine args[0] (did you mean)" args 0 h
      simp [ha]
    · simp
  · simp

theorem takeParam_spec (name : Str) (hp : Bool) (args : List Str) (hne : ∀ t ∈ args, t ≠ []) :
    NoPanic (takeParam name hp args) ∧
    ∀ c a, takeParam name hp args = .ok (c, a) → ∀ t ∈ a, t ≠ [] := by
  unfold takeParam
  split
  · split
    · exact ⟨NoPanic.err _, by intro _ _ h; cases h⟩
    · rename_i h
      obtain ⟨a, ha, _⟩ := idx_lt "interactive.go parseCommandLine args[0] (param)" args 0 (by omega)
      rw [ha, sliceFrom_ok _ _ _ (by omega) (by omega)]
      simp only [Outcome.bind_ok]
      refine ⟨NoPanic.pure _, ?_⟩
      intro c a' h
      cases h
      intro t ht
      exact hne t (List.mem_of_mem_drop ht)
  · refine ⟨NoPanic.ok _, ?_⟩
    intro c a h; cases h; exact hne

theorem parseCommandLineG_noPanic (cmds : List (Str × Bool)) (tbl : List Field) (input : List Str) (cur : Cfg)
    (h0 : input ≠ []) (hne : ∀ t ∈ input, t ≠ []) : NoPanic (parseCommandLineG cmds tbl input cur) := by
  obtain ⟨t0, rest, rfl⟩ : ∃ a r, input = a :: r := by cases input <;> simp_all
  unfold parseCommandLineG
  rw [sliceTo_ok _ _ _ (by omega) (by simp; omega), sliceFrom_ok _ _ _ (by omega) (by simp; omega)]
  simp only [Outcome.bind_ok]
  have h1 : ((1:Int).toNat) = 1 := rfl
  simp only [h1, List.take_succ_cons, List.take_zero, List.drop_succ_cons, List.drop_zero, idx, Outcome.bind_ok]
  have hrest : ∀ t ∈ rest, t ≠ [] := fun t ht => hne t (by simp [ht])
  have hs := splitCmdName_spec cmds t0 rest hrest
  apply NoPanic.bind hs.1
  intro ⟨n, a, c⟩ hok
  have ha := hs.2 n a c hok
  simp only []
  split
  · exact unknownCmd_noPanic _ _ _
  · rename_i hp
    have ht := takeParam_spec n hp a ha
    apply NoPanic.bind ht.1
    intro ⟨cmd, a'⟩ hok2
    have ha' := ht.2 cmd a' hok2
    simp only []
    apply NoPanic.bind (argLoop_noPanic a' ha' _ 0 _ (by omega) (by omega))
    intro acc _
    exact NoPanic.pure _

theorem splitN2_cases (sep : UInt8) : ∀ s : Str, (∃ a, splitN2 sep s = [a]) ∨ (∃ a b, splitN2 sep s = [a, b])
  | [] => by simp [splitN2]
  | b :: r => by
    unfold splitN2
    split
    · exact Or.inr ⟨_, _, rfl⟩
    · rcases splitN2_cases sep r with ⟨a, ha⟩ | ⟨a, c, ha⟩
      · simp [ha]
      · simp [ha]

theorem lastIndexFrom_bounds (pat : Str) : ∀ (s : Str) (i : Nat) (acc : Int),
    -1 ≤ acc → acc ≤ i + s.length → -1 ≤ lastIndexFrom pat s i acc ∧ lastIndexFrom pat s i acc ≤ i + s.length
  | [], i, acc, h0, h1 => by
    unfold lastIndexFrom
    split <;> simp_all <;> omega
  | b :: r, i, acc, h0, h1 => by
    unfold lastIndexFrom
    have := lastIndexFrom_bounds pat r (i+1) (if isPrefix pat (b :: r) then (i:Int) else acc)
      (by split <;> omega) (by split <;> (simp at *; omega))
    simp at *
    omega

theorem lastIndex_bounds (s pat : Str) : -1 ≤ lastIndex s pat ∧ lastIndex s pat ≤ s.length := by
  have := lastIndexFrom_bounds pat s 0 (-1) (by omega) (by omega)
  simpa [lastIndex] using this

theorem parseAssign_noPanic (e : Env) (input : Str) : NoPanic (parseAssign e input) := by
  unfold parseAssign
  intro site
  rcases splitN2_cases 61 input with ⟨a, ha⟩ | ⟨a, b, ha⟩
  · simp [ha, idx]
  · have hb := lastIndex_bounds b (S "//:")
    simp only [ha, idx, Outcome.bind_ok, List.length_cons, List.length_nil]
    simp only [if_true]
    split
    · rename_i hc
      rw [sliceTo_ok _ _ _ (by omega) (by omega)]
      simp
    · simp

theorem resolveSampleIndex_noPanic (p : Prof) (v : Str) : NoPanic (resolveSampleIndex p v) := by
  unfold resolveSampleIndex
  intro site
  split
  · simp
  · rename_i s hs
    exact absurd hs (sampleIndexByName_noPanic p v s)
  · rename_i index hi
    split
    · simp
    · rename_i hr
      obtain ⟨t, ht, _⟩ := idxInt_ok "interactive.go interactive p.SampleType[index]" p.sampleTypes index (by omega) (by omega)
      simp [ht]

theorem assign_spec (e : Env) (ht : ∀ f ∈ e.tbl, f.kind.supported = true) (s : Sess) (name value : Str) (hasEq : Bool) :
    NoPanic (assign e s name value hasEq) ∧
    ∀ s' ev, assign e s name value hasEq = .ok (s', ev) → s'.prof = s.prof := by
  unfold assign
  split
  · exact ⟨NoPanic.pure _, by intro s' ev h; cases h; rfl⟩
  · have hv : NoPanic (if name = S "sample_index" then resolveSampleIndex s.prof value else pure (some value)) := by
      split
      · exact resolveSampleIndex_noPanic _ _
      · exact NoPanic.pure _
    generalize (if name = S "sample_index" then resolveSampleIndex s.prof value else pure (some value)) = rv at hv
    cases rv with
    | panic st => exact absurd rfl (hv st)
    | err m => exact ⟨NoPanic.err _, by intro s' ev h; cases h⟩
    | ok ov =>
      simp only [Outcome.bind_ok]
      cases ov with
      | none => exact ⟨NoPanic.pure _, by intro s' ev h; cases h; rfl⟩
      | some v =>
        simp only []
        have hc := configure_noPanic e.tbl ht e.parseFloatOk s.cfg name v
        generalize configure e.tbl e.parseFloatOk s.cfg name v = rc at hc
        cases rc with
        | panic st => exact absurd rfl (hc st)
        | err m => exact ⟨NoPanic.pure _, by intro s' ev h; cases h; rfl⟩
        | ok c => exact ⟨NoPanic.pure _, by intro s' ev h; cases h; rfl⟩

theorem printCurrentOptions_noPanic (s : Sess) (hst : s.prof.sampleTypes ≠ []) : NoPanic (printCurrentOptions s) := by
  unfold printCurrentOptions
  intro site
  have hl : 0 < s.prof.sampleTypes.length := List.length_pos_iff.mpr hst
  split
  · obtain ⟨t, ht, _⟩ := idxInt_ok "interactive.go printCurrentOptions st[len(st)-1]" s.prof.sampleTypes
      ((s.prof.sampleTypes.length : Int) - 1) (by omega) (by omega)
    simp [ht]
  · simp

theorem command_spec (e : Env) (hf : ∀ s, ∀ t ∈ e.fields s, t ≠ [])
    (hg : ∀ c cfg, NoPanic (e.gen c cfg)) (s : Sess) (hst : s.prof.sampleTypes ≠ []) (input : Str) :
    NoPanic (command e s input) ∧
    ∀ s' ev, command e s input = .ok (s', ev) → s'.prof = s.prof := by
  unfold command
  simp only []
  split
  · exact ⟨NoPanic.pure _, by intro s' ev h; cases h; rfl⟩
  · rename_i hlen
    obtain ⟨t0, ht0, _⟩ := idx_lt "interactive.go interactive tokens[0]" (e.fields input) 0 (by omega)
    simp only [ht0, Outcome.bind_ok]
    split
    · have hp := printCurrentOptions_noPanic s hst
      generalize printCurrentOptions s = r at hp
      cases r with
      | panic st => exact absurd rfl (hp st)
      | err m => exact ⟨NoPanic.err _, by intro s' ev h; cases h⟩
      | ok u => exact ⟨NoPanic.pure _, by intro s' ev h; cases h; rfl⟩
    · split
      · exact ⟨NoPanic.pure _, by intro s' ev h; cases h; rfl⟩
      · split
        · rw [sliceFrom_ok _ _ _ (by omega) (by omega)]
          exact ⟨NoPanic.pure _, by intro s' ev h; cases h; rfl⟩
        · have hp := parseCommandLineG_noPanic e.cmds e.tbl (e.fields input) s.cfg
            (by intro h0; simp [h0] at hlen) (hf input)
          generalize parseCommandLineG e.cmds e.tbl (e.fields input) s.cfg = r at hp
          cases r with
          | panic st => exact absurd rfl (hp st)
          | err m => exact ⟨NoPanic.pure _, by intro s' ev h; cases h; rfl⟩
          | ok cc =>
            obtain ⟨cmd, cfg⟩ := cc
            simp only []
            have hgg := hg cmd cfg
            generalize e.gen cmd cfg = rg at hgg
            cases rg with
            | panic st => exact absurd rfl (hgg st)
            | err m => exact ⟨NoPanic.pure _, by intro s' ev h; cases h; rfl⟩
            | ok u => exact ⟨NoPanic.pure _, by intro s' ev h; cases h; rfl⟩

/-- the assumptions on the external functions under which a session never panics -/
structure EnvOK (e : Env) : Prop where
  /-- `strings.Fields` never returns an empty token -/
  fields_nonempty : ∀ s, ∀ t ∈ e.fields s, t ≠ []
  /-- everything behind the parsed command returns or reports an error (campaign-tested, not proved) -/
  gen_noPanic : ∀ c cfg, NoPanic (e.gen c cfg)
  /-- every configurable field has a type `set` supports -/
  tbl_supported : ∀ f ∈ e.tbl, f.kind.supported = true

theorem stepOne_spec (e : Env) (he : EnvOK e) (s : Sess) (hst : s.prof.sampleTypes ≠ []) (input : Str) :
    NoPanic (stepOne e s input) ∧
    ∀ s' ev, stepOne e s input = .ok (s', ev) → s'.prof = s.prof := by
  unfold stepOne
  have hp := parseAssign_noPanic e input
  generalize parseAssign e input = r at hp
  cases r with
  | panic st => exact absurd rfl (hp st)
  | err m => exact ⟨NoPanic.err _, by intro s' ev h; cases h⟩
  | ok nv =>
    obtain ⟨name, value, hasEq⟩ := nv
    simp only [Outcome.bind_ok]
    split
    · exact assign_spec e he.tbl_supported s name value hasEq
    · exact command_spec e he.fields_nonempty he.gen_noPanic s hst input

theorem stepMany_spec (e : Env) (he : EnvOK e) : ∀ (inputs : List Str) (s : Sess), s.prof.sampleTypes ≠ [] →
    NoPanic (stepMany e s inputs) ∧
    ∀ s' ev, stepMany e s inputs = .ok (s', ev) → s'.prof = s.prof
  | [], s, _ => by
    unfold stepMany
    exact ⟨NoPanic.ok _, by intro s' ev h; cases h; rfl⟩
  | inp :: rest, s, hst => by
    unfold stepMany
    have h1 := stepOne_spec e he s hst inp
    generalize stepOne e s inp = r at h1
    cases r with
    | panic st => exact absurd rfl (h1.1 st)
    | err m => exact ⟨NoPanic.err _, by intro s' ev h; cases h⟩
    | ok p =>
      obtain ⟨s1, ev⟩ := p
      have hs1 : s1.prof = s.prof := h1.2 s1 ev rfl
      simp only [Outcome.bind_ok]
      split
      · exact ⟨NoPanic.pure _, by intro s' ev' h; cases h; exact hs1⟩
      · have h2 := stepMany_spec e he rest s1 (by rw [hs1]; exact hst)
        generalize stepMany e s1 rest = r2 at h2
        cases r2 with
        | panic st => exact absurd rfl (h2.1 st)
        | err m => exact ⟨NoPanic.err _, by intro s' ev h; cases h⟩
        | ok p2 =>
          obtain ⟨s2, ev2⟩ := p2
          exact ⟨NoPanic.pure _, by intro s' ev' h; cases h; rw [h2.2 s2 ev2 rfl, hs1]⟩

theorem step_spec (e : Env) (he : EnvOK e) (s : Sess) (hst : s.prof.sampleTypes ≠ []) (line : Str) :
    NoPanic (step e s line) ∧ ∀ s' ev, step e s line = .ok (s', ev) → s'.prof = s.prof :=
  stepMany_spec e he _ s hst

theorem run_spec (e : Env) (he : EnvOK e) : ∀ (lines : List Str) (s : Sess), s.prof.sampleTypes ≠ [] →
    NoPanic (run e s lines)
  | [], s, _ => by unfold run; exact NoPanic.ok _
  | l :: ls, s, hst => by
    unfold run
    have h1 := step_spec e he s hst l
    generalize step e s l = r at h1
    cases r with
    | panic st => exact absurd rfl (h1.1 st)
    | err m => exact NoPanic.err _
    | ok p =>
      obtain ⟨s1, ev⟩ := p
      have hs1 : s1.prof = s.prof := h1.2 s1 ev rfl
      simp only [Outcome.bind_ok]
      split
      · exact NoPanic.pure _
      · apply NoPanic.bind (run_spec e he ls s1 (by rw [hs1]; exact hst))
        intro _ _
        exact NoPanic.pure _

theorem completer_noPanic (fields : Str → List Str) (isCmd : Str → Bool) (matchVar fnComplete : Str → Str)
    (joinSp : List Str → Str) (line : Str) :
    NoPanic (completer fields isCmd matchVar fnComplete joinSp line) := by
  unfold completer
  intro site
  simp only []
  split
  · simp
  · rename_i hlen
    obtain ⟨t0, ht0, _⟩ := idx_lt "interactive.go newCompleter tokens[0]" (fields line) 0 (by omega)
    simp only [ht0, Outcome.bind_ok]
    split
    · simp
    · split
      · rename_i h2
        obtain ⟨t1, ht1, _⟩ := idx_lt "interactive.go newCompleter tokens[1]" (fields line) 1 (by omega)
        simp [ht1]
      · split
        · obtain ⟨l, hl, _⟩ := idxInt_ok "interactive.go newCompleter tokens[lastTokenIdx]" (fields line)
            (((fields line).length : Int) - 1) (by omega) (by omega)
          simp only [hl, Outcome.bind_ok]
          rw [sliceTo_ok _ _ _ (by omega) (by omega)]
          split
          · rename_i hpre
            have : 1 ≤ l.length := by
              cases l with
              | nil => simp [isPrefix] at hpre
              | cons a r => simp
            rw [sliceFrom_ok _ _ _ (by omega) (by omega)]
            simp
          · simp
        · simp

theorem fieldsAscii_nonempty : ∀ (s : Str) (t : Str), t ∈ fieldsAscii s → t ≠ []
  | [], t, h => by simp [fieldsAscii] at h
  | b :: r, t, h => by
    have ih := fieldsAscii_nonempty r
    unfold fieldsAscii at h
    split at h
    · exact ih t h
    · split at h
      · simp at h
        rcases h with rfl | h
        · simp
        · exact ih t h
      · split at h
        · simp at h
          rcases h with rfl | h
          · simp
          · exact ih t h
        · split at h
          · rename_i hr
            simp at h
            rcases h with rfl | h
            · simp
            · exact ih t (by rw [hr]; simp [h])
          · simp at h
            simp [h]

def DemOK (st : SymOpts) : Prop :=
  st.demangler = [] ∨ st.demangler = S "full" ∨ st.demangler = S "none" ∨ st.demangler = S "templates"

theorem demangleOpt_demOK (st : SymOpts) (o : Str) (h : DemOK st) : DemOK (demangleOpt st o) := by
  unfold demangleOpt
  split
  · rename_i hd
    unfold DemOK
    simp only []
    rcases hd with hd | hd | hd <;> simp [hd]
  · split
    · exact h
    · exact h

theorem symOptStep_demOK (st st' : SymOpts) (o : Str) (h : DemOK st) (hs : symOptStep st o = some st') : DemOK st' := by
  unfold symOptStep at hs
  repeat' split at hs
  all_goals first
    | (cases hs; exact h)
    | (cases hs; exact demangleOpt_demOK _ _ h)
    | (cases hs; done)

theorem symOptFold_demOK : ∀ (os : List Str) (st st' : SymOpts), DemOK st → symOptFold st os = some st' → DemOK st'
  | [], st, st', h, hs => by simp [symOptFold] at hs; exact hs ▸ h
  | o :: rest, st, st', h, hs => by
    unfold symOptFold at hs
    split at hs
    · cases hs
    · rename_i st1 h1
      exact symOptFold_demOK rest st1 st' (symOptStep_demOK st st1 o h h1) hs

theorem symbolizeMode_noPanic (lower : Str → Str) (mode : Str) : NoPanic (symbolizeMode lower mode) := by
  unfold symbolizeMode
  intro site
  split
  · simp
  · rename_i st hst
    have h := symOptFold_demOK _ _ _ (Or.inl rfl) hst
    unfold demanglerModeToOptions
    rcases h with h | h | h | h <;> simp [h] <;> (repeat' split) <;> simp_all

end PV.Crash
