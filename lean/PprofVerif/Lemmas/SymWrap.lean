import PprofVerif.Lemmas.SymFinal
/-!
Helper lemmas for C12: the ghost flag `wrapped` stays false when the largest function id of the
input plus the number of functions added fits a uint64.  Core Lean only.
-/
namespace PV.Sym
open PV

/-- `M` = largest id of the input table, `n0` = its length. -/
def WInv (M n0 : Nat) (t : FTab) : Prop :=
  n0 ≤ t.functions.length ∧ (∀ f ∈ t.functions, f.id ≤ M + (t.functions.length - n0)) ∧
  t.top ≤ M + (t.functions.length - n0) ∧ (M + (t.functions.length - n0) < two64 → t.wrapped = false)

theorem foldl_max_le (fs : List Function) (a B : Nat) (ha : a ≤ B) (h : ∀ f ∈ fs, f.id ≤ B) :
    fs.foldl (fun a f => max a f.id) a ≤ B := by
  induction fs generalizing a with
  | nil => exact ha
  | cons g rest ih =>
    simp only [List.foldl_cons]
    exact ih _ (Nat.max_le.mpr ⟨ha, h g (List.mem_cons_self ..)⟩) (fun f hf => h f (List.mem_cons_of_mem _ hf))

theorem rescan_winv {M n0 : Nat} {t : FTab} (h : WInv M n0 t) : WInv M n0 t.rescan := by
  obtain ⟨h1, h2, _, h4⟩ := h
  exact ⟨h1, h2, foldl_max_le _ _ _ (Nat.zero_le _) h2, h4⟩

theorem alloc_winv {M n0 : Nat} (t : FTab) (name file : Str) (sl : Int) (h : WInv M n0 t) :
    WInv M n0 (t.alloc name file sl).1 := by
  obtain ⟨h1, h2, h3, h4⟩ := h
  have hlen : (t.alloc name file sl).1.functions.length = t.functions.length + 1 := by simp [FTab.alloc]
  have htop : (t.alloc name file sl).1.top = (t.top + 1) % two64 := rfl
  have hwr : (t.alloc name file sl).1.wrapped = (t.wrapped || decide (two64 ≤ t.top + 1)) := rfl
  have hfs : (t.alloc name file sl).1.functions = t.functions ++
      [{ id := (t.top + 1) % two64, name := name, systemName := name, filename := file, startLine := sl }] := rfl
  have hmod : (t.top + 1) % two64 ≤ t.top + 1 := Nat.mod_le _ _
  unfold WInv
  rw [hlen, htop, hwr]
  refine ⟨by omega, ?_, by omega, ?_⟩
  · intro f hf
    rw [hfs] at hf
    rcases List.mem_append.mp hf with hf | hf
    · have := h2 f hf; omega
    · simp only [List.mem_singleton] at hf; rw [hf]; simp only []; omega
  · intro hb
    have hw : t.wrapped = false := h4 (by omega)
    simp only [hw, Bool.false_or, decide_eq_false_iff_not, Nat.not_le]
    omega

theorem addFunction_winv {M n0 : Nat} (st : LSt) (fr : Frame) (h : WInv M n0 st.tab) :
    WInv M n0 (addFunction st fr).1.tab := by
  unfold addFunction
  simp only []
  split
  · exact h
  · exact alloc_winv _ _ _ _ h

theorem symFrames_winv {M n0 : Nat} (st : LSt) (m : Mapping) (frs : List Frame) (h : WInv M n0 st.tab) :
    WInv M n0 (symFrames st m frs).1.tab := by
  induction frs generalizing st m with
  | nil => exact h
  | cons fr rest ih =>
    simp only [symFrames]
    exact ih _ _ (addFunction_winv st fr h)

theorem symLocation_winv {σ} {M n0 : Nat} (tool : ObjTool σ) (s : σ) (st : LSt) (m : Mapping) (l : Location)
    (h : WInv M n0 st.tab) : WInv M n0 (symLocation tool s st m l).2.1.tab := by
  unfold symLocation
  split
  · exact symFrames_winv _ _ _ h
  · exact h

theorem symLocs_winv {σ} {M n0 : Nat} (tool : ObjTool σ) (mid : Nat) (s : σ) (st : LSt) (m : Mapping)
    (locs : List Location) (h : WInv M n0 st.tab) : WInv M n0 (symLocs tool mid s st m locs).2.1.tab := by
  induction locs generalizing s st m with
  | nil => exact h
  | cons l rest ih =>
    simp only [symLocs]
    split
    · exact ih _ _ _ (symLocation_winv tool s st m l h)
    · exact ih s st m h

theorem localMapping_winv {σ} {M n0 : Nat} (tool : ObjTool σ) (isSourceURL : Str → Bool) (force : Bool)
    (s : σ) (st : LSt) (locs : List Location) (m : Mapping) (h : WInv M n0 st.tab) :
    WInv M n0 (localMapping tool isSourceURL force s st locs m).2.1.tab := by
  unfold localMapping
  split
  · exact h
  · split
    · simp only []
      split
      · exact h
      · exact symLocs_winv tool m.id _ st m locs h
    · exact h

theorem localLoop_winv {σ} {M n0 : Nat} (tool : ObjTool σ) (isSourceURL : Str → Bool) (force : Bool)
    (s : σ) (st : LSt) (locs : List Location) (ms : List Mapping) (h : WInv M n0 st.tab) :
    WInv M n0 (localLoop tool isSourceURL force s st locs ms).2.1.tab := by
  induction ms generalizing s st locs with
  | nil => exact h
  | cons m rest ih =>
    simp only [localLoop]
    exact ih _ _ _ (localMapping_winv tool isSourceURL force s st locs m h)

theorem doLocal_winv {σ} {M n0 : Nat} (tool : ObjTool σ) (isSourceURL : Str → Bool) (force : Bool)
    (s : σ) (tab : FTab) (locs : List Location) (ms : List Mapping) (h : WInv M n0 tab) :
    WInv M n0 (doLocal tool isSourceURL force s tab locs ms).2.1 := by
  unfold doLocal
  exact localLoop_winv tool isSourceURL force s { tab := tab.rescan, intern := [] } locs ms (rescan_winv h)

theorem internName_winv {M n0 : Nat} (st : ZSt) (name : Str) (h : WInv M n0 st.tab) :
    WInv M n0 (internName st name).1.tab := by
  unfold internName
  split
  · exact h
  · exact alloc_winv _ _ _ _ h

theorem symzLines_winv {M n0 : Nat} (parseLine : Str → Option (Outcome Nat × Str)) (negOff : Int)
    (st : ZSt) (lines : List Str) (h : WInv M n0 st.tab) :
    WInv M n0 (symzLines parseLine negOff st lines).1.tab := by
  induction lines generalizing st with
  | nil => exact h
  | cons ln rest ih =>
    simp only [symzLines]
    cases hp : parseLine ln with
    | none => exact ih st h
    | some pr =>
      obtain ⟨o, name⟩ := pr
      cases o with
      | ok orig =>
        simp only []
        cases hadj : adjust orig negOff with
        | none => exact h
        | some addr => exact ih _ (internName_winv st name h)
      | err e => exact h
      | panic e => exact h

theorem symbolizeMapping_winv {τ} {M n0 : Nat} (z : Symz τ) (src : Str) (off : Int) (mid : Nat)
    (t : τ) (tab : FTab) (locs : List Location) (h : WInv M n0 tab) :
    WInv M n0 (symbolizeMapping z src off mid t tab locs).2.1 := by
  unfold symbolizeMapping
  split
  · exact h
  · exact h
  · split
    · rename_i t1 body _
      have h' := symzLines_winv z.parseLine (negI64 off) { tab := tab.rescan, names := [], lineMap := [] }
        (splitLines body) (rescan_winv h)
      simp only []
      split <;> exact h'
    · exact h

theorem remoteMapping_winv {τ} {M n0 : Nat} (z : Symz τ) (force : Bool) (sources : Sources)
    (t : τ) (tab : FTab) (locs : List Location) (m : Mapping) (h : WInv M n0 tab) :
    WInv M n0 (remoteMapping z force sources t tab locs m).2.1 := by
  unfold remoteMapping
  split
  · exact h
  · simp only []
    split
    · exact h
    · split <;> exact symbolizeMapping_winv _ _ _ _ _ _ _ h

theorem remoteLoop_winv {τ} {M n0 : Nat} (z : Symz τ) (force : Bool) (sources : Sources)
    (t : τ) (tab : FTab) (locs : List Location) (ms : List Mapping) (h : WInv M n0 tab) :
    WInv M n0 (remoteLoop z force sources t tab locs ms).2.1 := by
  induction ms generalizing t tab locs with
  | nil => exact h
  | cons m rest ih =>
    simp only [remoteLoop]
    split
    · exact remoteMapping_winv z force sources t tab locs m h
    · exact ih _ _ _ (remoteMapping_winv z force sources t tab locs m h)

theorem symbolizeTables_winv {σ τ} (env : Env σ τ) (o : Opts) (sources : Sources) (p : Profile)
    (s : σ) (t : τ) :
    WInv (maxFuncID p.functions) p.functions.length (symbolizeTables env o sources p s t).2.1 := by
  have h0 : WInv (maxFuncID p.functions) p.functions.length
      { functions := p.functions, top := 0, wrapped := false } :=
    ⟨Nat.le_refl _, fun f hf => by simpa using maxFuncID_ge p.functions f hf, Nat.zero_le _, fun _ => rfl⟩
  have hL : WInv (maxFuncID p.functions) p.functions.length
      (if o.locl then doLocal env.tool env.isSourceURL o.force s { functions := p.functions, top := 0, wrapped := false } p.locations p.mappings
         else (s, { functions := p.functions, top := 0, wrapped := false }, p.locations, p.mappings)).2.1 := by
    split
    · exact doLocal_winv env.tool env.isSourceURL o.force s _ p.locations p.mappings h0
    · exact h0
  unfold symbolizeTables
  simp only []
  split
  · exact remoteLoop_winv env.symz o.force sources t _ _ _ hL
  · exact hL

theorem finalFunctions_length {σ τ} (env : Env σ τ) (o : Opts) (sources : Sources) (p : Profile)
    (s : σ) (t : τ) :
    (finalFunctions env o sources p s t).length = (symbolizeTables env o sources p s t).2.1.functions.length := by
  unfold finalFunctions
  split
  · rfl
  · simp [demangle]

end PV.Sym
