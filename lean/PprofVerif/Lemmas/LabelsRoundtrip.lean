import PprofVerif.Lemmas.Intern
/-!
# Label flattening and regrouping (property C01, second half — the heart)

`preEncode` flattens the three label maps of a sample into one list of wire labels;
`postDecode` regroups them with Go maps (`alSet`), lazy unit padding (`padStringArray`) and a
final sort.  This file separates the two concerns:

* `SemLabel`/`Denotes`/`semStep`: a wire label *denotes* a semantic label (resolved strings) in
  a table; `postLabel` on a denoting label is the pure step `semStep` (`postLabel_of_Denotes`).
* pure regrouping: folding `semStep` over the labels of one key (`foldl_str_key`,
  `foldl_num_key` — the latter carries the explicit **padding invariant** "units so far =
  processed units with trailing empties removed", `dropTrailingEmpty`), over all keys
  (`foldl_str_all`, `foldl_num_all`), the closing padding pass (`map_pad_normUnitTrim`), and
  `Sample.normalize` in the same flatMap form (`normalize_eq`).
* `postSample_of_semLabels`: the regrouped sample is exactly the normalised one.
Core Lean only.
-/
namespace PV
namespace Codec

/-! ### semantic labels -/
inductive SemLabel where
  | str (k v : Str)
  | num (k : Str) (v : Int) (u : Str)

/-- what `postLabel` does, on resolved strings (no table) -/
def semStep (acc : LabelAcc) : SemLabel → LabelAcc
  | .str k v =>
    if v = [] then acc
    else { acc with labels := alSet acc.labels k ((acc.labels.lookup k).getD [] ++ [v]) }
  | .num k v u =>
    if v = 0 ∧ u = [] then acc
    else
      let numValues := (acc.numLabels.lookup k).getD []
      let units := (acc.numUnits.lookup k).getD []
      { labels := acc.labels
        numLabels := alSet acc.numLabels k (numValues ++ [v])
        numUnits := if u = [] then acc.numUnits
                    else alSet acc.numUnits k (padStringArray units numValues.length ++ [u]) }

/-- the wire label `l` denotes the semantic label `sl` in table `tab` -/
def Denotes (tab : StrTab) (l : LabelX) : SemLabel → Prop
  | .str k v => Res tab l.keyX k ∧ Res tab l.strX v ∧ l.numX = 0 ∧ l.unitX = 0
  | .num k v u => Res tab l.keyX k ∧ l.strX = 0 ∧ l.numX = v ∧ Res tab l.unitX u

theorem Denotes.mono {t t' : StrTab} {l : LabelX} {sl : SemLabel} (h : t <+: t') (hd : Denotes t l sl) :
    Denotes t' l sl := by
  cases sl with
  | str k v => exact ⟨hd.1.mono h, hd.2.1.mono h, hd.2.2⟩
  | num k v u => exact ⟨hd.1.mono h, hd.2.1, hd.2.2.1, hd.2.2.2.mono h⟩

theorem postLabel_of_Denotes {tab : StrTab} (hinv : TabInv tab) {l : LabelX} {sl : SemLabel}
    (hd : Denotes tab l sl) (acc : LabelAcc) : postLabel tab acc l = .ok (semStep acc sl) := by
  cases sl with
  | str k v =>
    obtain ⟨hk, hv, hn, hu⟩ := hd
    unfold postLabel
    rw [getString_of_Res hk, Outcome.bind_ok]
    have hz := Res.zero_iff hinv hv
    by_cases hv0 : v = []
    · have : l.strX = 0 := hz.mpr hv0
      simp [this, hn, hu, semStep, hv0]
    · have : l.strX ≠ 0 := fun h => hv0 (hz.mp h)
      simp only [this, ne_eq, not_false_eq_true, if_true, semStep, hv0, if_false]
      rw [getString_of_Res hv, Outcome.bind_ok]; rfl
  | num k v u =>
    obtain ⟨hk, hs, hn, hu⟩ := hd
    unfold postLabel
    rw [getString_of_Res hk, Outcome.bind_ok]
    have hz := Res.zero_iff hinv hu
    by_cases hu0 : u = []
    · have hux : l.unitX = 0 := hz.mpr hu0
      by_cases hv0 : v = 0
      · simp [hs, hn, hux, semStep, hu0, hv0]
      · simp [hs, hn, hux, semStep, hu0, hv0]
    · have hux : l.unitX ≠ 0 := fun h => hu0 (hz.mp h)
      simp only [hs, ne_eq, not_true_eq_false, if_false, hux, not_false_eq_true, or_true, if_true, semStep,
        hu0, and_false]
      rw [getString_of_Res hu, Outcome.bind_ok]
      simp [hn]

/-! ### association lists with a "current key" at the end -/

/-- the entry of key `k` in a Go map of slices: absent while the slice is empty -/
def optKV {β} (k : Str) : List β → List (Str × List β)
  | [] => []
  | c@(_ :: _) => [(k, c)]

theorem optKV_of_ne_nil {β} (k : Str) {c : List β} (h : c ≠ []) : optKV k c = [(k, c)] := by
  cases c with
  | nil => exact absurd rfl h
  | cons a r => rfl

theorem not_any_of_not_mem_keys {β} {L : List (Str × β)} {k : Str} (h : k ∉ keys L) :
    L.any (·.1 == k) = false := by
  rw [List.any_eq_false]
  intro x hx hxk
  exact h (List.mem_map.mpr ⟨x, hx, beq_iff_eq.mp hxk⟩)

theorem lookup_of_not_mem_keys {β} {L : List (Str × β)} {k : Str} (h : k ∉ keys L) : L.lookup k = none :=
  lookup_none_of_not_any (not_any_of_not_mem_keys h)

theorem lookup_snoc {β} {L : List (Str × List β)} {k : Str} (h : k ∉ keys L) (c : List β) :
    ((L ++ optKV k c).lookup k).getD [] = c := by
  rw [List.lookup_append, lookup_of_not_mem_keys h]
  cases c with
  | nil => simp [optKV]
  | cons a r => simp [optKV]

theorem map_set_of_not_mem_keys {β} {L : List (Str × β)} {k : Str} (h : k ∉ keys L) (v : β) :
    L.map (fun e => if e.1 == k then (k, v) else e) = L := by
  have : ∀ e ∈ L, (if e.1 == k then (k, v) else e) = e := by
    intro e he
    have : (e.1 == k) = false := by
      apply Bool.eq_false_iff.mpr; intro hc
      exact h (List.mem_map.mpr ⟨e, he, beq_iff_eq.mp hc⟩)
    simp [this]
  calc L.map (fun e => if e.1 == k then (k, v) else e) = L.map id := List.map_congr_left this
    _ = L := List.map_id _

theorem alSet_snoc {β} {L : List (Str × List β)} {k : Str} (h : k ∉ keys L) (c : List β) {new : List β}
    (hnew : new ≠ []) : alSet (L ++ optKV k c) k new = L ++ optKV k new := by
  rw [optKV_of_ne_nil k hnew]
  cases c with
  | nil =>
    simp only [optKV, List.append_nil]
    unfold alSet
    simp [not_any_of_not_mem_keys h]
  | cons a r =>
    simp only [optKV]
    unfold alSet
    have : (L ++ [(k, a :: r)]).any (·.1 == k) = true := by simp
    simp only [this, if_true, List.map_append, map_set_of_not_mem_keys h]
    simp

theorem keys_snoc_subset {β} (L : List (Str × List β)) (k : Str) (c : List β) :
    ∀ x ∈ keys (L ++ optKV k c), x ∈ keys L ∨ x = k := by
  intro x hx
  simp only [keys, List.map_append, List.mem_append] at hx
  rcases hx with hx | hx
  · exact Or.inl hx
  · cases c with
    | nil => simp [optKV] at hx
    | cons a r => simp [optKV] at hx; exact Or.inr hx

/-! ### trailing empty units -/

/-- a unit list with its trailing empty strings removed -/
def dropTrailingEmpty (us : List Str) : List Str := (us.reverse.dropWhile (· == [])).reverse

theorem dropTrailingEmpty_snoc (us : List Str) (u : Str) :
    dropTrailingEmpty (us ++ [u]) = if u = [] then dropTrailingEmpty us else us ++ [u] := by
  unfold dropTrailingEmpty
  rw [List.reverse_append, List.reverse_singleton, List.singleton_append, List.dropWhile_cons]
  by_cases h : u = []
  · simp [h]
  · simp [h]

theorem takeWhile_eq_replicate (l : List Str) :
    l.takeWhile (· == []) = List.replicate (l.takeWhile (· == [])).length [] := by
  induction l with
  | nil => rfl
  | cons a r ih =>
    rw [List.takeWhile_cons]
    by_cases h : (a == []) = true
    · have : a = [] := beq_iff_eq.mp h
      simp only [h, if_true, List.length_cons, List.replicate_succ]
      rw [← ih, this]
    · simp [h]

theorem dropTrailingEmpty_append_replicate (us : List Str) :
    dropTrailingEmpty us ++ List.replicate (us.length - (dropTrailingEmpty us).length) [] = us := by
  have h := @List.takeWhile_append_dropWhile _ (· == ([] : Str)) us.reverse
  have h2 : us = (us.reverse.dropWhile (· == [])).reverse ++ (us.reverse.takeWhile (· == [])).reverse := by
    rw [← List.reverse_append, h, List.reverse_reverse]
  have hlen : us.length = (us.reverse.dropWhile (· == [])).length + (us.reverse.takeWhile (· == [])).length := by
    have := congrArg List.length h
    simp only [List.length_append, List.length_reverse] at this
    omega
  unfold dropTrailingEmpty
  rw [List.length_reverse]
  have h3 : us.length - (us.reverse.dropWhile (· == [])).length = (us.reverse.takeWhile (· == [])).length := by omega
  rw [h3]
  conv => rhs; rw [h2]
  congr 1
  rw [takeWhile_eq_replicate us.reverse]
  simp

theorem dropTrailingEmpty_length_le (us : List Str) : (dropTrailingEmpty us).length ≤ us.length := by
  unfold dropTrailingEmpty
  rw [List.length_reverse]
  have := @List.takeWhile_append_dropWhile _ (· == ([] : Str)) us.reverse
  have := congrArg List.length this
  simp only [List.length_append, List.length_reverse] at this
  omega

/-- **padding invariant, closing step**: padding the trimmed units to the number of values gives
back all units. -/
theorem pad_dropTrailingEmpty (us : List Str) : padStringArray (dropTrailingEmpty us) us.length = us := by
  unfold padStringArray
  have hle := dropTrailingEmpty_length_le us
  have happ := dropTrailingEmpty_append_replicate us
  split
  · rename_i h
    have : us.length - (dropTrailingEmpty us).length = 0 := by omega
    rw [this] at happ
    simpa using happ
  · exact happ

theorem dropTrailingEmpty_eq_nil_iff (us : List Str) : dropTrailingEmpty us = [] ↔ ∀ u ∈ us, u = [] := by
  constructor
  · intro h u hu
    have happ := dropTrailingEmpty_append_replicate us
    rw [h] at happ
    simp only [List.nil_append] at happ
    rw [← happ] at hu
    exact (List.mem_replicate.mp hu).2
  · intro h
    unfold dropTrailingEmpty
    rw [List.reverse_eq_nil_iff]
    have : ∀ l : List Str, (∀ u ∈ l, u = []) → l.dropWhile (· == []) = [] := by
      intro l
      induction l with
      | nil => intro _; rfl
      | cons a r ih =>
        intro hl
        rw [List.dropWhile_cons]
        have : a = [] := hl a (by simp)
        simp only [this, BEq.rfl, if_true]
        exact ih (fun u hu => hl u (List.mem_cons_of_mem _ hu))
    exact this _ (fun u hu => h u (List.mem_reverse.mp hu))


/-! ### the regrouping loop on semantic labels, one key at a time -/

theorem nodup_keys_step {β γ} {L : List (Str × List β)} {e : Str × γ} {l : List (Str × γ)} (c : List β)
    (h : (keys L ++ keys (e :: l)).Nodup) :
    e.1 ∉ keys L ∧ (keys (L ++ optKV e.1 c) ++ keys l).Nodup := by
  have h' : (keys L ++ e.1 :: keys l).Nodup := by simpa [keys] using h
  rw [List.nodup_append] at h'
  obtain ⟨h1, h2, h3⟩ := h'
  rw [List.nodup_cons] at h2
  refine ⟨fun hin => h3 _ hin _ (by simp) rfl, ?_⟩
  cases c with
  | nil =>
    simp only [optKV, List.append_nil]
    rw [List.nodup_append]
    exact ⟨h1, h2.2, fun a ha b hb => h3 a ha b (List.mem_cons_of_mem _ hb)⟩
  | cons a r =>
    have : keys (L ++ optKV e.1 (a :: r)) ++ keys l = keys L ++ e.1 :: keys l := by
      simp [keys, optKV]
    rw [this, List.nodup_append]
    exact ⟨h1, List.nodup_cons.mpr h2, h3⟩

/-- string labels of one key `k` (not yet in the map): the non-empty values are appended, in
order, to the entry of `k`, which exists iff some value was non-empty. -/
theorem foldl_str_key (k : Str) (L : List (Str × List Str)) (hk : k ∉ keys L)
    (NL : List (Str × List Int)) (NU : List (Str × List Str)) : ∀ (vs cur : List Str),
    (vs.map (SemLabel.str k)).foldl semStep ⟨L ++ optKV k cur, NL, NU⟩ =
      ⟨L ++ optKV k (cur ++ vs.filter (· ≠ [])), NL, NU⟩
  | [], cur => by simp
  | v :: vs, cur => by
    rw [List.map_cons, List.foldl_cons]
    by_cases hv : v = []
    · subst hv
      have : semStep ⟨L ++ optKV k cur, NL, NU⟩ (SemLabel.str k []) = ⟨L ++ optKV k cur, NL, NU⟩ := by
        simp [semStep]
      rw [this, foldl_str_key k L hk NL NU vs cur]
      simp
    · have : semStep ⟨L ++ optKV k cur, NL, NU⟩ (SemLabel.str k v) = ⟨L ++ optKV k (cur ++ [v]), NL, NU⟩ := by
        simp only [semStep, hv, if_false]
        rw [lookup_snoc hk, alSet_snoc hk cur (by simp)]
      rw [this, foldl_str_key k L hk NL NU vs (cur ++ [v])]
      simp [hv]

theorem foldl_str_all (NL : List (Str × List Int)) (NU : List (Str × List Str)) :
    ∀ (l : List (Str × List Str)) (L : List (Str × List Str)), (keys L ++ keys l).Nodup →
    (l.flatMap (fun e => e.2.map (SemLabel.str e.1))).foldl semStep ⟨L, NL, NU⟩ =
      ⟨L ++ l.flatMap (fun e => optKV e.1 (e.2.filter (· ≠ []))), NL, NU⟩
  | [], L, _ => by simp
  | e :: l, L, h => by
    obtain ⟨hk, hnd⟩ := nodup_keys_step (e.2.filter (· ≠ [])) h
    rw [List.flatMap_cons, List.foldl_append]
    have h0 : (⟨L, NL, NU⟩ : LabelAcc) = ⟨L ++ optKV e.1 ([] : List Str), NL, NU⟩ := by simp [optKV]
    rw [h0, foldl_str_key e.1 L hk NL NU e.2 [], List.nil_append, foldl_str_all NL NU l _ hnd]
    simp [List.append_assoc]

/-- the pairs `(value, unit)` that survive on the wire: a zero value with an empty unit is
indistinguishable from an absent label -/
def keepPair (vu : Int × Str) : Bool := decide (vu.1 ≠ 0 ∨ vu.2 ≠ [])

/-- numeric labels of one key `k`, **with the padding invariant**: after the (kept) pairs
`done`, the values of `k` are `done.map fst` and the units of `k` are `done.map snd` with the
trailing empty units removed (Go pads lazily, only when a non-empty unit arrives). -/
theorem foldl_num_key (k : Str) (Lb : List (Str × List Str)) (NL : List (Str × List Int))
    (NU : List (Str × List Str)) (hk1 : k ∉ keys NL) (hk2 : k ∉ keys NU) :
    ∀ (ps done : List (Int × Str)),
    (ps.map (fun p => SemLabel.num k p.1 p.2)).foldl semStep
        ⟨Lb, NL ++ optKV k (done.map (·.1)), NU ++ optKV k (dropTrailingEmpty (done.map (·.2)))⟩ =
      ⟨Lb, NL ++ optKV k ((done ++ ps.filter keepPair).map (·.1)),
        NU ++ optKV k (dropTrailingEmpty ((done ++ ps.filter keepPair).map (·.2)))⟩
  | [], done => by simp
  | (v, u) :: ps, done => by
    rw [List.map_cons, List.foldl_cons]
    by_cases hz : v = 0 ∧ u = []
    · have hkp : keepPair (v, u) = false := by simp [keepPair, hz.1, hz.2]
      have : semStep ⟨Lb, NL ++ optKV k (done.map (·.1)), NU ++ optKV k (dropTrailingEmpty (done.map (·.2)))⟩
          (SemLabel.num k v u) = ⟨Lb, NL ++ optKV k (done.map (·.1)), NU ++ optKV k (dropTrailingEmpty (done.map (·.2)))⟩ := by
        simp [semStep, hz.1, hz.2]
      rw [this, foldl_num_key k Lb NL NU hk1 hk2 ps done, List.filter_cons]
      simp [hkp]
    · have hkp : keepPair (v, u) = true := by
        simp only [keepPair, decide_eq_true_eq]
        by_cases hv : v = 0
        · right; intro hu; exact hz ⟨hv, hu⟩
        · left; exact hv
      have hstep : semStep ⟨Lb, NL ++ optKV k (done.map (·.1)), NU ++ optKV k (dropTrailingEmpty (done.map (·.2)))⟩
          (SemLabel.num k v u) =
          ⟨Lb, NL ++ optKV k ((done ++ [(v, u)]).map (·.1)),
            NU ++ optKV k (dropTrailingEmpty ((done ++ [(v, u)]).map (·.2)))⟩ := by
        simp only [semStep, hz, if_false]
        rw [lookup_snoc hk1, lookup_snoc hk2, alSet_snoc hk1 _ (by simp)]
        have hlen : (done.map (·.1)).length = (done.map (·.2)).length := by simp
        rw [List.map_append, List.map_append, List.map_cons, List.map_cons, List.map_nil, List.map_nil,
          dropTrailingEmpty_snoc]
        by_cases hu : u = []
        · simp only [hu, if_true]
        · simp only [hu, if_false]
          rw [alSet_snoc hk2 _ (by simp), hlen, pad_dropTrailingEmpty]
      rw [hstep, foldl_num_key k Lb NL NU hk1 hk2 ps (done ++ [(v, u)]), List.filter_cons]
      simp [hkp]

theorem foldl_num_all (Lb : List (Str × List Str)) :
    ∀ (l : List (Str × List (Int × Str))) (NL : List (Str × List Int)) (NU : List (Str × List Str)),
    (keys NL ++ keys l).Nodup → (keys NU ++ keys l).Nodup →
    (l.flatMap (fun e => e.2.map (fun p => SemLabel.num e.1 p.1 p.2))).foldl semStep ⟨Lb, NL, NU⟩ =
      ⟨Lb, NL ++ l.flatMap (fun e => optKV e.1 ((e.2.filter keepPair).map (·.1))),
        NU ++ l.flatMap (fun e => optKV e.1 (dropTrailingEmpty ((e.2.filter keepPair).map (·.2))))⟩
  | [], NL, NU, _, _ => by simp
  | e :: l, NL, NU, h1, h2 => by
    obtain ⟨hk1, hnd1⟩ := nodup_keys_step ((e.2.filter keepPair).map (·.1)) h1
    obtain ⟨hk2, hnd2⟩ := nodup_keys_step (dropTrailingEmpty ((e.2.filter keepPair).map (·.2))) h2
    rw [List.flatMap_cons, List.foldl_append]
    have h0 : (⟨Lb, NL, NU⟩ : LabelAcc) = ⟨Lb, NL ++ optKV e.1 (([] : List (Int × Str)).map (·.1)),
        NU ++ optKV e.1 (dropTrailingEmpty (([] : List (Int × Str)).map (·.2)))⟩ := by
      simp [optKV, dropTrailingEmpty]
    rw [h0, foldl_num_key e.1 Lb NL NU hk1 hk2 e.2 [], List.nil_append, foldl_num_all Lb l _ _ hnd1 hnd2]
    simp [List.append_assoc]


/-! ### sorted association lists -/

theorem pairwise_of_keysSorted {β} : ∀ (l : List (Str × β)), keysSorted l = true → l.Pairwise LtK
  | [], _ => List.Pairwise.nil
  | [_], _ => by simp
  | a :: b :: r, h => by
    simp only [keysSorted, Bool.and_eq_true] at h
    have ih := pairwise_of_keysSorted (b :: r) h.2
    rw [List.pairwise_cons]
    refine ⟨?_, ih⟩
    intro x hx
    rcases List.mem_cons.mp hx with rfl | hx
    · exact h.1
    · exact Str.lt_trans h.1 ((List.pairwise_cons.mp ih).1 x hx)

theorem nodup_keys_of_pairwise {β} {l : List (Str × β)} (h : l.Pairwise LtK) : (keys l).Nodup := by
  unfold keys
  rw [List.Nodup, List.pairwise_map]
  refine h.imp ?_
  intro a b hab heq
  unfold LtK at hab
  rw [heq, Str.lt_irrefl] at hab
  cases hab

theorem sortKeys_eq_self {β} : ∀ (l : List (Str × β)), l.Pairwise LtK → sortKeys l = l
  | [], _ => rfl
  | a :: l, h => by
    rw [List.pairwise_cons] at h
    have ih := sortKeys_eq_self l h.2
    simp only [sortKeys, List.foldr_cons] at ih ⊢
    rw [ih]
    cases l with
    | nil => rfl
    | cons x r =>
      have : Str.lt a.1 x.1 = true := h.1 x (by simp)
      simp [insertSorted, this]

theorem pairwise_flatMap_keyed {α β} (key : α → Str) (h : α → List (Str × β))
    (hkey : ∀ e x, x ∈ h e → x.1 = key e) (hone : ∀ e, (h e).Pairwise LtK) :
    ∀ (l : List α), l.Pairwise (fun a b => Str.lt (key a) (key b) = true) → (l.flatMap h).Pairwise LtK
  | [], _ => by simp
  | e :: l, hp => by
    rw [List.pairwise_cons] at hp
    rw [List.flatMap_cons, List.pairwise_append]
    refine ⟨hone e, pairwise_flatMap_keyed key h hkey hone l hp.2, ?_⟩
    intro x hx y hy
    obtain ⟨e', he', hy'⟩ := List.mem_flatMap.mp hy
    show Str.lt x.1 y.1 = true
    rw [hkey e x hx, hkey e' y hy']
    exact hp.1 e' he'

theorem mem_optKV {β} {k : Str} {c : List β} {x : Str × List β} (h : x ∈ optKV k c) : x = (k, c) ∧ c ≠ [] := by
  cases c with
  | nil => simp [optKV] at h
  | cons a r => simp [optKV] at h; exact ⟨h, by simp⟩

theorem pairwise_optKV {β} (k : Str) (c : List β) : (optKV k c).Pairwise LtK := by
  cases c with
  | nil => simp [optKV]
  | cons a r => simp [optKV]

theorem pairwise_flatMap_optKV {γ β} (f : Str × γ → List β) (l : List (Str × γ)) (h : l.Pairwise LtK) :
    (l.flatMap (fun e => optKV e.1 (f e))).Pairwise LtK :=
  pairwise_flatMap_keyed (α := Str × γ) (fun e => e.1) (fun e => optKV e.1 (f e))
    (fun _ _ hx => by rw [(mem_optKV hx).1]) (fun _ => pairwise_optKV _ _) l h

theorem lookup_flatMap_optKV {γ β} (f : Str × γ → List β) :
    ∀ (l : List (Str × γ)), (keys l).Nodup → ∀ e ∈ l, f e ≠ [] →
      (l.flatMap (fun e => optKV e.1 (f e))).lookup e.1 = some (f e)
  | [], _, e, he, _ => by cases he
  | a :: r, hnd, e, he, hne => by
    simp only [keys, List.map_cons, List.nodup_cons] at hnd
    rw [List.flatMap_cons, List.lookup_append]
    rcases List.mem_cons.mp he with rfl | her
    · rw [optKV_of_ne_nil _ hne]; simp
    · have hne1 : e.1 ≠ a.1 := by
        intro heq; exact hnd.1 (heq ▸ List.mem_map.mpr ⟨e, her, rfl⟩)
      have : (optKV a.1 (f a)).lookup e.1 = none := by
        rw [List.lookup_eq_none_iff]
        intro p hp
        rw [(mem_optKV hp).1]
        simpa using hne1
      rw [this, Option.none_or]
      exact lookup_flatMap_optKV f r hnd.2 e her hne

/-! ### flatMap/optKV forms of `Sample.normalize` -/

theorem filter_map_eq_flatMap_optKV {γ β} (f : Str × γ → List β) (g : Str × γ → Str × List β)
    (hg : ∀ e, g e = (e.1, f e)) (p : Str × List β → Bool) (hp : ∀ e, p e = decide (e.2 ≠ [])) :
    ∀ (l : List (Str × γ)), (l.map g).filter p = l.flatMap (fun e => optKV e.1 (f e))
  | [] => rfl
  | e :: l => by
    rw [List.map_cons, List.filter_cons, List.flatMap_cons, filter_map_eq_flatMap_optKV f g hg p hp l, hp, hg]
    cases hfe : f e with
    | nil => simp [optKV]
    | cons a r => simp [optKV]

theorem map_flatMap_optKV {γ β β'} (f : Str × γ → List β) (h : β → β') (g : Str × List β → Str × List β')
    (hg : ∀ e, g e = (e.1, e.2.map h)) :
    ∀ (l : List (Str × γ)), (l.flatMap (fun e => optKV e.1 (f e))).map g = l.flatMap (fun e => optKV e.1 ((f e).map h))
  | [] => rfl
  | e :: l => by
    rw [List.flatMap_cons, List.map_append, List.flatMap_cons, map_flatMap_optKV f h g hg l]
    cases hfe : f e with
    | nil => simp [optKV]
    | cons a r => simp [optKV, hg]


theorem any_ne_nil_iff (us : List Str) : us.any (· ≠ []) = true ↔ dropTrailingEmpty us ≠ [] := by
  rw [Ne, dropTrailingEmpty_eq_nil_iff]
  simp

theorem filter_any_flatMap_optKV {γ} (U : Str × γ → List Str) (p : Str × List Str → Bool)
    (hp : ∀ e, p e = e.2.any (· ≠ [])) :
    ∀ (l : List (Str × γ)), (l.flatMap (fun e => optKV e.1 (U e))).filter p =
      l.flatMap (fun e => if (U e).any (· ≠ []) then [(e.1, U e)] else [])
  | [] => rfl
  | e :: l => by
    rw [List.flatMap_cons, List.filter_append, List.flatMap_cons, filter_any_flatMap_optKV U p hp l]
    congr 1
    cases hfe : U e with
    | nil => simp [optKV]
    | cons a r => simp [optKV, List.filter_cons, hp]

/-! ### the sample level: semantic labels of a sample and the normal form -/

/-- the unit list `preEncode` pairs with the values of one NumLabel entry (no units = all empty) -/
def unitsFor (nu : List (Str × List Str)) (e : Str × List Int) : List Str :=
  if ((nu.lookup e.1).getD []).isEmpty then List.replicate e.2.length [] else (nu.lookup e.1).getD []

def numPairs (s : Sample) : List (Str × List (Int × Str)) :=
  s.numLabel.map (fun e => (e.1, e.2.zip (unitsFor s.numUnit e)))

/-- the labels of a sample in the order `preEncode` flattens them -/
def semLabels (s : Sample) : List SemLabel :=
  s.label.flatMap (fun e => e.2.map (SemLabel.str e.1)) ++
  (numPairs s).flatMap (fun e => e.2.map (fun p => SemLabel.num e.1 p.1 p.2))

def normLabel (l : List (Str × List Str)) : List (Str × List Str) :=
  l.flatMap (fun e => optKV e.1 (e.2.filter (· ≠ [])))
def normNum (l : List (Str × List (Int × Str))) : List (Str × List Int) :=
  l.flatMap (fun e => optKV e.1 ((e.2.filter keepPair).map (·.1)))
def normUnitTrim (l : List (Str × List (Int × Str))) : List (Str × List Str) :=
  l.flatMap (fun e => optKV e.1 (dropTrailingEmpty ((e.2.filter keepPair).map (·.2))))
def normUnit (l : List (Str × List (Int × Str))) : List (Str × List Str) :=
  l.flatMap (fun e => if ((e.2.filter keepPair).map (·.2)).any (· ≠ []) then [(e.1, (e.2.filter keepPair).map (·.2))] else [])

theorem keys_numPairs (s : Sample) : keys (numPairs s) = keys s.numLabel := by
  simp [keys, numPairs, List.map_map, Function.comp_def]

/-- `Sample.normalize` in flatMap form -/
theorem normalize_eq (s : Sample) : Sample.normalize s =
    ⟨s.locationIDs, s.values, normLabel s.label, normNum (numPairs s), normUnit (numPairs s)⟩ := by
  have hkv : ((s.numLabel.map fun (x : Str × List Int) =>
      (x.1, (x.2.zip (if ((s.numUnit.lookup x.1).getD []).isEmpty then List.replicate x.2.length ([] : Str)
          else (s.numUnit.lookup x.1).getD [])).filter fun (vu : Int × Str) => decide (vu.1 ≠ 0 ∨ vu.2 ≠ []))).filter
        (fun e => decide (e.2 ≠ []))) =
      (numPairs s).flatMap (fun e => optKV e.1 (e.2.filter keepPair)) := by
    have h1 := filter_map_eq_flatMap_optKV (γ := List Int) (β := Int × Str)
      (fun e => (e.2.zip (unitsFor s.numUnit e)).filter keepPair)
      (fun x => (x.1, (x.2.zip (if ((s.numUnit.lookup x.1).getD []).isEmpty then List.replicate x.2.length ([] : Str)
          else (s.numUnit.lookup x.1).getD [])).filter fun (vu : Int × Str) => decide (vu.1 ≠ 0 ∨ vu.2 ≠ [])))
      (fun _ => rfl) (fun e => decide (e.2 ≠ [])) (fun _ => rfl) s.numLabel
    rw [h1]
    simp [numPairs, List.flatMap_map]
  unfold Sample.normalize
  simp only
  congr 1
  · exact filter_map_eq_flatMap_optKV (γ := List Str) (fun e => e.2.filter (· ≠ [])) _ (fun _ => rfl) _ (fun _ => rfl) s.label
  · show List.map _ (List.filter _ (List.map _ s.numLabel)) = _
    rw [hkv]
    exact map_flatMap_optKV (γ := List (Int × Str)) (fun e => e.2.filter keepPair) (fun (p : Int × Str) => p.1) _ (fun _ => rfl) _
  · show List.filter _ (List.map _ (List.filter _ (List.map _ s.numLabel))) = _
    rw [hkv, map_flatMap_optKV (γ := List (Int × Str)) (fun e => e.2.filter keepPair) (fun (p : Int × Str) => p.2) _ (fun _ => rfl) _]
    exact filter_any_flatMap_optKV (γ := List (Int × Str)) (fun e => (e.2.filter keepPair).map (·.2)) _ (fun _ => rfl) _


theorem foldl_semLabels (s : Sample) (h1 : (keys s.label).Nodup) (h2 : (keys s.numLabel).Nodup) :
    (semLabels s).foldl semStep {} =
      ⟨normLabel s.label, normNum (numPairs s), normUnitTrim (numPairs s)⟩ := by
  unfold semLabels
  rw [List.foldl_append]
  have h0 : ({} : LabelAcc) = ⟨[], [], []⟩ := rfl
  have hk : (keys (numPairs s)).Nodup := by rw [keys_numPairs]; exact h2
  rw [h0, foldl_str_all [] [] s.label [] (by simpa [keys] using h1),
    foldl_num_all _ (numPairs s) [] [] (by simpa [keys] using hk) (by simpa [keys] using hk)]
  simp [normLabel, normNum, normUnitTrim]

/-- the closing pass of `postSample` over NumUnit: every (trimmed, non-empty) unit list is padded
to the number of values of its key, which restores exactly the kept units. -/
theorem map_pad_normUnitTrim (l : List (Str × List (Int × Str))) (hnd : (keys l).Nodup) :
    ∀ (r : List (Str × List (Int × Str))), (∀ e ∈ r, e ∈ l) →
    (normUnitTrim r).map (fun x => if x.2.length > 0
        then (x.1, padStringArray x.2 (((normNum l).lookup x.1).getD []).length) else (x.1, x.2)) = normUnit r
  | [], _ => rfl
  | e :: r, hr => by
    have ih := map_pad_normUnitTrim l hnd r (fun x hx => hr x (List.mem_cons_of_mem _ hx))
    unfold normUnitTrim normUnit at ih ⊢
    rw [List.flatMap_cons, List.map_append, List.flatMap_cons, ih]
    congr 1
    by_cases hany : ((e.2.filter keepPair).map (·.2)).any (· ≠ []) = true
    · have hne := (any_ne_nil_iff _).mp hany
      have hU : (e.2.filter keepPair).map (·.2) ≠ [] := by
        intro h; rw [h] at hne; exact hne rfl
      have hV : (e.2.filter keepPair).map (·.1) ≠ [] := by
        intro h; apply hU
        have : (e.2.filter keepPair) = [] := by simpa using h
        simp [this]
      have hlk := lookup_flatMap_optKV (fun e : Str × List (Int × Str) => (e.2.filter keepPair).map (·.1)) l hnd e
        (hr e (by simp)) hV
      rw [optKV_of_ne_nil _ hne]
      have hpos : (dropTrailingEmpty ((e.2.filter keepPair).map (·.2))).length > 0 :=
        List.length_pos_iff.mpr hne
      simp only [List.map_cons, List.map_nil, hpos, if_true, hany]
      unfold normNum
      rw [hlk]
      simp only [Option.getD_some, List.length_map]
      have := pad_dropTrailingEmpty ((e.2.filter keepPair).map (·.2))
      simp only [List.length_map] at this
      rw [this]
    · have hnil : dropTrailingEmpty ((e.2.filter keepPair).map (·.2)) = [] := by
        exact Classical.byContradiction (fun hc => hany ((any_ne_nil_iff _).mpr hc))
      simp only [hnil, optKV, List.map_nil, hany]
      rfl

theorem normUnit_eq_nil_of_normNum (l : List (Str × List (Int × Str))) (h : normNum l = []) : normUnit l = [] := by
  unfold normNum at h
  unfold normUnit
  rw [List.flatMap_eq_nil_iff] at h ⊢
  intro e he
  have := h e he
  have hV : (e.2.filter keepPair).map (·.1) = [] := by
    cases hc : (e.2.filter keepPair).map (·.1) with
    | nil => rfl
    | cons a r => rw [hc] at this; simp [optKV] at this
  have : e.2.filter keepPair = [] := by simpa using hV
  simp [this]

theorem pairwise_normUnit (l : List (Str × List (Int × Str))) (h : l.Pairwise LtK) : (normUnit l).Pairwise LtK :=
  pairwise_flatMap_keyed (α := Str × List (Int × Str)) (fun e => e.1) _
    (fun e x hx => by
      split at hx
      · simp at hx; rw [hx]
      · cases hx)
    (fun e => by split <;> simp) l h


/-- **Label regrouping.** If the wire labels of `x` denote, in a table satisfying the invariant,
the labels of `s` in flattening order, and the label maps of `s` are key-sorted, then
`postSample` rebuilds exactly the normalised maps of `s`. -/
theorem postSample_of_semLabels {tab : StrTab} (hinv : TabInv tab) {x : SampleX} {s : Sample}
    (hd : All2 (fun sl l => Denotes tab l sl) (semLabels s) x.labelX) (hs : s.mapsSorted = true) :
    postSample tab x = .ok ⟨x.locationIDX, x.value, normLabel s.label, normNum (numPairs s), normUnit (numPairs s)⟩ := by
  unfold Sample.mapsSorted at hs
  simp only [Bool.and_eq_true] at hs
  have p1 := pairwise_of_keysSorted _ hs.1.1
  have p2 := pairwise_of_keysSorted _ hs.1.2
  have p2' : (numPairs s).Pairwise LtK := by
    unfold numPairs
    rw [List.pairwise_map]
    exact p2.imp (fun h => h)
  have hnd : (keys (numPairs s)).Nodup := nodup_keys_of_pairwise p2'
  have hf := foldlM_ok_of_All2 (postLabel tab) semStep {}
    (All2.mono (fun sl l h acc => postLabel_of_Denotes hinv h acc) hd)
  unfold postSample
  rw [hf, Outcome.bind_ok, foldl_semLabels s (nodup_keys_of_pairwise p1) (nodup_keys_of_pairwise p2)]
  have e1 : sortKeys (normLabel s.label) = normLabel s.label :=
    sortKeys_eq_self _ (pairwise_flatMap_optKV _ _ p1)
  have e2 : sortKeys (normNum (numPairs s)) = normNum (numPairs s) :=
    sortKeys_eq_self _ (pairwise_flatMap_optKV _ _ p2')
  have e3 := map_pad_normUnitTrim (numPairs s) hnd (numPairs s) (fun _ h => h)
  have e4 : sortKeys (normUnit (numPairs s)) = normUnit (numPairs s) :=
    sortKeys_eq_self _ (pairwise_normUnit _ p2')
  simp only [e1, e2, e3, e4]
  by_cases hlen : (normNum (numPairs s)).length > 0
  · simp only [hlen, if_true]; rfl
  · have : normNum (numPairs s) = [] := List.eq_nil_of_length_eq_zero (by omega)
    simp only [hlen, if_false, normUnit_eq_nil_of_normNum _ this]; rfl

end Codec
end PV
