import PprofVerif.Model.Codec
/-!
Helpers for property C02: Go's string order `Str.lt` is a strict total order; facts about the
association lists that model Go maps in `postDecode` (`alSet`, `lookup`, `sortKeys`): the key
set stays duplicate-free, lookups after an update, and `sortKeys` yields strictly sorted keys.
Core Lean only.
-/
namespace PV

/-! ### `Str.lt` is a strict total order (Go's bytewise string `<`) -/
namespace Str

theorem lt_irrefl : ∀ a : Str, Str.lt a a = false
  | [] => rfl
  | x :: xs => by
    have := UInt8.lt_irrefl x
    simp [Str.lt, this, lt_irrefl xs]

theorem lt_trans : ∀ {a b c : Str}, Str.lt a b = true → Str.lt b c = true → Str.lt a c = true
  | [], [], _, h, _ => by simp [Str.lt] at h
  | [], _ :: _, [], _, h => by simp [Str.lt] at h
  | [], _ :: _, _ :: _, _, _ => by simp [Str.lt]
  | _ :: _, [], _, h, _ => by simp [Str.lt] at h
  | _ :: _, _ :: _, [], _, h => by simp [Str.lt] at h
  | x :: xs, y :: ys, z :: zs, h1, h2 => by
    simp only [Str.lt] at h1 h2 ⊢
    have hxy := @UInt8.lt_iff_toNat_lt x y
    have hyx := @UInt8.lt_iff_toNat_lt y x
    have hyz := @UInt8.lt_iff_toNat_lt y z
    have hzy := @UInt8.lt_iff_toNat_lt z y
    have hxz := @UInt8.lt_iff_toNat_lt x z
    have hzx := @UInt8.lt_iff_toNat_lt z x
    by_cases c1 : x < y
    · by_cases c2 : y < z
      · have : x < z := UInt8.lt_trans c1 c2
        simp [this]
      · simp only [c2, if_false] at h2
        by_cases c3 : z < y
        · simp [c3] at h2
        · have : x < z := by rw [hxz]; rw [hxy] at c1; rw [hyz] at c2; rw [hzy] at c3; omega
          simp [this]
    · simp only [c1, if_false] at h1
      by_cases c4 : y < x
      · simp [c4] at h1
      · simp only [c4, if_false] at h1
        have hxy' : x = y := by
          apply UInt8.toNat_inj.mp; rw [hxy] at c1; rw [hyx] at c4; omega
        subst hxy'
        by_cases c2 : x < z
        · simp [c2]
        · simp only [c2, if_false] at h2 ⊢
          by_cases c3 : z < x
          · simp [c3] at h2
          · simp only [c3, if_false] at h2 ⊢
            exact lt_trans h1 h2

theorem lt_total : ∀ {a b : Str}, Str.lt a b = false → Str.lt b a = false → a = b
  | [], [], _, _ => rfl
  | [], _ :: _, h, _ => by simp [Str.lt] at h
  | _ :: _, [], _, h => by simp [Str.lt] at h
  | x :: xs, y :: ys, h1, h2 => by
    simp only [Str.lt] at h1 h2
    have hxy := @UInt8.lt_iff_toNat_lt x y
    have hyx := @UInt8.lt_iff_toNat_lt y x
    by_cases c1 : x < y
    · simp [c1] at h1
    · by_cases c2 : y < x
      · simp [c2] at h2
      · simp only [c1, c2, if_false] at h1 h2
        have hxy' : x = y := by
          apply UInt8.toNat_inj.mp; rw [hxy] at c1; rw [hyx] at c2; omega
        rw [hxy', lt_total h1 h2]

end Str

namespace Codec

/-! ### association lists -/
def keys {β} (m : List (Str × β)) : List Str := m.map (·.1)

theorem lookup_mem {β} : ∀ {m : List (Str × β)} {k : Str} {v : β}, m.lookup k = some v → (k, v) ∈ m
  | [], _, _, h => by simp at h
  | (a, b) :: es, k, v, h => by
    rw [List.lookup_cons] at h
    split at h
    · rename_i heq
      have : k = a := beq_iff_eq.mp heq
      cases h; simp [this]
    · exact List.mem_cons_of_mem _ (lookup_mem h)

theorem mem_lookup {β} : ∀ {m : List (Str × β)} {k : Str} {v : β}, (keys m).Nodup → (k, v) ∈ m → m.lookup k = some v
  | [], _, _, _, h => by simp at h
  | (a, b) :: es, k, v, hnd, h => by
    rw [List.lookup_cons]
    simp only [keys, List.map_cons, List.nodup_cons] at hnd
    rcases List.mem_cons.mp h with heq | hin
    · cases heq; simp
    · have hne : (k == a) = false := by
        apply Bool.eq_false_iff.mpr
        intro hc
        have : k = a := beq_iff_eq.mp hc
        subst this
        exact hnd.1 (List.mem_map.mpr ⟨(k, v), hin, rfl⟩)
      simp only [hne]
      exact mem_lookup hnd.2 hin

theorem lookup_none_of_not_any {β} : ∀ {m : List (Str × β)} {k : Str}, m.any (·.1 == k) = false → m.lookup k = none
  | [], _, _ => rfl
  | (a, b) :: es, k, h => by
    simp only [List.any_cons, Bool.or_eq_false_iff] at h
    rw [List.lookup_cons]
    have : (k == a) = false := by
      apply Bool.eq_false_iff.mpr; intro hc
      have : k = a := beq_iff_eq.mp hc
      subst this; simp at h
    simp only [this]
    exact lookup_none_of_not_any h.2

theorem lookup_map_set {β} (k : Str) (v : β) : ∀ (m : List (Str × β)) (k' : Str),
    (m.map (fun e => if e.1 == k then (k, v) else e)).lookup k' =
      if k' == k then (if m.any (·.1 == k) then some v else none) else m.lookup k'
  | [], k' => by simp
  | (a, b) :: es, k' => by
    have ih := lookup_map_set k v es k'
    simp only [List.map_cons, List.any_cons]
    by_cases hak : (a == k) = true
    · have hak' : a = k := beq_iff_eq.mp hak
      subst hak'
      simp only [BEq.rfl, if_true, List.lookup_cons, Bool.true_or]
      by_cases hk : (k' == a) = true
      · simp [hk]
      · have hk' : (k' == a) = false := Bool.eq_false_iff.mpr hk
        simp only [hk'] at ih ⊢
        simpa using ih
    · have hak' : (a == k) = false := Bool.eq_false_iff.mpr hak
      simp only [hak', Bool.false_eq_true, if_false, List.lookup_cons, Bool.false_or]
      by_cases hk : (k' == a) = true
      · have hk2 : k' = a := beq_iff_eq.mp hk
        subst hk2
        simp [hak']
      · have hk' : (k' == a) = false := Bool.eq_false_iff.mpr hk
        simp only [hk']
        exact ih

theorem lookup_alSet {β} (m : List (Str × β)) (k : Str) (v : β) (k' : Str) :
    (alSet m k v).lookup k' = if k' == k then some v else m.lookup k' := by
  unfold alSet
  split
  · rename_i h; rw [lookup_map_set k v m k']; simp [h]
  · rename_i h
    have h' : m.any (·.1 == k) = false := Bool.eq_false_iff.mpr h
    rw [List.lookup_append]
    by_cases hk : (k' == k) = true
    · have : k' = k := beq_iff_eq.mp hk
      subst this
      simp [lookup_none_of_not_any h']
    · have hk' : (k' == k) = false := Bool.eq_false_iff.mpr hk
      simp [hk', List.lookup_cons]

theorem keys_alSet {β} (m : List (Str × β)) (k : Str) (v : β) :
    keys (alSet m k v) = if m.any (·.1 == k) then keys m else keys m ++ [k] := by
  unfold alSet
  split
  · simp only [keys, List.map_map]
    apply List.map_congr_left
    intro e _
    simp only [Function.comp]
    split
    · rename_i h; exact (beq_iff_eq.mp h).symm
    · rfl
  · simp [keys]

theorem keys_alSet_nodup {β} (m : List (Str × β)) (k : Str) (v : β) (h : (keys m).Nodup) :
    (keys (alSet m k v)).Nodup := by
  rw [keys_alSet]
  split
  · exact h
  · rename_i hany
    rw [List.nodup_append]
    refine ⟨h, by simp, ?_⟩
    intro a ha b hb
    simp at hb; subst hb
    intro hab; subst hab
    apply hany
    simp only [keys, List.mem_map] at ha
    obtain ⟨e, he, rfl⟩ := ha
    exact List.any_eq_true.mpr ⟨e, he, by simp⟩

/-! ### `sortKeys` (insertion sort on keys) -/
theorem mem_insertSorted {β} (e : Str × β) : ∀ (l : List (Str × β)) (x : Str × β),
    x ∈ insertSorted e l ↔ x = e ∨ x ∈ l
  | [], x => by simp [insertSorted]
  | y :: r, x => by
    rw [insertSorted]
    split
    · simp
    · simp only [List.mem_cons, mem_insertSorted e r x]
      constructor
      · rintro (h | h | h)
        · exact Or.inr (Or.inl h)
        · exact Or.inl h
        · exact Or.inr (Or.inr h)
      · rintro (h | h | h)
        · exact Or.inr (Or.inl h)
        · exact Or.inl h
        · exact Or.inr (Or.inr h)

theorem mem_sortKeys {β} : ∀ (m : List (Str × β)) (x : Str × β), x ∈ sortKeys m ↔ x ∈ m
  | [], x => by simp [sortKeys]
  | a :: m, x => by
    have ih := mem_sortKeys m x
    simp only [sortKeys, List.foldr_cons] at ih ⊢
    rw [mem_insertSorted, ih]; simp

def LtK {β} (a b : Str × β) : Prop := Str.lt a.1 b.1 = true

theorem keysSorted_of_pairwise {β} : ∀ (l : List (Str × β)), l.Pairwise LtK → keysSorted l = true
  | [], _ => rfl
  | [_], _ => rfl
  | a :: b :: r, h => by
    rw [List.pairwise_cons] at h
    simp only [keysSorted, Bool.and_eq_true]
    exact ⟨h.1 b (by simp), keysSorted_of_pairwise (b :: r) h.2⟩

theorem pairwise_insertSorted {β} (e : Str × β) : ∀ (l : List (Str × β)), l.Pairwise LtK →
    (∀ x ∈ l, x.1 ≠ e.1) → (insertSorted e l).Pairwise LtK
  | [], _, _ => by simp [insertSorted]
  | y :: r, hp, hne => by
    rw [insertSorted]
    rw [List.pairwise_cons] at hp
    split
    · rename_i hlt
      rw [List.pairwise_cons]
      refine ⟨?_, List.pairwise_cons.mpr hp⟩
      intro z hz
      rcases List.mem_cons.mp hz with rfl | hz
      · exact hlt
      · exact Str.lt_trans hlt (hp.1 z hz)
    · rename_i hlt
      have hlt' : Str.lt e.1 y.1 = false := Bool.eq_false_iff.mpr hlt
      rw [List.pairwise_cons]
      refine ⟨?_, pairwise_insertSorted e r hp.2 (fun x hx => hne x (List.mem_cons_of_mem _ hx))⟩
      intro z hz
      rcases (mem_insertSorted e r z).mp hz with rfl | hz
      · -- y < e by totality
        show Str.lt y.1 z.1 = true
        by_cases hc : Str.lt y.1 z.1 = true
        · exact hc
        · exfalso
          have := Str.lt_total hlt' (Bool.eq_false_iff.mpr hc)
          exact hne y (by simp) this.symm
      · exact hp.1 z hz

theorem pairwise_sortKeys {β} : ∀ (m : List (Str × β)), (keys m).Nodup → (sortKeys m).Pairwise LtK
  | [], _ => by simp [sortKeys]
  | a :: m, h => by
    simp only [keys, List.map_cons, List.nodup_cons] at h
    have ih := pairwise_sortKeys m h.2
    simp only [sortKeys, List.foldr_cons] at ih ⊢
    apply pairwise_insertSorted a _ ih
    intro x hx hxa
    have hx' : x ∈ m := (mem_sortKeys m x).mp hx
    exact h.1 (List.mem_map.mpr ⟨x, hx', hxa⟩)

theorem keysSorted_sortKeys {β} (m : List (Str × β)) (h : (keys m).Nodup) : keysSorted (sortKeys m) = true :=
  keysSorted_of_pairwise _ (pairwise_sortKeys m h)

end Codec
end PV
