import PprofVerif.Lemmas.GraphTotal
namespace PV.Graph
open PV.GSpec
variable {κ : Type} [DecidableEq κ]

/-! ### call-tree mode: `newTree` against the specification on path keys -/

def ppOf (par : Option (List κ)) : List κ := match par with | none => [] | some p => p

/-- path keys of the frames `fs` below the path `pp`. -/
def pathsFrom (pp : List κ) (fs : List κ) : List (List κ) := (prefixes fs).map (pp ++ ·)

theorem pathsFrom_nil (pp : List κ) : pathsFrom pp [] = [] := rfl
theorem pathsFrom_cons (pp : List κ) (f : κ) (fs : List κ) :
    pathsFrom pp (f :: fs) = (pp ++ [f]) :: pathsFrom (pp ++ [f]) fs := by
  unfold pathsFrom
  simp only [prefixes, List.map_cons, List.map_map]
  congr 1
  apply List.map_congr_left
  intro q _
  simp [Function.comp]

theorem pathsFrom_length_gt (pp : List κ) (fs : List κ) : ∀ q ∈ pathsFrom pp fs, pp.length < q.length := by
  induction fs generalizing pp with
  | nil => intro q h; simp [pathsFrom_nil] at h
  | cons f fs ih =>
    intro q h
    rw [pathsFrom_cons] at h
    rcases List.mem_cons.mp h with rfl | h'
    · simp
    · have := ih (pp ++ [f]) q h'
      simp at this; omega

theorem prefixes_eq_pathsFrom (fs : List κ) : prefixes fs = pathsFrom [] fs := by
  unfold pathsFrom; simp

theorem treeStep_parent (v : WD) (a : TInner κ) (f : κ) :
    (treeStep v a f).parent = some (ppOf a.parent ++ [f]) := by
  unfold treeStep ppOf; cases a.parent <;> rfl
theorem treeStep_cum (v : WD) (a : TInner κ) (f : κ) (m pp : List κ) (hpp : ppOf a.parent = pp) :
    (treeStep v a f).g.cum m = a.g.cum m + ind (pp ++ [f] = m) v := by
  subst hpp
  unfold treeStep ppOf; cases a.parent <;> simp
theorem treeStep_flat (v : WD) (a : TInner κ) (f : κ) (m : List κ) :
    (treeStep v a f).g.flat m = a.g.flat m := by
  unfold treeStep; cases a.parent <;> simp

theorem ind_or_disjoint (A B : Prop) [Decidable A] [Decidable B] (v : WD) (h : ¬ (A ∧ B)) :
    ind (A ∨ B) v = ind A v + ind B v := by
  by_cases ha : A
  · by_cases hb : B
    · exact absurd ⟨ha, hb⟩ h
    · simp [ha, hb]
  · by_cases hb : B <;> simp [ha, hb]

theorem foldTree_cum (v : WD) (m : List κ) (fs : List κ) : ∀ (a : TInner κ) (pp : List κ), ppOf a.parent = pp →
    (fs.foldl (treeStep v) a).g.cum m = a.g.cum m + ind (m ∈ pathsFrom pp fs) v := by
  induction fs with
  | nil => intro a pp _; simp [pathsFrom_nil]
  | cons f fs ih =>
    intro a pp hpp
    have hpar : ppOf (treeStep v a f).parent = pp ++ [f] := by rw [treeStep_parent, hpp]; rfl
    rw [List.foldl_cons, ih _ _ hpar, treeStep_cum v a f m pp hpp, pathsFrom_cons, WD.add_assoc]
    congr 1
    have hdisj : ¬ (m = pp ++ [f] ∧ m ∈ pathsFrom (pp ++ [f]) fs) := by
      rintro ⟨h1, h2⟩
      have := pathsFrom_length_gt _ _ _ h2
      rw [h1] at this
      exact Nat.lt_irrefl _ this
    have e : ind (m ∈ (pp ++ [f]) :: pathsFrom (pp ++ [f]) fs) v =
        ind (m = pp ++ [f] ∨ m ∈ pathsFrom (pp ++ [f]) fs) v := by
      by_cases h : m = pp ++ [f] ∨ m ∈ pathsFrom (pp ++ [f]) fs
      · rw [ind_true h, ind_true (List.mem_cons.mpr h)]
      · rw [ind_false h, ind_false (fun hc => h (List.mem_cons.mp hc))]
    rw [e, ind_or_disjoint _ _ _ hdisj]
    congr 1
    by_cases h : pp ++ [f] = m
    · rw [ind_true h, ind_true h.symm]
    · rw [ind_false h, ind_false (fun e => h e.symm)]

theorem foldTree_flat (v : WD) (m : List κ) (fs : List κ) : ∀ (a : TInner κ),
    (fs.foldl (treeStep v) a).g.flat m = a.g.flat m := by
  induction fs with
  | nil => intro a; rfl
  | cons f fs ih => intro a; rw [List.foldl_cons, ih, treeStep_flat]

theorem foldTree_parent (v : WD) (fs : List κ) : ∀ (a : TInner κ),
    (fs.foldl (treeStep v) a).parent = if fs = [] then a.parent else some (ppOf a.parent ++ fs) := by
  induction fs with
  | nil => intro a; simp
  | cons f fs ih =>
    intro a
    rw [List.foldl_cons, ih, treeStep_parent]
    by_cases h : fs = []
    · simp [h]
    · simp [h, ppOf]

theorem prefixes_getLast (fs : List κ) : (prefixes fs).getLast? = if fs = [] then none else some fs := by
  induction fs with
  | nil => rfl
  | cons f fs ih =>
    simp only [prefixes]
    by_cases h : fs = []
    · subst h; simp [prefixes]
    · have hne : prefixes fs ≠ [] := by
        cases fs with
        | nil => exact absurd rfl h
        | cons g r => simp [prefixes]
      rw [List.getLast?_cons_of_ne_nil (by simpa using hne)] at *
      · simp [List.getLast?_map, ih, h]

/-! sums over mapped samples -/
theorem sumOver_map_wd {κ' : Type} (f : GSample κ → GSample κ') (hf : ∀ s, (f s).wd = s.wd)
    (ss : List (GSample κ)) (c : GSample κ' → Bool) :
    sumOver (ss.map f) c = sumOver ss (fun s => c (f s)) := by
  induction ss with
  | nil => rfl
  | cons s ss ih =>
    unfold sumOver at *
    simp only [List.map_cons, List.filter_cons]
    by_cases h : c (f s) = true
    · simp [h, sumWD, hf, ih]
    · simp [h, ih]

theorem treeSampleStep_cum (g : GState (List κ)) (s : GSample κ) (m : List κ) :
    (treeSampleStep g s).cum m = g.cum m + ind (m ∈ prefixes s.frames) s.wd := by
  unfold treeSampleStep
  by_cases hs : (s.d == 0 && s.w == 0) = true
  · simp [hs, wd_zero_of_skip s hs]
  · simp only [hs]
    have h := foldTree_cum s.wd m s.frames ⟨g, none⟩ [] rfl
    have e : ind (m ∈ pathsFrom [] s.frames) s.wd = ind (m ∈ prefixes s.frames) s.wd := by
      by_cases hm : m ∈ prefixes s.frames
      · rw [ind_true hm, ind_true (by rw [← prefixes_eq_pathsFrom]; exact hm)]
      · rw [ind_false hm, ind_false (by rw [← prefixes_eq_pathsFrom]; exact hm)]
    rw [e] at h
    generalize List.foldl (treeStep s.wd) ⟨g, none⟩ s.frames = r at h
    cases hp : r.parent with
    | none => simpa [hp] using h
    | some p => simpa [hp] using h

theorem treeSampleStep_flat (g : GState (List κ)) (s : GSample κ) (m : List κ) :
    (treeSampleStep g s).flat m = g.flat m + ind ((prefixes s.frames).getLast? = some m) s.wd := by
  unfold treeSampleStep
  by_cases hs : (s.d == 0 && s.w == 0) = true
  · simp [hs, wd_zero_of_skip s hs]
  · simp only [hs]
    have hf := foldTree_flat s.wd m s.frames ⟨g, none⟩
    have hp := foldTree_parent s.wd s.frames ⟨g, none⟩
    generalize List.foldl (treeStep s.wd) ⟨g, none⟩ s.frames = r at hf hp
    rw [prefixes_getLast]
    by_cases hnil : s.frames = []
    · simp [hnil] at hp ⊢
      simp [hp, hf]
    · simp [hnil, ppOf] at hp ⊢
      simp [hp, hf]

theorem ind_of_bool (P : Prop) [Decidable P] (b : Bool) (h : b = true ↔ P) (v : WD) : ind (b = true) v = ind P v := by
  by_cases hp : P
  · rw [ind_true hp, ind_true (h.mpr hp)]
  · rw [ind_false hp, ind_false (fun hb => hp (h.mp hb))]

theorem foldTreeSamples_cum (n : List κ) (c : GSample κ → Bool) (hc : ∀ s, c s = true ↔ n ∈ prefixes s.frames)
    (ss : List (GSample κ)) : ∀ (g : GState (List κ)),
    (ss.foldl treeSampleStep g).cum n = g.cum n + sumOver ss c := by
  induction ss with
  | nil => intro g; simp
  | cons s ss ih =>
    intro g
    rw [List.foldl_cons, ih, treeSampleStep_cum, sumOver_cons, WD.add_assoc, ind_of_bool _ _ (hc s)]

theorem foldTreeSamples_flat (n : List κ) (c : GSample κ → Bool)
    (hc : ∀ s, c s = true ↔ (prefixes s.frames).getLast? = some n)
    (ss : List (GSample κ)) : ∀ (g : GState (List κ)),
    (ss.foldl treeSampleStep g).flat n = g.flat n + sumOver ss c := by
  induction ss with
  | nil => intro g; simp
  | cons s ss ih =>
    intro g
    rw [List.foldl_cons, ih, treeSampleStep_flat, sumOver_cons, WD.add_assoc, ind_of_bool _ _ (hc s)]

theorem tree_cum_eq_spec (ss : List (GSample κ)) (n : List κ) :
    (newTree ss).cum n = cumSpec (ss.map treeSample) n := by
  unfold newTree cumSpec
  rw [sumOver_map_wd treeSample (fun _ => rfl),
    foldTreeSamples_cum n (fun s => decide (n ∈ (treeSample s).frames)) (fun s => by show decide _ = true ↔ _; exact decide_eq_true_iff)]
  simp only [empty_cum, WD.zero_add]
  try (congr 1; funext s; exact decide_eq_decide.mpr Iff.rfl)

theorem tree_flat_eq_spec (ss : List (GSample κ)) (n : List κ) :
    (newTree ss).flat n = flatSpec (ss.map treeSample) n := by
  unfold newTree flatSpec
  rw [sumOver_map_wd treeSample (fun _ => rfl),
    foldTreeSamples_flat n (fun s => decide ((treeSample s).frames.getLast? = some n)) (fun s => by show decide _ = true ↔ _; exact decide_eq_true_iff)]
  simp only [empty_flat, WD.zero_add]
  try (congr 1; funext s; exact decide_eq_decide.mpr Iff.rfl)
end PV.Graph
