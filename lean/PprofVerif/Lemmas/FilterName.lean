import PprofVerif.Spec.Filter
/-!
Helper lemmas for C06: the model of `FilterSamplesByName` (Model/Filter.lean) computes exactly
the frame-level rule of Spec/Filter.lean.  Main result: `name_views_eq_spec`.
-/
namespace PV.Filter
open PV PV.FilterSpec

def hidePart (p : Profile) (hide : Option Rx) (l : Location) (ln : Line) : Bool :=
  match hide with
  | some re => !(lineMatches p re ln || mappingMatches p re l)
  | none => true

def showPart (p : Profile) (show_ : Option Rx) (l : Location) (ln : Line) : Bool :=
  match show_ with
  | some re => lineMatches p re ln || mappingMatches p re l
  | none => true

theorem hidePart_none (p : Profile) (l : Location) : hidePart p none l = fun _ => true := rfl
theorem hidePart_some (p : Profile) (re : Rx) (l : Location) :
    hidePart p (some re) l = fun ln => !(lineMatches p re ln || mappingMatches p re l) := rfl
theorem showPart_none (p : Profile) (l : Location) : showPart p none l = fun _ => true := rfl
theorem showPart_some (p : Profile) (re : Rx) (l : Location) :
    showPart p (some re) l = fun ln => lineMatches p re ln || mappingMatches p re l := rfl

theorem afterHide_lines (p : Profile) (hide : Option Rx) (l : Location) :
    (afterHide p hide l).lines = l.lines.filter (hidePart p hide l) := by
  cases hide with
  | none =>
    rw [hidePart_none]; symm
    simp only [afterHide, List.filter_eq_self]; intros; trivial
  | some re =>
    rw [hidePart_some]
    simp only [afterHide, matchesName, unmatchedLines]
    by_cases mm : mappingMatches p re l = true
    · simp [mm]
    · simp only [Bool.not_eq_true] at mm
      simp only [mm, Bool.or_false]
      by_cases ha : l.lines.any (lineMatches p re) = true
      · simp [ha]
      · simp only [ha]
        simp only [Bool.not_eq_true, List.any_eq_false] at ha
        symm
        simp only [Bool.false_eq_true, ↓reduceIte, List.filter_eq_self]
        intro a h
        simpa using ha a h

theorem afterHide_id (p : Profile) (hide : Option Rx) (l : Location) :
    (afterHide p hide l).id = l.id ∧ (afterHide p hide l).mappingID = l.mappingID := by
  cases hide with
  | none => simp [afterHide]
  | some re => simp only [afterHide]; split <;> simp

theorem mappingMatches_congr (p : Profile) (re : Rx) {l l' : Location} (h : l'.mappingID = l.mappingID) :
    mappingMatches p re l' = mappingMatches p re l := by simp [mappingMatches, h]

/-- with resolvable functions `lineShown` is `lineMatches` -/
theorem lineShown_eq (p : Profile) (re : Rx) (ln : Line) (h : ∃ f, p.findFunction ln.functionID = some f) :
    lineShown p re ln = lineMatches p re ln := by
  obtain ⟨f, hf⟩ := h
  simp [lineShown, lineMatches, hf]

theorem locAfter_lines (p : Profile) (hide show_ : Option Rx) (l : Location)
    (hf : ∀ ln ∈ l.lines, ∃ f, p.findFunction ln.functionID = some f) :
    (locAfter p hide show_ l).lines = l.lines.filter (fun ln => hidePart p hide l ln && showPart p show_ l ln) := by
  unfold locAfter
  cases show_ with
  | none =>
    simp only [afterShow, afterHide_lines, showPart_none, Bool.and_true]
  | some re =>
    simp only [afterShow, matchedLines, afterHide_lines, showPart_some]
    rw [mappingMatches_congr p re (afterHide_id p hide l).2]
    by_cases mm : mappingMatches p re l = true
    · simp [mm]
    · simp only [Bool.not_eq_true] at mm
      simp only [mm, Bool.or_false, Bool.false_eq_true, ↓reduceIte, List.filter_filter]
      apply List.filter_congr
      intro ln hln
      rw [lineShown_eq p re ln (hf ln hln), Bool.and_comm]

theorem locAfter_id (p : Profile) (hide show_ : Option Rx) (l : Location) :
    (locAfter p hide show_ l).id = l.id ∧ (locAfter p hide show_ l).mappingID = l.mappingID := by
  unfold locAfter
  cases show_ with
  | none => simpa [afterShow] using afterHide_id p hide l
  | some re => simpa [afterShow] using afterHide_id p hide l


def pseudoVisible (p : Profile) (hide show_ : Option Rx) (l : Location) : Bool :=
  (match hide with | some re => !mappingMatches p re l | none => true) &&
  (match show_ with | some re => mappingMatches p re l | none => true)

theorem hiddenByShow_eq (p : Profile) (hide show_ : Option Rx) (l : Location)
    (hf : ∀ ln ∈ l.lines, ∃ f, p.findFunction ln.functionID = some f) :
    hiddenByShow p show_ l.lines.isEmpty (afterHide p hide l) =
      match show_ with
      | none => false
      | some re => (locAfter p hide show_ l).lines.isEmpty && !(l.lines.isEmpty && mappingMatches p re l) := by
  cases show_ with
  | none => rfl
  | some re =>
    simp only [hiddenByShow, locAfter, afterShow]
    rw [mappingMatches_congr p re (afterHide_id p hide l).2]

theorem locHidden_unsym (p : Profile) (hide show_ : Option Rx) (l : Location) (h : l.lines = []) :
    locHidden p hide show_ l = !pseudoVisible p hide show_ l := by
  have hf : ∀ ln ∈ l.lines, ∃ f, p.findFunction ln.functionID = some f := by simp [h]
  unfold locHidden
  rw [hiddenByShow_eq p hide show_ l hf]
  simp only [hiddenByHide, afterHide_lines, locAfter_lines p hide show_ l hf, h, List.filter_nil,
    List.isEmpty_nil, Bool.and_true, Bool.true_and, pseudoVisible]
  cases hide <;> cases show_ <;> simp [hideHit, matchesName, h]

theorem locHidden_sym (p : Profile) (hide show_ : Option Rx) (l : Location) (h : l.lines ≠ [])
    (hf : ∀ ln ∈ l.lines, ∃ f, p.findFunction ln.functionID = some f) :
    locHidden p hide show_ l = (locAfter p hide show_ l).lines.isEmpty := by
  unfold locHidden
  rw [hiddenByShow_eq p hide show_ l hf]
  have hne : l.lines.isEmpty = false := by cases hl : l.lines with | nil => exact absurd hl h | cons _ _ => rfl
  simp only [hiddenByHide, afterHide_lines, locAfter_lines p hide show_ l hf, hne, Bool.false_and, Bool.not_false, Bool.and_true]
  cases hide with
  | none =>
    cases show_ with
    | none =>
      simp [hideHit, hidePart_none, showPart_none]
      exact List.exists_mem_of_ne_nil _ h
    | some re => simp [hideHit]
  | some re =>
    have key : (hideHit p (some re) l && (l.lines.filter (hidePart p (some re) l)).isEmpty) =
        (l.lines.filter (hidePart p (some re) l)).isEmpty := by
      cases he : (l.lines.filter (hidePart p (some re) l)).isEmpty with
      | false => simp
      | true =>
        simp only [Bool.and_true, hideHit, matchesName]
        simp only [List.isEmpty_iff, List.filter_eq_nil_iff, hidePart_some] at he
        cases hl : l.lines with
        | nil => exact absurd hl h
        | cons a r =>
          have := he a (by simp [hl])
          by_cases mm : mappingMatches p re l = true
          · simp [mm]
          · simp only [Bool.not_eq_true] at mm
            simp only [mm, Bool.or_false, Bool.not_eq_true', Bool.not_eq_false] at this ⊢
            simp [this]
    rw [key]
    cases show_ with
    | none => simp [showPart_none]
    | some re2 =>
      simp only [Bool.or_eq_right_iff_imp, List.isEmpty_iff, List.filter_eq_nil_iff]
      intro h1 a ha
      have := h1 a ha
      simp only [Bool.not_eq_true] at this
      simp [this]


theorem frameMatches_line (p : Profile) (re : Rx) (l : Location) (ln : Line) :
    frameMatches p re ⟨l.id, l.mappingID, some ln⟩ = (lineMatches p re ln || mappingMatches p re l) := by
  unfold frameMatches mappingMatches
  cases p.findMapping l.mappingID <;> rfl

theorem frameMatches_pseudo (p : Profile) (re : Rx) (l : Location) :
    frameMatches p re ⟨l.id, l.mappingID, none⟩ = mappingMatches p re l := by
  unfold frameMatches mappingMatches
  cases p.findMapping l.mappingID <;> simp

theorem visible_line (p : Profile) (hide show_ : Option Rx) (l : Location) (ln : Line) :
    visible p hide show_ ⟨l.id, l.mappingID, some ln⟩ = (hidePart p hide l ln && showPart p show_ l ln) := by
  cases hide <;> cases show_ <;> simp [visible, hidePart, showPart, frameMatches_line]

theorem visible_pseudo (p : Profile) (hide show_ : Option Rx) (l : Location) :
    visible p hide show_ ⟨l.id, l.mappingID, none⟩ = pseudoVisible p hide show_ l := by
  cases hide <;> cases show_ <;> simp [visible, pseudoVisible, frameMatches_pseudo]

theorem locFrames_ne_nil (l : Location) : locFrames l ≠ [] := by
  unfold locFrames
  cases h : l.lines with
  | nil => simp
  | cons a r => simp

/-- the frames of a location that stay visible are the frames of the rewritten location,
or nothing when the location is hidden. -/
theorem locFrames_filter (p : Profile) (hide show_ : Option Rx) (l : Location)
    (hf : ∀ ln ∈ l.lines, ∃ f, p.findFunction ln.functionID = some f) :
    (locFrames l).filter (visible p hide show_) =
      if locHidden p hide show_ l then [] else locFrames (locAfter p hide show_ l) := by
  have hid := locAfter_id p hide show_ l
  by_cases h : l.lines = []
  · rw [locHidden_unsym p hide show_ l h]
    have h2 : (locAfter p hide show_ l).lines = [] := by rw [locAfter_lines p hide show_ l hf, h]; rfl
    simp only [locFrames, h, h2, List.isEmpty_nil, ↓reduceIte, hid.1, hid.2, List.filter_cons, List.filter_nil,
      visible_pseudo]
    cases pseudoVisible p hide show_ l <;> simp
  · rw [locHidden_sym p hide show_ l h hf]
    have hne : l.lines.isEmpty = false := by cases hl : l.lines with | nil => exact absurd hl h | cons _ _ => rfl
    have hflt : (locFrames l).filter (visible p hide show_) =
        ((locAfter p hide show_ l).lines).map (fun ln => (⟨l.id, l.mappingID, some ln⟩ : Frame)) := by
      simp only [locFrames, hne, Bool.false_eq_true, ↓reduceIte, List.filter_map, locAfter_lines p hide show_ l hf]
      congr 1
    rw [hflt]
    cases he : (locAfter p hide show_ l).lines with
    | nil => simp
    | cons a r => simp [locFrames, he, hid.1, hid.2]

theorem locFrames_any_matches (p : Profile) (re : Rx) (l : Location) :
    (locFrames l).any (frameMatches p re) = matchesName p re l := by
  unfold locFrames matchesName
  cases h : l.lines with
  | nil => simp [frameMatches_pseudo]
  | cons a r =>
    simp only [List.isEmpty_cons, Bool.false_eq_true, ↓reduceIte, List.any_map]
    have : ((fun fr => frameMatches p re fr) ∘ fun ln => (⟨l.id, l.mappingID, some ln⟩ : Frame)) =
        fun ln => lineMatches p re ln || mappingMatches p re l := by
      funext ln; simp [frameMatches_line]
    rw [show (frameMatches p re ∘ fun ln => (⟨l.id, l.mappingID, some ln⟩ : Frame)) = _ from this]
    cases mm : mappingMatches p re l <;> simp

theorem locHidden_iff_all_invisible (p : Profile) (hide show_ : Option Rx) (l : Location)
    (hf : ∀ ln ∈ l.lines, ∃ f, p.findFunction ln.functionID = some f) :
    (locFrames l).all (fun fr => !visible p hide show_ fr) = locHidden p hide show_ l := by
  have h := locFrames_filter p hide show_ l hf
  cases hh : locHidden p hide show_ l with
  | true =>
    rw [hh] at h
    simp only [↓reduceIte, List.filter_eq_nil_iff] at h
    simp only [List.all_eq_true, Bool.not_eq_eq_eq_not, Bool.not_true]
    intro fr hfr
    simpa using h fr hfr
  | false =>
    rw [hh] at h
    simp only [Bool.false_eq_true, ↓reduceIte] at h
    have hne := locFrames_ne_nil (locAfter p hide show_ l)
    rw [← h] at hne
    obtain ⟨fr, hfr⟩ := List.exists_mem_of_ne_nil _ hne
    simp only [List.mem_filter] at hfr
    simp only [List.all_eq_false, Bool.not_eq_eq_eq_not, Bool.not_true, Bool.not_eq_false]
    exact ⟨fr, hfr.1, hfr.2⟩

structure WF (p : Profile) : Prop where
  locNodup : (p.locations.map (·.id)).Nodup
  sampleLocs : ∀ s ∈ p.samples, ∀ id ∈ s.locationIDs, ∃ l, p.findLocation id = some l
  lineFns : ∀ l ∈ p.locations, ∀ ln ∈ l.lines, ∃ f, p.findFunction ln.functionID = some f

theorem find?_id_isSome {ls : List Location} {id : Nat} (h : ls.any (·.id == id) = true) :
    ∃ l, ls.find? (·.id == id) = some l := by
  induction ls with
  | nil => simp at h
  | cons a r ih =>
    simp only [List.find?_cons]
    by_cases ha : (a.id == id) = true
    · simp [ha]
    · simp only [ha]
      simp only [List.any_cons, Bool.or_eq_true] at h
      rcases h with h | h
      · exact absurd h ha
      · exact ih h

theorem findFn_isSome {fs : List Function} {id : Nat} (h : fs.any (·.id == id) = true) :
    ∃ f, fs.find? (·.id == id) = some f := by
  induction fs with
  | nil => simp at h
  | cons a r ih =>
    simp only [List.find?_cons]
    by_cases ha : (a.id == id) = true
    · simp [ha]
    · simp only [ha]
      simp only [List.any_cons, Bool.or_eq_true] at h
      rcases h with h | h
      · exact absurd h ha
      · exact ih h

theorem wf_of_valid {p : Profile} (h : p.Valid) : WF p := by
  unfold Profile.Valid Profile.validB at h
  simp only [Bool.and_eq_true, decide_eq_true_eq, List.all_eq_true] at h
  obtain ⟨⟨⟨⟨⟨_, hs⟩, _⟩, _⟩, hl⟩, hlines⟩ := h
  have hl' : (p.locations.map (·.id)).Nodup := by
    unfold idsNodup at hl; simp only [decide_eq_true_eq] at hl; exact hl.1
  refine ⟨hl', ?_, ?_⟩
  · intro s hs' id hid
    have := (hs s hs').2 id hid
    exact find?_id_isSome this.2
  · intro l hl' ln hln
    have := (hlines l hl').2 ln hln
    exact findFn_isSome this.2

/-! ### table lookups -/
theorem find?_mem_id {ls : List Location} {id : Nat} {l : Location} (h : ls.find? (·.id == id) = some l) :
    l ∈ ls ∧ l.id = id := by
  have h1 := List.mem_of_find?_eq_some h
  have h2 := List.find?_some h
  exact ⟨h1, by simpa using h2⟩

theorem find?_map_id (f : Location → Location) (hf : ∀ l, (f l).id = l.id) (ls : List Location) (id : Nat) :
    (ls.map f).find? (·.id == id) = (ls.find? (·.id == id)).map f := by
  induction ls with
  | nil => rfl
  | cons a r ih =>
    simp only [List.map_cons, List.find?_cons, hf]
    cases (a.id == id) <;> simp [ih]

theorem find?_of_mem_nodup {ls : List Location} (hn : (ls.map (·.id)).Nodup) {l : Location} (hm : l ∈ ls) :
    ls.find? (·.id == l.id) = some l := by
  induction ls with
  | nil => cases hm
  | cons a r ih =>
    simp only [List.map_cons, List.nodup_cons] at hn
    simp only [List.find?_cons]
    rcases List.mem_cons.mp hm with rfl | hm'
    · simp
    · have hne : (a.id == l.id) = false := by
        apply beq_false_of_ne
        intro heq
        exact hn.1 (heq ▸ List.mem_map_of_mem (f := (·.id)) hm')
      simp only [hne]
      exact ih hn.2 hm'

/-! ### the focus / ignore decision -/
theorem focusedAndNotIgnored_eq (m : Nat → Option Bool) (ids : List Nat) (f : Bool) :
    focusedAndNotIgnored m ids f =
      (!(ids.any (fun id => m id == some false)) && (f || ids.any (fun id => m id == some true))) := by
  induction ids generalizing f with
  | nil => simp [focusedAndNotIgnored]
  | cons a r ih =>
    unfold focusedAndNotIgnored
    cases hm : m a with
    | none => simp [ih, hm]
    | some b => cases b <;> simp [ih, hm]


theorem any_congr_mem {α} {l : List α} {a b : α → Bool} (h : ∀ x ∈ l, a x = b x) : l.any a = l.any b := by
  induction l with
  | nil => rfl
  | cons x r ih =>
    simp only [List.any_cons]
    rw [h x (by simp), ih (fun y hy => h y (by simp [hy]))]

def locMatch (p : Profile) (re : Rx) (id : Nat) : Bool :=
  match p.findLocation id with
  | some l => matchesName p re l
  | none => false

theorem hasMatch_eq (p : Profile) (re : Rx) (s : Sample) :
    hasMatch p re s = s.locationIDs.any (locMatch p re) := by
  unfold hasMatch frames
  rw [List.any_flatMap]
  apply any_congr_mem
  intro id _
  unfold locFramesOf locMatch
  cases p.findLocation id with
  | none => rfl
  | some l => exact locFrames_any_matches p re l

theorem any_and_not {α} (l : List α) (a b : α → Bool) (h : l.any a = false) :
    l.any (fun x => !a x && b x) = l.any b := by
  apply any_congr_mem
  intro x hx
  have := List.any_eq_false.mp h x hx
  simp only [Bool.not_eq_true] at this
  simp [this]

theorem keep_eq (p : Profile) (fo ig : Option Rx) (s : Sample)
    (hres : ∀ id ∈ s.locationIDs, ∃ l, p.findLocation id = some l) :
    (focusedAndNotIgnored (foiMap p fo ig) s.locationIDs false || (fo.isNone && s.locationIDs.isEmpty)) =
      nameKeeps p fo ig s := by
  rw [focusedAndNotIgnored_eq]
  have hign : s.locationIDs.any (fun id => foiMap p fo ig id == some false) =
      (match ig with | some re => s.locationIDs.any (locMatch p re) | none => false) := by
    cases ig with
    | none =>
      simp only [List.any_eq_false]
      intro id _
      unfold foiMap foiLoc
      cases p.findLocation id with
      | none => simp
      | some l => simp only [Bool.false_eq_true, ↓reduceIte]; split <;> simp
    | some re =>
      apply any_congr_mem
      intro id _
      unfold foiMap foiLoc locMatch
      cases p.findLocation id with
      | none => simp
      | some l =>
        cases hm : matchesName p re l
        · simp only [hm, Bool.false_eq_true, ↓reduceIte]; split <;> simp
        · simp [hm]
  have hfoc : s.locationIDs.any (fun id => foiMap p fo ig id == some true) =
      s.locationIDs.any (fun id => !(foiMap p fo ig id == some false) &&
        (match fo with | some re => locMatch p re id | none => true)) := by
    apply any_congr_mem
    intro id hid
    obtain ⟨l, hl⟩ := hres id hid
    unfold foiMap foiLoc locMatch
    simp only [hl]
    cases ig with
    | none => cases fo with
      | none => simp
      | some re => cases hm : matchesName p re l <;> simp [hm]
    | some re2 =>
      cases hm2 : matchesName p re2 l
      · cases fo with
        | none => simp [hm2]
        | some re => cases hm : matchesName p re l <;> simp [hm, hm2]
      · simp [hm2]
  rw [hfoc]
  cases hi : s.locationIDs.any (fun id => foiMap p fo ig id == some false) with
  | true =>
    have hne : s.locationIDs.isEmpty = false := by
      cases hl : s.locationIDs with
      | nil => rw [hl] at hi; simp at hi
      | cons _ _ => rfl
    rw [hign] at hi
    cases ig with
    | none => simp at hi
    | some re => simp [nameKeeps, hasMatch_eq, hi, hne]
  | false =>
    rw [any_and_not _ _ _ hi]
    rw [hign] at hi
    simp only [Bool.not_false, Bool.true_and, Bool.false_or]
    cases fo with
    | none =>
      have : (s.locationIDs.any fun _ => true) = !s.locationIDs.isEmpty := by
        cases s.locationIDs <;> simp
      cases ig with
      | none => simp [nameKeeps, this]
      | some re => simp [nameKeeps, hasMatch_eq, hi, this]
    | some re =>
      cases ig with
      | none => simp [nameKeeps, hasMatch_eq]
      | some re2 => simp [nameKeeps, hasMatch_eq, hi]


/-! ### frames of the result -/
theorem locFramesOf_result (p p' : Profile) (hi sh : Option Rx)
    (hl : p'.locations = p.locations.map (locAfter p hi sh)) (id : Nat) :
    locFramesOf p' id =
      match p.findLocation id with
      | some l => locFrames (locAfter p hi sh l)
      | none => [] := by
  unfold locFramesOf Profile.findLocation
  rw [hl, find?_map_id _ (fun l => (locAfter_id p hi sh l).1)]
  cases List.find? (fun x => x.id == id) p.locations <;> rfl

theorem hiddenId_false_of_none (p : Profile) (hi sh : Option Rx) (h : p.locations.any (locHidden p hi sh) = false)
    (id : Nat) : hiddenId p hi sh id = false := by
  unfold hiddenId
  cases hf : p.findLocation id with
  | none => rfl
  | some l =>
    have := (find?_mem_id hf).1
    exact List.any_eq_false.mp h l this |> fun x => by simpa using x

theorem frames_after (p p' : Profile) (wf : WF p) (hi sh : Option Rx)
    (hl : p'.locations = p.locations.map (locAfter p hi sh)) (ids : List Nat) :
    (ids.filter (fun id => !hiddenId p hi sh id)).flatMap (locFramesOf p') =
      (ids.flatMap (locFramesOf p)).filter (visible p hi sh) := by
  induction ids with
  | nil => rfl
  | cons id r ih =>
    simp only [List.flatMap_cons, List.filter_append, List.filter_cons]
    rw [← ih]
    cases hf : p.findLocation id with
    | none =>
      have h1 : hiddenId p hi sh id = false := by simp [hiddenId, hf]
      have h2 : locFramesOf p id = [] := by simp [locFramesOf, hf]
      have h3 : locFramesOf p' id = [] := by rw [locFramesOf_result p p' hi sh hl, hf]
      simp [h1, h2, h3]
    | some l =>
      have hmem := (find?_mem_id hf).1
      have h1 : hiddenId p hi sh id = locHidden p hi sh l := by simp [hiddenId, hf]
      have h2 : locFramesOf p id = locFrames l := by simp [locFramesOf, hf]
      have h3 : locFramesOf p' id = locFrames (locAfter p hi sh l) := by
        rw [locFramesOf_result p p' hi sh hl, hf]
      rw [h1, h2, locFrames_filter p hi sh l (wf.lineFns l hmem)]
      cases hh : locHidden p hi sh l <;> simp [h3]

theorem someLocationHidden_eq (p : Profile) (wf : WF p) (hi sh : Option Rx) :
    someLocationHidden p hi sh = p.locations.any (locHidden p hi sh) := by
  unfold someLocationHidden
  apply any_congr_mem
  intro l hl
  exact locHidden_iff_all_invisible p hi sh l (wf.lineFns l hl)

theorem flatMap_ne_nil_of_resolved (p p' : Profile) (hi sh : Option Rx)
    (hl : p'.locations = p.locations.map (locAfter p hi sh)) (ids : List Nat) (hne : ids ≠ [])
    (hres : ∀ id ∈ ids, ∃ l, p.findLocation id = some l) :
    ids.flatMap (locFramesOf p') ≠ [] := by
  cases ids with
  | nil => exact absurd rfl hne
  | cons id r =>
    obtain ⟨l, hf⟩ := hres id (by simp)
    simp only [List.flatMap_cons, ne_eq, List.append_eq_nil_iff, not_and]
    intro h
    rw [locFramesOf_result p p' hi sh hl, hf] at h
    exact absurd h (locFrames_ne_nil _)

/-- per sample: the model's step and the frame-level rule agree. -/
theorem sampleStep_spec (p p' : Profile) (wf : WF p) (fo ig hi sh : Option Rx)
    (hl : p'.locations = p.locations.map (locAfter p hi sh)) (s : Sample) (hs : s ∈ p.samples) :
    (sampleStep p fo ig hi sh s).map (view p') = (nameSpecSample p fo ig hi sh s).map (specView s) := by
  have hres := wf.sampleLocs s hs
  unfold sampleStep nameSpecSample
  rw [keep_eq p fo ig s hres]
  cases hk : nameKeeps p fo ig s with
  | false => simp
  | true =>
    simp only [↓reduceIte]
    have hfs := frames_after p p' wf hi sh hl s.locationIDs
    rw [someLocationHidden_eq p wf hi sh]
    unfold frames
    rw [← hfs]
    cases hany : p.locations.any (locHidden p hi sh) with
    | true =>
      simp only [↓reduceIte, Bool.not_true, Bool.and_false, Bool.false_eq_true]
      cases hlocs : s.locationIDs.filter (fun id => !hiddenId p hi sh id) with
      | nil => simp
      | cons a r =>
        have hne : (a :: r).flatMap (locFramesOf p') ≠ [] := by
          apply flatMap_ne_nil_of_resolved p p' hi sh hl (a :: r) (by simp)
          intro id hid
          have : id ∈ s.locationIDs.filter (fun id => !hiddenId p hi sh id) := by rw [hlocs]; exact hid
          exact hres id (List.mem_filter.mp this).1
        have he : ((a :: r).flatMap (locFramesOf p')).isEmpty = false := by
          cases hx : (a :: r).flatMap (locFramesOf p') with
          | nil => exact absurd hx hne
          | cons _ _ => rfl
        simp only [List.isEmpty_cons, Bool.false_eq_true, ↓reduceIte, he, Option.map_some]
        simp [view, specView, frames]
    | false =>
      have hall : s.locationIDs.filter (fun id => !hiddenId p hi sh id) = s.locationIDs := by
        rw [List.filter_eq_self]
        intro id _
        simp [hiddenId_false_of_none p hi sh hany id]
      rw [hall]
      simp only [Bool.false_eq_true, ↓reduceIte, Bool.not_false, Bool.and_true, Option.map_some]
      cases hids : s.locationIDs with
      | nil => simp [view, specView, frames, hids]
      | cons a r =>
        have hne : (a :: r).flatMap (locFramesOf p') ≠ [] := by
          apply flatMap_ne_nil_of_resolved p p' hi sh hl (a :: r) (by simp)
          intro id hid
          exact hres id (by rw [hids]; exact hid)
        have he : ((a :: r).flatMap (locFramesOf p')).isEmpty = false := by
          cases hx : (a :: r).flatMap (locFramesOf p') with
          | nil => exact absurd hx hne
          | cons _ _ => rfl
        simp only [he, Bool.false_eq_true, ↓reduceIte, Option.map_some]
        simp [view, specView, frames, hids]


theorem filterMap_congr_mem {α β} {l : List α} {f g : α → Option β} (h : ∀ x ∈ l, f x = g x) :
    l.filterMap f = l.filterMap g := by
  induction l with
  | nil => rfl
  | cons x r ih =>
    simp only [List.filterMap_cons]
    rw [h x (by simp), ih (fun y hy => h y (by simp [hy]))]

/-- MODEL = RULE for the name filters: what the model of `FilterSamplesByName` leaves, seen as
views (values, labels, frames), is exactly what the frame-level rule prescribes. -/
theorem name_views_eq_spec (p : Profile) (wf : WF p) (fo ig hi sh : Option Rx) :
    (filterSamplesByName p fo ig hi sh).profile.samples.map (view (filterSamplesByName p fo ig hi sh).profile) =
      nameSpec p fo ig hi sh := by
  unfold filterSamplesByName nameSpec
  split
  · rfl
  · simp only [List.map_filterMap]
    apply filterMap_congr_mem
    intro s hs
    exact sampleStep_spec p _ wf fo ig hi sh rfl s hs

end PV.Filter
