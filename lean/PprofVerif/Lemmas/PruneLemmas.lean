import PprofVerif.Spec.Prune
import PprofVerif.Lemmas.FilterName
import PprofVerif.Lemmas.FilterShowFrom
/-! Helper lemmas for C11: the model of Prune / PruneFrom (Model/Prune.lean) computes the frame-level
rule of Spec/Prune.lean under the per-sample hypotheses PruneH / PruneFromH. -/
namespace PV.Prune
open PV PV.PruneSpec
open PV.FilterSpec hiding frameMatches

/-! ### list facts -/
theorem takeWhile_append_of_all {α} (q : α → Bool) (a b : List α) (h : a.all q = true) :
    (a ++ b).takeWhile q = a ++ b.takeWhile q := by
  induction a with
  | nil => rfl
  | cons x r ih =>
    simp only [List.all_cons, Bool.and_eq_true] at h
    simp [List.takeWhile_cons, h.1, ih h.2]

theorem dropWhile_append_of_all {α} (q : α → Bool) (a b : List α) (h : a.all q = true) :
    (a ++ b).dropWhile q = b.dropWhile q := by
  induction a with
  | nil => rfl
  | cons x r ih =>
    simp only [List.all_cons, Bool.and_eq_true] at h
    simp [List.dropWhile_cons, h.1, ih h.2]

/-- `keepRootSide` with the "user frame already seen" flag. -/
def krs {α} (m : α → Bool) (fu : Bool) (l : List α) : List α :=
  if fu then l.takeWhile (fun x => !m x) else keepRootSide m l

theorem krs_user {α} (m : α → Bool) (fu : Bool) (u rest : List α) (hne : u ≠ []) (hu : u.all (fun x => !m x) = true) :
    krs m fu (u ++ rest) = u ++ krs m true rest := by
  cases fu with
  | true => simp [krs, takeWhile_append_of_all _ u rest hu]
  | false =>
    cases u with
    | nil => exact absurd rfl hne
    | cons x t =>
      have hx : m x = false := by
        simp only [List.all_cons, Bool.and_eq_true, Bool.not_eq_eq_eq_not, Bool.not_true] at hu
        exact hu.1
      simp only [krs, Bool.false_eq_true, ↓reduceIte, keepRootSide, List.cons_append, List.takeWhile_cons, hx,
        List.dropWhile_cons, List.nil_append]
      have := takeWhile_append_of_all (fun x => !m x) (x :: t) rest hu
      simpa [List.takeWhile_cons, hx] using this

theorem krs_whole_true {α} (m : α → Bool) (x : α) (t rest : List α) (hx : m x = true) :
    krs m true ((x :: t) ++ rest) = [] := by
  simp [krs, List.takeWhile_cons, hx]

theorem krs_whole_false {α} (m : α → Bool) (a rest : List α) (ha : a.all m = true) :
    krs m false (a ++ rest) = a ++ krs m false rest := by
  simp [krs, keepRootSide, takeWhile_append_of_all m a rest ha, dropWhile_append_of_all m a rest ha]

theorem krs_beneath {α} (m : α → Bool) (fu : Bool) (u : List α) (x : α) (t rest : List α) (hne : u ≠ [])
    (hu : u.all (fun x => !m x) = true) (hx : m x = true) :
    krs m fu ((u ++ x :: t) ++ rest) = u := by
  rw [List.append_assoc, krs_user m fu u _ hne hu]
  simp [krs, List.takeWhile_cons, hx]

/-! ### the per-sample loop on blocks -/
def leadOK (cls : Nat → LocClass) (allm : Nat → Bool) : List Nat → Bool
  | [] => true
  | id :: r =>
    match cls id with
    | .user => true
    | .whole => allm id && leadOK cls allm r
    | .beneath => false

theorem scan_flatMap {β} (m : β → Bool) (cls : Nat → LocClass) (allm : Nat → Bool) (G G' : Nat → List β)
    (ids : List Nat) (fu : Bool)
    (hU : ∀ id ∈ ids, cls id = .user → G id ≠ [] ∧ (G id).all (fun x => !m x) = true ∧ G' id = G id)
    (hW : ∀ id ∈ ids, cls id = .whole → (∃ x t, G id = x :: t ∧ m x = true) ∧ G' id = G id)
    (hB : ∀ id ∈ ids, cls id = .beneath →
      ∃ u x t, G id = u ++ x :: t ∧ u ≠ [] ∧ u.all (fun x => !m x) = true ∧ m x = true ∧ G' id = u)
    (hA : ∀ id ∈ ids, allm id = true → (G id).all m = true)
    (hL : fu = true ∨ leadOK cls allm ids = true) :
    (scan cls ids fu).flatMap G' = krs m fu (ids.flatMap G) := by
  induction ids generalizing fu with
  | nil => cases fu <;> simp [scan, krs, keepRootSide]
  | cons id r ih =>
    have ihr := fun fu' hL' => ih fu' (fun x hx => hU x (by simp [hx])) (fun x hx => hW x (by simp [hx]))
      (fun x hx => hB x (by simp [hx])) (fun x hx => hA x (by simp [hx])) hL'
    simp only [List.flatMap_cons]
    cases hc : cls id with
    | user =>
      obtain ⟨hne, hall, hG⟩ := hU id (by simp) hc
      simp only [scan, hc, List.flatMap_cons, hG]
      rw [ihr true (Or.inl rfl), krs_user m fu (G id) _ hne hall]
    | whole =>
      obtain ⟨⟨x, t, hxt, hx⟩, hG⟩ := hW id (by simp) hc
      cases fu with
      | true =>
        simp only [scan, hc, ↓reduceIte, List.flatMap_nil]
        rw [hxt, krs_whole_true m x t _ hx]
      | false =>
        rcases hL with hL | hL
        · cases hL
        · simp only [leadOK, hc, Bool.and_eq_true] at hL
          simp only [scan, hc, Bool.false_eq_true, ↓reduceIte, List.flatMap_cons, hG]
          rw [ihr false (Or.inr hL.2), krs_whole_false m (G id) _ (hA id (by simp) hL.1)]
    | beneath =>
      obtain ⟨u, x, t, hG, hne, hu, hx, hG'⟩ := hB id (by simp) hc
      cases fu with
      | true =>
        simp only [scan, hc, ↓reduceIte, List.flatMap_cons, List.flatMap_nil, List.append_nil, hG']
        rw [hG, krs_beneath m true u x t _ hne hu hx]
      | false =>
        rcases hL with hL | hL
        · cases hL
        · simp [leadOK, hc] at hL


/-! ### dropThroughLast -/
theorem dropThroughLast_none {α} {q : α → Bool} {L : List α} (h : dropThroughLast q L = none) :
    L.all (fun x => !q x) = true := by
  induction L with
  | nil => rfl
  | cons a r ih =>
    unfold dropThroughLast at h
    cases hr : dropThroughLast q r with
    | some s => rw [hr] at h; cases h
    | none =>
      rw [hr] at h
      simp only at h
      by_cases hq : q a = true
      · simp [hq] at h
      · simp only [Bool.not_eq_true] at hq
        simp [hq, ih hr]

theorem dropThroughLast_some {α} {q : α → Bool} {L s : List α} (h : dropThroughLast q L = some s) :
    ∃ pre x, L = pre ++ x :: s ∧ q x = true ∧ s.all (fun x => !q x) = true := by
  induction L with
  | nil => cases h
  | cons a r ih =>
    unfold dropThroughLast at h
    cases hr : dropThroughLast q r with
    | some s' =>
      rw [hr] at h
      simp only [Option.some.injEq] at h
      subst h
      obtain ⟨pre, x, hL, hx, hs⟩ := ih hr
      exact ⟨a :: pre, x, by simp [hL], hx, hs⟩
    | none =>
      rw [hr] at h
      simp only at h
      by_cases hq : q a = true
      · simp only [hq, ↓reduceIte, Option.some.injEq] at h
        subst h
        exact ⟨[], a, rfl, hq, dropThroughLast_none hr⟩
      · simp [hq] at h

/-! ### locations -/
def mkFrame (l : Location) (ln : Line) : Frame := ⟨l.id, l.mappingID, some ln⟩

theorem frameMatches_mk (p : Profile) (q : Str → Bool) (l : Location) (ln : Line) :
    frameMatches p q (mkFrame l ln) = lineMatches p q ln := rfl

theorem locFrames_of_lines_ne {l : Location} (h : l.lines ≠ []) : locFrames l = l.lines.map (mkFrame l) := by
  unfold locFrames
  cases hl : l.lines with
  | nil => exact absurd hl h
  | cons a r => rfl

theorem pruneLoc_id (p : Profile) (q : Str → Bool) (l : Location) : (pruneLoc p q l).id = l.id := by
  unfold pruneLoc; split <;> rfl

theorem locFramesOf_pruned (p p' : Profile) (q : Str → Bool)
    (hl : p'.locations = p.locations.map (pruneLoc p q)) (id : Nat) :
    locFramesOf p' id =
      match p.findLocation id with
      | some l => locFrames (pruneLoc p q l)
      | none => [] := by
  unfold locFramesOf Profile.findLocation
  rw [hl, Filter.find?_map_id _ (pruneLoc_id p q)]
  cases List.find? (fun x => x.id == id) p.locations <;> rfl

/-- all lines of the location match (and there is one). -/
def allMatchId (p : Profile) (q : Str → Bool) (id : Nat) : Bool :=
  match p.findLocation id with
  | some l => !l.lines.isEmpty && l.lines.all (lineMatches p q)
  | none => false

/-- root-first frames of a location of `p`. -/
def G (p : Profile) (id : Nat) : List Frame := (locFramesOf p id).reverse

theorem G_user (p p' : Profile) (q : Str → Bool) (hl : p'.locations = p.locations.map (pruneLoc p q))
    (id : Nat) (l : Location) (hf : p.findLocation id = some l) (hc : classOf p q id = .user) :
    G p id ≠ [] ∧ (G p id).all (fun x => !frameMatches p q x) = true ∧ G p' id = G p id := by
  have hcl : classify p q l = .user := by simpa [classOf, hf] using hc
  unfold classify at hcl
  cases hd : dropThroughLast (lineMatches p q) l.lines with
  | some s => rw [hd] at hcl; cases s <;> simp at hcl
  | none =>
    have hall := dropThroughLast_none hd
    have hpl : pruneLoc p q l = l := by unfold pruneLoc; rw [hd]
    have h1 : locFramesOf p id = locFrames l := by simp [locFramesOf, hf]
    have h2 : locFramesOf p' id = locFrames l := by rw [locFramesOf_pruned p p' q hl, hf]; simp [hpl]
    refine ⟨?_, ?_, ?_⟩
    · simp only [G, h1, ne_eq, List.reverse_eq_nil_iff]; exact Filter.locFrames_ne_nil l
    · simp only [G, h1, List.all_reverse]
      by_cases hne : l.lines = []
      · simp [locFrames, hne, frameMatches]
      · rw [locFrames_of_lines_ne hne, List.all_map]
        simpa [Function.comp, frameMatches_mk] using hall
    · simp [G, h1, h2]

theorem G_whole (p p' : Profile) (q : Str → Bool) (hl : p'.locations = p.locations.map (pruneLoc p q))
    (id : Nat) (l : Location) (hf : p.findLocation id = some l) (hc : classOf p q id = .whole) :
    (∃ x t, G p id = x :: t ∧ frameMatches p q x = true) ∧ G p' id = G p id := by
  have hcl : classify p q l = .whole := by simpa [classOf, hf] using hc
  unfold classify at hcl
  cases hd : dropThroughLast (lineMatches p q) l.lines with
  | none => rw [hd] at hcl; simp at hcl
  | some s =>
    rw [hd] at hcl
    cases s with
    | cons a r => simp at hcl
    | nil =>
      obtain ⟨pre, x, hL, hx, _⟩ := dropThroughLast_some hd
      have hne : l.lines ≠ [] := by rw [hL]; simp
      have hpl : pruneLoc p q l = l := by unfold pruneLoc; rw [hd]
      have h1 : locFramesOf p id = locFrames l := by simp [locFramesOf, hf]
      have h2 : locFramesOf p' id = locFrames l := by rw [locFramesOf_pruned p p' q hl, hf]; simp [hpl]
      refine ⟨⟨mkFrame l x, (pre.map (mkFrame l)).reverse, ?_, ?_⟩, by simp [G, h1, h2]⟩
      · simp [G, h1, locFrames_of_lines_ne hne, hL]
      · rw [frameMatches_mk]; exact hx

theorem G_beneath (p p' : Profile) (q : Str → Bool) (hl : p'.locations = p.locations.map (pruneLoc p q))
    (id : Nat) (l : Location) (hf : p.findLocation id = some l) (hc : classOf p q id = .beneath) :
    ∃ u x t, G p id = u ++ x :: t ∧ u ≠ [] ∧ u.all (fun x => !frameMatches p q x) = true ∧
      frameMatches p q x = true ∧ G p' id = u := by
  have hcl : classify p q l = .beneath := by simpa [classOf, hf] using hc
  unfold classify at hcl
  cases hd : dropThroughLast (lineMatches p q) l.lines with
  | none => rw [hd] at hcl; simp at hcl
  | some s =>
    rw [hd] at hcl
    cases s with
    | nil => simp at hcl
    | cons a r =>
      obtain ⟨pre, x, hL, hx, hs⟩ := dropThroughLast_some hd
      have hne : l.lines ≠ [] := by rw [hL]; simp
      have hpl : pruneLoc p q l = { l with lines := a :: r } := by unfold pruneLoc; rw [hd]
      have h1 : locFramesOf p id = locFrames l := by simp [locFramesOf, hf]
      have h2 : locFramesOf p' id = (a :: r).map (mkFrame l) := by
        rw [locFramesOf_pruned p p' q hl, hf]
        simp only [hpl]
        rfl
      refine ⟨((a :: r).map (mkFrame l)).reverse, mkFrame l x, (pre.map (mkFrame l)).reverse, ?_, ?_, ?_, ?_, ?_⟩
      · simp [G, h1, locFrames_of_lines_ne hne, hL]
      · simp
      · rw [List.all_reverse, List.all_map]
        simpa [Function.comp, frameMatches_mk] using hs
      · rw [frameMatches_mk]; exact hx
      · simp [G, h2]

theorem G_allm (p : Profile) (q : Str → Bool) (id : Nat) (h : allMatchId p q id = true) :
    (G p id).all (frameMatches p q) = true := by
  unfold allMatchId at h
  cases hf : p.findLocation id with
  | none => rw [hf] at h; cases h
  | some l =>
    rw [hf] at h
    simp only [Bool.and_eq_true, Bool.not_eq_eq_eq_not, Bool.not_true] at h
    have hne : l.lines ≠ [] := by intro hx; rw [hx] at h; simp at h
    simp only [G, locFramesOf, hf, List.all_reverse, locFrames_of_lines_ne hne, List.all_map]
    simpa [Function.comp, frameMatches_mk] using h.2


/-- hypothesis H of `prune_spec_frames_partial` for one sample: scanning from the root, every
location before the first one without a matching line matches on ALL its lines (so neither is a
user frame hidden inside a location whose root-most line matches, nor does the first user frame
share its location with a matching line). -/
def PruneH (p : Profile) (q : Str → Bool) (s : Sample) : Prop :=
  leadOK (classOf p q) (allMatchId p q) s.locationIDs.reverse = true

instance (p : Profile) (q : Str → Bool) (s : Sample) : Decidable (PruneH p q s) := by
  unfold PruneH; infer_instance

theorem reverse_flatMap_reverse {α β} (l : List α) (f : α → List β) :
    (l.reverse.flatMap f).reverse = l.flatMap (fun x => (f x).reverse) := by
  induction l with
  | nil => rfl
  | cons a r ih => simp [List.flatMap_append, ih]

theorem flatMap_reverse' {α β} (l : List α) (f : α → List β) :
    (l.flatMap f).reverse = l.reverse.flatMap (fun x => (f x).reverse) := by
  induction l with
  | nil => rfl
  | cons a r ih => simp [List.flatMap_append, ih]

theorem prune_frames_eq_spec (p : Profile) (wf : Filter.WF p) (q : Str → Bool) (s : Sample)
    (hs : s ∈ p.samples) (h : PruneH p q s) :
    frames (pruneWith p q) (pruneSample p q s) = pruneFrames (frameMatches p q) (frames p s) := by
  have hres := wf.sampleLocs s hs
  unfold frames pruneSample pruneFrames
  simp only
  rw [← List.reverse_inj, List.reverse_reverse, reverse_flatMap_reverse, flatMap_reverse']
  have key := scan_flatMap (frameMatches p q) (classOf p q) (allMatchId p q) (G p) (G (pruneWith p q))
    s.locationIDs.reverse false
    (by
      intro id hid hc
      obtain ⟨l, hf⟩ := hres id (List.mem_reverse.mp hid)
      exact G_user p _ q rfl id l hf hc)
    (by
      intro id hid hc
      obtain ⟨l, hf⟩ := hres id (List.mem_reverse.mp hid)
      exact G_whole p _ q rfl id l hf hc)
    (by
      intro id hid hc
      obtain ⟨l, hf⟩ := hres id (List.mem_reverse.mp hid)
      exact G_beneath p _ q rfl id l hf hc)
    (fun id _ ha => G_allm p q id ha)
    (Or.inr h)
  simp only [krs, Bool.false_eq_true, ↓reduceIte] at key
  exact key


/-! ### PruneFrom -/
theorem fromFirst_append {α} (q : α → Bool) (a b : List α) :
    fromFirst q (a ++ b) =
      match fromFirst q a with
      | some r => some (r ++ b)
      | none => fromFirst q b := by
  induction a with
  | nil => rfl
  | cons x r ih =>
    simp only [List.cons_append, fromFirst]
    by_cases hx : q x = true
    · simp [hx]
    · simp [hx, ih]

theorem fromFirst_map {α β} (f : α → β) (q : β → Bool) (l : List α) :
    fromFirst q (l.map f) = (fromFirst (fun x => q (f x)) l).map (List.map f) := by
  induction l with
  | nil => rfl
  | cons x r ih =>
    simp only [List.map_cons, fromFirst]
    by_cases hx : q (f x) = true
    · simp [hx]
    · simp [hx, ih]

theorem fromFirst_some_ne_nil {α} {q : α → Bool} {l r : List α} (h : fromFirst q l = some r) : r ≠ [] := by
  induction l with
  | nil => cases h
  | cons x t ih =>
    simp only [fromFirst] at h
    by_cases hx : q x = true
    · simp only [hx, ↓reduceIte, Option.some.injEq] at h; subst h; simp
    · simp only [hx] at h; exact ih h

def laterWhole (Q whole : Nat → Bool) : List Nat → Bool
  | [] => true
  | id :: r => if Q id then r.all (fun x => !Q x || whole x) else laterWhole Q whole r

theorem fromFirst_flatMap_none {β} (m : β → Bool) (Q : Nat → Bool) (F F' : Nat → List β) (ids : List Nat)
    (hN : ∀ id ∈ ids, Q id = false → fromFirst m (F id) = none ∧ F' id = F id)
    (h : fromFirst Q ids = none) :
    fromFirst m (ids.flatMap F) = none ∧ ids.flatMap F' = ids.flatMap F := by
  induction ids with
  | nil => exact ⟨rfl, rfl⟩
  | cons id r ih =>
    simp only [fromFirst] at h
    by_cases hq : Q id = true
    · simp [hq] at h
    · simp only [hq] at h
      simp only [Bool.not_eq_true] at hq
      obtain ⟨h1, h2⟩ := hN id (by simp) hq
      obtain ⟨i1, i2⟩ := ih (fun x hx => hN x (by simp [hx])) h
      simp only [List.flatMap_cons, fromFirst_append, h1, i1, h2, i2, and_self]

theorem fromFirst_flatMap_some {β} (m : β → Bool) (Q whole : Nat → Bool) (F F' : Nat → List β) (ids r' : List Nat)
    (hN : ∀ id ∈ ids, Q id = false → fromFirst m (F id) = none ∧ F' id = F id)
    (hQ : ∀ id ∈ ids, Q id = true → fromFirst m (F id) = some (F' id))
    (hW : ∀ id ∈ ids, whole id = true → F' id = F id)
    (hL : laterWhole Q whole ids = true)
    (h : fromFirst Q ids = some r') :
    fromFirst m (ids.flatMap F) = some (r'.flatMap F') := by
  induction ids with
  | nil => cases h
  | cons id r ih =>
    simp only [fromFirst] at h
    by_cases hq : Q id = true
    · simp only [hq, ↓reduceIte, Option.some.injEq] at h
      subst h
      simp only [laterWhole, hq, ↓reduceIte, List.all_eq_true, Bool.or_eq_true, Bool.not_eq_eq_eq_not,
        Bool.not_true] at hL
      have hr : r.flatMap F' = r.flatMap F := by
        apply Filter.flatMap_congr_mem
        intro x hx
        rcases hL x hx with h1 | h1
        · exact (hN x (by simp [hx]) h1).2
        · exact hW x (by simp [hx]) h1
      simp only [List.flatMap_cons, fromFirst_append, hQ id (by simp) hq, hr]
    · simp only [hq] at h
      have hq' : Q id = false := by simpa using hq
      simp only [laterWhole, hq'] at hL
      obtain ⟨h1, _⟩ := hN id (by simp) hq'
      have := ih (fun x hx => hN x (by simp [hx])) (fun x hx => hQ x (by simp [hx]))
        (fun x hx => hW x (by simp [hx])) (by simpa using hL) h
      simp only [List.flatMap_cons, fromFirst_append, h1, this]

theorem pruneFromLoc_id (p : Profile) (q : Str → Bool) (l : Location) : (pruneFromLoc p q l).1.id = l.id := by
  unfold pruneFromLoc; split <;> rfl

theorem locFramesOf_prunedFrom (p p' : Profile) (q : Str → Bool)
    (hl : p'.locations = p.locations.map (fun l => (pruneFromLoc p q l).1)) (id : Nat) :
    locFramesOf p' id =
      match p.findLocation id with
      | some l => locFrames (pruneFromLoc p q l).1
      | none => [] := by
  unfold locFramesOf Profile.findLocation
  rw [hl, Filter.find?_map_id _ (pruneFromLoc_id p q)]
  cases List.find? (fun x => x.id == id) p.locations <;> rfl

/-- the leaf-most line of the location matches (prune_from does not cut into it). -/
def firstLineMatches (p : Profile) (q : Str → Bool) (id : Nat) : Bool :=
  match p.findLocation id with
  | some l => (match l.lines with | ln :: _ => lineMatches p q ln | [] => false)
  | none => false

/-- hypothesis of `pruneFrom_spec_partial` for one sample: on the root side of its leaf-most
matching location, every matching location matches on its leaf-most line. -/
def PruneFromH (p : Profile) (q : Str → Bool) (s : Sample) : Prop :=
  laterWhole (pruneFromId p q) (firstLineMatches p q) s.locationIDs = true

instance (p : Profile) (q : Str → Bool) (s : Sample) : Decidable (PruneFromH p q s) := by
  unfold PruneFromH; infer_instance

theorem pf_notMatched (p p' : Profile) (q : Str → Bool)
    (hl : p'.locations = p.locations.map (fun l => (pruneFromLoc p q l).1)) (id : Nat)
    (hq : pruneFromId p q id = false) :
    fromFirst (frameMatches p q) (locFramesOf p id) = none ∧ locFramesOf p' id = locFramesOf p id := by
  rw [locFramesOf_prunedFrom p p' q hl]
  unfold pruneFromId at hq
  unfold locFramesOf
  cases hf : p.findLocation id with
  | none => exact ⟨rfl, rfl⟩
  | some l =>
    rw [hf] at hq
    simp only at hq ⊢
    unfold pruneFromLoc at hq ⊢
    cases hd : fromFirst (lineMatches p q) l.lines with
    | some ls => rw [hd] at hq; cases hq
    | none =>
      simp only
      refine ⟨?_, trivial⟩
      by_cases hne : l.lines = []
      · simp [locFrames, hne, fromFirst, frameMatches]
      · rw [locFrames_of_lines_ne hne, fromFirst_map]
        have : (fun x => frameMatches p q (mkFrame l x)) = lineMatches p q := by funext x; rfl
        rw [this, hd]; rfl

theorem pf_matched (p p' : Profile) (q : Str → Bool)
    (hl : p'.locations = p.locations.map (fun l => (pruneFromLoc p q l).1)) (id : Nat)
    (hq : pruneFromId p q id = true) :
    fromFirst (frameMatches p q) (locFramesOf p id) = some (locFramesOf p' id) := by
  rw [locFramesOf_prunedFrom p p' q hl]
  unfold pruneFromId at hq
  unfold locFramesOf
  cases hf : p.findLocation id with
  | none => rw [hf] at hq; cases hq
  | some l =>
    rw [hf] at hq
    simp only at hq ⊢
    unfold pruneFromLoc at hq ⊢
    cases hd : fromFirst (lineMatches p q) l.lines with
    | none => rw [hd] at hq; cases hq
    | some ls =>
      simp only
      have hne : l.lines ≠ [] := by intro hx; rw [hx] at hd; cases hd
      have hls : ls ≠ [] := fromFirst_some_ne_nil hd
      rw [locFrames_of_lines_ne hne, fromFirst_map]
      have : (fun x => frameMatches p q (mkFrame l x)) = lineMatches p q := by funext x; rfl
      rw [this, hd]
      simp only [Option.map_some, Option.some.injEq]
      rw [locFrames_of_lines_ne (l := { l with lines := ls }) hls]
      rfl

theorem pf_whole (p p' : Profile) (q : Str → Bool)
    (hl : p'.locations = p.locations.map (fun l => (pruneFromLoc p q l).1)) (id : Nat)
    (hw : firstLineMatches p q id = true) : locFramesOf p' id = locFramesOf p id := by
  rw [locFramesOf_prunedFrom p p' q hl]
  unfold firstLineMatches at hw
  unfold locFramesOf
  cases hf : p.findLocation id with
  | none => rfl
  | some l =>
    rw [hf] at hw
    simp only at hw ⊢
    cases hL : l.lines with
    | nil => rw [hL] at hw; cases hw
    | cons ln t =>
      rw [hL] at hw
      simp only at hw
      have : (pruneFromLoc p q l).1 = l := by
        unfold pruneFromLoc
        simp only [hL, fromFirst, hw, ↓reduceIte]
        cases l; simp_all
      rw [this]

theorem pruneFrom_frames_eq_spec (p : Profile) (q : Str → Bool) (s : Sample) (h : PruneFromH p q s) :
    frames (pruneFromWith p q) (pruneFromSample p q s) =
      pruneFromFrames (frameMatches p q) (frames p s) := by
  unfold frames pruneFromSample pruneFromFrames
  have hN := fun id (_ : id ∈ s.locationIDs) hq => pf_notMatched p (pruneFromWith p q) q rfl id hq
  cases hd : fromFirst (pruneFromId p q) s.locationIDs with
  | none =>
    obtain ⟨h1, h2⟩ := fromFirst_flatMap_none (frameMatches p q) (pruneFromId p q) (locFramesOf p)
      (locFramesOf (pruneFromWith p q)) s.locationIDs hN hd
    simp only [h1, h2]
  | some r' =>
    have := fromFirst_flatMap_some (frameMatches p q) (pruneFromId p q) (firstLineMatches p q) (locFramesOf p)
      (locFramesOf (pruneFromWith p q)) s.locationIDs r' hN
      (fun id _ hq => pf_matched p _ q rfl id hq)
      (fun id _ hw => pf_whole p _ q rfl id hw) h hd
    simp only [this]


/-! ### never empty -/
theorem scan_ne_nil (cls : Nat → LocClass) (ids : List Nat) (h : ids ≠ []) : scan cls ids false ≠ [] := by
  cases ids with
  | nil => exact absurd rfl h
  | cons id r =>
    unfold scan
    cases cls id <;> simp

theorem scan_subset (cls : Nat → LocClass) (ids : List Nat) (fu : Bool) : ∀ x ∈ scan cls ids fu, x ∈ ids := by
  induction ids generalizing fu with
  | nil => intro x hx; simp [scan] at hx
  | cons id r ih =>
    intro x hx
    unfold scan at hx
    cases hc : cls id with
    | user =>
      rw [hc] at hx
      simp only [List.mem_cons] at hx ⊢
      rcases hx with hx | hx
      · exact Or.inl hx
      · exact Or.inr (ih true x hx)
    | whole =>
      rw [hc] at hx
      cases fu with
      | true => simp at hx
      | false =>
        simp only [Bool.false_eq_true, ↓reduceIte, List.mem_cons] at hx ⊢
        rcases hx with hx | hx
        · exact Or.inl hx
        · exact Or.inr (ih false x hx)
    | beneath =>
      rw [hc] at hx
      cases fu with
      | true => simp only [↓reduceIte, List.mem_singleton] at hx; simp [hx]
      | false =>
        simp only [Bool.false_eq_true, ↓reduceIte, List.mem_cons] at hx ⊢
        rcases hx with hx | hx
        · exact Or.inl hx
        · exact Or.inr (ih false x hx)

theorem prune_frames_ne_nil (p : Profile) (wf : Filter.WF p) (q : Str → Bool) (s : Sample)
    (hs : s ∈ p.samples) (h : s.locationIDs ≠ []) :
    frames (pruneWith p q) (pruneSample p q s) ≠ [] := by
  have hres := wf.sampleLocs s hs
  unfold frames pruneSample
  simp only
  have hne : (scan (classOf p q) s.locationIDs.reverse false).reverse ≠ [] := by
    simp only [ne_eq, List.reverse_eq_nil_iff]
    exact scan_ne_nil _ _ (by simpa using h)
  cases hk : (scan (classOf p q) s.locationIDs.reverse false).reverse with
  | nil => exact absurd hk hne
  | cons id r =>
    have hmem : id ∈ s.locationIDs := by
      have : id ∈ (scan (classOf p q) s.locationIDs.reverse false).reverse := by rw [hk]; simp
      have := scan_subset _ _ _ id (List.mem_reverse.mp this)
      exact List.mem_reverse.mp this
    obtain ⟨l, hf⟩ := hres id hmem
    simp only [List.flatMap_cons, ne_eq, List.append_eq_nil_iff, not_and]
    intro h0
    rw [locFramesOf_pruned p _ q rfl, hf] at h0
    exact absurd h0 (Filter.locFrames_ne_nil _)

/-! ### witnesses of the findings (byte literals: d=100 k=107 u=117 m=109 a=97 b=98 l=108) -/
def wfn (id : Nat) (n : Str) : Function := ⟨id, n, n, [], 0⟩
def wprofile (fs : List Function) (ls : List Location) (ss : List Sample) : Profile :=
  { sampleType := [⟨[115], [99]⟩], defaultSampleType := [], samples := ss, mappings := [],
    locations := ls, functions := fs, comments := [], docURL := [], dropFrames := [], keepFrames := [],
    timeNanos := 0, durationNanos := 0, periodType := none, period := 0 }

/-- family A: stack root→leaf `um dm | lf` (`dm` inlined into the root location), drop = `dm`. -/
def witnessA : Profile :=
  wprofile [wfn 1 [108, 102], wfn 2 [100, 109], wfn 3 [117, 109]]
    [⟨1, 0, 1, [⟨1, 1, 0⟩], false⟩, ⟨2, 0, 2, [⟨2, 1, 0⟩, ⟨3, 2, 0⟩], false⟩]
    [⟨[1, 2], [7], [], [], []⟩]
def dropA : Str → Bool := fun n => n == [100, 109]

/-- family B: stack root→leaf `d2 k1 d2 | d1` (one location `d2 k1 d2`), drop = `d1|d2`. -/
def witnessB : Profile :=
  wprofile [wfn 1 [100, 49], wfn 2 [100, 50], wfn 3 [107, 49]]
    [⟨1, 0, 1, [⟨1, 1, 0⟩], false⟩, ⟨2, 0, 2, [⟨2, 1, 0⟩, ⟨3, 2, 0⟩, ⟨2, 3, 0⟩], false⟩]
    [⟨[1, 2], [7], [], [], []⟩]
def dropB : Str → Bool := fun n => n == [100, 49] || n == [100, 50]

/-- prune_from: stack leaf-first `[m a | b mm]`, prune_from = `^m`. -/
def witnessPF : Profile :=
  wprofile [wfn 1 [109], wfn 2 [97], wfn 3 [98], wfn 4 [109, 109]]
    [⟨1, 0, 1, [⟨1, 1, 0⟩, ⟨2, 2, 0⟩], false⟩, ⟨2, 0, 2, [⟨3, 1, 0⟩, ⟨4, 2, 0⟩], false⟩]
    [⟨[1, 2], [7], [], [], []⟩]
def startsWithM : Str → Bool := fun n => n.head? == some 109

end PV.Prune
