import PprofVerif.Model.Wire
import Mathlib.Tactic.Ring
import Mathlib.Tactic.Linarith
/-! Varint round trip (proto.go `encodeVarint` / `decodeVarint`). -/
namespace PV.Wire

theorem ofNat_toNat_lt {n : Nat} (h : n < 256) : (UInt8.ofNat n).toNat = n := by
  simp [Nat.mod_eq_of_lt h]

theorem decodeVarintGo_encodeVarint (x : Nat) : ∀ (i u : Nat) (rest : Bytes),
    i ≤ 9 → u + x * 2 ^ (7 * i) < two64 →
    decodeVarintGo i u (encodeVarint x ++ rest) = .ok (u + x * 2 ^ (7 * i), rest) := by
  induction x using Nat.strongRecOn with
  | _ x ih =>
    intro i u rest hi hlt
    rw [encodeVarint]
    split
    · rename_i hx
      have hb : (UInt8.ofNat (x % 128 + 128)).toNat = x % 128 + 128 := ofNat_toNat_lt (by omega)
      have hP : 2 ^ (7 * (i + 1)) = 128 * 2 ^ (7 * i) := by
        rw [show 7 * (i + 1) = 7 * i + 7 by ring, pow_add]; ring
      have hxd : x = 128 * (x / 128) + x % 128 := (Nat.div_add_mod x 128).symm
      have hsplit : x * 2 ^ (7 * i) = (x / 128) * (128 * 2 ^ (7 * i)) + (x % 128) * 2 ^ (7 * i) := by
        conv_lhs => rw [hxd]
        ring
      have hi' : i + 1 ≤ 9 := by
        by_contra hc
        have h9 : 9 ≤ i := by omega
        have : (2:Nat) ^ 70 ≤ 128 * 2 ^ (7 * i) := by
          rw [← hP]; exact Nat.pow_le_pow_right (by norm_num) (by omega)
        have h1 : 128 * 2 ^ (7 * i) ≤ x * 2 ^ (7 * i) := Nat.mul_le_mul_right _ hx
        have : (2:Nat)^70 < two64 := by omega
        unfold two64 at this; norm_num at this
      simp only [List.cons_append, decodeVarintGo]
      have hi10 : ¬ (i ≥ 10) := by omega
      simp only [hi10, if_false, hb]
      have hmod : (x % 128 + 128) % 128 = x % 128 := by omega
      have hnl : ¬ (x % 128 + 128 < 128) := by omega
      simp only [hmod, hnl, if_false]
      have hu' : (u + x % 128 * 2 ^ (7 * i)) % two64 = u + x % 128 * 2 ^ (7 * i) := by
        apply Nat.mod_eq_of_lt
        have : (x % 128) * 2 ^ (7 * i) ≤ x * 2 ^ (7 * i) := Nat.mul_le_mul_right _ (Nat.mod_le _ _)
        omega
      rw [hu']
      have := ih (x / 128) (by omega) (i + 1) (u + x % 128 * 2 ^ (7 * i)) rest hi' (by rw [hP]; omega)
      rw [this, hP]
      congr 2
      omega
    · rename_i hx
      have hx' : x < 128 := by omega
      have hb : (UInt8.ofNat x).toNat = x := ofNat_toNat_lt (by omega)
      simp only [List.cons_append, List.nil_append, decodeVarintGo]
      have hi10 : ¬ (i ≥ 10) := by omega
      simp only [hi10, if_false, hb, hx', if_true, Nat.mod_eq_of_lt hx']
      rw [Nat.mod_eq_of_lt hlt]

/-- **Varint round trip**: decoding `encodeVarint x` followed by any suffix returns `x` and the suffix. -/
theorem decodeVarint_encodeVarint (x : Nat) (hx : x < two64) (rest : Bytes) :
    decodeVarint (encodeVarint x ++ rest) = .ok (x, rest) := by
  have := decodeVarintGo_encodeVarint x 0 0 rest (by omega) (by simpa using hx)
  simpa [decodeVarint] using this

theorem encodeVarint_ne_nil (x : Nat) : encodeVarint x ≠ [] := by
  rw [encodeVarint]; split <;> simp

end PV.Wire
