import PprofVerif.Lemmas.LegacyMapSection
import PprofVerif.Model.LegacyCount
/-!
Helper lemmas for C14: Go count profiles — `parseGoCount (printCount d) = ok (expectedCount d)`.
Also the `LineOK` facts about memory-map lines shared by all text formats.
-/
namespace PV.Legacy
open PV

/-! ### printed lines contain no newline / carriage return -/
theorem LineOK_nil : LineOK [] := by intro b hb; cases hb
theorem LineOK_cons {c : UInt8} {l : Str} (hc : c.toNat ≠ 10 ∧ c.toNat ≠ 13) (hl : LineOK l) : LineOK (c :: l) := by
  intro b hb
  rcases List.mem_cons.1 hb with rfl | h
  · exact hc
  · exact hl b h
theorem LineOK_sp (n : Nat) : LineOK (sp n) := LineOK_replicate32 n
theorem LineOK_hex (n : Nat) : LineOK (hex n) := by rw [← hexPad_zero]; exact LineOK_hexPad 0 n

theorem LineOK_of_all_isPrint {l : Str} (h : l.all isPrint = true) : LineOK l :=
  LineOK_of_isPrint (by simpa [List.all_eq_true] using h)

theorem LineOK_optField {g : Nat} {o : Option Str} (h : ∀ s, o = some s → LineOK s) : LineOK (optField g o) := by
  cases o with
  | none => exact LineOK_nil
  | some s => exact LineOK_append (LineOK_sp _) (h s rfl)

theorem LineOK_fileOK {f : Str} (h : fileOK f = true) : LineOK f := by
  apply LineOK_of_isPrint
  intro b hb
  simp only [fileOK, Bool.and_eq_true, List.all_eq_true] at h
  exact (h.2 b hb).1.1

theorem LineOK_buildID {s : Str} (h : buildIDOK s = true) : LineOK s := by
  apply LineOK_of_isPrint
  intro b hb
  have := buildIDOK_isXDigit h b hb
  simp only [isXDigit, isHexLower, isDigit, Bool.or_eq_true, decide_eq_true_eq] at this
  simp only [isPrint, decide_eq_true_eq]; omega

theorem LineOK_perm (p : Perm) : LineOK p.print := by cases p <;> decide

theorem LineOK_append_iff (a b : Str) : LineOK (a ++ b) ↔ LineOK a ∧ LineOK b := by
  constructor
  · intro h; exact ⟨fun x hx => h x (by simp [hx]), fun x hx => h x (by simp [hx])⟩
  · intro h; exact LineOK_append h.1 h.2

theorem LineOK_cons_iff (c : UInt8) (l : Str) : LineOK (c :: l) ↔ (c.toNat ≠ 10 ∧ c.toNat ≠ 13) ∧ LineOK l := by
  constructor
  · intro h; exact ⟨h c (by simp), fun x hx => h x (by simp [hx])⟩
  · intro h; exact LineOK_cons h.1 h.2

theorem LineOK_sp_iff (n : Nat) : LineOK (sp n) ↔ True := by simp [LineOK_sp]
theorem LineOK_dec_iff (n : Nat) : LineOK (dec n) ↔ True := by simp [LineOK_dec]
theorem LineOK_hex_iff (n : Nat) : LineOK (hex n) ↔ True := by simp [LineOK_hex]
theorem LineOK_hexPad_iff (w n : Nat) : LineOK (hexPad w n) ↔ True := by simp [LineOK_hexPad]
theorem LineOK_perm_iff (p : Perm) : LineOK p.print ↔ True := by simp [LineOK_perm]
theorem LineOK_printAddrs_iff (w : Nat) (as : List Nat) : LineOK (printAddrs w as) ↔ True := by simp [LineOK_printAddrs]
theorem LineOK_nil_iff : LineOK [] ↔ True := by simp [LineOK_nil]

/-- split a `LineOK` goal over `++`/`::` and discharge the standard pieces. -/
macro "lineok" : tactic =>
  `(tactic| simp only [LineOK_append_iff, LineOK_cons_iff, LineOK_sp_iff, LineOK_dec_iff, LineOK_hex_iff,
      LineOK_hexPad_iff, LineOK_perm_iff, LineOK_printAddrs_iff, LineOK_nil_iff, and_true, true_and])

theorem LineOK_mapEntry {e : MapEntry} (h : e.wf = true) : LineOK e.print := by
  obtain ⟨indent, ox, width, start, limit, gap, form⟩ := e
  simp only [MapEntry.wf, Bool.and_eq_true] at h
  have hpre : LineOK (if ox then asc "0x" else []) := by cases ox <;> decide
  have h45 : LineOK [45] := by decide
  have h58 : LineOK [58] := by decide
  cases form with
  | proc perm off dmaj dmin inode file =>
    have hfile : LineOK (optField gap file) := by
      apply LineOK_optField
      intro s hs; subst hs
      have := h.2; simp only [Bool.and_eq_true, Option.all_some] at this
      exact LineOK_fileOK this.2
    simp only [MapEntry.print]
    lineok
    simp only [hpre, hfile, and_self, and_true, true_and]
    first | done | decide
  | brief colon perm file off bid =>
    have h2 := h.2
    simp only [Bool.and_eq_true] at h2
    obtain ⟨⟨⟨hf, hb⟩, _⟩, _⟩ := h2
    have hcolon : LineOK (if colon then [58] else []) := by cases colon <;> decide
    have hperm : LineOK (optField gap (perm.map Perm.print)) := by
      apply LineOK_optField
      intro s hs
      cases perm with
      | none => simp at hs
      | some p => simp at hs; subst hs; exact LineOK_perm p
    have hfile : LineOK (optField gap file) := by
      apply LineOK_optField
      intro s hs; subst hs; exact LineOK_fileOK (by simpa using hf)
    have hoff : LineOK (optField gap (off.map fun o => asc "(@" ++ hex o ++ asc ")")) := by
      apply LineOK_optField
      intro s hs
      cases off with
      | none => simp at hs
      | some o =>
        simp at hs; subst hs
        have h1 : LineOK (asc "(@") := by decide
        have h2 : LineOK (asc ")") := by decide
        lineok
        exact ⟨h1, h2⟩
    have hbid : LineOK (optField gap bid) := by
      apply LineOK_optField
      intro s hs; subst hs; exact LineOK_buildID (by simpa using hb)
    simp only [MapEntry.print]
    lineok
    simp only [hpre, hcolon, hperm, hfile, hoff, hbid, and_self, and_true, true_and]
    first | done | decide

theorem LineOK_fillers {fs : List Filler} (h : fs.all Filler.wf = true) : ∀ l ∈ printFillers fs, LineOK l := by
  intro l hl
  simp only [printFillers, List.mem_map] at hl
  obtain ⟨f, hf, rfl⟩ := hl
  exact LineOK_filler (by simpa using (List.all_eq_true.1 h) f hf)

theorem LineOK_optLog {log : Option LogPrefix} (h : log.all LogPrefix.wf = true) : LineOK (optLog log) := by
  cases log with
  | none => exact LineOK_nil
  | some p =>
    simp only [Option.all_some, LogPrefix.wf, Bool.and_eq_true, List.all_eq_true] at h
    have ht : LineOK p.text := LineOK_of_isPrint (fun b hb => (h.2 b hb).1)
    simp only [optLog, LogPrefix.print]
    lineok
    exact ⟨ht, by decide⟩

theorem LineOK_word {n : Str} (h : ∀ b ∈ n, isWord b = true) : LineOK n := by
  apply LineOK_of_isPrint
  intro b hb
  have := h b hb
  simp only [isWord, isDigit, Bool.or_eq_true, decide_eq_true_eq, beq_iff_eq] at this
  simp only [isPrint, decide_eq_true_eq]; omega

theorem LineOK_mapLine {env : MapEnv} {l : MapLine} (h : l.wfIn env = true) : LineOK l.print := by
  cases l with
  | entry log e =>
    simp only [MapLine.wfIn, Bool.and_eq_true] at h
    exact LineOK_append (LineOK_optLog h.1.1) (LineOK_mapEntry h.1.2)
  | entryRef log e name suffix =>
    simp only [MapLine.wfIn, Bool.and_eq_true] at h
    obtain ⟨⟨⟨⟨hlog, hn⟩, _⟩, _⟩, hres⟩ := h
    cases hq : env.lookup name with
    | none => simp [hq] at hres
    | some v =>
      simp only [hq] at hres
      have hall := LineOK_mapEntry hres
      rw [e.withFile_print] at hall
      simp only [LineOK_append_iff] at hall
      obtain ⟨hpre, hsp, ⟨_, hsfx⟩, hpost⟩ := hall
      simp only [MapLine.print]
      rw [e.withFile_print]
      have hname : LineOK name := LineOK_word (attrNameOK_word hn)
      lineok
      exact ⟨LineOK_optLog hlog, hpre, ⟨by decide, hname, hsfx⟩, hpost⟩
  | attr log indent name spaced value =>
    simp only [MapLine.wfIn, Bool.and_eq_true] at h
    obtain ⟨⟨⟨⟨hlog, hn⟩, hv⟩, _⟩, _⟩ := h
    simp only [attrValueOK, Bool.and_eq_true, List.all_eq_true] at hv
    have hname : LineOK name := LineOK_word (attrNameOK_word hn)
    have hval : LineOK value := LineOK_of_isPrint (fun b hb => (hv.2 b hb).1.1)
    have heq : LineOK (if spaced then asc " = " else asc "=") := by cases spaced <;> decide
    simp only [MapLine.print]
    lineok
    exact ⟨LineOK_optLog hlog, hname, heq, hval⟩

theorem LineOK_wfLines {env : MapEnv} {es : List (List Filler × MapLine)} (h : wfLines env es = true) :
    ∀ p ∈ es, (∀ l ∈ printFillers p.1, LineOK l) ∧ LineOK p.2.print := by
  induction es generalizing env with
  | nil => intro p hp; cases hp
  | cons q es ih =>
    simp only [wfLines, Bool.and_eq_true] at h
    intro p hp
    rcases List.mem_cons.1 hp with rfl | hp
    · exact ⟨LineOK_fillers h.1.1, LineOK_mapLine h.1.2⟩
    · exact ih h.2 p hp

theorem LineOK_bodyLines {m : MapSection} (h : m.wf = true) : ∀ l ∈ m.bodyLines, LineOK l := by
  intro l hl
  simp only [MapSection.wf, Bool.and_eq_true] at h
  simp only [MapSection.bodyLines, List.mem_append, List.mem_flatMap] at hl
  rcases hl with ⟨p, hp, hl⟩ | hl
  · have := LineOK_wfLines h.1 p hp
    rcases hl with hl | hl
    · exact this.1 l hl
    · simp at hl; subst hl; exact this.2
  · exact LineOK_fillers h.2 l hl

theorem LineOK_tailLines {sentinel : Str} (hs : LineOK sentinel) {map : Option MapSection}
    (h : ∀ m, map = some m → m.wf = true) : ∀ l ∈ tailLines sentinel map, LineOK l := by
  intro l hl
  cases map with
  | none => simp [tailLines] at hl
  | some m =>
    simp only [tailLines, List.mem_cons] at hl
    rcases hl with rfl | hl
    · exact hs
    · exact LineOK_bodyLines (h m rfl) l hl

theorem LineOK_sentinelMemoryMap : LineOK sentinelMemoryMap := by decide
theorem LineOK_sentinelMappedLibraries : LineOK sentinelMappedLibraries := by decide


/-! ### count profiles -/
theorem skipLeadingFillers_fillers (fs : List Filler) (l : Str) (rest : List Str) (hl : isSpaceOrComment l = false) :
    skipLeadingFillers (printFillers fs ++ l :: rest) = (l, rest) := by
  induction fs with
  | nil => simp [printFillers, skipLeadingFillers, hl]
  | cons f fs ih => simpa [printFillers, skipLeadingFillers, isSpaceOrComment_filler] using ih

theorem countNameOK_cons {name : Str} (h : countNameOK name = true) :
    ∃ c t, name = c :: t ∧ isSpace c = false ∧ c.toNat ≠ 35 := by
  cases name with
  | nil => simp [countNameOK] at h
  | cons c t =>
    simp only [countNameOK, Bool.and_eq_true, List.all_eq_true, bne_iff_ne, ne_eq] at h
    refine ⟨c, t, rfl, ?_, h.2⟩
    have := h.1 c (by simp)
    simp only [isPrint, decide_eq_true_eq] at this
    simp only [isSpace, isReSpace, Bool.or_eq_false_iff, beq_eq_false_iff_ne]
    omega

theorem countNameOK_nonspace {name : Str} (h : countNameOK name = true) : ∀ b ∈ name, (!isReSpace b) = true := by
  intro b hb
  simp only [countNameOK, Bool.and_eq_true, List.all_eq_true, bne_iff_ne, ne_eq] at h
  have := h.1 b hb
  simp only [isPrint, decide_eq_true_eq] at this
  simp only [isReSpace, Bool.not_eq_true', Bool.or_eq_false_iff, beq_eq_false_iff_ne]
  omega

theorem matchCountStart_header (d : CountDoc) (h : countNameOK d.name = true) : matchCountStart d.headerLine = some d.name := by
  obtain ⟨c, t, hn, _, _⟩ := countNameOK_cons h
  have hS : Stops (fun b => !isReSpace b) (asc " profile: total " ++ dec d.total) :=
    Stops_append_of_ne_nil (by decide) (Stops_of_stopsB (by decide))
  have e : d.headerLine = d.name ++ (asc " profile: total " ++ dec d.total) := by simp [CountDoc.headerLine]
  unfold matchCountStart
  rw [e, takeWhile_append_stops (countNameOK_nonspace h) hS, dropWhile_append_stops (countNameOK_nonspace h) hS,
    stripPrefix_append]
  have h1 : d.name.isEmpty = false := by rw [hn]; rfl
  have h2 : (dec d.total != []) = true := by simp [dec_ne_nil]
  have h3 : (dec d.total).all isDigit = true := by simpa [List.all_eq_true] using dec_isDigit d.total
  simp [h1, h2, h3]

theorem headerLine_not_filler (d : CountDoc) (h : countNameOK d.name = true) : isSpaceOrComment d.headerLine = false := by
  obtain ⟨c, t, hn, h1, h2⟩ := countNameOK_cons h
  have : d.headerLine = c :: (t ++ (asc " profile: total " ++ dec d.total)) := by simp [CountDoc.headerLine, hn]
  rw [this]; exact isSpaceOrComment_head' _ h1 h2

theorem fieldsAux_word (wd rest cur : Str) (h : ∀ b ∈ wd, isSpace b = false) :
    fieldsAux (wd ++ rest) cur = fieldsAux rest (wd.reverse ++ cur) := by
  induction wd generalizing cur with
  | nil => rfl
  | cons b wd ih =>
    simp only [List.cons_append, fieldsAux, h b (by simp), Bool.false_eq_true, if_false]
    rw [ih (b :: cur) (fun x hx => h x (by simp [hx]))]
    simp

theorem hex0x_nonspace (w a : Nat) : ∀ b ∈ hex0x w a, isSpace b = false := by
  intro b hb
  simp only [hex0x, List.mem_cons] at hb
  rcases hb with rfl | rfl | hb
  · decide
  · decide
  · exact isSpace_false_of_isHexLower (hexPad_isHexLower w a b hb)

theorem fieldsAux_printAddrs (w : Nat) (as : List Nat) (cur : Str) :
    fieldsAux (printAddrs w as) cur = (if cur.isEmpty then [] else [cur.reverse]) ++ as.map (hex0x w) := by
  induction as generalizing cur with
  | nil => simp [printAddrs, fieldsAux]
  | cons a as ih =>
    have e : printAddrs w (a :: as) = 32 :: (hex0x w a ++ printAddrs w as) := by simp [printAddrs]
    have hne : ((hex0x w a).reverse ++ []).isEmpty = false := by simp [hex0x]
    have hne2 : hex0x w a ≠ [] := by simp [hex0x]
    rw [e]
    simp only [fieldsAux, isSpace_32, if_true]
    split <;> simp [fieldsAux_word _ _ _ (hex0x_nonspace w a), ih, hne, hne2]

theorem fields_printAddrs (w : Nat) (as : List Nat) : fields (printAddrs w as) = as.map (hex0x w) := by
  simp [fields, fieldsAux_printAddrs]

theorem isAddrWord_hex0x (w a : Nat) : isAddrWord (hex0x w a) = true := by
  have : hex0x w a = asc "0x" ++ hexPad w a := rfl
  unfold isAddrWord
  rw [this, stripPrefix_append]
  have h1 : (hexPad w a != []) = true := by simp [hexPad_ne_nil]
  have h2 : (hexPad w a).all isHexLower = true := by simpa [List.all_eq_true] using hexPad_isHexLower w a
  simp [h1, h2]

theorem parseAddrWords_map (w : Nat) (as : List Nat) (h : ∀ a ∈ as, a < two64) :
    parseAddrWords (as.map (hex0x w)) = some (as.map decr64) := by
  induction as with
  | nil => rfl
  | cons a as ih =>
    simp only [List.map_cons, parseAddrWords, parseU64Base0_hex0x (h a (by simp)), ih (fun x hx => h x (by simp [hx]))]
    rfl

theorem CountRec.print_eq (w : Nat) (r : CountRec) : r.print w = dec r.n ++ (asc " @" ++ printAddrs w r.addrs) := by
  simp [CountRec.print]

theorem matchCountLine_print (w : Nat) (r : CountRec) (hne : r.addrs ≠ []) :
    matchCountLine (r.print w) = some (dec r.n, r.addrs.map (hex0x w)) := by
  have hS : Stops isDigit (asc " @" ++ printAddrs w r.addrs) := Stops_append_of_ne_nil (by decide) (Stops_of_stopsB (by decide))
  unfold matchCountLine
  rw [CountRec.print_eq, takeWhile_append_stops (dec_isDigit r.n) hS, dropWhile_append_stops (dec_isDigit r.n) hS,
    stripPrefix_append]
  dsimp only
  rw [fields_printAddrs]
  have h1 : (dec r.n).isEmpty = false := isEmpty_false_of_ne_nil (dec_ne_nil _)
  have h2 : (List.map (hex0x w) r.addrs != []) = true := by simp [hne]
  have h3 : (List.map (hex0x w) r.addrs).all isAddrWord = true := by
    simp only [List.all_eq_true, List.mem_map]
    rintro _ ⟨a, _, rfl⟩; exact isAddrWord_hex0x w a
  have h4 : (printAddrs w r.addrs == (List.map (hex0x w) r.addrs).flatMap (fun w => 32 :: w)) = true := by
    simp [printAddrs, List.flatMap_map]
  simp [h1, h2, h3, h4]

theorem hasPrefix_dashes_of_digit {c : UInt8} (t : Str) (h : isDigit c = true) : hasPrefix (asc "---") (c :: t) = false := by
  have : (45 : UInt8) ≠ c := fun e => ne45_of_isDigit h e.symm
  simp [hasPrefix, asc, stripPrefix, this]

theorem countLoop_fillers (fs : List Filler) (R : List Str) (acc : List RawSample) :
    countLoop (printFillers fs ++ R) acc = countLoop R acc := by
  induction fs with
  | nil => rfl
  | cons f fs ih => simpa [printFillers, countLoop, isSpaceOrComment_filler] using ih

theorem countLoop_rec (w : Nat) (r : CountRec) (hr : r.wf = true) (R : List Str) (acc : List RawSample) :
    countLoop (r.print w :: R) acc = countLoop R (r.sample :: acc) := by
  simp only [CountRec.wf, Bool.and_eq_true, decide_eq_true_eq, bne_iff_ne, ne_eq, List.all_eq_true] at hr
  obtain ⟨⟨⟨_, hn⟩, hne⟩, hlt⟩ := hr
  obtain ⟨c, t, hd, hc⟩ := dec_cons r.n
  have e : r.print w = c :: (t ++ (asc " @" ++ printAddrs w r.addrs)) := by rw [CountRec.print_eq, hd]; simp
  have h1 : isSpaceOrComment (r.print w) = false := by
    rw [e]; exact isSpaceOrComment_head' _ (isSpace_false_of_isDigit hc) (ne35_of_isDigit hc)
  have h2 : hasPrefix (asc "---") (r.print w) = false := by rw [e]; exact hasPrefix_dashes_of_digit _ hc
  rw [countLoop]
  simp only [h1, h2, Bool.false_eq_true, if_false, matchCountLine_print w r hne, parseI64Base0_dec hn,
    parseAddrWords_map w r.addrs hlt, CountRec.sample]

theorem countLoop_recs (w : Nat) (rs : List CountRec) (h : ∀ r ∈ rs, r.wf = true) (R : List Str) (acc : List RawSample) :
    countLoop (rs.flatMap (fun r => printFillers r.fill ++ [r.print w]) ++ R) acc
      = countLoop R ((rs.map CountRec.sample).reverse ++ acc) := by
  induction rs generalizing acc with
  | nil => rfl
  | cons r rs ih =>
    simp only [List.flatMap_cons, List.append_assoc, countLoop_fillers, List.singleton_append, List.cons_append,
      List.nil_append]
    rw [countLoop_rec w r (h r (by simp)), ih (fun x hx => h x (by simp [hx]))]
    simp

theorem countLoop_tail (map : Option MapSection) (acc : List RawSample) :
    countLoop (tailLines sentinelMemoryMap map) acc =
      .ok (acc.reverse, (match tailLines sentinelMemoryMap map with | [] => [] | c :: _ => c),
                        (match tailLines sentinelMemoryMap map with | [] => [] | _ :: r => r)) := by
  cases map with
  | none => simp [tailLines, countLoop]
  | some m =>
    have h1 : isSpaceOrComment sentinelMemoryMap = false := by decide
    have h2 : hasPrefix (asc "---") sentinelMemoryMap = true := by decide
    simp [tailLines, countLoop, h1, h2]

theorem CountDoc.lines_ok (d : CountDoc) (h : d.wf = true) : ∀ l ∈ d.lines, LineOK l := by
  simp only [CountDoc.wf, Bool.and_eq_true, List.all_eq_true] at h
  obtain ⟨⟨⟨⟨hpre, hname⟩, hrecs⟩, hpost⟩, hmap⟩ := h
  have hmap' : ∀ m, d.map = some m → m.wf = true := by
    intro m hm; rw [hm] at hmap; exact hmap
  intro l hl
  simp only [CountDoc.lines, CountDoc.recLines, List.mem_append, List.mem_singleton, List.mem_flatMap] at hl
  rcases hl with (((hl | hl) | ⟨r, hr, hl⟩) | hl) | hl
  · exact LineOK_fillers (List.all_eq_true.2 hpre) l hl
  · subst hl
    have hn : LineOK d.name := by
      apply LineOK_of_isPrint
      intro b hb
      simp only [countNameOK, Bool.and_eq_true, List.all_eq_true] at hname
      exact (hname.1 b hb).1
    have hlit : LineOK (asc " profile: total ") := by decide
    simp only [CountDoc.headerLine]
    lineok
    exact ⟨hn, hlit⟩
  · have hw := hrecs r hr
    simp only [CountRec.wf, Bool.and_eq_true, List.all_eq_true] at hw
    rcases hl with hl | hl
    · exact LineOK_fillers (List.all_eq_true.2 hw.1.1.1) l hl
    · subst hl
      have hlit : LineOK (asc " @") := by decide
      simp only [CountRec.print]
      lineok
      exact hlit
  · exact LineOK_fillers (List.all_eq_true.2 hpost) l hl
  · exact LineOK_tailLines LineOK_sentinelMemoryMap hmap' l hl

theorem splitLines_printCount (d : CountDoc) (h : d.wf = true) : splitLines (printCount d) = d.lines :=
  splitLines_unlines _ (d.lines_ok h)

theorem parseGoCount_printCount (d : CountDoc) (h : d.wf = true) : parseGoCount (printCount d) = .ok (expectedCount d) := by
  have hlines := splitLines_printCount d h
  simp only [CountDoc.wf, Bool.and_eq_true, List.all_eq_true] at h
  obtain ⟨⟨⟨⟨hpre, hname⟩, hrecs⟩, hpost⟩, hmap⟩ := h
  have hmap' : ∀ m, d.map = some m → m.wf = true := by
    intro m hm; rw [hm] at hmap; exact hmap
  unfold parseGoCount
  rw [hlines]
  unfold parseGoCountLines CountDoc.lines
  simp only [List.append_assoc, List.singleton_append, List.cons_append]
  rw [skipLeadingFillers_fillers _ _ _ (headerLine_not_filler d hname)]
  simp only [matchCountStart_header d hname, CountDoc.recLines, List.nil_append]
  rw [countLoop_recs d.width d.recs hrecs, countLoop_fillers, countLoop_tail]
  simp only [List.append_nil, List.reverse_reverse, expectedCount]
  have := parseAdditionalSections_tail sentinelMemoryMap isMemoryMapSentinel_memoryMap d.map hmap'
  cases hq : tailLines sentinelMemoryMap d.map with
  | nil => rw [hq] at this; simp only [this]
  | cons c r => rw [hq] at this; simp only [this]

end PV.Legacy
