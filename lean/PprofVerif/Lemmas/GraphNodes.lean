import PprofVerif.Lemmas.GraphFold
namespace PV.Graph
open PV.GSpec
variable {κ : Type} [DecidableEq κ]

@[simp] theorem ind_zero (c : Prop) [Decidable c] : ind c (0 : WD) = 0 := by unfold ind; split <;> rfl

/-! ### sums over samples -/
@[simp] theorem sumOver_nil (c : GSample κ → Bool) : sumOver ([] : List (GSample κ)) c = 0 := rfl
theorem sumOver_cons (s : GSample κ) (ss : List (GSample κ)) (c : GSample κ → Bool) :
    sumOver (s :: ss) c = ind (c s = true) s.wd + sumOver ss c := by
  unfold sumOver
  by_cases h : c s = true
  · simp [List.filter_cons, h, sumWD]
  · simp [List.filter_cons, h]
theorem sumOver_map_restrict (K : κ → Bool) (ss : List (GSample κ)) (c : GSample κ → Bool) :
    sumOver (ss.map (restrict K)) c = sumOver ss (fun s => c (restrict K s)) := by
  induction ss with
  | nil => rfl
  | cons s ss ih =>
    rw [List.map_cons, sumOver_cons, sumOver_cons, ih]
    rfl
theorem sumOver_congr (ss : List (GSample κ)) (c c' : GSample κ → Bool)
    (h : ∀ s ∈ ss, s.wd ≠ 0 → c s = c' s) : sumOver ss c = sumOver ss c' := by
  induction ss with
  | nil => rfl
  | cons s ss ih =>
    rw [sumOver_cons, sumOver_cons, ih (fun t ht => h t (List.mem_cons_of_mem _ ht))]
    by_cases h0 : s.wd = 0
    · simp [h0]
    · rw [h s (List.mem_cons_self) h0]

theorem wd_zero_of_skip (s : GSample κ) (h : (s.d == 0 && s.w == 0) = true) : s.wd = 0 := by
  simp at h
  exact WD.ext' h.2 h.1

/-! ### one sample -/
theorem sampleStep_cum (K : κ → Bool) (g : GState κ) (s : GSample κ) (m : κ) :
    (sampleStep K g s).cum m = g.cum m + ind (m ∈ s.frames ∧ K m = true) s.wd := by
  unfold sampleStep
  by_cases hs : (s.d == 0 && s.w == 0) = true
  · simp [hs, wd_zero_of_skip s hs]
  · simp only [hs]
    have h := foldFrames_cum K s.wd s.frames ⟨g, [], [], none, false⟩ m
    simp at h
    generalize List.foldl (stepFrame K s.wd) ⟨g, [], [], none, false⟩ s.frames = r at h
    cases hp : r.parent with
    | none => simpa [hp] using h
    | some p =>
      cases hr : r.residual <;> simpa [hp, hr] using h

theorem sampleStep_flat (K : κ → Bool) (g : GState κ) (s : GSample κ) (m : κ) :
    (sampleStep K g s).flat m = g.flat m + ind (K m = true ∧ s.frames.getLast? = some m) s.wd := by
  unfold sampleStep
  by_cases hs : (s.d == 0 && s.w == 0) = true
  · simp [hs, wd_zero_of_skip s hs]
  · simp only [hs]
    rcases List.eq_nil_or_concat s.frames with hnil | ⟨fs, x, hx⟩
    · simp [hnil]
    · rw [hx, List.concat_eq_append]
      have hl := foldFrames_last K s.wd fs x ⟨g, [], [], none, false⟩
      have hf := foldFrames_flat K s.wd (fs ++ [x]) ⟨g, [], [], none, false⟩ m
      generalize List.foldl (stepFrame K s.wd) ⟨g, [], [], none, false⟩ (fs ++ [x]) = r at hl hf
      simp at hf
      by_cases hk : K x = true
      · have hp := hl.2 hk
        have hr := hl.1
        simp [hk] at hr
        by_cases hxm : x = m
        · subst hxm; simp [hp, hr, hk, hf]
        · have : ¬ m = x := fun h => hxm h.symm
          simp [hp, hr, hk, hf, hxm, this]
      · have hr := hl.1
        simp [hk] at hr
        have hkm : ¬ (K m = true ∧ x = m) := fun ⟨h1, h2⟩ => hk (h2 ▸ h1)
        cases hp : r.parent with
        | none => simp [hf, hkm]
        | some p => simp [hr, hf, hkm]

/-! ### all samples -/
theorem foldSamples_cum (K : κ → Bool) (ss : List (GSample κ)) : ∀ (g : GState κ) (m : κ),
    (ss.foldl (sampleStep K) g).cum m = g.cum m + cumSpecK K ss m := by
  induction ss with
  | nil => intro g m; simp [cumSpecK, cumSpec]
  | cons s ss ih =>
    intro g m
    rw [List.foldl_cons, ih, sampleStep_cum]
    unfold cumSpecK cumSpec at *
    rw [sumOver_map_restrict, sumOver_map_restrict, sumOver_cons, WD.add_assoc]
    congr 2
    simp [restrict, List.mem_filter]

theorem foldSamples_flat (K : κ → Bool) (ss : List (GSample κ)) : ∀ (g : GState κ) (m : κ),
    (ss.foldl (sampleStep K) g).flat m = g.flat m + flatSpecK K ss m := by
  induction ss with
  | nil => intro g m; simp [flatSpecK]
  | cons s ss ih =>
    intro g m
    rw [List.foldl_cons, ih, sampleStep_flat]
    unfold flatSpecK
    rw [sumOver_cons, WD.add_assoc]
    congr 2
    simp

@[simp] theorem empty_cum (m : κ) : (GState.empty : GState κ).cum m = 0 := rfl
@[simp] theorem empty_flat (m : κ) : (GState.empty : GState κ).flat m = 0 := rfl

theorem newGraph_cum (K : κ → Bool) (ss : List (GSample κ)) (n : κ) :
    (newGraph K ss).cum n = cumSpecK K ss n := by
  unfold newGraph; rw [foldSamples_cum]; simp
theorem newGraph_flat (K : κ → Bool) (ss : List (GSample κ)) (n : κ) :
    (newGraph K ss).flat n = flatSpecK K ss n := by
  unfold newGraph; rw [foldSamples_flat]; simp
end PV.Graph
