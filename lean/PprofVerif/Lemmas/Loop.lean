import PprofVerif.Lemmas.Field
/-!
The message decoding loop (`decodeMessage` in proto.go), fuel independence, and the
`Decodes bs fs` relation: "the byte string `bs`, in front of any suffix, is consumed by the
loop as exactly the wire fields `fs`".  `Decodes` composes under `++`, which reduces every
message round trip to a pure computation over field lists.
-/
namespace PV.Wire

/-! ### the loop consumes input: fuel is never exhausted -/

theorem decodeVarintGo_length (data : Bytes) : ∀ (i u v : Nat) (rest : Bytes),
    decodeVarintGo i u data = .ok (v, rest) → rest.length < data.length := by
  induction data with
  | nil => intro i u v rest h; simp [decodeVarintGo] at h
  | cons b bs ih =>
    intro i u v rest h
    simp only [decodeVarintGo] at h
    split at h
    · simp at h
    · split at h
      · simp only [Outcome.ok.injEq, Prod.mk.injEq] at h
        obtain ⟨_, rfl⟩ := h; simp
      · have := ih _ _ _ _ h
        simp only [List.length_cons]; omega

theorem decodeVarint_length {data : Bytes} {v : Nat} {rest : Bytes}
    (h : decodeVarint data = .ok (v, rest)) : rest.length < data.length :=
  decodeVarintGo_length data 0 0 v rest h

theorem decodeField_length {data : Bytes} {f : Field} {rest : Bytes}
    (h : decodeField data = .ok (f, rest)) : rest.length < data.length := by
  unfold decodeField at h
  cases h1 : decodeVarint data with
  | err e => simp [h1, bind, Outcome.bind] at h
  | panic s => simp [h1, bind, Outcome.bind] at h
  | ok p =>
    obtain ⟨x, d1⟩ := p
    have l1 := decodeVarint_length h1
    simp only [h1, bind, Outcome.bind] at h
    split at h
    · cases h2 : decodeVarint d1 with
      | err e => simp [h2, Outcome.bind] at h
      | panic s => simp [h2, Outcome.bind] at h
      | ok q =>
        obtain ⟨u, d2⟩ := q
        have l2 := decodeVarint_length h2
        simp only [h2, Outcome.bind, pure, Outcome.ok.injEq, Prod.mk.injEq] at h
        obtain ⟨_, rfl⟩ := h; omega
    · split at h
      · simp at h
      · simp only [pure, Outcome.ok.injEq, Prod.mk.injEq] at h
        obtain ⟨_, rfl⟩ := h; simp only [List.length_drop]; omega
    · cases h2 : decodeVarint d1 with
      | err e => simp [h2, Outcome.bind] at h
      | panic s => simp [h2, Outcome.bind] at h
      | ok q =>
        obtain ⟨n, d2⟩ := q
        have l2 := decodeVarint_length h2
        simp only [h2, Outcome.bind] at h
        split at h
        · simp at h
        · simp only [pure, Outcome.ok.injEq, Prod.mk.injEq] at h
          obtain ⟨_, rfl⟩ := h; simp only [List.length_drop]; omega
    · split at h
      · simp at h
      · simp only [pure, Outcome.ok.injEq, Prod.mk.injEq] at h
        obtain ⟨_, rfl⟩ := h; simp only [List.length_drop]; omega
    · simp at h

/-- The loop's result does not depend on the fuel once it covers the input length; in
particular the "out of fuel" branch of the model is unreachable from `decodeMessage`. -/
theorem decodeLoop_fuel {M : Type} (apply : M → Field → Outcome M) :
    ∀ (n : Nat) (data : Bytes) (m : M) (f1 f2 : Nat), data.length ≤ n → data.length ≤ f1 → data.length ≤ f2 →
      decodeLoop apply f1 m data = decodeLoop apply f2 m data := by
  intro n
  induction n with
  | zero =>
    intro data m f1 f2 hn _ _
    have : data = [] := List.length_eq_zero_iff.mp (by omega)
    subst this; cases f1 <;> cases f2 <;> rfl
  | succ n ih =>
    intro data m f1 f2 hn h1 h2
    cases data with
    | nil => cases f1 <;> cases f2 <;> rfl
    | cons b bs =>
      cases f1 with
      | zero => simp at h1
      | succ f1 =>
        cases f2 with
        | zero => simp at h2
        | succ f2 =>
          simp only [decodeLoop]
          cases hd : decodeField (b :: bs) with
          | err e => rfl
          | panic s => rfl
          | ok p =>
            obtain ⟨f, rest⟩ := p
            have hl := decodeField_length hd
            simp only [List.length_cons] at hl hn h1 h2
            dsimp only
            cases apply m f with
            | err e => rfl
            | panic s => rfl
            | ok m' => exact ih rest m' f1 f2 (by omega) (by omega) (by omega)

/-- fuel-free view of the loop -/
def decodeAll {M : Type} (apply : M → Field → Outcome M) (m : M) (data : Bytes) : Outcome M :=
  decodeLoop apply data.length m data

theorem decodeLoop_eq_decodeAll {M : Type} (apply : M → Field → Outcome M) (m : M) (data : Bytes)
    (fuel : Nat) (h : data.length ≤ fuel) : decodeLoop apply fuel m data = decodeAll apply m data :=
  decodeLoop_fuel apply data.length data m fuel data.length (Nat.le_refl _) h (Nat.le_refl _)

/-- applying a list of already decoded fields, stopping at the first failure -/
def applyAll {M : Type} (apply : M → Field → Outcome M) (m : M) : List Field → Outcome M
  | [] => .ok m
  | f :: fs =>
    match apply m f with
    | .ok m' => applyAll apply m' fs
    | .err e => .err e
    | .panic s => .panic s

theorem applyAll_append {M : Type} (apply : M → Field → Outcome M) (m : M) (a b : List Field) :
    applyAll apply m (a ++ b) =
      match applyAll apply m a with
      | .ok m' => applyAll apply m' b
      | .err e => .err e
      | .panic s => .panic s := by
  induction a generalizing m with
  | nil => rfl
  | cons f fs ih =>
    simp only [List.cons_append, applyAll]
    cases apply m f with
    | ok m' => exact ih m'
    | err e => rfl
    | panic s => rfl

/-- `bs` is consumed by the decoding loop as exactly the fields `fs`, whatever follows. -/
def Decodes (bs : Bytes) (fs : List Field) : Prop :=
  ∀ (M : Type) (apply : M → Field → Outcome M) (m : M) (rest : Bytes),
    decodeAll apply m (bs ++ rest) =
      match applyAll apply m fs with
      | .ok m' => decodeAll apply m' rest
      | .err e => .err e
      | .panic s => .panic s

theorem Decodes.nil : Decodes [] [] := by
  intro M apply m rest; rfl

theorem Decodes.append {a b : Bytes} {fa fb : List Field} (ha : Decodes a fa) (hb : Decodes b fb) :
    Decodes (a ++ b) (fa ++ fb) := by
  intro M apply m rest
  rw [List.append_assoc, ha M apply m (b ++ rest), applyAll_append]
  cases applyAll apply m fa with
  | ok m' => exact hb M apply m' rest
  | err e => rfl
  | panic s => rfl

/-- one encoded field -/
theorem Decodes.single {bs : Bytes} {f : Field} (hne : bs ≠ [])
    (h : ∀ rest, decodeField (bs ++ rest) = .ok (f, rest)) : Decodes bs [f] := by
  intro M apply m rest
  cases bs with
  | nil => exact absurd rfl hne
  | cons b bs' =>
    have hd := h rest
    have hl := decodeField_length hd
    unfold decodeAll
    simp only [List.cons_append, List.length_cons, decodeLoop]
    simp only [List.cons_append] at hd
    rw [hd]
    simp only [applyAll]
    cases apply m f with
    | err e => rfl
    | panic s => rfl
    | ok m' =>
      simp only [List.cons_append, List.length_cons] at hl
      exact decodeLoop_eq_decodeAll apply m' rest _ (by omega)

theorem Decodes.flatMap {α : Type} (enc : α → Bytes) (fld : α → List Field)
    (h : ∀ a, Decodes (enc a) (fld a)) : ∀ (l : List α), Decodes (l.flatMap enc) (l.flatMap fld)
  | [] => Decodes.nil
  | a :: l => by
    simp only [List.flatMap_cons]
    exact Decodes.append (h a) (Decodes.flatMap enc fld h l)

/-- a whole message body: decoding it from scratch applies exactly its fields -/
theorem Decodes.decodeAll_eq {bs : Bytes} {fs : List Field} (h : Decodes bs fs)
    {M : Type} (apply : M → Field → Outcome M) (m : M) :
    decodeAll apply m bs = applyAll apply m fs := by
  have := h M apply m []
  rw [List.append_nil] at this
  rw [this]
  cases applyAll apply m fs <;> rfl

end PV.Wire
