import PprofVerif.Lemmas.LegacyBase
import PprofVerif.Model.LegacyMap
/-!
Helper lemmas for C14: memory-map sections — `parseMappingEntry (print e)`, `parseProcMaps` of a
printed section, sentinels.
-/
namespace PV.Legacy
open PV

/-! ### substrings and sentinels -/
theorem stripPrefix_eq_some {l s r : Str} (h : stripPrefix l s = some r) : s = l ++ r := by
  induction l generalizing s with
  | nil => simp at h; simp [h]
  | cons a l ih =>
    cases s with
    | nil => simp [stripPrefix] at h
    | cons b s =>
      simp only [stripPrefix] at h
      split at h
      · rename_i hab
        have : a = b := by simpa using hab
        subst this
        simp [ih h]
      · cases h

theorem hasPrefix_mem {l s : Str} (h : hasPrefix l s = true) : ∀ c ∈ l, c ∈ s := by
  unfold hasPrefix at h
  cases hq : stripPrefix l s with
  | none => simp [hq] at h
  | some r => intro c hc; rw [stripPrefix_eq_some hq]; simp [hc]

theorem containsSub_mem {l s : Str} (h : containsSub l s = true) (hl : l ≠ []) : ∀ c ∈ l, c ∈ s := by
  induction s with
  | nil =>
    simp only [containsSub] at h
    cases l with
    | nil => exact absurd rfl hl
    | cons _ _ => simp at h
  | cons b s ih =>
    simp only [containsSub, Bool.or_eq_true] at h
    rcases h with h | h
    · exact hasPrefix_mem h
    · intro c hc; exact List.mem_cons_of_mem _ (ih h c hc)

theorem not_sentinel_of_no_colon {s : Str} (h : (58 : UInt8) ∉ s) : isMemoryMapSentinel s = false := by
  unfold isMemoryMapSentinel
  have h1 : containsSub sentinelMemoryMap s = false := by
    cases hq : containsSub sentinelMemoryMap s with
    | false => rfl
    | true => exact absurd (containsSub_mem hq (by decide) 58 (by decide)) h
  have h2 : containsSub sentinelMappedLibraries s = false := by
    cases hq : containsSub sentinelMappedLibraries s with
    | false => rfl
    | true => exact absurd (containsSub_mem hq (by decide) 58 (by decide)) h
  simp [h1, h2]

theorem not_sentinel_of_no_M {s : Str} (h : (77 : UInt8) ∉ s) : isMemoryMapSentinel s = false := by
  unfold isMemoryMapSentinel
  have h1 : containsSub sentinelMemoryMap s = false := by
    cases hq : containsSub sentinelMemoryMap s with
    | false => rfl
    | true => exact absurd (containsSub_mem hq (by decide) 77 (by decide)) h
  have h2 : containsSub sentinelMappedLibraries s = false := by
    cases hq : containsSub sentinelMappedLibraries s with
    | false => rfl
    | true => exact absurd (containsSub_mem hq (by decide) 77 (by decide)) h
  simp [h1, h2]

theorem isMemoryMapSentinel_memoryMap : isMemoryMapSentinel sentinelMemoryMap = true := by decide
theorem isMemoryMapSentinel_mappedLibraries : isMemoryMapSentinel sentinelMappedLibraries = true := by decide

theorem filler_no_colon {f : Filler} (h : f.wf = true) : (58 : UInt8) ∉ f.print := by
  unfold Filler.print
  intro hm
  rcases List.mem_append.1 hm with hm | hm
  · rw [List.mem_replicate] at hm; exact absurd hm.2 (by decide)
  · cases hc : f.comment with
    | none => simp [hc] at hm
    | some t =>
      simp only [hc, List.mem_cons] at hm
      rcases hm with hm | hm
      · exact absurd hm (by decide)
      · simp only [Filler.wf, hc, commentOK, List.all_eq_true, Bool.and_eq_true] at h
        have := (h 58 hm).1.1.2
        exact absurd this (by decide)

theorem filler_not_sentinel {f : Filler} (h : f.wf = true) : isMemoryMapSentinel f.print = false :=
  not_sentinel_of_no_colon (filler_no_colon h)

/-! ### field scanners -/
theorem sp_all_reSpace (n : Nat) : ∀ b ∈ sp n, isReSpace b = true := by
  intro b hb; simp only [sp, List.mem_replicate] at hb; rw [hb.2]; decide

theorem skipReSpace_sp (n : Nat) (r : Str) (h : Stops isReSpace r) : skipReSpace (sp n ++ r) = r :=
  dropWhile_append_stops (sp_all_reSpace n) h

/-- a present optional field -/
theorem optSpaceField_some (p : UInt8 → Bool) (g : Nat) (fld r : Str) (hne : fld ≠ [])
    (hp : ∀ b ∈ fld, p b = true) (hs : Stops isReSpace fld) (hr : Stops p r) :
    optSpaceField p (sp (g+1) ++ (fld ++ r)) = (fld, r) := by
  unfold optSpaceField
  have h1 : skipReSpace (sp (g+1) ++ (fld ++ r)) = fld ++ r :=
    skipReSpace_sp (g+1) (fld ++ r) (Stops_append_of_ne_nil hne hs)
  have hlen : ((fld ++ r).length == (sp (g+1) ++ (fld ++ r)).length) = false := by
    simp [sp]
  simp only [h1, hlen, takeWhile_append_stops hp hr, dropWhile_append_stops hp hr]
  cases fld with
  | nil => exact absurd rfl hne
  | cons _ _ => simp

/-- an absent optional field: nothing left, or the next thing is not of the class -/
theorem optSpaceField_nil (p : UInt8 → Bool) : optSpaceField p [] = ([], []) := by
  simp [optSpaceField, skipReSpace]

theorem optSpaceField_none (p : UInt8 → Bool) (g : Nat) (r : Str) (hs : Stops isReSpace r) (hr : Stops p r) :
    optSpaceField p (sp g ++ r) = ([], sp g ++ r) := by
  unfold optSpaceField
  rw [skipReSpace_sp g r hs]
  simp only [takeWhile_stops hr, List.isEmpty_nil, if_true]
  split <;> rfl

theorem reqSpaceField_some (p : UInt8 → Bool) (g : Nat) (fld r : Str) (hne : fld ≠ [])
    (hp : ∀ b ∈ fld, p b = true) (hs : Stops isReSpace fld) (hr : Stops p r) :
    reqSpaceField p (sp (g+1) ++ (fld ++ r)) = some (fld, r) := by
  unfold reqSpaceField
  rw [optSpaceField_some p g fld r hne hp hs hr]
  cases fld with
  | nil => exact absurd rfl hne
  | cons _ _ => simp


/-! ### the address range -/
theorem isXDigit_of_isHexLower {b : UInt8} (h : isHexLower b = true) : isXDigit b = true := by
  simp [isXDigit, h]

theorem hexPad_isXDigit (w n : Nat) : ∀ b ∈ hexPad w n, isXDigit b = true :=
  fun b hb => isXDigit_of_isHexLower (hexPad_isHexLower w n b hb)

theorem isXDigit_ne_120 {b : UInt8} (h : isXDigit b = true) : b ≠ 120 := by
  intro e; subst e; revert h; decide

theorem stripPrefix_0x_hex (a r : Str) (ha : a ≠ []) (hx : ∀ b ∈ a, isXDigit b = true)
    (hr : ∀ c t, r = c :: t → c ≠ 120) : stripPrefix [48, 120] (a ++ r) = none := by
  cases a with
  | nil => exact absurd rfl ha
  | cons c a' =>
    cases a' with
    | nil =>
      cases r with
      | nil => simp [stripPrefix]
      | cons d t =>
        have := hr d t rfl
        simp only [List.cons_append, List.nil_append, stripPrefix]
        split
        · simp [this.symm]
        · rfl
    | cons c2 a'' =>
      have := isXDigit_ne_120 (hx c2 (by simp))
      simp only [List.cons_append, stripPrefix]
      split
      · simp [this.symm]
      · rfl

theorem isReSpace_false_of_isXDigit {b : UInt8} (h : isXDigit b = true) : isReSpace b = false := by
  simp only [isXDigit, isHexLower, isDigit, Bool.or_eq_true, decide_eq_true_eq] at h
  simp only [isReSpace, Bool.or_eq_false_iff, beq_eq_false_iff_ne]
  omega

theorem Stops_isReSpace_hexPad (w n : Nat) (r : Str) : Stops isReSpace (hexPad w n ++ r) := by
  cases hq : hexPad w n with
  | nil => exact absurd hq (hexPad_ne_nil w n)
  | cons c t =>
    simp only [List.cons_append, Stops_cons]
    exact isReSpace_false_of_isXDigit (hexPad_isXDigit w n c (by simp [hq]))

/-- `matchHexRange` on a printed range followed by `rest` (which must not continue the second
number; an optional `:` is consumed). -/
theorem matchHexRange_print (indent : Nat) (ox : Bool) (w start limit : Nat) (rest : Str)
    (hrest : Stops isXDigit rest) (hrx : ∀ c t, rest = c :: t → c ≠ 120) :
    matchHexRange (sp indent ++ ((if ox then asc "0x" else []) ++ (hexPad w start ++ (45 :: ((if ox then asc "0x" else []) ++ (hexPad w limit ++ rest))))))
      = some (hexPad w start, hexPad w limit, (stripPrefix [58] rest).getD rest) := by
  have hasc : asc "0x" = [48, 120] := by decide
  have h45 : isXDigit 45 = false := by decide
  have hS1 : Stops isXDigit (45 :: ((if ox then asc "0x" else []) ++ (hexPad w limit ++ rest))) := by simp [h45]
  have hne1 : (hexPad w start).isEmpty = false := by
    cases hq : hexPad w start with
    | nil => exact absurd hq (hexPad_ne_nil w start)
    | cons _ _ => rfl
  have hne2 : (hexPad w limit).isEmpty = false := by
    cases hq : hexPad w limit with
    | nil => exact absurd hq (hexPad_ne_nil w limit)
    | cons _ _ => rfl
  unfold matchHexRange
  cases ox with
  | true =>
    simp only [if_true, hasc]
    rw [skipReSpace_sp indent _ (by simp; decide)]
    rw [show ([48, 120] : Str) ++ (hexPad w start ++ 45 :: ([48, 120] ++ (hexPad w limit ++ rest)))
          = [48, 120] ++ (hexPad w start ++ 45 :: ([48, 120] ++ (hexPad w limit ++ rest))) from rfl]
    simp only [stripPrefix_append, Option.getD_some]
    have hS1' : Stops isXDigit (45 :: (([48, 120] : Str) ++ (hexPad w limit ++ rest))) := by simp [h45]
    simp only [takeWhile_append_stops (hexPad_isXDigit w start) hS1',
      dropWhile_append_stops (hexPad_isXDigit w start) hS1', hne1, Bool.false_eq_true, if_false]
    have h45b : (isReSpace 45 || (45 : UInt8).toNat == 45) = true := by decide
    simp only [h45b, if_true]
    have hsk : skipReSpace (([48, 120] : Str) ++ (hexPad w limit ++ rest)) = [48, 120] ++ (hexPad w limit ++ rest) :=
      dropWhile_stops (by simp; decide)
    simp only [hsk, stripPrefix_append, Option.getD_some,
      takeWhile_append_stops (hexPad_isXDigit w limit) hrest,
      dropWhile_append_stops (hexPad_isXDigit w limit) hrest, hne2, Bool.false_eq_true, if_false]
  | false =>
    simp only [Bool.false_eq_true, if_false, List.nil_append]
    rw [skipReSpace_sp indent _ (Stops_isReSpace_hexPad w start _)]
    have hno1 : stripPrefix [48, 120] (hexPad w start ++ 45 :: (hexPad w limit ++ rest)) = none :=
      stripPrefix_0x_hex _ _ (hexPad_ne_nil w start) (hexPad_isXDigit w start) (by intro c t e; cases e; decide)
    have hS1' : Stops isXDigit (45 :: (hexPad w limit ++ rest)) := by simp [h45]
    simp only [hasc, hno1, Option.getD_none,
      takeWhile_append_stops (hexPad_isXDigit w start) hS1',
      dropWhile_append_stops (hexPad_isXDigit w start) hS1', hne1, Bool.false_eq_true, if_false]
    have h45b : (isReSpace 45 || (45 : UInt8).toNat == 45) = true := by decide
    simp only [h45b, if_true]
    have hsk : skipReSpace (hexPad w limit ++ rest) = hexPad w limit ++ rest :=
      dropWhile_stops (Stops_isReSpace_hexPad w limit rest)
    have hno2 : stripPrefix [48, 120] (hexPad w limit ++ rest) = none :=
      stripPrefix_0x_hex _ _ (hexPad_ne_nil w limit) (hexPad_isXDigit w limit) hrx
    simp only [hsk, hno2, Option.getD_none,
      takeWhile_append_stops (hexPad_isXDigit w limit) hrest,
      dropWhile_append_stops (hexPad_isXDigit w limit) hrest, hne2, Bool.false_eq_true, if_false]


/-! ### the fields after the range -/
theorem sp_succ (g : Nat) (r : Str) : sp (g+1) ++ r = 32 :: (sp g ++ r) := by simp [sp, List.replicate_succ]

theorem perm_print_ne_nil (p : Perm) : p.print ≠ [] := by cases p <;> decide
theorem perm_print_isPermByte (p : Perm) : ∀ b ∈ p.print, isPermByte b = true := by cases p <;> decide
def stopsB (p : UInt8 → Bool) : Str → Bool
  | [] => true
  | c :: _ => !p c
theorem Stops_of_stopsB {p : UInt8 → Bool} {s : Str} (h : stopsB p s = true) : Stops p s := by
  cases s with
  | nil => simp
  | cons c t => simpa [stopsB] using h
theorem perm_print_stops (p : Perm) : Stops isReSpace p.print := by
  cases p <;> exact Stops_of_stopsB (by decide)
theorem perm_contains_x (p : Perm) : p.print.contains 120 = p.exec := by cases p <;> decide

theorem fileOK_ne_nil {f : Str} (h : fileOK f = true) : f ≠ [] := by
  intro e; subst e; simp [fileOK] at h

theorem fileOK_nonspace {f : Str} (h : fileOK f = true) : ∀ b ∈ f, (!isReSpace b) = true := by
  intro b hb
  simp only [fileOK, Bool.and_eq_true, List.all_eq_true] at h
  have := h.2 b hb
  simp only [isPrint, Bool.and_eq_true, decide_eq_true_eq, bne_iff_ne, ne_eq] at this
  simp only [isReSpace, Bool.not_eq_true', Bool.or_eq_false_iff, beq_eq_false_iff_ne]
  omega

theorem fileOK_head {f : Str} (h : fileOK f = true) : ∃ c t, f = c :: t ∧ (c.toNat = 47 ∨ c.toNat = 91) := by
  cases f with
  | nil => simp [fileOK] at h
  | cons c t =>
    simp only [fileOK, Bool.and_eq_true, Bool.or_eq_true, beq_iff_eq] at h
    exact ⟨c, t, rfl, h.1⟩

theorem fileOK_stops_reSpace {f : Str} (h : fileOK f = true) (r : Str) : Stops isReSpace (f ++ r) := by
  obtain ⟨c, t, rfl, hc⟩ := fileOK_head h
  simp only [List.cons_append, Stops_cons, isReSpace, Bool.or_eq_false_iff, beq_eq_false_iff_ne]
  omega

theorem fileOK_stops_perm {f : Str} (h : fileOK f = true) (r : Str) : Stops isPermByte (f ++ r) := by
  obtain ⟨c, t, rfl, hc⟩ := fileOK_head h
  simp only [List.cons_append, Stops_cons, isPermByte, Bool.or_eq_false_iff, beq_eq_false_iff_ne]
  omega

theorem fileOK_stops_xdigit {f : Str} (h : fileOK f = true) (r : Str) : Stops isXDigit (f ++ r) := by
  obtain ⟨c, t, rfl, hc⟩ := fileOK_head h
  simp only [List.cons_append, Stops_cons, isXDigit, isHexLower, isDigit, Bool.or_eq_false_iff, decide_eq_false_iff_not]
  omega

/-- `optField` is empty or starts with a blank -/
theorem optField_stops (p : UInt8 → Bool) (hp : p 32 = false) (g : Nat) (o : Option Str) (r : Str) (hr : Stops p r) :
    Stops p (optField g o ++ r) := by
  cases o with
  | none => simpa [optField] using hr
  | some s => simp [optField, sp_succ, hp]

theorem optField_file_scan (g : Nat) (file : Option Str) (hf : file.all fileOK = true) :
    optSpaceField (fun b => !isReSpace b) (optField g file) = (file.getD [], []) := by
  cases file with
  | none => simp [optField, optSpaceField_nil]
  | some f =>
    have hf' : fileOK f = true := by simpa using hf
    have := optSpaceField_some (fun b => !isReSpace b) g f [] (fileOK_ne_nil hf') (fileOK_nonspace hf')
      (by simpa using fileOK_stops_reSpace hf' []) (by simp)
    simpa [optField] using this

theorem Stops_isReSpace_dec (n : Nat) (r : Str) : Stops isReSpace (dec n ++ r) := by
  cases hq : dec n with
  | nil => exact absurd hq (dec_ne_nil n)
  | cons c t =>
    have := dec_isDigit n c (by simp [hq])
    simp only [isDigit, decide_eq_true_eq] at this
    simp only [List.cons_append, Stops_cons, isReSpace, Bool.or_eq_false_iff, beq_eq_false_iff_ne]
    omega

theorem isXDigit_32 : isXDigit 32 = false := by decide
theorem isXDigit_58 : isXDigit 58 = false := by decide
theorem isDigit_32 : isDigit 32 = false := by decide
theorem isPermByte_32 : isPermByte 32 = false := by decide

theorem isEmpty_false_of_ne_nil {s : Str} (h : s ≠ []) : s.isEmpty = false := by
  cases s with
  | nil => exact absurd rfl h
  | cons _ _ => rfl

/-- procMapsRE after the range -/
theorem matchProcRest_proc (g : Nat) (perm : Perm) (off dmaj dmin inode : Nat) (file : Option Str)
    (hf : file.all fileOK = true) :
    matchProcRest (sp (g+1) ++ (perm.print ++ (sp (g+1) ++ (hexPad 8 off ++ (sp (g+1) ++ (hexPad 2 dmaj ++ (58 :: (hexPad 2 dmin ++
        (sp (g+1) ++ (dec inode ++ optField g file))))))))))
      = some (perm.print, hexPad 8 off, file.getD []) := by
  unfold matchProcRest
  rw [optSpaceField_some isPermByte g perm.print _ (perm_print_ne_nil perm) (perm_print_isPermByte perm)
        (perm_print_stops perm) (by simp [sp_succ, isPermByte_32])]
  simp only []
  rw [optSpaceField_some isXDigit g (hexPad 8 off) _ (hexPad_ne_nil 8 off) (hexPad_isXDigit 8 off)
        (by simpa using Stops_isReSpace_hexPad 8 off []) (by simp [sp_succ, isXDigit_32])]
  simp only []
  rw [reqSpaceField_some isXDigit g (hexPad 2 dmaj) _ (hexPad_ne_nil 2 dmaj) (hexPad_isXDigit 2 dmaj)
        (by simpa using Stops_isReSpace_hexPad 2 dmaj []) (by simp [isXDigit_58])]
  have hS : Stops isXDigit (sp (g+1) ++ (dec inode ++ optField g file)) := by simp [sp_succ, isXDigit_32]
  have e58 : stripPrefix [58] (58 :: (hexPad 2 dmin ++ (sp (g+1) ++ (dec inode ++ optField g file))))
      = some (hexPad 2 dmin ++ (sp (g+1) ++ (dec inode ++ optField g file))) := stripPrefix_append [58] _
  simp only [Option.bind_eq_bind, Option.bind_some, e58,
    takeWhile_append_stops (hexPad_isXDigit 2 dmin) hS, dropWhile_append_stops (hexPad_isXDigit 2 dmin) hS,
    isEmpty_false_of_ne_nil (hexPad_ne_nil 2 dmin), Bool.false_eq_true, if_false]
  have hSf : Stops isDigit (optField g file) := by
    simpa using optField_stops isDigit isDigit_32 g file [] (by simp)
  rw [reqSpaceField_some isDigit g (dec inode) _ (dec_ne_nil inode) (dec_isDigit inode)
        (by simpa using Stops_isReSpace_dec inode []) hSf]
  simp [optField_file_scan g file hf]


/-! ### brief form -/
/-- what follows the permission field of a brief line: nothing, or blanks and a file name … -/
def TailShape (g : Nat) (T : Str) : Prop := T = [] ∨ ∃ f R, fileOK f = true ∧ T = sp (g+1) ++ (f ++ R)

theorem TailShape.stops (p : UInt8 → Bool) (hp : p 32 = false) {g : Nat} {T : Str} (h : TailShape g T) : Stops p T := by
  rcases h with rfl | ⟨f, R, _, rfl⟩
  · simp
  · simp [sp_succ, hp]

theorem perm_step (g : Nat) (perm : Option Perm) (T : Str) (hT : TailShape g T) :
    optSpaceField isPermByte (optField g (perm.map Perm.print) ++ T) = ((perm.map Perm.print).getD [], T) := by
  cases perm with
  | some p =>
    simp only [Option.map_some, optField, List.append_assoc, Option.getD_some]
    exact optSpaceField_some isPermByte g p.print T (perm_print_ne_nil p) (perm_print_isPermByte p)
      (perm_print_stops p) (hT.stops isPermByte isPermByte_32)
  | none =>
    simp only [Option.map_none, optField, List.nil_append, Option.getD_none]
    rcases hT with rfl | ⟨f, R, hf, rfl⟩
    · exact optSpaceField_nil _
    · exact optSpaceField_none isPermByte (g+1) (f ++ R) (fileOK_stops_reSpace hf R) (fileOK_stops_perm hf R)

theorem xdigit_step_none (g : Nat) (T : Str) (hT : TailShape g T) : optSpaceField isXDigit T = ([], T) := by
  rcases hT with rfl | ⟨f, R, hf, rfl⟩
  · exact optSpaceField_nil _
  · exact optSpaceField_none isXDigit (g+1) (f ++ R) (fileOK_stops_reSpace hf R) (fileOK_stops_xdigit hf R)

theorem matchProcRest_brief (g : Nat) (perm : Option Perm) (T : Str) (hT : TailShape g T) :
    matchProcRest (optField g (perm.map Perm.print) ++ T) = none := by
  unfold matchProcRest
  rw [perm_step g perm T hT]
  simp only []
  rw [xdigit_step_none g T hT]
  simp only [reqSpaceField, xdigit_step_none g T hT]
  simp

theorem buildIDOK_ne_nil {s : Str} (h : buildIDOK s = true) : s ≠ [] := by
  intro e; subst e; simp [buildIDOK] at h

theorem buildIDOK_isXDigit {s : Str} (h : buildIDOK s = true) : ∀ b ∈ s, isXDigit b = true := by
  simp only [buildIDOK, Bool.and_eq_true, List.all_eq_true] at h
  exact h.2

theorem Stops_isReSpace_of_isXDigit {s : Str} (hne : s ≠ []) (h : ∀ b ∈ s, isXDigit b = true) (r : Str) :
    Stops isReSpace (s ++ r) := by
  cases s with
  | nil => exact absurd rfl hne
  | cons c t =>
    simp only [List.cons_append, Stops_cons]
    exact isReSpace_false_of_isXDigit (h c (by simp))

theorem bid_step (g : Nat) (bid : Option Str) (hb : bid.all buildIDOK = true) :
    optSpaceField isXDigit (optField g bid) = (bid.getD [], []) := by
  cases bid with
  | none => simp [optField, optSpaceField_nil]
  | some s =>
    have hs : buildIDOK s = true := by simpa using hb
    have := optSpaceField_some isXDigit g s [] (buildIDOK_ne_nil hs) (buildIDOK_isXDigit hs)
      (by simpa using Stops_isReSpace_of_isXDigit (buildIDOK_ne_nil hs) (buildIDOK_isXDigit hs) []) (by simp)
    simpa [optField] using this

theorem hex_isXDigit (n : Nat) : ∀ b ∈ hex n, isXDigit b = true :=
  fun b hb => isXDigit_of_isHexLower (hex_isHexLower n b hb)

theorem off_step (g : Nat) (off : Option Nat) (bid : Option Str) (hb : bid.all buildIDOK = true) :
    optAtOffset (optField g (off.map fun o => asc "(@" ++ hex o ++ asc ")") ++ optField g bid)
      = ((off.map hex).getD [], optField g bid) := by
  have hasc1 : asc "(@" = [40, 64] := by decide
  have hasc2 : asc ")" = [41] := by decide
  unfold optAtOffset
  cases off with
  | some o =>
    generalize optField g bid = B
    simp only [Option.map_some, optField, List.append_assoc, Option.getD_some, hasc1, hasc2]
    rw [skipReSpace_sp (g+1) _ (by simp; decide)]
    have hlen : ((([40, 64] : Str) ++ (hex o ++ ([41] ++ B))).length
        == (sp (g+1) ++ ([40, 64] ++ (hex o ++ ([41] ++ B)))).length) = false := by
      simp [sp]
    have hS : Stops isXDigit (([41] : Str) ++ B) := by simp; decide
    simp only [hlen, Bool.false_eq_true, if_false, stripPrefix_append,
      takeWhile_append_stops (hex_isXDigit o) hS, dropWhile_append_stops (hex_isXDigit o) hS,
      isEmpty_false_of_ne_nil (hex_ne_nil o)]
  | none =>
    simp only [Option.map_none, optField, List.nil_append, Option.getD_none]
    cases bid with
    | none => simp [optField, skipReSpace]
    | some s =>
      have hs : buildIDOK s = true := by simpa using hb
      simp only [optField]
      rw [show sp (g+1) ++ s = sp (g+1) ++ (s ++ []) by simp,
          skipReSpace_sp (g+1) _ (Stops_isReSpace_of_isXDigit (buildIDOK_ne_nil hs) (buildIDOK_isXDigit hs) [])]
      have hlen : ((s ++ []).length == (sp (g+1) ++ (s ++ [])).length) = false := by simp [sp]
      have hno : stripPrefix (asc "(@") (s ++ []) = none := by
        cases s with
        | nil => exact absurd rfl (buildIDOK_ne_nil hs)
        | cons c t =>
          have hc := buildIDOK_isXDigit hs c (by simp)
          have : c ≠ 40 := by intro e; subst e; revert hc; decide
          simp [hasc1, stripPrefix, this.symm]
      simp only [hlen, Bool.false_eq_true, if_false, hno]

theorem file_step (g : Nat) (file : Option Str) (R : Str) (hf : file.all fileOK = true)
    (hR : Stops (fun b => !isReSpace b) R) (hnone : file = none → R = []) :
    optSpaceField (fun b => !isReSpace b) (optField g file ++ R) = (file.getD [], R) := by
  cases file with
  | none => simp [hnone rfl, optField, optSpaceField_nil]
  | some f =>
    have hf' : fileOK f = true := by simpa using hf
    simp only [optField, List.append_assoc, Option.getD_some]
    exact optSpaceField_some _ g f R (fileOK_ne_nil hf') (fileOK_nonspace hf')
      (by simpa using fileOK_stops_reSpace hf' []) hR

/-- the part of a brief line after the permission field -/
def briefTail (g : Nat) (file : Option Str) (off : Option Nat) (bid : Option Str) : Str :=
  optField g file ++ (optField g (off.map fun o => asc "(@" ++ hex o ++ asc ")") ++ optField g bid)

theorem briefTail_shape (g : Nat) (file : Option Str) (off : Option Nat) (bid : Option Str)
    (hf : file.all fileOK = true) (hdep : file.isSome = true ∨ (off.isNone = true ∧ bid.isNone = true)) :
    TailShape g (briefTail g file off bid) := by
  cases file with
  | some f =>
    right
    refine ⟨f, optField g (off.map fun o => asc "(@" ++ hex o ++ asc ")") ++ optField g bid, by simpa using hf, ?_⟩
    show optField g (some f) ++ _ = _
    simp only [optField, List.append_assoc]
  | none =>
    left
    rcases hdep with h | ⟨h1, h2⟩
    · simp at h
    · cases off <;> cases bid <;> simp_all [briefTail, optField]

theorem matchBriefRest_brief (g : Nat) (perm : Option Perm) (file : Option Str) (off : Option Nat) (bid : Option Str)
    (hf : file.all fileOK = true) (hb : bid.all buildIDOK = true)
    (hdep : file.isSome = true ∨ (off.isNone = true ∧ bid.isNone = true)) :
    matchBriefRest (optField g (perm.map Perm.print) ++ briefTail g file off bid)
      = ((perm.map Perm.print).getD [], file.getD [], (off.map hex).getD [], bid.getD []) := by
  unfold matchBriefRest
  rw [perm_step g perm _ (briefTail_shape g file off bid hf hdep)]
  simp only []
  have hR : Stops (fun b => !isReSpace b) (optField g (off.map fun o => asc "(@" ++ hex o ++ asc ")") ++ optField g bid) := by
    apply optField_stops _ (by decide)
    simpa using optField_stops (fun b => !isReSpace b) (by decide) g bid [] (by simp)
  have hnone : file = none → (optField g (off.map fun o => asc "(@" ++ hex o ++ asc ")") ++ optField g bid) = [] := by
    intro e; subst e
    rcases hdep with h | ⟨h1, h2⟩
    · simp at h
    · cases off <;> cases bid <;> simp_all [optField]
  unfold briefTail
  rw [file_step g file _ hf hR hnone]
  simp only []
  rw [off_step g off bid hb]
  simp only []
  rw [bid_step g bid hb]


/-! ### a whole entry -/
theorem hexPad_zero (n : Nat) : hexPad 0 n = hex n := by simp [hexPad]

theorem parseU64Hex_hex {n : Nat} (h : n < two64) : parseU64Hex (hex n) = some n := by
  rw [← hexPad_zero]; exact parseU64Hex_hexPad h

theorem stripColon_sp (g : Nat) (X : Str) : (stripPrefix [58] (sp (g+1) ++ X)).getD (sp (g+1) ++ X) = sp (g+1) ++ X := by
  simp [sp_succ, stripPrefix]

theorem stripColon_tail {g : Nat} {T : Str} (h : Stops isXDigit T → True) (hT : T = [] ∨ ∃ R, T = sp (g+1) ++ R) :
    (stripPrefix [58] T).getD T = T := by
  rcases hT with rfl | ⟨R, rfl⟩
  · simp [stripPrefix]
  · exact stripColon_sp g R

theorem optField_nil_or_sp (g : Nat) (o : Option Str) (R : Str) (hR : R = [] ∨ ∃ R', R = sp (g+1) ++ R') :
    (optField g o ++ R = [] ∨ ∃ R', optField g o ++ R = sp (g+1) ++ R') := by
  cases o with
  | none => simpa [optField] using hR
  | some s => right; exact ⟨s ++ R, by simp [optField]⟩

theorem parseMappingEntry_print (e : MapEntry) (h : e.wf = true) :
    parseMappingEntry e.print = (match e.mapping with | some m => .mapping m | none => .skip) := by
  obtain ⟨indent, ox, width, start, limit, gap, form⟩ := e
  simp only [MapEntry.wf, Bool.and_eq_true, decide_eq_true_eq] at h
  obtain ⟨⟨hstart, hlimit⟩, hform⟩ := h
  cases form with
  | proc perm off dmaj dmin inode file =>
    simp only [Bool.and_eq_true, decide_eq_true_eq] at hform
    obtain ⟨⟨⟨hoff, _⟩, _⟩, hfile⟩ := hform
    have hprint : MapEntry.print ⟨indent, ox, width, start, limit, gap, .proc perm off dmaj dmin inode file⟩ =
        sp indent ++ ((if ox then asc "0x" else []) ++ (hexPad width start ++ (45 :: ((if ox then asc "0x" else []) ++ (hexPad width limit ++
          (sp (gap+1) ++ (perm.print ++ (sp (gap+1) ++ (hexPad 8 off ++ (sp (gap+1) ++ (hexPad 2 dmaj ++ (58 :: (hexPad 2 dmin ++
            (sp (gap+1) ++ (dec inode ++ optField gap file))))))))))))))) := by
      simp only [MapEntry.print, List.append_assoc, List.singleton_append, List.cons_append, List.nil_append]
    rw [hprint]
    unfold parseMappingEntry
    rw [matchHexRange_print indent ox width start limit _ (by simp [sp_succ, isXDigit_32]) (by intro c t e; rw [sp_succ] at e; cases e; decide)]
    simp only [stripColon_sp, matchProcRest_proc gap perm off dmaj dmin inode file hfile,
      perm_contains_x, parseU64Hex_hexPad hstart, parseU64Hex_hexPad hlimit, parseU64Hex_hexPad hoff,
      isEmpty_false_of_ne_nil (hexPad_ne_nil 8 off), MapEntry.mapping]
    rcases Bool.eq_false_or_eq_true perm.exec with hx | hx <;> simp [hx, perm_print_ne_nil, mkMapping]
  | brief colon perm file off bid =>
    simp only [Bool.and_eq_true, Bool.or_eq_true] at hform
    obtain ⟨⟨⟨hfile, hbid⟩, hoff⟩, hdep⟩ := hform
    have hprint : MapEntry.print ⟨indent, ox, width, start, limit, gap, .brief colon perm file off bid⟩ =
        sp indent ++ ((if ox then asc "0x" else []) ++ (hexPad width start ++ (45 :: ((if ox then asc "0x" else []) ++ (hexPad width limit ++
          ((if colon then [58] else []) ++ (optField gap (perm.map Perm.print) ++ briefTail gap file off bid))))))) := by
      simp only [MapEntry.print, briefTail, List.append_assoc, List.singleton_append, List.cons_append, List.nil_append]
    rw [hprint]
    have hX : (optField gap (perm.map Perm.print) ++ briefTail gap file off bid = [] ∨
        ∃ R', optField gap (perm.map Perm.print) ++ briefTail gap file off bid = sp (gap+1) ++ R') := by
      apply optField_nil_or_sp
      rcases briefTail_shape gap file off bid hfile hdep with h | ⟨f, R, _, h⟩
      · exact Or.inl h
      · exact Or.inr ⟨_, h⟩
    have hrest : (stripPrefix [58] ((if colon then [58] else []) ++ (optField gap (perm.map Perm.print) ++ briefTail gap file off bid))).getD
        ((if colon then [58] else []) ++ (optField gap (perm.map Perm.print) ++ briefTail gap file off bid))
        = optField gap (perm.map Perm.print) ++ briefTail gap file off bid := by
      cases colon with
      | true => simp [stripPrefix]
      | false => simpa using stripColon_tail (fun _ => trivial) hX
    have hstop : Stops isXDigit ((if colon then [58] else []) ++ (optField gap (perm.map Perm.print) ++ briefTail gap file off bid)) := by
      cases colon with
      | true => simp [isXDigit_58]
      | false =>
        rcases hX with h | ⟨R, h⟩
        · simp [h]
        · simp [h, sp_succ, isXDigit_32]
    have hnx : ∀ c t, ((if colon then [58] else []) ++ (optField gap (perm.map Perm.print) ++ briefTail gap file off bid)) = c :: t → c ≠ 120 := by
      intro c t e
      cases colon with
      | true => simp at e; rw [← e.1]; decide
      | false =>
        rcases hX with h | ⟨R, h⟩
        · simp [h] at e
        · simp only [Bool.false_eq_true, if_false, List.nil_append, h, sp_succ] at e
          cases e; decide
    unfold parseMappingEntry
    rw [matchHexRange_print indent ox width start limit _ hstop hnx]
    simp only [hrest, matchProcRest_brief gap perm _ (briefTail_shape gap file off bid hfile hdep),
      matchBriefRest_brief gap perm file off bid hfile hbid (by simpa using hdep),
      parseU64Hex_hexPad hstart, parseU64Hex_hexPad hlimit, MapEntry.mapping]
    cases perm with
    | none =>
      cases off with
      | none => simp [mkMapping]
      | some o =>
        have ho : o < two64 := by simpa using hoff
        simp [mkMapping, isEmpty_false_of_ne_nil (hex_ne_nil o), parseU64Hex_hex ho]
    | some p =>
      simp only [Option.map_some, Option.getD_some, perm_contains_x, Option.all_some]
      rcases Bool.eq_false_or_eq_true p.exec with hx | hx
      · cases off with
        | none => simp [hx, mkMapping]
        | some o =>
          have ho : o < two64 := by simpa using hoff
          simp [hx, mkMapping, isEmpty_false_of_ne_nil (hex_ne_nil o), parseU64Hex_hex ho]
      · simp [hx, perm_print_ne_nil]


/-! ### a whole section -/
theorem matchHexRange_of_skip {l body : Str} (hs : skipReSpace l = body)
    (hb : body = [] ∨ ∃ c t, body = c :: t ∧ isXDigit c = false ∧ c ≠ 48) : matchHexRange l = none := by
  have hasc : asc "0x" = [48, 120] := by decide
  unfold matchHexRange
  rw [hs, hasc]
  rcases hb with rfl | ⟨c, t, rfl, hx, h48⟩
  · simp [stripPrefix]
  · have : stripPrefix [48, 120] (c :: t) = none := by simp [stripPrefix, Ne.symm h48]
    simp [this, hx]

theorem parseMappingEntry_filler (f : Filler) : parseMappingEntry f.print = .unrecognized := by
  have hr : ∀ b ∈ List.replicate f.indent (32 : UInt8), isReSpace b = true := by
    intro b hb; rw [List.mem_replicate] at hb; rw [hb.2]; decide
  have : matchHexRange f.print = none := by
    unfold Filler.print
    cases f.comment with
    | none =>
      exact matchHexRange_of_skip (body := []) (dropWhile_append_stops hr (by simp)) (Or.inl rfl)
    | some t =>
      exact matchHexRange_of_skip (body := 35 :: t) (dropWhile_append_stops hr (by simp; decide))
        (Or.inr ⟨35, t, rfl, by decide, by decide⟩)
  simp [parseMappingEntry, this]

end PV.Legacy
