import PprofVerif.Spec.TagFrames
import PprofVerif.Lemmas.GraphValid
/-!
`addLabelNodes` (the model of internal/driver/tagroot.go) against `extendFrames`: the stack of
every sample afterwards is root-key pseudo frames ++ its own frames ++ leaf-key pseudo frames.

Proof shape: the interning state only ever APPENDS locations and functions with fresh ids, so every
lookup that succeeded before still gives the same answer (`Ext`), and every id handed out resolves
to the pseudo location / function it was created for (`Pseudo`).
-/
namespace PV.Graph
open PV

/-! ### extension of the location / function tables -/

structure Ext (p1 p2 : Profile) : Prop where
  locs : ∀ id l, p1.findLocation id = some l → p2.findLocation id = some l
  fns : ∀ id f, p1.findFunction id = some f → p2.findFunction id = some f
  maps : p2.mappings = p1.mappings

theorem Ext.refl (p : Profile) : Ext p p := ⟨fun _ _ h => h, fun _ _ h => h, rfl⟩
theorem Ext.trans {p1 p2 p3 : Profile} (a : Ext p1 p2) (b : Ext p2 p3) : Ext p1 p3 :=
  ⟨fun id l h => b.locs id l (a.locs id l h), fun id f h => b.fns id f (a.fns id f h), b.maps.trans a.maps⟩

def pseudoLoc (id fid : Nat) : Location :=
  { id := id, mappingID := 0, address := 0, lines := [{ functionID := fid, line := 0, column := 0 }], isFolded := false }
def pseudoFn (fid : Nat) (key : Str × Str) : Function :=
  { id := fid, name := key.1, systemName := [], filename := key.2, startLine := 0 }

/-- location id `id` resolves to the pseudo location made for `key` = (function name, file name) -/
def Pseudo (p : Profile) (id : Nat) (key : Str × Str) : Prop :=
  ∃ fid, fid ≠ 0 ∧ p.findLocation id = some (pseudoLoc id fid) ∧ p.findFunction fid = some (pseudoFn fid key)

theorem Pseudo.mono {p p' : Profile} {id : Nat} {key : Str × Str} (h : Pseudo p id key) (e : Ext p p') :
    Pseudo p' id key := by
  obtain ⟨fid, h0, h1, h2⟩ := h
  exact ⟨fid, h0, e.locs _ _ h1, e.fns _ _ h2⟩

structure TagInv (p0 : Profile) (st : TagSt) : Prop where
  ext : Ext p0 st.p
  locBound : ∀ l ∈ st.p.locations, l.id < st.nextLoc
  fnBound : ∀ f ∈ st.p.functions, f.id < st.nextFn
  fnPos : 0 < st.nextFn
  tblOK : ∀ key id, st.tbl.lookup key = some id → Pseudo st.p id key

theorem le_foldl_max (ids : List Nat) : ∀ (m : Nat), m ≤ ids.foldl max m ∧ ∀ x ∈ ids, x ≤ ids.foldl max m := by
  induction ids with
  | nil => intro m; simp
  | cons a r ih =>
    intro m
    simp only [List.foldl_cons]
    obtain ⟨h1, h2⟩ := ih (max m a)
    refine ⟨Nat.le_trans (Nat.le_max_left m a) h1, ?_⟩
    intro x hx
    rcases List.mem_cons.mp hx with rfl | hx
    · exact Nat.le_trans (Nat.le_max_right m x) h1
    · exact h2 x hx

theorem le_maxId (ids : List Nat) (x : Nat) (h : x ∈ ids) : x ≤ maxId ids := (le_foldl_max ids 0).2 x h

theorem find?_append_fresh {α : Type} (l : List α) (x : α) (q : α → Bool) (hl : ∀ y ∈ l, q y = false) (hx : q x = true) :
    (l ++ [x]).find? q = some x := by
  rw [List.find?_append]
  have : l.find? q = none := by
    rw [List.find?_eq_none]
    intro y hy; rw [hl y hy]; simp
  simp [this, hx]

theorem find?_append_old {α : Type} (l : List α) (x y : α) (q : α → Bool) (h : l.find? q = some y) :
    (l ++ [x]).find? q = some y := by
  rw [List.find?_append, h]; rfl

theorem internLoc_spec (p0 : Profile) (st : TagSt) (fname file : Str) (h : TagInv p0 st) :
    TagInv p0 (internLoc st fname file).1 ∧ Ext st.p (internLoc st fname file).1.p ∧
    Pseudo (internLoc st fname file).1.p (internLoc st fname file).2 (fname, file) := by
  unfold internLoc
  cases hl : st.tbl.lookup (fname, file) with
  | some id => exact ⟨h, Ext.refl _, h.tblOK _ _ hl⟩
  | none =>
    simp only
    have hext : Ext st.p { st.p with functions := st.p.functions ++ [{ id := st.nextFn, name := fname, systemName := [], filename := file, startLine := 0 }], locations := st.p.locations ++ [{ id := st.nextLoc, mappingID := 0, address := 0, lines := [{ functionID := st.nextFn, line := 0, column := 0 }], isFolded := false }] } := by
      refine ⟨?_, ?_, rfl⟩
      · intro id l hf
        unfold Profile.findLocation at hf ⊢
        exact find?_append_old _ _ _ _ hf
      · intro id f hf
        unfold Profile.findFunction at hf ⊢
        exact find?_append_old _ _ _ _ hf
    have hnew : Pseudo { st.p with functions := st.p.functions ++ [{ id := st.nextFn, name := fname, systemName := [], filename := file, startLine := 0 }], locations := st.p.locations ++ [{ id := st.nextLoc, mappingID := 0, address := 0, lines := [{ functionID := st.nextFn, line := 0, column := 0 }], isFolded := false }] } st.nextLoc (fname, file) := by
      refine ⟨st.nextFn, Nat.pos_iff_ne_zero.mp h.fnPos, ?_, ?_⟩
      · unfold Profile.findLocation
        apply find?_append_fresh
        · intro y hy
          have := h.locBound y hy
          simp; omega
        · simp
      · unfold Profile.findFunction
        apply find?_append_fresh
        · intro y hy
          have := h.fnBound y hy
          simp; omega
        · simp
    refine ⟨⟨h.ext.trans hext, ?_, ?_, Nat.succ_pos _, ?_⟩, hext, hnew⟩
    · intro l hm
      rcases List.mem_append.mp hm with hm | hm
      · exact Nat.lt_succ_of_lt (h.locBound l hm)
      · simp at hm; subst hm; exact Nat.lt_succ_self _
    · intro f hm
      rcases List.mem_append.mp hm with hm | hm
      · exact Nat.lt_succ_of_lt (h.fnBound f hm)
      · simp at hm; subst hm; exact Nat.lt_succ_self _
    · intro key id hk
      rw [List.lookup_append] at hk
      cases ho : st.tbl.lookup key with
      | some id' =>
        rw [ho] at hk
        simp at hk; subst hk
        exact (h.tblOK key id' ho).mono hext
      | none =>
        rw [ho] at hk
        simp only [Option.none_or, List.lookup_cons, List.lookup_nil] at hk
        split at hk
        · rename_i heq
          simp at hk; subst hk
          have : key = (fname, file) := by simpa using heq
          subst this
          exact hnew
        · simp at hk

/-! ### `makeLabelLocs` -/

/-- ids paired with the keys they were made for -/
def AllPseudo (p : Profile) (s : Sample) (ids : List Nat) (keys : List Str) : Prop :=
  ids.length = keys.length ∧ ∀ x ∈ ids.zip keys, Pseudo p x.1 (joinComma (labelValues s x.2), x.2)

theorem AllPseudo.mono {p p' : Profile} {s : Sample} {ids : List Nat} {keys : List Str}
    (h : AllPseudo p s ids keys) (e : Ext p p') : AllPseudo p' s ids keys :=
  ⟨h.1, fun x hx => (h.2 x hx).mono e⟩

theorem AllPseudo.snoc {p : Profile} {s : Sample} {ids : List Nat} {keys : List Str}
    (h : AllPseudo p s ids keys) (id : Nat) (k : Str) (hk : Pseudo p id (joinComma (labelValues s k), k)) :
    AllPseudo p s (ids ++ [id]) (keys ++ [k]) := by
  refine ⟨by simp [h.1], ?_⟩
  intro x hx
  rw [List.zip_append h.1] at hx
  rcases List.mem_append.mp hx with hx | hx
  · exact h.2 x hx
  · simp at hx; subst hx; exact hk

theorem labelFold_spec (p0 : Profile) (s : Sample) (ks : List Str) : ∀ (st : TagSt) (ids : List Nat) (done : List Str),
    TagInv p0 st → AllPseudo st.p s ids done →
    let r := ks.foldl (fun (acc : TagSt × List Nat) k =>
      let (st', id) := internLoc acc.1 (joinComma (labelValues s k)) k
      (st', acc.2 ++ [id])) (st, ids)
    TagInv p0 r.1 ∧ Ext st.p r.1.p ∧ AllPseudo r.1.p s r.2 (done ++ ks) := by
  induction ks with
  | nil => intro st ids done h ha; simpa using ⟨h, Ext.refl _, ha⟩
  | cons k ks ih =>
    intro st ids done h ha
    simp only [List.foldl_cons]
    obtain ⟨h1, e1, p1⟩ := internLoc_spec p0 st (joinComma (labelValues s k)) k h
    have ha1 := (ha.mono e1).snoc _ k p1
    obtain ⟨h2, e2, a2⟩ := ih _ _ (done ++ [k]) h1 ha1
    refine ⟨h2, e1.trans e2, ?_⟩
    simpa using a2

theorem makeLabelLocs_spec (p0 : Profile) (st : TagSt) (s : Sample) (keys : List Str) (h : TagInv p0 st) :
    TagInv p0 (makeLabelLocs st s keys).1 ∧ Ext st.p (makeLabelLocs st s keys).1.p ∧
    AllPseudo (makeLabelLocs st s keys).1.p s (makeLabelLocs st s keys).2 keys.reverse := by
  unfold makeLabelLocs
  have := labelFold_spec p0 s keys.reverse st [] [] h ⟨rfl, by simp⟩
  simpa using this

/-! ### frames of pseudo locations and of old locations in an extended profile -/

theorem optAll_mono {α β : Type} (f g : α → Option β) (l : List α) (bs : List β)
    (h : ∀ a ∈ l, ∀ b, f a = some b → g a = some b) (hf : optAll f l = some bs) : optAll g l = some bs := by
  induction l generalizing bs with
  | nil => simpa [optAll] using hf
  | cons a r ih =>
    cases hfa : f a with
    | none => simp [optAll, hfa] at hf
    | some b =>
      cases hr : optAll f r with
      | none => simp [optAll, hfa, hr] at hf
      | some bs' =>
        simp [optAll, hfa, hr] at hf
        subst hf
        have := ih bs' (fun x hx => h x (List.mem_cons_of_mem _ hx)) hr
        simp [optAll, h a List.mem_cons_self b hfa, this]

theorem optAll_append {α β : Type} (f : α → Option β) (l1 l2 : List α) (b1 b2 : List β)
    (h1 : optAll f l1 = some b1) (h2 : optAll f l2 = some b2) : optAll f (l1 ++ l2) = some (b1 ++ b2) := by
  induction l1 generalizing b1 with
  | nil => simp [optAll] at h1; subst h1; simpa using h2
  | cons a r ih =>
    cases hfa : f a with
    | none => simp [optAll, hfa] at h1
    | some b =>
      cases hr : optAll f r with
      | none => simp [optAll, hfa, hr] at h1
      | some bs' =>
        simp [optAll, hfa, hr] at h1
        subst h1
        simp [optAll, hfa, ih bs' hr]

theorem optAll_zip {α β γ : Type} (f : α → Option β) (g : γ → β) (l : List α) (ks : List γ)
    (hlen : l.length = ks.length) (h : ∀ x ∈ l.zip ks, f x.1 = some (g x.2)) : optAll f l = some (ks.map g) := by
  induction l generalizing ks with
  | nil => cases ks with
    | nil => rfl
    | cons _ _ => simp at hlen
  | cons a r ih =>
    cases ks with
    | nil => simp at hlen
    | cons k ks =>
      have h1 := h (a, k) (by simp)
      have h2 := ih ks (by simpa using hlen) (fun x hx => h x (by simp only [List.zip_cons_cons]; exact List.mem_cons_of_mem _ hx))
      simp [optAll, h1, h2]

theorem nodeInfo_mono (clean : Str → Str) {p p' : Profile} (e : Ext p p') (o : GOpts) (l : Location) (ln : Line)
    (objfile : Str) (ni : NodeInfo) (h : nodeInfo clean p o l ln objfile = some ni) :
    nodeInfo clean p' o l ln objfile = some ni := by
  unfold nodeInfo at h ⊢
  by_cases h0 : ln.functionID = 0
  · simpa [h0] using h
  · simp only [h0, if_false] at h ⊢
    cases hf : p.findFunction ln.functionID with
    | none => simp [hf] at h
    | some fn =>
      rw [e.fns _ _ hf]
      simpa [hf] using h

theorem locNodes_mono (clean : Str → Str) {p p' : Profile} (e : Ext p p') (o : GOpts) (l : Location)
    (ns : List NodeInfo) (h : locNodes clean p o l = some ns) : locNodes clean p' o l = some ns := by
  unfold locNodes at h ⊢
  unfold Profile.findMapping at h ⊢
  rw [e.maps]
  exact optAll_mono _ _ _ _ (fun ln _ b hb => nodeInfo_mono clean e o l ln _ b hb) h

/-- the node list of one location id (the function mapped over `Sample.Location` by `framesOf`) -/
def locOf (clean : Str → Str) (p : Profile) (o : GOpts) (id : Nat) : Option (List NodeInfo) :=
  match p.findLocation id with
  | none => none
  | some l => locNodes clean p o l

theorem framesOf_eq (clean : Str → Str) (p : Profile) (o : GOpts) (s : Sample) :
    framesOf clean p o s = (optAll (locOf clean p o) s.locationIDs).map
      (fun perLoc => (perLoc.map List.reverse).reverse.flatten) := by
  unfold framesOf
  have h : ∀ (x : Option (List (List NodeInfo))),
      (match x with
        | none => none
        | some perLoc => some ((perLoc.map List.reverse).reverse.flatten)) =
      x.map (fun perLoc => (perLoc.map List.reverse).reverse.flatten) := by
    intro x; cases x <;> rfl
  exact h _

/-- the per-location node lists of a sample's own locations are unchanged -/
theorem perLoc_mono (clean : Str → Str) {p p' : Profile} (e : Ext p p') (o : GOpts) (ids : List Nat)
    (per : List (List NodeInfo)) (h : optAll (locOf clean p o) ids = some per) :
    optAll (locOf clean p' o) ids = some per := by
  apply optAll_mono _ _ _ _ _ h
  intro id _ b hb
  unfold locOf at hb ⊢
  cases hl : p.findLocation id with
  | none => simp [hl] at hb
  | some l =>
    rw [e.locs _ _ hl]
    simp only [hl] at hb
    exact locNodes_mono clean e o l b hb

theorem pseudo_locNodes (clean : Str → Str) (p : Profile) (hm : p.findMapping 0 = none) (o : GOpts) (s : Sample)
    (id : Nat) (k : Str) (h : Pseudo p id (joinComma (labelValues s k), k)) :
    locOf clean p o id = some [tagFrame clean s k] := by
  obtain ⟨fid, h0, hl, hf⟩ := h
  unfold locOf
  rw [hl]
  simp only
  unfold locNodes pseudoLoc
  simp only [hm, List.isEmpty_cons, Bool.false_eq_true, if_false, optAll]
  unfold nodeInfo
  simp only [h0, if_false, hf, pseudoFn]
  unfold tagFrame
  by_cases hk : k = []
  · subst hk; simp
  · simp [hk]

/-! ### one sample -/

/-- `s'` is `s` with pseudo location ids for the leaf keys in front and for the root keys behind -/
def Tagged (p : Profile) (rootKeys leafKeys : List Str) (s s' : Sample) : Prop :=
  ∃ leaves roots, s' = { s with locationIDs := leaves ++ s.locationIDs ++ roots } ∧
    AllPseudo p s leaves leafKeys.reverse ∧ AllPseudo p s roots rootKeys.reverse

theorem Tagged.mono {p p' : Profile} {rk lk : List Str} {s s' : Sample} (h : Tagged p rk lk s s') (e : Ext p p') :
    Tagged p' rk lk s s' := by
  obtain ⟨lv, rt, h1, h2, h3⟩ := h
  exact ⟨lv, rt, h1, h2.mono e, h3.mono e⟩

theorem tagSample_spec (p0 : Profile) (rk lk : List Str) (acc : TagSt × List Sample) (s : Sample)
    (h : TagInv p0 acc.1) :
    TagInv p0 (tagSample rk lk acc s).1 ∧ Ext acc.1.p (tagSample rk lk acc s).1.p ∧
    ∃ s', (tagSample rk lk acc s).2 = acc.2 ++ [s'] ∧ Tagged (tagSample rk lk acc s).1.p rk lk s s' := by
  obtain ⟨h1, e1, a1⟩ := makeLabelLocs_spec p0 acc.1 s rk h
  obtain ⟨h2, e2, a2⟩ := makeLabelLocs_spec p0 (makeLabelLocs acc.1 s rk).1 s lk h1
  unfold tagSample
  simp only
  split
  · rename_i hz
    refine ⟨h2, e1.trans e2, s, rfl, ?_⟩
    have hl : (makeLabelLocs (makeLabelLocs acc.1 s rk).1 s lk).2 = [] := by
      apply List.eq_nil_of_length_eq_zero; omega
    have hr : (makeLabelLocs acc.1 s rk).2 = [] := by
      apply List.eq_nil_of_length_eq_zero; omega
    refine ⟨[], [], by simp, ?_, ?_⟩
    · rw [← hl]; exact a2
    · rw [← hr]; exact a1.mono e2
  · exact ⟨h2, e1.trans e2, _, rfl, _, _, rfl, a2, a1.mono e2⟩

/-- all samples: the output list is pointwise `Tagged` relative to the FINAL tables -/
def AllTagged (p : Profile) (rk lk : List Str) : List Sample → List Sample → Prop
  | [], [] => True
  | s :: r, s' :: r' => Tagged p rk lk s s' ∧ AllTagged p rk lk r r'
  | _, _ => False

theorem AllTagged.mono {p p' : Profile} {rk lk : List Str} (e : Ext p p') :
    ∀ {l l' : List Sample}, AllTagged p rk lk l l' → AllTagged p' rk lk l l'
  | [], [], _ => trivial
  | _ :: _, _ :: _, h => ⟨h.1.mono e, AllTagged.mono e h.2⟩
  | [], _ :: _, h => h.elim
  | _ :: _, [], h => h.elim

theorem AllTagged.snoc {p : Profile} {rk lk : List Str} : ∀ {l l' : List Sample} {s s' : Sample},
    AllTagged p rk lk l l' → Tagged p rk lk s s' → AllTagged p rk lk (l ++ [s]) (l' ++ [s'])
  | [], [], _, _, _, h => ⟨h, trivial⟩
  | _ :: _, _ :: _, _, _, h, ht => ⟨h.1, AllTagged.snoc h.2 ht⟩
  | [], _ :: _, _, _, h, _ => h.elim
  | _ :: _, [], _, _, h, _ => h.elim

theorem tagFold_spec (p0 : Profile) (rk lk : List Str) (ss : List Sample) :
    ∀ (acc : TagSt × List Sample) (done : List Sample), TagInv p0 acc.1 → AllTagged acc.1.p rk lk done acc.2 →
    TagInv p0 (ss.foldl (tagSample rk lk) acc).1 ∧
    AllTagged (ss.foldl (tagSample rk lk) acc).1.p rk lk (done ++ ss) (ss.foldl (tagSample rk lk) acc).2 := by
  induction ss with
  | nil => intro acc done h ha; simpa using ⟨h, ha⟩
  | cons s ss ih =>
    intro acc done h ha
    simp only [List.foldl_cons]
    obtain ⟨h1, e1, s', hs', ht⟩ := tagSample_spec p0 rk lk acc s h
    have ha1 : AllTagged (tagSample rk lk acc s).1.p rk lk (done ++ [s]) (tagSample rk lk acc s).2 := by
      rw [hs']; exact (ha.mono e1).snoc ht
    have := ih _ (done ++ [s]) h1 ha1
    simpa using this

theorem addLabelNodes_spec (p : Profile) (rk lk : List Str) :
    ∃ st : TagSt, Ext p st.p ∧ (addLabelNodes p rk lk).locations = st.p.locations ∧
      (addLabelNodes p rk lk).functions = st.p.functions ∧ (addLabelNodes p rk lk).mappings = p.mappings ∧
      AllTagged st.p rk lk p.samples (addLabelNodes p rk lk).samples := by
  have h0 : TagInv p { p := p, tbl := [], nextLoc := maxId (p.locations.map (·.id)) + 1, nextFn := maxId (p.functions.map (·.id)) + 1 } := by
    refine ⟨Ext.refl _, ?_, ?_, Nat.succ_pos _, ?_⟩
    · intro l hl
      exact Nat.lt_succ_of_le (le_maxId _ _ (List.mem_map.mpr ⟨l, hl, rfl⟩))
    · intro f hf
      exact Nat.lt_succ_of_le (le_maxId _ _ (List.mem_map.mpr ⟨f, hf, rfl⟩))
    · intro key id hk; simp at hk
  obtain ⟨h1, ha⟩ := tagFold_spec p rk lk p.samples (_, []) [] h0 trivial
  unfold addLabelNodes
  simp only
  generalize List.foldl (tagSample rk lk) _ p.samples = r at h1 ha
  obtain ⟨st, samples⟩ := r
  exact ⟨st, h1.ext, rfl, rfl, h1.ext.maps, by simpa using ha⟩

/-! ### the stack of a tagged sample -/

theorem flatten_singletons {α β : Type} (g : α → β) (l : List α) : (l.map (fun k => [g k])).flatten = l.map g := by
  induction l with
  | nil => rfl
  | cons a r ih => simp [ih]

theorem framesOf_tagged (clean : Str → Str) (p p' : Profile) (e : Ext p p') (hm : p'.findMapping 0 = none)
    (o : GOpts) (rk lk : List Str) (s s' : Sample) (fs : List NodeInfo)
    (ht : Tagged p' rk lk s s') (hf : framesOf clean p o s = some fs) :
    framesOf clean p' o s' = some (extendFrames clean rk lk s fs) := by
  obtain ⟨lv, rt, rfl, hlv, hrt⟩ := ht
  rw [framesOf_eq] at hf ⊢
  cases hper : optAll (locOf clean p o) s.locationIDs with
  | none => simp [hper] at hf
  | some per =>
    simp only [hper, Option.map_some, Option.some.injEq] at hf
    have hown := perLoc_mono clean e o s.locationIDs per hper
    have hleaf := optAll_zip (locOf clean p' o) (fun k => [tagFrame clean s k]) lv lk.reverse hlv.1
        (fun x hx => pseudo_locNodes clean p' hm o s x.1 x.2 (hlv.2 x hx))
    have hroot := optAll_zip (locOf clean p' o) (fun k => [tagFrame clean s k]) rt rk.reverse hrt.1
        (fun x hx => pseudo_locNodes clean p' hm o s x.1 x.2 (hrt.2 x hx))
    have hall := optAll_append _ _ _ _ _ (optAll_append _ _ _ _ _ hleaf hown) hroot
    simp only [hall, Option.map_some]
    rw [← hf]
    unfold extendFrames tagFrames
    simp only [List.map_append, List.reverse_append, List.flatten_append, List.map_map, List.map_reverse,
      List.reverse_reverse, List.append_assoc]
    have hsing : ∀ (l : List Str),
        (List.map (List.reverse ∘ fun k => [tagFrame clean s k]) l).flatten = l.map (tagFrame clean s) := by
      intro l
      have : (List.reverse ∘ fun k => [tagFrame clean s k]) = fun k => [tagFrame clean s k] := by
        funext k; simp
      rw [this, flatten_singletons]
    rw [hsing, hsing]

end PV.Graph
