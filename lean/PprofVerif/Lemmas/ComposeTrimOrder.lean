import PprofVerif.Lemmas.Trim
import PprofVerif.Lemmas.GraphOrder
import PprofVerif.Model.TrimOrder
/-!
# Composition C05 ← C08: the order of a trimmed text report is the regenerated comparator

* `order_eq_entryLess`: C05's hand-written `lessFlat`/`lessCum` equal the comparators denoted (by
  C08's interpreter `lessOf`) by the descriptor lists `flatNameKeys`/`cumNameKeys` — which C08
  checks on every run to be the lists regenerated from graph.go — on entries whose weights are
  not MinInt64 (Go's `abs64` leaves MinInt64 negative; C05's model uses |·|);
* `entryLess_strictWeak`, `entryLess_separates`: C08's generic theorems instantiated on entries;
* `sortBy_order_sorted`, `sortBy_order_unique`: C05's sort returns the sorted arrangement, and the
  only one when distinct entries have distinct `fmt.Sprint(Info)` strings;
* `entryLess_entryOfNode`, `infoStr_inj_of_spaceFree`: for entries of graph nodes the comparator is
  C08's `nodeLess`, and the separation hypothesis follows from `SpaceFree` + nodes keyed by info.
-/
namespace PV.Trim
open PV.Order PV.GraphOrder PV.GSpec

theorem abs64_eq_absI {x : Int} (h : x ≠ minI64) : abs64 x = absI x := by
  unfold abs64 absI
  split <;> rfl

theorem Key.lt_single (x y : Int) : Key.lt [x] [y] = decide (x < y) := by
  unfold Key.lt
  by_cases h : x < y
  · simp [h]
  · by_cases h2 : y < x
    · simp [h, h2]
    · simp [h, h2, Key.lt]

theorem Key.lt_skey : ∀ (s t : Str), Key.lt (skey s) (skey t) = Str.lt s t
  | [], [] => rfl
  | [], _ :: _ => rfl
  | _ :: _, [] => rfl
  | a :: s, b :: t => by
    have ih := Key.lt_skey s t
    simp only [skey, List.map_cons] at ih ⊢
    unfold Key.lt Str.lt
    have h1 : ((a.toNat : Int) < (b.toNat : Int)) ↔ a < b := by
      rw [UInt8.lt_iff_toNat_lt]; omega
    have h2 : ((b.toNat : Int) < (a.toNat : Int)) ↔ b < a := by
      rw [UInt8.lt_iff_toNat_lt]; omega
    simp only [h1, h2, ih]

theorem skey_bne (s t : Str) : (skey s != skey t) = decide (s ≠ t) := by
  by_cases h : s = t
  · subst h; simp
  · have : skey s ≠ skey t := fun hh => h (skey_inj hh)
    simp [h, this]

theorem Str.lt_ne {s t : Str} (h : Str.lt s t = true) : s ≠ t := by
  intro e
  subst e
  rw [← Key.lt_skey, Key.lt_irrefl] at h
  cases h

theorem single_bne (x y : Int) : (([x] : Key) != [y]) = decide (x ≠ y) := by
  by_cases h : x = y
  · subst h; simp
  · simp [h]

theorem lessFlat_eq (a b : Entry) (ha : NoMin a) (hb : NoMin b) :
    lessFlat a b = entryLess flatNameKeys a b := by
  unfold lessFlat entryLess flatNameKeys
  simp only [List.map_cons, List.map_nil, lessOf, KD.toDesc, KeyDesc.guardVal, KeyDesc.ordVal, KeyDesc.cmp,
    KeyDesc.rel, Xf.app, entryGet, ikey, List.map_cons, List.map_nil, abs64_eq_absI ha.1, abs64_eq_absI ha.2,
    abs64_eq_absI hb.1, abs64_eq_absI hb.2, Key.lt_single, Key.lt_skey, skey_bne, single_bne]
  by_cases h1 : absI a.flat = absI b.flat
  · by_cases h2 : a.name = b.name
    · by_cases h3 : absI a.cum = absI b.cum
      · simp only [h1, h2, h3, ne_eq, not_true_eq_false, decide_false, Bool.false_eq_true, if_false]
        by_cases h4 : a.infoStr = b.infoStr
        · rw [h4]
          have : Str.lt b.infoStr b.infoStr = false := by rw [← Key.lt_skey, Key.lt_irrefl]
          simp [this]
        · simp [h4]
      · simp [h1, h2, h3]
    · simp [h1, h2]
  · simp [h1]

theorem lessCum_eq (a b : Entry) (ha : NoMin a) (hb : NoMin b) :
    lessCum a b = entryLess cumNameKeys a b := by
  unfold lessCum entryLess cumNameKeys
  simp only [List.map_cons, List.map_nil, lessOf, KD.toDesc, KeyDesc.guardVal, KeyDesc.ordVal, KeyDesc.cmp,
    KeyDesc.rel, Xf.app, entryGet, ikey, List.map_cons, List.map_nil, abs64_eq_absI ha.1, abs64_eq_absI ha.2,
    abs64_eq_absI hb.1, abs64_eq_absI hb.2, Key.lt_single, Key.lt_skey, skey_bne, single_bne]
  by_cases h1 : absI a.cum = absI b.cum
  · by_cases h2 : a.name = b.name
    · by_cases h3 : absI a.flat = absI b.flat
      · simp only [h1, h2, h3, ne_eq, not_true_eq_false, decide_false, Bool.false_eq_true, if_false]
        by_cases h4 : a.infoStr = b.infoStr
        · rw [h4]
          have : Str.lt b.infoStr b.infoStr = false := by rw [← Key.lt_skey, Key.lt_irrefl]
          simp [this]
        · simp [h4]
      · simp [h1, h2, h3]
    · simp [h1, h2]
  · simp [h1]

/-- **the hand-written comparators of C05's trim model ARE the comparators-as-data of C08**
(on entries whose weights are not MinInt64, where Go's `abs64` is the mathematical absolute value) -/
theorem order_eq_entryLess (o : TrimOpts) (a b : Entry) (ha : NoMin a) (hb : NoMin b) :
    order o a b = entryLess (genOrder o) a b := by
  unfold order genOrder
  split
  · exact lessCum_eq a b ha hb
  · exact lessFlat_eq a b ha hb


/-! ### the regenerated comparators are strict weak orders on entries, and separate by `infoStr` -/

theorem genOrder_proper (o : TrimOpts) : allProperKD (genOrder o) = true := by
  unfold genOrder; split <;> decide

theorem genOrder_hasSprint (o : TrimOpts) : hasIdKey NodeProj.Sprint_Info (genOrder o) = true := by
  unfold genOrder; split <;> decide

theorem entryLess_strictWeak (o : TrimOpts) : StrictWeak (entryLess (genOrder o)) :=
  lessOf_strictWeak _ (allProper_of_KD entryGet _ (genOrder_proper o))

/-- entries the regenerated comparator cannot separate have the same `fmt.Sprint(Info)` string -/
theorem entryLess_separates (o : TrimOpts) (a b : Entry)
    (h1 : entryLess (genOrder o) a b = false) (h2 : entryLess (genOrder o) b a = false) : a.infoStr = b.infoStr := by
  have hAP := allProper_of_KD entryGet _ (genOrder_proper o)
  have hD := determines_of_hasIdKey entryGet (genOrder o) NodeProj.Sprint_Info (fun e : Entry => e.infoStr)
    (genOrder_hasSprint o) (fun a b h => skey_inj h)
  exact hD a b (lessOf_incomparable _ hAP a b h1 h2)

/-! ### C05's sort is C08's sort -/

theorem insertBy_eq (lt : Entry → Entry → Bool) (x : Entry) : ∀ l : List Entry,
    PV.Trim.insertBy lt x l = PV.Order.insertBy lt x l
  | [] => rfl
  | y :: r => by
    unfold PV.Trim.insertBy PV.Order.insertBy
    rw [insertBy_eq lt x r]

theorem sortBy_eq (lt : Entry → Entry → Bool) : ∀ l : List Entry, PV.Trim.sortBy lt l = PV.Order.sortBy lt l
  | [] => rfl
  | x :: r => by
    unfold PV.Trim.sortBy
    rw [sortBy_eq lt r, insertBy_eq]
    rfl

theorem insertBy_congr {lt lt' : Entry → Entry → Bool} (x : Entry) : ∀ l : List Entry,
    (∀ y ∈ l, lt y x = lt' y x) → PV.Trim.insertBy lt x l = PV.Trim.insertBy lt' x l
  | [], _ => rfl
  | y :: r, h => by
    unfold PV.Trim.insertBy
    rw [h y (by simp), insertBy_congr x r (fun z hz => h z (List.mem_cons_of_mem _ hz))]

theorem sortBy_congr {lt lt' : Entry → Entry → Bool} : ∀ l : List Entry,
    (∀ a ∈ l, ∀ b ∈ l, lt a b = lt' a b) → PV.Trim.sortBy lt l = PV.Trim.sortBy lt' l
  | [], _ => rfl
  | x :: r, h => by
    unfold PV.Trim.sortBy
    rw [sortBy_congr r (fun a ha b hb => h a (List.mem_cons_of_mem _ ha) b (List.mem_cons_of_mem _ hb))]
    apply insertBy_congr
    intro y hy
    have hy' : y ∈ r := (sortBy_perm lt' r).mem_iff.mp hy
    exact h y (List.mem_cons_of_mem _ hy') x (by simp)

/-- on a list of entries without MinInt64 weights, sorting by C05's hand-written order is sorting
(with C08's model sort) by the regenerated comparator -/
theorem sortBy_order_eq (o : TrimOpts) (l : List Entry) (hl : ∀ e ∈ l, NoMin e) :
    PV.Trim.sortBy (order o) l = PV.Order.sortBy (entryLess (genOrder o)) l := by
  rw [sortBy_congr (lt' := entryLess (genOrder o)) l (fun a ha b hb => order_eq_entryLess o a b (hl a ha) (hl b hb)),
    sortBy_eq]

/-- … hence it has no inversion, with NO hypothesis on the comparator -/
theorem sortBy_order_sorted (o : TrimOpts) (l : List Entry) (hl : ∀ e ∈ l, NoMin e) :
    (PV.Trim.sortBy (order o) l).Pairwise (fun a b => order o b a = false) := by
  have hperm := sortBy_perm (order o) l
  have h := noInv_sortBy (entryLess_strictWeak o) l
  rw [← sortBy_order_eq o l hl] at h
  unfold NoInv at h
  have hmem : ∀ e ∈ PV.Trim.sortBy (order o) l, NoMin e := fun e he => hl e (hperm.mem_iff.mp he)
  revert h hmem
  generalize PV.Trim.sortBy (order o) l = s
  intro h hmem
  induction h with
  | nil => exact List.Pairwise.nil
  | @cons x r hx _ ih =>
    refine List.Pairwise.cons ?_ (ih (fun e he => hmem e (List.mem_cons_of_mem _ he)))
    intro y hy
    rw [order_eq_entryLess o y x (hmem y (List.mem_cons_of_mem _ hy)) (hmem x (by simp))]
    exact hx y hy

/-- … and it is THE sorted arrangement: any permutation without adjacent inversion (what a correct
`sort.Sort` returns) equals it, provided distinct entries have distinct `fmt.Sprint(Info)` strings -/
theorem sortBy_order_unique (o : TrimOpts) (l l' : List Entry) (hl : ∀ e ∈ l, NoMin e)
    (hinj : ∀ a ∈ l, ∀ b ∈ l, a.infoStr = b.infoStr → a = b)
    (hperm : l'.Perm l) (hs : AdjSorted (order o) l') : l' = PV.Trim.sortBy (order o) l := by
  rw [sortBy_order_eq o l hl]
  have hsw := entryLess_strictWeak o
  have hs' : AdjSorted (entryLess (genOrder o)) l' := by
    have hmem : ∀ e ∈ l', NoMin e := fun e he => hl e (hperm.mem_iff.mp he)
    clear hperm
    induction l' with
    | nil => trivial
    | cons a r ih =>
      cases r with
      | nil => trivial
      | cons b r' =>
        obtain ⟨h1, h2⟩ := hs
        refine ⟨?_, ih h2 (fun e he => hmem e (List.mem_cons_of_mem _ he))⟩
        rw [← order_eq_entryLess o b a (hmem b (by simp)) (hmem a (by simp))]
        exact h1
  refine noInv_perm_unique (hperm.trans (perm_sortBy _ l).symm) ?_ (adjSorted_noInv hsw l' hs') (noInv_sortBy hsw l)
  intro a ha b hb h1 h2
  exact hinj a (hperm.mem_iff.mp ha) b (hperm.mem_iff.mp hb) (entryLess_separates o a b h1 h2)

/-! ### entries that come from graph nodes: the tie with C08's `nodeLess` and with `SpaceFree` -/

theorem lessOf_congr {α β : Type} {π : Type} (g1 : π → α → Key) (g2 : π → β → Key) (a b : α) (a' b' : β) :
    ∀ ks : List (KD π), (∀ d ∈ ks, g1 d.proj a = g2 d.proj a' ∧ g1 d.proj b = g2 d.proj b') →
      lessOf (ks.map (KD.toDesc g1)) a b = lessOf (ks.map (KD.toDesc g2)) a' b'
  | [], _ => rfl
  | d :: ks, h => by
    obtain ⟨h1, h2⟩ := h d (by simp)
    have ih := lessOf_congr g1 g2 a b a' b' ks (fun e he => h e (List.mem_cons_of_mem _ he))
    simp only [List.map_cons, lessOf, KeyDesc.guardVal, KeyDesc.ordVal, KeyDesc.cmp, KeyDesc.rel, KD.toDesc, h1, h2, ih]
    rfl

theorem entryGet_entryOfNode (p : NodeProj) (hp : readable p = true) (i : Nat) (n : Node) :
    entryGet p (entryOfNode i n) = NodeProj.get (.field .Cum) p n := by
  cases p <;> first | rfl | (simp [readable] at hp)

theorem genOrder_readable (o : TrimOpts) : (genOrder o).all (fun d => readable d.proj) = true := by
  unfold genOrder; split <;> decide

/-- on entries of graph nodes the regenerated comparator on entries is C08's `nodeLess` on the nodes
(with the score map of CumNameOrder, `score[n] = n.Cum`) -/
theorem entryLess_entryOfNode (o : TrimOpts) (i j : Nat) (a b : Node) :
    entryLess (genOrder o) (entryOfNode i a) (entryOfNode j b) = nodeLess (.field .Cum) (genOrder o) a b := by
  unfold entryLess nodeLess
  apply lessOf_congr
  intro d hd
  have hr := List.all_eq_true.mp (genOrder_readable o) d hd
  exact ⟨entryGet_entryOfNode d.proj hr i a, entryGet_entryOfNode d.proj hr j b⟩

/-- entries of graph nodes that are keyed by their NodeInfo (distinct nodes, distinct infos) and
whose infos are space-free have pairwise distinct `fmt.Sprint(Info)` strings — the hypothesis
`hinj` of `sortBy_order_unique` -/
theorem infoStr_inj_of_spaceFree (idOf : Node → Nat) (ns : List Node) (hsf : ∀ n ∈ ns, SpaceFree n.info)
    (hkey : ∀ a ∈ ns, ∀ b ∈ ns, a.info = b.info → a = b) :
    ∀ a ∈ ns.map (fun n => entryOfNode (idOf n) n), ∀ b ∈ ns.map (fun n => entryOfNode (idOf n) n),
      a.infoStr = b.infoStr → a = b := by
  intro a ha b hb hab
  obtain ⟨n, hn, rfl⟩ := List.mem_map.mp ha
  obtain ⟨m, hm, rfl⟩ := List.mem_map.mp hb
  have hinfo : n.info = m.info := sprintInfo_inj (hsf n hn) (hsf m hm) hab
  rw [hkey n hn m hm hinfo]

end PV.Trim
