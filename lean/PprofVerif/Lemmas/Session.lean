import PprofVerif.Model.Session
/-!
Helper lemmas about `Model/Session` for the C10 property theorems (core Lean only).
-/
namespace PV.Session

variable {π ρ : Type}

/-! ### option record -/

theorem put_keys (c : Config) (n v : Str) : (c.put n v).keys = c.keys := by
  unfold Config.put Config.keys
  induction c with
  | nil => rfl
  | cons kv r ih =>
    simp only [List.map_cons, List.cons.injEq]
    refine ⟨?_, ih⟩
    split <;> rfl

theorem get_put_same (c : Config) (n v : Str) (h : n ∈ c.keys) : (c.put n v).get n = some v := by
  unfold Config.put Config.get Config.keys at *
  induction c with
  | nil => simp at h
  | cons kv r ih =>
    obtain ⟨k, w⟩ := kv
    by_cases hk : k = n
    · subst hk; simp
    · have hne : (n == k) = false := by simpa using fun h' => hk h'.symm
      have hne' : (k == n) = false := by simpa using hk
      simp only [List.map_cons, hne', Bool.false_eq_true, ↓reduceIte, List.lookup, hne]
      apply ih
      simp only [List.map_cons, List.mem_cons] at h
      rcases h with h | h
      · exact absurd h.symm hk
      · exact h

theorem get_put_other (c : Config) (n m v : Str) (h : m ≠ n) : (c.put n v).get m = c.get m := by
  unfold Config.put Config.get
  induction c with
  | nil => rfl
  | cons kv r ih =>
    obtain ⟨k, w⟩ := kv
    by_cases hk : k = n
    · subst hk
      have : (m == k) = false := by simpa using h
      simp only [List.map_cons, BEq.rfl, ↓reduceIte, List.lookup, this]
      exact ih
    · have hne' : (k == n) = false := by simpa using hk
      simp only [List.map_cons, hne', Bool.false_eq_true, ↓reduceIte, List.lookup]
      split <;> simp_all

theorem setField_keys {fl} {f : FieldD} {v : Str} {c c' : Config} (h : setField fl f v c = .ok c') :
    c'.keys = c.keys := by
  unfold setField at h
  split at h
  · split at h
    · cases h; exact put_keys ..
    · split at h
      · cases h; exact put_keys ..
      · cases h
  · split at h
    · cases h; exact put_keys ..
    · cases h
  · split at h
    · cases h; exact put_keys ..
    · cases h
  · split at h
    · cases h; exact put_keys ..
    · cases h

theorem configure_keys {fl} {n v : Str} {c c' : Config} (h : configure fl n v c = .ok c') :
    c'.keys = c.keys := by
  unfold configure at h
  split at h
  · cases h
  · split at h
    · exact setField_keys h
    · split at h
      · exact setField_keys h
      · cases h

theorem assign_keys {fl} {s : Session} {n : Str} {rhs : Option Str} {c' : Config}
    (h : assign fl s n rhs = .ok c') : c'.keys = s.cfg.keys := by
  unfold assign at h
  split at h
  · cases h
  · simp only at h
    split at h
    · split at h
      · cases h
      · exact configure_keys h
    · exact configure_keys h

/-! ### one input -/

/-- the loop body never touches the copier, the sample types or the default type. -/
theorem stepInput_frame (E : Env π ρ) (s : Session) (i : Str) :
    (stepInput E s i).1.copier = s.copier ∧ (stepInput E s i).1.stypes = s.stypes ∧
    (stepInput E s i).1.dfltType = s.dfltType := by
  unfold stepInput
  simp only
  split
  · split <;> simp
  · split
    · simp
    · split
      · simp
      · split
        · simp
        · split
          · simp
          · split
            · simp
            · split <;> simp

/-- `done` is only ever set, never cleared. -/
theorem stepInput_done_mono (E : Env π ρ) (s : Session) (i : Str) (h : (stepInput E s i).1.done = false) :
    s.done = false := by
  unfold stepInput at h
  simp only at h
  split at h
  · split at h <;> simpa using h
  · split at h
    · simpa using h
    · split at h
      · simpa using h
      · split at h
        · simp at h
        · split at h
          · simpa using h
          · split at h
            · simpa using h
            · split at h
              · simpa using h
              · simp at h

/-- an input that does not take the `name=value` branch leaves every option as it was; the only
state change it can cause is ending the session. -/
theorem stepInput_nonassign (E : Env π ρ) (s : Session) (i : Str) (h : isAssignInput i = false) :
    (stepInput E s i).1 = s ∨ (stepInput E s i).1 = { s with done := true } := by
  unfold isAssignInput at h
  unfold stepInput
  simp only [h, Bool.false_eq_true, ↓reduceIte]
  split
  · left; rfl
  · split
    · left; rfl
    · split
      · right; rfl
      · split
        · left; rfl
        · split
          · left; rfl
          · split
            · left; rfl
            · right; rfl

theorem stepInput_nonassign_cfg (E : Env π ρ) (s : Session) (i : Str) (h : isAssignInput i = false) :
    (stepInput E s i).1.cfg = s.cfg := by
  rcases stepInput_nonassign E s i h with h' | h' <;> rw [h']

theorem stepInput_nonassign_alive (E : Env π ρ) (s : Session) (i : Str) (h : isAssignInput i = false)
    (hd : (stepInput E s i).1.done = false) : (stepInput E s i).1 = s := by
  rcases stepInput_nonassign E s i h with h' | h'
  · exact h'
  · rw [h'] at hd; simp at hd

/-- an input that takes the `name=value` branch: the new options are exactly what `assign` computes,
nothing is printed on success and nothing changes on failure. -/
theorem stepInput_assign (E : Env π ρ) (s : Session) (i : Str) (h : isAssignInput i = true) :
    stepInput E s i =
      match assign E.floatNorm s (trimSpace (splitEq i).1) (splitEq i).2 with
      | .ok c => ({ s with cfg := c }, [])
      | .error k => (s, [.err k]) := by
  unfold isAssignInput at h
  unfold stepInput
  simp only [h, ↓reduceIte]
  cases assign E.floatNorm s (trimSpace (splitEq i).1) (splitEq i).2 <;> rfl

/-! ### one line -/

theorem stepInputs_frame (E : Env π ρ) (l : List Str) : ∀ (s : Session),
    (stepInputs E s l).1.copier = s.copier ∧ (stepInputs E s l).1.stypes = s.stypes ∧
    (stepInputs E s l).1.dfltType = s.dfltType := by
  induction l with
  | nil => intro s; simp [stepInputs]
  | cons i r ih =>
    intro s
    unfold stepInputs
    split
    · simp
    · have h1 := stepInput_frame E s i
      have h2 := ih (stepInput E s i).1
      simp only
      exact ⟨h2.1.trans h1.1, h2.2.1.trans h1.2.1, h2.2.2.trans h1.2.2⟩

theorem stepInputs_done (E : Env π ρ) (l : List Str) (s : Session) (h : s.done = true) :
    stepInputs E s l = (s, []) := by
  cases l with
  | nil => rfl
  | cons i r => unfold stepInputs; simp [h]

theorem stepInputs_done_mono (E : Env π ρ) (l : List Str) : ∀ (s : Session),
    (stepInputs E s l).1.done = false → s.done = false := by
  induction l with
  | nil => intro s h; simpa [stepInputs] using h
  | cons i r ih =>
    intro s h
    unfold stepInputs at h
    split at h
    · simpa using h
    · simp only at h
      exact stepInput_done_mono E s i (ih _ h)

theorem stepInputs_single (E : Env π ρ) (s : Session) (i : Str) (h : s.done = false) :
    stepInputs E s [i] = stepInput E s i := by
  unfold stepInputs
  simp [h, stepInputs]

theorem step_frame (E : Env π ρ) (s : Session) (l : Str) :
    (step E s l).1.copier = s.copier ∧ (step E s l).1.stypes = s.stypes ∧
    (step E s l).1.dfltType = s.dfltType := stepInputs_frame E _ s

theorem expand_nonempty (st : List Str) (l : Str) (h : lookupShortcut st (trimSpace l) = none) :
    expand st l = [trimSpace l] := by
  unfold expand; rw [h]

theorem step_done (E : Env π ρ) (s : Session) (l : Str) (h : s.done = true) : step E s l = (s, []) :=
  stepInputs_done E _ s h

theorem step_done_mono (E : Env π ρ) (s : Session) (l : Str) (h : (step E s l).1.done = false) :
    s.done = false := stepInputs_done_mono E _ s h

theorem not_assignLine {st : List Str} {l : Str} (h : isAssignLine st l = false) :
    lookupShortcut st (trimSpace l) = none ∧ isAssignInput (trimSpace l) = false := by
  unfold isAssignLine at h
  simp only [Bool.or_eq_false_iff] at h
  refine ⟨?_, h.2⟩
  cases hh : lookupShortcut st (trimSpace l) with
  | none => rfl
  | some _ => rw [hh] at h; simp at h

/-- a line that is not an assignment leaves the session as it was, or ends it. -/
theorem step_nonassign (E : Env π ρ) (s : Session) (l : Str) (h : isAssignLine s.stypes l = false) :
    (step E s l).1 = s ∨ (step E s l).1 = { s with done := true } := by
  obtain ⟨h1, h2⟩ := not_assignLine h
  by_cases hd : s.done = true
  · left; rw [step_done E s l hd]
  · have hd' : s.done = false := by simpa using hd
    unfold step
    rw [expand_nonempty _ _ h1, stepInputs_single E s _ hd']
    exact stepInput_nonassign E s _ h2

theorem step_nonassign_alive (E : Env π ρ) (s : Session) (l : Str) (h : isAssignLine s.stypes l = false)
    (hd : (step E s l).1.done = false) : (step E s l).1 = s := by
  rcases step_nonassign E s l h with h' | h'
  · exact h'
  · rw [h'] at hd; simp at hd

/-! ### histories -/

theorem run_frame (E : Env π ρ) (h : List Str) : ∀ (s : Session),
    (run E s h).copier = s.copier ∧ (run E s h).stypes = s.stypes ∧ (run E s h).dfltType = s.dfltType := by
  induction h with
  | nil => intro s; simp [run]
  | cons l t ih =>
    intro s
    have h1 := step_frame E s l
    have h2 := ih (step E s l).1
    unfold run
    exact ⟨h2.1.trans h1.1, h2.2.1.trans h1.2.1, h2.2.2.trans h1.2.2⟩

theorem run_done (E : Env π ρ) (h : List Str) : ∀ (s : Session), s.done = true → run E s h = s := by
  induction h with
  | nil => intro s _; rfl
  | cons l t ih =>
    intro s hd
    unfold run
    rw [step_done E s l hd]
    exact ih s hd

theorem run_done_mono (E : Env π ρ) (h : List Str) : ∀ (s : Session),
    (run E s h).done = false → s.done = false := by
  induction h with
  | nil => intro s hd; exact hd
  | cons l t ih =>
    intro s hd
    unfold run at hd
    exact step_done_mono E s l (ih _ hd)

theorem run_append (E : Env π ρ) (h1 h2 : List Str) : ∀ (s : Session),
    run E s (h1 ++ h2) = run E (run E s h1) h2 := by
  induction h1 with
  | nil => intro s; rfl
  | cons l t ih => intro s; simp only [List.cons_append, run]; exact ih _

/-- commands of a live history can be deleted without changing the state reached: only the
assignment lines matter. -/
theorem run_filter_assign (E : Env π ρ) (h : List Str) : ∀ (s : Session),
    (run E s h).done = false →
    run E s (h.filter (isAssignLine s.stypes)) = run E s h := by
  induction h with
  | nil => intro s _; rfl
  | cons l t ih =>
    intro s hd
    have hd1 : (step E s l).1.done = false := by
      unfold run at hd; exact run_done_mono E t _ hd
    have hst : (step E s l).1.stypes = s.stypes := (step_frame E s l).2.1
    have ih' := ih (step E s l).1 (by unfold run at hd; exact hd)
    rw [hst] at ih'
    by_cases ha : isAssignLine s.stypes l = true
    · simp only [List.filter_cons, ha, ↓reduceIte, run]
      exact ih'
    · have ha' : isAssignLine s.stypes l = false := by simpa using ha
      have hs : (step E s l).1 = s := step_nonassign_alive E s l ha' hd1
      simp only [List.filter_cons, ha', Bool.false_eq_true, ↓reduceIte, run]
      rw [hs] at ih' ⊢
      exact ih'

/-- a run of non-assignment lines that leaves the session alive leaves it unchanged. -/
theorem run_nonassign (E : Env π ρ) (cs : List Str) : ∀ (s : Session),
    (∀ c ∈ cs, isAssignLine s.stypes c = false) → (run E s cs).done = false → run E s cs = s := by
  induction cs with
  | nil => intro s _ _; rfl
  | cons l t ih =>
    intro s hall hd
    have hd1 : (step E s l).1.done = false := by unfold run at hd; exact run_done_mono E t _ hd
    have hs : (step E s l).1 = s := step_nonassign_alive E s l (hall l (List.mem_cons_self ..)) hd1
    unfold run at hd ⊢
    rw [hs] at hd ⊢
    exact ih s (fun c hc => hall c (List.mem_cons_of_mem _ hc)) hd

/-- options after a run of non-assignment lines: unchanged, alive or not. -/
theorem run_nonassign_cfg (E : Env π ρ) (cs : List Str) : ∀ (s : Session),
    (∀ c ∈ cs, isAssignLine s.stypes c = false) → (run E s cs).cfg = s.cfg := by
  induction cs with
  | nil => intro s _; rfl
  | cons l t ih =>
    intro s hall
    unfold run
    rcases step_nonassign E s l (hall l (List.mem_cons_self ..)) with hs | hs
    · rw [hs]; exact ih s (fun c hc => hall c (List.mem_cons_of_mem _ hc))
    · rw [hs, run_done E t _ rfl]

/-- output of a report line in a live session. -/
theorem step_report (E : Env π ρ) (s : Session) (c : Str) (hd : s.done = false)
    (hc : isReportLine s.stypes c = true) :
    (step E s c).2 = commandOutput E s.copier s.cfg c := by
  unfold isReportLine at hc
  simp only [Bool.and_eq_true, Bool.not_eq_true'] at hc
  obtain ⟨ha, hm⟩ := hc
  obtain ⟨h1, h2⟩ := not_assignLine ha
  unfold step
  rw [expand_nonempty _ _ h1, stepInputs_single E s _ hd]
  unfold isAssignInput at h2
  unfold stepInput commandOutput
  simp only [h2, Bool.false_eq_true, ↓reduceIte]
  cases hf : fields (trimSpace c) with
  | nil => rfl
  | cons t0 rest =>
    rw [hf] at hm
    simp only [Bool.and_eq_true, Bool.not_eq_true'] at hm
    obtain ⟨⟨ho, hq⟩, hh⟩ := hm
    simp only [ho, hq, hh, Bool.false_eq_true, ↓reduceIte]
    split
    · rfl
    · split <;> rfl

/-! ### web -/

variable {σ μ : Type}

theorem handle_frame (E : WebEnv π ρ σ μ) (w : Web σ) (r : Req) :
    (handle E w r).1.copier = w.copier ∧ (handle E w r).1.cfg = w.cfg := by
  unfold handle
  cases r with
  | view e ps =>
    simp only
    split
    · simp
    · split <;> simp
  | download => simp
  | saveConfig ps =>
    simp only
    split <;> simp
  | deleteConfig n => simp

theorem serve_frame (E : WebEnv π ρ σ μ) (rs : List Req) : ∀ (w : Web σ),
    (serve E w rs).copier = w.copier ∧ (serve E w rs).cfg = w.cfg := by
  induction rs with
  | nil => intro w; simp [serve]
  | cons r t ih =>
    intro w
    have h1 := handle_frame E w r
    have h2 := ih (handle E w r).1
    unfold serve
    exact ⟨h2.1.trans h1.1, h2.2.trans h1.2⟩

theorem handle_view (E : WebEnv π ρ σ μ) (w : Web σ) (e : Endpoint) (ps : List (Str × Str)) :
    (handle E w (.view e ps)).2.body = viewOutput E w.copier w.cfg e ps := by
  unfold handle viewOutput
  simp only
  split
  · rfl
  · split
    · rfl
    · -- decode failed: no page
      rename_i hdec
      simp only [Resp.body]

end PV.Session
