import PprofVerif.Lemmas.DotDocLex
/-! C18 helper lemmas: the tokens of the document model parse into its statements. -/
namespace PV.Dot

def attrVals : List Attr → List (Bytes × Bytes)
  | [] => []
  | a :: as => (a.key, a.val.raw) :: attrVals as

def nodesOf : List Stmt → List NodeStmt
  | [] => []
  | .node i as :: ss => ⟨i, attrVals as⟩ :: nodesOf ss
  | .edge _ _ _ :: ss => nodesOf ss

def edgesOf : List Stmt → List (Bytes × Bytes)
  | [] => []
  | .node _ _ :: ss => edgesOf ss
  | .edge s d _ :: ss => (s, d) :: edgesOf ss

/-- the next token neither continues an attribute list nor is a separator -/
def NoCont : List Tok → Prop
  | .lbrack :: _ => False
  | .semi :: _ => False
  | .comma :: _ => False
  | .arrow :: _ => False
  | .eq :: _ => False
  | _ => True

theorem idVal_id {w : Bytes} (h : isKw w = false) : idVal (.id w) = some w := by simp [idVal, h]
theorem attrVal_tok (a : Attr) (ha : AttrOK a) : attrVal a.val.tok = some a.val.raw := by
  have := ha.valNoKw
  cases hv : a.val with
  | bare w => rw [hv] at this; simp [AVal.tok, AVal.raw, attrVal, this]
  | quoted b => simp [AVal.tok, AVal.raw, attrVal]

theorem skipSep_attrToks (as : List Attr) (rest : List Tok) :
    skipSep (attrToks as ++ .rbrack :: rest) = attrToks as ++ .rbrack :: rest := by
  cases as <;> simp [attrToks, skipSep]

theorem pAttrItems_attrToks (as : List Attr) (has : ∀ a ∈ as, AttrOK a) : ∀ (f : Nat), as.length + 1 ≤ f →
    ∀ rest, pAttrItems f (attrToks as ++ .rbrack :: rest) = some (attrVals as, rest) := by
  induction as with
  | nil =>
    intro f hf rest
    cases f with
    | zero => omega
    | succ f => simp [attrToks, attrVals, pAttrItems]
  | cons a t ih =>
    intro f hf rest
    cases f with
    | zero => omega
    | succ f =>
      have ha := has a (by simp)
      simp only [List.length_cons] at hf
      have iht := ih (fun x hx => has x (by simp [hx])) f (by omega) rest
      simp only [attrToks, List.cons_append, pAttrItems, idVal_id ha.keyNoKw, attrVal_tok a ha,
        skipSep_attrToks, iht, attrVals]

theorem pAttrLists_nocont (f : Nat) (rest : List Tok) (hr : NoCont rest) : pAttrLists (f + 1) rest = some ([], rest) := by
  cases rest with
  | nil => simp [pAttrLists]
  | cons t r =>
    cases t
    all_goals first
      | (simp [NoCont] at hr; done)
      | simp [pAttrLists]

theorem pAttrLists_attrToks (as : List Attr) (has : ∀ a ∈ as, AttrOK a) (f : Nat) (hf : as.length + 3 ≤ f)
    (rest : List Tok) (hr : NoCont rest) :
    pAttrLists f (.lbrack :: (attrToks as ++ .rbrack :: rest)) = some (attrVals as, rest) := by
  cases f with
  | zero => omega
  | succ f =>
    cases f with
    | zero => omega
    | succ f =>
      simp only [pAttrLists, pAttrItems_attrToks as has (f + 1) (by omega) rest, pAttrLists_nocont f rest hr,
        List.append_nil]

theorem skipSemi_nocont (rest : List Tok) (hr : NoCont rest) : skipSemi rest = rest := by
  cases rest with
  | nil => rfl
  | cons t r =>
    cases t
    all_goals first
      | (simp [NoCont] at hr; done)
      | simp [skipSemi]

theorem isKw_false_parts {w : Bytes} (h : isKw w = false) :
    w.map lower ≠ kwSubgraph ∧ w.map lower ≠ kwNode ∧ w.map lower ≠ kwEdge ∧ w.map lower ≠ kwGraph ∧ w.map lower ≠ kwDigraph := by
  unfold isKw at h
  simp only [Bool.or_eq_false_iff, decide_eq_false_iff_not] at h
  obtain ⟨⟨⟨⟨⟨h1, h2⟩, h3⟩, h4⟩, h5⟩, _⟩ := h
  exact ⟨h2, h4, h5, h3, h1⟩

/-- a node statement, then the following statements -/
theorem pStmts_node (i : Bytes) (as : List Attr) (hi : isKw i = false) (has : ∀ a ∈ as, AttrOK a)
    (f depth : Nat) (hf : as.length + 3 ≤ f) (rest : List Tok) (hr : NoCont rest) :
    pStmts (f + 1) depth ((Stmt.node i as).toks ++ rest) =
      match pStmts f depth rest with
      | some (more, r2) => some ((Acc.mk [⟨i, attrVals as⟩] []).append more, r2)
      | none => none := by
  obtain ⟨k1, k2, k3, k4, _⟩ := isKw_false_parts hi
  simp only [Stmt.toks, List.cons_append, List.append_assoc, List.nil_append, pStmts, k1, k2, k3, k4, hi, if_false,
    Bool.or_self, Bool.false_eq_true, decide_false]
  simp only [stmtAfterId, pAttrLists_attrToks as has f hf rest hr, skipSemi_nocont rest hr]
  rfl

theorem pEdgeRhs_one (f : Nat) (s d : Bytes) (hd : isKw d = false) (r : List Tok) (hr : match r with | .arrow :: _ => False | _ => True) :
    pEdgeRhs (f + 2) s (.arrow :: .id d :: r) = some ([(s, d)], r) := by
  have h2 : pEdgeRhs (f + 1) d r = some ([], r) := by
    cases r with
    | nil => simp [pEdgeRhs]
    | cons t r' =>
      cases t
      all_goals first
        | (simp at hr; done)
        | simp [pEdgeRhs]
  simp only [pEdgeRhs, idVal_id hd, h2]

/-- an edge statement, then the following statements -/
theorem pStmts_edge (s d : Bytes) (as : List Attr) (hs : isKw s = false) (hd : isKw d = false)
    (has : ∀ a ∈ as, AttrOK a) (f depth : Nat) (hf : as.length + 3 ≤ f) (rest : List Tok) (hr : NoCont rest) :
    pStmts (f + 1) depth ((Stmt.edge s d as).toks ++ rest) =
      match pStmts f depth rest with
      | some (more, r2) => some ((Acc.mk [] [(s, d)]).append more, r2)
      | none => none := by
  obtain ⟨k1, k2, k3, k4, _⟩ := isKw_false_parts hs
  obtain ⟨f', rfl⟩ : ∃ f', f = f' + 2 := ⟨f - 2, by omega⟩
  simp only [Stmt.toks, List.cons_append, List.append_assoc, List.nil_append, pStmts, k1, k2, k3, k4, hs, if_false,
    Bool.or_self, Bool.false_eq_true, decide_false]
  have he := pEdgeRhs_one f' s d hd (Tok.lbrack :: (attrToks as ++ Tok.rbrack :: rest)) trivial
  simp only [stmtAfterId, he,
    pAttrLists_attrToks as has (f' + 2) hf rest hr, skipSemi_nocont rest hr]
  rfl

def stmtSize : List Stmt → Nat
  | [] => 0
  | .node _ as :: ss => as.length + 1 + stmtSize ss
  | .edge _ _ as :: ss => as.length + 1 + stmtSize ss

theorem nocont_stmtsToks (ss : List Stmt) (rest : List Tok) : NoCont (stmtsToks ss ++ .rbrace :: rest) := by
  cases ss with
  | nil => simp [stmtsToks, NoCont]
  | cons s t => cases s <;> simp [stmtsToks, Stmt.toks, NoCont]

/-- all statements up to the closing brace -/
theorem pStmts_stmts (ss : List Stmt) (hss : ∀ s ∈ ss, StmtOK s) (depth : Nat) : ∀ (f : Nat), stmtSize ss + 3 ≤ f →
    ∀ rest, pStmts f depth (stmtsToks ss ++ .rbrace :: rest) = some (⟨nodesOf ss, edgesOf ss⟩, rest) := by
  induction ss with
  | nil =>
    intro f hf rest
    cases f with
    | zero => omega
    | succ f => simp [stmtsToks, pStmts, nodesOf, edgesOf, Acc.empty]
  | cons s t ih =>
    intro f hf rest
    cases f with
    | zero => omega
    | succ f =>
      have iht := ih (fun x hx => hss x (by simp [hx]))
      have hs := hss s (by simp)
      have hnc := nocont_stmtsToks t rest
      cases s with
      | node i as =>
        obtain ⟨⟨_, hi⟩, has⟩ := hs
        simp only [stmtSize] at hf
        simp only [stmtsToks, List.append_assoc]
        rw [pStmts_node i as hi has f depth (by omega) _ hnc, iht f (by omega) rest]
        simp [Acc.append, nodesOf, edgesOf]
      | edge a b as =>
        obtain ⟨⟨_, ha⟩, ⟨_, hb⟩, has⟩ := hs
        simp only [stmtSize] at hf
        simp only [stmtsToks, List.append_assoc]
        rw [pStmts_edge a b as ha hb has f depth (by omega) _ hnc, iht f (by omega) rest]
        simp [Acc.append, nodesOf, edgesOf]

end PV.Dot

namespace PV.Dot

def legendNodes : Option (Bytes × List Attr) → List NodeStmt
  | none => []
  | some (lid, as) => [⟨unquote lid, attrVals as⟩]

def defaultAttrs : List Attr := [⟨bStyle, .bare bFilled⟩, ⟨bFillcolor, .quoted bF8⟩]

theorem defaultAttrs_ok : ∀ a ∈ defaultAttrs, AttrOK a := by
  intro a ha
  simp only [defaultAttrs, List.mem_cons, List.not_mem_nil, or_false] at ha
  rcases ha with rfl | rfl
  · exact ⟨idOK_of_decide _ (by decide), by decide, idOK_of_decide _ (by decide), by decide⟩
  · exact ⟨idOK_of_decide _ (by decide), by decide, by decide, trivial⟩

theorem defaultsToks_eq : defaultsToks = .id kwNode :: .lbrack :: (attrToks defaultAttrs ++ [.rbrack]) := rfl

theorem pStmts_defaults (f depth : Nat) (hf : 5 ≤ f) (rest : List Tok) (hr : NoCont rest) :
    pStmts (f + 1) depth (defaultsToks ++ rest) = pStmts f depth rest := by
  have h1 : ¬ (kwNode = kwSubgraph) := by decide
  have h2 : kwNode.map lower = kwNode := by decide
  have hp := pAttrLists_attrToks defaultAttrs defaultAttrs_ok f (by simp [defaultAttrs]; omega) rest hr
  rw [defaultsToks_eq]
  simp only [List.cons_append, List.append_assoc, List.nil_append, pStmts, h1, h2, if_false, if_true,
    Bool.true_or, decide_true, hp, skipSemi_nocont rest hr]

theorem pStmts_legend (legend : Option (Bytes × List Attr))
    (hl : ∀ p, legend = some p → qsafeB p.1 = true ∧ ∀ a ∈ p.2, AttrOK a)
    (f : Nat) (hf : ∀ p, legend = some p → p.2.length + 5 ≤ f) (rest : List Tok) (hr : NoCont rest) :
    pStmts (f + 1) 1 (legendToks legend ++ rest) =
      match legend with
      | none => pStmts (f + 1) 1 rest
      | some _ =>
        match pStmts f 1 rest with
        | some (more, r2) => some ((Acc.mk (legendNodes legend) []).append more, r2)
        | none => none := by
  cases legend with
  | none => simp [legendToks]
  | some p =>
    obtain ⟨lid, as⟩ := p
    obtain ⟨_, has⟩ := hl (lid, as) rfl
    have hf' := hf (lid, as) rfl
    simp only at hf'
    obtain ⟨f', rfl⟩ : ∃ f', f = f' + 1 := ⟨f - 1, by omega⟩
    have h1 : kwSubgraph.map lower = kwSubgraph := by decide
    have h2 : idVal (.id bClusterL) = some bClusterL := by decide
    have hnc : NoCont (Tok.rbrace :: rest) := trivial
    have hp := pAttrLists_attrToks as has f' (by omega) (Tok.rbrace :: rest) hnc
    have hinner : pStmts f' 0 (Tok.rbrace :: rest) = some (Acc.empty, rest) := by
      obtain ⟨f'', rfl⟩ : ∃ f'', f' = f'' + 1 := ⟨f' - 1, by omega⟩
      simp [pStmts]
    simp only [legendToks, List.cons_append, List.append_assoc, List.nil_append, pStmts, h1, if_true,
      skipOptName, h2, stmtAfterId, hp, skipSemi_nocont _ hnc, hinner, skipSemi_nocont rest hr, legendNodes]
    cases pStmts (f' + 1) 1 rest with
    | none => rfl
    | some q => simp [Acc.append, Acc.empty]

theorem attrToks_length (as : List Attr) : (attrToks as).length = 3 * as.length := by
  induction as with
  | nil => rfl
  | cons a t ih => simp [attrToks, ih]; omega

theorem stmtSize_le (ss : List Stmt) : stmtSize ss ≤ (stmtsToks ss).length := by
  induction ss with
  | nil => simp [stmtSize, stmtsToks]
  | cons s t ih =>
    cases s <;> simp [stmtSize, stmtsToks, Stmt.toks, attrToks_length] <;> omega

/-- **the tokens of the document model parse** into: the title, the legend node followed by the
node statements, and the edge statements -/
theorem parseToks_doc (title : Bytes) (legend : Option (Bytes × List Attr)) (stmts : List Stmt)
    (hl : ∀ p, legend = some p → qsafeB p.1 = true ∧ ∀ a ∈ p.2, AttrOK a)
    (hs : ∀ s ∈ stmts, StmtOK s) :
    parseToks (docToks title legend stmts) =
      some ⟨some (unquote title), legendNodes legend ++ nodesOf stmts, edgesOf stmts⟩ := by
  have h1 : kwDigraph.map lower = kwDigraph := by decide
  have hsz := stmtSize_le stmts
  have hst := fun f hf => pStmts_stmts stmts hs 1 f hf []
  have hnc2 := nocont_stmtsToks stmts []
  unfold parseToks docToks
  simp only [h1, if_true, optName, idVal]
  -- fuel: length of the whole token list + 1
  generalize hF : (Tok.id kwDigraph :: Tok.str title :: Tok.lbrace ::
      (defaultsToks ++ (legendToks legend ++ (stmtsToks stmts ++ [Tok.rbrace])))).length + 1 = F
  have hFlen : F = 3 + 9 + (legendToks legend).length + (stmtsToks stmts).length + 1 + 1 := by
    rw [← hF]; simp [defaultsToks]; omega
  cases legend with
  | none =>
    have hnc1 : NoCont (legendToks none ++ (stmtsToks stmts ++ [Tok.rbrace])) := by
      simpa [legendToks] using hnc2
    obtain ⟨f, rfl⟩ : ∃ f, F = f + 1 := ⟨F - 1, by omega⟩
    rw [pStmts_defaults f 1 (by simp [legendToks] at hFlen; omega) _ hnc1]
    simp only [legendToks, List.nil_append] at hFlen ⊢
    rw [hst f (by omega)]
    simp [legendNodes]
  | some p =>
    have hnc1 : NoCont (legendToks (some p) ++ (stmtsToks stmts ++ [Tok.rbrace])) := by
      obtain ⟨lid, as⟩ := p; simp [legendToks, NoCont]
    have hll : (legendToks (some p)).length = 3 * p.2.length + 7 := by
      obtain ⟨lid, as⟩ := p; simp [legendToks, attrToks_length]
    obtain ⟨f, rfl⟩ : ∃ f, F = f + 2 := ⟨F - 2, by omega⟩
    rw [pStmts_defaults (f + 1) 1 (by omega) _ hnc1]
    rw [pStmts_legend (some p) hl f (by intro q hq; cases hq; omega) _ hnc2]
    simp only
    rw [hst f (by omega)]
    simp [Acc.append]

end PV.Dot
