import PprofVerif.Lemmas.LegacyCPUTotal
import PprofVerif.Lemmas.CodecTotalPost
/-!
Helpers for property C02: every sample produced by the binary legacy CPU parser model carries
exactly two values (one per sample type of the profile `cpuProfile`/`javaCPUProfile` builds);
frame stripping and duplicate-leaf cleanup never touch the values.
-/
namespace PV
namespace LegacyCPU
open Wire (Bytes bind_ne_panic)

theorem parseCPUSamples_values (w : Word) (adjust : Bool) (period : Int) :
    ∀ (fuel : Nat) (sl : Slice) (acc : List CPUSample) (r : List CPUSample) (rest : Slice),
      (∀ s ∈ acc, s.values.length = 2) →
      parseCPUSamples w adjust period fuel sl acc = .ok (some (r, rest)) → ∀ s ∈ r, s.values.length = 2
  | 0, sl, acc, r, rest, hacc, h => by
    rw [parseCPUSamples] at h
    split at h
    · simp at h; obtain ⟨rfl, _⟩ := h; exact hacc
    · simp at h
  | fuel + 1, sl, acc, r, rest, hacc, h => by
    rw [parseCPUSamples] at h
    split at h
    · simp at h; obtain ⟨rfl, _⟩ := h; exact hacc
    · simp only at h
      obtain ⟨⟨count, b1⟩, _, h⟩ := Outcome.bind_eq_ok.mp h
      obtain ⟨⟨nstk, b2⟩, _, h⟩ := Outcome.bind_eq_ok.mp h
      simp only at h
      cases b2 with
      | none => simp [pure] at h
      | some bb =>
        simp only at h
        split at h
        · simp [pure] at h
        · obtain ⟨⟨addrs, b3⟩, _, h⟩ := Outcome.bind_eq_ok.mp h
          simp only at h
          obtain ⟨isEnd, _, h⟩ := Outcome.bind_eq_ok.mp h
          split at h
          · simp [pure] at h; obtain ⟨rfl, _⟩ := h; exact hacc
          · refine parseCPUSamples_values w adjust period fuel b3 _ r rest ?_ h
            intro s hs
            rcases List.mem_append.mp hs with hs | hs
            · exact hacc s hs
            · simp at hs; subst hs; rfl

theorem stripFrame_values (id1 : Nat) : ∀ (l r : List CPUSample), stripFrame id1 l = .ok r →
    r.map (·.values) = l.map (·.values)
  | [], r, h => by simp [stripFrame] at h; subst h; rfl
  | x :: rest, r, h => by
    rw [stripFrame] at h
    obtain ⟨s', hs', h⟩ := Outcome.bind_eq_ok.mp h
    obtain ⟨r', hr', h⟩ := Outcome.bind_eq_ok.mp h
    simp [pure] at h; subst h
    have ih := stripFrame_values id1 rest r' hr'
    have hv : s'.values = x.values := by
      split at hs'
      · obtain ⟨a, _, hs'⟩ := Outcome.bind_eq_ok.mp hs'
        split at hs'
        · obtain ⟨l, _, hs'⟩ := Outcome.bind_eq_ok.mp hs'
          simp [pure] at hs'; subst hs'; rfl
        · simp [pure] at hs'; subst hs'; rfl
      · simp [pure] at hs'; subst hs'; rfl
    simp [hv, ih]

theorem cleanupDup_values : ∀ (l r : List CPUSample), cleanupDup l = .ok r →
    r.map (·.values) = l.map (·.values)
  | [], r, h => by simp [cleanupDup] at h; subst h; rfl
  | x :: rest, r, h => by
    rw [cleanupDup] at h
    obtain ⟨s', hs', h⟩ := Outcome.bind_eq_ok.mp h
    obtain ⟨r', hr', h⟩ := Outcome.bind_eq_ok.mp h
    simp [pure] at h; subst h
    have ih := cleanupDup_values rest r' hr'
    have hv : s'.values = x.values := by
      split at hs'
      · obtain ⟨a0, _, hs'⟩ := Outcome.bind_eq_ok.mp hs'
        obtain ⟨a1, _, hs'⟩ := Outcome.bind_eq_ok.mp hs'
        split at hs'
        · obtain ⟨l, _, hs'⟩ := Outcome.bind_eq_ok.mp hs'
          simp [pure] at hs'; subst hs'; rfl
        · simp [pure] at hs'; subst hs'; rfl
      · simp [pure] at hs'; subst hs'; rfl
    simp [hv, ih]

theorem removeFrameOnce_values (l r : List CPUSample) (h : removeFrameOnce l = .ok r) :
    r.map (·.values) = l.map (·.values) := by
  unfold removeFrameOnce at h
  obtain ⟨secs, _, h⟩ := Outcome.bind_eq_ok.mp h
  split at h
  · simp [pure] at h; subst h; rfl
  · exact stripFrame_values _ _ _ h

theorem values_len_of_map_eq {l r : List CPUSample} (h : r.map (·.values) = l.map (·.values))
    (hl : ∀ s ∈ l, s.values.length = 2) : ∀ s ∈ r, s.values.length = 2 := by
  intro s hs
  have : s.values ∈ r.map (·.values) := List.mem_map.mpr ⟨s, hs, rfl⟩
  rw [h] at this
  obtain ⟨s0, hs0, heq⟩ := List.mem_map.mp this
  rw [← heq]; exact hl s0 hs0

theorem cpuProfile_values (w : Word) (b : Slice) (period : Int) (res : CPUResult)
    (h : cpuProfile w b period = .ok (some res)) : ∀ s ∈ res.samples, s.values.length = 2 := by
  unfold cpuProfile at h
  obtain ⟨pr, hpr, h⟩ := Outcome.bind_eq_ok.mp h
  split at h
  · simp [pure] at h
  · rename_i samples rest
    obtain ⟨s1, h1, h⟩ := Outcome.bind_eq_ok.mp h
    obtain ⟨s2, h2, h⟩ := Outcome.bind_eq_ok.mp h
    obtain ⟨s3, h3, h⟩ := Outcome.bind_eq_ok.mp h
    simp [pure] at h; subst h
    simp only
    have h0 := parseCPUSamples_values w true _ _ b [] samples rest (by simp) hpr
    have e1 := removeFrameOnce_values _ _ h1
    have e2 := removeFrameOnce_values _ _ h2
    have e3 := cleanupDup_values _ _ h3
    exact values_len_of_map_eq (e3.trans (e2.trans e1)) h0

theorem javaCPUProfile_values (w : Word) (b : Slice) (period : Int) (res : CPUResult)
    (h : javaCPUProfile w b period = .ok (some res)) : ∀ s ∈ res.samples, s.values.length = 2 := by
  unfold javaCPUProfile at h
  obtain ⟨pr, hpr, h⟩ := Outcome.bind_eq_ok.mp h
  split at h
  · simp [pure] at h
  · rename_i samples rest
    simp [pure] at h; subst h
    exact parseCPUSamples_values w false _ _ b [] samples rest (by simp) hpr

theorem probe_values (w : Word) (b : Bytes) (res : CPUResult) (h : probe w b = .ok (some (some res))) :
    ∀ s ∈ res.samples, s.values.length = 2 := by
  unfold probe at h
  obtain ⟨⟨n1, t1⟩, _, h⟩ := Outcome.bind_eq_ok.mp h
  obtain ⟨⟨n2, t2⟩, _, h⟩ := Outcome.bind_eq_ok.mp h
  obtain ⟨⟨n3, t3⟩, _, h⟩ := Outcome.bind_eq_ok.mp h
  obtain ⟨⟨n4, t4⟩, _, h⟩ := Outcome.bind_eq_ok.mp h
  obtain ⟨⟨n5, t5⟩, _, h⟩ := Outcome.bind_eq_ok.mp h
  simp only at h
  split at h
  · obtain ⟨r, hr, h⟩ := Outcome.bind_eq_ok.mp h
    simp [pure] at h; subst h
    exact cpuProfile_values _ _ _ _ hr
  · split at h
    · obtain ⟨r, hr, h⟩ := Outcome.bind_eq_ok.mp h
      simp [pure] at h; subst h
      exact javaCPUProfile_values _ _ _ _ hr
    · simp [pure] at h

theorem probeAll_values (b : Bytes) : ∀ (ws : List Word) (res : CPUResult), probeAll b ws = .ok (some res) →
    ∀ s ∈ res.samples, s.values.length = 2
  | [], res, h => by simp [probeAll] at h
  | w :: ws, res, h => by
    rw [probeAll] at h
    obtain ⟨pr, hpr, h⟩ := Outcome.bind_eq_ok.mp h
    split at h
    · simp [pure] at h; subst h
      exact probe_values w b res hpr
    · exact probeAll_values b ws res h

theorem parseCPU_values (b : Bytes) (res : CPUResult) (h : parseCPU b = .ok (some res)) :
    ∀ s ∈ res.samples, s.values.length = 2 := probeAll_values b _ res h

end LegacyCPU
end PV
