import PprofVerif.Model.Merge
import PprofVerif.Spec.Weight
import Mathlib.Data.List.Basic
/-!
`combineHeaders` (model, as repaired) computes the documented header (`Spec.combineHeadersSpec`):
earliest non-zero time, wrapped sum of durations, maximal period (periods are non-negative),
comments de-duplicated in order of first appearance, first non-empty default sample type and
doc URL, everything else from the first profile; and it accepts exactly the compatible inputs.
-/
namespace PV.Merge
open PV.Spec

/-! ### the loop, field by field -/

def tstep (a t : Int) : Int := if t ≠ 0 ∧ (a = 0 ∨ t < a) then t else a
def pstep (a p : Int) : Int := if a = 0 ∨ a < p then p else a
def sstep (a s : Str) : Str := if a = [] then s else a

theorem foldl_hdrStep_time (ps : List Profile) (a : HdrAcc) :
    (ps.foldl hdrStep a).timeNanos = (ps.map (·.timeNanos)).foldl tstep a.timeNanos := by
  induction ps generalizing a with
  | nil => rfl
  | cons p ps ih => simp only [List.foldl_cons, List.map_cons, ih]; rfl

theorem foldl_hdrStep_duration (ps : List Profile) (a : HdrAcc) :
    (ps.foldl hdrStep a).durationNanos =
      (ps.map (·.durationNanos)).foldl (fun a d => wrapI64 (a + d)) a.durationNanos := by
  induction ps generalizing a with
  | nil => rfl
  | cons p ps ih => simp only [List.foldl_cons, List.map_cons, ih]; rfl

theorem foldl_hdrStep_period (ps : List Profile) (a : HdrAcc) :
    (ps.foldl hdrStep a).period = (ps.map (·.period)).foldl pstep a.period := by
  induction ps generalizing a with
  | nil => rfl
  | cons p ps ih => simp only [List.foldl_cons, List.map_cons, ih]; rfl

theorem foldl_hdrStep_comments (ps : List Profile) (a : HdrAcc) :
    (ps.foldl hdrStep a).comments = (ps.flatMap (·.comments)).foldl addComment a.comments := by
  induction ps generalizing a with
  | nil => rfl
  | cons p ps ih => simp only [List.foldl_cons, List.flatMap_cons, List.foldl_append, ih]; rfl

theorem foldl_hdrStep_dst (ps : List Profile) (a : HdrAcc) :
    (ps.foldl hdrStep a).defaultSampleType = (ps.map (·.defaultSampleType)).foldl sstep a.defaultSampleType := by
  induction ps generalizing a with
  | nil => rfl
  | cons p ps ih => simp only [List.foldl_cons, List.map_cons, ih]; rfl

theorem foldl_hdrStep_docURL (ps : List Profile) (a : HdrAcc) :
    (ps.foldl hdrStep a).docURL = (ps.map (·.docURL)).foldl sstep a.docURL := by
  induction ps generalizing a with
  | nil => rfl
  | cons p ps ih => simp only [List.foldl_cons, List.map_cons, ih]; rfl

/-! ### time: earliest non-zero -/

theorem foldl_tstep_filter (ts : List Int) (a : Int) :
    ts.foldl tstep a = (ts.filter (· ≠ 0)).foldl tstep a := by
  induction ts generalizing a with
  | nil => rfl
  | cons t ts ih =>
    by_cases ht : t = 0
    · subst ht
      have : tstep a 0 = a := by simp [tstep]
      simp [List.foldl_cons, this, ih]
    · simp [List.foldl_cons, ht, ih]

theorem foldl_tstep_min (l : List Int) (a : Int) (ha : a ≠ 0) (hl : ∀ t ∈ l, t ≠ 0) :
    l.foldl tstep a = l.foldl min a := by
  induction l generalizing a with
  | nil => rfl
  | cons t l ih =>
    have ht := hl t (by simp)
    have hstep : tstep a t = min a t := by
      unfold tstep; split <;> omega
    simp only [List.foldl_cons, hstep]
    exact ih _ (by omega) (fun x hx => hl x (List.mem_cons_of_mem _ hx))

theorem hdr_time_list (ts : List Int) : ts.foldl tstep 0 = earliestNonZero ts := by
  rw [foldl_tstep_filter]
  unfold earliestNonZero
  have hall : ∀ t ∈ ts.filter (· ≠ 0), t ≠ 0 := by
    intro t ht; simpa using (List.mem_filter.mp ht).2
  cases hf : ts.filter (· ≠ 0) with
  | nil => rfl
  | cons t r =>
    rw [hf] at hall
    have ht := hall t (by simp)
    have : tstep 0 t = t := by simp [tstep, ht]
    simp only [List.foldl_cons, this]
    exact foldl_tstep_min r t ht (fun x hx => hall x (List.mem_cons_of_mem _ hx))

theorem hdr_time_spec (ps : List Profile) :
    (ps.foldl hdrStep {}).timeNanos = earliestNonZero (ps.map (·.timeNanos)) := by
  rw [foldl_hdrStep_time]; exact hdr_time_list _

theorem hdr_duration_spec (ps : List Profile) :
    (ps.foldl hdrStep {}).durationNanos = sumI64 (ps.map (·.durationNanos)) := by
  rw [foldl_hdrStep_duration]; rfl

/-! ### period: maximum (of non-negative periods) -/

theorem foldl_pstep_max (l : List Int) (a : Int) (ha : 0 ≤ a) (hl : ∀ p ∈ l, 0 ≤ p) :
    l.foldl pstep a = l.foldl max a := by
  induction l generalizing a with
  | nil => rfl
  | cons p l ih =>
    have hp := hl p (by simp)
    have hstep : pstep a p = max a p := by
      unfold pstep; split <;> omega
    simp only [List.foldl_cons, hstep]
    exact ih _ (by omega) (fun x hx => hl x (List.mem_cons_of_mem _ hx))

theorem hdr_period_spec (ps : List Profile) (h : ∀ p ∈ ps, 0 ≤ p.period) :
    (ps.foldl hdrStep {}).period = maxPeriod (ps.map (·.period)) := by
  rw [foldl_hdrStep_period]
  exact foldl_pstep_max _ 0 (by omega) (by
    intro p hp
    obtain ⟨q, hq, rfl⟩ := List.mem_map.mp hp
    exact h q hq)

/-- the hypothesis is needed: a negative period after a zero one is taken although 0 is larger. -/
theorem hdr_period_needs_nonneg : [0, -3].foldl pstep 0 ≠ maxPeriod [0, -3] := by
  simp only [pstep, maxPeriod, List.foldl_cons, List.foldl_nil]; omega

/-! ### comments: de-duplicated union in order -/

theorem foldl_addComment (cs : List Str) (acc : List Str) :
    cs.foldl addComment acc = acc ++ (dedupInOrder cs).filter (fun x => decide (x ∉ acc)) := by
  induction cs generalizing acc with
  | nil => simp [dedupInOrder]
  | cons c cs ih =>
    simp only [List.foldl_cons, dedupInOrder, ih]
    unfold addComment
    by_cases hc : c ∈ acc
    · simp only [hc, if_true, List.filter_cons, not_true_eq_false, decide_false, Bool.false_eq_true,
        if_false, List.filter_filter]
      congr 1
      apply List.filter_congr
      intro x _
      by_cases hx : x ∈ acc
      · simp [hx]
      · have : x ≠ c := fun h => hx (h ▸ hc)
        simp [hx, this]
    · simp only [hc, if_false, List.filter_cons, not_false_eq_true, decide_true, if_true,
        List.filter_filter, List.append_assoc, List.singleton_append]
      congr 2
      apply List.filter_congr
      intro x _
      by_cases hx : x ∈ acc
      · simp [hx]
      · by_cases hxc : x = c
        · simp [hxc]
        · simp [hx, hxc]

theorem hdr_comments_spec (ps : List Profile) :
    (ps.foldl hdrStep {}).comments = dedupInOrder (ps.flatMap (·.comments)) := by
  rw [foldl_hdrStep_comments, foldl_addComment]
  simp

/-! ### first non-empty -/

theorem foldl_sstep (l : List Str) (a : Str) :
    l.foldl sstep a = if a = [] then firstNonEmpty l else a := by
  induction l generalizing a with
  | nil => simp [firstNonEmpty]
  | cons s l ih =>
    simp only [List.foldl_cons, ih, firstNonEmpty, sstep]
    by_cases ha : a = []
    · simp [ha]
    · simp [ha]

theorem hdr_defaultSampleType_spec (ps : List Profile) :
    (ps.foldl hdrStep {}).defaultSampleType = firstNonEmpty (ps.map (·.defaultSampleType)) := by
  rw [foldl_hdrStep_dst, foldl_sstep]; rfl

theorem hdr_docURL_spec (ps : List Profile) :
    (ps.foldl hdrStep {}).docURL = firstNonEmpty (ps.map (·.docURL)) := by
  rw [foldl_hdrStep_docURL, foldl_sstep]; rfl

/-! ### compatibility -/

theorem sampleTypesEqual_of_zip : ∀ (a b : List ValueType), a.length = b.length →
    (List.zipWith (fun (x y : ValueType) => x.typ == y.typ && x.unit == y.unit) a b).all id = true →
    sampleTypesEqual a b = true
  | [], [], _, _ => rfl
  | [], _ :: _, h, _ => by simp at h
  | _ :: _, [], h, _ => by simp at h
  | x :: xs, y :: ys, hl, h => by
    simp only [List.zipWith_cons_cons, List.all_cons, id, Bool.and_eq_true] at h
    simp only [sampleTypesEqual, Bool.and_eq_true]
    exact ⟨by simpa using h.1, sampleTypesEqual_of_zip xs ys (by simpa using hl) h.2⟩

theorem zip_of_sampleTypesEqual : ∀ (a b : List ValueType), sampleTypesEqual a b = true →
    a.length = b.length ∧
    (List.zipWith (fun (x y : ValueType) => x.typ == y.typ && x.unit == y.unit) a b).all id = true
  | [], [], _ => by simp
  | [], _ :: _, h => by simp [sampleTypesEqual] at h
  | _ :: _, [], h => by simp [sampleTypesEqual] at h
  | x :: xs, y :: ys, h => by
    simp only [sampleTypesEqual, Bool.and_eq_true] at h
    obtain ⟨h1, h2⟩ := zip_of_sampleTypesEqual xs ys h.2
    simp only [List.length_cons, h1, List.zipWith_cons_cons, List.all_cons, id, Bool.and_eq_true, true_and]
    exact ⟨by simpa using h.1, h2⟩

theorem compatible_of_compatibleB (a b : Profile) (h : compatibleB a b = true) : compatible a b = .ok () := by
  unfold compatibleB at h
  simp only [Bool.and_eq_true] at h
  obtain ⟨⟨hp, hl⟩, hz⟩ := h
  unfold compatible equalValueType
  cases ha : a.periodType <;> cases hb : b.periodType <;> simp only [ha, hb] at hp ⊢
  · simp at hp
  · simp at hp
  · simp at hp
  · rw [hp]
    have hl' : a.sampleType.length = b.sampleType.length := by simpa using hl
    simp only [hl', ne_eq, not_true_eq_false, if_false]
    rw [sampleTypesEqual_of_zip _ _ hl' hz]
    rfl

theorem compatible_err_of_not_compatibleB (a b : Profile) (ha : a.periodType.isSome) (hb : b.periodType.isSome)
    (h : compatibleB a b = false) : ∃ e, compatible a b = .err e := by
  unfold compatible equalValueType
  cases hpa : a.periodType with
  | none => rw [hpa] at ha; simp at ha
  | some x =>
    cases hpb : b.periodType with
    | none => rw [hpb] at hb; simp at hb
    | some y =>
      simp only
      by_cases hxy : (x.typ == y.typ && x.unit == y.unit) = true
      · rw [hxy]
        simp only
        by_cases hl : a.sampleType.length ≠ b.sampleType.length
        · rw [if_pos hl]; exact ⟨_, rfl⟩
        · rw [if_neg hl]
          by_cases hs : sampleTypesEqual a.sampleType b.sampleType = true
          · exfalso
            obtain ⟨h1, h2⟩ := zip_of_sampleTypesEqual _ _ hs
            unfold compatibleB at h
            simp [hpa, hpb, hxy, h1, h2] at h
          · simp only [hs]; exact ⟨_, rfl⟩
      · have : (x.typ == y.typ && x.unit == y.unit) = false := by simpa using hxy
        rw [this]; exact ⟨_, rfl⟩

theorem compatibleAll_ok (first : Profile) (rest : List Profile)
    (h : ∀ p ∈ rest, compatibleB first p = true) : compatibleAll first rest = .ok () := by
  induction rest with
  | nil => rfl
  | cons s rest ih =>
    simp only [compatibleAll, compatible_of_compatibleB first s (h s (by simp))]
    exact ih (fun p hp => h p (List.mem_cons_of_mem _ hp))

/-- with all period types present, an incompatible input is rejected with an error (never a
panic, never accepted). -/
theorem compatibleAll_not_ok (first : Profile) (rest : List Profile) (hp : first.periodType.isSome)
    (hps : ∀ p ∈ rest, p.periodType.isSome) (h : ∃ p ∈ rest, compatibleB first p = false) :
    ∃ e, compatibleAll first rest = .err e := by
  induction rest with
  | nil => obtain ⟨p, hp', _⟩ := h; cases hp'
  | cons s rest ih =>
    by_cases hs : compatibleB first s = true
    · simp only [compatibleAll, compatible_of_compatibleB first s hs]
      apply ih (fun p hp' => hps p (List.mem_cons_of_mem _ hp'))
      obtain ⟨p, hp', hpf⟩ := h
      rcases List.mem_cons.mp hp' with rfl | hm
      · rw [hs] at hpf; cases hpf
      · exact ⟨p, hm, hpf⟩
    · obtain ⟨e, he⟩ := compatible_err_of_not_compatibleB first s hp (hps s (by simp)) (by simpa using hs)
      exact ⟨e, by simp only [compatibleAll, he]⟩

/-! ### the whole header -/

theorem combineHeaders_ok_fields (first : Profile) (rest : List Profile)
    (hc : ∀ p ∈ rest, compatibleB first p = true) :
    ∃ h, combineHeaders first rest = .ok h ∧ h.sampleType = first.sampleType ∧
      h.periodType = first.periodType ∧ h.samples = [] ∧ h.mappings = [] ∧ h.locations = [] ∧
      h.functions = [] := by
  unfold combineHeaders
  rw [compatibleAll_ok first rest hc]
  exact ⟨_, rfl, rfl, rfl, rfl, rfl, rfl, rfl⟩

/-- **`combineHeaders` computes the documented header.** -/
theorem combineHeaders_spec (first : Profile) (rest : List Profile)
    (hc : ∀ p ∈ rest, compatibleB first p = true) (hper : ∀ p ∈ first :: rest, 0 ≤ p.period) :
    ∃ h, combineHeaders first rest = .ok h ∧ headerOf h = combineHeadersSpec first rest ∧
      h.samples = [] ∧ h.mappings = [] ∧ h.locations = [] ∧ h.functions = [] := by
  unfold combineHeaders
  rw [compatibleAll_ok first rest hc]
  refine ⟨_, rfl, ?_, rfl, rfl, rfl, rfl⟩
  simp only [headerOf, combineHeadersSpec, hdr_time_spec, hdr_duration_spec, hdr_period_spec _ hper,
    hdr_comments_spec, hdr_defaultSampleType_spec, hdr_docURL_spec]

/-- a single profile is always accepted (no compatibility check is run), even without period type. -/
theorem combineHeaders_single (p : Profile) :
    ∃ h, combineHeaders p [] = .ok h ∧ h.sampleType = p.sampleType ∧ h.periodType = p.periodType ∧
      h.samples = [] ∧ h.mappings = [] ∧ h.locations = [] ∧ h.functions = [] :=
  combineHeaders_ok_fields p [] (by simp)

end PV.Merge
