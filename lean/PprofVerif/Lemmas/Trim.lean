import PprofVerif.Model.Trim
import PprofVerif.Lemmas.GraphKept
import Mathlib.Data.List.Perm.Basic
namespace PV.Trim
open PV.GSpec

/-! ### step 1: the node cutoff -/
theorem mem_aboveCutoff (c : Int) (es : List Entry) (e : Entry) :
    e ∈ aboveCutoff c es ↔ e ∈ es ∧ c ≤ absI e.cum := by
  unfold aboveCutoff
  rw [List.mem_filter]
  simp [Int.not_lt]

theorem mem_afterCutoff (o : TrimOpts) (es : List Entry) (e : Entry) :
    e ∈ afterCutoff o es ↔
      e ∈ es ∧ (0 < cutoffOf ((es.map (·.flat)).sum) o.fracNum o.fracDen →
                cutoffOf ((es.map (·.flat)).sum) o.fracNum o.fracDen ≤ absI e.cum) := by
  unfold afterCutoff
  simp only
  by_cases hc : cutoffOf ((es.map (·.flat)).sum) o.fracNum o.fracDen > 0
  · simp [hc, mem_aboveCutoff]
  · simp [hc]

theorem afterCutoff_sublist (o : TrimOpts) (es : List Entry) : (afterCutoff o es).Sublist es := by
  unfold afterCutoff aboveCutoff
  simp only
  split
  · exact List.filter_sublist
  · exact List.Sublist.refl _

/-! ### step 2: sort and take -/
theorem insertBy_perm (lt : Entry → Entry → Bool) (x : Entry) (l : List Entry) :
    (insertBy lt x l).Perm (x :: l) := by
  induction l with
  | nil => exact List.Perm.refl _
  | cons y r ih =>
    unfold insertBy
    split
    · exact (List.Perm.cons y ih).trans (List.Perm.swap x y r)
    · exact List.Perm.refl _

theorem sortBy_perm (lt : Entry → Entry → Bool) (l : List Entry) : (sortBy lt l).Perm l := by
  induction l with
  | nil => exact List.Perm.refl _
  | cons x r ih =>
    unfold sortBy
    exact (insertBy_perm lt x _).trans (List.Perm.cons x ih)

/-- hypotheses making `lt` a strict total order on the entries at hand (C08 proves them for the
comparators of graph.go) -/
structure StrictTotal (lt : Entry → Entry → Bool) : Prop where
  trans : ∀ a b c, lt a b = true → lt b c = true → lt a c = true
  asymm : ∀ a b, lt a b = true → lt b a = false
  total : ∀ a b, lt a b = true ∨ lt b a = true ∨ a = b

theorem insertBy_sorted (lt : Entry → Entry → Bool) (h : StrictTotal lt) (x : Entry) (l : List Entry)
    (hl : l.Pairwise (fun a b => lt b a = false)) :
    (insertBy lt x l).Pairwise (fun a b => lt b a = false) := by
  induction l with
  | nil => simp [insertBy]
  | cons y r ih =>
    unfold insertBy
    rw [List.pairwise_cons] at hl
    by_cases hyx : lt y x = true
    · simp only [hyx, if_true]
      rw [List.pairwise_cons]
      refine ⟨?_, ih hl.2⟩
      intro z hz
      have hz' := (insertBy_perm lt x r).mem_iff.mp hz
      rcases List.mem_cons.mp hz' with rfl | hz''
      · exact h.asymm y z hyx
      · exact hl.1 z hz''
    · have hyx' : lt y x = false := by simpa using hyx
      simp only [hyx', Bool.false_eq_true, if_false]
      rw [List.pairwise_cons]
      refine ⟨?_, List.pairwise_cons.mpr hl⟩
      intro z hz
      rcases List.mem_cons.mp hz with rfl | hz'
      · exact hyx'
      · -- z after y in the sorted rest: ¬ lt z y; and ¬ lt y x; want ¬ lt z x
        have hzy := hl.1 z hz'
        cases hzx : lt z x
        · rfl
        · -- lt z x, and not lt y x: by totality x < y or x = y; then z < y, contradiction
          rcases h.total y x with h1 | h1 | h1
          · rw [h1] at hyx'; exact absurd hyx' (by simp)
          · have := h.trans z x y hzx h1; rw [this] at hzy; exact absurd hzy (by simp)
          · subst h1; rw [hzx] at hzy; exact absurd hzy (by simp)

theorem sortBy_sorted (lt : Entry → Entry → Bool) (h : StrictTotal lt) (l : List Entry) :
    (sortBy lt l).Pairwise (fun a b => lt b a = false) := by
  induction l with
  | nil => simp [sortBy]
  | cons x r ih => unfold sortBy; exact insertBy_sorted lt h x _ ih

theorem topN_prefix (n : Nat) (l : List Entry) : topN n l <+: l := by
  unfold topN
  split
  · exact List.take_prefix n l
  · exact List.prefix_refl l

theorem topN_length (n : Nat) (l : List Entry) (hn : 0 < n) : (topN n l).length = min n l.length := by
  unfold topN
  simp [hn]
end PV.Trim
