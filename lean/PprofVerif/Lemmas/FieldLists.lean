import PprofVerif.Lemmas.Loop
/-!
Field lists of the individual encoders (`encodeInt64Opt`, `encodeUint64s`, …) and the
`Decodes` fact for each; step lemmas for `applyAll` used by the per-message round trips.
-/
namespace PV.Wire

def fU64 (tag x : Nat) : Field := { num := tag, typ := 0, u64 := x, data := [] }
def fLen (tag : Nat) (body : Bytes) : Field := { num := tag, typ := 2, u64 := 0, data := body }

def fUint64Opt (tag x : Nat) : List Field := if x = 0 then [] else [fU64 tag x]
def fInt64Opt (tag : Nat) (x : Int) : List Field := if x = 0 then [] else [fU64 tag (toU64 x)]
def fInt64 (tag : Nat) (x : Int) : List Field := [fU64 tag (toU64 x)]
def fBoolOpt (tag : Nat) (b : Bool) : List Field := if b then [fU64 tag 1] else []
def fUint64s (tag : Nat) (xs : List Nat) : List Field :=
  if xs.length > 2 then [fLen tag (xs.flatMap encodeVarint)] else xs.map (fU64 tag)
def fInt64s (tag : Nat) (xs : List Int) : List Field := fUint64s tag (xs.map toU64)

/-- tags used by profile.proto are tiny; this is all the encoders need -/
def SmallTag (tag : Nat) : Prop := tag < 1000

theorem encodeUint64_ne_nil (tag x : Nat) : encodeUint64 tag x ≠ [] := by
  unfold encodeUint64
  intro h
  have := List.append_eq_nil_iff.mp h
  exact encodeVarint_ne_nil _ this.1

theorem encodeMessage_ne_nil (tag : Nat) (body : Bytes) : encodeMessage tag body ≠ [] := by
  unfold encodeMessage encodeLength
  intro h
  have := List.append_eq_nil_iff.mp h
  have := List.append_eq_nil_iff.mp this.1
  exact encodeVarint_ne_nil _ this.1

theorem Decodes.uint64 {tag x : Nat} (ht : SmallTag tag) (hx : x < two64) :
    Decodes (encodeUint64 tag x) [fU64 tag x] :=
  Decodes.single (encodeUint64_ne_nil tag x)
    (fun rest => decodeField_encodeUint64 tag x (by unfold SmallTag at ht; unfold two64; omega) hx rest)

theorem Decodes.message {tag : Nat} {body : Bytes} (ht : SmallTag tag) (hl : body.length < two64) :
    Decodes (encodeMessage tag body) [fLen tag body] :=
  Decodes.single (encodeMessage_ne_nil tag body)
    (fun rest => decodeField_encodeMessage tag body (by unfold SmallTag at ht; unfold two64; omega) hl rest)

theorem Decodes.uint64Opt {tag x : Nat} (ht : SmallTag tag) (hx : x < two64) :
    Decodes (encodeUint64Opt tag x) (fUint64Opt tag x) := by
  unfold encodeUint64Opt fUint64Opt
  split
  · exact Decodes.nil
  · exact Decodes.uint64 ht hx

theorem Decodes.int64 {tag : Nat} {x : Int} (ht : SmallTag tag) :
    Decodes (encodeInt64 tag x) (fInt64 tag x) :=
  Decodes.uint64 ht (toU64_lt x)

theorem Decodes.int64Opt {tag : Nat} {x : Int} (ht : SmallTag tag) :
    Decodes (encodeInt64Opt tag x) (fInt64Opt tag x) := by
  unfold encodeInt64Opt fInt64Opt
  split
  · exact Decodes.nil
  · exact Decodes.int64 ht

theorem Decodes.boolOpt {tag : Nat} {b : Bool} (ht : SmallTag tag) :
    Decodes (encodeBoolOpt tag b) (fBoolOpt tag b) := by
  unfold encodeBoolOpt fBoolOpt
  split
  · exact Decodes.uint64 ht (by unfold two64; omega)
  · exact Decodes.nil

theorem Decodes.string {tag : Nat} {s : Str} (ht : SmallTag tag) (hl : s.length < two64) :
    Decodes (encodeString tag s) [fLen tag s] := by
  have : encodeString tag s = encodeMessage tag s := rfl
  rw [this]; exact Decodes.message ht hl

theorem Decodes.strings {tag : Nat} (ht : SmallTag tag) :
    ∀ {ss : List Str}, (∀ s ∈ ss, s.length < two64) → Decodes (encodeStrings tag ss) (ss.map (fLen tag))
  | [], _ => Decodes.nil
  | s :: ss, h => by
    unfold encodeStrings
    simp only [List.flatMap_cons, List.map_cons]
    exact Decodes.append (a := encodeString tag s) (fa := [fLen tag s])
      (Decodes.string ht (h s (by simp)))
      (Decodes.strings ht (fun s' hs' => h s' (by simp [hs'])))

theorem Decodes.uint64s {tag : Nat} {xs : List Nat} (ht : SmallTag tag)
    (hx : ∀ x ∈ xs, x < two64) (hl : (xs.flatMap encodeVarint).length < two64) :
    Decodes (encodeUint64s tag xs) (fUint64s tag xs) := by
  unfold encodeUint64s fUint64s
  split
  · exact Decodes.message ht hl
  · rename_i hlen
    clear hl hlen
    induction xs with
    | nil => exact Decodes.nil
    | cons x xs ih =>
      simp only [List.flatMap_cons, List.map_cons]
      exact Decodes.append (fa := [fU64 tag x]) (Decodes.uint64 ht (hx x (by simp)))
        (ih (fun y hy => hx y (by simp [hy])))

theorem Decodes.int64s {tag : Nat} {xs : List Int} (ht : SmallTag tag)
    (hl : ((xs.map toU64).flatMap encodeVarint).length < two64) :
    Decodes (encodeInt64s tag xs) (fInt64s tag xs) :=
  Decodes.uint64s ht (by
    intro x hx
    obtain ⟨i, _, rfl⟩ := List.mem_map.mp hx
    exact toU64_lt i) hl

/-- repeated sub-messages -/
theorem Decodes.messages {α : Type} {tag : Nat} (enc : α → Bytes) (ht : SmallTag tag) :
    ∀ {l : List α}, (∀ a ∈ l, (enc a).length < two64) →
      Decodes (l.flatMap (fun a => encodeMessage tag (enc a))) (l.map (fun a => fLen tag (enc a)))
  | [], _ => Decodes.nil
  | a :: l, h => by
    simp only [List.flatMap_cons, List.map_cons]
    exact Decodes.append (fa := [fLen tag (enc a)]) (Decodes.message ht (h a (by simp)))
      (Decodes.messages enc ht (fun b hb => h b (by simp [hb])))

/-! ### packed scalars -/
theorem decodePacked_flatMap : ∀ (xs : List Nat) (fuel : Nat), (∀ x ∈ xs, x < two64) →
    (xs.flatMap encodeVarint).length ≤ fuel → decodePacked fuel (xs.flatMap encodeVarint) = .ok xs
  | [], fuel, _, _ => by cases fuel <;> rfl
  | x :: xs, fuel, hx, hf => by
    simp only [List.flatMap_cons] at hf ⊢
    have hne := encodeVarint_ne_nil x
    cases hev : encodeVarint x with
    | nil => exact absurd hev hne
    | cons b bs =>
      rw [hev] at hf
      cases fuel with
      | zero => simp at hf
      | succ fuel =>
        simp only [List.cons_append, decodePacked]
        have hd := decodeVarint_encodeVarint x (hx x (by simp)) (xs.flatMap encodeVarint)
        rw [hev] at hd
        simp only [List.cons_append] at hd
        rw [hd]
        simp only [bind, Outcome.bind]
        have ih := decodePacked_flatMap xs fuel (fun y hy => hx y (by simp [hy]))
          (by simp only [List.cons_append, List.length_cons, List.length_append] at hf; omega)
        rw [ih]; rfl

theorem decodeUint64s_packed (tag : Nat) (xs acc : List Nat) (hx : ∀ x ∈ xs, x < two64) :
    decodeUint64s (fLen tag (xs.flatMap encodeVarint)) acc = .ok (acc ++ xs) := by
  unfold decodeUint64s fLen
  simp only [if_true, bind, Outcome.bind]
  rw [decodePacked_flatMap xs _ hx (Nat.le_refl _)]
  rfl

theorem decodeUint64s_single (tag x : Nat) (acc : List Nat) :
    decodeUint64s (fU64 tag x) acc = .ok (acc ++ [x]) := by
  simp [decodeUint64s, fU64, decodeUint64, bind, Outcome.bind]

theorem map_toI64_toU64 : ∀ (xs : List Int), (∀ x ∈ xs, InI64 x) → (xs.map toU64).map toI64 = xs
  | [], _ => rfl
  | x :: xs, h => by
    simp only [List.map_cons]
    rw [toI64_toU64 x (h x (by simp)), map_toI64_toU64 xs (fun y hy => h y (by simp [hy]))]

theorem decodeInt64s_packed (tag : Nat) (xs acc : List Int) (hx : ∀ x ∈ xs, InI64 x) :
    decodeInt64s (fLen tag ((xs.map toU64).flatMap encodeVarint)) acc = .ok (acc ++ xs) := by
  have h1 : ∀ u ∈ xs.map toU64, u < two64 := by
    intro u hu; obtain ⟨i, _, rfl⟩ := List.mem_map.mp hu; exact toU64_lt i
  unfold decodeInt64s fLen
  simp only [if_true, bind, Outcome.bind]
  rw [decodePacked_flatMap _ _ h1 (Nat.le_refl _)]
  simp only [pure, map_toI64_toU64 xs hx]

theorem decodeInt64s_single (tag : Nat) (x : Int) (acc : List Int) (hx : InI64 x) :
    decodeInt64s (fU64 tag (toU64 x)) acc = .ok (acc ++ [x]) := by
  simp [decodeInt64s, fU64, decodeInt64, bind, Outcome.bind, toI64_toU64 x hx]

/-! ### `applyAll` step lemmas -/
section steps
variable {M : Type} (apply : M → Field → Outcome M)

theorem applyAll_cons_ok {m m' : M} {f : Field} {rest : List Field} (h : apply m f = .ok m') :
    applyAll apply m (f :: rest) = applyAll apply m' rest := by
  simp [applyAll, h]

/-- an optional scalar: absent when zero, and then the record already holds zero -/
theorem step_uint64Opt {m m' : M} {tag x : Nat} {rest : List Field}
    (h : apply m (fU64 tag x) = .ok m') (hz : x = 0 → m = m') :
    applyAll apply m (fUint64Opt tag x ++ rest) = applyAll apply m' rest := by
  unfold fUint64Opt
  split
  · rename_i h0; rw [hz h0]; rfl
  · exact applyAll_cons_ok apply h

theorem step_int64Opt {m m' : M} {tag : Nat} {x : Int} {rest : List Field}
    (h : apply m (fU64 tag (toU64 x)) = .ok m') (hz : x = 0 → m = m') :
    applyAll apply m (fInt64Opt tag x ++ rest) = applyAll apply m' rest := by
  unfold fInt64Opt
  split
  · rename_i h0; rw [hz h0]; rfl
  · exact applyAll_cons_ok apply h

theorem step_int64 {m m' : M} {tag : Nat} {x : Int} {rest : List Field}
    (h : apply m (fU64 tag (toU64 x)) = .ok m') :
    applyAll apply m (fInt64 tag x ++ rest) = applyAll apply m' rest :=
  applyAll_cons_ok apply h

theorem step_boolOpt {m m' : M} {tag : Nat} {b : Bool} {rest : List Field}
    (h : b = true → apply m (fU64 tag 1) = .ok m') (hz : b = false → m = m') :
    applyAll apply m (fBoolOpt tag b ++ rest) = applyAll apply m' rest := by
  unfold fBoolOpt
  split
  · rename_i hb; exact applyAll_cons_ok apply (h hb)
  · rename_i h0; rw [hz (by simpa using h0)]; rfl

/-- a run of fields each of which pushes one element -/
theorem step_push {α : Type} (push : M → α → M) (mk : α → Field) :
    ∀ (l : List α) (m : M) (rest : List Field), (∀ m a, a ∈ l → apply m (mk a) = .ok (push m a)) →
      applyAll apply m (l.map mk ++ rest) = applyAll apply (l.foldl push m) rest
  | [], _, _, _ => rfl
  | a :: l, m, rest, h => by
    simp only [List.map_cons, List.cons_append, List.foldl_cons]
    rw [applyAll_cons_ok apply (h m a (by simp))]
    exact step_push push mk l (push m a) rest (fun m b hb => h m b (by simp [hb]))

end steps

end PV.Wire
