import PprofVerif.Lemmas.GraphNodes
namespace PV.Graph
open PV.GSpec
variable {κ : Type} [DecidableEq κ]

theorem link_some (v : WD) (a : Inner κ) (n p : κ) (h : a.parent = some p) :
    link v a n = if (n, p) ∉ a.seenE ∧ n ≠ p then
      { a with seenE := (n, p) :: a.seenE, g := a.g.addEdge p n v a.residual } else a := by
  unfold link
  simp [h]
theorem link_none (v : WD) (a : Inner κ) (n : κ) (h : a.parent = none) : link v a n = a := by
  unfold link; simp [h]

theorem stepFrame_notKept (K : κ → Bool) (v : WD) (a : Inner κ) (n : κ) (h : K n = false) :
    stepFrame K v a n = { a with residual := true } := by
  rw [stepFrame_eq]; simp [h]

/-- kept frame, an edge parent→f is added -/
theorem stepFrame_adds (K : κ → Bool) (v : WD) (a : Inner κ) (f p : κ) (hk : K f = true)
    (hp : a.parent = some p) (h1 : (f, p) ∉ a.seenE) (h2 : f ≠ p) :
    (stepFrame K v a f).seenE = (f, p) :: a.seenE ∧
    (∀ x y, (stepFrame K v a f).g.edgeAt x y = (a.g.addEdge p f v a.residual).edgeAt x y) ∧
    (∀ x y, (stepFrame K v a f).g.hasEdge x y = (a.g.addEdge p f v a.residual).hasEdge x y) := by
  rw [stepFrame_eq]
  have hv : (visit v a f).parent = some p := by simp [hp]
  have hc : (f, p) ∉ (visit v a f).seenE ∧ f ≠ p := by simp [h1, h2]
  simp only [hk, if_true]
  rw [link_some _ _ _ _ hv, if_pos hc]
  refine ⟨by simp, fun x y => ?_, fun x y => ?_⟩
  · simp [addEdge_edgeAt]
  · simp [addEdge_hasEdge]

/-- kept frame, no edge added -/
theorem stepFrame_noadd (K : κ → Bool) (v : WD) (a : Inner κ) (f : κ) (hk : K f = true)
    (h : a.parent = none ∨ ∃ p, a.parent = some p ∧ ((f, p) ∈ a.seenE ∨ f = p)) :
    (stepFrame K v a f).seenE = a.seenE ∧
    (∀ x y, (stepFrame K v a f).g.edgeAt x y = a.g.edgeAt x y) ∧
    (∀ x y, (stepFrame K v a f).g.hasEdge x y = a.g.hasEdge x y) := by
  rw [stepFrame_eq]
  simp only [hk, if_true]
  rcases h with hn | ⟨p, hp, hc⟩
  · have hv : (visit v a f).parent = none := by simp [hn]
    rw [link_none _ _ _ hv]
    simp
  · have hv : (visit v a f).parent = some p := by simp [hp]
    have hc' : ¬ ((f, p) ∉ (visit v a f).seenE ∧ f ≠ p) := by
      simp only [visit_seenE]
      rintro ⟨h1, h2⟩
      rcases hc with hc | hc
      · exact h1 hc
      · exact h2 hc
    rw [link_some _ _ _ _ hv, if_neg hc']
    simp

/-- what the frame loop does to the table entry of edge (x,y): `some r` = the sample is added to it
once, with residual flag `r`; `none` = untouched. -/
def edgeEv (K : κ → Bool) (seenE : List (κ × κ)) (par : Option κ) (res : Bool) (fs : List κ) (x y : κ) :
    Option Bool :=
  if x ≠ y ∧ (y, x) ∉ seenE then firstFlag x y (pairsK K par res fs) else none

def applyEvent (e : EdgeAcc) (v : WD) : Option Bool → EdgeAcc
  | none => e
  | some r => ⟨e.weight + v, e.residual || r⟩

theorem foldFrames_edge (K : κ → Bool) (v : WD) (x y : κ) (fs : List κ) : ∀ (a : Inner κ),
    (fs.foldl (stepFrame K v) a).g.edgeAt x y =
        applyEvent (a.g.edgeAt x y) v (edgeEv K a.seenE a.parent a.residual fs x y) ∧
    (fs.foldl (stepFrame K v) a).g.hasEdge x y =
        (a.g.hasEdge x y || (edgeEv K a.seenE a.parent a.residual fs x y).isSome) := by
  induction fs with
  | nil => intro a; simp [edgeEv, pairsK, firstFlag, applyEvent]
  | cons f fs ih =>
    intro a
    rw [List.foldl_cons]
    obtain ⟨ih1, ih2⟩ := ih (stepFrame K v a f)
    rw [ih1, ih2, stepFrame_parent, stepFrame_residual]
    by_cases hk : K f = true
    · cases hp : a.parent with
      | none =>
        obtain ⟨e1, e2, e3⟩ := stepFrame_noadd K v a f hk (Or.inl hp)
        rw [e1, e2, e3]
        simp [edgeEv, pairsK, hk]
      | some p =>
        by_cases hadd : (f, p) ∉ a.seenE ∧ f ≠ p
        · obtain ⟨e1, e2, e3⟩ := stepFrame_adds K v a f p hk hp hadd.1 hadd.2
          rw [e1, e2, e3, addEdge_edgeAt, addEdge_hasEdge]
          by_cases hxy : p = x ∧ f = y
          · obtain ⟨rfl, rfl⟩ := hxy
            have hne : p ≠ f := fun h => hadd.2 h.symm
            simp [edgeEv, pairsK, hk, firstFlag, hadd.1, hne, applyEvent]
          · have hxy' : ¬ (f = y ∧ p = x) := fun h => hxy ⟨h.2, h.1⟩
            have h3 : (y = f → ¬ x = p) ↔ True := iff_true_intro (fun h1 h2 => hxy ⟨h2.symm, h1.symm⟩)
            simp [edgeEv, pairsK, hk, firstFlag, hxy, hxy', h3]
        · have hc : (f, p) ∈ a.seenE ∨ f = p := by
            by_cases h1 : (f, p) ∈ a.seenE
            · exact Or.inl h1
            · by_cases h2 : f = p
              · exact Or.inr h2
              · exact absurd ⟨h1, h2⟩ hadd
          obtain ⟨e1, e2, e3⟩ := stepFrame_noadd K v a f hk (Or.inr ⟨p, hp, hc⟩)
          rw [e1, e2, e3]
          by_cases hxy : p = x ∧ f = y
          · obtain ⟨rfl, rfl⟩ := hxy
            rcases hc with hc | hc
            · simp [edgeEv, hc, applyEvent]
            · simp [edgeEv, hc, applyEvent]
          · simp [edgeEv, pairsK, hk, firstFlag, hxy]
    · have hkf : K f = false := by simpa using hk
      rw [stepFrame_notKept K v a f hkf]
      simp [edgeEv, pairsK, hkf]
end PV.Graph
