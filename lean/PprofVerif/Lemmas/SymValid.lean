import PprofVerif.Lemmas.SymFrame
/-!
Helper lemmas for C12 (3/3): the function table only grows, new ids are fresh (unless the id
counter wrapped), every line refers to a function of the table.  Core Lean only.
-/
namespace PV.Sym
open PV

def HasId (fs : List Function) (i : Nat) : Prop := ∃ f ∈ fs, f.id = i
def LinesIn (fs : List Function) (l : Location) : Prop := ∀ ln ∈ l.lines, HasId fs ln.functionID
def LocsIn (fs : List Function) (locs : List Location) : Prop := ∀ l ∈ locs, LinesIn fs l

/-- unique non-zero ids (`idsNodup` of the id list). -/
def Good (fs : List Function) : Prop := (fs.map (·.id)).Nodup ∧ 0 ∉ fs.map (·.id)

/-- the table grows by appending functions whose name is their system name. -/
def Ext (fs fs' : List Function) : Prop := ∃ extra, fs' = fs ++ extra ∧ ∀ g ∈ extra, g.name = g.systemName

theorem Ext.refl (fs : List Function) : Ext fs fs := ⟨[], by simp, by simp⟩
theorem Ext.trans {a b c : List Function} (h1 : Ext a b) (h2 : Ext b c) : Ext a c := by
  obtain ⟨e1, r1, p1⟩ := h1
  obtain ⟨e2, r2, p2⟩ := h2
  refine ⟨e1 ++ e2, by rw [r2, r1, List.append_assoc], ?_⟩
  intro g hg
  rcases List.mem_append.mp hg with h | h
  · exact p1 g h
  · exact p2 g h
theorem Ext.subset {a b : List Function} (h : Ext a b) : ∀ f ∈ a, f ∈ b := by
  obtain ⟨e, r, _⟩ := h
  intro f hf; rw [r]; exact List.mem_append_left _ hf

theorem HasId.mono {a b : List Function} (h : Ext a b) {i} (hi : HasId a i) : HasId b i := by
  obtain ⟨f, hf, e⟩ := hi; exact ⟨f, h.subset f hf, e⟩
theorem LinesIn.mono {a b : List Function} (h : Ext a b) {l} (hl : LinesIn a l) : LinesIn b l :=
  fun ln hln => (hl ln hln).mono h
theorem LocsIn.mono {a b : List Function} (h : Ext a b) {locs} (hl : LocsIn a locs) : LocsIn b locs :=
  fun l hl' => (hl l hl').mono h

def FGood (t : FTab) : Prop := t.wrapped = false → Good t.functions
def FInv (t : FTab) : Prop := t.wrapped = false → Good t.functions ∧ ∀ f ∈ t.functions, f.id ≤ t.top

theorem FInv.good {t : FTab} (h : FInv t) : FGood t := fun hw => (h hw).1

theorem foldl_max_ge (fs : List Function) (a : Nat) :
    a ≤ fs.foldl (fun a f => max a f.id) a ∧ ∀ f ∈ fs, f.id ≤ fs.foldl (fun a f => max a f.id) a := by
  induction fs generalizing a with
  | nil => simp
  | cons g rest ih =>
    simp only [List.foldl_cons, List.mem_cons]
    have h := ih (max a g.id)
    refine ⟨Nat.le_trans (Nat.le_max_left _ _) h.1, ?_⟩
    intro f hf
    rcases hf with e | hf
    · rw [e]; exact Nat.le_trans (Nat.le_max_right _ _) h.1
    · exact h.2 f hf

theorem maxFuncID_ge (fs : List Function) : ∀ f ∈ fs, f.id ≤ maxFuncID fs := (foldl_max_ge fs 0).2

theorem rescan_inv {t : FTab} (h : FGood t) : FInv t.rescan := by
  intro hw
  exact ⟨h hw, maxFuncID_ge t.functions⟩

theorem alloc_spec (t : FTab) (name file : Str) (sl : Int) (h : FInv t) :
    FInv (t.alloc name file sl).1 ∧ Ext t.functions (t.alloc name file sl).1.functions ∧
    HasId (t.alloc name file sl).1.functions (t.alloc name file sl).2 := by
  simp only [FTab.alloc]
  refine ⟨?_, ⟨[_], rfl, by simp⟩, ⟨_, List.mem_append_right _ (List.mem_singleton_self _), rfl⟩⟩
  intro hw
  simp only [Bool.or_eq_false_iff, decide_eq_false_iff_not, Nat.not_le] at hw
  obtain ⟨⟨hn, h0⟩, hb⟩ := h hw.1
  have hid : (t.top + 1) % two64 = t.top + 1 := Nat.mod_eq_of_lt hw.2
  simp only [hid]
  refine ⟨⟨?_, ?_⟩, ?_⟩
  · rw [List.map_append, List.nodup_append]
    refine ⟨hn, by simp, ?_⟩
    intro a ha b hb'
    simp only [List.map_cons, List.map_nil, List.mem_singleton] at hb'
    obtain ⟨f, hf, e⟩ := List.mem_map.mp ha
    have := hb f hf
    omega
  · rw [List.map_append]
    intro hm
    rcases List.mem_append.mp hm with h | h
    · exact h0 h
    · simp at h
  · intro f hf
    rcases List.mem_append.mp hf with h | h
    · exact Nat.le_succ_of_le (hb f h)
    · simp only [List.mem_singleton] at h; rw [h]; exact Nat.le_refl _

theorem lookup_some_mem {α β : Type} [BEq α] (l : List (α × β)) (k : α) (v : β)
    (h : l.lookup k = some v) : ∃ k', (k', v) ∈ l := by
  induction l with
  | nil => simp [List.lookup] at h
  | cons p rest ih =>
    obtain ⟨k1, v1⟩ := p
    simp only [List.lookup] at h
    split at h
    · simp only [Option.some.injEq] at h; subst h; exact ⟨k1, List.mem_cons_self ..⟩
    · obtain ⟨k', hk⟩ := ih h; exact ⟨k', List.mem_cons_of_mem _ hk⟩

/-! ### local step -/

def IntInv (st : LSt) : Prop := ∀ p ∈ st.intern, HasId st.tab.functions p.2

theorem addFunction_spec (st : LSt) (fr : Frame) (hi : IntInv st) (hf : FInv st.tab) :
    IntInv (addFunction st fr).1 ∧ FInv (addFunction st fr).1.tab ∧
    Ext st.tab.functions (addFunction st fr).1.tab.functions ∧
    HasId (addFunction st fr).1.tab.functions (addFunction st fr).2 := by
  unfold addFunction
  simp only []
  split
  · rename_i id hl
    obtain ⟨k', hk⟩ := lookup_some_mem _ _ _ hl
    exact ⟨hi, hf, Ext.refl _, hi _ hk⟩
  · have ha := alloc_spec st.tab fr.func fr.file fr.startLine hf
    refine ⟨?_, ha.1, ha.2.1, ha.2.2⟩
    intro p hp
    rcases List.mem_cons.mp hp with e | hp
    · rw [e]; exact ha.2.2
    · exact (hi p hp).mono ha.2.1

theorem symFrames_spec (st : LSt) (m : Mapping) (frs : List Frame) (hi : IntInv st) (hf : FInv st.tab) :
    IntInv (symFrames st m frs).1 ∧ FInv (symFrames st m frs).1.tab ∧
    Ext st.tab.functions (symFrames st m frs).1.tab.functions ∧
    ∀ ln ∈ (symFrames st m frs).2.2, HasId (symFrames st m frs).1.tab.functions ln.functionID := by
  induction frs generalizing st m with
  | nil => exact ⟨hi, hf, Ext.refl _, by simp [symFrames]⟩
  | cons fr rest ih =>
    simp only [symFrames]
    have h1 := addFunction_spec st fr hi hf
    have h2 := ih (addFunction st fr).1
      { m with hasFunctions := m.hasFunctions || decide (fr.func ≠ []),
               hasFilenames := m.hasFilenames || decide (fr.file ≠ []),
               hasLineNumbers := m.hasLineNumbers || decide (fr.line ≠ 0) } h1.1 h1.2.1
    refine ⟨h2.1, h2.2.1, Ext.trans h1.2.2.1 h2.2.2.1, ?_⟩
    intro ln hln
    rcases List.mem_cons.mp hln with e | hln
    · rw [e]; exact h1.2.2.2.mono h2.2.2.1
    · exact h2.2.2.2 ln hln

theorem symLocation_spec {σ} (tool : ObjTool σ) (s : σ) (st : LSt) (m : Mapping) (l : Location)
    (hi : IntInv st) (hf : FInv st.tab) (hl : LinesIn st.tab.functions l) :
    IntInv (symLocation tool s st m l).2.1 ∧ FInv (symLocation tool s st m l).2.1.tab ∧
    Ext st.tab.functions (symLocation tool s st m l).2.1.tab.functions ∧
    LinesIn (symLocation tool s st m l).2.1.tab.functions (symLocation tool s st m l).2.2.2 := by
  unfold symLocation
  split
  · rename_i s1 fr frs _
    have h := symFrames_spec st m (fr :: frs) hi hf
    exact ⟨h.1, h.2.1, h.2.2.1, h.2.2.2⟩
  · exact ⟨hi, hf, Ext.refl _, hl⟩

theorem symLocs_spec {σ} (tool : ObjTool σ) (mid : Nat) (s : σ) (st : LSt) (m : Mapping)
    (locs : List Location) (hi : IntInv st) (hf : FInv st.tab) (hl : LocsIn st.tab.functions locs) :
    IntInv (symLocs tool mid s st m locs).2.1 ∧ FInv (symLocs tool mid s st m locs).2.1.tab ∧
    Ext st.tab.functions (symLocs tool mid s st m locs).2.1.tab.functions ∧
    LocsIn (symLocs tool mid s st m locs).2.1.tab.functions (symLocs tool mid s st m locs).2.2.2 := by
  induction locs generalizing s st m with
  | nil => exact ⟨hi, hf, Ext.refl _, by intro l h; cases h⟩
  | cons l rest ih =>
    have hl0 : LinesIn st.tab.functions l := hl l (List.mem_cons_self ..)
    have hlr : LocsIn st.tab.functions rest := fun x hx => hl x (List.mem_cons_of_mem _ hx)
    simp only [symLocs]
    split
    · have h1 := symLocation_spec tool s st m l hi hf hl0
      have h2 := ih (symLocation tool s st m l).1 (symLocation tool s st m l).2.1
        (symLocation tool s st m l).2.2.1 h1.1 h1.2.1 (hlr.mono h1.2.2.1)
      refine ⟨h2.1, h2.2.1, Ext.trans h1.2.2.1 h2.2.2.1, ?_⟩
      intro x hx
      rcases List.mem_cons.mp hx with e | hx
      · rw [e]; exact h1.2.2.2.mono h2.2.2.1
      · exact h2.2.2.2 x hx
    · have h2 := ih s st m hi hf hlr
      refine ⟨h2.1, h2.2.1, h2.2.2.1, ?_⟩
      intro x hx
      rcases List.mem_cons.mp hx with e | hx
      · rw [e]; exact hl0.mono h2.2.2.1
      · exact h2.2.2.2 x hx

theorem localMapping_spec {σ} (tool : ObjTool σ) (isSourceURL : Str → Bool) (force : Bool)
    (s : σ) (st : LSt) (locs : List Location) (m : Mapping)
    (hi : IntInv st) (hf : FInv st.tab) (hl : LocsIn st.tab.functions locs) :
    IntInv (localMapping tool isSourceURL force s st locs m).2.1 ∧
    FInv (localMapping tool isSourceURL force s st locs m).2.1.tab ∧
    Ext st.tab.functions (localMapping tool isSourceURL force s st locs m).2.1.tab.functions ∧
    LocsIn (localMapping tool isSourceURL force s st locs m).2.1.tab.functions
      (localMapping tool isSourceURL force s st locs m).2.2.1 := by
  have idr := (⟨hi, hf, Ext.refl _, hl⟩ :
    IntInv st ∧ FInv st.tab ∧ Ext st.tab.functions st.tab.functions ∧ LocsIn st.tab.functions locs)
  unfold localMapping
  split
  · exact idr
  · split
    · simp only []
      split
      · exact idr
      · exact symLocs_spec tool m.id _ st m locs hi hf hl
    · exact idr

theorem localLoop_spec {σ} (tool : ObjTool σ) (isSourceURL : Str → Bool) (force : Bool)
    (s : σ) (st : LSt) (locs : List Location) (ms : List Mapping)
    (hi : IntInv st) (hf : FInv st.tab) (hl : LocsIn st.tab.functions locs) :
    FInv (localLoop tool isSourceURL force s st locs ms).2.1.tab ∧
    Ext st.tab.functions (localLoop tool isSourceURL force s st locs ms).2.1.tab.functions ∧
    LocsIn (localLoop tool isSourceURL force s st locs ms).2.1.tab.functions
      (localLoop tool isSourceURL force s st locs ms).2.2.1 := by
  induction ms generalizing s st locs with
  | nil => exact ⟨hf, Ext.refl _, hl⟩
  | cons m rest ih =>
    simp only [localLoop]
    have h1 := localMapping_spec tool isSourceURL force s st locs m hi hf hl
    have h2 := ih (localMapping tool isSourceURL force s st locs m).1
      (localMapping tool isSourceURL force s st locs m).2.1
      (localMapping tool isSourceURL force s st locs m).2.2.1 h1.1 h1.2.1 h1.2.2.2
    exact ⟨h2.1, Ext.trans h1.2.2.1 h2.2.1, h2.2.2⟩

theorem doLocal_spec {σ} (tool : ObjTool σ) (isSourceURL : Str → Bool) (force : Bool)
    (s : σ) (tab : FTab) (locs : List Location) (ms : List Mapping)
    (hf : FGood tab) (hl : LocsIn tab.functions locs) :
    FGood (doLocal tool isSourceURL force s tab locs ms).2.1 ∧
    Ext tab.functions (doLocal tool isSourceURL force s tab locs ms).2.1.functions ∧
    LocsIn (doLocal tool isSourceURL force s tab locs ms).2.1.functions
      (doLocal tool isSourceURL force s tab locs ms).2.2.1 := by
  unfold doLocal
  have h := localLoop_spec tool isSourceURL force s { tab := tab.rescan, intern := [] } locs ms
    (by intro p hp; cases hp) (rescan_inv hf) hl
  exact ⟨h.1.good, h.2.1, h.2.2⟩

/-! ### remote step -/

def ZInv (st : ZSt) : Prop :=
  (∀ p ∈ st.names, HasId st.tab.functions p.2) ∧ (∀ p ∈ st.lineMap, HasId st.tab.functions p.2)

theorem internName_spec (st : ZSt) (name : Str) (hi : ZInv st) (hf : FInv st.tab) :
    ZInv (internName st name).1 ∧ FInv (internName st name).1.tab ∧
    Ext st.tab.functions (internName st name).1.tab.functions ∧
    HasId (internName st name).1.tab.functions (internName st name).2 := by
  unfold internName
  split
  · rename_i id hl
    obtain ⟨k', hk⟩ := lookup_some_mem _ _ _ hl
    exact ⟨hi, hf, Ext.refl _, hi.1 _ hk⟩
  · have ha := alloc_spec st.tab name [] 0 hf
    refine ⟨⟨?_, ?_⟩, ha.1, ha.2.1, ha.2.2⟩
    · intro p hp
      rcases List.mem_cons.mp hp with e | hp
      · rw [e]; exact ha.2.2
      · exact (hi.1 p hp).mono ha.2.1
    · intro p hp; exact (hi.2 p hp).mono ha.2.1

theorem symzLines_spec (parseLine : Str → Option (Outcome Nat × Str)) (negOff : Int)
    (st : ZSt) (lines : List Str) (hi : ZInv st) (hf : FInv st.tab) :
    ZInv (symzLines parseLine negOff st lines).1 ∧ FInv (symzLines parseLine negOff st lines).1.tab ∧
    Ext st.tab.functions (symzLines parseLine negOff st lines).1.tab.functions := by
  induction lines generalizing st with
  | nil => exact ⟨hi, hf, Ext.refl _⟩
  | cons ln rest ih =>
    simp only [symzLines]
    cases hp : parseLine ln with
    | none => exact ih st hi hf
    | some pr =>
      obtain ⟨o, name⟩ := pr
      cases o with
      | ok orig =>
        simp only []
        cases hadj : adjust orig negOff with
        | none => exact ⟨hi, hf, Ext.refl _⟩
        | some addr =>
          have h1 := internName_spec st name hi hf
          have h2 := ih { (internName st name).1 with
              lineMap := (addr, (internName st name).2) :: (internName st name).1.lineMap }
            ⟨h1.1.1, (by
              intro p hp
              rcases List.mem_cons.mp hp with e | hp
              · rw [e]; exact h1.2.2.2
              · exact h1.1.2 p hp)⟩ h1.2.1
          exact ⟨h2.1, h2.2.1, Ext.trans h1.2.2.1 h2.2.2⟩
      | err e => exact ⟨hi, hf, Ext.refl _⟩
      | panic e => exact ⟨hi, hf, Ext.refl _⟩

theorem applyLine_linesIn (fs : List Function) (mid : Nat) (lm : List (Nat × Nat)) (l : Location)
    (hlm : ∀ p ∈ lm, HasId fs p.2) (hl : LinesIn fs l) : LinesIn fs (applyLine mid lm l) := by
  unfold applyLine
  split
  · split
    · rename_i id hlk
      obtain ⟨k', hk⟩ := lookup_some_mem _ _ _ hlk
      intro ln hln
      simp only [List.mem_singleton] at hln
      rw [hln]; exact hlm _ hk
    · exact hl
  · exact hl

theorem symbolizeMapping_spec {τ} (z : Symz τ) (src : Str) (off : Int) (mid : Nat)
    (t : τ) (tab : FTab) (locs : List Location) (hf : FGood tab) (hl : LocsIn tab.functions locs) :
    FGood (symbolizeMapping z src off mid t tab locs).2.1 ∧
    Ext tab.functions (symbolizeMapping z src off mid t tab locs).2.1.functions ∧
    LocsIn (symbolizeMapping z src off mid t tab locs).2.1.functions
      (symbolizeMapping z src off mid t tab locs).2.2.1 := by
  have idr := (⟨hf, Ext.refl _, hl⟩ : FGood tab ∧ Ext tab.functions tab.functions ∧ LocsIn tab.functions locs)
  unfold symbolizeMapping
  split
  · exact idr
  · exact idr
  · split
    · rename_i t1 body _
      have h := symzLines_spec z.parseLine (negI64 off) { tab := tab.rescan, names := [], lineMap := [] }
        (splitLines body) ⟨(by intro p hp; cases hp), (by intro p hp; cases hp)⟩ (rescan_inv hf)
      simp only []
      split
      · exact ⟨h.2.1.good, h.2.2, hl.mono h.2.2⟩
      · refine ⟨h.2.1.good, h.2.2, ?_⟩
        intro l' hl'
        obtain ⟨l0, hl0, e⟩ := List.mem_map.mp hl'
        rw [← e]
        exact applyLine_linesIn _ mid _ l0 h.1.2 ((hl l0 hl0).mono h.2.2)
    · exact idr

theorem remoteMapping_spec {τ} (z : Symz τ) (force : Bool) (sources : Sources)
    (t : τ) (tab : FTab) (locs : List Location) (m : Mapping)
    (hf : FGood tab) (hl : LocsIn tab.functions locs) :
    FGood (remoteMapping z force sources t tab locs m).2.1 ∧
    Ext tab.functions (remoteMapping z force sources t tab locs m).2.1.functions ∧
    LocsIn (remoteMapping z force sources t tab locs m).2.1.functions
      (remoteMapping z force sources t tab locs m).2.2.1 := by
  have idr := (⟨hf, Ext.refl _, hl⟩ : FGood tab ∧ Ext tab.functions tab.functions ∧ LocsIn tab.functions locs)
  unfold remoteMapping
  split
  · exact idr
  · simp only []
    split
    · exact idr
    · rename_i src _
      have h := symbolizeMapping_spec z (z.symbolzURL src.source) (srcOffset src.start m.start) m.id
        t tab locs hf hl
      split <;> exact h

theorem remoteLoop_spec {τ} (z : Symz τ) (force : Bool) (sources : Sources)
    (t : τ) (tab : FTab) (locs : List Location) (ms : List Mapping)
    (hf : FGood tab) (hl : LocsIn tab.functions locs) :
    FGood (remoteLoop z force sources t tab locs ms).2.1 ∧
    Ext tab.functions (remoteLoop z force sources t tab locs ms).2.1.functions ∧
    LocsIn (remoteLoop z force sources t tab locs ms).2.1.functions
      (remoteLoop z force sources t tab locs ms).2.2.1 := by
  induction ms generalizing t tab locs with
  | nil => exact ⟨hf, Ext.refl _, hl⟩
  | cons m rest ih =>
    simp only [remoteLoop]
    have h1 := remoteMapping_spec z force sources t tab locs m hf hl
    split
    · exact h1
    · have h2 := ih (remoteMapping z force sources t tab locs m).1
        (remoteMapping z force sources t tab locs m).2.1
        (remoteMapping z force sources t tab locs m).2.2.1 h1.1 h1.2.2
      exact ⟨h2.1, Ext.trans h1.2.1 h2.2.1, h2.2.2⟩

theorem symbolizeTables_spec {σ τ} (env : Env σ τ) (o : Opts) (sources : Sources) (p : Profile)
    (s : σ) (t : τ) (hg : Good p.functions) (hl : LocsIn p.functions p.locations) :
    FGood (symbolizeTables env o sources p s t).2.1 ∧
    Ext p.functions (symbolizeTables env o sources p s t).2.1.functions ∧
    LocsIn (symbolizeTables env o sources p s t).2.1.functions
      (symbolizeTables env o sources p s t).2.2.1 := by
  have h0 : FGood { functions := p.functions, top := 0, wrapped := false } := fun _ => hg
  have hL : FGood (if o.locl then doLocal env.tool env.isSourceURL o.force s { functions := p.functions, top := 0, wrapped := false } p.locations p.mappings
         else (s, { functions := p.functions, top := 0, wrapped := false }, p.locations, p.mappings)).2.1 ∧
      Ext p.functions (if o.locl then doLocal env.tool env.isSourceURL o.force s { functions := p.functions, top := 0, wrapped := false } p.locations p.mappings
         else (s, { functions := p.functions, top := 0, wrapped := false }, p.locations, p.mappings)).2.1.functions ∧
      LocsIn (if o.locl then doLocal env.tool env.isSourceURL o.force s { functions := p.functions, top := 0, wrapped := false } p.locations p.mappings
         else (s, { functions := p.functions, top := 0, wrapped := false }, p.locations, p.mappings)).2.1.functions
        (if o.locl then doLocal env.tool env.isSourceURL o.force s { functions := p.functions, top := 0, wrapped := false } p.locations p.mappings
         else (s, { functions := p.functions, top := 0, wrapped := false }, p.locations, p.mappings)).2.2.1 := by
    split
    · exact doLocal_spec env.tool env.isSourceURL o.force s _ p.locations p.mappings h0 hl
    · exact ⟨h0, Ext.refl _, hl⟩
  unfold symbolizeTables
  simp only []
  split
  · have h2 := remoteLoop_spec env.symz o.force sources t _ _
      (if o.locl then doLocal env.tool env.isSourceURL o.force s { functions := p.functions, top := 0, wrapped := false } p.locations p.mappings
         else (s, { functions := p.functions, top := 0, wrapped := false }, p.locations, p.mappings)).2.2.2
      hL.1 hL.2.2
    exact ⟨h2.1, Ext.trans hL.2.1 h2.2.1, h2.2.2⟩
  · exact hL

/-! ### the function table is only extended (no hypothesis needed) -/

theorem alloc_ext (t : FTab) (name file : Str) (sl : Int) :
    Ext t.functions (t.alloc name file sl).1.functions := ⟨[_], rfl, by simp⟩

theorem addFunction_ext (st : LSt) (fr : Frame) :
    Ext st.tab.functions (addFunction st fr).1.tab.functions := by
  unfold addFunction
  simp only []
  split
  · exact Ext.refl _
  · exact alloc_ext _ _ _ _

theorem symFrames_ext (st : LSt) (m : Mapping) (frs : List Frame) :
    Ext st.tab.functions (symFrames st m frs).1.tab.functions := by
  induction frs generalizing st m with
  | nil => exact Ext.refl _
  | cons fr rest ih =>
    simp only [symFrames]
    exact Ext.trans (addFunction_ext st fr) (ih _ _)

theorem symLocation_ext {σ} (tool : ObjTool σ) (s : σ) (st : LSt) (m : Mapping) (l : Location) :
    Ext st.tab.functions (symLocation tool s st m l).2.1.tab.functions := by
  unfold symLocation
  split
  · exact symFrames_ext _ _ _
  · exact Ext.refl _

theorem symLocs_ext {σ} (tool : ObjTool σ) (mid : Nat) (s : σ) (st : LSt) (m : Mapping)
    (locs : List Location) : Ext st.tab.functions (symLocs tool mid s st m locs).2.1.tab.functions := by
  induction locs generalizing s st m with
  | nil => exact Ext.refl _
  | cons l rest ih =>
    simp only [symLocs]
    split
    · exact Ext.trans (symLocation_ext tool s st m l) (ih _ _ _)
    · exact ih s st m

theorem localMapping_ext {σ} (tool : ObjTool σ) (isSourceURL : Str → Bool) (force : Bool)
    (s : σ) (st : LSt) (locs : List Location) (m : Mapping) :
    Ext st.tab.functions (localMapping tool isSourceURL force s st locs m).2.1.tab.functions := by
  unfold localMapping
  split
  · exact Ext.refl _
  · split
    · simp only []
      split
      · exact Ext.refl _
      · exact symLocs_ext tool m.id _ st m locs
    · exact Ext.refl _

theorem localLoop_ext {σ} (tool : ObjTool σ) (isSourceURL : Str → Bool) (force : Bool)
    (s : σ) (st : LSt) (locs : List Location) (ms : List Mapping) :
    Ext st.tab.functions (localLoop tool isSourceURL force s st locs ms).2.1.tab.functions := by
  induction ms generalizing s st locs with
  | nil => exact Ext.refl _
  | cons m rest ih =>
    simp only [localLoop]
    exact Ext.trans (localMapping_ext tool isSourceURL force s st locs m) (ih _ _ _)

theorem doLocal_ext {σ} (tool : ObjTool σ) (isSourceURL : Str → Bool) (force : Bool)
    (s : σ) (tab : FTab) (locs : List Location) (ms : List Mapping) :
    Ext tab.functions (doLocal tool isSourceURL force s tab locs ms).2.1.functions := by
  unfold doLocal
  exact localLoop_ext tool isSourceURL force s { tab := tab.rescan, intern := [] } locs ms

theorem internName_ext (st : ZSt) (name : Str) :
    Ext st.tab.functions (internName st name).1.tab.functions := by
  unfold internName
  split
  · exact Ext.refl _
  · exact alloc_ext _ _ _ _

theorem symzLines_ext (parseLine : Str → Option (Outcome Nat × Str)) (negOff : Int)
    (st : ZSt) (lines : List Str) :
    Ext st.tab.functions (symzLines parseLine negOff st lines).1.tab.functions := by
  induction lines generalizing st with
  | nil => exact Ext.refl _
  | cons ln rest ih =>
    simp only [symzLines]
    cases hp : parseLine ln with
    | none => exact ih st
    | some pr =>
      obtain ⟨o, name⟩ := pr
      cases o with
      | ok orig =>
        simp only []
        cases hadj : adjust orig negOff with
        | none => exact Ext.refl _
        | some addr => exact Ext.trans (internName_ext st name) (ih _)
      | err e => exact Ext.refl _
      | panic e => exact Ext.refl _

theorem symbolizeMapping_ext {τ} (z : Symz τ) (src : Str) (off : Int) (mid : Nat)
    (t : τ) (tab : FTab) (locs : List Location) :
    Ext tab.functions (symbolizeMapping z src off mid t tab locs).2.1.functions := by
  unfold symbolizeMapping
  split
  · exact Ext.refl _
  · exact Ext.refl _
  · split
    · rename_i t1 body _
      have h := symzLines_ext z.parseLine (negI64 off) { tab := tab.rescan, names := [], lineMap := [] }
        (splitLines body)
      simp only []
      split <;> exact h
    · exact Ext.refl _

theorem remoteMapping_ext {τ} (z : Symz τ) (force : Bool) (sources : Sources)
    (t : τ) (tab : FTab) (locs : List Location) (m : Mapping) :
    Ext tab.functions (remoteMapping z force sources t tab locs m).2.1.functions := by
  unfold remoteMapping
  split
  · exact Ext.refl _
  · simp only []
    split
    · exact Ext.refl _
    · split <;> exact symbolizeMapping_ext _ _ _ _ _ _ _

theorem remoteLoop_ext {τ} (z : Symz τ) (force : Bool) (sources : Sources)
    (t : τ) (tab : FTab) (locs : List Location) (ms : List Mapping) :
    Ext tab.functions (remoteLoop z force sources t tab locs ms).2.1.functions := by
  induction ms generalizing t tab locs with
  | nil => exact Ext.refl _
  | cons m rest ih =>
    simp only [remoteLoop]
    split
    · exact remoteMapping_ext z force sources t tab locs m
    · exact Ext.trans (remoteMapping_ext z force sources t tab locs m) (ih _ _ _)

/-- existing functions stay in place; appended functions have name = system name. -/
theorem symbolizeTables_spec_ext {σ τ} (env : Env σ τ) (o : Opts) (sources : Sources) (p : Profile)
    (s : σ) (t : τ) : Ext p.functions (symbolizeTables env o sources p s t).2.1.functions := by
  have hL : Ext p.functions (if o.locl then doLocal env.tool env.isSourceURL o.force s { functions := p.functions, top := 0, wrapped := false } p.locations p.mappings
         else (s, { functions := p.functions, top := 0, wrapped := false }, p.locations, p.mappings)).2.1.functions := by
    split
    · exact doLocal_ext env.tool env.isSourceURL o.force s _ p.locations p.mappings
    · exact Ext.refl _
  unfold symbolizeTables
  simp only []
  split
  · exact Ext.trans hL (remoteLoop_ext env.symz o.force sources t _ _ _)
  · exact hL

end PV.Sym
