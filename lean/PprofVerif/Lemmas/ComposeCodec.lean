import PprofVerif.Lemmas.MessagesNested
import PprofVerif.Lemmas.EncodeWF
import PprofVerif.Lemmas.NormalizeIdem
/-!
# C01's round-trip theorems at lemma level (for the compositions C02/C07/C09/C10 ← C01)

`Props/C01.lean` states and proves `parse_serialize`, `copy_eq_normalize`, `roundtrip_fixpoint`
from the lemmas `preEncode_spec`, `postDecode_of_EncRel`, `WF_of_EncRel`, `Sized_of_EncRel`,
`parseUncompressed_encode`, `unmarshal_encode`.  The SAME statements are derived here from the same
lemmas, so that the Props files of other properties can use them without importing another
property's Props file (and whatever that file imports: schema tables, regenerated facts).
-/
namespace PV
namespace Codec
open Wire

/-- = `PV.Props.C01.parse_serialize` -/
theorem parse_serialize_normalize (p : Profile) (hv : p.Valid) (ha : p.unitsAligned = true) (hs : p.mapsSorted = true)
    (hr : InRange p) (hz : ∀ x, preEncode p = .ok x → EncSizes x) :
    ∃ b, serialize p = .ok b ∧ parseUncompressed b = .ok (Profile.normalize p) := by
  obtain ⟨x, hx, hrel⟩ := preEncode_spec p ha
  have hsz := hz x hx
  refine ⟨x.encode, by unfold serialize; rw [hx]; rfl, ?_⟩
  rw [parseUncompressed_encode x (WF_of_EncRel hrel hr hsz) (Sized_of_EncRel hrel hr hsz)]
  exact postDecode_of_EncRel hrel hv hs

/-- = `PV.Props.C01.copy_eq_normalize` -/
theorem copy_normalize (p : Profile) (hv : p.Valid) (ha : p.unitsAligned = true) (hs : p.mapsSorted = true)
    (hr : InRange p) (hz : ∀ x, preEncode p = .ok x → EncSizes x) :
    copy p = .ok (Profile.normalize p) := by
  obtain ⟨x, hx, hrel⟩ := preEncode_spec p ha
  have hsz := hz x hx
  have h1 : serialize p = .ok x.encode := by unfold serialize; rw [hx]; rfl
  unfold copy
  rw [h1, Outcome.bind_ok, unmarshal_encode x (WF_of_EncRel hrel hr hsz) (Sized_of_EncRel hrel hr hsz),
    Outcome.bind_ok, postDecode_normPT, postDecode_of_EncRel hrel hv hs]

/-- the first three parts of `PV.Props.C01.roundtrip_fixpoint`: the normal form is again valid,
aligned and key-sorted -/
theorem normalize_keeps_contract (p : Profile) (hv : p.Valid) (ha : p.unitsAligned = true) (hs : p.mapsSorted = true) :
    (Profile.normalize p).Valid ∧ (Profile.normalize p).unitsAligned = true ∧
    (Profile.normalize p).mapsSorted = true := by
  obtain ⟨x, _, hrel⟩ := preEncode_spec p ha
  obtain ⟨ha', hs'⟩ := postDecode_ok x _ (postDecode_of_EncRel hrel hv hs)
  have hv' : (Profile.normalize p).Valid := by
    unfold Profile.Valid at hv ⊢; rw [validB_normalize]; exact hv
  exact ⟨hv', ha', hs'⟩

end Codec
end PV
