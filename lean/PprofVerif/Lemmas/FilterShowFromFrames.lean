import PprofVerif.Lemmas.FilterShowFromOnly
import PprofVerif.Lemmas.FilterName
import PprofVerif.Spec.Filter
/-!
# C06 helper lemmas: frames after ShowFrom are a sublist of the frames before (unconditional)
-/
namespace PV.Filter
open PV PV.FilterSpec

theorem flatMap_sublist_of' {α β} (f g : α → List β) (hfg : ∀ a, List.Sublist (f a) (g a)) {l₁ l₂ : List α}
    (h : List.Sublist l₁ l₂) : List.Sublist (l₁.flatMap f) (l₂.flatMap g) := by
  induction h with
  | slnil => simp
  | cons a _ ih => simp only [List.flatMap_cons]; exact List.sublist_append_of_sublist_right ih
  | cons_cons a _ ih => simp only [List.flatMap_cons]; exact List.Sublist.append (hfg a) ih

theorem locFrames_showFromLoc_sublist (p : Profile) (re : Rx) (l : Location) :
    List.Sublist (locFrames (showFromLoc p re l).1) (locFrames l) := by
  unfold showFromLoc
  split
  · exact List.Sublist.refl _
  · split
    · rename_i ls hk
      have hp := keepThroughLast_prefix _ _ _ hk
      have hne : l.lines ≠ [] := by
        intro h0; have := hp.1; rw [h0] at this; exact hp.2 (List.prefix_nil.mp this)
      have e1 : locFrames l = l.lines.map (fun ln => ⟨l.id, l.mappingID, some ln⟩) := by
        unfold locFrames
        cases hl : l.lines with
        | nil => exact absurd hl hne
        | cons a r => rfl
      have e2 : locFrames { l with lines := ls } = ls.map (fun ln => ⟨l.id, l.mappingID, some ln⟩) := by
        unfold locFrames
        cases hl : ls with
        | nil => exact absurd hl hp.2
        | cons a r => rfl
      rw [e1, e2]
      exact hp.1.sublist.map _
    · exact List.Sublist.refl _

/-- frames of a kept sample after ShowFrom are, in order, a sublist of its frames before. -/
theorem showFrom_frames_sublist (p : Profile) (re : Rx) (s s' : Sample) (h : showFromSample p re s = some s') :
    List.Sublist (frames (showFrom p (some re)).1 s') (frames p s) := by
  unfold frames
  apply flatMap_sublist_of' _ _ _ (showFromSample_prefix p re s s' h).1.sublist
  intro id
  unfold locFramesOf Profile.findLocation
  simp only [showFrom]
  rw [find?_map_id _ (fun l => (showFromLoc_prefix p re l).2)]
  cases List.find? (fun x => x.id == id) p.locations with
  | some l => exact locFrames_showFromLoc_sublist p re l
  | none => exact List.Sublist.refl _
end PV.Filter
