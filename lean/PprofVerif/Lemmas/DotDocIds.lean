import PprofVerif.Lemmas.DotDocParse
import PprofVerif.Lemmas.CallgrindNum
/-! C18 helper lemmas: the identifier scheme of ComposeDot (`N%d`, `N%d_%d`, `N%s_%d`): the
    identifiers are valid DOT identifiers and every edge endpoint is a declared node. -/
namespace PV.Dot
open PV.Callgrind (dec decLE decDigit)

theorem decDigit_idb : ∀ d, d < 10 → isIdByte (decDigit d) = true ∧ isDigit (decDigit d) = true := by decide

theorem decLE_idb (n : Nat) : ∀ b ∈ decLE n, isIdByte b = true ∧ isDigit b = true := by
  induction n using Nat.strongRecOn with
  | _ n ih =>
    rw [decLE]
    split
    · rename_i h
      intro b hb; simp at hb; subst hb; exact decDigit_idb n h
    · rename_i h
      intro b hb
      simp at hb
      rcases hb with hb | hb
      · subst hb; exact decDigit_idb _ (Nat.mod_lt _ (by omega))
      · exact ih (n / 10) (by omega) b hb

theorem dec_idb (n : Nat) : ∀ b ∈ dec n, isIdByte b = true ∧ isDigit b = true := by
  intro b hb; unfold dec at hb; exact decLE_idb n b (by simpa using hb)

theorem dec_exists (n : Nat) : ∃ b, b ∈ dec n := by
  have := Callgrind.dec_ne_nil n
  cases h : dec n with
  | nil => exact absurd h this
  | cons x t => exact ⟨x, by simp⟩

theorem lower_digit {b : UInt8} (h : isDigit b = true) : lower b = b := by
  have : ∀ n : Nat, n < 256 → isDigit (UInt8.ofNat n) = true → lower (UInt8.ofNat n) = UInt8.ofNat n := by decide +kernel
  have := this b.toNat (UInt8.toNat_lt b) (by simpa using h)
  simpa using this

/-- keywords consist of letters: an identifier containing a digit is not a keyword -/
theorem isKw_false_of_digit (w : Bytes) (b : UInt8) (hb : b ∈ w) (hd : isDigit b = true) : isKw w = false := by
  have hmem : b ∈ w.map lower := by
    rw [List.mem_map]; exact ⟨b, hb, lower_digit hd⟩
  have hk : ∀ kw ∈ [kwDigraph, kwSubgraph, kwGraph, kwNode, kwEdge, kwStrict], ∀ x ∈ kw, isDigit x = false := by decide
  cases hkw : isKw w with
  | false => rfl
  | true =>
    exfalso
    unfold isKw at hkw
    simp only [Bool.or_eq_true, decide_eq_true_eq] at hkw
    have hcontra : ∀ kw ∈ [kwDigraph, kwSubgraph, kwGraph, kwNode, kwEdge, kwStrict], w.map lower = kw → False := by
      intro kw hkwm he
      have := hk kw hkwm b (by rw [← he]; exact hmem)
      rw [hd] at this; cases this
    rcases hkw with ((((h | h) | h) | h) | h) | h
    · exact hcontra _ (by simp) h
    · exact hcontra _ (by simp) h
    · exact hcontra _ (by simp) h
    · exact hcontra _ (by simp) h
    · exact hcontra _ (by simp) h
    · exact hcontra _ (by simp) h

/-- an identifier starting with `N` whose remaining bytes are identifier bytes, one of them a digit -/
theorem idOK_N (t : Bytes) (ht : ∀ b ∈ t, isIdByte b = true) (b : UInt8) (hb : b ∈ t) (hd : isDigit b = true) :
    IdOK (0x4e :: t) ∧ isKw (0x4e :: t) = false := by
  refine ⟨⟨by simp, ?_, ?_⟩, isKw_false_of_digit _ b (by simp [hb]) hd⟩
  · intro x hx
    simp only [List.mem_cons] at hx
    rcases hx with rfl | hx
    · decide
    · exact ht x hx
  · have hN : isDigit (0x4e : UInt8) = false := by decide
    simp [validId, hN]

theorem nodeId_ok (i : Nat) : IdOK (nodeId i) ∧ isKw (nodeId i) = false := by
  obtain ⟨b, hb⟩ := dec_exists (i + 1)
  exact idOK_N _ (fun x hx => (dec_idb _ x hx).1) b hb (dec_idb _ b hb).2

theorem nodeId_tail_idb (i : Nat) : ∀ b ∈ nodeId i, isIdByte b = true := (nodeId_ok i).1.idb

theorem nodeletId_ok (i j : Nat) : IdOK (nodeletId i j) ∧ isKw (nodeletId i j) = false := by
  obtain ⟨b, hb⟩ := dec_exists (i + 1)
  have : nodeletId i j = 0x4e :: (dec (i + 1) ++ 0x5f :: dec j) := by simp [nodeletId, nodeId]
  rw [this]
  refine idOK_N _ ?_ b (by simp [hb]) (dec_idb _ b hb).2
  intro x hx
  simp only [List.mem_append, List.mem_cons] at hx
  rcases hx with hx | rfl | hx
  · exact (dec_idb _ x hx).1
  · decide
  · exact (dec_idb _ x hx).1

theorem numId_ok (source : Bytes) (hs : ∀ b ∈ source, isIdByte b = true) (k : Nat) :
    IdOK (numId source k) ∧ isKw (numId source k) = false := by
  obtain ⟨b, hb⟩ := dec_exists k
  unfold numId
  refine idOK_N (source ++ 0x5f :: dec k) ?_ b (by simp [hb]) (dec_idb _ b hb).2
  intro x hx
  simp only [List.mem_append, List.mem_cons] at hx
  rcases hx with hx | rfl | hx
  · exact hs x hx
  · decide
  · exact (dec_idb _ x hx).1

/-! ### well-formedness of the statements of a graph -/

def GNum.OK (n : GNum) : Prop := (∀ a ∈ n.attrs, AttrOK a) ∧ (∀ a ∈ n.eattrs, AttrOK a)
def GNodelet.OK (t : GNodelet) : Prop :=
  (∀ a ∈ t.attrs, AttrOK a) ∧ (∀ a ∈ t.eattrs, AttrOK a) ∧ ∀ n ∈ t.nums, n.OK
def GNode.OK (n : GNode) : Prop :=
  (∀ a ∈ n.attrs, AttrOK a) ∧ (∀ t ∈ n.nodelets, t.OK) ∧ ∀ m ∈ n.nums, m.OK

theorem numStmts_ok (source : Bytes) (hs : IdOK source ∧ isKw source = false) (ns : List GNum) (hns : ∀ n ∈ ns, n.OK) :
    ∀ st ∈ numStmts source ns, StmtOK st := by
  intro st hst
  simp only [numStmts, List.mem_flatMap] at hst
  obtain ⟨n, hn, hst⟩ := hst
  have hnk := numId_ok source hs.1.idb n.k
  simp only [List.mem_cons, List.not_mem_nil, or_false] at hst
  rcases hst with rfl | rfl
  · exact ⟨hnk, (hns n hn).1⟩
  · exact ⟨hs, hnk, (hns n hn).2⟩

theorem nodeStmts_ok (i : Nat) (n : GNode) (hn : n.OK) : ∀ st ∈ nodeStmts i n, StmtOK st := by
  intro st hst
  simp only [nodeStmts, List.mem_cons, List.mem_append] at hst
  rcases hst with rfl | hst | hst
  · exact ⟨nodeId_ok i, hn.1⟩
  · simp only [nodeletStmts, List.mem_flatMap] at hst
    obtain ⟨t, ht, hst⟩ := hst
    have htok := hn.2.1 t ht
    simp only [List.mem_append, List.mem_cons, List.not_mem_nil, or_false] at hst
    rcases hst with (rfl | rfl) | hst
    · exact ⟨nodeletId_ok i t.j, htok.1⟩
    · exact ⟨nodeId_ok i, nodeletId_ok i t.j, htok.2.1⟩
    · exact numStmts_ok _ (nodeletId_ok i t.j) t.nums htok.2.2 st hst
  · exact numStmts_ok _ (nodeId_ok i) n.nums hn.2.2 st hst

theorem allNodeStmts_ok (ns : List GNode) (hns : ∀ n ∈ ns, n.OK) : ∀ i, ∀ st ∈ allNodeStmts i ns, StmtOK st := by
  induction ns with
  | nil => intro i st hst; simp [allNodeStmts] at hst
  | cons n t ih =>
    intro i st hst
    simp only [allNodeStmts, List.mem_append] at hst
    rcases hst with hst | hst
    · exact nodeStmts_ok i n (hns n (by simp)) st hst
    · exact ih (fun x hx => hns x (by simp [hx])) (i + 1) st hst

structure G.OK (g : G) : Prop where
  title : qsafeB g.title = true
  legend : ∀ p, g.legend = some p → qsafeB p.1 = true ∧ ∀ a ∈ p.2, AttrOK a
  nodes : ∀ n ∈ g.nodes, n.OK
  edgeAttrs : ∀ e ∈ g.edges, ∀ a ∈ e.attrs, AttrOK a
  /-- edges connect nodes of the graph: ComposeDot (repaired, fixes/C18-dot-skip-edges-to-unlisted-nodes.patch)
  looks both ends up in its node-id map and skips an edge an end of which has no id -/
  edgeEnds : ∀ e ∈ g.edges, e.src < g.nodes.length ∧ e.dst < g.nodes.length

theorem G.stmts_ok (g : G) (hg : g.OK) : ∀ st ∈ g.stmts, StmtOK st := by
  intro st hst
  simp only [G.stmts, List.mem_append] at hst
  rcases hst with hst | hst
  · exact allNodeStmts_ok g.nodes hg.nodes 0 st hst
  · simp only [edgeStmts, List.mem_map] at hst
    obtain ⟨e, he, rfl⟩ := hst
    exact ⟨nodeId_ok e.src, nodeId_ok e.dst, hg.edgeAttrs e he⟩

/-! ### every edge endpoint is declared -/

def ids (ss : List Stmt) : List Bytes := (nodesOf ss).map (·.id)

theorem mem_ids_of_node {ss : List Stmt} {i : Bytes} {as : List Attr} (h : Stmt.node i as ∈ ss) : i ∈ ids ss := by
  induction ss with
  | nil => simp at h
  | cons s t ih =>
    simp only [List.mem_cons] at h
    rcases h with rfl | h
    · simp [ids, nodesOf]
    · have := ih h
      cases s <;> simp [ids, nodesOf] at this ⊢
      · exact Or.inr this
      · exact this

theorem mem_edgesOf {ss : List Stmt} {e : Bytes × Bytes} (h : e ∈ edgesOf ss) : ∃ as, Stmt.edge e.1 e.2 as ∈ ss := by
  induction ss with
  | nil => simp [edgesOf] at h
  | cons s t ih =>
    cases s with
    | node i as =>
      simp only [edgesOf] at h
      obtain ⟨as', h'⟩ := ih h
      exact ⟨as', by simp [h']⟩
    | edge a b as =>
      simp only [edgesOf, List.mem_cons] at h
      rcases h with rfl | h
      · exact ⟨as, by simp⟩
      · obtain ⟨as', h'⟩ := ih h
        exact ⟨as', by simp [h']⟩

/-- inside one node's block every edge goes from a node declared in the block to one declared in it -/
theorem nodeStmts_closed (i : Nat) (n : GNode) (s d : Bytes) (as : List Attr) (h : Stmt.edge s d as ∈ nodeStmts i n) :
    (∃ a, Stmt.node s a ∈ nodeStmts i n) ∧ (∃ a, Stmt.node d a ∈ nodeStmts i n) := by
  simp only [nodeStmts, List.mem_cons, List.mem_append] at h
  rcases h with h | h | h
  · cases h
  · simp only [nodeletStmts, List.mem_flatMap] at h
    obtain ⟨t, ht, h⟩ := h
    simp only [List.mem_append, List.mem_cons, List.not_mem_nil, or_false] at h
    rcases h with (h | h) | h
    · cases h
    · cases h
      refine ⟨⟨n.attrs, by simp [nodeStmts]⟩, ⟨t.attrs, ?_⟩⟩
      simp only [nodeStmts, List.mem_cons, List.mem_append, nodeletStmts, List.mem_flatMap]
      exact Or.inr (Or.inl ⟨t, ht, by simp⟩)
    · simp only [numStmts, List.mem_flatMap, List.mem_cons, List.not_mem_nil, or_false] at h
      obtain ⟨m, hm, h⟩ := h
      rcases h with h | h
      · cases h
      · cases h
        constructor
        · refine ⟨t.attrs, ?_⟩
          simp only [nodeStmts, List.mem_cons, List.mem_append, nodeletStmts, List.mem_flatMap]
          exact Or.inr (Or.inl ⟨t, ht, by simp⟩)
        · refine ⟨m.attrs, ?_⟩
          simp only [nodeStmts, List.mem_cons, List.mem_append, nodeletStmts, List.mem_flatMap]
          refine Or.inr (Or.inl ⟨t, ht, ?_⟩)
          simp only [List.mem_append, List.mem_cons, numStmts, List.mem_flatMap]
          exact Or.inr ⟨m, hm, by simp⟩
  · simp only [numStmts, List.mem_flatMap, List.mem_cons, List.not_mem_nil, or_false] at h
    obtain ⟨m, hm, h⟩ := h
    rcases h with h | h
    · cases h
    · cases h
      refine ⟨⟨n.attrs, by simp [nodeStmts]⟩, ⟨m.attrs, ?_⟩⟩
      simp only [nodeStmts, List.mem_cons, List.mem_append, numStmts, List.mem_flatMap]
      exact Or.inr (Or.inr ⟨m, hm, by simp⟩)

theorem allNodeStmts_closed (ns : List GNode) : ∀ (i : Nat) (s d : Bytes) (as : List Attr),
    Stmt.edge s d as ∈ allNodeStmts i ns →
    (∃ a, Stmt.node s a ∈ allNodeStmts i ns) ∧ (∃ a, Stmt.node d a ∈ allNodeStmts i ns) := by
  induction ns with
  | nil => intro i s d as h; simp [allNodeStmts] at h
  | cons n t ih =>
    intro i s d as h
    simp only [allNodeStmts, List.mem_append] at h ⊢
    rcases h with h | h
    · obtain ⟨⟨a1, h1⟩, ⟨a2, h2⟩⟩ := nodeStmts_closed i n s d as h
      exact ⟨⟨a1, Or.inl h1⟩, ⟨a2, Or.inl h2⟩⟩
    · obtain ⟨⟨a1, h1⟩, ⟨a2, h2⟩⟩ := ih (i + 1) s d as h
      exact ⟨⟨a1, Or.inr h1⟩, ⟨a2, Or.inr h2⟩⟩

theorem nodeId_declared (ns : List GNode) : ∀ (i k : Nat), k < ns.length → ∃ a, Stmt.node (nodeId (i + k)) a ∈ allNodeStmts i ns := by
  induction ns with
  | nil => intro i k hk; simp at hk
  | cons n t ih =>
    intro i k hk
    cases k with
    | zero => exact ⟨n.attrs, by simp [allNodeStmts, nodeStmts]⟩
    | succ k =>
      simp only [List.length_cons] at hk
      obtain ⟨a, ha⟩ := ih (i + 1) k (by omega)
      refine ⟨a, ?_⟩
      simp only [allNodeStmts, List.mem_append]
      right
      have : i + 1 + k = i + (k + 1) := by omega
      rw [← this]; exact ha

/-- **every edge of the document connects declared nodes** -/
theorem G.edges_declared (g : G) (hg : g.OK) : ∀ e ∈ edgesOf g.stmts, e.1 ∈ ids g.stmts ∧ e.2 ∈ ids g.stmts := by
  intro e he
  obtain ⟨as, h⟩ := mem_edgesOf he
  simp only [G.stmts, List.mem_append] at h
  rcases h with h | h
  · obtain ⟨⟨a1, h1⟩, ⟨a2, h2⟩⟩ := allNodeStmts_closed g.nodes 0 e.1 e.2 as h
    exact ⟨mem_ids_of_node (List.mem_append_left _ h1), mem_ids_of_node (List.mem_append_left _ h2)⟩
  · simp only [edgeStmts, List.mem_map] at h
    obtain ⟨ge, hge, heq⟩ := h
    have hends := hg.edgeEnds ge hge
    injection heq with h1 h2 _
    obtain ⟨a1, d1⟩ := nodeId_declared g.nodes 0 ge.src hends.1
    obtain ⟨a2, d2⟩ := nodeId_declared g.nodes 0 ge.dst hends.2
    simp only [Nat.zero_add] at d1 d2
    rw [← h1, ← h2]
    exact ⟨mem_ids_of_node (List.mem_append_left _ d1), mem_ids_of_node (List.mem_append_left _ d2)⟩

end PV.Dot
