import PprofVerif.Lemmas.GraphMain
namespace PV.Graph
open PV.GSpec
variable {κ : Type} [DecidableEq κ]

/-! ### endpoints of edges and node keys are kept -/
theorem mem_zip_tail_mem {l : List κ} {x y : κ} (h : (x, y) ∈ l.zip l.tail) : x ∈ l ∧ y ∈ l := by
  have := List.of_mem_zip h
  exact ⟨this.1, List.mem_of_mem_tail this.2⟩

theorem newGraph_edges_kept (K : κ → Bool) (ss : List (GSample κ)) (a b : κ)
    (h : (newGraph K ss).hasEdge a b = true) : K a = true ∧ K b = true := by
  rw [newGraph_hasEdge] at h
  unfold edgeExistsK edgeExists at h
  rw [List.any_map, List.any_eq_true] at h
  obtain ⟨s, _, hs⟩ := h
  simp only [Function.comp, Bool.and_eq_true, adjacent, decide_eq_true_eq, restrict] at hs
  obtain ⟨ha, hb⟩ := mem_zip_tail_mem (of_decide_eq_true hs.2)
  rw [List.mem_filter] at ha hb
  exact ⟨ha.2, hb.2⟩

def NodesKept (K : κ → Bool) (g : GState κ) : Prop := ∀ n, thas g.nodes n = true → K n = true

theorem NodesKept.addCum {K : κ → Bool} {g : GState κ} (h : NodesKept K g) (n : κ) (v : WD) (hn : K n = true) :
    NodesKept K (g.addCum n v) := by
  intro m hm
  unfold GState.addCum at hm
  simp only [thas_tupd, Bool.or_eq_true, decide_eq_true_eq] at hm
  rcases hm with hm | hm
  · exact h m hm
  · exact hm ▸ hn
theorem NodesKept.addFlat {K : κ → Bool} {g : GState κ} (h : NodesKept K g) (n : κ) (v : WD) (hn : K n = true) :
    NodesKept K (g.addFlat n v) := by
  intro m hm
  unfold GState.addFlat at hm
  simp only [thas_tupd, Bool.or_eq_true, decide_eq_true_eq] at hm
  rcases hm with hm | hm
  · exact h m hm
  · exact hm ▸ hn

def InnerKept (K : κ → Bool) (a : Inner κ) : Prop :=
  NodesKept K a.g ∧ ∀ p, a.parent = some p → K p = true

theorem stepFrame_innerKept (K : κ → Bool) (v : WD) (a : Inner κ) (f : κ) (h : InnerKept K a) :
    InnerKept K (stepFrame K v a f) := by
  rw [stepFrame_eq]
  by_cases hk : K f = true
  · simp only [hk, if_true]
    refine ⟨?_, ?_⟩
    · show NodesKept K (link v (visit v a f) f).g
      have hv : NodesKept K (visit v a f).g := by
        unfold visit
        split
        · exact h.1
        · exact h.1.addCum f v hk
      unfold link
      split
      · split
        · exact hv
        · exact hv
      · exact hv
    · intro p hp
      simp only [Option.some.injEq] at hp
      exact hp ▸ hk
  · simp only [hk]
    exact h

theorem foldFrames_innerKept (K : κ → Bool) (v : WD) (fs : List κ) : ∀ (a : Inner κ), InnerKept K a →
    InnerKept K (fs.foldl (stepFrame K v) a) := by
  induction fs with
  | nil => intro a h; exact h
  | cons f fs ih => intro a h; exact ih _ (stepFrame_innerKept K v a f h)

theorem sampleStep_nodesKept (K : κ → Bool) (g : GState κ) (s : GSample κ) (h : NodesKept K g) :
    NodesKept K (sampleStep K g s) := by
  unfold sampleStep
  split
  · exact h
  · have hi := foldFrames_innerKept K s.wd s.frames ⟨g, [], [], none, false⟩ ⟨h, by intro p hp; simp at hp⟩
    generalize List.foldl (stepFrame K s.wd) ⟨g, [], [], none, false⟩ s.frames = r at hi
    show NodesKept K (match r.parent with
      | some p => if (!r.residual) = true then r.g.addFlat p s.wd else r.g
      | none => r.g)
    cases hp : r.parent with
    | none => exact hi.1
    | some p =>
      show NodesKept K (if (!r.residual) = true then r.g.addFlat p s.wd else r.g)
      split
      · exact hi.1.addFlat p s.wd (hi.2 p hp)
      · exact hi.1

theorem newGraph_nodes_kept (K : κ → Bool) (ss : List (GSample κ)) : NodesKept K (newGraph K ss) := by
  unfold newGraph
  have : ∀ (g : GState κ), NodesKept K g → NodesKept K (ss.foldl (sampleStep K) g) := by
    induction ss with
    | nil => intro g h; exact h
    | cons s ss ih => intro g h; exact ih _ (sampleStep_nodesKept K g s h)
  exact this _ (by intro n hn; simp [GState.empty, thas] at hn)

theorem newGraph_keys_kept (K : κ → Bool) (ss : List (GSample κ)) :
    (∀ n, thas (newGraph K ss).nodes n = true → K n = true) ∧
    (∀ a b, (newGraph K ss).hasEdge a b = true → K a = true ∧ K b = true) :=
  ⟨newGraph_nodes_kept K ss, newGraph_edges_kept K ss⟩

/-! ### non-residual edges keep their untrimmed weight -/
theorem zip_tail_sub (f : κ) (l : List κ) (m : κ × κ) (h : m ∈ l.zip l.tail) : m ∈ (f :: l).zip l := by
  cases l with
  | nil => simp at h
  | cons g r => simp only [List.zip_cons_cons, List.tail_cons] at h ⊢; exact List.mem_cons_of_mem _ h

theorem firstFlag_some_mem (x y : κ) (r : Bool) (l : List (κ × κ × Bool)) (h : firstFlag x y l = some r) :
    (x, y, r) ∈ l := by
  induction l with
  | nil => simp [firstFlag] at h
  | cons hd tl ih =>
    obtain ⟨a, b, r'⟩ := hd
    unfold firstFlag at h
    by_cases hc : a = x ∧ b = y
    · simp only [hc, and_self, if_true, Option.some.injEq] at h
      obtain ⟨rfl, rfl⟩ := hc
      simp [h]
    · simp only [hc, if_false] at h
      exact List.mem_cons_of_mem _ (ih h)

/-- a pair flagged "direct" is adjacent in the unfiltered stack -/
theorem pairsK_false_adjacent (K : κ → Bool) (x y : κ) (fs : List κ) : ∀ (par : Option κ) (res : Bool),
    (x, y, false) ∈ pairsK K par res fs →
    (x, y) ∈ (match par, res with
      | some p, false => (p :: fs).zip fs
      | _, _ => fs.zip fs.tail) := by
  induction fs with
  | nil => intro par res h; simp [pairsK] at h
  | cons f fs ih =>
    intro par res h
    by_cases hk : K f = true
    · cases par with
      | none =>
        simp only [pairsK, hk, if_true] at h
        have := ih (some f) false h
        simpa using this
      | some p =>
        simp only [pairsK, hk, if_true, List.mem_cons, Prod.mk.injEq] at h
        rcases h with ⟨rfl, rfl, hres⟩ | h
        · subst hres; simp
        · have := ih (some x) false
          have h2 := ih (some f) false h
          cases res
          · simp only [List.zip_cons_cons, List.mem_cons]; exact Or.inr h2
          · simpa using h2
    · have hkf : K f = false := by simpa using hk
      simp only [pairsK, hkf] at h
      have h2 := ih par true h
      have h3 : (x, y) ∈ fs.zip fs.tail := by
        cases par <;> simpa using h2
      have h4 := zip_tail_sub f fs (x, y) h3
      cases par with
      | none => simpa using h4
      | some p =>
        cases res
        · simp only [List.zip_cons_cons, List.mem_cons]; exact Or.inr h4
        · simpa using h4

theorem adjacent_filter_of_adjacent (K : κ → Bool) (x y : κ) (hx : K x = true) (hy : K y = true) (fs : List κ)
    (h : (x, y) ∈ fs.zip fs.tail) : (x, y) ∈ (fs.filter K).zip (fs.filter K).tail := by
  induction fs with
  | nil => simp at h
  | cons f fs ih =>
    cases fs with
    | nil => simp at h
    | cons g r =>
      simp only [List.tail_cons, List.zip_cons_cons, List.mem_cons, Prod.mk.injEq] at h
      rcases h with ⟨rfl, rfl⟩ | h
      · simp [List.filter_cons, hx, hy]
      · have h2 := ih (by simpa using h)
        by_cases hf : K f = true
        · rw [List.filter_cons, if_pos hf]
          exact zip_tail_sub f _ _ h2
        · rw [List.filter_cons, if_neg hf]
          exact h2

theorem edgeSpecK_of_nonresidual (K : κ → Bool) (ss : List (GSample κ)) (a b : κ)
    (ha : K a = true) (hb : K b = true)
    (hr : edgeResidualSpecK K ss a b = false) : edgeSpecK K ss a b = edgeSpec ss a b := by
  unfold edgeSpecK edgeSpec
  rw [sumOver_map_restrict]
  apply sumOver_congr
  intro s hs hwd
  have hcnt : counted s = true := by
    rw [counted_eq]
    by_contra hc
    simp only [Bool.not_eq_true, Bool.not_eq_false'] at hc
    exact hwd (wd_zero_of_skip s (by simpa using hc))
  by_cases hab : a = b
  · simp [hab]
  · simp only [ne_eq, hab, not_false_eq_true, decide_true, Bool.true_and, restrict]
    unfold edgeResidualSpecK at hr
    have hr' := (List.any_eq_false.mp hr) s hs
    simp only [hcnt, ne_eq, hab, not_false_eq_true, decide_true, Bool.true_and, beq_iff_eq] at hr'
    rw [Bool.eq_iff_iff]
    unfold adjacent
    simp only [decide_eq_true_eq]
    constructor
    · intro h
      have h1 : (firstFlag a b (pairsK K none false s.frames)).isSome = true := by
        rw [firstFlag_isSome, mem_pairsK]; simpa [adjP] using h
      cases hff : firstFlag a b (pairsK K none false s.frames) with
      | none => simp [hff] at h1
      | some r =>
        cases r
        · have := pairsK_false_adjacent K a b s.frames none false (firstFlag_some_mem a b false _ hff)
          simpa using this
        · exact absurd hff hr'
    · intro h
      exact adjacent_filter_of_adjacent K a b ha hb s.frames h

theorem pairsK_allKept_flag (x y : κ) (r : Bool) (fs : List κ) : ∀ (par : Option κ),
    (x, y, r) ∈ pairsK allKept par false fs → r = false := by
  induction fs with
  | nil => intro par h; simp [pairsK] at h
  | cons f fs ih =>
    intro par h
    cases par with
    | none =>
      simp only [pairsK, allKept, if_true] at h
      exact ih _ h
    | some p =>
      simp only [pairsK, allKept, if_true, List.mem_cons, Prod.mk.injEq] at h
      rcases h with ⟨_, _, h⟩ | h
      · exact h
      · exact ih _ h

theorem allKept_no_residual (ss : List (GSample κ)) (a b : κ) : edgeResidualSpecK allKept ss a b = false := by
  unfold edgeResidualSpecK
  rw [List.any_eq_false]
  intro s _
  simp only [Bool.and_eq_true, beq_iff_eq, not_and]
  intro _ hff
  have := pairsK_allKept_flag a b true s.frames none (firstFlag_some_mem a b true _ hff)
  simp at this
end PV.Graph
