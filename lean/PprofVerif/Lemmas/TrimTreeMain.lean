import PprofVerif.Lemmas.TrimTreeNodes
/-!
TrimTree applied to the output of `newTree`: from the invariant relative to the tree's edge table
to the specification over samples (`GSpec.trimEdgeSpec`).
-/
namespace PV.TrimTree
open PV PV.GSpec PV.Graph
variable {κ : Type} [DecidableEq κ]

/-- the table-relative specification, on a tree built from `ss`, is the sample-level one -/
theorem specE_eq_trimEdgeSpec (ss : List (GSample κ)) (R : List κ → Bool) (a b : List κ) :
    (specE (newTree ss).edges R a b).map (fun e => (e.weight, e.residual)) = trimEdgeSpec R ss a b := by
  unfold specE trimEdgeSpec
  cases hr : R b with
  | true => simp
  | false =>
    simp only [Bool.false_eq_true, if_false]
    have hex : (tfind (newTree ss).edges (b.dropLast, b)).isSome = edgeExists (ss.map treeSample) b.dropLast b := by
      rw [← thas_eq_tfind, ← tree_edge_exists_iff]; rfl
    cases he : tfind (newTree ss).edges (b.dropLast, b) with
    | none =>
      rw [he] at hex
      simp [← hex]
    | some e =>
      rw [he] at hex
      simp only [Option.isSome_some] at hex
      rw [← hex]
      have hw : e.weight = edgeSpec (ss.map treeSample) b.dropLast b := by
        rw [← tree_edge_eq_spec]
        unfold GState.weight
        rw [tget_eq_tfind, he]; rfl
      have hres : e.residual = false := (newTree_edgesOK ss).2 _ (mem_of_tfind he)
      by_cases hn : nearestKept R b = some a
      · simp [hn, hw, hres]
      · have : (nearestKept R b == some a) = false := by simpa using hn
        simp [hn, this]

/-- what the edge specification says, spelled out: `a` is an ancestor of `b` that survives, every
node strictly between them was removed, and the edge is residual iff there is such a node (iff `a`
is not `b`'s own parent); a non-residual edge is the original edge with its weight. -/
theorem trimEdgeSpec_some {R : List κ → Bool} {ss : List (GSample κ)} {a b : List κ} {w : WD} {r : Bool}
    (h : trimEdgeSpec R ss a b = some (w, r)) :
    R b = false ∧ R a = false ∧ a ∈ ancestors b ∧
    (∀ x ∈ ancestors b, a.length < x.length → R x = true) ∧
    (r = true ↔ a ≠ b.dropLast) ∧ (r = true → R b.dropLast = true) ∧
    w = edgeSpec (ss.map treeSample) b.dropLast b ∧ edgeExists (ss.map treeSample) b.dropLast b = true := by
  unfold trimEdgeSpec at h
  cases hr : R b with
  | true => simp [hr] at h
  | false =>
    simp only [hr, Bool.false_eq_true, if_false] at h
    split at h
    · rename_i hc
      simp only [Bool.and_eq_true, beq_iff_eq] at hc
      obtain ⟨hex, hn⟩ := hc
      simp only [Option.some.injEq, Prod.mk.injEq] at h
      obtain ⟨hw, hrr⟩ := h
      obtain ⟨hmem, hRa⟩ := nearestKept_some hn
      refine ⟨rfl, hRa, hmem, ?_, ?_, ?_, hw.symm, hex⟩
      · intro x hx hlen
        obtain ⟨pre, hsplit, hpre⟩ := ancestors_of_mem hmem
        have hnotpre : a ∉ pre := fun hm => Nat.lt_irrefl _ (hpre a hm)
        unfold nearestKept at hn
        rw [hsplit] at hn hx
        have hfalse := find?_split_some _ pre _ a hnotpre hn
        rcases List.mem_append.mp hx with hx | hx
        · simpa using hfalse x hx
        · exfalso
          rcases List.mem_cons.mp hx with rfl | hx
          · exact Nat.lt_irrefl _ hlen
          · have := (mem_ancestors_length hx).2
            omega
      · rw [← hrr]; simp
      · intro hrt
        rw [← hrr] at hrt
        simp only [decide_eq_true_eq] at hrt
        exact (nearestKept_ne_parent hn hrt).2
    · simp at h

/-- TrimTree on a `newTree` output whose listed nodes are given in any order -/
theorem trimNewTree_ok (sortIn : ETable (List κ) → ETable (List κ)) (hsort : ∀ l, (sortIn l).Perm l)
    (K : List κ → Bool) (ss : List (GSample κ)) (nodes : List (List κ × NodeAcc))
    (hperm : nodes.Perm (newTree ss).shownNodes) :
    ∃ st, trimNewTree sortIn K (newTree ss) nodes = .ok st ∧
      Inv (newTree ss).edges (removedOf K (nodes.map Prod.fst)) st ∧
      st.nodes = nodes.filter (fun c => K c.1) := by
  have hnd : (nodes.map Prod.fst).Nodup :=
    (hperm.map Prod.fst).nodup_iff.mpr (shownNodes_keys_nodup _ (newTree_nodesNodup ss))
  exact trimTree_forest (newTree_pathForest ss) sortIn hsort K nodes hnd

end PV.TrimTree
