import PprofVerif.Lemmas.MergeTop
import PprofVerif.Model.Fetch
/-!
# Composition C16 ← C03: `profile.Merge` (model of C03) satisfies C16's `MergeSpec`

C16 assumes of `combineProfiles` the abstract `MergeSpec merge Good abs add`.  Here it is PROVED
for C03's merge model with
* `abs p = weight p` — the weight function of the Spec (`StackKey → value vector`),
* `add = addW` — pointwise element-wise int64 sum,
* `Good = GoodFor st pt` — valid, well typed (int64 values), sample types `st` and period type
  `pt` (profiles `Good` for the same `st`, `pt` are exactly the mutually compatible ones).
-/
namespace PV
namespace Merge
open PV.Spec PV.Fetch
open PV.Wire (InI64)

abbrev WeightFn := StackKey → List Int

/-- pointwise element-wise int64 sum of two weight functions -/
def addW (f g : WeightFn) : WeightFn := fun k => addV (f k) (g k)

/-- what a fetched profile must satisfy to be merged with others of the same kind -/
def GoodFor (st : List ValueType) (pt : ValueType) (p : Profile) : Prop :=
  p.Valid ∧ Typed p ∧ p.sampleType = st ∧ p.periodType = some pt

theorem addW_assoc (f g h : WeightFn) : addW (addW f g) h = addW f (addW g h) := by
  funext k; exact addV_assoc _ _ _

theorem foldl_addW_apply (ws : List WeightFn) : ∀ (f : WeightFn) (k : StackKey),
    (ws.foldl addW f) k = (ws.map (· k)).foldl addV (f k) := by
  induction ws with
  | nil => intro f k; rfl
  | cons w r ih => intro f k; simp only [List.foldl_cons, List.map_cons, ih]; rfl

theorem valueTypes_all_refl : ∀ (st : List ValueType),
    (List.zipWith (fun (x y : ValueType) => x.typ == y.typ && x.unit == y.unit) st st).all id = true
  | [] => rfl
  | x :: r => by simp

theorem compatibleB_of_goodFor {st : List ValueType} {pt : ValueType} {a b : Profile}
    (ha : GoodFor st pt a) (hb : GoodFor st pt b) : compatibleB a b = true := by
  unfold compatibleB
  rw [ha.2.2.1, ha.2.2.2, hb.2.2.1, hb.2.2.2]
  simp

theorem weight_VecOK {p : Profile} (hv : p.Valid) (ht : Typed p) (k : StackKey) :
    VecOK p.sampleType.length (weight p k) := by
  obtain ⟨src, _, hok⟩ := srcOK_of_valid hv ht
  simp only [weight, hok.res]
  exact weightR_VecOK hok.ok k

/-- **C03's merge satisfies C16's `MergeSpec`** on the weight-function abstraction. -/
theorem merge_mergeSpec (st : List ValueType) (pt : ValueType) :
    MergeSpec merge (GoodFor st pt) (fun p => (weight p : WeightFn)) addW where
  assoc := addW_assoc
  merge_ok := by
    intro x xs hg
    have hin : Inputs x xs := ⟨fun p hp => (hg p hp).1, fun p hp => (hg p hp).2.1,
      fun p hp => compatibleB_of_goodFor (hg x (by simp)) (hg p (List.mem_cons_of_mem _ hp))⟩
    obtain ⟨r, hr, hval, htyp, hst, hpt, hw, _⟩ := merge_spec x xs hin
    have hx := hg x (by simp)
    refine ⟨r, hr, ⟨hval, htyp, hst.trans hx.2.2.1, hpt.trans hx.2.2.2⟩, ?_⟩
    funext k
    rw [foldl_addW_apply, List.map_map]
    show weight r k = _
    rw [hw k]
    show sumV x.sampleType.length ((x :: xs).map (weight · k)) = _
    simp only [sumV, List.map_cons, List.foldl_cons]
    rw [zeroV_addV (weight_VecOK hx.1 hx.2.1 k)]
    rfl

end Merge
end PV
