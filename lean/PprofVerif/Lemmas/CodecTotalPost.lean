import PprofVerif.Lemmas.CodecTotal
import PprofVerif.Lemmas.CodecTotalAssoc
/-!
Helpers for property C02, second half: `postDecode` (profile/encode.go) never panics, every
profile it returns has NumUnit aligned with NumLabel and strictly key-sorted label maps, and
`serialize` (preEncode + encode) cannot panic on a profile whose units are aligned — the only
panic site of `preEncode` is the index expression `units[i]`.  Core Lean only.
-/
namespace PV

instance : LawfulMonad Outcome := LawfulMonad.mk' Outcome
  (id_map := by intro α x; cases x <;> rfl)
  (pure_bind := by intros; rfl)
  (bind_assoc := by intro α β γ x f g; cases x <;> rfl)

namespace Outcome
theorem bind_eq_ok {α β} {x : Outcome α} {g : α → Outcome β} {b : β} :
    (x >>= g) = .ok b ↔ ∃ a, x = .ok a ∧ g a = .ok b := by
  cases x <;> simp
end Outcome

namespace Codec
open Wire

theorem mapM_ne_panic {α β} (f : α → Outcome β) (hf : ∀ a s, f a ≠ .panic s) :
    ∀ (l : List α) (s : String), l.mapM f ≠ .panic s
  | [], s => by simp [pure]
  | a :: l, s => by
    rw [List.mapM_cons]
    exact bind_ne_panic (hf a) (fun b => bind_ne_panic (mapM_ne_panic f hf l) (fun _ _ => pure_ne_panic _ _)) s

theorem foldlM_ne_panic {α β} (f : β → α → Outcome β) (hf : ∀ b a s, f b a ≠ .panic s) :
    ∀ (l : List α) (b : β) (s : String), l.foldlM f b ≠ .panic s
  | [], b, s => by simp [pure]
  | a :: l, b, s => by
    rw [List.foldlM_cons]
    exact bind_ne_panic (hf b a) (fun b' => foldlM_ne_panic f hf l b') s

theorem getString_ne_panic (tab : List Str) (i : Int) (s : String) : getString tab i ≠ .panic s := by
  unfold getString
  split
  · simp
  · split <;> simp

theorem postMapping_ne_panic (tab : List Str) (m : MappingX) (s : String) : postMapping tab m ≠ .panic s :=
  bind_ne_panic (getString_ne_panic _ _) (fun _ => bind_ne_panic (getString_ne_panic _ _) (fun _ _ => pure_ne_panic _ _)) s

theorem postFunction_ne_panic (tab : List Str) (m : FunctionX) (s : String) : postFunction tab m ≠ .panic s :=
  bind_ne_panic (getString_ne_panic _ _) (fun _ => bind_ne_panic (getString_ne_panic _ _)
    (fun _ => bind_ne_panic (getString_ne_panic _ _) (fun _ _ => pure_ne_panic _ _))) s

theorem postValueType_ne_panic (tab : List Str) (m : ValueTypeX) (s : String) : postValueType tab m ≠ .panic s :=
  bind_ne_panic (getString_ne_panic _ _) (fun _ => bind_ne_panic (getString_ne_panic _ _) (fun _ _ => pure_ne_panic _ _)) s

theorem postLabel_ne_panic (tab : List Str) (acc : LabelAcc) (l : LabelX) (s : String) : postLabel tab acc l ≠ .panic s := by
  unfold postLabel
  refine bind_ne_panic (getString_ne_panic _ _) (fun key s => ?_) s
  split
  · exact bind_ne_panic (getString_ne_panic _ _) (fun _ _ => pure_ne_panic _ _) s
  · split
    · refine bind_ne_panic (fun s => ?_) (fun _ _ => pure_ne_panic _ _) s
      split
      · exact bind_ne_panic (getString_ne_panic _ _) (fun _ _ => pure_ne_panic _ _) s
      · exact pure_ne_panic _ _
    · exact pure_ne_panic _ _

theorem postSample_ne_panic (tab : List Str) (x : SampleX) (s : String) : postSample tab x ≠ .panic s :=
  bind_ne_panic (foldlM_ne_panic _ (postLabel_ne_panic tab) _ _) (fun _ _ => pure_ne_panic _ _) s

theorem postDecode_ne_panic (x : ProfileX) (s : String) : postDecode x ≠ .panic s := by
  unfold postDecode
  refine bind_ne_panic (mapM_ne_panic _ (postMapping_ne_panic _) _) (fun ms s => ?_) s
  refine bind_ne_panic (mapM_ne_panic _ (postFunction_ne_panic _) _) (fun fs s => ?_) s
  refine bind_ne_panic (mapM_ne_panic _ (postValueType_ne_panic _) _) (fun sts s => ?_) s
  refine bind_ne_panic (mapM_ne_panic _ (postSample_ne_panic _) _) (fun ss s => ?_) s
  refine bind_ne_panic (getString_ne_panic _ _) (fun df s => ?_) s
  refine bind_ne_panic (getString_ne_panic _ _) (fun kf s => ?_) s
  refine bind_ne_panic (postValueType_ne_panic _ _) (fun pt s => ?_) s
  refine bind_ne_panic (mapM_ne_panic _ (getString_ne_panic _) _) (fun cs s => ?_) s
  refine bind_ne_panic (getString_ne_panic _ _) (fun dst s => ?_) s
  refine bind_ne_panic (getString_ne_panic _ _) (fun doc s => ?_) s
  exact pure_ne_panic _ _

theorem parseUncompressed_ne_panic (b : Bytes) (s : String) : parseUncompressed b ≠ .panic s := by
  unfold parseUncompressed
  split
  · simp
  · exact bind_ne_panic (unmarshal_ne_panic b) (fun x => postDecode_ne_panic x) s

end Codec
end PV

namespace PV
namespace Codec
open Wire

theorem mapM_ok_mem {α β} (f : α → Outcome β) : ∀ (l : List α) (r : List β), l.mapM f = .ok r →
    ∀ y ∈ r, ∃ a ∈ l, f a = .ok y
  | [], r, h, y, hy => by simp [pure] at h; subst h; simp at hy
  | a :: l, r, h, y, hy => by
    rw [List.mapM_cons] at h
    obtain ⟨b, hb, h⟩ := Outcome.bind_eq_ok.mp h
    obtain ⟨bs, hbs, h⟩ := Outcome.bind_eq_ok.mp h
    simp [pure] at h; subst h
    rcases List.mem_cons.mp hy with rfl | hy
    · exact ⟨a, by simp, hb⟩
    · obtain ⟨a', ha', h'⟩ := mapM_ok_mem f l bs hbs y hy
      exact ⟨a', List.mem_cons_of_mem _ ha', h'⟩

theorem foldlM_inv {α β} (f : β → α → Outcome β) (P : β → Prop)
    (hstep : ∀ b a b', f b a = .ok b' → P b → P b') :
    ∀ (l : List α) (b r : β), l.foldlM f b = .ok r → P b → P r
  | [], b, r, h, hb => by simp [pure] at h; subst h; exact hb
  | a :: l, b, r, h, hb => by
    rw [List.foldlM_cons] at h
    obtain ⟨b', hb', h⟩ := Outcome.bind_eq_ok.mp h
    exact foldlM_inv f P hstep l b' r h (hstep b a b' hb' hb)

/-- invariant of the label-regrouping loop of `postDecode` -/
structure AccInv (acc : LabelAcc) : Prop where
  nd1 : (keys acc.labels).Nodup
  nd2 : (keys acc.numLabels).Nodup
  nd3 : (keys acc.numUnits).Nodup
  le : ∀ k, ((acc.numUnits.lookup k).getD []).length ≤ ((acc.numLabels.lookup k).getD []).length

theorem AccInv.empty : AccInv {} := ⟨by simp [keys], by simp [keys], by simp [keys], by intro k; simp⟩

theorem length_padStringArray (arr : List Str) (l : Nat) :
    (padStringArray arr l).length = max arr.length l := by
  unfold padStringArray
  split
  · omega
  · simp; omega

theorem postLabel_inv (tab : List Str) (acc : LabelAcc) (l : LabelX) (acc' : LabelAcc)
    (h : postLabel tab acc l = .ok acc') (hi : AccInv acc) : AccInv acc' := by
  unfold postLabel at h
  obtain ⟨key, _, h⟩ := Outcome.bind_eq_ok.mp h
  split at h
  · obtain ⟨value, _, h⟩ := Outcome.bind_eq_ok.mp h
    simp [pure] at h; subst h
    exact ⟨keys_alSet_nodup _ _ _ hi.nd1, hi.nd2, hi.nd3, hi.le⟩
  · split at h
    · obtain ⟨acc1, h1, h⟩ := Outcome.bind_eq_ok.mp h
      simp [pure] at h; subst h
      split at h1
      · obtain ⟨unit, _, h1⟩ := Outcome.bind_eq_ok.mp h1
        simp [pure] at h1; subst h1
        refine ⟨hi.nd1, keys_alSet_nodup _ _ _ hi.nd2, keys_alSet_nodup _ _ _ hi.nd3, ?_⟩
        intro k
        simp only [lookup_alSet]
        by_cases hk : (k == key) = true
        · have := hi.le key
          simp [hk, length_padStringArray]
          omega
        · have hk' : (k == key) = false := Bool.eq_false_iff.mpr hk
          simp only [hk']
          exact hi.le k
      · simp [pure] at h1; subst h1
        refine ⟨hi.nd1, keys_alSet_nodup _ _ _ hi.nd2, hi.nd3, ?_⟩
        intro k
        simp only [lookup_alSet]
        by_cases hk : (k == key) = true
        · have hk2 : k = key := beq_iff_eq.mp hk
          have := hi.le key
          subst hk2
          simp
          omega
        · have hk' : (k == key) = false := Bool.eq_false_iff.mpr hk
          simp only [hk']
          exact hi.le k
    · simp [pure] at h; subst h; exact hi

end Codec
end PV

namespace PV
namespace Codec
open Wire

theorem postSample_ok (tab : List Str) (x : SampleX) (r : Sample) (h : postSample tab x = .ok r) :
    r.unitsAligned = true ∧ r.mapsSorted = true := by
  unfold postSample at h
  obtain ⟨acc, hacc, h⟩ := Outcome.bind_eq_ok.mp h
  have hi : AccInv acc := foldlM_inv _ AccInv (postLabel_inv tab) _ _ _ hacc AccInv.empty
  simp only [pure, Outcome.ok.injEq] at h
  subst h
  constructor
  · -- units aligned
    unfold Sample.unitsAligned
    simp only
    rw [List.all_eq_true]
    rintro ⟨k, vs⟩ hkv
    have hkv' : (k, vs) ∈ acc.numLabels := (mem_sortKeys _ _).mp hkv
    have hlk : acc.numLabels.lookup k = some vs := mem_lookup hi.nd2 hkv'
    simp only
    split
    · rfl
    · rename_i us hus
      split at hus
      · have hmem := (mem_sortKeys _ _).mp (lookup_mem hus)
        obtain ⟨⟨k0, us0⟩, hin, heq⟩ := List.mem_map.mp hmem
        have hk0 : k0 = k := by
          simp only at heq
          split at heq <;> (cases heq; rfl)
        subst hk0
        have hlu : acc.numUnits.lookup k0 = some us0 := mem_lookup hi.nd3 hin
        have hle := hi.le k0
        rw [hlu, hlk] at hle
        simp only [Option.getD_some] at hle
        simp only at heq
        split at heq
        · rename_i hpos
          cases heq
          simp only [hlk, Option.getD_some, length_padStringArray, Bool.or_eq_true, beq_iff_eq]
          right; omega
        · rename_i hpos
          have hnil : us0 = [] := List.eq_nil_of_length_eq_zero (by omega)
          subst hnil
          cases heq
          simp
      · simp at hus
  · unfold Sample.mapsSorted
    simp only [Bool.and_eq_true]
    refine ⟨⟨keysSorted_sortKeys _ hi.nd1, keysSorted_sortKeys _ hi.nd2⟩, ?_⟩
    split
    · apply keysSorted_sortKeys
      have : keys (acc.numUnits.map fun (x : Str × List Str) =>
          if x.2.length > 0 then (x.1, padStringArray x.2 ((acc.numLabels.lookup x.1).getD []).length) else (x.1, x.2)) = keys acc.numUnits := by
        simp only [keys, List.map_map]
        apply List.map_congr_left
        intro e _
        simp only [Function.comp]
        split <;> rfl
      rw [this]; exact hi.nd3
    · rfl

theorem postDecode_ok (x : ProfileX) (p : Profile) (h : postDecode x = .ok p) :
    p.unitsAligned = true ∧ p.mapsSorted = true := by
  unfold postDecode at h
  obtain ⟨ms, _, h⟩ := Outcome.bind_eq_ok.mp h
  obtain ⟨fs, _, h⟩ := Outcome.bind_eq_ok.mp h
  obtain ⟨sts, _, h⟩ := Outcome.bind_eq_ok.mp h
  obtain ⟨ss, hss, h⟩ := Outcome.bind_eq_ok.mp h
  obtain ⟨df, _, h⟩ := Outcome.bind_eq_ok.mp h
  obtain ⟨kf, _, h⟩ := Outcome.bind_eq_ok.mp h
  obtain ⟨pt, _, h⟩ := Outcome.bind_eq_ok.mp h
  obtain ⟨cs, _, h⟩ := Outcome.bind_eq_ok.mp h
  obtain ⟨dst, _, h⟩ := Outcome.bind_eq_ok.mp h
  obtain ⟨doc, _, h⟩ := Outcome.bind_eq_ok.mp h
  simp only [pure, Outcome.ok.injEq] at h
  subst h
  have hall : ∀ y ∈ ss, y.unitsAligned = true ∧ y.mapsSorted = true := by
    intro y hy
    obtain ⟨a, _, ha⟩ := mapM_ok_mem _ _ _ hss y hy
    exact postSample_ok _ a y ha
  constructor
  · simp only [Profile.unitsAligned, List.all_map, List.all_eq_true]
    intro y hy
    exact (hall y hy).1
  · simp only [Profile.mapsSorted, List.all_map, List.all_eq_true]
    intro y hy
    exact (hall y hy).2

theorem parseUncompressed_ok (b : Bytes) (p : Profile) (h : parseUncompressed b = .ok p) :
    p.unitsAligned = true ∧ p.mapsSorted = true := by
  unfold parseUncompressed at h
  split at h
  · simp at h
  · obtain ⟨x, _, h⟩ := Outcome.bind_eq_ok.mp h
    exact postDecode_ok x p h

end Codec
end PV

namespace PV
namespace Codec
open Wire

theorem preNumLabels_go_ne_panic (units : List Str) (kx : Int) : ∀ (vs : List Int) (i : Nat) (t : StrTab),
    (units.length = 0 ∨ i + vs.length ≤ units.length) → ∀ s, preNumLabels.go units kx i vs t ≠ .panic s
  | [], i, t, _, s => by simp [preNumLabels.go]
  | v :: rest, i, t, h, s => by
    rw [preNumLabels.go]
    split
    · rename_i hne
      have hi : i < units.length := by
        rcases h with h | h
        · exact absurd h hne
        · simp at h; omega
      have : units[i]? = some units[i] := List.getElem?_eq_getElem hi
      rw [this]
      simp only
      have ih := preNumLabels_go_ne_panic units kx rest (i + 1) (addString t units[i]).1
        (by rcases h with h | h
            · exact Or.inl h
            · right; simp at h; omega)
      cases hgo : preNumLabels.go units kx (i + 1) rest (addString t units[i]).1 with
      | ok r => simp
      | err e => simp
      | panic e => exact absurd hgo (ih e)
    · rename_i hz
      have hz' : units.length = 0 := by omega
      have ih := preNumLabels_go_ne_panic units kx rest (i + 1) t (Or.inl hz')
      cases hgo : preNumLabels.go units kx (i + 1) rest t with
      | ok r => simp
      | err e => simp
      | panic e => exact absurd hgo (ih e)

theorem preNumLabels_ne_panic (k : Str) (vs : List Int) (units : List Str) (t : StrTab)
    (h : units.length = 0 ∨ vs.length ≤ units.length) (s : String) : preNumLabels k vs units t ≠ .panic s := by
  unfold preNumLabels
  exact preNumLabels_go_ne_panic units _ vs 0 _ (by simpa using h) s

theorem preSample_nums_ne_panic (sm : Sample) : ∀ (l : List (Str × List Int)) (t : StrTab),
    (∀ kv ∈ l, match sm.numUnit.lookup kv.1 with
      | none => True
      | some us => us.isEmpty = true ∨ us.length = kv.2.length) →
    ∀ s, preSample.nums sm l t ≠ .panic s
  | [], t, _, s => by simp [preSample.nums]
  | (k, vs) :: rest, t, h, s => by
    rw [preSample.nums]
    have hk := h (k, vs) (by simp)
    have hu : ((sm.numUnit.lookup k).getD []).length = 0 ∨ vs.length ≤ ((sm.numUnit.lookup k).getD []).length := by
      simp only at hk
      cases hl : sm.numUnit.lookup k with
      | none => simp
      | some us =>
        rw [hl] at hk
        simp only [Option.getD_some]
        rcases hk with hk | hk
        · left; simpa using hk
        · right; omega
    cases h1 : preNumLabels k vs ((sm.numUnit.lookup k).getD []) t with
    | panic e => exact absurd h1 (preNumLabels_ne_panic k vs _ t hu e)
    | err e => simp
    | ok r =>
      obtain ⟨a, t'⟩ := r
      simp only
      have ih := preSample_nums_ne_panic sm rest t' (fun kv hkv => h kv (List.mem_cons_of_mem _ hkv))
      cases h2 : preSample.nums sm rest t' with
      | panic e => exact absurd h2 (ih e)
      | err e => simp
      | ok r2 => simp

theorem preSample_ne_panic (sm : Sample) (t : StrTab) (h : sm.unitsAligned = true) (s : String) :
    preSample sm t ≠ .panic s := by
  have hn := fun t => preSample_nums_ne_panic sm sm.numLabel t (by
      intro kv hkv
      unfold Sample.unitsAligned at h
      rw [List.all_eq_true] at h
      have := h kv hkv
      split
      · trivial
      · rename_i us hus
        simp only [hus, Bool.or_eq_true, beq_iff_eq] at this
        exact this)
  unfold preSample
  simp only
  split
  split
  · simp
  · simp
  · rename_i hp
    exact absurd hp (hn _ _)

theorem preSamples_ne_panic : ∀ (l : List Sample) (t : StrTab), (∀ x ∈ l, x.unitsAligned = true) →
    ∀ s, preSamples l t ≠ .panic s
  | [], t, _, s => by simp [preSamples]
  | x :: rest, t, h, s => by
    rw [preSamples]
    cases h1 : preSample x t with
    | panic e => exact absurd h1 (preSample_ne_panic x t (h x (by simp)) e)
    | err e => simp
    | ok r =>
      obtain ⟨a, t'⟩ := r
      simp only
      have ih := preSamples_ne_panic rest t' (fun y hy => h y (List.mem_cons_of_mem _ hy))
      cases h2 : preSamples rest t' with
      | panic e => exact absurd h2 (ih e)
      | err e => simp
      | ok r2 => simp

/-- `preEncode`'s only panic site is `units[i]`; it is unreachable when the documented
NumUnit/NumLabel length contract holds. -/
theorem serialize_ne_panic (p : Profile) (h : p.unitsAligned = true) (s : String) : serialize p ≠ .panic s := by
  unfold serialize
  refine bind_ne_panic (fun s => ?_) (fun _ _ => pure_ne_panic _ _) s
  have hn := fun t => preSamples_ne_panic p.samples t (by
      unfold Profile.unitsAligned at h
      rw [List.all_eq_true] at h
      exact h)
  unfold preEncode
  simp only
  split
  split
  · simp
  · rename_i hp
    exact absurd hp (hn _ _)
  · repeat' split
    all_goals simp

end Codec
end PV
