import PprofVerif.Lemmas.CallgrindNum
/-! C18 helper lemmas: the subposition compression of `callgrindAddress` and the name
    compression of `callgrindName` are undone by the checker's decoders. -/
namespace PV.Callgrind

theorem decodeSub_abs (last : Option Nat) (cur : Nat) (h : cur < two64) :
    decodeSub last (0x30 :: 0x78 :: hex cur) = some cur := by
  have hp := parseNumber_hex cur
  have e1 : ¬ ((0x30 : UInt8) = 0x2a) := by decide
  have e2 : ¬ ((0x30 : UInt8) = 0x2b) := by decide
  have e3 : ¬ ((0x30 : UInt8) = 0x2d) := by decide
  simp only [decodeSub, e1, e2, e3, if_false, hp, h, if_true]

theorem decodeSub_cgAddr_none (last : Option Nat) (cur : Nat) (h : cur < two64) :
    decodeSub last (cgAddr none cur) = some cur := by
  simp only [cgAddr]
  exact decodeSub_abs last cur h

theorem decodeSub_signed (p cur : Nat) (hp : p < two64) (hc : cur < two64) :
    decodeSub (some p) (signedDec (diff64 p cur)) = some cur := by
  unfold signedDec diff64
  have hpm : p % two64 = p := Nat.mod_eq_of_lt hp
  simp only [hpm]
  by_cases hd : (cur + two64 - p) % two64 < two63
  · simp only [hd, if_true]
    have hnn : ¬ (((cur + two64 - p) % two64 : Nat) : Int) < 0 := by omega
    simp only [hnn, if_false]
    have e1 : ¬ ((0x2b : UInt8) = 0x2a) := by decide
    simp only [decodeSub, e1, if_false, if_true, parseNumber_dec]
    congr 1
    have : (((cur + two64 - p) % two64 : Nat) : Int).toNat = (cur + two64 - p) % two64 := by omega
    rw [this]
    unfold two64 at *
    omega
  · simp only [hd, if_false]
    have hlt : (cur + two64 - p) % two64 < two64 := Nat.mod_lt _ (by unfold two64; omega)
    have hneg : (((cur + two64 - p) % two64 : Nat) : Int) - (two64 : Int) < 0 := by omega
    simp only [hneg, if_true]
    have e1 : ¬ ((0x2d : UInt8) = 0x2a) := by decide
    have e2 : ¬ ((0x2d : UInt8) = 0x2b) := by decide
    simp only [decodeSub, e1, e2, if_false, if_true, parseNumber_dec]
    congr 1
    have : (-((((cur + two64 - p) % two64 : Nat) : Int) - (two64 : Int))).toNat
        = two64 - (cur + two64 - p) % two64 := by omega
    rw [this]
    unfold two64 two63 at *
    omega

/-- **subposition compression round trip**: whatever form `callgrindAddress` chooses (`*`,
`+n`/`-n`, or absolute hex), decoding it against the previous address gives the address. -/
theorem decodeSub_cgAddr_some (p cur : Nat) (hp : p < two64) (hc : cur < two64) :
    decodeSub (some p) (cgAddr (some p) cur) = some cur := by
  simp only [cgAddr]
  by_cases he : p = cur
  · simp [he, decodeSub]
  · simp only [he, if_false]
    split
    · exact decodeSub_signed p cur hp hc
    · exact decodeSub_abs (some p) cur hc

/-! ### name compression -/

/-- tables `callgrindName` can build: ids are 1,2,3… in insertion order, names pairwise distinct -/
inductive WF : List (Bytes × Nat) → Prop where
  | nil : WF []
  | cons {tbl name} : WF tbl → lookupId tbl name = none → WF ((name, tbl.length + 1) :: tbl)

/-- the checker's definition table corresponding to a `callgrindName` table -/
def mirror (tbl : List (Bytes × Nat)) : Defs := tbl.map fun p => (p.2, p.1)

theorem WF.id_le {tbl} (h : WF tbl) : ∀ name id, lookupId tbl name = some id → 1 ≤ id ∧ id ≤ tbl.length := by
  induction h with
  | nil => intro name id h; simp [lookupId] at h
  | @cons tbl n0 _ _ ih =>
    intro name id h
    simp only [lookupId] at h
    split at h
    · simp at h; subst h; simp
    · have := ih name id h
      simp only [List.length_cons]; omega

theorem lookupDef_mirror_gt {tbl} (h : WF tbl) : ∀ n, tbl.length < n → lookupDef (mirror tbl) n = none := by
  induction h with
  | nil => intro n _; simp [mirror, lookupDef]
  | @cons tbl n0 _ _ ih =>
    intro n hn
    simp only [List.length_cons] at hn
    simp only [mirror, List.map_cons, lookupDef]
    have : ¬ (tbl.length + 1 = n) := by omega
    simp only [this, if_false]
    exact ih n (by omega)

theorem lookupDef_mirror {tbl} (h : WF tbl) : ∀ name id, lookupId tbl name = some id →
    lookupDef (mirror tbl) id = some name := by
  induction h with
  | nil => intro name id h; simp [lookupId] at h
  | @cons tbl n0 hwf _ ih =>
    intro name id h
    simp only [lookupId] at h
    simp only [mirror, List.map_cons, lookupDef]
    split at h
    · rename_i hn
      simp at h; subst h; subst hn; simp
    · have hle := hwf.id_le name id h
      have : ¬ (tbl.length + 1 = id) := by omega
      simp only [this, if_false]
      exact ih name id h

theorem isBlank_LP : isBlank LP = false := by decide
theorem isDigit_RP : isDigit RP = false := by decide

theorem takeWhile_digits (ds rest : Bytes) (h : ∀ b ∈ ds, isDigit b = true) :
    (ds ++ RP :: rest).takeWhile isDigit = ds := by
  induction ds with
  | nil => simp [List.takeWhile, isDigit_RP]
  | cons x t ih =>
    have hx : isDigit x = true := h x (by simp)
    simp only [List.cons_append, List.takeWhile, hx]
    rw [ih (fun b hb => h b (by simp [hb]))]

theorem dropWhile_digits (ds rest : Bytes) (h : ∀ b ∈ ds, isDigit b = true) :
    (ds ++ RP :: rest).dropWhile isDigit = RP :: rest := by
  induction ds with
  | nil => simp [List.dropWhile, isDigit_RP]
  | cons x t ih =>
    have hx : isDigit x = true := h x (by simp)
    simp only [List.cons_append, List.dropWhile, hx]
    exact ih (fun b hb => h b (by simp [hb]))

/-- a compressed name token `(id)` or `(id) name` is parsed back into its parts -/
theorem resolveName_compressed (defs : Defs) (id : Nat) (tail : Bytes) :
    resolveName defs (LP :: dec id ++ RP :: tail) =
      (let name := tail.dropWhile isBlank
       if name = [] then
         match lookupDef defs id with
         | some nm => .ok (nm, defs)
         | none => .error (.undefinedRef id)
       else
         match lookupDef defs id with
         | some old => if old = name then .ok (name, defs) else .error (.redefined id)
         | none => .ok (name, (id, name) :: defs)) := by
  have hall := dec_all_digit id
  have hne := dec_ne_nil id
  cases hd : dec id with
  | nil => exact absurd hd hne
  | cons d ds =>
    have hdd : isDigit d = true := hall d (by rw [hd]; simp)
    have htw := takeWhile_digits (dec id) tail hall
    have hdw := dropWhile_digits (dec id) tail hall
    rw [hd] at htw hdw
    simp only [List.cons_append] at htw hdw
    have hpd := parseDec_dec id
    rw [hd] at hpd
    unfold resolveName
    simp only [List.cons_append, List.dropWhile, isBlank_LP]
    simp only [hdd, Bool.and_true, beq_self_eq_true, if_true, List.drop_succ_cons, List.drop_zero,
      htw, hdw, hpd]
    rfl

theorem dropWhile_head_false (p : UInt8 → Bool) (l : Bytes) : ∀ b t, l.dropWhile p = b :: t → p b = false := by
  induction l with
  | nil => intro b t h; simp at h
  | cons x r ih =>
    intro b t h
    by_cases hx : p x = true
    · simp only [List.dropWhile, hx] at h
      exact ih b t h
    · simp only [List.dropWhile, hx] at h
      simp at h
      rw [← h.1]; simpa using hx

theorem sanitize_head_not_blank (name : Bytes) : ∀ b t, sanitize name = b :: t → isBlank b = false := by
  intro b t h
  unfold sanitize at h
  exact dropWhile_head_false isBlank _ b t h

theorem dropWhile_blank_sp_sanitize (name : Bytes) (h : sanitize name ≠ []) :
    (SP :: sanitize name).dropWhile isBlank = sanitize name := by
  have hsp : isBlank SP = true := by decide
  simp only [List.dropWhile, hsp]
  cases hs : sanitize name with
  | nil => exact absurd hs h
  | cons b t =>
    have := sanitize_head_not_blank name b t hs
    simp [List.dropWhile, this]

theorem mem_dropWhile {p : UInt8 → Bool} {l : Bytes} {b : UInt8} (h : b ∈ l.dropWhile p) : b ∈ l := by
  induction l with
  | nil => simpa using h
  | cons x t ih =>
    simp only [List.dropWhile] at h
    split at h
    · exact List.mem_cons_of_mem _ (ih h)
    · exact h

/-- `callgrindLine` (replace line breaks, THEN trim leading blanks): the result contains no
newline and is either empty — the form `callgrindName` writes as the empty name — or starts with
a byte that is not a blank, so that `(n) name` can never read as the bare reference `(n)`. -/
theorem sanitize_single_line (name : Bytes) :
    NL ∉ sanitize name ∧ (sanitize name = [] ∨ ∃ b t, sanitize name = b :: t ∧ isBlank b = false) := by
  constructor
  · intro h
    have h' := mem_dropWhile h
    simp only [List.mem_map] at h'
    obtain ⟨x, _, hx⟩ := h'
    split at hx
    · exact absurd hx (by decide)
    · rename_i hne; exact hne hx
  · cases hs : sanitize name with
    | nil => exact Or.inl rfl
    | cons b t => exact Or.inr ⟨b, t, rfl, sanitize_head_not_blank name b t hs⟩

/-- **one step of name compression**: what `callgrindName` emits is resolved by the checker to
the (single-line) name, with the checker's table staying the mirror image of pprof's. -/
theorem resolve_cgName {tbl} (hwf : WF tbl) (name : Bytes) :
    resolveName (mirror tbl) (cgName tbl name).1 = .ok (sanitize name, mirror (cgName tbl name).2)
    ∧ WF (cgName tbl name).2 := by
  unfold cgName
  simp only
  by_cases he : sanitize name = []
  · simp only [he, if_true]
    exact ⟨by simp [resolveName], hwf⟩
  · simp only [he, if_false]
    cases hl : lookupId tbl (sanitize name) with
    | some id =>
      simp only
      refine ⟨?_, hwf⟩
      have := resolveName_compressed (mirror tbl) id []
      simp only [List.dropWhile, if_true, lookupDef_mirror hwf _ _ hl] at this
      simpa using this
    | none =>
      simp only
      refine ⟨?_, WF.cons hwf hl⟩
      have := resolveName_compressed (mirror tbl) (tbl.length + 1) (SP :: sanitize name)
      rw [dropWhile_blank_sp_sanitize name he] at this
      simp only [he, if_false, lookupDef_mirror_gt hwf (tbl.length + 1) (by omega)] at this
      simpa [mirror] using this

/-- `callgrindName` over a sequence of names sharing one table -/
def emitAll : List (Bytes × Nat) → List Bytes → List Bytes × List (Bytes × Nat)
  | tbl, [] => ([], tbl)
  | tbl, n :: ns =>
    let r := cgName tbl n
    let rest := emitAll r.2 ns
    (r.1 :: rest.1, rest.2)

/-- the checker resolving a sequence of position names of one kind -/
def resolveAll : Defs → List Bytes → Except NameErr (List Bytes × Defs)
  | defs, [] => .ok ([], defs)
  | defs, t :: ts =>
    match resolveName defs t with
    | .ok (nm, defs') =>
      match resolveAll defs' ts with
      | .ok (nms, d) => .ok (nm :: nms, d)
      | .error e => .error e
    | .error e => .error e

theorem resolveAll_emitAll {tbl} (hwf : WF tbl) (names : List Bytes) :
    resolveAll (mirror tbl) (emitAll tbl names).1 =
      .ok (names.map sanitize, mirror (emitAll tbl names).2) := by
  induction names generalizing tbl with
  | nil => simp [emitAll, resolveAll]
  | cons n ns ih =>
    have ⟨h1, h2⟩ := resolve_cgName hwf n
    simp only [emitAll, resolveAll, h1, ih h2, List.map_cons]

end PV.Callgrind
