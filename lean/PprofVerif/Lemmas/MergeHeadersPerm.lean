import PprofVerif.Lemmas.MergeTop
import Mathlib.Data.List.Perm.Basic
/-!
Which header fields of a merge depend on the order of the inputs.

Order-independent (functions of the *multiset* of inputs): period (maximum), collection time
(earliest non-zero), duration (int64 sum), and the *set* of comments.
Order-dependent, exactly as documented: comments are listed in order of first appearance;
the default sample type and the doc URL are the first non-empty ones in input order; sample
types, period type, drop-frames and keep-frames are the first profile's.
-/
namespace PV.Merge
open PV.Spec
open PV.Wire (InI64 two63)

/-! ### the three order-independent folds -/

theorem sumI64_perm {a b : List Int} (h : a.Perm b) : sumI64 a = sumI64 b := by
  unfold sumI64
  have : RightCommutative (fun (a d : Int) => wrapI64 (a + d)) :=
    ⟨fun a b c => by unfold wrapI64; omega⟩
  exact h.foldl_eq _

theorem maxPeriod_perm {a b : List Int} (h : a.Perm b) : maxPeriod a = maxPeriod b := by
  unfold maxPeriod
  have : RightCommutative (max : Int → Int → Int) := ⟨fun a b c => by omega⟩
  exact h.foldl_eq _

theorem foldl_min_spec : ∀ (l : List Int) (a : Int),
    (∀ x ∈ a :: l, l.foldl min a ≤ x) ∧ l.foldl min a ∈ a :: l
  | [], a => ⟨by intro x hx; simp only [List.mem_singleton] at hx; subst hx; simp, by simp⟩
  | b :: l, a => by
    obtain ⟨h1, h2⟩ := foldl_min_spec l (min a b)
    simp only [List.foldl_cons]
    constructor
    · intro x hx
      have hm := h1 (min a b) (by simp)
      rcases List.mem_cons.mp hx with rfl | hx
      · omega
      · rcases List.mem_cons.mp hx with rfl | hx
        · omega
        · exact h1 x (List.mem_cons_of_mem _ hx)
    · rcases List.mem_cons.mp h2 with h2 | h2
      · rw [h2]
        by_cases hab : a ≤ b
        · rw [show min a b = a by omega]; simp
        · rw [show min a b = b by omega]; simp
      · exact List.mem_cons_of_mem _ (List.mem_cons_of_mem _ h2)

/-- the earliest non-zero time does not depend on the order. -/
theorem earliestNonZero_perm {a b : List Int} (h : a.Perm b) : earliestNonZero a = earliestNonZero b := by
  unfold earliestNonZero
  have hf : (a.filter (· ≠ 0)).Perm (b.filter (· ≠ 0)) := h.filter _
  cases ha : a.filter (· ≠ 0) with
  | nil =>
    rw [ha] at hf
    rw [List.nil_perm.mp hf]
  | cons t r =>
    cases hb : b.filter (· ≠ 0) with
    | nil => rw [ha, hb] at hf; exact absurd (List.perm_nil.mp hf) (by simp)
    | cons t' r' =>
      rw [ha, hb] at hf
      simp only
      obtain ⟨h1, m1⟩ := foldl_min_spec r t
      obtain ⟨h2, m2⟩ := foldl_min_spec r' t'
      have a1 := h2 _ (hf.mem_iff.mp m1)
      have a2 := h1 _ (hf.mem_iff.mpr m2)
      omega

/-! ### comments: the same set, listed in order of first appearance -/

theorem mem_dedupInOrder : ∀ (cs : List Str) (x : Str), x ∈ dedupInOrder cs ↔ x ∈ cs
  | [], _ => by simp [dedupInOrder]
  | c :: cs, x => by
    simp only [dedupInOrder, List.mem_cons, List.mem_filter, decide_eq_true_eq, mem_dedupInOrder cs x]
    constructor
    · rintro (h | ⟨h, _⟩)
      · exact Or.inl h
      · exact Or.inr h
    · rintro (h | h)
      · exact Or.inl h
      · by_cases hx : x = c
        · exact Or.inl hx
        · exact Or.inr ⟨h, hx⟩

/-- the de-duplicated unions of two comment lists with the same members are permutations of
each other (both list every member exactly once). -/
theorem dedupInOrder_perm_of_mem {a b : List Str} (h : ∀ x, x ∈ a ↔ x ∈ b) :
    (dedupInOrder a).Perm (dedupInOrder b) := by
  rw [List.perm_ext_iff_of_nodup (dedupInOrder_nodup a) (dedupInOrder_nodup b)]
  intro x
  rw [mem_dedupInOrder, mem_dedupInOrder, h x]

theorem mem_flatMap_comments_perm {ps qs : List Profile} (h : ps.Perm qs) (x : Str) :
    x ∈ ps.flatMap (·.comments) ↔ x ∈ qs.flatMap (·.comments) := by
  simp only [List.mem_flatMap]
  constructor
  · rintro ⟨p, hp, hx⟩; exact ⟨p, h.mem_iff.mp hp, hx⟩
  · rintro ⟨p, hp, hx⟩; exact ⟨p, h.mem_iff.mpr hp, hx⟩

/-- **the documented header under a permutation of the inputs**: period, time and duration are
equal; the comments are the same set (each once). -/
theorem combineHeadersSpec_perm (f1 : Profile) (r1 : List Profile) (f2 : Profile) (r2 : List Profile)
    (hp : (f1 :: r1).Perm (f2 :: r2)) :
    (combineHeadersSpec f1 r1).period = (combineHeadersSpec f2 r2).period ∧
    (combineHeadersSpec f1 r1).timeNanos = (combineHeadersSpec f2 r2).timeNanos ∧
    (combineHeadersSpec f1 r1).durationNanos = (combineHeadersSpec f2 r2).durationNanos ∧
    (combineHeadersSpec f1 r1).comments.Perm (combineHeadersSpec f2 r2).comments ∧
    (combineHeadersSpec f1 r1).comments.Nodup := by
  refine ⟨?_, ?_, ?_, ?_, ?_⟩
  · exact maxPeriod_perm (hp.map _)
  · exact earliestNonZero_perm (hp.map _)
  · exact sumI64_perm (hp.map _)
  · exact dedupInOrder_perm_of_mem (mem_flatMap_comments_perm hp)
  · exact dedupInOrder_nodup _

/-- `combineHeaders` itself, for all compatible lists with non-negative periods: what does not
depend on the order, and what follows the first profile / the input order. -/
theorem combineHeaders_perm (f1 : Profile) (r1 : List Profile) (f2 : Profile) (r2 : List Profile)
    (hc1 : ∀ p ∈ r1, compatibleB f1 p = true) (hc2 : ∀ p ∈ r2, compatibleB f2 p = true)
    (hper : ∀ p ∈ f1 :: r1, 0 ≤ p.period) (hp : (f1 :: r1).Perm (f2 :: r2)) :
    ∃ h1 h2, combineHeaders f1 r1 = .ok h1 ∧ combineHeaders f2 r2 = .ok h2 ∧
      -- order-independent
      h1.period = h2.period ∧ h1.timeNanos = h2.timeNanos ∧ h1.durationNanos = h2.durationNanos ∧
      h1.comments.Perm h2.comments ∧ h1.comments.Nodup ∧
      -- in input order
      h1.comments = dedupInOrder ((f1 :: r1).flatMap (·.comments)) ∧
      h1.defaultSampleType = firstNonEmpty ((f1 :: r1).map (·.defaultSampleType)) ∧
      h1.docURL = firstNonEmpty ((f1 :: r1).map (·.docURL)) ∧
      -- the first profile's
      h1.sampleType = f1.sampleType ∧ h1.periodType = f1.periodType ∧
      h1.dropFrames = f1.dropFrames ∧ h1.keepFrames = f1.keepFrames := by
  have hper2 : ∀ p ∈ f2 :: r2, 0 ≤ p.period := fun p hp' => hper p (hp.mem_iff.mpr hp')
  obtain ⟨h1, e1, s1, _⟩ := combineHeaders_spec f1 r1 hc1 hper
  obtain ⟨h2, e2, s2, _⟩ := combineHeaders_spec f2 r2 hc2 hper2
  obtain ⟨p1, p2, p3, p4, p5⟩ := combineHeadersSpec_perm f1 r1 f2 r2 hp
  rw [← s1, ← s2] at p1 p2 p3 p4
  rw [← s1] at p5
  refine ⟨h1, h2, e1, e2, p1, p2, p3, p4, p5, ?_, ?_, ?_, ?_, ?_, ?_, ?_⟩
  · exact congrArg Header.comments s1
  · exact congrArg Header.defaultSampleType s1
  · exact congrArg Header.docURL s1
  · exact congrArg Header.sampleType s1
  · exact congrArg Header.periodType s1
  · exact congrArg Header.dropFrames s1
  · exact congrArg Header.keepFrames s1

/-- first non-empty in input order: an empty entry in front is skipped, a non-empty one wins. -/
theorem firstNonEmpty_cons_empty (l : List Str) : firstNonEmpty ([] :: l) = firstNonEmpty l := by
  simp [firstNonEmpty]

theorem firstNonEmpty_cons_nonempty (s : Str) (l : List Str) (h : s ≠ []) : firstNonEmpty (s :: l) = s := by
  simp [firstNonEmpty, h]

theorem firstNonEmpty_mem (l : List Str) : firstNonEmpty l = [] ∨ firstNonEmpty l ∈ l := by
  induction l with
  | nil => left; rfl
  | cons s l ih =>
    by_cases h : s = []
    · subst h
      rw [firstNonEmpty_cons_empty]
      rcases ih with ih | ih
      · exact Or.inl ih
      · exact Or.inr (List.mem_cons_of_mem _ ih)
    · rw [firstNonEmpty_cons_nonempty s l h]; right; simp

end PV.Merge
