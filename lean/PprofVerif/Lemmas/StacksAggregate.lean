import PprofVerif.Spec.StacksAggregate
/-! C17 helper lemmas, part G: under a granularity that keeps inlined frames, the frames of the
aggregated view are the frames of the profile, one for one (`aggFrame` applied to each). -/
namespace PV.Stacks
open PV PV.Stacks.Spec

theorem optMap_map_comm {α α' β β' : Type} (g : α → Option β) (g' : α' → Option β') (h : α → α')
    (k : β → β') (hc : ∀ a, g' (h a) = (g a).map k) (l : List α) :
    optMap g' (l.map h) = (optMap g l).map (·.map k) := by
  induction l with
  | nil => rfl
  | cons a r ih =>
    simp only [List.map_cons, optMap, hc a, ih]
    cases g a <;> cases optMap g r <;> rfl

theorem flagLines_map (h : Line → Line) (l : List Line) :
    flagLines (l.map h) = (flagLines l).map (fun x => (h x.1, x.2)) := by
  induction l using flagLines.induct with
  | case1 => rfl
  | case2 l => rfl
  | case3 l l' r ih =>
    simp only [List.map_cons, flagLines] at ih ⊢
    rw [ih]

theorem find?_map_id {α : Type} (l : List α) (g : α → α) (key : α → Nat) (hk : ∀ a, key (g a) = key a) (i : Nat) :
    (l.map g).find? (fun a => key a == i) = (l.find? (fun a => key a == i)).map g := by
  induction l with
  | nil => rfl
  | cons a r ih =>
    simp only [List.map_cons, List.find?_cons, hk a]
    cases key a == i <;> simp [ih]

theorem findFunction_aggregate (f : AggFlags) (hn : f.none = false) (p : Profile) (i : Nat) :
    (aggregate f p).findFunction i = (p.findFunction i).map (aggFunction f) := by
  simp only [aggregate, hn, Profile.findFunction]
  exact find?_map_id p.functions (aggFunction f) (·.id) (fun _ => rfl) i

theorem findLocation_aggregate (f : AggFlags) (hn : f.none = false) (p : Profile) (i : Nat) :
    (aggregate f p).findLocation i = (p.findLocation i).map (aggLocation f) := by
  simp only [aggregate, hn, Profile.findLocation]
  exact find?_map_id p.locations (aggLocation f) (·.id) (fun _ => rfl) i

theorem locFrames_aggregate (f : AggFlags) (hn : f.none = false) (hi : f.inlines = true)
    (p : Profile) (loc : Location) :
    locFramesLeafFirst (aggregate f p) (aggLocation f loc) =
      (locFramesLeafFirst p loc).map (·.map (aggFrame f)) := by
  simp only [locFramesLeafFirst, aggLocation, hi, if_true, flagLines_map]
  apply optMap_map_comm
  intro a
  rw [findFunction_aggregate f hn]
  show Option.map _ (Option.map (aggFunction f) (p.findFunction a.1.functionID)) = _
  cases p.findFunction a.1.functionID <;> rfl

theorem sampleFrames_aggregate (f : AggFlags) (hn : f.none = false) (hi : f.inlines = true)
    (p : Profile) (s : Sample) :
    Spec.sampleFrames (aggregate f p) s = (Spec.sampleFrames p s).map (·.map (aggFrame f)) := by
  simp only [Spec.sampleFrames]
  have h := optMap_map_comm (fun id => (p.findLocation id).bind (locFramesLeafFirst p))
    (fun id => ((aggregate f p).findLocation id).bind (locFramesLeafFirst (aggregate f p))) id
    (·.map (aggFrame f)) (by
      intro a
      simp only [id, findLocation_aggregate f hn]
      cases p.findLocation a with
      | none => rfl
      | some loc => simp [locFrames_aggregate f hn hi]) s.locationIDs
  rw [List.map_id] at h
  rw [h]
  cases optMap (fun id => (p.findLocation id).bind (locFramesLeafFirst p)) s.locationIDs with
  | none => rfl
  | some fss => simp [List.map_flatten, List.map_reverse]

end PV.Stacks
