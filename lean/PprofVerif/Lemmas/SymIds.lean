import PprofVerif.Model.SymIds
/-! Lemmas about first-come numbering (C08, local symbolization). -/
namespace PV.SymIds

theorem assign_keys (start : Nat) : ∀ (ks seen : List Str), (assign start seen ks).map Prod.fst = ks
  | [], _ => rfl
  | k :: ks, seen => by
    unfold assign
    cases h : indexOf k seen <;> simp [assign_keys start ks]

theorem indexOf_lt : ∀ (k : Str) (l : List Str) (i : Nat), indexOf k l = some i → i < l.length
  | _, [], _, h => by simp [indexOf] at h
  | k, x :: xs, i, h => by
    unfold indexOf at h
    by_cases hx : x = k
    · simp [hx] at h; subst h; simp
    · simp only [hx, if_false, Option.map_eq_some_iff] at h
      obtain ⟨j, hj, rfl⟩ := h
      have := indexOf_lt k xs j hj
      simp; omega

theorem indexOf_append_self (k : Str) : ∀ (l : List Str), indexOf k l = none → indexOf k (l ++ [k]) = some l.length
  | [], _ => by simp [indexOf]
  | x :: xs, h => by
    unfold indexOf at h ⊢
    by_cases hx : x = k
    · simp [hx] at h
    · simp only [hx, if_false, Option.map_eq_none_iff] at h
      simp [hx, indexOf_append_self k xs h]

theorem indexOf_append_of_some (k x : Str) : ∀ (l : List Str) (i : Nat), indexOf k l = some i → indexOf k (l ++ [x]) = some i
  | [], _, h => by simp [indexOf] at h
  | y :: ys, i, h => by
    unfold indexOf at h
    show indexOf k (y :: (ys ++ [x])) = some i
    unfold indexOf
    by_cases hy : y = k
    · simpa [hy] using h
    · simp only [hy, if_false, Option.map_eq_some_iff] at h ⊢
      obtain ⟨j, hj, rfl⟩ := h
      exact ⟨j, indexOf_append_of_some k x ys j hj, rfl⟩

/-- every id handed out lies in `start+1 … start+|functions added|` -/
theorem assign_ids_in_range (start : Nat) : ∀ (ks seen : List Str) (p : Str × Nat),
    p ∈ assign start seen ks → start < p.2 ∧ p.2 ≤ start + (added seen ks).length
  | [], _, p, h => by simp [assign] at h
  | k :: ks, seen, p, h => by
    have hlen : ∀ (ks seen : List Str), seen.length ≤ (added seen ks).length := by
      intro ks
      induction ks with
      | nil => intro seen; simp [added]
      | cons k ks ih =>
        intro seen
        unfold added
        cases hk : indexOf k seen with
        | some i => simpa using ih seen
        | none =>
          have := ih (seen ++ [k])
          simp at this ⊢; omega
    unfold assign at h
    unfold added
    cases hk : indexOf k seen with
    | some i =>
      simp only [hk, List.mem_cons] at h ⊢
      rcases h with rfl | h
      · have := indexOf_lt k seen i hk
        have := hlen ks seen
        simp; omega
      · exact assign_ids_in_range start ks seen p h
    | none =>
      simp only [hk, List.mem_cons] at h ⊢
      rcases h with rfl | h
      · have := hlen ks (seen ++ [k])
        simp at this ⊢; omega
      · exact assign_ids_in_range start ks (seen ++ [k]) p h

end PV.SymIds
