import PprofVerif.Lemmas.ComposeWireRange
/-!
# Composition helpers (C02 ← C01): every integer of a message returned by `unmarshal` fits its Go type

`Ranged` predicates for the wire-level messages of profile/encode.go and their preservation by
the decoder tables; `unmarshal_ranged`.
-/
namespace PV
namespace Codec
open Wire

theorem decodeInt64_range {f : Field} {x : Int} (h : decodeInt64 f = .ok x) : InI64 x := by
  unfold decodeInt64 at h
  split at h
  · cases h
  · cases h; exact toI64_InI64 _

theorem decodeUint64_range {f : Field} {x : Nat} (hf : f.u64 < two64) (h : decodeUint64 f = .ok x) : x < two64 := by
  unfold decodeUint64 at h
  split at h
  · cases h
  · cases h; exact hf

theorem decodeUint64s_range {f : Field} {xs ys : List Nat} (hf : f.u64 < two64) (hx : ∀ x ∈ xs, x < two64)
    (h : decodeUint64s f xs = .ok ys) : ∀ y ∈ ys, y < two64 := by
  unfold decodeUint64s at h
  split at h
  · obtain ⟨us, h1, h⟩ := Outcome.bind_eq_ok.mp h
    simp only [pure, Outcome.ok.injEq] at h; subst h
    intro y hy
    rcases List.mem_append.mp hy with hy | hy
    · exact hx y hy
    · exact decodePacked_range _ _ _ h1 y hy
  · obtain ⟨u, h1, h⟩ := Outcome.bind_eq_ok.mp h
    simp only [pure, Outcome.ok.injEq] at h; subst h
    intro y hy
    rcases List.mem_append.mp hy with hy | hy
    · exact hx y hy
    · simp only [List.mem_singleton] at hy; subst hy; exact decodeUint64_range hf h1

theorem decodeInt64s_range {f : Field} {xs ys : List Int} (hx : ∀ x ∈ xs, InI64 x)
    (h : decodeInt64s f xs = .ok ys) : ∀ y ∈ ys, InI64 y := by
  unfold decodeInt64s at h
  split at h
  · obtain ⟨us, h1, h⟩ := Outcome.bind_eq_ok.mp h
    simp only [pure, Outcome.ok.injEq] at h; subst h
    intro y hy
    rcases List.mem_append.mp hy with hy | hy
    · exact hx y hy
    · obtain ⟨u, _, rfl⟩ := List.mem_map.mp hy; exact toI64_InI64 _
  · obtain ⟨u, h1, h⟩ := Outcome.bind_eq_ok.mp h
    simp only [pure, Outcome.ok.injEq] at h; subst h
    intro y hy
    rcases List.mem_append.mp hy with hy | hy
    · exact hx y hy
    · simp only [List.mem_singleton] at hy; subst hy; exact decodeInt64_range h1

/-! ### every integer of a decoded message fits its Go type -/

def LabelX.Ranged (l : LabelX) : Prop := InI64 l.numX
def SampleX.Ranged (s : SampleX) : Prop :=
  (∀ i ∈ s.locationIDX, i < two64) ∧ (∀ v ∈ s.value, InI64 v) ∧ ∀ l ∈ s.labelX, l.Ranged
def MappingX.Ranged (m : MappingX) : Prop := m.id < two64 ∧ m.start < two64 ∧ m.limit < two64 ∧ m.offset < two64
def LineX.Ranged (l : LineX) : Prop := l.functionIDX < two64 ∧ InI64 l.line ∧ InI64 l.column
def LocationX.Ranged (l : LocationX) : Prop :=
  l.id < two64 ∧ l.mappingIDX < two64 ∧ l.address < two64 ∧ ∀ ln ∈ l.line, ln.Ranged
def FunctionX.Ranged (f : FunctionX) : Prop := f.id < two64 ∧ InI64 f.startLine

structure ProfileX.Ranged (x : ProfileX) : Prop where
  timeNanos : InI64 x.timeNanos
  durationNanos : InI64 x.durationNanos
  period : InI64 x.period
  samples : ∀ s ∈ x.sample, s.Ranged
  mappings : ∀ m ∈ x.mapping, m.Ranged
  locations : ∀ l ∈ x.location, l.Ranged
  functions : ∀ f ∈ x.function, f.Ranged

theorem InI64_0 : InI64 0 := by decide
theorem zero_lt_two64 : 0 < two64 := by decide

theorem LabelX.apply_ranged (m : LabelX) (f : Field) (m' : LabelX) (_hf : f.u64 < two64) (hm : m.Ranged)
    (h : LabelX.apply m f = .ok m') : m'.Ranged := by
  unfold LabelX.apply at h
  unfold LabelX.Ranged at *
  split at h
  · obtain ⟨x, h1, h⟩ := Outcome.bind_eq_ok.mp h; simp only [pure, Outcome.ok.injEq] at h; subst h; exact hm
  · obtain ⟨x, h1, h⟩ := Outcome.bind_eq_ok.mp h; simp only [pure, Outcome.ok.injEq] at h; subst h; exact hm
  · obtain ⟨x, h1, h⟩ := Outcome.bind_eq_ok.mp h; simp only [pure, Outcome.ok.injEq] at h; subst h
    exact decodeInt64_range h1
  · obtain ⟨x, h1, h⟩ := Outcome.bind_eq_ok.mp h; simp only [pure, Outcome.ok.injEq] at h; subst h; exact hm
  · simp only [pure, Outcome.ok.injEq] at h; subst h; exact hm

theorem LabelX.zero_ranged : ({} : LabelX).Ranged := InI64_0

theorem SampleX.apply_ranged (m : SampleX) (f : Field) (m' : SampleX) (hf : f.u64 < two64) (hm : m.Ranged)
    (h : SampleX.apply m f = .ok m') : m'.Ranged := by
  unfold SampleX.apply at h
  obtain ⟨a, b, c⟩ := hm
  split at h
  · obtain ⟨x, h1, h⟩ := Outcome.bind_eq_ok.mp h; simp only [pure, Outcome.ok.injEq] at h; subst h
    exact ⟨decodeUint64s_range hf a h1, b, c⟩
  · obtain ⟨x, h1, h⟩ := Outcome.bind_eq_ok.mp h; simp only [pure, Outcome.ok.injEq] at h; subst h
    exact ⟨a, decodeInt64s_range b h1, c⟩
  · obtain ⟨x, h1, h⟩ := Outcome.bind_eq_ok.mp h; simp only [pure, Outcome.ok.injEq] at h; subst h
    refine ⟨a, b, ?_⟩
    intro l hl
    rcases List.mem_append.mp hl with hl | hl
    · exact c l hl
    · simp only [List.mem_singleton] at hl; subst hl
      exact decodeMessage_inv LabelX.apply LabelX.Ranged LabelX.apply_ranged {} LabelX.zero_ranged f _ h1
  · simp only [pure, Outcome.ok.injEq] at h; subst h; exact ⟨a, b, c⟩

theorem SampleX.zero_ranged : ({} : SampleX).Ranged := ⟨by simp, by simp, by simp⟩

theorem MappingX.apply_ranged (m : MappingX) (f : Field) (m' : MappingX) (hf : f.u64 < two64) (hm : m.Ranged)
    (h : MappingX.apply m f = .ok m') : m'.Ranged := by
  unfold MappingX.apply at h
  obtain ⟨a, b, c, d⟩ := hm
  split at h
  · obtain ⟨x, h1, h⟩ := Outcome.bind_eq_ok.mp h; simp only [pure, Outcome.ok.injEq] at h; subst h
    exact ⟨decodeUint64_range hf h1, b, c, d⟩
  · obtain ⟨x, h1, h⟩ := Outcome.bind_eq_ok.mp h; simp only [pure, Outcome.ok.injEq] at h; subst h
    exact ⟨a, decodeUint64_range hf h1, c, d⟩
  · obtain ⟨x, h1, h⟩ := Outcome.bind_eq_ok.mp h; simp only [pure, Outcome.ok.injEq] at h; subst h
    exact ⟨a, b, decodeUint64_range hf h1, d⟩
  · obtain ⟨x, h1, h⟩ := Outcome.bind_eq_ok.mp h; simp only [pure, Outcome.ok.injEq] at h; subst h
    exact ⟨a, b, c, decodeUint64_range hf h1⟩
  all_goals first
    | (obtain ⟨x, h1, h⟩ := Outcome.bind_eq_ok.mp h; simp only [pure, Outcome.ok.injEq] at h; subst h; exact ⟨a, b, c, d⟩)
    | (simp only [pure, Outcome.ok.injEq] at h; subst h; exact ⟨a, b, c, d⟩)

theorem MappingX.zero_ranged : ({} : MappingX).Ranged := ⟨zero_lt_two64, zero_lt_two64, zero_lt_two64, zero_lt_two64⟩

theorem LineX.apply_ranged (m : LineX) (f : Field) (m' : LineX) (hf : f.u64 < two64) (hm : m.Ranged)
    (h : LineX.apply m f = .ok m') : m'.Ranged := by
  unfold LineX.apply at h
  obtain ⟨a, b, c⟩ := hm
  split at h
  · obtain ⟨x, h1, h⟩ := Outcome.bind_eq_ok.mp h; simp only [pure, Outcome.ok.injEq] at h; subst h
    exact ⟨decodeUint64_range hf h1, b, c⟩
  · obtain ⟨x, h1, h⟩ := Outcome.bind_eq_ok.mp h; simp only [pure, Outcome.ok.injEq] at h; subst h
    exact ⟨a, decodeInt64_range h1, c⟩
  · obtain ⟨x, h1, h⟩ := Outcome.bind_eq_ok.mp h; simp only [pure, Outcome.ok.injEq] at h; subst h
    exact ⟨a, b, decodeInt64_range h1⟩
  · simp only [pure, Outcome.ok.injEq] at h; subst h; exact ⟨a, b, c⟩

theorem LineX.zero_ranged : ({} : LineX).Ranged := ⟨zero_lt_two64, InI64_0, InI64_0⟩

theorem LocationX.apply_ranged (m : LocationX) (f : Field) (m' : LocationX) (hf : f.u64 < two64) (hm : m.Ranged)
    (h : LocationX.apply m f = .ok m') : m'.Ranged := by
  unfold LocationX.apply at h
  obtain ⟨a, b, c, d⟩ := hm
  split at h
  · obtain ⟨x, h1, h⟩ := Outcome.bind_eq_ok.mp h; simp only [pure, Outcome.ok.injEq] at h; subst h
    exact ⟨decodeUint64_range hf h1, b, c, d⟩
  · obtain ⟨x, h1, h⟩ := Outcome.bind_eq_ok.mp h; simp only [pure, Outcome.ok.injEq] at h; subst h
    exact ⟨a, decodeUint64_range hf h1, c, d⟩
  · obtain ⟨x, h1, h⟩ := Outcome.bind_eq_ok.mp h; simp only [pure, Outcome.ok.injEq] at h; subst h
    exact ⟨a, b, decodeUint64_range hf h1, d⟩
  · obtain ⟨x, h1, h⟩ := Outcome.bind_eq_ok.mp h; simp only [pure, Outcome.ok.injEq] at h; subst h
    refine ⟨a, b, c, ?_⟩
    intro l hl
    rcases List.mem_append.mp hl with hl | hl
    · exact d l hl
    · simp only [List.mem_singleton] at hl; subst hl
      exact decodeMessage_inv LineX.apply LineX.Ranged LineX.apply_ranged {} LineX.zero_ranged f _ h1
  · obtain ⟨x, h1, h⟩ := Outcome.bind_eq_ok.mp h; simp only [pure, Outcome.ok.injEq] at h; subst h
    exact ⟨a, b, c, d⟩
  · simp only [pure, Outcome.ok.injEq] at h; subst h; exact ⟨a, b, c, d⟩

theorem LocationX.zero_ranged : ({} : LocationX).Ranged := ⟨zero_lt_two64, zero_lt_two64, zero_lt_two64, by simp⟩

theorem FunctionX.apply_ranged (m : FunctionX) (f : Field) (m' : FunctionX) (hf : f.u64 < two64) (hm : m.Ranged)
    (h : FunctionX.apply m f = .ok m') : m'.Ranged := by
  unfold FunctionX.apply at h
  obtain ⟨a, b⟩ := hm
  split at h
  · obtain ⟨x, h1, h⟩ := Outcome.bind_eq_ok.mp h; simp only [pure, Outcome.ok.injEq] at h; subst h
    exact ⟨decodeUint64_range hf h1, b⟩
  · obtain ⟨x, h1, h⟩ := Outcome.bind_eq_ok.mp h; simp only [pure, Outcome.ok.injEq] at h; subst h; exact ⟨a, b⟩
  · obtain ⟨x, h1, h⟩ := Outcome.bind_eq_ok.mp h; simp only [pure, Outcome.ok.injEq] at h; subst h; exact ⟨a, b⟩
  · obtain ⟨x, h1, h⟩ := Outcome.bind_eq_ok.mp h; simp only [pure, Outcome.ok.injEq] at h; subst h; exact ⟨a, b⟩
  · obtain ⟨x, h1, h⟩ := Outcome.bind_eq_ok.mp h; simp only [pure, Outcome.ok.injEq] at h; subst h
    exact ⟨a, decodeInt64_range h1⟩
  · simp only [pure, Outcome.ok.injEq] at h; subst h; exact ⟨a, b⟩

theorem FunctionX.zero_ranged : ({} : FunctionX).Ranged := ⟨zero_lt_two64, InI64_0⟩

theorem mem_append_singleton {α} {P : α → Prop} {l : List α} {a : α} (hl : ∀ x ∈ l, P x) (ha : P a) :
    ∀ x ∈ l ++ [a], P x := by
  intro x hx
  rcases List.mem_append.mp hx with hx | hx
  · exact hl x hx
  · simp only [List.mem_singleton] at hx; subst hx; exact ha

theorem ProfileX.apply_ranged (m : ProfileX) (f : Field) (m' : ProfileX) (_hf : f.u64 < two64) (hm : m.Ranged)
    (h : ProfileX.apply m f = .ok m') : m'.Ranged := by
  unfold ProfileX.apply at h
  obtain ⟨a, b, c, d, e, g, k⟩ := hm
  split at h
  · obtain ⟨x, h1, h⟩ := Outcome.bind_eq_ok.mp h; simp only [pure, Outcome.ok.injEq] at h; subst h
    exact ⟨a, b, c, d, e, g, k⟩
  · obtain ⟨x, h1, h⟩ := Outcome.bind_eq_ok.mp h; simp only [pure, Outcome.ok.injEq] at h; subst h
    exact ⟨a, b, c, mem_append_singleton d
      (decodeMessage_inv SampleX.apply SampleX.Ranged SampleX.apply_ranged {} SampleX.zero_ranged f _ h1), e, g, k⟩
  · obtain ⟨x, h1, h⟩ := Outcome.bind_eq_ok.mp h; simp only [pure, Outcome.ok.injEq] at h; subst h
    exact ⟨a, b, c, d, mem_append_singleton e
      (decodeMessage_inv MappingX.apply MappingX.Ranged MappingX.apply_ranged {} MappingX.zero_ranged f _ h1), g, k⟩
  · obtain ⟨x, h1, h⟩ := Outcome.bind_eq_ok.mp h; simp only [pure, Outcome.ok.injEq] at h; subst h
    exact ⟨a, b, c, d, e, mem_append_singleton g
      (decodeMessage_inv LocationX.apply LocationX.Ranged LocationX.apply_ranged {} LocationX.zero_ranged f _ h1), k⟩
  · obtain ⟨x, h1, h⟩ := Outcome.bind_eq_ok.mp h; simp only [pure, Outcome.ok.injEq] at h; subst h
    exact ⟨a, b, c, d, e, g, mem_append_singleton k
      (decodeMessage_inv FunctionX.apply FunctionX.Ranged FunctionX.apply_ranged {} FunctionX.zero_ranged f _ h1)⟩
  · -- string table
    obtain ⟨s, h1, h⟩ := Outcome.bind_eq_ok.mp h
    simp only at h
    split at h
    · cases h
    · split at h
      · cases h
      · simp only [pure, Outcome.ok.injEq] at h; subst h; exact ⟨a, b, c, d, e, g, k⟩
  · obtain ⟨x, h1, h⟩ := Outcome.bind_eq_ok.mp h; simp only [pure, Outcome.ok.injEq] at h; subst h
    exact ⟨a, b, c, d, e, g, k⟩
  · obtain ⟨x, h1, h⟩ := Outcome.bind_eq_ok.mp h; simp only [pure, Outcome.ok.injEq] at h; subst h
    exact ⟨a, b, c, d, e, g, k⟩
  · split at h
    · cases h
    · obtain ⟨x, h1, h⟩ := Outcome.bind_eq_ok.mp h; simp only [pure, Outcome.ok.injEq] at h; subst h
      exact ⟨decodeInt64_range h1, b, c, d, e, g, k⟩
  · obtain ⟨x, h1, h⟩ := Outcome.bind_eq_ok.mp h; simp only [pure, Outcome.ok.injEq] at h; subst h
    exact ⟨a, decodeInt64_range h1, c, d, e, g, k⟩
  · obtain ⟨x, h1, h⟩ := Outcome.bind_eq_ok.mp h; simp only [pure, Outcome.ok.injEq] at h; subst h
    exact ⟨a, b, c, d, e, g, k⟩
  · obtain ⟨x, h1, h⟩ := Outcome.bind_eq_ok.mp h; simp only [pure, Outcome.ok.injEq] at h; subst h
    exact ⟨a, b, decodeInt64_range h1, d, e, g, k⟩
  · obtain ⟨x, h1, h⟩ := Outcome.bind_eq_ok.mp h; simp only [pure, Outcome.ok.injEq] at h; subst h
    exact ⟨a, b, c, d, e, g, k⟩
  · obtain ⟨x, h1, h⟩ := Outcome.bind_eq_ok.mp h; simp only [pure, Outcome.ok.injEq] at h; subst h
    exact ⟨a, b, c, d, e, g, k⟩
  · obtain ⟨x, h1, h⟩ := Outcome.bind_eq_ok.mp h; simp only [pure, Outcome.ok.injEq] at h; subst h
    exact ⟨a, b, c, d, e, g, k⟩
  · simp only [pure, Outcome.ok.injEq] at h; subst h; exact ⟨a, b, c, d, e, g, k⟩

theorem ProfileX.zero_ranged : ({} : ProfileX).Ranged :=
  ⟨InI64_0, InI64_0, InI64_0, by simp, by simp, by simp, by simp⟩

/-- every integer of a message returned by `unmarshal` fits its Go type -/
theorem unmarshal_ranged (b : Bytes) (x : ProfileX) (h : unmarshal b = .ok x) : x.Ranged :=
  decodeLoop_inv ProfileX.apply ProfileX.Ranged ProfileX.apply_ranged _ _ _ _ ProfileX.zero_ranged h

end Codec
end PV
