import PprofVerif.Lemmas.MergeIntern
import PprofVerif.Lemmas.MergeKeys
import PprofVerif.Lemmas.MergeResolve
/-!
The tables of `buildTables`: every entity met by the traversal has its key in its table, and
"same concrete key ⇔ same semantic identity" for functions, mappings, locations and samples
(DESIGN A.2, I1–I4) — the instantiation of the key scheme for the staged model.
-/
namespace PV.Merge
open PV.Spec
open PV.Wire (InI64)

/-! ### function and mapping keys are the identity tuples -/

theorem functionKey_eq_iff (f g : Function) : functionKey f = functionKey g ↔ funcIdent f = funcIdent g := by
  cases f; cases g; simp [functionKey, funcIdent]; tauto

theorem mappingKey_eq_iff (m m' : Mapping) : mappingKey m = mappingKey m' ↔ mapIdent m = mapIdent m' := by
  have hb : ∀ x : Mapping, (if x.buildID ≠ [] then x.buildID else if x.file ≠ [] then x.file else []) =
      (if x.buildID = [] then x.file else x.buildID) := by
    intro x; by_cases h1 : x.buildID = [] <;> by_cases h2 : x.file = [] <;> simp [h1, h2]
  simp only [mappingKey, mapIdent, MappingKey.mk.injEq, MapIdent.mk.injEq, hb]
  constructor
  · rintro ⟨h1, h2, h3⟩; exact ⟨h3, h1, h2⟩
  · rintro ⟨h1, h2, h3⟩; exact ⟨h2, h3, h1⟩

/-! ### generic: equality of mapped lists from a pointwise equivalence -/

theorem map_eq_map_iff {α β γ : Type} (f : α → β) (g : α → γ) :
    ∀ (as bs : List α), (∀ a ∈ as, ∀ b ∈ bs, (f a = f b ↔ g a = g b)) →
      (as.map f = bs.map f ↔ as.map g = bs.map g)
  | [], [], _ => by simp
  | [], _ :: _, _ => by simp
  | _ :: _, [], _ => by simp
  | a :: as, b :: bs, h => by
    have ih := map_eq_map_iff f g as bs (fun x hx y hy => h x (List.mem_cons_of_mem _ hx) y (List.mem_cons_of_mem _ hy))
    simp only [List.map_cons, List.cons.injEq]
    rw [h a (by simp) b (by simp), ih]

/-! ### membership of traversed entities in the tables -/

theorem mem_seenMappings_acc (srcs : List Src) : ∀ (acc : List Mapping) (m : Mapping),
    m ∈ acc → m ∈ seenMappings acc srcs := by
  induction srcs with
  | nil => intro acc m h; exact h
  | cons src rest ih =>
    intro acc m h
    simp only [seenMappings]
    apply ih
    apply List.mem_append_left
    split
    · exact List.mem_append_left _ h
    · exact h

theorem mem_seenMappings (srcs : List Src) : ∀ (acc : List Mapping) (src : Src) (s : RSample) (l : RLocation)
    (m : Mapping), src ∈ srcs → s ∈ processed src → l ∈ s.locs → l.mapping = some m →
    m ∈ seenMappings acc srcs := by
  induction srcs with
  | nil => intro acc src s l m h; cases h
  | cons src0 rest ih =>
    intro acc src s l m hsrc hs hl hm
    simp only [seenMappings]
    rcases List.mem_cons.mp hsrc with rfl | hrest
    · apply mem_seenMappings_acc
      apply List.mem_append_right
      rw [List.mem_filterMap]
      exact ⟨l, List.mem_flatMap.mpr ⟨s, hs, hl⟩, hm⟩
    · exact ih _ src s l m hrest hs hl hm

theorem mem_allLocs {srcs : List Src} {l : RLocation} :
    l ∈ allLocs srcs ↔ ∃ src ∈ srcs, ∃ s ∈ processed src, l ∈ s.locs := by
  simp only [allLocs, allSamples, List.mem_flatMap]
  constructor
  · rintro ⟨s, ⟨src, hsrc, hs⟩, hl⟩; exact ⟨src, hsrc, s, hs, hl⟩
  · rintro ⟨src, hsrc, s, hs, hl⟩; exact ⟨s, ⟨src, hsrc, hs⟩, hl⟩

/-- all entities of a location have their keys in the function and mapping tables. -/
def LocIn (ftab : List Function) (mtab : List Mapping) (l : RLocation) : Prop :=
  (∀ m, l.mapping = some m → mappingKey m ∈ mtab.map mappingKey) ∧
  (∀ ln ∈ l.lines, ∀ f, ln.fn = some f → functionKey f ∈ ftab.map functionKey)

theorem locIn_of_mem_allLocs (srcs : List Src) {l : RLocation} (hl : l ∈ allLocs srcs) :
    LocIn (buildTables srcs).ftab (buildTables srcs).mtab l := by
  constructor
  · intro m hm
    obtain ⟨src, hsrc, s, hs, hls⟩ := mem_allLocs.mp hl
    have := mem_seenMappings srcs [] src s l m hsrc hs hls hm
    simp only [buildTables]
    exact (mem_internBy_keys mappingKey _ _).mpr (List.mem_map_of_mem this)
  · intro ln hln f hf
    have : f ∈ allFuncs srcs := by
      simp only [allFuncs, List.mem_flatMap]
      exact ⟨l, hl, by simp only [funcsOfLoc, List.mem_filterMap]; exact ⟨ln, hln, hf⟩⟩
    simp only [buildTables]
    exact (mem_internBy_keys functionKey _ _).mpr (List.mem_map_of_mem this)

theorem locKey_mem_ltab (srcs : List Src) {l : RLocation} (hl : l ∈ allLocs srcs) :
    locKeyOf (buildTables srcs).ftab (buildTables srcs).mtab l ∈ (buildTables srcs).ltab.map Prod.fst := by
  simp only [buildTables]
  rw [mem_internBy_keys]
  rw [List.map_map]
  exact List.mem_map.mpr ⟨l, hl, rfl⟩

/-! ### locations: concrete key ⇔ frame identity -/

theorem subU64_rebase (a s' s : Nat) : subU64 (addU64 a (subU64 s' s)) s' = subU64 a s := by
  unfold subU64 addU64; omega

/-- id of an optional mapping in the merged profile (nil = 0). -/
def midOpt (mtab : List Mapping) : Option Mapping → Nat
  | none => 0
  | some m => idOf mappingKey mtab (mappingKey m)

/-- id of an optional function in the merged profile (nil = 0). -/
def fidOpt (ftab : List Function) : Option Function → Nat
  | none => 0
  | some f => idOf functionKey ftab (functionKey f)

theorem remapLine_eq (ftab : List Function) (ln : RLine) :
    remapLine ftab ln = { functionID := fidOpt ftab ln.fn, line := ln.line, column := ln.column } := by
  unfold remapLine fidOpt
  cases ln.fn <;> rfl

/-- the concrete location key in terms of the source location. -/
theorem locKeyOf_eq (ftab : List Function) (mtab : List Mapping) (l : RLocation) :
    locKeyOf ftab mtab l =
      { addr := (frameIdent l).relAddr,
        mappingID := midOpt mtab l.mapping,
        lines := linesKey (l.lines.map (remapLine ftab)),
        isFolded := l.isFolded } := by
  unfold locKeyOf remapLoc locationKey frameIdent midOpt
  cases hm : l.mapping with
  | none => simp
  | some m =>
    have hne : idOf mappingKey mtab (mappingKey m) ≠ 0 := by
      have := idOf_pos mappingKey mtab (mappingKey m); omega
    simp only [hne, if_false, subU64_rebase]

theorem fidOpt_eq_iff (ftab : List Function) (a b : Option Function)
    (ha : ∀ f, a = some f → functionKey f ∈ ftab.map functionKey) :
    fidOpt ftab a = fidOpt ftab b ↔ a.map funcIdent = b.map funcIdent := by
  cases a with
  | none =>
    cases b with
    | none => simp [fidOpt]
    | some g =>
      have := idOf_pos functionKey ftab (functionKey g)
      simp only [fidOpt, Option.map_none, Option.map_some]
      constructor
      · intro h; omega
      · intro h; cases h
  | some f =>
    cases b with
    | none =>
      have := idOf_pos functionKey ftab (functionKey f)
      simp only [fidOpt, Option.map_none, Option.map_some]
      constructor
      · intro h; omega
      · intro h; cases h
    | some g =>
      simp only [fidOpt, Option.map_some, Option.some.injEq]
      rw [← functionKey_eq_iff]
      constructor
      · intro h; exact idOf_inj functionKey ftab (ha f rfl) h
      · intro h; rw [h]

theorem remapLine_eq_iff (ftab : List Function) (a b : RLine)
    (ha : ∀ f, a.fn = some f → functionKey f ∈ ftab.map functionKey) :
    remapLine ftab a = remapLine ftab b ↔ lineIdent a = lineIdent b := by
  rw [remapLine_eq, remapLine_eq]
  unfold lineIdent
  simp only [Line.mk.injEq, LineIdent.mk.injEq]
  rw [fidOpt_eq_iff ftab a.fn b.fn ha]

theorem midOpt_eq_iff (mtab : List Mapping) (a b : Option Mapping)
    (ha : ∀ m, a = some m → mappingKey m ∈ mtab.map mappingKey) :
    midOpt mtab a = midOpt mtab b ↔ a.map mapIdent = b.map mapIdent := by
  cases a with
  | none =>
    cases b with
    | none => simp [midOpt]
    | some g =>
      have := idOf_pos mappingKey mtab (mappingKey g)
      simp only [midOpt, Option.map_none, Option.map_some]
      constructor
      · intro h; omega
      · intro h; cases h
  | some f =>
    cases b with
    | none =>
      have := idOf_pos mappingKey mtab (mappingKey f)
      simp only [midOpt, Option.map_none, Option.map_some]
      constructor
      · intro h; omega
      · intro h; cases h
    | some g =>
      simp only [midOpt, Option.map_some, Option.some.injEq]
      rw [← mappingKey_eq_iff]
      constructor
      · intro h; exact idOf_inj mappingKey mtab (ha f rfl) h
      · intro h; rw [h]

/-- **I3**: on locations whose entities are in the tables, same `Location.key` ⇔ same frame
identity (binary identity, mapping-relative address, inline chain, folded flag). -/
theorem locKeyOf_eq_iff (ftab : List Function) (mtab : List Mapping) (l1 l2 : RLocation)
    (h1 : LocIn ftab mtab l1) :
    locKeyOf ftab mtab l1 = locKeyOf ftab mtab l2 ↔ frameIdent l1 = frameIdent l2 := by
  rw [locKeyOf_eq, locKeyOf_eq]
  simp only [LocationKey.mk.injEq]
  have hlines : linesKey (l1.lines.map (remapLine ftab)) = linesKey (l2.lines.map (remapLine ftab)) ↔
      l1.lines.map lineIdent = l2.lines.map lineIdent := by
    constructor
    · intro h
      exact (map_eq_map_iff (remapLine ftab) lineIdent l1.lines l2.lines
        (fun a ha b _ => remapLine_eq_iff ftab a b (h1.2 a ha))).mp (linesKey_inj _ _ h)
    · intro h
      rw [(map_eq_map_iff (remapLine ftab) lineIdent l1.lines l2.lines
        (fun a ha b _ => remapLine_eq_iff ftab a b (h1.2 a ha))).mpr h]
  rw [hlines, midOpt_eq_iff mtab l1.mapping l2.mapping h1.1]
  constructor
  · rintro ⟨ha, hm, hl, hf⟩
    have e1 : frameIdent l1 = ⟨l1.mapping.map mapIdent, (frameIdent l1).relAddr, l1.lines.map lineIdent, l1.isFolded⟩ := rfl
    have e2 : frameIdent l2 = ⟨l2.mapping.map mapIdent, (frameIdent l2).relAddr, l2.lines.map lineIdent, l2.isFolded⟩ := rfl
    rw [e1, e2, ha, hm, hl, hf]
  · intro h
    have e1 : (frameIdent l1).mapping = l1.mapping.map mapIdent := rfl
    have e2 : (frameIdent l2).mapping = l2.mapping.map mapIdent := rfl
    have e3 : (frameIdent l1).lines = l1.lines.map lineIdent := rfl
    have e4 : (frameIdent l2).lines = l2.lines.map lineIdent := rfl
    have e5 : (frameIdent l1).folded = l1.isFolded := rfl
    have e6 : (frameIdent l2).folded = l2.isFolded := rfl
    exact ⟨by rw [h], by rw [← e1, ← e2, h], by rw [← e3, ← e4, h], by rw [← e5, ← e6, h]⟩

/-! ### samples: concrete key ⇔ stack key -/

theorem lookup_map_units (g : Str → List Str) : ∀ (nl : List (Str × List Int)) (k : Str),
    k ∈ nl.map (·.1) → unitsOf (nl.map fun kv => (kv.1, g kv.1)) k = g k
  | [], _, h => by cases h
  | kv :: nl, k, h => by
    unfold unitsOf
    simp only [List.map_cons, List.lookup_cons]
    by_cases hk : k = kv.1
    · subst hk; simp
    · have hne : (k == kv.1) = false := by simpa using hk
      rw [hne]
      have hm : k ∈ nl.map (·.1) := by
        rcases List.mem_cons.mp h with h' | h'
        · exact absurd h' hk
        · exact h'
      have := lookup_map_units g nl k hm
      unfold unitsOf at this
      exact this

/-- the units `mapSample` copies are the units the key was computed from. -/
theorem labelsWithUnits_remap (nl : List (Str × List Int)) (nu : List (Str × List Str)) :
    labelsWithUnits nl (nl.map fun kv => (kv.1, unitsOf nu kv.1)) = labelsWithUnits nl nu := by
  unfold labelsWithUnits
  apply List.map_congr_left
  intro kv hkv
  rw [lookup_map_units (unitsOf nu) nl kv.1 (List.mem_map_of_mem hkv)]

theorem labelsWithUnits_eq_numLabelIdent (s : RSample) :
    labelsWithUnits s.numLabel s.numUnit = numLabelIdent s := rfl

theorem sampleKey_congr (a b : Sample) (h1 : a.locationIDs = b.locationIDs) (h2 : a.label = b.label)
    (h3 : labelsWithUnits a.numLabel a.numUnit = labelsWithUnits b.numLabel b.numUnit) :
    sampleKey a = sampleKey b := by
  unfold sampleKey
  rw [← labelsWithUnits_length a.numLabel a.numUnit, ← labelsWithUnits_length b.numLabel b.numUnit, h1, h2, h3]

/-- the shape of a remapped sample, as `sampleKey` sees it. -/
theorem remapSample_shape (lid : RLocation → Nat) (s : RSample) :
    (remapSample lid s).locationIDs = s.locs.map lid ∧ (remapSample lid s).label = s.label ∧
    labelsWithUnits (remapSample lid s).numLabel (remapSample lid s).numUnit = numLabelIdent s ∧
    (remapSample lid s).values = s.values := by
  refine ⟨rfl, rfl, ?_, rfl⟩
  simp only [remapSample]
  rw [labelsWithUnits_remap]; rfl

/-- **I4**: on samples whose locations are in the tables, same `sampleKey` ⇔ same stack key. -/
theorem sampleKey_eq_iff (ftab : List Function) (mtab : List Mapping) (ltab : List (LocationKey × Location))
    (s1 s2 : RSample)
    (h1 : ∀ l ∈ s1.locs, LocIn ftab mtab l ∧ locKeyOf ftab mtab l ∈ ltab.map Prod.fst)
    (hn1 : ∀ kv ∈ s1.numLabel, ∀ v ∈ kv.2, InI64 v) (hn2 : ∀ kv ∈ s2.numLabel, ∀ v ∈ kv.2, InI64 v) :
    let lid := fun l => idOf Prod.fst ltab (locKeyOf ftab mtab l)
    sampleKey (remapSample lid s1) = sampleKey (remapSample lid s2) ↔ stackKey s1 = stackKey s2 := by
  intro lid
  have hlocs : s1.locs.map lid = s2.locs.map lid ↔ s1.locs.map frameIdent = s2.locs.map frameIdent := by
    apply map_eq_map_iff
    intro a ha b _
    rw [← locKeyOf_eq_iff ftab mtab a b (h1 a ha).1]
    constructor
    · intro h; exact idOf_inj Prod.fst ltab (h1 a ha).2 h
    · intro h; simp only [lid, h]
  obtain ⟨a1, a2, a3, _⟩ := remapSample_shape lid s1
  obtain ⟨b1, b2, b3, _⟩ := remapSample_shape lid s2
  constructor
  · intro h
    have hid : ∀ (s : RSample), ∀ id ∈ (remapSample lid s).locationIDs, id ≠ 0 := by
      intro s id hid
      rw [(remapSample_shape lid s).1] at hid
      obtain ⟨l, _, rfl⟩ := List.mem_map.mp hid
      have := idOf_pos Prod.fst ltab (locKeyOf ftab mtab l)
      simp only [lid]; omega
    obtain ⟨e1, e2, e3⟩ := sampleKey_inj _ _ (hid s1) (hid s2) hn1 hn2 h
    rw [a1, b1] at e1
    rw [a2, b2] at e2
    rw [a3, b3] at e3
    unfold stackKey
    rw [hlocs.mp e1, e2, e3]
  · intro h
    unfold stackKey at h
    simp only [StackKey.mk.injEq] at h
    apply sampleKey_congr
    · rw [a1, b1]; exact hlocs.mpr h.1
    · rw [a2, b2]; exact h.2.1
    · rw [a3, b3]; exact h.2.2

end PV.Merge
