import PprofVerif.Spec.Stacks
/-! C17 helper lemmas, part D: `fillPlaces` — the fold with a seen set is the indicator of the
first occurrence (DESIGN A.3). -/
namespace PV.Stacks
open PV

/-- append place entries to a source whose place list is (and stays) non-nil. -/
def addP (s : Source) (ex : List (Nat × Nat)) : Source :=
  { s with places := ⟨true, s.places.elems ++ ex⟩ }

theorem addP_nil (s : Source) (h : s.places.nonnil = true) : addP s [] = s := by
  cases s with
  | mk a b c d pl e =>
    cases pl with
    | mk nn el => simp_all [addP]

theorem addP_addP (s : Source) (a b : List (Nat × Nat)) : addP (addP s a) b = addP s (a ++ b) := by
  simp [addP, List.append_assoc]

/-- what the inner loop of `fillPlaces` (stack number `a`, starting at position `j` with seen set
`seen`) appends to source `i`. -/
def stackExtra (a j : Nat) (seen : List Nat) (l : List Nat) (i : Nat) : List (Nat × Nat) :=
  if i ∈ seen then [] else
    match Spec.firstIdx i l with
    | some b => [(a, j + b)]
    | none => []

theorem mapIdx_addP_nil (S : List Source) (h : ∀ s ∈ S, s.places.nonnil = true) :
    S.mapIdx (fun _ s => addP s []) = S := by
  apply List.ext_getElem?
  intro i
  rw [List.getElem?_mapIdx]
  cases hs : S[i]? with
  | none => rfl
  | some s => simp [addP_nil s (h s (List.mem_of_getElem? hs))]

theorem fillStack_spec (a : Nat) (l : List Nat) : ∀ (j : Nat) (seen : List Nat) (nn : Bool) (S : List Source),
    (∀ i ∈ l, i < S.length) → (∀ s ∈ S, s.places.nonnil = true) →
    fillStack a l j seen ⟨nn, S⟩ = .ok ⟨nn, S.mapIdx (fun i s => addP s (stackExtra a j seen l i))⟩ := by
  induction l with
  | nil =>
    intro j seen nn S _ hS
    have : (fun (i : Nat) (s : Source) => addP s (stackExtra a j seen [] i)) = fun _ s => addP s [] := by
      funext i s; simp [stackExtra, Spec.firstIdx]
    simp [fillStack, this, mapIdx_addP_nil S hS]
  | cons src rest ih =>
    intro j seen nn S hr hS
    have hsrc : src < S.length := hr src (by simp)
    have hrest : ∀ i ∈ rest, i < S.length := fun i hi => hr i (by simp [hi])
    by_cases hseen : src ∈ seen
    · have hc : seen.contains src = true := by simpa using hseen
      simp only [fillStack, hc, if_true]
      rw [ih (j+1) seen nn S hrest hS]
      have hfun : (fun (i : Nat) (s : Source) => addP s (stackExtra a (j+1) seen rest i))
          = (fun i s => addP s (stackExtra a j seen (src :: rest) i)) := by
        funext i s
        congr 1
        simp only [stackExtra]
        by_cases hi : i ∈ seen
        · simp [hi]
        · have hne : src ≠ i := fun e => hi (e ▸ hseen)
          simp only [hi, if_false, Spec.firstIdx, hne]
          cases Spec.firstIdx i rest with
          | none => rfl
          | some b => simp; omega
      rw [hfun]
    · have hc : seen.contains src = false := by simpa using hseen
      simp only [fillStack, hc, Bool.false_eq_true, if_false, Slice.upd, if_pos hsrc, bind, Outcome.bind]
      have hS1 : ∀ s ∈ S.modify src (fun s => { s with places := s.places.push (a, j) }),
          s.places.nonnil = true := by
        intro s hs
        obtain ⟨k, hk⟩ := List.mem_iff_getElem?.1 hs
        simp only [List.getElem?_modify, Option.map_eq_map, Option.map_eq_some_iff] at hk
        obtain ⟨s0, hs0, rfl⟩ := hk
        by_cases e : src = k
        · simp [e, Slice.push]
        · simp [e, hS s0 (List.mem_of_getElem? hs0)]
      rw [ih (j+1) (src :: seen) nn _ (by simpa [List.length_modify] using hrest) hS1]
      congr 2
      apply List.ext_getElem?
      intro i
      simp only [List.getElem?_mapIdx, List.getElem?_modify, Option.map_eq_map, Option.map_map]
      cases hs : S[i]? with
      | none => rfl
      | some s =>
        simp only [Option.map_some, Function.comp, Option.some.injEq]
        by_cases e : src = i
        · subst e
          simp [stackExtra, hseen, Spec.firstIdx, addP, Slice.push]
        · have e' : ¬ i = src := fun h => e h.symm
          simp only [if_neg e, stackExtra, List.mem_cons, e', false_or, Spec.firstIdx]
          by_cases hi : i ∈ seen
          · simp [hi]
          · simp only [hi, if_false]
            cases Spec.firstIdx i rest with
            | none => rfl
            | some b =>
              simp only [Option.map_some]
              have : j + 1 + b = j + (b + 1) := by omega
              simp [this]

theorem fillPlaces_spec (stacks : List Stack) : ∀ (a : Nat) (nn : Bool) (S : List Source),
    (∀ st ∈ stacks, ∀ i ∈ st.sources.elems, i < S.length) → (∀ s ∈ S, s.places.nonnil = true) →
    fillPlaces stacks a ⟨nn, S⟩ = .ok ⟨nn, S.mapIdx (fun i s =>
      addP s (Spec.placesFrom i a (stacks.map (·.sources.elems))))⟩ := by
  induction stacks with
  | nil =>
    intro a nn S _ hS
    simp [fillPlaces, Spec.placesFrom, mapIdx_addP_nil S hS]
  | cons st rest ih =>
    intro a nn S hr hS
    have h1 := fillStack_spec a st.sources.elems 0 [] nn S (hr st (by simp)) hS
    simp only [fillPlaces, h1, bind, Outcome.bind]
    have hS1 : ∀ s ∈ S.mapIdx (fun i s => addP s (stackExtra a 0 [] st.sources.elems i)),
        s.places.nonnil = true := by
      intro s hs
      obtain ⟨k, hk⟩ := List.mem_iff_getElem?.1 hs
      simp only [List.getElem?_mapIdx, Option.map_eq_some_iff] at hk
      obtain ⟨s0, _, rfl⟩ := hk
      rfl
    rw [ih (a+1) nn _ (by
      intro st' hst' i hi
      simpa [List.length_mapIdx] using hr st' (by simp [hst']) i hi) hS1]
    congr 2
    apply List.ext_getElem?
    intro i
    simp only [List.getElem?_mapIdx, Option.map_map]
    cases hs : S[i]? with
    | none => rfl
    | some s =>
      simp only [Option.map_some, Function.comp, Option.some.injEq, addP_addP, List.map_cons,
        Spec.placesFrom, stackExtra, List.not_mem_nil, if_false]
      cases Spec.firstIdx i st.sources.elems with
      | none => simp
      | some b => simp

end PV.Stacks
