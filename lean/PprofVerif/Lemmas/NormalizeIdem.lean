import PprofVerif.Lemmas.LabelsRoundtrip
/-!
# `normalize` is idempotent (property C01)

`Sample.normalize (Sample.normalize s) = Sample.normalize s` whenever the NumLabel keys of `s`
are distinct (true for every real Go map; `mapsSorted` implies it), hence the same for
`Profile.normalize`; `validB` does not look at labels, so it is unchanged by `normalize`.
Without distinct keys idempotence FAILS on the model (`normalize_not_idem_dupKey`): `lookup`
finds the units of the first entry with that key.  Core Lean only.
-/
namespace PV
namespace Codec

/-! ### `Sample.normalize` is idempotent (on samples whose NumLabel keys are distinct) -/

theorem filter_idem {α} (p : α → Bool) (l : List α) : (l.filter p).filter p = l.filter p := by
  rw [List.filter_filter]; simp

theorem flatMap_optKV_flatMap {γ β δ} (f : Str × γ → List β) (G : Str → List β → List δ) (hG : ∀ k, G k [] = []) :
    ∀ (l : List (Str × γ)), (l.flatMap (fun e => optKV e.1 (f e))).flatMap (fun e => G e.1 e.2) =
      l.flatMap (fun e => G e.1 (f e))
  | [] => rfl
  | e :: l => by
    rw [List.flatMap_cons, List.flatMap_append, List.flatMap_cons, flatMap_optKV_flatMap f G hG l]
    congr 1
    cases hfe : f e with
    | nil => simp [optKV, hG]
    | cons a r => simp [optKV]

theorem flatMap_congr_mem {α β} (f g : α → List β) : ∀ (l : List α), (∀ e ∈ l, f e = g e) → l.flatMap f = l.flatMap g
  | [], _ => rfl
  | a :: l, h => by
    rw [List.flatMap_cons, List.flatMap_cons, h a (by simp),
      flatMap_congr_mem f g l (fun e he => h e (List.mem_cons_of_mem _ he))]

theorem normLabel_idem (l : List (Str × List Str)) : normLabel (normLabel l) = normLabel l := by
  unfold normLabel
  rw [flatMap_optKV_flatMap (fun e : Str × List Str => e.2.filter (· ≠ []))
    (fun k c => optKV k (c.filter (· ≠ []))) (fun _ => rfl) l]
  simp only [filter_idem]

theorem zip_map_fst_snd {α β} : ∀ (l : List (α × β)), (l.map (·.1)).zip (l.map (·.2)) = l
  | [] => rfl
  | a :: l => by simp [zip_map_fst_snd l]

theorem lookup_flatMap_cond {γ β} (c : Str × γ → Bool) (f : Str × γ → β) :
    ∀ (l : List (Str × γ)), (keys l).Nodup → ∀ e ∈ l,
      (l.flatMap (fun e => if c e then [(e.1, f e)] else [])).lookup e.1 = if c e then some (f e) else none
  | [], _, e, he => by cases he
  | a :: r, hnd, e, he => by
    simp only [keys, List.map_cons, List.nodup_cons] at hnd
    rw [List.flatMap_cons, List.lookup_append]
    rcases List.mem_cons.mp he with rfl | her
    · by_cases hc : c e = true
      · simp [hc]
      · have hnone : (r.flatMap (fun e => if c e then [(e.1, f e)] else [])).lookup e.1 = none := by
          rw [List.lookup_eq_none_iff]
          intro p hp
          obtain ⟨e', he', hp'⟩ := List.mem_flatMap.mp hp
          split at hp'
          · simp at hp'; subst hp'
            simp only [bne_iff_ne, ne_eq]
            intro heq
            exact hnd.1 (heq ▸ List.mem_map.mpr ⟨e', he', rfl⟩)
          · cases hp'
        simp [hc, hnone]
    · have hne1 : e.1 ≠ a.1 := by
        intro heq; exact hnd.1 (heq ▸ List.mem_map.mpr ⟨e, her, rfl⟩)
      have : (if c a = true then [(a.1, f a)] else []).lookup e.1 = none := by
        have hb : (e.1 == a.1) = false := by simpa using hne1
        split
        · simp [List.lookup_cons, hb]
        · rfl
      rw [this, Option.none_or]
      exact lookup_flatMap_cond c f r hnd.2 e her

/-- the kept pairs of every key, keys without kept pairs dropped -/
def keptPairs (l : List (Str × List (Int × Str))) : List (Str × List (Int × Str)) :=
  l.flatMap (fun e => optKV e.1 (e.2.filter keepPair))

theorem normNum_keptPairs (l : List (Str × List (Int × Str))) : normNum (keptPairs l) = normNum l := by
  unfold normNum keptPairs
  rw [flatMap_optKV_flatMap (fun e : Str × List (Int × Str) => e.2.filter keepPair)
    (fun k c => optKV k ((c.filter keepPair).map (·.1))) (fun _ => rfl) l]
  simp only [filter_idem]

theorem normUnit_keptPairs (l : List (Str × List (Int × Str))) : normUnit (keptPairs l) = normUnit l := by
  unfold normUnit keptPairs
  rw [flatMap_optKV_flatMap (fun e : Str × List (Int × Str) => e.2.filter keepPair)
    (fun k c => if ((c.filter keepPair).map (·.2)).any (· ≠ []) then [(k, (c.filter keepPair).map (·.2))] else [])
    (fun _ => rfl) l]
  simp only [filter_idem]

/-- re-pairing the normalised values with the normalised units gives back the kept pairs -/
theorem zip_unitsFor_normUnit (l : List (Str × List (Int × Str))) (hnd : (keys l).Nodup) (e : Str × List (Int × Str))
    (he : e ∈ l) :
    ((e.2.filter keepPair).map (·.1)).zip (unitsFor (normUnit l) (e.1, (e.2.filter keepPair).map (·.1))) =
      e.2.filter keepPair := by
  have hlk := lookup_flatMap_cond (fun e : Str × List (Int × Str) => ((e.2.filter keepPair).map (·.2)).any (· ≠ []))
    (fun e => (e.2.filter keepPair).map (·.2)) l hnd e he
  unfold unitsFor
  unfold normUnit
  simp only [hlk]
  by_cases hany : ((e.2.filter keepPair).map (·.2)).any (· ≠ []) = true
  · have hne : ((e.2.filter keepPair).map (·.2)).isEmpty = false := by
      cases hc : (e.2.filter keepPair).map (·.2) with
      | nil => rw [hc] at hany; simp at hany
      | cons a r => rfl
    simp only [hany, if_true, Option.getD_some, hne, Bool.false_eq_true, if_false]
    exact zip_map_fst_snd _
  · simp only [hany, Bool.false_eq_true, if_false, Option.getD_none, List.isEmpty_nil, if_true, List.length_map]
    have hrep : (e.2.filter keepPair).map (·.2) = List.replicate (e.2.filter keepPair).length [] := by
      rw [List.eq_replicate_iff]
      refine ⟨by simp, ?_⟩
      intro b hb
      have := (dropTrailingEmpty_eq_nil_iff _).mp
        (Classical.byContradiction (fun hc => hany ((any_ne_nil_iff _).mpr hc))) b hb
      exact this
    rw [← hrep]
    exact zip_map_fst_snd _

theorem numPairs_normalize (s : Sample) (hnd : (keys s.numLabel).Nodup) :
    numPairs (Sample.normalize s) = keptPairs (numPairs s) := by
  have hnd' : (keys (numPairs s)).Nodup := by rw [keys_numPairs]; exact hnd
  have hN : (Sample.normalize s).numLabel = normNum (numPairs s) := by rw [normalize_eq]
  have hU : (Sample.normalize s).numUnit = normUnit (numPairs s) := by rw [normalize_eq]
  have h0 : numPairs (Sample.normalize s) =
      (normNum (numPairs s)).map (fun e => (e.1, e.2.zip (unitsFor (normUnit (numPairs s)) e))) := by
    unfold numPairs
    rw [hN, hU]
    rfl
  rw [h0]
  generalize numPairs s = L at hnd'
  unfold normNum keptPairs
  rw [List.map_flatMap]
  apply flatMap_congr_mem
  intro e he
  cases hF : e.2.filter keepPair with
  | nil => simp [optKV]
  | cons a r =>
    have := zip_unitsFor_normUnit L hnd' e he
    rw [hF] at this
    simp only [List.map_cons] at this
    simp only [List.map_cons, optKV, List.map_nil, this]

theorem Sample.normalize_idem (s : Sample) (hnd : (keys s.numLabel).Nodup) :
    Sample.normalize (Sample.normalize s) = Sample.normalize s := by
  rw [normalize_eq (Sample.normalize s), numPairs_normalize s hnd, normNum_keptPairs, normUnit_keptPairs]
  rw [normalize_eq s]
  simp only [normLabel_idem]


theorem Profile.normalize_idem_of_nodup (p : Profile) (h : ∀ s ∈ p.samples, (keys s.numLabel).Nodup) :
    Profile.normalize (Profile.normalize p) = Profile.normalize p := by
  unfold Profile.normalize
  simp only [List.map_map, Option.getD_some]
  congr 1
  apply List.map_congr_left
  intro s hs
  exact Sample.normalize_idem s (h s hs)

theorem validB_normalize (p : Profile) : (Profile.normalize p).validB = p.validB := by
  unfold Profile.validB Profile.normalize
  simp only [List.all_map, List.isEmpty_map]
  rfl

/-- the counter-example to unconditional idempotence: with a duplicated NumLabel key the unit
list found by `lookup` for the second entry changes after the first normalisation. -/
def dupKeySample : Sample :=
  ⟨[], [], [], [([97], [0, 5]), ([97], [7, 8])], [([97], [[], [117]])]⟩

theorem normalize_not_idem_dupKey :
    Sample.normalize (Sample.normalize dupKeySample) ≠ Sample.normalize dupKeySample := by decide

end Codec
end PV
