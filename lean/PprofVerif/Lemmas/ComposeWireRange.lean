import PprofVerif.Lemmas.CodecTotalPost
import PprofVerif.Lemmas.EncodeWF
/-!
# Composition helpers (C02 ← C01): what the wire decoder returns fits 64 bits

`decodeVarint`/`decodeField` only return scalars below 2^64, `toI64` only int64 values, and a
predicate preserved by every field application is an invariant of `decodeLoop`/`decodeMessage`.
-/
namespace PV
namespace Wire

theorem toI64_InI64 (n : Nat) : InI64 (toI64 n) := by
  unfold toI64 InI64
  have h : n % two64 < two64 := Nat.mod_lt _ (by decide)
  unfold two64 two63 at *
  split <;> omega

theorem decodeVarintGo_range : ∀ (data : Bytes) (i u x : Nat) (rest : Bytes),
    decodeVarintGo i u data = .ok (x, rest) → x < two64
  | [], i, u, x, rest, h => by simp [decodeVarintGo] at h
  | b :: tl, i, u, x, rest, h => by
    rw [decodeVarintGo] at h
    split at h
    · cases h
    · simp only at h
      split at h
      · cases h; exact Nat.mod_lt _ (by decide)
      · exact decodeVarintGo_range tl _ _ _ _ h

theorem decodeVarint_range {data : Bytes} {x : Nat} {rest : Bytes}
    (h : decodeVarint data = .ok (x, rest)) : x < two64 := decodeVarintGo_range data 0 0 x rest h

theorem le_lt : ∀ (bs : Bytes), le bs < 256 ^ bs.length
  | [] => by simp [le]
  | b :: bs => by
    have ih := le_lt bs
    have hb : b.toNat < 256 := b.toNat_lt
    simp only [le, List.foldr_cons, List.length_cons] at ih ⊢
    rw [Nat.pow_succ]
    omega

theorem le_take_lt (n : Nat) (hn : n ≤ 8) (bs : Bytes) : le (bs.take n) < two64 := by
  have h1 := le_lt (bs.take n)
  have h2 : (bs.take n).length ≤ 8 := by rw [List.length_take]; omega
  have h3 : 256 ^ (bs.take n).length ≤ 256 ^ 8 := Nat.pow_le_pow_right (by decide) h2
  have : (256 : Nat) ^ 8 = two64 := by decide
  omega

theorem decodeField_range {data : Bytes} {f : Field} {rest : Bytes}
    (h : decodeField data = .ok (f, rest)) : f.u64 < two64 := by
  unfold decodeField at h
  obtain ⟨⟨x, d⟩, h1, h⟩ := Outcome.bind_eq_ok.mp h
  simp only at h
  split at h
  · obtain ⟨⟨u, d2⟩, h2, h⟩ := Outcome.bind_eq_ok.mp h
    simp only [pure, Outcome.ok.injEq, Prod.mk.injEq] at h
    obtain ⟨rfl, _⟩ := h
    exact decodeVarint_range h2
  · split at h
    · cases h
    · simp only [pure, Outcome.ok.injEq, Prod.mk.injEq] at h
      obtain ⟨rfl, _⟩ := h
      exact le_take_lt 8 (by decide) _
  · obtain ⟨⟨n, d2⟩, h2, h⟩ := Outcome.bind_eq_ok.mp h
    simp only at h
    split at h
    · cases h
    · simp only [pure, Outcome.ok.injEq, Prod.mk.injEq] at h
      obtain ⟨rfl, _⟩ := h
      show 0 < two64; decide
  · split at h
    · cases h
    · simp only [pure, Outcome.ok.injEq, Prod.mk.injEq] at h
      obtain ⟨rfl, _⟩ := h
      exact le_take_lt 4 (by decide) _
  · cases h

/-- invariant rule for the message loop: a predicate preserved by every field application
(for fields whose scalar fits 64 bits — all fields `decodeField` returns) holds of the result -/
theorem decodeLoop_inv {M : Type} (apply : M → Field → Outcome M) (P : M → Prop)
    (hstep : ∀ m f m', f.u64 < two64 → P m → apply m f = .ok m' → P m') :
    ∀ (fuel : Nat) (m : M) (data : Bytes) (m' : M), P m → decodeLoop apply fuel m data = .ok m' → P m'
  | _, m, [], m', hp, h => by simp [decodeLoop] at h; subst h; exact hp
  | 0, m, _ :: _, m', hp, h => by simp [decodeLoop] at h
  | fuel + 1, m, b :: tl, m', hp, h => by
    rw [decodeLoop] at h
    cases h1 : decodeField (b :: tl) with
    | panic e => rw [h1] at h; cases h
    | err e => rw [h1] at h; cases h
    | ok p =>
      obtain ⟨f, rest⟩ := p
      rw [h1] at h
      simp only at h
      cases h2 : apply m f with
      | panic e => rw [h2] at h; cases h
      | err e => rw [h2] at h; cases h
      | ok m1 =>
        rw [h2] at h
        exact decodeLoop_inv apply P hstep fuel m1 rest m' (hstep m f m1 (decodeField_range h1) hp h2) h

theorem decodeMessage_inv {M : Type} (apply : M → Field → Outcome M) (P : M → Prop)
    (hstep : ∀ m f m', f.u64 < two64 → P m → apply m f = .ok m' → P m') (zero : M) (hz : P zero)
    (f : Field) (m' : M) (h : decodeMessage apply zero f = .ok m') : P m' := by
  unfold decodeMessage at h
  split at h
  · cases h
  · exact decodeLoop_inv apply P hstep _ _ _ _ hz h

theorem decodePacked_range : ∀ (fuel : Nat) (data : Bytes) (us : List Nat),
    decodePacked fuel data = .ok us → ∀ u ∈ us, u < two64
  | _, [], us, h => by simp [decodePacked] at h; subst h; simp
  | 0, _ :: _, us, h => by simp [decodePacked] at h
  | fuel + 1, b :: tl, us, h => by
    rw [decodePacked] at h
    obtain ⟨⟨u, rest⟩, h1, h⟩ := Outcome.bind_eq_ok.mp h
    obtain ⟨r, h2, h⟩ := Outcome.bind_eq_ok.mp h
    simp only [pure, Outcome.ok.injEq] at h
    subst h
    intro v hv
    rcases List.mem_cons.mp hv with rfl | hv
    · exact decodeVarint_range h1
    · exact decodePacked_range fuel rest r h2 v hv

end Wire
end PV
