import PprofVerif.Lemmas.Trim
namespace PV.Graph
open PV.GSpec
variable {κ : Type} [DecidableEq κ]

/-! ### node table keys are unique, so a listed row is the node's accumulator -/
def KeysNodup {α : Type} (t : List (κ × α)) : Prop := (t.map Prod.fst).Nodup

theorem mem_keys_tupd {α : Type} (t : List (κ × α)) (k k' : κ) (f : α → α) (d : α) :
    k' ∈ (tupd t k f d).map Prod.fst ↔ k' ∈ t.map Prod.fst ∨ k' = k := by
  induction t with
  | nil => simp [tupd]
  | cons hd tl ih =>
    obtain ⟨k0, v0⟩ := hd
    by_cases h0 : k0 = k
    · subst h0
      simp only [tupd, if_true, List.map_cons, List.mem_cons]
      constructor
      · rintro (h | h)
        · exact Or.inl (Or.inl h)
        · exact Or.inl (Or.inr h)
      · rintro ((h | h) | h)
        · exact Or.inl h
        · exact Or.inr h
        · exact Or.inl h
    · simp only [tupd, h0, if_false, List.map_cons, List.mem_cons, ih]
      constructor
      · rintro (h | h | h)
        · exact Or.inl (Or.inl h)
        · exact Or.inl (Or.inr h)
        · exact Or.inr h
      · rintro ((h | h) | h)
        · exact Or.inl h
        · exact Or.inr (Or.inl h)
        · exact Or.inr (Or.inr h)

theorem KeysNodup.tupd {α : Type} {t : List (κ × α)} (h : KeysNodup t) (k : κ) (f : α → α) (d : α) :
    KeysNodup (tupd t k f d) := by
  unfold KeysNodup at *
  induction t with
  | nil => simp [Graph.tupd]
  | cons hd tl ih =>
    obtain ⟨k0, v0⟩ := hd
    rw [List.map_cons, List.nodup_cons] at h
    by_cases h0 : k0 = k
    · subst h0
      simp only [Graph.tupd, if_true, List.map_cons, List.nodup_cons]
      exact h
    · simp only [Graph.tupd, h0, if_false, List.map_cons, List.nodup_cons]
      refine ⟨?_, ih h.2⟩
      rw [mem_keys_tupd]
      rintro (h1 | h1)
      · exact h.1 h1
      · exact h0 h1

theorem tget_of_mem {α : Type} (t : List (κ × α)) (h : KeysNodup t) (k : κ) (a d : α) (hm : (k, a) ∈ t) :
    tget t k d = a := by
  unfold KeysNodup at h
  induction t with
  | nil => simp at hm
  | cons hd tl ih =>
    obtain ⟨k0, v0⟩ := hd
    rw [List.map_cons, List.nodup_cons] at h
    rcases List.mem_cons.mp hm with heq | hm'
    · obtain ⟨rfl, rfl⟩ := Prod.mk.inj heq
      simp [tget]
    · have hne : k0 ≠ k := by
        rintro rfl
        exact h.1 (List.mem_map.mpr ⟨(k0, a), hm', rfl⟩)
      simp only [tget, hne, if_false]
      exact ih h.2 hm'

theorem thas_of_mem {α : Type} (t : List (κ × α)) (k : κ) (a : α) (hm : (k, a) ∈ t) : thas t k = true := by
  induction t with
  | nil => simp at hm
  | cons hd tl ih =>
    obtain ⟨k0, v0⟩ := hd
    rcases List.mem_cons.mp hm with heq | hm'
    · obtain ⟨rfl, rfl⟩ := Prod.mk.inj heq
      simp [thas]
    · by_cases h0 : k0 = k
      · simp [thas, h0]
      · simp only [thas, h0, if_false]; exact ih hm'

def NodesNodup (g : GState κ) : Prop := KeysNodup g.nodes

theorem stepFrame_nodesNodup (K : κ → Bool) (v : WD) (a : Inner κ) (f : κ) (h : NodesNodup a.g) :
    NodesNodup (stepFrame K v a f).g := by
  rw [stepFrame_eq]
  by_cases hk : K f = true
  · simp only [hk, if_true]
    show NodesNodup (link v (visit v a f) f).g
    have hv : NodesNodup (visit v a f).g := by
      unfold visit
      split
      · exact h
      · exact KeysNodup.tupd h _ _ _
    unfold link
    split
    · split
      · exact hv
      · exact hv
    · exact hv
  · simp only [hk]; exact h

theorem foldFrames_nodesNodup (K : κ → Bool) (v : WD) (fs : List κ) : ∀ (a : Inner κ), NodesNodup a.g →
    NodesNodup (fs.foldl (stepFrame K v) a).g := by
  induction fs with
  | nil => intro a h; exact h
  | cons f fs ih => intro a h; exact ih _ (stepFrame_nodesNodup K v a f h)

theorem sampleStep_nodesNodup (K : κ → Bool) (g : GState κ) (s : GSample κ) (h : NodesNodup g) :
    NodesNodup (sampleStep K g s) := by
  unfold sampleStep
  split
  · exact h
  · have hi := foldFrames_nodesNodup K s.wd s.frames ⟨g, [], [], none, false⟩ h
    generalize List.foldl (stepFrame K s.wd) ⟨g, [], [], none, false⟩ s.frames = r at hi
    show NodesNodup (match r.parent with
      | some p => if (!r.residual) = true then r.g.addFlat p s.wd else r.g
      | none => r.g)
    cases hp : r.parent with
    | none => exact hi
    | some p =>
      show NodesNodup (if (!r.residual) = true then r.g.addFlat p s.wd else r.g)
      split
      · exact KeysNodup.tupd hi _ _ _
      · exact hi

theorem newGraph_nodesNodup (K : κ → Bool) (ss : List (GSample κ)) : NodesNodup (newGraph K ss) := by
  unfold newGraph
  have : ∀ (g : GState κ), NodesNodup g → NodesNodup (ss.foldl (sampleStep K) g) := by
    induction ss with
    | nil => intro g h; exact h
    | cons s ss ih => intro g h; exact ih _ (sampleStep_nodesNodup K g s h)
  exact this _ (by simp [NodesNodup, KeysNodup, GState.empty])

/-- a listed row of the rebuilt graph: its key is kept and its accumulators are the Spec's sums -/
theorem shownNodes_spec (K : κ → Bool) (ss : List (GSample κ)) (n : κ) (a : NodeAcc)
    (h : (n, a) ∈ (newGraph K ss).shownNodes) :
    K n = true ∧ a.flat = flatSpec ss n ∧ a.cum = cumSpec ss n := by
  unfold GState.shownNodes at h
  have hm : (n, a) ∈ (newGraph K ss).nodes := (List.mem_filter.mp h).1
  have hk : K n = true := newGraph_nodes_kept K ss n (thas_of_mem _ n a hm)
  have hget := tget_of_mem _ (newGraph_nodesNodup K ss) n a NodeAcc.zero hm
  refine ⟨hk, ?_, ?_⟩
  · have := newGraph_flat K ss n
    unfold GState.flat at this
    rw [hget] at this
    rw [this, flatSpecK_of_kept K ss n hk]
  · have := newGraph_cum K ss n
    unfold GState.cum at this
    rw [hget] at this
    rw [this, cumSpecK_of_kept K ss n hk]
end PV.Graph

namespace PV.Trim
open PV.GSpec PV.Graph
variable {κ : Type} [DecidableEq κ]

theorem graphTotal_eq (K : κ → Bool) (ss : List (GSample κ)) :
    graphTotal (newGraph K ss) = ((newGraph K ss).shownNodes.map (fun p => (flatSpec ss p.1).value)).sum := by
  unfold graphTotal
  congr 1
  apply List.map_congr_left
  rintro ⟨n, a⟩ h
  simp only
  rw [(shownNodes_spec K ss n a h).2.1]
end PV.Trim
