import PprofVerif.Lemmas.DotLex
/-! C18 helper lemmas: the bytes of the document model lex into its tokens. -/
namespace PV.Dot

def attrToks : List Attr → List Tok
  | [] => []
  | a :: as => .id a.key :: .eq :: a.val.tok :: attrToks as

def Stmt.toks : Stmt → List Tok
  | .node i as => .id i :: .lbrack :: (attrToks as ++ [.rbrack])
  | .edge s d as => .id s :: .arrow :: .id d :: .lbrack :: (attrToks as ++ [.rbrack])

def stmtsToks : List Stmt → List Tok
  | [] => []
  | s :: ss => s.toks ++ stmtsToks ss

def bClusterL : Bytes := [0x63,0x6c,0x75,0x73,0x74,0x65,0x72,0x5f,0x4c]   -- cluster_L
def bStyle : Bytes := [0x73,0x74,0x79,0x6c,0x65]
def bFilled : Bytes := [0x66,0x69,0x6c,0x6c,0x65,0x64]
def bFillcolor : Bytes := [0x66,0x69,0x6c,0x6c,0x63,0x6f,0x6c,0x6f,0x72]
def bF8 : Bytes := [0x23,0x66,0x38,0x66,0x38,0x66,0x38]

def legendToks : Option (Bytes × List Attr) → List Tok
  | none => []
  | some (lid, as) => .id kwSubgraph :: .id bClusterL :: .lbrace :: .str lid :: .lbrack :: (attrToks as ++ [.rbrack, .rbrace])

def defaultsToks : List Tok :=
  [.id kwNode, .lbrack, .id bStyle, .eq, .id bFilled, .id bFillcolor, .eq, .str bF8, .rbrack]

def docToks (title : Bytes) (legend : Option (Bytes × List Attr)) (stmts : List Stmt) : List Tok :=
  .id kwDigraph :: .str title :: .lbrace :: (defaultsToks ++ (legendToks legend ++ (stmtsToks stmts ++ [.rbrace])))

/-- well-formedness of the abstract pieces: identifiers are identifiers, quoted bodies are safe -/
structure AttrOK (a : Attr) : Prop where
  key : IdOK a.key
  keyNoKw : isKw a.key = false
  val : match a.val with
    | .bare w => IdOK w
    | .quoted b => qsafeB b = true
  valNoKw : match a.val with
    | .bare w => isKw w = false
    | .quoted _ => True

def StmtOK : Stmt → Prop
  | .node i as => (IdOK i ∧ isKw i = false) ∧ ∀ a ∈ as, AttrOK a
  | .edge s d as => (IdOK s ∧ isKw s = false) ∧ (IdOK d ∧ isKw d = false) ∧ ∀ a ∈ as, AttrOK a

theorem attrsTail_head (as : List Attr) : ∃ d r, attrsTail as = d :: r ∧ isIdByte d = false := by
  cases as with
  | nil => exact ⟨0x5d, [], rfl, by decide⟩
  | cons a t => exact ⟨SP, _, rfl, by decide⟩

theorem lexes_attr (a : Attr) (ha : AttrOK a) (d : UInt8) (r : Bytes) (ts : List Tok)
    (hd : isIdByte d = false) (h : Lexes (d :: r) ts) :
    Lexes (a.bytes ++ d :: r) (.id a.key :: .eq :: a.val.tok :: ts) := by
  unfold Attr.bytes
  have hv : Lexes (a.val.bytes ++ d :: r) (a.val.tok :: ts) := by
    have hval := ha.val
    cases hvv : a.val with
    | bare w =>
      rw [hvv] at hval
      exact Lexes.id hval hd h
    | quoted b =>
      rw [hvv] at hval
      simp only [AVal.bytes, AVal.tok, List.cons_append, List.append_assoc]
      exact Lexes.str hval h
  have : Lexes (a.key ++ 0x3d :: (a.val.bytes ++ d :: r)) (.id a.key :: .eq :: a.val.tok :: ts) :=
    Lexes.id ha.key (by decide) (Lexes.eq hv)
  simpa [List.append_assoc] using this

theorem lexes_attrsTail (as : List Attr) (has : ∀ a ∈ as, AttrOK a) (r : Bytes) (ts : List Tok) (h : Lexes r ts) :
    Lexes (attrsTail as ++ r) (attrToks as ++ .rbrack :: ts) := by
  induction as with
  | nil => exact Lexes.rbrack h
  | cons a t ih =>
    have iht := ih (fun x hx => has x (by simp [hx]))
    obtain ⟨d, r', hdr, hd⟩ := attrsTail_head t
    simp only [attrsTail, attrToks, List.cons_append, List.append_assoc]
    refine Lexes.sp ?_
    rw [hdr] at iht ⊢
    exact lexes_attr a (has a (by simp)) d (r' ++ r) _ hd iht

theorem lexes_attrList (as : List Attr) (has : ∀ a ∈ as, AttrOK a) (r : Bytes) (ts : List Tok) (h : Lexes r ts) :
    Lexes (attrList as ++ r) (.lbrack :: (attrToks as ++ .rbrack :: ts)) := by
  cases as with
  | nil => exact Lexes.lbrack (Lexes.rbrack h)
  | cons a t =>
    have iht := lexes_attrsTail t (fun x hx => has x (by simp [hx])) r ts h
    obtain ⟨d, r', hdr, hd⟩ := attrsTail_head t
    simp only [attrList, attrToks, List.cons_append, List.append_assoc]
    refine Lexes.lbrack ?_
    rw [hdr] at iht ⊢
    exact lexes_attr a (has a (by simp)) d (r' ++ r) _ hd iht

theorem lexes_stmt (s : Stmt) (hs : StmtOK s) (r : Bytes) (ts : List Tok) (h : Lexes r ts) :
    Lexes (s.bytes ++ r) (s.toks ++ ts) := by
  cases s with
  | node i as =>
    obtain ⟨⟨hi, _⟩, has⟩ := hs
    have h1 := lexes_attrList as has (NL :: r) ts (Lexes.nl h)
    have h2 : Lexes (i ++ SP :: (attrList as ++ NL :: r)) (.id i :: .lbrack :: (attrToks as ++ .rbrack :: ts)) :=
      Lexes.id hi (by decide) (Lexes.sp h1)
    simpa [Stmt.bytes, Stmt.toks, List.append_assoc] using h2
  | edge s d as =>
    obtain ⟨⟨hs', _⟩, ⟨hd', _⟩, has⟩ := hs
    have h1 := lexes_attrList as has (NL :: r) ts (Lexes.nl h)
    have h2 : Lexes (d ++ SP :: (attrList as ++ NL :: r)) (.id d :: .lbrack :: (attrToks as ++ .rbrack :: ts)) :=
      Lexes.id hd' (by decide) (Lexes.sp h1)
    have h3 : Lexes (s ++ SP :: 0x2d :: 0x3e :: SP :: (d ++ SP :: (attrList as ++ NL :: r)))
        (.id s :: .arrow :: .id d :: .lbrack :: (attrToks as ++ .rbrack :: ts)) :=
      Lexes.id hs' (by decide) (Lexes.sp (Lexes.arrow (Lexes.sp h2)))
    simpa [Stmt.bytes, Stmt.toks, List.append_assoc] using h3

theorem lexes_stmts (ss : List Stmt) (hss : ∀ s ∈ ss, StmtOK s) (r : Bytes) (ts : List Tok) (h : Lexes r ts) :
    Lexes (stmtsBytes ss ++ r) (stmtsToks ss ++ ts) := by
  induction ss with
  | nil => simpa [stmtsBytes, stmtsToks] using h
  | cons s t ih =>
    have := lexes_stmt s (hss s (by simp)) _ _ (ih (fun x hx => hss x (by simp [hx])))
    simpa [stmtsBytes, stmtsToks, List.append_assoc] using this

theorem idOK_of_decide (w : Bytes) (h : (w ≠ [] ∧ w.all isIdByte = true ∧ validId w = true)) : IdOK w :=
  ⟨h.1, fun b hb => by have := h.2.1; rw [List.all_eq_true] at this; exact this b hb, h.2.2⟩

theorem lexes_defaults (r : Bytes) (ts : List Tok) (h : Lexes r ts) :
    Lexes (bNodeDefaults ++ r) (defaultsToks ++ ts) := by
  have e : bNodeDefaults ++ r = kwNode ++ SP :: 0x5b :: (bStyle ++ 0x3d :: (bFilled ++ SP :: (bFillcolor ++ 0x3d :: (DQ :: bF8 ++ DQ :: 0x5d :: 0x0a :: r)))) := by
    simp [bNodeDefaults, kwNode, bStyle, bFilled, bFillcolor, bF8, SP, DQ]
  rw [e]
  have k1 : IdOK kwNode := idOK_of_decide _ (by decide)
  have k2 : IdOK bStyle := idOK_of_decide _ (by decide)
  have k3 : IdOK bFilled := idOK_of_decide _ (by decide)
  have k4 : IdOK bFillcolor := idOK_of_decide _ (by decide)
  exact Lexes.id k1 (by decide) (Lexes.sp (Lexes.lbrack (Lexes.id k2 (by decide) (Lexes.eq
    (Lexes.id k3 (by decide) (Lexes.sp (Lexes.id k4 (by decide) (Lexes.eq
      (Lexes.str (by decide) (Lexes.rbrack (Lexes.nl h)))))))))))

theorem lexes_legend (legend : Option (Bytes × List Attr))
    (hl : ∀ p, legend = some p → qsafeB p.1 = true ∧ ∀ a ∈ p.2, AttrOK a) (r : Bytes) (ts : List Tok) (h : Lexes r ts) :
    Lexes (legendBytes legend ++ r) (legendToks legend ++ ts) := by
  cases legend with
  | none => simpa [legendBytes, legendToks] using h
  | some p =>
    obtain ⟨lid, as⟩ := p
    obtain ⟨hq, has⟩ := hl (lid, as) rfl
    have h1 := lexes_attrList as has (SP :: 0x7d :: NL :: r) (.rbrace :: ts) (Lexes.sp (Lexes.rbrace (Lexes.nl h)))
    have h2 : Lexes (DQ :: lid ++ DQ :: SP :: (attrList as ++ SP :: 0x7d :: NL :: r))
        (.str lid :: .lbrack :: (attrToks as ++ .rbrack :: .rbrace :: ts)) := Lexes.str hq (Lexes.sp h1)
    have e : legendBytes (some (lid, as)) ++ r =
        kwSubgraph ++ SP :: (bClusterL ++ SP :: 0x7b :: SP :: (DQ :: lid ++ DQ :: SP :: (attrList as ++ SP :: 0x7d :: NL :: r))) := by
      simp [legendBytes, bSubgraph, kwSubgraph, bClusterL, SP, List.append_assoc]
    rw [e]
    have k1 : IdOK kwSubgraph := idOK_of_decide _ (by decide)
    have k2 : IdOK bClusterL := idOK_of_decide _ (by decide)
    have := Lexes.id k1 (by decide) (Lexes.sp (Lexes.id k2 (by decide) (Lexes.sp (Lexes.lbrace (Lexes.sp h2)))))
    simpa [legendToks, List.append_assoc, SP] using this

/-- **the document model lexes into its tokens** -/
theorem lexes_doc (title : Bytes) (legend : Option (Bytes × List Attr)) (stmts : List Stmt)
    (ht : qsafeB title = true)
    (hl : ∀ p, legend = some p → qsafeB p.1 = true ∧ ∀ a ∈ p.2, AttrOK a)
    (hs : ∀ s ∈ stmts, StmtOK s) :
    lex (docBytes title legend stmts) = some (docToks title legend stmts) := by
  apply Lexes.toLex
  have h0 : Lexes [0x7d, NL] [.rbrace] := Lexes.rbrace (Lexes.nl Lexes.nil)
  have h1 := lexes_stmts stmts hs _ _ h0
  have h2 := lexes_legend legend hl _ _ h1
  have h3 := lexes_defaults _ _ h2
  have h4 : Lexes (DQ :: title ++ DQ :: SP :: 0x7b :: NL :: (bNodeDefaults ++ (legendBytes legend ++ (stmtsBytes stmts ++ [0x7d, NL]))))
      (.str title :: .lbrace :: (defaultsToks ++ (legendToks legend ++ (stmtsToks stmts ++ [.rbrace])))) :=
    Lexes.str ht (Lexes.sp (Lexes.lbrace (Lexes.nl h3)))
  have k : IdOK bDigraph := idOK_of_decide _ (by decide)
  have h5 := Lexes.id k (by decide : isIdByte SP = false) (Lexes.sp h4)
  have e : docBytes title legend stmts = bDigraph ++ SP :: (DQ :: title ++ DQ :: SP :: 0x7b :: NL :: (bNodeDefaults ++ (legendBytes legend ++ (stmtsBytes stmts ++ [0x7d, NL])))) := by
    simp [docBytes, List.append_assoc]
  rw [e]
  have e2 : docToks title legend stmts = .id bDigraph :: .str title :: .lbrace :: (defaultsToks ++ (legendToks legend ++ (stmtsToks stmts ++ [.rbrace]))) := by
    simp [docToks, bDigraph, kwDigraph]
  rw [e2]
  exact h5

end PV.Dot
