import PprofVerif.Lemmas.GraphTreeEdges
namespace PV.Graph

theorem findIdx_range {α : Type} (f : α → Bool) (l : List α) : ∀ (k i : Nat),
    findIdx f l k = some i → k ≤ i ∧ i < k + l.length := by
  induction l with
  | nil => intro k i h; simp [findIdx] at h
  | cons a r ih =>
    intro k i h
    unfold findIdx at h
    split at h
    · simp at h; subst h; simp
    · have := ih (k + 1) i h
      simp; omega

theorem sampleIndexByName_lt (p : Profile) (si : Str) (i : Nat) (h : sampleIndexByName p si = some i) :
    i < p.sampleType.length := by
  unfold sampleIndexByName at h
  simp only at h
  split at h
  · split at h
    · rename_i j hj
      simp at h; subst h
      split at hj
      · have := findIdx_range _ _ 0 j hj; omega
      · simp at hj
    · split at h
      · simp at h
      · simp at h; omega
  · split at h
    · split at h
      · simp at h
      · rename_i z _ hz
        simp at h; subst h
        simp at hz
        omega
    · have := findIdx_range _ _ 0 i h; omega
end PV.Graph
