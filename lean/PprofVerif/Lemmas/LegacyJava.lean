import PprofVerif.Lemmas.LegacyCpu
import PprofVerif.Model.LegacyJava
/-!
Helper lemmas for C14: Java heapz / contentionz profiles —
`parseJavaProfile (printJava d) = ok (expectedJava d)`.
-/
namespace PV.Legacy
open PV

/-! ### lines -/
theorem splitNLAux_line (l rest acc : Str) (h : ∀ b ∈ l, b.toNat ≠ 10) :
    splitNLAux (l ++ 10 :: rest) acc = ((acc.reverse ++ l) :: (splitNLAux rest []).1, (splitNLAux rest []).2) := by
  induction l generalizing acc with
  | nil => simp [splitNLAux]
  | cons b l ih =>
    have hb : b.toNat ≠ 10 := h b (by simp)
    simp only [List.cons_append, splitNLAux, beq_iff_eq, hb, if_false]
    rw [ih (b :: acc) (fun x hx => h x (by simp [hx]))]
    simp

theorem splitNL_unlines (ls : List Str) (h : ∀ l ∈ ls, LineOK l) : splitNL (unlines ls) = (ls, []) := by
  unfold splitNL
  induction ls with
  | nil => simp [unlines, splitNLAux]
  | cons l ls ih =>
    have hl : LineOK l := h l (by simp)
    simp only [unlines, List.flatMap_cons, List.append_assoc, List.singleton_append]
    rw [splitNLAux_line l _ [] (fun b hb => (hl b hb).1)]
    have := ih (fun l' hl' => h l' (by simp [hl']))
    simp only [unlines] at this
    simp [this]

/-- a line that both header and sample loop skip -/
def isBlankLine (l : Str) : Bool := (trimSpace l).isEmpty

/-! ### attribute lines -/
theorem isWordOrSp_61 : isWordOrSp 61 = false := by decide

theorem matchAttrAt_attr (pre post k v : Str) (hk : ∀ b ∈ k ++ pre, isWordOrSp b = true) (hkne : k ++ pre ≠ [])
    (hv : ∀ b ∈ post ++ v, isWordOrSp b = true) (hvne : post ++ v ≠ []) :
    matchAttrAt ((k ++ pre) ++ 61 :: (post ++ v)) = some (k ++ pre, post ++ v) := by
  unfold matchAttrAt
  have hS : Stops isWordOrSp (61 :: (post ++ v)) := by simp [isWordOrSp_61]
  rw [takeWhile_append_stops hk hS, dropWhile_append_stops hk hS]
  simp only [isEmpty_false_of_ne_nil hkne, Bool.false_eq_true, if_false]
  rw [show (61 :: (post ++ v)) = [61] ++ (post ++ v) from rfl, stripPrefix_append]
  have := takeWhile_append_stops (p := isWordOrSp) (a := post ++ v) (r := []) hv (by simp)
  simp only [List.append_nil] at this
  simp [this, isEmpty_false_of_ne_nil hvne]

theorem javaAttr_eq (spaced : Bool) (k v : Str) :
    javaAttr spaced k v = (k ++ (if spaced then [32] else [])) ++ 61 :: ((if spaced then [32] else []) ++ v) := by
  cases spaced <;> simp [javaAttr, asc]

/-- facts about a key or value text: non-empty word text that trimming leaves alone -/
structure WordText (s : Str) : Prop where
  ne : s ≠ []
  word : ∀ b ∈ s, isWordOrSp b = true
  front : Stops isSpace s
  back : Stops isSpace s.reverse

theorem WordText.trim_pre {s : Str} (h : WordText s) (spaced : Bool) :
    trimSpace (s ++ (if spaced then [32] else [])) = s := by
  cases spaced with
  | false => simpa using trimSpace_of_stops h.front h.back
  | true =>
    simp only [if_true]
    unfold trimSpace
    have h1 : trimLeft (s ++ [32]) = s ++ [32] := dropWhile_stops (Stops_append_of_ne_nil h.ne h.front)
    rw [h1]
    unfold trimRight
    rw [List.reverse_append]
    simp only [List.reverse_cons, List.reverse_nil, List.nil_append, List.singleton_append, List.dropWhile_cons, isSpace_32, if_true]
    rw [dropWhile_stops h.back]; simp

theorem WordText.trim_post {s : Str} (h : WordText s) (spaced : Bool) :
    trimSpace ((if spaced then [32] else []) ++ s) = s := by
  cases spaced with
  | false => simpa using trimSpace_of_stops h.front h.back
  | true => simpa using trimSpace_replicate 1 s h.front h.back

theorem isWordOrSp_32 : isWordOrSp 32 = true := by decide

theorem attr_search (spaced : Bool) (k v : Str) (hk : WordText k) (hv : WordText v) :
    ∃ k' v', searchRe matchAttrAt (javaAttr spaced k v) = some (k', v') ∧ trimSpace k' = k ∧ trimSpace v' = v := by
  refine ⟨k ++ (if spaced then [32] else []), (if spaced then [32] else []) ++ v, ?_, hk.trim_pre spaced, hv.trim_post spaced⟩
  apply searchRe_of_some
  rw [javaAttr_eq]
  apply matchAttrAt_attr
  · intro b hb
    rcases List.mem_append.1 hb with hb | hb
    · exact hk.word b hb
    · cases spaced <;> simp at hb; subst hb; exact isWordOrSp_32
  · simp [hk.ne]
  · intro b hb
    rcases List.mem_append.1 hb with hb | hb
    · cases spaced <;> simp at hb; subst hb; exact isWordOrSp_32
    · exact hv.word b hb
  · simp [hv.ne]

theorem attr_trim (spaced : Bool) (k v : Str) (hk : WordText k) (hv : WordText v) :
    trimSpace (javaAttr spaced k v) = javaAttr spaced k v := by
  rw [javaAttr_eq]
  apply trimSpace_of_stops
  · rw [List.append_assoc]; exact Stops_append_of_ne_nil hk.ne hk.front
  · rw [show (k ++ (if spaced then [32] else [])) ++ 61 :: ((if spaced then [32] else []) ++ v)
        = ((k ++ (if spaced then [32] else [])) ++ 61 :: (if spaced then [32] else [])) ++ v by simp]
    exact Stops_reverse_append _ _ hv.ne hv.back

theorem attr_nonblank (spaced : Bool) (k v : Str) (hk : WordText k) (hv : WordText v) :
    (trimSpace (javaAttr spaced k v)).isEmpty = false := by
  rw [attr_trim spaced k v hk hv, javaAttr_eq]
  cases hq : k with
  | nil => exact absurd hq hk.ne
  | cons _ _ => rfl

theorem attr_ne (spaced : Bool) (k v : Str) (hk : WordText k) : (javaAttr spaced k v).isEmpty = false := by
  rw [javaAttr_eq]
  cases hq : k with
  | nil => exact absurd hq hk.ne
  | cons _ _ => rfl

theorem wordText_lit (s : Str) (h1 : s ≠ []) (h2 : s.all isWordOrSp = true) (h3 : stopsB isSpace s = true)
    (h4 : stopsB isSpace s.reverse = true) : WordText s :=
  ⟨h1, by simpa [List.all_eq_true] using h2, Stops_of_stopsB h3, Stops_of_stopsB h4⟩

theorem wordText_dec (n : Nat) : WordText (dec n) := by
  refine ⟨dec_ne_nil n, ?_, ?_, dec_reverse_stops n⟩
  · intro b hb
    have := dec_isDigit n b hb
    simp [isWordOrSp, isWord, this]
  · obtain ⟨c, t, hd, hc⟩ := dec_cons n
    rw [hd]; simpa using isSpace_false_of_isDigit hc

theorem isSpace_false_of_isWord {b : UInt8} (h : isWord b = true) : isSpace b = false := by
  simp only [isWord, isDigit, Bool.or_eq_true, decide_eq_true_eq, beq_iff_eq] at h
  simp only [isSpace, isReSpace, Bool.or_eq_false_iff, beq_eq_false_iff_ne]
  omega

theorem wordText_resolution {s : Str} (hne : s ≠ []) (hw : s.all isWord = true) : WordText s := by
  have hw' : ∀ b ∈ s, isWord b = true := by simpa [List.all_eq_true] using hw
  refine ⟨hne, fun b hb => by simp [isWordOrSp, hw' b hb], ?_, ?_⟩
  · cases s with
    | nil => exact absurd rfl hne
    | cons c t => simpa using isSpace_false_of_isWord (hw' c (by simp))
  · cases hq : s.reverse with
    | nil => simp
    | cons c t =>
      have : c ∈ s := by
        have : c ∈ s.reverse := by rw [hq]; simp
        simpa using this
      simpa using isSpace_false_of_isWord (hw' c this)


/-! ### the header loop -/
theorem wt_format : WordText (asc "format") := wordText_lit _ (by decide) (by decide) (by decide) (by decide)
theorem wt_java : WordText (asc "java") := wordText_lit _ (by decide) (by decide) (by decide) (by decide)
theorem wt_resolution : WordText (asc "resolution") := wordText_lit _ (by decide) (by decide) (by decide) (by decide)
theorem wt_sampling : WordText (asc "sampling period") := wordText_lit _ (by decide) (by decide) (by decide) (by decide)
theorem wt_ms : WordText (asc "ms since reset") := wordText_lit _ (by decide) (by decide) (by decide) (by decide)

theorem javaHeaderLoop_format (heap spaced : Bool) (R : List Str) (st : JavaHdrState) :
    javaHeaderLoop heap (javaAttr spaced (asc "format") (asc "java") :: R) st = javaHeaderLoop heap R st := by
  obtain ⟨k', v', hs, hk, hv⟩ := attr_search spaced _ _ wt_format wt_java
  rw [javaHeaderLoop]
  simp only [attr_trim spaced _ _ wt_format wt_java, attr_ne spaced _ _ wt_format, hs, hk, hv,
    Bool.false_eq_true, if_false]
  simp

theorem javaHeaderLoop_resolution (heap spaced : Bool) (res : Str) (hr : WordText res) (R : List Str) (st : JavaHdrState) :
    javaHeaderLoop heap (javaAttr spaced (asc "resolution") res :: R) st =
      javaHeaderLoop heap R { st with sampleType :=
        if heap then [vt "inuse_objects" "count", { typ := asc "inuse_space", unit := res }]
        else [vt "contentions" "count", { typ := asc "delay", unit := res }] } := by
  obtain ⟨k', v', hs, hk, hv⟩ := attr_search spaced _ _ wt_resolution hr
  rw [javaHeaderLoop]
  have n1 : (asc "resolution" == asc "format") = false := by decide
  simp only [attr_trim spaced _ _ wt_resolution hr, attr_ne spaced _ _ wt_resolution, hs, hk, hv,
    Bool.false_eq_true, if_false, n1]
  simp

theorem javaHeaderLoop_sampling (spaced : Bool) (p : Nat) (hp : p < two63) (R : List Str) (st : JavaHdrState) :
    javaHeaderLoop false (javaAttr spaced (asc "sampling period") (dec p) :: R) st =
      javaHeaderLoop false R { st with periodType := vt "contentions" "count", period := (p : Int) } := by
  obtain ⟨k', v', hs, hk, hv⟩ := attr_search spaced _ _ wt_sampling (wordText_dec p)
  rw [javaHeaderLoop]
  have n1 : (asc "sampling period" == asc "format") = false := by decide
  have n2 : (asc "sampling period" == asc "resolution") = false := by decide
  simp only [attr_trim spaced _ _ wt_sampling (wordText_dec p), attr_ne spaced _ _ wt_sampling,
    hs, hk, hv, Bool.false_eq_true, if_false, n1, n2, parseI64Base0_dec hp]
  simp

theorem javaHeaderLoop_ms (spaced : Bool) (p : Nat) (hp : p < two63) (R : List Str) (st : JavaHdrState) :
    javaHeaderLoop false (javaAttr spaced (asc "ms since reset") (dec p) :: R) st =
      javaHeaderLoop false R { st with durationNanos := wrapI64 ((p : Int) * 1000 * 1000) } := by
  obtain ⟨k', v', hs, hk, hv⟩ := attr_search spaced _ _ wt_ms (wordText_dec p)
  rw [javaHeaderLoop]
  have n1 : (asc "ms since reset" == asc "format") = false := by decide
  have n2 : (asc "ms since reset" == asc "resolution") = false := by decide
  have n3 : (asc "ms since reset" == asc "sampling period") = false := by decide
  simp only [attr_trim spaced _ _ wt_ms (wordText_dec p), attr_ne spaced _ _ wt_ms,
    hs, hk, hv, Bool.false_eq_true, if_false, n1, n2, n3, parseI64Base0_dec hp]
  simp

def hdrState0 : JavaHdrState := { sampleType := [], periodType := { typ := [], unit := [] }, period := 0, durationNanos := 0 }

/-- the header state after all attribute lines = the documented header -/
def JavaDoc.hdrState (d : JavaDoc) : JavaHdrState :=
  { sampleType := d.header.sampleType, periodType := d.header.periodType, period := d.header.period,
    durationNanos := d.header.durationNanos }

theorem javaHeaderLoop_attrs (d : JavaDoc) (hres : WordText d.resolution) (hsp : d.samplingPeriod.all (· < two63) = true)
    (hms : d.msSinceReset.all (· < two63) = true) (R : List Str) :
    javaHeaderLoop d.heap (d.attrLines ++ R) hdrState0 = javaHeaderLoop d.heap R d.hdrState := by
  unfold JavaDoc.attrLines JavaDoc.hdrState JavaDoc.header hdrState0
  cases hh : d.heap with
  | true =>
    cases d.format <;>
      simp [javaHeaderLoop_format, javaHeaderLoop_resolution _ _ _ hres]
  | false =>
    cases hsp' : d.samplingPeriod with
    | none =>
      cases hms' : d.msSinceReset with
      | none => cases d.format <;> simp [javaHeaderLoop_format, javaHeaderLoop_resolution _ _ _ hres]
      | some ms =>
        have hms2 : ms < two63 := by simpa [hms'] using hms
        cases d.format <;> simp [javaHeaderLoop_format, javaHeaderLoop_resolution _ _ _ hres, javaHeaderLoop_ms _ _ hms2]
    | some p =>
      have hp2 : p < two63 := by simpa [hsp'] using hsp
      cases hms' : d.msSinceReset with
      | none =>
        cases d.format <;> simp [javaHeaderLoop_format, javaHeaderLoop_resolution _ _ _ hres, javaHeaderLoop_sampling _ _ hp2]
      | some ms =>
        have hms2 : ms < two63 := by simpa [hms'] using hms
        cases d.format <;> simp [javaHeaderLoop_format, javaHeaderLoop_resolution _ _ _ hres,
          javaHeaderLoop_sampling _ _ hp2, javaHeaderLoop_ms _ _ hms2]

/-! ### lines without `=` end the header loop; lines without `@` end the sample loop -/
theorem matchAttrAt_none (t : Str) (h : ∀ b ∈ t, b.toNat ≠ 61) : matchAttrAt t = none := by
  have hd : ∀ b ∈ t.dropWhile isWordOrSp, b.toNat ≠ 61 := fun b hb => h b (mem_of_mem_dropWhile hb)
  have hsp : stripPrefix [61] (t.dropWhile isWordOrSp) = none := by
    cases hq : t.dropWhile isWordOrSp with
    | nil => simp [stripPrefix]
    | cons c r =>
      have : c.toNat ≠ 61 := hd c (by rw [hq]; simp)
      have hc : (61 : UInt8) ≠ c := by intro e; rw [← e] at this; exact this rfl
      simp [stripPrefix, hc]
  unfold matchAttrAt
  simp only [hsp]
  split <;> rfl

theorem searchRe_none_of_all {α} (m : Str → Option α) (P : Str → Prop)
    (hm : ∀ t, P t → m t = none) (htail : ∀ c t, P (c :: t) → P t) (s : Str) (hs : P s) : searchRe m s = none := by
  induction s with
  | nil => simpa [searchRe] using hm [] hs
  | cons c t ih =>
    simp only [searchRe, hm _ hs]
    exact ih (htail c t hs)

theorem searchAttr_none (s : Str) (h : ∀ b ∈ s, b.toNat ≠ 61) : searchRe matchAttrAt s = none :=
  searchRe_none_of_all matchAttrAt (fun t => ∀ b ∈ t, b.toNat ≠ 61) matchAttrAt_none
    (fun c t h b hb => h b (by simp [hb])) s h

theorem javaHeaderLoop_stop (heap : Bool) (Ls : List Str) (h : ∀ l ∈ Ls, ∀ b ∈ l, b.toNat ≠ 61) (st : JavaHdrState) :
    javaHeaderLoop heap Ls st = .ok (st, Ls.dropWhile isBlankLine) := by
  induction Ls with
  | nil => rfl
  | cons l Ls ih =>
    rw [javaHeaderLoop]
    by_cases hb : (trimSpace l).isEmpty = true
    · simp only [hb, if_true, List.dropWhile_cons, isBlankLine]
      exact ih (fun l' hl' => h l' (by simp [hl']))
    · have : searchRe matchAttrAt (trimSpace l) = none :=
        searchAttr_none _ (fun b hb' => h l (by simp) b (trimSpace_mem hb'))
      simp [hb, this, isBlankLine]


/-! ### the sample loop -/
def JavaRec.core (w : Nat) (r : JavaRec) : Str :=
  dec r.first ++ (sp (r.gap + 1) ++ (dec r.second ++ (sp (r.gap + 1) ++ (64 :: printAddrs w r.addrs))))

theorem JavaRec.print_eq (w : Nat) (r : JavaRec) : r.print w = sp r.indent ++ r.core w := by
  simp [JavaRec.print, JavaRec.core, List.append_assoc]

theorem JavaRec.core_cons (w : Nat) (r : JavaRec) : ∃ c t, r.core w = c :: t ∧ isDigit c = true := by
  obtain ⟨c, t, hd, hc⟩ := dec_cons r.first
  unfold JavaRec.core; rw [hd]; exact ⟨c, _, rfl, hc⟩

theorem JavaRec.core_reverse_stops (w : Nat) (r : JavaRec) : Stops isSpace (r.core w).reverse := by
  have : r.core w = (dec r.first ++ (sp (r.gap + 1) ++ (dec r.second ++ (sp (r.gap + 1) ++ [64])))) ++ printAddrs w r.addrs := by
    simp [JavaRec.core, List.append_assoc]
  rw [this]
  apply append_printAddrs_reverse_stops
  · rw [← List.append_assoc, ← List.append_assoc, ← List.append_assoc]
    exact Stops_reverse_append _ _ (by decide) (Stops_of_stopsB (by decide))
  · simp [dec_ne_nil]

theorem JavaRec.trim (w : Nat) (r : JavaRec) : trimSpace (r.print w) = r.core w := by
  rw [JavaRec.print_eq]
  obtain ⟨c, t, hd, hc⟩ := r.core_cons w
  exact trimSpace_replicate _ _ (by rw [hd]; simpa using isSpace_false_of_isDigit hc) (r.core_reverse_stops w)

theorem skipSp_len (g : Nat) (r : Str) (h : Stops (fun b => b.toNat == 32) r) :
    ((skipSp (sp (g+1) ++ r)).length == (sp (g+1) ++ r).length) = false := by
  rw [skipSp_sp _ _ h]; simp [sp]

/-- the address text of a printed record, without its leading blank -/
def addrTail (w a : Nat) (as : List Nat) : Str := 48 :: 120 :: (hexPad w a ++ printAddrs w as)

theorem addrTail_all (w a : Nat) (as : List Nat) :
    ∀ b ∈ addrTail w a as, (b.toNat == 32 || b.toNat == 120 || isHexLower b) = true := by
  intro b hb
  have : b ∈ printAddrs w (a :: as) := by rw [printAddrs_cons]; exact List.mem_cons_of_mem _ hb
  exact printAddrs_isAddrText w (a :: as) b this

theorem parseHexAddresses_addrTail (w a : Nat) (as : List Nat) (h : ∀ x ∈ a :: as, x < two64) :
    parseHexAddresses (addrTail w a as) = some (a :: as) := by
  have : findHex (addrTail w a as) = findHex (printAddrs w (a :: as)) := by
    rw [printAddrs_cons]; simp [findHex, findHexGo, hexRestart, addrTail]
  unfold parseHexAddresses
  rw [this, findHex_printAddrs]
  exact parseHexList_map w (a :: as) h

theorem matchJavaSampleAt_core (w : Nat) (r : JavaRec) (a : Nat) (as : List Nat) (ha : r.addrs = a :: as) :
    matchJavaSampleAt (r.core w) = some (dec r.first, dec r.second, addrTail w a as) := by
  unfold matchJavaSampleAt JavaRec.core
  rw [skipSp_stops (Stops_sp32_dec _ _), reDigits_dec _ _ (by simp [sp_succ, isDigit_32])]
  simp only [Option.bind_eq_bind, Option.bind_some]
  rw [skipSp_len _ _ (Stops_sp32_dec _ _), skipSp_sp _ _ (Stops_sp32_dec _ _)]
  simp only [Bool.false_eq_true, if_false]
  rw [reDigits_dec _ _ (by simp [sp_succ, isDigit_32])]
  simp only [Option.bind_some]
  rw [skipSp_len _ _ (Stops_sp32_cons _ (by decide)), skipSp_sp _ _ (Stops_sp32_cons _ (by decide))]
  simp only [Bool.false_eq_true, if_false]
  rw [show (64 :: printAddrs w r.addrs) = [64] ++ printAddrs w r.addrs from rfl, stripPrefix_append]
  simp only [Option.bind_some]
  rw [ha, printAddrs_cons]
  have e : (32 :: 48 :: 120 :: (hexPad w a ++ printAddrs w as)) = sp 1 ++ addrTail w a as := rfl
  rw [e, skipSp_len 0 _ (by simp [addrTail]), skipSp_sp _ _ (by simp [addrTail])]
  simp only [Bool.false_eq_true, if_false]
  have := takeWhile_append_stops (p := fun x => x.toNat == 32 || x.toNat == 120 || isHexLower x)
    (a := addrTail w a as) (r := []) (addrTail_all w a as) (by simp)
  simp only [List.append_nil] at this
  rw [this]; rfl

theorem javaSampleLoop_rec (scale : ScaleFn) (heap : Bool) (period : Int) (w : Nat) (r : JavaRec)
    (h1 : r.first < two63) (h2 : r.second < two63) (hne : r.addrs ≠ []) (ha : ∀ x ∈ r.addrs, x < two64)
    (hz : heap = true → r.second ≠ 0) (R : List Str) (acc : List RawSample) :
    javaSampleLoop scale heap period (r.print w :: R) acc
      = javaSampleLoop scale heap period R (javaSample scale heap period r.first r.second r.addrs :: acc) := by
  obtain ⟨c, t, hd, hc⟩ := r.core_cons w
  have hne' : (r.core w).isEmpty = false := by rw [hd]; rfl
  cases haddrs : r.addrs with
  | nil => exact absurd haddrs hne
  | cons a as =>
    rw [javaSampleLoop]
    simp only [JavaRec.trim, hne', Bool.false_eq_true, if_false,
      searchRe_of_some _ _ _ (matchJavaSampleAt_core w r a as haddrs),
      parseHexAddresses_addrTail w a as (by rw [← haddrs]; exact ha), parseI64Base0_dec h1, parseI64Base0_dec h2]
    have hzz : (heap && r.second == 0) = false := by
      cases heap with
      | false => rfl
      | true => simp [hz rfl]
    simp only [hzz, Bool.false_eq_true, if_false]

theorem javaSampleLoop_blanks (scale : ScaleFn) (heap : Bool) (period : Int) (n : Nat) (R : List Str) (acc : List RawSample) :
    javaSampleLoop scale heap period (List.replicate n [] ++ R) acc = javaSampleLoop scale heap period R acc := by
  induction n with
  | zero => rfl
  | succ n ih =>
    have : trimSpace ([] : Str) = [] := by decide
    simp only [List.replicate_succ, List.cons_append, javaSampleLoop, this, List.isEmpty_nil, if_true]
    exact ih

theorem javaSampleLoop_skip (scale : ScaleFn) (heap : Bool) (period : Int) (Ls : List Str) (acc : List RawSample) :
    javaSampleLoop scale heap period (Ls.dropWhile isBlankLine) acc = javaSampleLoop scale heap period Ls acc := by
  induction Ls with
  | nil => rfl
  | cons l Ls ih =>
    by_cases hb : isBlankLine l = true
    · simp only [List.dropWhile_cons, hb, if_true]
      rw [ih]
      conv => rhs; rw [javaSampleLoop]
      simp only [isBlankLine] at hb
      simp [hb]
    · simp [List.dropWhile_cons, hb]

theorem javaSampleLoop_recs (scale : ScaleFn) (heap : Bool) (period : Int) (w : Nat) (rs : List JavaRec)
    (h : ∀ r ∈ rs, r.first < two63 ∧ r.second < two63 ∧ r.addrs ≠ [] ∧ (∀ x ∈ r.addrs, x < two64) ∧ (heap = true → r.second ≠ 0))
    (R : List Str) (acc : List RawSample) :
    javaSampleLoop scale heap period (rs.flatMap (fun r => List.replicate r.blanks [] ++ [r.print w]) ++ R) acc
      = javaSampleLoop scale heap period R
          ((rs.map (fun r => javaSample scale heap period r.first r.second r.addrs)).reverse ++ acc) := by
  induction rs generalizing acc with
  | nil => rfl
  | cons r rs ih =>
    obtain ⟨h1, h2, h3, h4, h5⟩ := h r (by simp)
    simp only [List.flatMap_cons, List.append_assoc, javaSampleLoop_blanks, List.singleton_append, List.cons_append,
      List.nil_append]
    rw [javaSampleLoop_rec scale heap period w r h1 h2 h3 h4 h5, ih (fun x hx => h x (by simp [hx]))]
    simp

theorem matchJavaSampleAt_none (t : Str) (h : ∀ b ∈ t, b ≠ (64 : UInt8)) : matchJavaSampleAt t = none := by
  unfold matchJavaSampleAt reDigits skipSp
  simp only [Option.bind_eq_bind]
  by_cases h1 : ((t.dropWhile (fun b => b.toNat == 32)).takeWhile isDigit).isEmpty = true
  · simp [h1]
  · simp only [h1, Bool.false_eq_true, if_false, Option.bind_some]
    split
    · rfl
    · by_cases h2 : (((((t.dropWhile (fun b => b.toNat == 32)).dropWhile isDigit)).dropWhile (fun b => b.toNat == 32)).takeWhile isDigit).isEmpty = true
      · simp [h2]
      · simp only [h2, Bool.false_eq_true, if_false, Option.bind_some]
        split
        · rfl
        · have hsub : ∀ b ∈ (((((t.dropWhile (fun b => b.toNat == 32)).dropWhile isDigit)).dropWhile (fun b => b.toNat == 32)).dropWhile isDigit).dropWhile (fun b => b.toNat == 32), b ≠ (64 : UInt8) := by
            intro b hb
            exact h b (mem_of_mem_dropWhile (mem_of_mem_dropWhile (mem_of_mem_dropWhile (mem_of_mem_dropWhile (mem_of_mem_dropWhile hb)))))
          cases hq : (((((t.dropWhile (fun b => b.toNat == 32)).dropWhile isDigit)).dropWhile (fun b => b.toNat == 32)).dropWhile isDigit).dropWhile (fun b => b.toNat == 32) with
          | nil => simp [stripPrefix]
          | cons c r =>
            have hc := hsub c (by rw [hq]; simp)
            simp [stripPrefix, Ne.symm hc]

theorem searchJavaSample_none (s : Str) (h : ∀ b ∈ s, b ≠ (64 : UInt8)) : searchRe matchJavaSampleAt s = none :=
  searchRe_none_of_all matchJavaSampleAt (fun t => ∀ b ∈ t, b ≠ (64 : UInt8)) matchJavaSampleAt_none
    (fun c t h b hb => h b (by simp [hb])) s h

theorem javaSampleLoop_stop (scale : ScaleFn) (heap : Bool) (period : Int) (Ls : List Str)
    (h : ∀ l ∈ Ls, ∀ b ∈ l, b ≠ (64 : UInt8)) (acc : List RawSample) :
    javaSampleLoop scale heap period Ls acc = .ok (acc.reverse, Ls.dropWhile isBlankLine) := by
  induction Ls with
  | nil => rfl
  | cons l Ls ih =>
    rw [javaSampleLoop]
    by_cases hb : (trimSpace l).isEmpty = true
    · simp only [hb, if_true, List.dropWhile_cons, isBlankLine]
      exact ih (fun l' hl' => h l' (by simp [hl']))
    · have : searchRe matchJavaSampleAt (trimSpace l) = none :=
        searchJavaSample_none _ (fun b hb' => h l (by simp) b (trimSpace_mem hb'))
      simp [hb, this, isBlankLine]


/-! ### trailer lines: classification -/
theorem noSpaceOK_bytes {s : Str} (h : noSpaceOK s = true) :
    s ≠ [] ∧ ∀ b ∈ s, isPrint b = true ∧ b.toNat ≠ 64 ∧ b.toNat ≠ 61 ∧ b.toNat ≠ 32 := by
  simp only [noSpaceOK, javaByteOK, Bool.and_eq_true, bne_iff_ne, ne_eq, List.all_eq_true] at h
  exact ⟨h.1, fun b hb => ⟨(h.2 b hb).1.1.1, (h.2 b hb).1.1.2, (h.2 b hb).1.2, (h.2 b hb).2⟩⟩

theorem isReSpace_false_of_print {b : UInt8} (h : isPrint b = true) (h32 : b.toNat ≠ 32) : isReSpace b = false := by
  simp only [isPrint, decide_eq_true_eq] at h
  simp only [isReSpace, Bool.or_eq_false_iff, beq_eq_false_iff_ne]; omega

theorem isSpace_false_of_print {b : UInt8} (h : isPrint b = true) (h32 : b.toNat ≠ 32) : isSpace b = false := by
  simp only [isPrint, decide_eq_true_eq] at h
  simp only [isSpace, isReSpace, Bool.or_eq_false_iff, beq_eq_false_iff_ne]; omega

/-- `func (inner)`: the function part, the parenthesised part -/
theorem classify_paren (f inner : Str) (hf : noSpaceOK f = true) :
    ((f ++ (asc " (" ++ (inner ++ asc ")"))).takeWhile (fun b => !isReSpace b) = f) ∧
    (skipReSpace ((f ++ (asc " (" ++ (inner ++ asc ")"))).dropWhile (fun b => !isReSpace b)) = 40 :: (inner ++ asc ")")) ∧
    (((f ++ (asc " (" ++ (inner ++ asc ")"))).dropWhile (fun b => !isReSpace b)).length > (40 :: (inner ++ asc ")")).length) ∧
    ((f ++ (asc " (" ++ (inner ++ asc ")"))).getLast? = some 41) := by
  obtain ⟨hne, hb⟩ := noSpaceOK_bytes hf
  have hall : ∀ b ∈ f, (!isReSpace b) = true := fun b hb' => by
    simp [isReSpace_false_of_print (hb b hb').1 (hb b hb').2.2.2]
  have hS : Stops (fun b => !isReSpace b) (asc " (" ++ (inner ++ asc ")")) := Stops_append_of_ne_nil (by decide) (Stops_of_stopsB (by decide))
  have e1 : asc " (" ++ (inner ++ asc ")") = sp 1 ++ (40 :: (inner ++ asc ")")) := rfl
  refine ⟨takeWhile_append_stops hall hS, ?_, ?_, ?_⟩
  · rw [dropWhile_append_stops hall hS, e1, skipReSpace_sp 1 _ (by simp; decide)]
  · rw [dropWhile_append_stops hall hS, e1]; simp [sp]
  · rw [show f ++ (asc " (" ++ (inner ++ asc ")")) = (f ++ (asc " (" ++ inner)) ++ [41] by simp [asc]]
    simp

theorem intStr_no_colon (i : Int) : ∀ b ∈ intStr i, b.toNat ≠ 58 := by
  intro b hb
  unfold intStr at hb
  split at hb
  · rcases List.mem_cons.1 hb with rfl | hb
    · decide
    · have := dec_isDigit _ b hb; simp only [isDigit, decide_eq_true_eq] at this; omega
  · have := dec_isDigit _ b hb; simp only [isDigit, decide_eq_true_eq] at this; omega

theorem splitLastColon_file (file num : Str) (hn : ∀ b ∈ num, b.toNat ≠ 58) :
    splitLastColon (file ++ 58 :: num) = some (file, num) := by
  unfold splitLastColon
  have hr : (file ++ 58 :: num).reverse = num.reverse ++ 58 :: file.reverse := by simp
  rw [hr]
  have hall : ∀ b ∈ num.reverse, (b.toNat != 58) = true := by
    intro b hb; simp [hn b (by simpa using hb)]
  have hS : Stops (fun b => b.toNat != 58) (58 :: file.reverse) := by simp
  rw [takeWhile_append_stops hall hS, dropWhile_append_stops hall hS]
  simp

theorem splitLastColon_none (p : Str) (hp : ∀ b ∈ p, b.toNat ≠ 58) : splitLastColon p = none := by
  unfold splitLastColon
  have hall : ∀ b ∈ p.reverse, (b.toNat != 58) = true := by
    intro b hb; simp [hp b (by simpa using hb)]
  have := dropWhile_append_stops (p := fun b => b.toNat != 58) (a := p.reverse) (r := []) hall (by simp)
  simp only [List.append_nil] at this
  rw [this]

theorem parseSignedDec_intStr (i : Int) : parseSignedDec (intStr i) = some i := by
  unfold intStr
  split
  · rename_i hneg
    have h45 : ((45 : UInt8).toNat == 45) = true := by decide
    simp [parseSignedDec, h45, parseNat_dec]
    omega
  · rename_i hpos
    obtain ⟨c, t, hd, hc⟩ := dec_cons i.natAbs
    have hc45 : (c.toNat == 45) = false := by
      simp only [isDigit, decide_eq_true_eq] at hc
      simp only [beq_eq_false_iff_ne]; omega
    rw [hd]
    simp only [parseSignedDec, hc45, Bool.false_eq_true, if_false]
    rw [← hd, parseNat_dec]
    simp
    omega

theorem getLast?_ne_of_not_mem {t : Str} {c : UInt8} (h : c ∉ t) : (t.getLast? == some c) = false := by
  cases hq : t.getLast? with
  | none => rfl
  | some x =>
    have hx : x ∈ t := List.mem_of_getLast? hq
    have : x ≠ c := fun e => h (e ▸ hx)
    simp [this]

theorem classify_no_paren (addr : Nat) (t : Str) (h : (41 : UInt8) ∉ t) :
    javaClassify addr t =
      (if containsSub stubMarker t then { addr := addr, func := asc "STUB", file := [], line := 0 }
       else { addr := addr, func := t, file := [], line := 0 }) := by
  unfold javaClassify
  simp only [getLast?_ne_of_not_mem h, Bool.and_false, Bool.false_eq_true, if_false]

theorem containsSub_middle (m pre post : Str) : containsSub m (pre ++ (m ++ post)) = true := by
  induction pre with
  | nil =>
    cases hq : m ++ post with
    | nil =>
      have : m = [] := by cases m <;> simp_all
      subst this; simp [containsSub]
    | cons c r =>
      have hp : hasPrefix m (c :: r) = true := by rw [← hq]; exact hasPrefix_append m post
      simp [containsSub, hp]
  | cons b pre ih => simp [containsSub, ih]

theorem JavaLoc.classify (l : JavaLoc) (h : l.kind.wf = true) : javaClassify l.addr l.kind.print = l.info := by
  cases hk : l.kind with
  | fileLine f file line =>
    rw [hk] at h
    simp only [JavaLocKind.wf, Bool.and_eq_true, decide_eq_true_eq, List.all_eq_true, bne_iff_ne, ne_eq] at h
    obtain ⟨⟨⟨hf, hfile⟩, hcolon⟩, hline⟩ := h
    have e : (JavaLocKind.fileLine f file line).print = f ++ (asc " (" ++ ((file ++ 58 :: intStr line) ++ asc ")")) := by
      simp [JavaLocKind.print, List.append_assoc]
    obtain ⟨h1, h2, h3, h4⟩ := classify_paren f (file ++ 58 :: intStr line) hf
    rw [e]
    unfold javaClassify
    simp only [h1, h2, h3, h4, decide_true, List.head?_cons, beq_self_eq_true, Bool.and_self, if_true, List.drop_one,
      List.tail_cons]
    have hdl : ((file ++ 58 :: intStr line) ++ asc ")").dropLast = file ++ 58 :: intStr line := by
      rw [show asc ")" = [41] from rfl, List.dropLast_concat]
    rw [hdl, splitLastColon_file file _ (intStr_no_colon line)]
    have hfne : file.isEmpty = false := isEmpty_false_of_ne_nil (noSpaceOK_bytes hfile).1
    simp only [hfne, Bool.false_eq_true, if_false, parseSignedDec_intStr, Option.map_some, JavaLoc.info, hk]
    congr 1
    have hline' : line.natAbs < 9223372036854775808 := hline
    by_cases hpos : line > 0
    · have h63 : line < 9223372036854775808 := by omega
      simp [hpos, h63]
    · simp [hpos]
  | path f p =>
    rw [hk] at h
    simp only [JavaLocKind.wf, Bool.and_eq_true, List.all_eq_true, bne_iff_ne, ne_eq] at h
    obtain ⟨⟨hf, hp⟩, hcolon⟩ := h
    have e : (JavaLocKind.path f p).print = f ++ (asc " (" ++ (p ++ asc ")")) := by
      simp [JavaLocKind.print, List.append_assoc]
    obtain ⟨h1, h2, h3, h4⟩ := classify_paren f p hf
    rw [e]
    unfold javaClassify
    simp only [h1, h2, h3, h4, decide_true, List.head?_cons, beq_self_eq_true, Bool.and_self, if_true, List.drop_one,
      List.tail_cons]
    have hdl : (p ++ asc ")").dropLast = p := by
      rw [show asc ")" = [41] from rfl, List.dropLast_concat]
    rw [hdl, splitLastColon_none p hcolon]
    simp [JavaLoc.info, hk]
  | stub pre post =>
    rw [hk] at h
    simp only [JavaLocKind.wf, Bool.and_eq_true, List.all_eq_true, bne_iff_ne, ne_eq] at h
    have hno : (41 : UInt8) ∉ (JavaLocKind.stub pre post).print := by
      simp only [JavaLocKind.print, List.mem_append]
      rintro ((hm | hm) | hm)
      · exact (h.1.1 41 (by simp [hm])).2 rfl
      · revert hm; decide
      · exact (h.1.1 41 (by simp [hm])).2 rfl
    rw [classify_no_paren _ _ hno]
    have : containsSub stubMarker (JavaLocKind.stub pre post).print = true := by
      simp only [JavaLocKind.print, List.append_assoc]
      exact containsSub_middle _ _ _
    simp [this, JavaLoc.info, hk]
  | plain t =>
    rw [hk] at h
    simp only [JavaLocKind.wf, Bool.and_eq_true, List.all_eq_true, bne_iff_ne, ne_eq] at h
    have hno : (41 : UInt8) ∉ (JavaLocKind.plain t).print := by
      intro hm; exact (h.1.1.2 41 hm).1.2 rfl
    rw [classify_no_paren _ _ hno]
    have : containsSub stubMarker (JavaLocKind.plain t).print = false := by
      cases hq : containsSub stubMarker (JavaLocKind.plain t).print with
      | false => rfl
      | true =>
        have := containsSub_mem hq (by decide) 47 (by decide)
        exact absurd rfl ((h.1.1.2 47 this).2)
    simp only [JavaLocKind.print] at this ⊢
    simp [this, JavaLoc.info, hk]


/-! ### trailer lines: shape -/
/-- facts about the text after the address of a trailer line -/
structure KindShape (t : Str) : Prop where
  head : ∃ c r, t = c :: r ∧ isPrint c = true ∧ c.toNat ≠ 32
  back : Stops isSpace t.reverse
  bytes : ∀ b ∈ t, isPrint b = true ∧ b.toNat ≠ 64 ∧ b.toNat ≠ 61

theorem intStr_bytes (i : Int) : ∀ b ∈ intStr i, isPrint b = true ∧ b.toNat ≠ 64 ∧ b.toNat ≠ 61 := by
  intro b hb
  unfold intStr at hb
  have hd : ∀ n, b ∈ dec n → isPrint b = true ∧ b.toNat ≠ 64 ∧ b.toNat ≠ 61 := by
    intro n h
    have := dec_isDigit n b h
    refine ⟨isPrint_of_isDigit this, ?_, ?_⟩ <;> (simp only [isDigit, decide_eq_true_eq] at this; omega)
  split at hb
  · rcases List.mem_cons.1 hb with rfl | hb
    · decide
    · exact hd _ hb
  · exact hd _ hb

theorem javaByteOK_bytes {b : UInt8} (h : javaByteOK b = true) : isPrint b = true ∧ b.toNat ≠ 64 ∧ b.toNat ≠ 61 := by
  simp only [javaByteOK, Bool.and_eq_true, bne_iff_ne, ne_eq] at h
  exact ⟨h.1.1, h.1.2, h.2⟩

theorem lit_bytes (s : Str) (h : s.all (fun b => isPrint b && b.toNat != 64 && b.toNat != 61) = true) :
    ∀ b ∈ s, isPrint b = true ∧ b.toNat ≠ 64 ∧ b.toNat ≠ 61 := by
  intro b hb
  have := (List.all_eq_true.1 h) b hb
  simp only [Bool.and_eq_true, bne_iff_ne, ne_eq] at this
  exact ⟨this.1.1, this.1.2, this.2⟩

theorem shape_paren (f inner : Str) (hf : noSpaceOK f = true)
    (hi : ∀ b ∈ inner, isPrint b = true ∧ b.toNat ≠ 64 ∧ b.toNat ≠ 61) :
    KindShape (f ++ (asc " (" ++ (inner ++ asc ")"))) := by
  obtain ⟨hne, hb⟩ := noSpaceOK_bytes hf
  refine ⟨?_, ?_, ?_⟩
  · cases f with
    | nil => exact absurd rfl hne
    | cons c r => exact ⟨c, _, rfl, (hb c (by simp)).1, (hb c (by simp)).2.2.2⟩
  · rw [show f ++ (asc " (" ++ (inner ++ asc ")")) = (f ++ (asc " (" ++ inner)) ++ asc ")" by simp]
    exact Stops_reverse_append _ _ (by decide) (Stops_of_stopsB (by decide))
  · intro b hm
    simp only [List.mem_append] at hm
    rcases hm with hm | hm | hm | hm
    · exact ⟨(hb b hm).1, (hb b hm).2.1, (hb b hm).2.2.1⟩
    · exact lit_bytes _ (by decide) b hm
    · exact hi b hm
    · exact lit_bytes _ (by decide) b hm

theorem Stops_isSpace_of_match {t : Str} (hp : ∀ b ∈ t, isPrint b = true)
    (h : ∀ c r, t = c :: r → c.toNat ≠ 32) : Stops isSpace t := by
  cases t with
  | nil => simp
  | cons c r => simpa using isSpace_false_of_print (hp c (by simp)) (h c r rfl)

theorem head_of_match {t : Str} (h : (match t with | b :: _ => b.toNat != 32 | [] => true) = true) :
    ∀ c r, t = c :: r → c.toNat ≠ 32 := by
  intro c r e; subst e; simpa using h

theorem JavaLocKind.shape (k : JavaLocKind) (h : k.wf = true) : KindShape k.print := by
  cases k with
  | fileLine f file line =>
    simp only [JavaLocKind.wf, Bool.and_eq_true, List.all_eq_true] at h
    have e : (JavaLocKind.fileLine f file line).print = f ++ (asc " (" ++ ((file ++ 58 :: intStr line) ++ asc ")")) := by
      simp [JavaLocKind.print, List.append_assoc]
    rw [e]
    apply shape_paren f _ h.1.1.1
    intro b hm
    simp only [List.mem_append, List.mem_cons] at hm
    rcases hm with hm | rfl | hm
    · have := (noSpaceOK_bytes h.1.1.2).2 b hm; exact ⟨this.1, this.2.1, this.2.2.1⟩
    · decide
    · exact intStr_bytes line b hm
  | path f p =>
    simp only [JavaLocKind.wf, Bool.and_eq_true, List.all_eq_true] at h
    have e : (JavaLocKind.path f p).print = f ++ (asc " (" ++ (p ++ asc ")")) := by
      simp [JavaLocKind.print, List.append_assoc]
    rw [e]
    apply shape_paren f _ h.1.1
    intro b hm
    have := (noSpaceOK_bytes h.1.2).2 b hm; exact ⟨this.1, this.2.1, this.2.2.1⟩
  | stub pre post =>
    simp only [JavaLocKind.wf, Bool.and_eq_true, List.all_eq_true, bne_iff_ne, ne_eq] at h
    obtain ⟨⟨hall, hpre⟩, hpost⟩ := h
    have hb : ∀ b ∈ pre ++ post, isPrint b = true ∧ b.toNat ≠ 64 ∧ b.toNat ≠ 61 :=
      fun b hb => javaByteOK_bytes (hall b hb).1
    have hprint : ∀ b ∈ pre, isPrint b = true := fun b hb' => (hb b (by simp [hb'])).1
    have hprint2 : ∀ b ∈ post.reverse, isPrint b = true := fun b hb' => (hb b (by simp at hb'; simp [hb'])).1
    simp only [JavaLocKind.print]
    refine ⟨?_, ?_, ?_⟩
    · cases pre with
      | nil => exact ⟨103, _, rfl, by decide, by decide⟩
      | cons c r =>
        simp only [bne_iff_ne, ne_eq] at hpre
        exact ⟨c, _, rfl, hprint c (by simp), hpre⟩
    · cases hq : post with
      | nil =>
        simp only [List.append_nil]
        exact Stops_reverse_append _ _ (by decide) (Stops_of_stopsB (by decide))
      | cons c r =>
        rw [← hq]
        apply Stops_reverse_append _ _ (by rw [hq]; simp)
        exact Stops_isSpace_of_match hprint2 (head_of_match hpost)
    · intro b hm
      simp only [List.mem_append] at hm
      rcases hm with (hm | hm) | hm
      · exact hb b (by simp [hm])
      · exact lit_bytes _ (by decide) b hm
      · exact hb b (by simp [hm])
  | plain t =>
    simp only [JavaLocKind.wf, Bool.and_eq_true, List.all_eq_true, bne_iff_ne, ne_eq] at h
    obtain ⟨⟨⟨hne, hall⟩, hfront⟩, hback⟩ := h
    have hb : ∀ b ∈ t, isPrint b = true ∧ b.toNat ≠ 64 ∧ b.toNat ≠ 61 := fun b hb => javaByteOK_bytes (hall b hb).1.1
    simp only [JavaLocKind.print]
    refine ⟨?_, ?_, hb⟩
    · cases t with
      | nil => simp at hne
      | cons c r =>
        simp only [bne_iff_ne, ne_eq] at hfront
        exact ⟨c, r, rfl, (hb c (by simp)).1, hfront⟩
    · exact Stops_isSpace_of_match (fun b hb' => (hb b (by simpa using hb')).1) (head_of_match hback)


/-! ### the trailer loop -/
def JavaLoc.core (l : JavaLoc) : Str := hex0x l.width l.addr ++ (sp (l.gap + 1) ++ l.kind.print)

theorem JavaLoc.print_eq (l : JavaLoc) : l.print = sp l.indent ++ l.core := by
  simp [JavaLoc.print, JavaLoc.core, List.append_assoc]

theorem JavaLoc.trim (l : JavaLoc) (hs : KindShape l.kind.print) : trimSpace l.print = l.core := by
  rw [l.print_eq]
  apply trimSpace_replicate
  · simp [JavaLoc.core, hex0x]; decide
  · unfold JavaLoc.core
    rw [← List.append_assoc]
    obtain ⟨c, r, hcr, _, _⟩ := hs.head
    exact Stops_reverse_append _ _ (by rw [hcr]; simp) hs.back

theorem matchJavaLoc_core (l : JavaLoc) (hs : KindShape l.kind.print) :
    matchJavaLoc l.core = some (hexPad l.width l.addr, l.kind.print) := by
  obtain ⟨c, r, hcr, hcp, hc32⟩ := hs.head
  have hcS : Stops isReSpace l.kind.print := by rw [hcr]; simpa using isReSpace_false_of_print hcp hc32
  have e : l.core = asc "0x" ++ (hexPad l.width l.addr ++ (sp (l.gap + 1) ++ l.kind.print)) := by
    simp [JavaLoc.core, hex0x, asc]
  unfold matchJavaLoc
  rw [e, dropWhile_stops (p := isReSpace) (by simp [asc]; decide) |> fun h => (show skipReSpace _ = _ from h)]
  rw [stripPrefix_append]
  simp only [Option.bind_eq_bind, Option.bind_some]
  have hS : Stops isXDigit (sp (l.gap + 1) ++ l.kind.print) := by simp [sp_succ, isXDigit_32]
  rw [takeWhile_append_stops (hexPad_isXDigit _ _) hS, dropWhile_append_stops (hexPad_isXDigit _ _) hS]
  simp only [isEmpty_false_of_ne_nil (hexPad_ne_nil _ _), Bool.false_eq_true, if_false]
  rw [skipReSpace_sp _ _ hcS]
  have : (l.kind.print.length == (sp (l.gap + 1) ++ l.kind.print).length) = false := by simp [sp]
  have hsp : sp (l.gap + 1) ≠ [] := by simp [sp]
  simp [this, hsp]

theorem javaLocLoop_loc (l : JavaLoc) (hk : l.kind.wf = true) (ha : l.addr < two64) (R : List Str) (is : List JavaInfo)
    (hR : javaLocLoop R = .ok is) : javaLocLoop (l.print :: R) = .ok (l.info :: is) := by
  have hs := l.kind.shape hk
  have hne : l.core.isEmpty = false := by simp [JavaLoc.core, hex0x]
  rw [javaLocLoop]
  simp only [l.trim hs, hne, Bool.false_eq_true, if_false, matchJavaLoc_core l hs, parseU64Hex_hexPad ha, hR,
    l.classify hk]

theorem trimSpace_filler_cases (f : Filler) : trimSpace f.print = [] ∨ ∃ t', trimSpace f.print = 35 :: t' := by
  unfold Filler.print
  cases f.comment with
  | none => left; simp [trimSpace_blank]
  | some t =>
    right
    simp only [trimSpace]
    rw [trimLeft_replicate _ _ (by simp; decide)]
    exact trimRight_cons (c := 35) t (by decide)

theorem javaLocLoop_filler (f : Filler) (R : List Str) : javaLocLoop (f.print :: R) = javaLocLoop R := by
  rw [javaLocLoop]
  rcases trimSpace_filler_cases f with h | ⟨t', h⟩
  · simp [h]
  · have : matchJavaLoc (35 :: t') = none := by
      unfold matchJavaLoc
      have : skipReSpace (35 :: t') = 35 :: t' := dropWhile_stops (by simp; decide)
      rw [this]; simp [stripPrefix, asc]
    simp [h, this]

theorem javaLocLoop_blanks (n : Nat) (R : List Str) : javaLocLoop (List.replicate n [] ++ R) = javaLocLoop R := by
  induction n with
  | zero => rfl
  | succ n ih =>
    have : trimSpace ([] : Str) = [] := by decide
    simp only [List.replicate_succ, List.cons_append]
    rw [javaLocLoop]
    simp [this, ih]

theorem javaLocLoop_skip (Ls : List Str) : javaLocLoop (Ls.dropWhile isBlankLine) = javaLocLoop Ls := by
  induction Ls with
  | nil => rfl
  | cons l Ls ih =>
    by_cases hb : isBlankLine l = true
    · simp only [List.dropWhile_cons, hb, if_true]
      rw [ih]
      conv => rhs; rw [javaLocLoop]
      simp only [isBlankLine] at hb
      simp [hb]
    · simp [List.dropWhile_cons, hb]

theorem javaLocLoop_locs (ls : List JavaLoc) (h : ∀ l ∈ ls, l.kind.wf = true ∧ l.addr < two64) :
    javaLocLoop (ls.flatMap (fun l => printFillers l.fill ++ [l.print])) = .ok (ls.map JavaLoc.info) := by
  induction ls with
  | nil => rfl
  | cons l ls ih =>
    have hfill : ∀ (fs : List Filler) (R : List Str), javaLocLoop (printFillers fs ++ R) = javaLocLoop R := by
      intro fs R
      induction fs with
      | nil => rfl
      | cons f fs ihf => simpa [printFillers, javaLocLoop_filler] using ihf
    simp only [List.flatMap_cons, List.append_assoc, hfill, List.singleton_append, List.map_cons]
    exact javaLocLoop_loc l (h l (by simp)).1 (h l (by simp)).2 _ _ (ih (fun x hx => h x (by simp [hx])))


/-! ### the whole document -/
def JavaDoc.recLines (d : JavaDoc) : List Str := d.recs.flatMap (fun r => List.replicate r.blanks [] ++ [r.print d.width])
def JavaDoc.locLines (d : JavaDoc) : List Str := d.locs.flatMap (fun l => printFillers l.fill ++ [l.print])

theorem JavaDoc.lines_eq (d : JavaDoc) :
    d.lines = d.headLine :: (d.attrLines ++ (d.recLines ++ (List.replicate d.blanksAfter [] ++ d.locLines))) := by
  simp [JavaDoc.lines, JavaDoc.recLines, JavaDoc.locLines, List.append_assoc]

theorem LineOK_javaAttr (spaced : Bool) (k v : Str) (hk : LineOK k) (hv : LineOK v) : LineOK (javaAttr spaced k v) := by
  have : LineOK (if spaced then asc " = " else asc "=") := by cases spaced <;> decide
  unfold javaAttr
  exact LineOK_append (LineOK_append hk this) hv

theorem LineOK_attrLines (d : JavaDoc) (hr : LineOK d.resolution) : ∀ l ∈ d.attrLines, LineOK l := by
  have h1 : LineOK (asc "format") := by decide
  have h2 : LineOK (asc "java") := by decide
  have h3 : LineOK (asc "resolution") := by decide
  have h4 : LineOK (asc "sampling period") := by decide
  have h5 : LineOK (asc "ms since reset") := by decide
  intro l hl
  unfold JavaDoc.attrLines at hl
  cases hf : d.format <;> cases hh : d.heap <;> cases hs : d.samplingPeriod <;> cases hm : d.msSinceReset <;>
    simp [hf, hh, hs, hm] at hl
  all_goals first
    | (rcases hl with rfl | rfl | rfl | rfl)
    | (rcases hl with rfl | rfl | rfl)
    | (rcases hl with rfl | rfl)
    | (subst hl)
  all_goals first
    | exact LineOK_javaAttr _ _ _ h1 h2
    | exact LineOK_javaAttr _ _ _ h3 hr
    | exact LineOK_javaAttr _ _ _ h4 (LineOK_dec _)
    | exact LineOK_javaAttr _ _ _ h5 (LineOK_dec _)

theorem JavaRec.core_bytes (w : Nat) (r : JavaRec) : ∀ b ∈ r.core w, b.toNat ≠ 61 ∧ b.toNat ≠ 10 ∧ b.toNat ≠ 13 := by
  intro b hb
  simp only [JavaRec.core, List.mem_append, List.mem_cons, sp, List.mem_replicate] at hb
  have hd : ∀ n, b ∈ dec n → b.toNat ≠ 61 ∧ b.toNat ≠ 10 ∧ b.toNat ≠ 13 := by
    intro n h
    have := dec_isDigit n b h
    simp only [isDigit, decide_eq_true_eq] at this; omega
  rcases hb with h | h | h | h | h | h
  · exact hd _ h
  · rw [h.2]; decide
  · exact hd _ h
  · rw [h.2]; decide
  · rw [h]; decide
  · have := printAddrs_isAddrText w r.addrs b h
    simp only [isAddrText, isHexLower, isDigit, Bool.or_eq_true, beq_iff_eq, decide_eq_true_eq] at this
    omega

theorem JavaRec.print_bytes (w : Nat) (r : JavaRec) : ∀ b ∈ r.print w, b.toNat ≠ 61 ∧ b.toNat ≠ 10 ∧ b.toNat ≠ 13 := by
  intro b hb
  rw [r.print_eq] at hb
  rcases List.mem_append.1 hb with h | h
  · simp only [sp, List.mem_replicate] at h; rw [h.2]; decide
  · exact r.core_bytes w b h

theorem JavaLoc.print_bytes (l : JavaLoc) (hk : l.kind.wf = true) :
    ∀ b ∈ l.print, b.toNat ≠ 61 ∧ b.toNat ≠ 64 ∧ b.toNat ≠ 10 ∧ b.toNat ≠ 13 := by
  have hs := l.kind.shape hk
  intro b hb
  rw [l.print_eq] at hb
  simp only [JavaLoc.core, hex0x, List.mem_append, List.mem_cons, sp, List.mem_replicate] at hb
  rcases hb with h | (h | h | h) | h | h
  · rw [h.2]; decide
  · rw [h]; decide
  · rw [h]; decide
  · have := hexPad_isHexLower _ _ b h
    simp only [isHexLower, isDigit, Bool.or_eq_true, decide_eq_true_eq] at this; omega
  · rw [h.2]; decide
  · have := hs.bytes b h
    have hp := this.1
    simp only [isPrint, decide_eq_true_eq] at hp
    exact ⟨this.2.2, this.2.1, by omega, by omega⟩

theorem filler_bytes {f : Filler} (h : f.wf = true) : ∀ b ∈ f.print, b.toNat ≠ 61 := by
  intro b hb
  unfold Filler.print at hb
  rcases List.mem_append.1 hb with hb | hb
  · rw [List.mem_replicate] at hb; rw [hb.2]; decide
  · cases hc : f.comment with
    | none => simp [hc] at hb
    | some t =>
      simp only [hc, List.mem_cons] at hb
      rcases hb with rfl | hb
      · decide
      · simp only [Filler.wf, hc, commentOK, List.all_eq_true, Bool.and_eq_true, bne_iff_ne, ne_eq] at h
        exact (h b hb).1.2

theorem filler_no_at {f : Filler} (h : f.comment.all (fun t => t.all (fun b => b.toNat != 64)) = true) :
    ∀ b ∈ f.print, b ≠ (64 : UInt8) := by
  intro b hb
  unfold Filler.print at hb
  rcases List.mem_append.1 hb with hb | hb
  · rw [List.mem_replicate] at hb; rw [hb.2]; decide
  · cases hc : f.comment with
    | none => simp [hc] at hb
    | some t =>
      simp only [hc, List.mem_cons] at hb
      rcases hb with rfl | hb
      · decide
      · simp only [hc, Option.all_some, List.all_eq_true, bne_iff_ne, ne_eq] at h
        intro e; subst e; exact h 64 hb rfl

theorem parseJava_printJava (scale : ScaleFn) (d : JavaDoc) (h : d.wf = true) :
    parseJavaProfile scale (printJava d) = .ok (expectedJava scale d) := by
  simp only [JavaDoc.wf, Bool.and_eq_true, List.all_eq_true, decide_eq_true_eq, bne_iff_ne, ne_eq, Bool.or_eq_true,
    Bool.not_eq_true'] at h
  obtain ⟨⟨⟨⟨⟨hresne, hresw⟩, hsp⟩, hms⟩, hrecs⟩, hlocs⟩ := h
  have hres : WordText d.resolution := wordText_resolution hresne (List.all_eq_true.2 hresw)
  have hlocwf : ∀ l ∈ d.locs, l.kind.wf = true ∧ l.addr < two64 := fun l hl => ⟨(hlocs l hl).2, (hlocs l hl).1.2⟩
  -- byte facts about the lines after the attributes
  have hloc61 : ∀ l ∈ d.locLines, ∀ b ∈ l, b.toNat ≠ 61 ∧ b ≠ (64 : UInt8) ∧ b.toNat ≠ 10 ∧ b.toNat ≠ 13 := by
    intro l hl b hb
    simp only [JavaDoc.locLines, List.mem_flatMap, List.mem_append, List.mem_singleton] at hl
    obtain ⟨jl, hjl, hl⟩ := hl
    rcases hl with hl | hl
    · simp only [printFillers, List.mem_map] at hl
      obtain ⟨f, hf, rfl⟩ := hl
      have hfw := (hlocs jl hjl).1.1 f hf
      have hok := LineOK_filler hfw.1 b hb
      exact ⟨filler_bytes hfw.1 b hb, filler_no_at (by
        cases hc : f.comment with
        | none => rfl
        | some t => simpa [hc, List.all_eq_true] using hfw.2) b hb, hok.1, hok.2⟩
    · subst hl
      have := jl.print_bytes (hlocs jl hjl).2 b hb
      exact ⟨this.1, fun e => this.2.1 (by rw [e]; rfl), this.2.2.1, this.2.2.2⟩
  have hrec61 : ∀ l ∈ d.recLines, ∀ b ∈ l, b.toNat ≠ 61 ∧ b.toNat ≠ 10 ∧ b.toNat ≠ 13 := by
    intro l hl b hb
    simp only [JavaDoc.recLines, List.mem_flatMap, List.mem_append, List.mem_replicate, List.mem_singleton] at hl
    obtain ⟨r, _, hl⟩ := hl
    rcases hl with hl | hl
    · rw [hl.2] at hb; cases hb
    · subst hl; exact r.print_bytes d.width b hb
  have hblank : ∀ n, ∀ l ∈ List.replicate n ([] : Str), ∀ b ∈ l, False := by
    intro n l hl b hb; rw [List.mem_replicate] at hl; rw [hl.2] at hb; cases hb
  -- lines survive printing
  have hlines : splitNL (printJava d) = (d.lines, []) := by
    apply splitNL_unlines
    intro l hl
    rw [d.lines_eq] at hl
    simp only [List.mem_cons, List.mem_append] at hl
    rcases hl with rfl | hl | hl | hl | hl
    · unfold JavaDoc.headLine; cases d.heap <;> decide
    · have hr : LineOK d.resolution := LineOK_of_isPrint (fun b hb => by
        have := hres.word b hb
        simp only [isWordOrSp, isWord, isDigit, Bool.or_eq_true, decide_eq_true_eq, beq_iff_eq] at this
        simp only [isPrint, decide_eq_true_eq]; omega)
      have h1 : LineOK (asc "format") := by decide
      have h2 : LineOK (asc "java") := by decide
      have h3 : LineOK (asc "resolution") := by decide
      have h4 : LineOK (asc "sampling period") := by decide
      have h5 : LineOK (asc "ms since reset") := by decide
      exact LineOK_attrLines d hr l hl
    · intro b hb; exact (hrec61 l hl b hb).2
    · intro b hb; exact (hblank _ l hl b hb).elim
    · intro b hb; exact ⟨(hloc61 l hl b hb).2.2.1, (hloc61 l hl b hb).2.2.2⟩
  unfold parseJavaProfile
  rw [hlines, d.lines_eq]
  have hhead : (if trimSpace d.headLine == asc "--- heapz 1 ---" then some true
      else if trimSpace d.headLine == asc "--- contentionz 1 ---" then some false else none) = some d.heap := by
    unfold JavaDoc.headLine; cases d.heap <;> decide
  simp only [hhead]
  -- header loop
  have hsp' : d.samplingPeriod.all (· < two63) = true := by
    cases hq : d.samplingPeriod with
    | none => rfl
    | some p => simpa [hq] using hsp
  have hms' : d.msSinceReset.all (· < two63) = true := by
    cases hq : d.msSinceReset with
    | none => rfl
    | some p => simpa [hq] using hms
  have hH := javaHeaderLoop_attrs d hres hsp' hms' (d.recLines ++ (List.replicate d.blanksAfter [] ++ d.locLines))
  unfold hdrState0 at hH
  rw [hH, javaHeaderLoop_stop d.heap _ (by
    intro l hl b hb
    simp only [List.mem_append] at hl
    rcases hl with hl | hl | hl
    · exact (hrec61 l hl b hb).1
    · exact (hblank _ l hl b hb).elim
    · exact (hloc61 l hl b hb).1)]
  simp only []
  -- sample loop
  have hrecs' : ∀ r ∈ d.recs, r.first < two63 ∧ r.second < two63 ∧ r.addrs ≠ [] ∧ (∀ x ∈ r.addrs, x < two64) ∧
      (d.heap = true → r.second ≠ 0) := by
    intro r hr
    have := hrecs r hr
    refine ⟨this.1.1.1.1, this.1.1.1.2, this.1.1.2, this.1.2, ?_⟩
    intro hh
    rcases this.2 with h1 | h1
    · rw [hh] at h1; cases h1
    · exact h1
  rw [javaSampleLoop_skip]
  unfold JavaDoc.recLines
  rw [javaSampleLoop_recs scale d.heap _ d.width d.recs hrecs', javaSampleLoop_stop _ _ _ _ (by
    intro l hl b hb
    simp only [List.mem_append] at hl
    rcases hl with hl | hl
    · exact (hblank _ l hl b hb).elim
    · exact (hloc61 l hl b hb).2.1)]
  simp only [List.append_nil, List.reverse_reverse, List.isEmpty_nil, if_true]
  rw [javaLocLoop_skip, javaLocLoop_blanks]
  unfold JavaDoc.locLines
  rw [javaLocLoop_locs d.locs hlocwf]
  simp only [expectedJava, JavaDoc.hdrState]
  have hheap : d.header.heap = d.heap := by unfold JavaDoc.header; cases d.heap <;> rfl
  have hhdr : (⟨d.header.sampleType, d.header.periodType, d.header.period, d.header.durationNanos, d.heap⟩ : JavaHeader)
      = d.header := by
    rw [← hheap]
  simp only [hhdr]
  have hchk : checkSampleTypes (javaAssemble d.header
      (List.map (fun r => javaSample scale d.heap d.header.period r.first r.second r.addrs) d.recs)
      (List.map JavaLoc.info d.locs)) = true := by
    have hst : d.header.sampleType.length = 2 := by unfold JavaDoc.header; cases d.heap <;> rfl
    simp only [checkSampleTypes, javaAssemble, hst, List.all_map, Bool.and_eq_true, List.all_eq_true]
    refine ⟨by simp, ?_⟩
    intro r _
    unfold javaSample
    cases d.heap <;> simp
    split <;> simp
  simp only [hchk, if_true]

end PV.Legacy
