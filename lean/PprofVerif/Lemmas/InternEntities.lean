import PprofVerif.Lemmas.Intern
/-!
# Entity lemmas for `postDecode ∘ preEncode` (property C01, second half)

For every entity kind whose strings are interned by `preEncode` (ValueType, Mapping, Function,
single header strings / comments) a relation "`x` encodes `a` in table `t`" (`VTRel`, `MapRel`,
`FunRel`, `Res`): stable under table extension, established by the pre-function (which keeps
the table invariant and only extends the table), and sufficient for the post-function to give
back the original entity.  Core Lean only.
-/
namespace PV
namespace Codec

/-- the shape shared by all interning steps: invariant kept, table extended, `R` established
in the resulting table -/
def StepOK {α} (t : StrTab) (r : α × StrTab) (R : StrTab → α → Prop) : Prop :=
  TabInv r.2 ∧ t <+: r.2 ∧ R r.2 r.1

/-! ### a single string (header fields, comments) -/

theorem add_spec (s : Str) (t : StrTab) (h : TabInv t) :
    StepOK t (add s t) (fun t' i => Res t' i s) :=
  ⟨addString_inv t s h, addString_fst_prefix t s, addString_res t s⟩

/-! ### ValueType -/

def VTRel (t : StrTab) (v : ValueType) (x : ValueTypeX) : Prop :=
  Res t x.typeX v.typ ∧ Res t x.unitX v.unit

theorem VTRel.mono {t t' : StrTab} {v : ValueType} {x : ValueTypeX} (h : t <+: t') (hr : VTRel t v x) :
    VTRel t' v x := ⟨hr.1.mono h, hr.2.mono h⟩

theorem preValueType_run (v : ValueType) (t : StrTab) :
    preValueType v t = ({ typeX := (addString t v.typ).2, unitX := (addString (addString t v.typ).1 v.unit).2 },
      (addString (addString t v.typ).1 v.unit).1) := rfl

theorem preValueType_spec (v : ValueType) (t : StrTab) (h : TabInv t) :
    StepOK t (preValueType v t) (fun t' x => VTRel t' v x) := by
  rw [preValueType_run]
  have h1 := addString_spec t v.typ h
  have h2 := addString_spec _ v.unit h1.1
  exact ⟨h2.1, h1.2.1.trans h2.2.1, h1.2.2.mono h2.2.1, h2.2.2⟩

theorem postValueType_of_VTRel {tab : StrTab} {v : ValueType} {x : ValueTypeX} (h : VTRel tab v x) :
    postValueType tab x = .ok v := by
  unfold postValueType
  rw [getString_of_Res h.1, Outcome.bind_ok, getString_of_Res h.2, Outcome.bind_ok]; rfl

/-! ### Mapping -/

def MapRel (t : StrTab) (m : Mapping) (x : MappingX) : Prop :=
  x.id = m.id ∧ x.start = m.start ∧ x.limit = m.limit ∧ x.offset = m.offset ∧
  x.hasFunctions = m.hasFunctions ∧ x.hasFilenames = m.hasFilenames ∧
  x.hasLineNumbers = m.hasLineNumbers ∧ x.hasInlineFrames = m.hasInlineFrames ∧
  Res t x.fileX m.file ∧ Res t x.buildIDX m.buildID

theorem MapRel.mono {t t' : StrTab} {m : Mapping} {x : MappingX} (h : t <+: t') (hr : MapRel t m x) :
    MapRel t' m x := by
  obtain ⟨a, b, c, d, e, f, g, i, r1, r2⟩ := hr
  exact ⟨a, b, c, d, e, f, g, i, r1.mono h, r2.mono h⟩

theorem preMapping_run (m : Mapping) (t : StrTab) :
    preMapping m t = (MappingX.mk m.id m.start m.limit m.offset
        (addString t m.file).2 (addString (addString t m.file).1 m.buildID).2
         m.hasFunctions m.hasFilenames m.hasLineNumbers m.hasInlineFrames,
      (addString (addString t m.file).1 m.buildID).1) := rfl

theorem preMapping_spec (m : Mapping) (t : StrTab) (h : TabInv t) :
    StepOK t (preMapping m t) (fun t' x => MapRel t' m x) := by
  rw [preMapping_run]
  have h1 := addString_spec t m.file h
  have h2 := addString_spec _ m.buildID h1.1
  exact ⟨h2.1, h1.2.1.trans h2.2.1, rfl, rfl, rfl, rfl, rfl, rfl, rfl, rfl, h1.2.2.mono h2.2.1, h2.2.2⟩

theorem postMapping_of_MapRel {tab : StrTab} {m : Mapping} {x : MappingX} (h : MapRel tab m x) :
    postMapping tab x = .ok m := by
  obtain ⟨a, b, c, d, e, f, g, i, r1, r2⟩ := h
  unfold postMapping
  rw [getString_of_Res r1, Outcome.bind_ok, getString_of_Res r2, Outcome.bind_ok, a, b, c, d, e, f, g, i]; rfl

/-! ### Function -/

def FunRel (t : StrTab) (f : Function) (x : FunctionX) : Prop :=
  x.id = f.id ∧ x.startLine = f.startLine ∧
  Res t x.nameX f.name ∧ Res t x.systemNameX f.systemName ∧ Res t x.filenameX f.filename

theorem FunRel.mono {t t' : StrTab} {f : Function} {x : FunctionX} (h : t <+: t') (hr : FunRel t f x) :
    FunRel t' f x := by
  obtain ⟨a, b, r1, r2, r3⟩ := hr
  exact ⟨a, b, r1.mono h, r2.mono h, r3.mono h⟩

theorem preFunction_run (f : Function) (t : StrTab) :
    preFunction f t = (FunctionX.mk f.id (addString t f.name).2
        (addString (addString t f.name).1 f.systemName).2
        (addString (addString (addString t f.name).1 f.systemName).1 f.filename).2 f.startLine,
      (addString (addString (addString t f.name).1 f.systemName).1 f.filename).1) := rfl

theorem preFunction_spec (f : Function) (t : StrTab) (h : TabInv t) :
    StepOK t (preFunction f t) (fun t' x => FunRel t' f x) := by
  rw [preFunction_run]
  have h1 := addString_spec t f.name h
  have h2 := addString_spec _ f.systemName h1.1
  have h3 := addString_spec _ f.filename h2.1
  exact ⟨h3.1, (h1.2.1.trans h2.2.1).trans h3.2.1, rfl, rfl, (h1.2.2.mono h2.2.1).mono h3.2.1,
    h2.2.2.mono h3.2.1, h3.2.2⟩

theorem postFunction_of_FunRel {tab : StrTab} {f : Function} {x : FunctionX} (h : FunRel tab f x) :
    postFunction tab x = .ok f := by
  obtain ⟨a, b, r1, r2, r3⟩ := h
  unfold postFunction
  rw [getString_of_Res r1, Outcome.bind_ok, getString_of_Res r2, Outcome.bind_ok,
    getString_of_Res r3, Outcome.bind_ok, a, b]; rfl

/-! ### lists of entities -/

/-- `tab_mapM_spec` in `StepOK` form -/
theorem tab_mapM_stepOK {α β} (f : α → Tab β) (R : StrTab → α → β → Prop)
    (hmono : ∀ t t' a b, t <+: t' → R t a b → R t' a b)
    (hf : ∀ a t, TabInv t → StepOK t (f a t) (fun t' x => R t' a x)) (l : List α) (t : StrTab) (h : TabInv t) :
    StepOK t (l.mapM f t) (fun t' xs => All2 (R t') l xs) :=
  tab_mapM_spec f R hmono hf l t h

theorem All2.mono_tab {α β} {R : StrTab → α → β → Prop}
    (hmono : ∀ t t' a b, t <+: t' → R t a b → R t' a b) {t t' : StrTab} (h : t <+: t') {l : List α} {m : List β}
    (hr : All2 (R t) l m) : All2 (R t') l m :=
  All2.mono (fun a b => hmono t t' a b h) hr

theorem All2.map_eq {α β γ} {R : α → β → Prop} (p : α → γ) (q : β → γ) (h : ∀ a b, R a b → q b = p a) :
    ∀ {l m}, All2 R l m → m.map q = l.map p
  | _, _, .nil => rfl
  | _, _, .cons hab hr => by simp only [List.map_cons, h _ _ hab, All2.map_eq p q h hr]

theorem All2.forall_right {α β} {R : α → β → Prop} : ∀ {l m}, All2 R l m → ∀ b ∈ m, ∃ a ∈ l, R a b
  | _, _, .nil, b, hb => by cases hb
  | _, _, .cons hab hr, b, hb => by
    rcases List.mem_cons.mp hb with rfl | hb
    · exact ⟨_, by simp, hab⟩
    · obtain ⟨a, ha, h⟩ := All2.forall_right hr b hb
      exact ⟨a, List.mem_cons_of_mem _ ha, h⟩

end Codec
end PV
