import PprofVerif.Lemmas.DotEscape
import PprofVerif.Lemmas.CallgrindNum
import PprofVerif.Model.DotEmit
/-! C18 helper lemmas: every quoted string the (repaired) DOT emitter assembles is safe between
    quotes.  Core Lean only. -/
namespace PV.Dot
open PV.Callgrind (dec hex decLE hexLE decDigit)

def Plain (s : Bytes) : Prop := ∀ b ∈ s, b ≠ BS ∧ b ≠ DQ

theorem qsafeA_plain (s : Bytes) (h : Plain s) : qsafeA false s = true := by
  induction s with
  | nil => rfl
  | cons x t ih =>
    have hx := h x (by simp)
    simp only [qsafeA, hx.2, hx.1, if_false]
    exact ih (fun b hb => h b (by simp [hb]))

theorem qsafeB_plain (s : Bytes) (h : Plain s) : qsafeB s = true := qsafeA_plain s h

/-- consuming a non-empty run of plain bytes from either scanner state leaves the state "not
after a backslash" -/
theorem qsafeA_plain_prefix (old t : Bytes) (hne : old ≠ []) (h : Plain old) (esc : Bool) :
    qsafeA esc (old ++ t) = qsafeA false t := by
  cases old with
  | nil => exact absurd rfl hne
  | cons x r =>
    have hr : Plain r := fun b hb => h b (by simp [hb])
    have hplain : ∀ (r : Bytes), Plain r → qsafeA false (r ++ t) = qsafeA false t := by
      intro r hr
      induction r with
      | nil => rfl
      | cons y u ih =>
        have hy := hr y (by simp)
        simp only [List.cons_append, qsafeA, hy.2, hy.1, if_false]
        exact ih (fun b hb => hr b (by simp [hb]))
    cases esc
    · have hx := h x (by simp)
      simp only [List.cons_append, qsafeA, hx.2, hx.1, if_false]
      exact hplain r hr
    · simp only [List.cons_append, qsafeA]
      exact hplain r hr

theorem isPrefixOf_eq_append (old s : Bytes) (h : old.isPrefixOf s = true) :
    s = old ++ s.drop old.length := by
  induction old generalizing s with
  | nil => simp
  | cons x r ih =>
    cases s with
    | nil => simp [List.isPrefixOf] at h
    | cons y t =>
      simp only [List.isPrefixOf, Bool.and_eq_true, beq_iff_eq] at h
      obtain ⟨hxy, hrt⟩ := h
      subst hxy
      simp only [List.length_cons, List.drop_succ_cons, List.cons_append]
      congr 1
      exact ih t hrt

/-- **`strings.Replace` on already escaped text**: if the pattern contains neither a backslash nor
a quote (so it cannot cut an escape unit) and the replacement is safe both at the start of a unit
and as the tail of a `\x` unit, the result is still safe between quotes. -/
theorem qsafeA_replaceAllF (old new : Bytes) (hne : old ≠ []) (hold : Plain old)
    (hn0 : qsafeA false new = true) (hn1 : qsafeA true new = true) :
    ∀ (f : Nat) (esc : Bool) (s : Bytes), qsafeA esc s = true → qsafeA esc (replaceAllF f old new s) = true := by
  intro f
  induction f with
  | zero => intro esc s h; simpa [replaceAllF] using h
  | succ f ih =>
    intro esc s h
    cases s with
    | nil => simpa [replaceAllF] using h
    | cons b r =>
      simp only [replaceAllF]
      split
      · rename_i hp
        have hs := isPrefixOf_eq_append old (b :: r) hp
        rw [hs, qsafeA_plain_prefix old _ hne hold esc] at h
        have hnew : qsafeA esc new = true := by cases esc <;> assumption
        exact qsafeA_append new _ esc hnew (ih false _ h)
      · cases esc
        · by_cases hb : b = DQ
          · simp [qsafeA, hb] at h
          · by_cases hbs : b = BS
            · subst hbs
              have h' : qsafeA true r = true := by simpa [qsafeA, BS_ne_DQ] using h
              simpa [qsafeA, BS_ne_DQ] using ih true r h'
            · have h' : qsafeA false r = true := by simpa [qsafeA, hb, hbs] using h
              simpa [qsafeA, hb, hbs] using ih false r h'
        · have h' : qsafeA false r = true := by simpa [qsafeA] using h
          simpa [qsafeA] using ih false r h'

theorem qsafeB_replaceAll (old new s : Bytes) (hne : old ≠ []) (hold : Plain old)
    (hn0 : qsafeA false new = true) (hn1 : qsafeA true new = true) (h : qsafeB s = true) :
    qsafeB (replaceAll old new s) = true :=
  qsafeA_replaceAllF old new hne hold hn0 hn1 _ false s h

theorem qsafeB_join (sep : Bytes) (hsep : qsafeB sep = true) (parts : List Bytes)
    (h : ∀ p ∈ parts, qsafeB p = true) : qsafeB (join sep parts) = true := by
  induction parts with
  | nil => rfl
  | cons p rest ih =>
    cases rest with
    | nil => simpa [join] using h p (by simp)
    | cons q rest' =>
      simp only [join]
      have hp := h p (by simp)
      have hrest := ih (fun x hx => h x (by simp [hx]))
      exact qsafeB_append _ _ (qsafeB_append _ _ hp hsep) hrest

theorem qsafeB_nil : qsafeB [] = true := rfl

/-! plain text: decimal and hexadecimal numbers -/

theorem decDigit_plain {d : Nat} (h : d < 10) : decDigit d ≠ BS ∧ decDigit d ≠ DQ := by
  have : ∀ d < 10, decDigit d ≠ BS ∧ decDigit d ≠ DQ := by decide
  exact this d h

theorem hexDigit_plain {d : Nat} (h : d < 16) : Callgrind.hexDigit d ≠ BS ∧ Callgrind.hexDigit d ≠ DQ := by
  have : ∀ d < 16, Callgrind.hexDigit d ≠ BS ∧ Callgrind.hexDigit d ≠ DQ := by decide
  exact this d h

theorem decLE_plain (n : Nat) : Plain (decLE n) := by
  induction n using Nat.strongRecOn with
  | _ n ih =>
    rw [decLE]
    split
    · rename_i h
      intro b hb; simp at hb; subst hb; exact decDigit_plain h
    · rename_i h
      intro b hb
      simp at hb
      rcases hb with hb | hb
      · subst hb; exact decDigit_plain (Nat.mod_lt _ (by omega))
      · exact ih (n / 10) (by omega) b hb

theorem hexLE_plain (n : Nat) : Plain (hexLE n) := by
  induction n using Nat.strongRecOn with
  | _ n ih =>
    rw [hexLE]
    split
    · rename_i h
      intro b hb; simp at hb; subst hb; exact hexDigit_plain h
    · rename_i h
      intro b hb
      simp at hb
      rcases hb with hb | hb
      · subst hb; exact hexDigit_plain (Nat.mod_lt _ (by omega))
      · exact ih (n / 16) (by omega) b hb

theorem dec_plain (n : Nat) : Plain (dec n) := by
  intro b hb; unfold dec at hb; exact decLE_plain n b (by simpa using hb)

theorem hex_plain (n : Nat) : Plain (hex n) := by
  intro b hb; unfold hex at hb; exact hexLE_plain n b (by simpa using hb)

theorem hex016_plain (n : Nat) : Plain (hex016 n) := by
  intro b hb
  unfold hex016 at hb
  simp only [List.mem_append, List.mem_replicate] at hb
  rcases hb with ⟨_, hb⟩ | hb
  · subst hb; decide
  · exact hex_plain n b hb

theorem plain_append {a b : Bytes} (ha : Plain a) (hb : Plain b) : Plain (a ++ b) := by
  intro x hx
  simp only [List.mem_append] at hx
  rcases hx with hx | hx
  · exact ha x hx
  · exact hb x hx

theorem plain_cons {x : UInt8} {t : Bytes} (hx : x ≠ BS ∧ x ≠ DQ) (ht : Plain t) : Plain (x :: t) := by
  intro y hy
  simp only [List.mem_cons] at hy
  rcases hy with hy | hy
  · subst hy; exact hx
  · exact ht y hy

end PV.Dot

namespace PV.Dot
open PV.Callgrind (dec hex)

theorem plain_dot : Plain [0x2e] := by unfold Plain; decide
theorem plain_dots : Plain DOTS := by unfold Plain; decide
theorem plain_colons : Plain [COLON, COLON] := by unfold Plain; decide

theorem qsafeB_BSn : qsafeB BSn = true := by decide
theorem qsafeB_BSl : qsafeB BSl = true := by decide

/-- every component of a printable name is safe when the three string fields are -/
theorem nameComponents_qsafe (base : Bytes → Bytes) (i : Info)
    (hn : qsafeB i.name = true) (hf : qsafeB i.file = true) (ho : qsafeB (base i.objfile) = true) :
    ∀ p ∈ nameComponents base i, qsafeB p = true := by
  intro p hp
  unfold nameComponents at hp
  simp only [List.mem_append] at hp
  rcases hp with (hp | hp) | hp
  · split at hp
    · simp at hp; subst hp; exact qsafeB_plain _ (hex016_plain _)
    · simp at hp
  · split at hp
    · simp at hp; subst hp; exact hn
    · simp at hp
  · split at hp
    · simp at hp; subst hp
      refine qsafeB_append _ _ hf (qsafeB_plain _ ?_)
      have hcolon : COLON ≠ BS ∧ COLON ≠ DQ := by decide
      refine plain_cons hcolon (plain_append (dec_plain _) ?_)
      by_cases hc : i.columnno = 0
      · simp only [hc]; intro b hb; simp at hb
      · simp only [ne_eq, hc, not_false_eq_true, if_true]; exact plain_cons hcolon (dec_plain _)
    · split at hp
      · simp at hp; subst hp; exact hf
      · split at hp
        · simp at hp
        · split at hp
          · simp at hp; subst hp
            have h1 : qsafeB [0x5b] = true := by decide
            have h2 : qsafeB [0x5d] = true := by decide
            exact qsafeB_append [0x5b] _ h1 (qsafeB_append _ _ ho h2)
          · simp at hp; subst hp; decide

/-- **`multilinePrintableName` is safe between quotes** for every NodeInfo, whatever
ShortenFunctionName does, provided filepath.Base keeps escaped text safe. -/
theorem multilinePrintableName_qsafe (shorten base : Bytes → Bytes)
    (hbase : ∀ s, qsafeB (base (escape s)) = true) (i : Info) :
    qsafeB (multilinePrintableName shorten base i) = true := by
  unfold multilinePrintableName
  refine qsafeB_append _ _ (qsafeB_join _ qsafeB_BSn _ ?_) qsafeB_BSn
  apply nameComponents_qsafe
  · show qsafeB (replaceAll [0x2e] BSn (replaceAll DOTS ELLIPSIS (replaceAll [COLON, COLON] BSn (escape (shorten i.name))))) = true
    refine qsafeB_replaceAll _ _ _ (by simp) plain_dot (by decide) (by decide) ?_
    refine qsafeB_replaceAll _ _ _ (by simp [DOTS]) plain_dots (by decide) (by decide) ?_
    exact qsafeB_replaceAll _ _ _ (by simp) plain_colons (by decide) (by decide) (qsafeB_escape _)
  · show qsafeB (if i.file ≠ [] then escape (base i.file) else i.file) = true
    split
    · exact qsafeB_escape _
    · rename_i h; simp at h; rw [h]; rfl
  · exact hbase _

theorem nodeLabel_qsafe (shorten base : Bytes → Bytes) (fmtv pct : Int → Bytes)
    (hbase : ∀ s, qsafeB (base (escape s)) = true) (hpct : ∀ v, Plain (pct v)) (i : Info) (flat cum : Int) :
    qsafeB (nodeLabel shorten base fmtv pct i flat cum) = true := by
  unfold nodeLabel
  have hP : ∀ v, qsafeB (pct v) = true := fun v => qsafeB_plain _ (hpct v)
  have hval : ∀ v, qsafeB (escape (fmtv v) ++ [SPC, 0x28] ++ pct v ++ [0x29]) = true := fun v =>
    qsafeB_append _ _ (qsafeB_append _ _ (qsafeB_append _ _ (qsafeB_escape _) (by decide)) (hP v)) (by decide)
  refine qsafeB_append _ _ (qsafeB_append _ _ (multilinePrintableName_qsafe shorten base hbase i) ?_) ?_
  · split
    · exact hval flat
    · decide
  · split
    · have h1 : qsafeB ((if flat ≠ 0 then BSn else [SPC]) ++ [0x6f, 0x66, SPC]) = true := by
        split <;> decide
      have := qsafeB_append _ _ h1 (hval cum)
      simpa [List.append_assoc] using this
    · rfl

theorem nodeTooltip_qsafe (base : Bytes → Bytes) (fmtv : Int → Bytes) (i : Info) (flat cum : Int) :
    qsafeB (nodeTooltip base fmtv i flat cum) = true := by
  unfold nodeTooltip
  exact qsafeB_append _ _ (qsafeB_append _ _ (qsafeB_append _ _ (qsafeB_escape _) (by decide)) (qsafeB_escape _)) (by decide)

theorem edgeTooltip_qsafe (base : Bytes → Bytes) (fmtv : Int → Bytes) (src dst : Info) (w : Int) (residual : Bool) :
    qsafeB (edgeTooltip base fmtv src dst w residual) = true := by
  unfold edgeTooltip
  have harrow : qsafeB (SPC :: (if residual then [0x2e, 0x2e, 0x2e] else [0x2d, 0x3e]) ++ SPC :: ([] : Bytes)) = true := by
    cases residual <;> decide
  have h1 := qsafeB_append _ _ (qsafeB_escape (printableName base src)) harrow
  have h2 := qsafeB_append _ _ h1 (qsafeB_escape (printableName base dst))
  have h3 := qsafeB_append _ _ h2 (show qsafeB [SPC, 0x28] = true by decide)
  have h4 := qsafeB_append _ _ h3 (qsafeB_escape (fmtv w))
  have h5 := qsafeB_append _ _ h4 (show qsafeB [0x29] = true by decide)
  simpa [List.append_assoc] using h5

theorem tagLabel_qsafe (split : Bytes → List Bytes) (name : Bytes) : qsafeB (tagLabel split name) = true := by
  unfold tagLabel
  refine qsafeB_join _ qsafeB_BSn _ ?_
  intro p hp
  simp only [List.mem_map] at hp
  obtain ⟨q, _, rfl⟩ := hp
  exact qsafeB_escape q

theorem legendLabel_qsafe (labels : List Bytes) : qsafeB (legendLabel labels) = true := by
  unfold legendLabel
  refine qsafeB_append _ _ (qsafeB_join _ qsafeB_BSl _ ?_) qsafeB_BSl
  intro p hp
  simp only [List.mem_map] at hp
  obtain ⟨q, _, rfl⟩ := hp
  exact qsafeB_escape q

end PV.Dot
