import PprofVerif.Lemmas.GraphKept
namespace PV.Graph
open PV.GSpec
variable {κ : Type} [DecidableEq κ]

/-! ### report total -/
def absWD (s : GSample κ) : WD := ⟨absI s.w, s.d⟩

theorem totalStep_fields (a : TotAcc) (s : GSample κ) :
    (totalStep a s).total = a.total + absI s.w ∧ (totalStep a s).div = a.div + s.d ∧
    (totalStep a s).diffTotal = a.diffTotal + (if s.base then absI s.w else 0) ∧
    (totalStep a s).diffDiv = a.diffDiv + (if s.base then s.d else 0) := by
  unfold totalStep absI
  cases s.base <;> simp

theorem foldTotal (ss : List (GSample κ)) : ∀ (a : TotAcc),
    (ss.foldl totalStep a).total = a.total + (sumWD (ss.map absWD)).w ∧
    (ss.foldl totalStep a).div = a.div + (sumWD (ss.map absWD)).d ∧
    (ss.foldl totalStep a).diffTotal = a.diffTotal + (sumWD ((ss.filter (·.base)).map absWD)).w ∧
    (ss.foldl totalStep a).diffDiv = a.diffDiv + (sumWD ((ss.filter (·.base)).map absWD)).d := by
  induction ss with
  | nil => intro a; simp [sumWD]
  | cons s ss ih =>
    intro a
    rw [List.foldl_cons]
    obtain ⟨h1, h2, h3, h4⟩ := ih (totalStep a s)
    obtain ⟨t1, t2, t3, t4⟩ := totalStep_fields a s
    rw [h1, h2, h3, h4, t1, t2, t3, t4]
    cases hb : s.base
    · simp [List.filter_cons, hb, sumWD, absWD]
      omega
    · simp [List.filter_cons, hb, sumWD, absWD]
      omega

theorem total_eq_spec (ss : List (GSample κ)) : computeTotalWD ss = totalSpec ss := by
  unfold computeTotalWD totalSpec
  obtain ⟨h1, h2, h3, h4⟩ := foldTotal ss ⟨0, 0, 0, 0⟩
  simp only [Int.zero_add] at h1 h2 h3 h4
  have e1 : (ss.map fun s => (⟨absI s.w, s.d⟩ : WD)) = ss.map absWD := rfl
  have e2 : ((ss.filter (·.base)).map fun s => (⟨absI s.w, s.d⟩ : WD)) = (ss.filter (·.base)).map absWD := rfl
  simp only [e1, e2, h1, h2, h3, h4]

end PV.Graph
