import PprofVerif.Model.Settings
/-! JSON round trip of saved fields and the frame property of save/delete (C19). -/
namespace PV.Settings

/-- a configuration that has one value of the right Go type per table row. -/
def Typed : List FieldSpec → Config → Prop
  | [], [] => True
  | f :: fs, v :: vs => hasKind f.kind v = true ∧ Typed fs vs
  | _, _ => False

instance Typed.dec : (fs : List FieldSpec) → (c : Config) → Decidable (Typed fs c)
  | [], [] => isTrue trivial
  | _ :: fs, _ :: vs => by
    unfold Typed
    exact @instDecidableAnd _ _ _ (Typed.dec fs vs)
  | [], _ :: _ => isFalse (by simp [Typed])
  | _ :: _, [] => isFalse (by simp [Typed])

theorem Typed.length : ∀ {fs : List FieldSpec} {c : Config}, Typed fs c → c.length = fs.length
  | [], [], _ => rfl
  | _ :: fs, _ :: vs, h => by simp [Typed.length (fs := fs) (c := vs) h.2]
  | [], _ :: _, h => by simp [Typed] at h
  | _ :: _, [], h => by simp [Typed] at h

theorem allDistinct_cons (x : Str) (r : List Str) :
    allDistinct (x :: r) = true ↔ x ∉ r ∧ allDistinct r = true := by
  simp [allDistinct]

def savedNames (fs : List FieldSpec) : List Str := (fs.filter (·.saved)).map (·.name)

theorem savedNames_cons (f : FieldSpec) (fs : List FieldSpec) :
    savedNames (f :: fs) = if f.saved then f.name :: savedNames fs else savedNames fs := by
  unfold savedNames
  by_cases h : f.saved <;> simp [List.filter_cons, h]

theorem isZero_zeroOf {k : Kind} {v : Val} (hk : hasKind k v = true) (hz : isZero v = true) :
    v = zeroOf k := by
  cases k <;> cases v <;> simp_all [hasKind, isZero, zeroOf]

/-- a name that no saved field of `fs` carries is not a key of `toObj fs _`. -/
theorem olookup_toObj_none (n : Str) : ∀ (fs : List FieldSpec) (c : Config),
    n ∉ savedNames fs → olookup (toObj fs c) n = none := by
  intro fs
  induction fs with
  | nil => intro c _; cases c <;> simp [toObj, olookup]
  | cons f fs ih =>
    intro c hn
    cases c with
    | nil => simp [toObj, olookup]
    | cons v vs =>
      rw [savedNames_cons] at hn
      simp only [toObj]
      by_cases hs : f.saved = true
      · simp only [hs, if_true, List.mem_cons, not_or] at hn
        by_cases hz : (f.omitempty && isZero v) = true
        · simp [hs, hz, ih vs hn.2]
        · simp only [hs, hz, Bool.true_and, Bool.not_eq_true', Bool.not_false, if_true, Bool.not_eq_true]
          simp [olookup, Ne.symm hn.1, ih vs hn.2]
      · simp only [Bool.not_eq_true] at hs
        simp only [hs, Bool.false_eq_true, if_false] at hn
        simp [hs, ih vs hn]

/-- what `toObj` stores under the name of a saved field (distinct names). -/
theorem olookup_toObj : ∀ (fs : List FieldSpec) (c : Config), allDistinct (savedNames fs) = true →
    ∀ f v, (f, v) ∈ List.zip fs c → f.saved = true →
      olookup (toObj fs c) f.name = if (f.omitempty && isZero v) = true then none else some v := by
  intro fs
  induction fs with
  | nil => intro c _ f v h; simp at h
  | cons f0 fs ih =>
    intro c hd f v hm hs
    cases c with
    | nil => simp at hm
    | cons v0 vs =>
      rw [savedNames_cons] at hd
      simp only [List.zip_cons_cons, List.mem_cons, Prod.mk.injEq] at hm
      rcases hm with ⟨hf, hv⟩ | hm
      · subst hf; subst hv
        simp only [hs, if_true, allDistinct_cons] at hd
        simp only [toObj, hs, Bool.true_and]
        by_cases hz : (f.omitempty && isZero v) = true
        · simp [hz, olookup_toObj_none f.name fs vs hd.1]
        · simp [hz, olookup]
      · -- a later row
        have hmem : f.name ∈ savedNames fs := by
          unfold savedNames
          exact List.mem_map.2 ⟨f, List.mem_filter.2 ⟨(List.of_mem_zip hm).1, hs⟩, rfl⟩
        by_cases hs0 : f0.saved = true
        · simp only [hs0, if_true, allDistinct_cons] at hd
          have hne : f0.name ≠ f.name := fun e => hd.1 (e ▸ hmem)
          simp only [toObj, hs0, Bool.true_and]
          by_cases hz : (f0.omitempty && isZero v0) = true
          · simp only [hz, Bool.not_true, Bool.false_eq_true, if_false]
            exact ih vs hd.2 f v hm hs
          · simp only [hz, Bool.not_false, if_true, Bool.not_eq_true]
            simp only [olookup, hne, if_false]
            exact ih vs hd.2 f v hm hs
        · simp only [Bool.not_eq_true] at hs0
          simp only [hs0, Bool.false_eq_true, if_false] at hd
          simp only [toObj, hs0, Bool.false_and, Bool.false_eq_true, if_false]
          exact ih vs hd f v hm hs

/-- decoding against a fixed object, given what the object holds for every saved row. -/
theorem fromObj_of_lookup (o : Obj) : ∀ (fs : List FieldSpec) (cur c : Config),
    Typed fs c → cur.length = fs.length →
    (∀ f v, (f, v) ∈ List.zip fs c → f.saved = true →
      olookup o f.name = if (f.omitempty && isZero v) = true then none else some v) →
    fromObj fs cur o = some (restore fs cur c) := by
  intro fs
  induction fs with
  | nil =>
    intro cur c ht hl _
    cases c <;> cases cur <;> simp_all [fromObj, restore, Typed]
  | cons f fs ih =>
    intro cur c ht hl hlk
    cases c with
    | nil => simp [Typed] at ht
    | cons v vs =>
      cases cur with
      | nil => simp at hl
      | cons c0 cs =>
        have hl' : cs.length = fs.length := by simpa using hl
        have hrest := ih cs vs ht.2 hl' (fun g w hm hs => hlk g w (by simp [hm]) hs)
        simp only [fromObj, restore]
        by_cases hs : f.saved = true
        · have h0 := hlk f v (by simp) hs
          simp only [hs, if_true]
          by_cases hz : (f.omitempty && isZero v) = true
          · simp only [hz, if_true] at h0
            have hzv : isZero v = true := by
              cases ho : f.omitempty <;> simp_all
            rw [h0]
            simp [hrest, isZero_zeroOf ht.1 hzv]
          · simp only [hz, Bool.false_eq_true, if_false] at h0
            rw [h0]
            simp [ht.1, hrest]
        · simp only [Bool.not_eq_true] at hs
          simp [hs, hrest]

/-- **JSON round trip of one configuration.** -/
theorem fromObj_toObj (fs : List FieldSpec) (hT : jsonTableOK fs = true) (cur c : Config)
    (ht : Typed fs c) (hl : cur.length = fs.length) :
    fromObj fs cur (toObj fs c) = some (restore fs cur c) := by
  have hd : allDistinct (savedNames fs) = true := by
    unfold jsonTableOK at hT
    simp only [Bool.and_eq_true] at hT
    exact hT.1
  exact fromObj_of_lookup (toObj fs c) fs cur c ht hl (olookup_toObj fs c hd)

theorem toObj_restore : ∀ (fs : List FieldSpec) (cur c : Config), cur.length = fs.length → c.length = fs.length →
    toObj fs (restore fs cur c) = toObj fs c := by
  intro fs
  induction fs with
  | nil => intro cur c _ _; cases c <;> cases cur <;> simp [toObj, restore]
  | cons f fs ih =>
    intro cur c h1 h2
    cases c with
    | nil => simp at h2
    | cons v vs =>
      cases cur with
      | nil => simp at h1
      | cons c0 cs =>
        have := ih cs vs (by simpa using h1) (by simpa using h2)
        by_cases hs : f.saved = true
        · simp [toObj, restore, hs, this]
        · simp only [Bool.not_eq_true] at hs
          simp [toObj, restore, hs, this]

theorem restore_typed : ∀ (fs : List FieldSpec) (cur c : Config), Typed fs cur → Typed fs c →
    Typed fs (restore fs cur c) := by
  intro fs
  induction fs with
  | nil => intro cur c _ _; cases c <;> cases cur <;> simp_all [restore, Typed]
  | cons f fs ih =>
    intro cur c h1 h2
    cases c with
    | nil => simp [Typed] at h2
    | cons v vs =>
      cases cur with
      | nil => simp [Typed] at h1
      | cons c0 cs =>
        simp only [restore, Typed]
        refine ⟨?_, ih cs vs h1.2 h2.2⟩
        by_cases hs : f.saved = true
        · simp [hs, h2.1]
        · simp only [Bool.not_eq_true] at hs
          simp [hs, h1.1]

/-- decoding a whole document written by the model. -/
theorem decS_encS (fs : List FieldSpec) (hT : jsonTableOK fs = true) (cur : Config)
    (hl : cur.length = fs.length) : ∀ (s : Settings), (∀ p ∈ s, Typed fs p.2) →
    decS fs cur (encS fs s) = some (s.map (fun p => (p.1, restore fs cur p.2))) := by
  intro s
  induction s with
  | nil => intro _; rfl
  | cons p r ih =>
    intro h
    have hp := fromObj_toObj fs hT cur p.2 (h p (by simp)) hl
    have hr := ih (fun q hq => h q (by simp [hq]))
    simp only [encS, List.map_cons] at hr ⊢
    simp [decS, hp, hr]

theorem encS_restore (fs : List FieldSpec) (cur : Config) (hl : cur.length = fs.length) :
    ∀ (s : Settings), (∀ p ∈ s, p.2.length = fs.length) →
    encS fs (s.map (fun p => (p.1, restore fs cur p.2))) = encS fs s := by
  intro s h
  unfold encS
  rw [List.map_map]
  apply List.map_congr_left
  intro p hp
  simp [Function.comp, toObj_restore fs cur p.2 hl (h p hp)]

/-! ### frame: save/delete of `a` leaves every other name alone -/

theorem setEntry_others (a : Str) (cfg : Config) : ∀ (s : Settings),
    (setEntry a cfg s).filter (fun p => decide (p.1 ≠ a)) = s.filter (fun p => decide (p.1 ≠ a)) := by
  intro s
  induction s with
  | nil => simp [setEntry]
  | cons p r ih =>
    obtain ⟨n, c⟩ := p
    by_cases h : n = a
    · subst h; simp [setEntry, List.filter_cons]
    · have ih' := ih
      simp only [ne_eq, decide_not] at ih'
      simp [setEntry, h, ih']

theorem removeEntry_others (a : Str) : ∀ (s s' : Settings), removeEntry a s = some s' →
    s'.filter (fun p => decide (p.1 ≠ a)) = s.filter (fun p => decide (p.1 ≠ a)) := by
  intro s
  induction s with
  | nil => intro s' h; simp [removeEntry] at h
  | cons p r ih =>
    obtain ⟨n, c⟩ := p
    intro s' h
    by_cases hn : n = a
    · subst hn
      simp only [removeEntry, if_true, Option.some.injEq] at h
      subst h
      simp [List.filter_cons]
    · simp only [removeEntry, hn, if_false] at h
      cases hr : removeEntry a r with
      | none => simp [hr] at h
      | some r' =>
        simp only [hr, Option.map_some, Option.some.injEq] at h
        subst h
        have ih' := ih r' hr
        simp only [ne_eq, decide_not] at ih'
        simp [hn, ih']

/-- the saved entry is what a later lookup of that name finds. -/
theorem setEntry_find (a : Str) (cfg : Config) : ∀ (s : Settings),
    (setEntry a cfg s).find? (fun p => decide (p.1 = a)) = some (a, cfg) := by
  intro s
  induction s with
  | nil => simp [setEntry]
  | cons p r ih =>
    obtain ⟨n, c⟩ := p
    by_cases h : n = a
    · subst h; simp [setEntry]
    · simp [setEntry, h, ih]

/-- a successful delete removes exactly one entry, and it is one named `a`. -/
theorem removeEntry_length (a : Str) : ∀ (s s' : Settings), removeEntry a s = some s' →
    s'.length + 1 = s.length ∧ (s'.filter (fun p => decide (p.1 = a))).length + 1 = (s.filter (fun p => decide (p.1 = a))).length := by
  intro s
  induction s with
  | nil => intro s' h; simp [removeEntry] at h
  | cons p r ih =>
    obtain ⟨n, c⟩ := p
    intro s' h
    by_cases hn : n = a
    · subst hn
      simp only [removeEntry, if_true, Option.some.injEq] at h
      subst h
      simp [List.filter_cons]
    · simp only [removeEntry, hn, if_false] at h
      cases hr : removeEntry a r with
      | none => simp [hr] at h
      | some r' =>
        simp only [hr, Option.map_some, Option.some.injEq] at h
        subst h
        have := ih r' hr
        simp [List.filter_cons, hn, this.1, this.2]

/-- name a request is about. -/
def Req.name : Req → Str
  | .save q => qget q b!"config"
  | .delete n => n

theorem edit_others (fo : FloatOps) (fs : List FieldSpec) (cur : Config) (r : Req) (s s' : Settings)
    (h : r.edit fo fs cur s = some s') :
    s'.filter (fun p => decide (p.1 ≠ r.name)) = s.filter (fun p => decide (p.1 ≠ r.name)) := by
  cases r with
  | save q =>
    simp only [Req.edit] at h
    by_cases hn : qget q b!"config" = []
    · simp [hn] at h
    · simp only [hn, if_false] at h
      cases ha : applyURL fo fs cur q with
      | none => simp [ha] at h
      | some cfg =>
        simp only [ha, Option.some.injEq] at h
        subst h
        exact setEntry_others _ cfg s
  | delete n =>
    exact removeEntry_others n s s' h

theorem filter_name_of_ne {α : Type} (a b : Str) (hb : b ≠ a) (l : List (Str × α)) :
    l.filter (fun p => decide (p.1 = b)) =
      (l.filter (fun p => decide (p.1 ≠ a))).filter (fun p => decide (p.1 = b)) := by
  rw [List.filter_filter]
  apply List.filter_congr
  intro p _
  by_cases h : p.1 = b
  · simp [h, hb]
  · simp [h]

theorem encS_filter (fs : List FieldSpec) (P : Str → Bool) (s : Settings) :
    (encS fs s).filter (fun p => P p.1) = encS fs (s.filter (fun p => P p.1)) := by
  unfold encS
  induction s with
  | nil => rfl
  | cons p r ih =>
    by_cases h : P p.1 = true
    · simp [List.filter_cons, h, ih]
    · simp only [Bool.not_eq_true] at h
      simp [List.filter_cons, h, ih]

/-- a failing request leaves the document as it is. -/
theorem handleObj_fail (fo : FloatOps) (fs : List FieldSpec) (cur : Config) (file : Option FileObj) (r : Req)
    (h : (handleObj fo fs cur file r).2 = false) : (handleObj fo fs cur file r).1 = file := by
  unfold handleObj at h ⊢
  split <;> try rfl
  split <;> try rfl
  split
  · simp_all
  · rfl

/-- **Frame, through the file**: on a document the model wrote (`encS fs s`, any `s`), a successful
request about name `a` leaves the stored objects of every other name `b`, and their order,
exactly as they were. -/
theorem handleObj_frame (fo : FloatOps) (fs : List FieldSpec) (hT : jsonTableOK fs = true) (cur : Config)
    (hl : cur.length = fs.length) (s : Settings) (hs : ∀ p ∈ s, Typed fs p.2) (r : Req) (b : Str)
    (hb : b ≠ r.name) (h : (handleObj fo fs cur (some (encS fs s)) r).2 = true) :
    ∃ d', (handleObj fo fs cur (some (encS fs s)) r).1 = some d' ∧
      d'.filter (fun p => decide (p.1 = b)) = (encS fs s).filter (fun p => decide (p.1 = b)) := by
  have hdec := decS_encS fs hT cur hl s hs
  unfold handleObj at h ⊢
  simp only [hdec] at h ⊢
  cases he : r.edit fo fs cur (s.map (fun p => (p.1, restore fs cur p.2))) with
  | none => simp [he] at h
  | some s' =>
    simp only [he] at h ⊢
    by_cases henc : encodableS fs s' = true
    · simp only [henc, if_true]
      refine ⟨_, rfl, ?_⟩
      have hfr := edit_others fo fs cur r _ s' he
      rw [filter_name_of_ne r.name b hb (encS fs s'), filter_name_of_ne r.name b hb (encS fs s)]
      congr 1
      rw [encS_filter fs (fun n => decide (n ≠ r.name)) s', hfr,
        ← encS_filter fs (fun n => decide (n ≠ r.name)),
        encS_restore fs cur hl s (fun p hp => (hs p hp).length)]
    · simp [henc] at h

end PV.Settings
