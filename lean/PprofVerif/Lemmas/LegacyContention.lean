import PprofVerif.Lemmas.LegacyHeap
import PprofVerif.Model.LegacyContention
/-!
Helper lemmas for C14: contention / mutex profiles —
`parseContention (printContention d) = ok (expectedContention d)`.
-/
namespace PV.Legacy
open PV

/-! ### attribute lines -/
def ContAttr.core (a : ContAttr) : Str := a.key.print ++ ((if a.spaced then asc " = " else asc "=") ++ intStr a.value)

theorem ContAttr.print_eq (a : ContAttr) : a.print = sp a.indent ++ a.core := by
  simp [ContAttr.print, ContAttr.core, List.append_assoc]

theorem ContKey.print_cons (k : ContKey) : ∃ c t, k.print = c :: t ∧ isSpace c = false ∧ c.toNat ≠ 35 ∧ c ≠ 45 := by
  cases k <;> exact ⟨_, _, rfl, by decide, by decide, by decide⟩

theorem ContAttr.core_reverse_stops (a : ContAttr) : Stops isSpace a.core.reverse := by
  unfold ContAttr.core
  rw [← List.append_assoc]
  exact Stops_reverse_append _ _ (intStr_ne_nil _) (intStr_reverse_stops _)

theorem ContAttr.trim (a : ContAttr) : trimSpace a.print = a.core := by
  rw [a.print_eq]
  obtain ⟨c, t, hk, hc, _, _⟩ := a.key.print_cons
  exact trimSpace_replicate _ _ (by unfold ContAttr.core; rw [hk]; simpa using hc) a.core_reverse_stops

theorem ContAttr.split (a : ContAttr) :
    ∃ k v, splitEq a.core = some (k, v) ∧ trimSpace k = a.key.print ∧ trimSpace v = intStr a.value := by
  have hhead : Stops isSpace (intStr a.value) := by
    obtain ⟨c, t, hd, hc⟩ := intStr_cons a.value
    rw [hd]; simpa using (head_not_space hc).1
  have hv : trimSpace (sp 1 ++ intStr a.value) = intStr a.value :=
    trimSpace_replicate 1 _ hhead (intStr_reverse_stops _)
  have hv0 : trimSpace (intStr a.value) = intStr a.value :=
    trimSpace_of_stops hhead (intStr_reverse_stops _)
  unfold ContAttr.core
  cases a.spaced with
  | true =>
    refine ⟨a.key.print ++ [32], sp 1 ++ intStr a.value, ?_, ?_, hv⟩
    · have : a.key.print ++ ((if true = true then asc " = " else asc "=") ++ intStr a.value)
          = (a.key.print ++ [32]) ++ 61 :: (sp 1 ++ intStr a.value) := by simp [asc, sp]
      rw [this]
      exact splitEq_append _ _ (by cases a.key <;> decide)
    · cases a.key <;> decide
  | false =>
    refine ⟨a.key.print, intStr a.value, ?_, ?_, hv0⟩
    · have : a.key.print ++ ((if false = true then asc " = " else asc "=") ++ intStr a.value)
          = a.key.print ++ 61 :: intStr a.value := by simp [asc]
      rw [this]
      exact splitEq_append _ _ (by cases a.key <;> decide)
    · cases a.key <;> decide

theorem contKeyOf_print (k : ContKey) : contKeyOf k.print = some k := by cases k <;> decide

theorem hasPrefix_dashes_ne {c : UInt8} (t : Str) (h : c ≠ 45) : hasPrefix (asc "---") (c :: t) = false := by
  simp [hasPrefix, asc, stripPrefix, Ne.symm h]

theorem contAttrLoop_fillers (fs : List Filler) (R : List Str) (st : ContState) :
    contAttrLoop (printFillers fs ++ R) st = contAttrLoop R st := by
  induction fs with
  | nil => rfl
  | cons f fs ih => simpa [printFillers, contAttrLoop, trimSpace_filler] using ih

theorem contAttrLoop_attr (a : ContAttr) (ha : -(two63 : Int) ≤ a.value ∧ a.value < (two63 : Int)) (R : List Str) (st : ContState) :
    contAttrLoop (a.print :: R) st = contAttrLoop R (st.set a.key a.value) := by
  obtain ⟨c, t, hk, hc, h35, h45⟩ := a.key.print_cons
  have hcore : a.core = c :: (t ++ ((if a.spaced then asc " = " else asc "=") ++ intStr a.value)) := by
    unfold ContAttr.core; rw [hk]; rfl
  have h1 : isSpaceOrComment a.core = false := by rw [hcore]; exact isSpaceOrComment_head' _ hc h35
  have h2 : hasPrefix (asc "---") a.core = false := by rw [hcore]; exact hasPrefix_dashes_ne _ h45
  obtain ⟨k, v, hs, hk', hv'⟩ := a.split
  rw [contAttrLoop]
  simp only [ContAttr.trim, h1, h2, Bool.false_eq_true, if_false, hs, hk', hv', contKeyOf_print, parseI64Base0Z_intStr ha.1 ha.2]
  cases a.key <;> rfl

theorem contAttrLoop_attrs (as : List ContAttr) (h : ∀ a ∈ as, -(two63 : Int) ≤ a.value ∧ a.value < (two63 : Int)) (R : List Str) (st : ContState) :
    contAttrLoop (as.flatMap (fun a => printFillers a.fill ++ [a.print]) ++ R) st
      = contAttrLoop R (as.foldl (fun st a => st.set a.key a.value) st) := by
  induction as generalizing st with
  | nil => rfl
  | cons a as ih =>
    simp only [List.flatMap_cons, List.append_assoc, contAttrLoop_fillers, List.singleton_append, List.cons_append,
      List.nil_append, List.foldl_cons]
    rw [contAttrLoop_attr a (h a (by simp)), ih (fun x hx => h x (by simp [hx]))]

/-! ### record lines -/
def ContRec.core (w : Nat) (r : ContRec) : Str :=
  dec r.cycles ++ (sp (r.gap + 1) ++ (dec r.count ++ (asc " @" ++ printAddrs w r.addrs)))

theorem ContRec.print_eq (w : Nat) (r : ContRec) : r.print w = sp r.indent ++ r.core w := by
  simp [ContRec.print, ContRec.core, List.append_assoc]

theorem ContRec.core_cons (w : Nat) (r : ContRec) : ∃ c t, r.core w = c :: t ∧ isDigit c = true := by
  obtain ⟨c, t, hd, hc⟩ := dec_cons r.cycles
  unfold ContRec.core; rw [hd]; exact ⟨c, _, rfl, hc⟩

theorem ContRec.core_reverse_stops (w : Nat) (r : ContRec) : Stops isSpace (r.core w).reverse := by
  have : r.core w = (dec r.cycles ++ (sp (r.gap + 1) ++ (dec r.count ++ asc " @"))) ++ printAddrs w r.addrs := by
    simp [ContRec.core, List.append_assoc]
  rw [this]
  apply append_printAddrs_reverse_stops
  · rw [← List.append_assoc, ← List.append_assoc]
    exact Stops_reverse_append _ _ (by decide) (Stops_of_stopsB (by decide))
  · simp [dec_ne_nil]

theorem ContRec.trim (w : Nat) (r : ContRec) : trimSpace (r.print w) = r.core w := by
  rw [ContRec.print_eq]
  obtain ⟨c, t, hd, hc⟩ := r.core_cons w
  exact trimSpace_replicate _ _ (by rw [hd]; simpa using isSpace_false_of_isDigit hc) (r.core_reverse_stops w)

theorem ContRec.core_no_eq (w : Nat) (r : ContRec) : ∀ b ∈ r.core w, b.toNat ≠ 61 := by
  intro b hb
  simp only [ContRec.core, List.mem_append, sp, List.mem_replicate] at hb
  rcases hb with h | h | h | h | h
  · have := dec_isDigit _ b h; simp only [isDigit, decide_eq_true_eq] at this; omega
  · rw [h.2]; decide
  · have := dec_isDigit _ b h; simp only [isDigit, decide_eq_true_eq] at this; omega
  · revert b; decide
  · have := printAddrs_isAddrText w r.addrs b h
    simp only [isAddrText, isHexLower, isDigit, Bool.or_eq_true, beq_iff_eq, decide_eq_true_eq] at this
    omega

theorem matchContSampleAt_core (w : Nat) (r : ContRec) :
    matchContSampleAt (r.core w) = some (dec r.cycles, dec r.count, printAddrs w r.addrs) := by
  unfold matchContSampleAt ContRec.core
  rw [reDigits_dec _ _ (by simp [sp_succ, isDigit_32])]
  simp only [Option.bind_eq_bind, Option.bind_some]
  rw [skipSp_sp _ _ (Stops_sp32_dec _ _),
    reDigits_dec _ _ (Stops_append_of_ne_nil (by decide) (Stops_of_stopsB (by decide)))]
  simp only [Option.bind_some, stripPrefix_append, takeWhile_addrText]
  rfl

theorem parseContentionSample_core (cyc : CycFn) (st : ContState) (w : Nat) (r : ContRec) (hr : r.wf = true) :
    parseContentionSample cyc st (r.core w) = .ok (contSample cyc st r.cycles r.count r.addrs) := by
  simp only [ContRec.wf, Bool.and_eq_true, decide_eq_true_eq, List.all_eq_true] at hr
  obtain ⟨⟨⟨_, h1⟩, h2⟩, h3⟩ := hr
  unfold parseContentionSample
  rw [searchRe_of_some _ _ _ (matchContSampleAt_core w r)]
  simp only [parseI64_dec h1, parseI64_dec h2, parseHexAddresses_printAddrs w r.addrs h3]

theorem contSampleLoop_fillers (cyc : CycFn) (st : ContState) (fs : List Filler) (R : List Str) (acc : List RawSample) :
    contSampleLoop cyc st (printFillers fs ++ R) acc = contSampleLoop cyc st R acc := by
  induction fs with
  | nil => rfl
  | cons f fs ih =>
    have hp : hasPrefix (asc "---") (trimSpace f.print) = false := by
      unfold Filler.print
      cases f.comment with
      | none => simp [trimSpace_blank]; decide
      | some t =>
        simp only [trimSpace]
        rw [trimLeft_replicate _ _ (by simp; decide)]
        obtain ⟨t', ht'⟩ := trimRight_cons (c := 35) t (by decide)
        rw [ht']; exact hasPrefix_dashes_ne _ (by decide)
    simpa [printFillers, contSampleLoop, trimSpace_filler, hp] using ih

theorem contSampleLoop_rec (cyc : CycFn) (st : ContState) (w : Nat) (r : ContRec) (hr : r.wf = true)
    (R : List Str) (acc : List RawSample) :
    contSampleLoop cyc st (r.print w :: R) acc = contSampleLoop cyc st R (contSample cyc st r.cycles r.count r.addrs :: acc) := by
  obtain ⟨c, t, hd, hc⟩ := r.core_cons w
  have h1 : isSpaceOrComment (r.core w) = false := by
    rw [hd]; exact isSpaceOrComment_head' _ (isSpace_false_of_isDigit hc) (ne35_of_isDigit hc)
  have h2 : hasPrefix (asc "---") (r.core w) = false := by rw [hd]; exact hasPrefix_dashes_of_digit _ hc
  rw [contSampleLoop]
  simp only [ContRec.trim, h1, h2, Bool.false_eq_true, if_false, parseContentionSample_core cyc st w r hr]

theorem contSampleLoop_recs (cyc : CycFn) (st : ContState) (w : Nat) (rs : List ContRec) (h : ∀ r ∈ rs, r.wf = true)
    (R : List Str) (acc : List RawSample) :
    contSampleLoop cyc st (rs.flatMap (fun r => printFillers r.fill ++ [r.print w]) ++ R) acc
      = contSampleLoop cyc st R ((rs.map (fun r => contSample cyc st r.cycles r.count r.addrs)).reverse ++ acc) := by
  induction rs generalizing acc with
  | nil => rfl
  | cons r rs ih =>
    simp only [List.flatMap_cons, List.append_assoc, contSampleLoop_fillers, List.singleton_append, List.cons_append,
      List.nil_append]
    rw [contSampleLoop_rec cyc st w r (h r (by simp)), ih (fun x hx => h x (by simp [hx]))]
    simp

theorem contSampleLoop_tail (cyc : CycFn) (st : ContState) (map : Option MapSection) (acc : List RawSample) :
    contSampleLoop cyc st (tailLines sentinelMemoryMap map) acc =
      .ok (acc.reverse, (match tailLines sentinelMemoryMap map with | [] => [] | c :: _ => c),
                        (match tailLines sentinelMemoryMap map with | [] => [] | _ :: r => r)) := by
  cases map with
  | none => simp [tailLines, contSampleLoop]
  | some m =>
    have h2 : hasPrefix (asc "---") (trimSpace sentinelMemoryMap) = true := by decide
    simp [tailLines, contSampleLoop, h2]

/-- the attribute loop stops where the sample loop can take over -/
theorem contAttrLoop_body (cyc : CycFn) (w : Nat) (rs : List ContRec) (post : List Filler) (map : Option MapSection)
    (st : ContState) :
    ∃ L', contAttrLoop (rs.flatMap (fun r => printFillers r.fill ++ [r.print w]) ++ (printFillers post ++ tailLines sentinelMemoryMap map)) st
            = .ok (st, L') ∧
          ∀ acc, contSampleLoop cyc st L' acc =
            contSampleLoop cyc st (rs.flatMap (fun r => printFillers r.fill ++ [r.print w]) ++ (printFillers post ++ tailLines sentinelMemoryMap map)) acc := by
  cases rs with
  | nil =>
    refine ⟨tailLines sentinelMemoryMap map, ?_, ?_⟩
    · simp only [List.flatMap_nil, List.nil_append, contAttrLoop_fillers]
      cases map with
      | none => simp [tailLines, contAttrLoop]
      | some m =>
        have h1 : isSpaceOrComment (trimSpace sentinelMemoryMap) = false := by decide
        have h2 : hasPrefix (asc "---") (trimSpace sentinelMemoryMap) = true := by decide
        simp [tailLines, contAttrLoop, h1, h2]
    · intro acc; simp [contSampleLoop_fillers]
  | cons r rs =>
    refine ⟨r.print w :: (rs.flatMap (fun r => printFillers r.fill ++ [r.print w]) ++ (printFillers post ++ tailLines sentinelMemoryMap map)), ?_, ?_⟩
    · simp only [List.flatMap_cons, List.append_assoc, contAttrLoop_fillers, List.singleton_append, List.cons_append,
        List.nil_append]
      obtain ⟨c, t, hd, hc⟩ := r.core_cons w
      have h1 : isSpaceOrComment (r.core w) = false := by
        rw [hd]; exact isSpaceOrComment_head' _ (isSpace_false_of_isDigit hc) (ne35_of_isDigit hc)
      have h2 : hasPrefix (asc "---") (r.core w) = false := by rw [hd]; exact hasPrefix_dashes_of_digit _ hc
      rw [contAttrLoop]
      simp only [ContRec.trim, h1, h2, Bool.false_eq_true, if_false, splitEq_none _ (r.core_no_eq w)]
    · intro acc
      simp only [List.flatMap_cons, List.append_assoc, contSampleLoop_fillers, List.singleton_append, List.cons_append,
        List.nil_append]


/-! ### the whole document -/
theorem LineOK_contKey (k : ContKey) : LineOK k.print := by cases k <;> decide

theorem ContHead.prefix (h : ContHead) :
    (hasPrefix (asc "--- contentionz ") h.print || hasPrefix (asc "--- mutex:") h.print || hasPrefix (asc "--- contention:") h.print) = true := by
  cases h with
  | contentionz n =>
    have : (ContHead.contentionz n).print = asc "--- contentionz " ++ (dec n ++ asc " ---") := by
      simp [ContHead.print, List.append_assoc]
    rw [this, hasPrefix_append]; rfl
  | mutex => decide
  | contention => decide

theorem ContDoc.lines_ok (d : ContDoc) (h : d.wf = true) : ∀ l ∈ d.lines, LineOK l := by
  simp only [ContDoc.wf, Bool.and_eq_true, List.all_eq_true, decide_eq_true_eq] at h
  obtain ⟨⟨⟨hattrs, hrecs⟩, hpost⟩, hmap⟩ := h
  have hmap' : ∀ m, d.map = some m → m.wf = true := by
    intro m hm; rw [hm] at hmap; exact hmap
  intro l hl
  simp only [ContDoc.lines, List.mem_append, List.mem_singleton, List.mem_flatMap] at hl
  rcases hl with (((hl | ⟨a, ha, hl⟩) | ⟨r, hr, hl⟩) | hl) | hl
  · subst hl
    cases d.head with
    | contentionz n =>
      have h1 : LineOK (asc "--- contentionz ") := by decide
      have h2 : LineOK (asc " ---") := by decide
      simp only [ContHead.print]; lineok; exact ⟨h1, h2⟩
    | mutex => decide
    | contention => decide
  · rcases hl with hl | hl
    · exact LineOK_fillers (List.all_eq_true.2 (hattrs a ha).1) l hl
    · subst hl
      have h1 : LineOK (if a.spaced then asc " = " else asc "=") := by cases a.spaced <;> decide
      simp only [ContAttr.print]; lineok; exact ⟨⟨LineOK_contKey _, h1⟩, LineOK_intStr _⟩
  · have hw := hrecs r hr
    simp only [ContRec.wf, Bool.and_eq_true, List.all_eq_true] at hw
    rcases hl with hl | hl
    · exact LineOK_fillers (List.all_eq_true.2 hw.1.1.1) l hl
    · subst hl
      have hlit : LineOK (asc " @") := by decide
      simp only [ContRec.print]; lineok; exact hlit
  · exact LineOK_fillers (List.all_eq_true.2 hpost) l hl
  · exact LineOK_tailLines LineOK_sentinelMemoryMap hmap' l hl

theorem splitLines_printContention (d : ContDoc) (h : d.wf = true) : splitLines (printContention d) = d.lines :=
  splitLines_unlines _ (d.lines_ok h)

theorem parseContention_printContention (cyc : CycFn) (d : ContDoc) (h : d.wf = true) :
    parseContention cyc (printContention d) = .ok (expectedContention cyc d) := by
  have hlines := splitLines_printContention d h
  simp only [ContDoc.wf, Bool.and_eq_true, List.all_eq_true, decide_eq_true_eq] at h
  obtain ⟨⟨⟨hattrs, hrecs⟩, hpost⟩, hmap⟩ := h
  have hmap' : ∀ m, d.map = some m → m.wf = true := by
    intro m hm; rw [hm] at hmap; exact hmap
  unfold parseContention
  rw [hlines]
  unfold ContDoc.lines
  simp only [List.append_assoc, List.singleton_append, List.cons_append, List.nil_append, parseContentionLines,
    d.head.prefix, Bool.not_true, Bool.false_eq_true, if_false]
  rw [contAttrLoop_attrs d.attrs (fun a ha => (hattrs a ha).2)]
  obtain ⟨L', hL1, hL2⟩ := contAttrLoop_body cyc d.width d.recs d.post d.map
    (d.attrs.foldl (fun st a => st.set a.key a.value) ContState.init)
  rw [hL1]
  simp only []
  rw [hL2, contSampleLoop_recs cyc _ d.width d.recs hrecs, contSampleLoop_fillers, contSampleLoop_tail]
  simp only [List.append_nil, List.reverse_reverse, expectedContention, ContDoc.state]
  have := parseAdditionalSections_tail sentinelMemoryMap isMemoryMapSentinel_memoryMap d.map hmap'
  cases hq : tailLines sentinelMemoryMap d.map with
  | nil => rw [hq] at this; simp only [this]
  | cons c r => rw [hq] at this; simp only [this]

end PV.Legacy
