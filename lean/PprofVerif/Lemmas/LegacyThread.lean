import PprofVerif.Lemmas.LegacyContention
import PprofVerif.Model.LegacyThread
/-!
Helper lemmas for C14: threadz profiles — `parseThread (printThread d) = ok (expectedThread d)`.
-/
namespace PV.Legacy
open PV

/-! ### trimming in general -/
theorem mem_of_mem_dropWhile {p : UInt8 → Bool} {b : UInt8} {s : Str} (h : b ∈ s.dropWhile p) : b ∈ s :=
  (List.dropWhile_sublist p).subset h

theorem mem_takeWhile_sat {p : UInt8 → Bool} {b : UInt8} {s : Str} (h : b ∈ s.takeWhile p) : p b = true := by
  induction s with
  | nil => simp at h
  | cons c s ih =>
    simp only [List.takeWhile_cons] at h
    split at h
    · rcases List.mem_cons.1 h with rfl | h
      · assumption
      · exact ih h
    · simp at h

theorem trimSpace_mem {b : UInt8} {s : Str} (h : b ∈ trimSpace s) : b ∈ s := by
  unfold trimSpace trimRight trimLeft at h
  have h1 : b ∈ (List.dropWhile isSpace s).reverse.dropWhile isSpace := by simpa using h
  have h2 := mem_of_mem_dropWhile h1
  exact mem_of_mem_dropWhile (by simpa using h2)

theorem trimSpace_decomp (s : Str) :
    ∃ pre suf, s = pre ++ (trimSpace s ++ suf) ∧ (∀ b ∈ pre, isSpace b = true) ∧ (∀ b ∈ suf, isSpace b = true) := by
  refine ⟨s.takeWhile isSpace, ((s.dropWhile isSpace).reverse.takeWhile isSpace).reverse, ?_, ?_, ?_⟩
  · have h1 : s = s.takeWhile isSpace ++ s.dropWhile isSpace := (List.takeWhile_append_dropWhile).symm
    have h3 : s.dropWhile isSpace =
        ((s.dropWhile isSpace).reverse.dropWhile isSpace).reverse ++ ((s.dropWhile isSpace).reverse.takeWhile isSpace).reverse := by
      rw [← List.reverse_append, List.takeWhile_append_dropWhile, List.reverse_reverse]
    conv => lhs; rw [h1, h3]
    rfl
  · intro b hb; exact mem_takeWhile_sat hb
  · intro b hb
    have : b ∈ (s.dropWhile isSpace).reverse.takeWhile isSpace := by simpa using hb
    exact mem_takeWhile_sat this

theorem isSpace_neutral {b : UInt8} (h : isSpace b = true) : b.toNat ≠ 48 ∧ b.toNat ≠ 120 ∧ isHexLower b = false := by
  simp only [isSpace, isReSpace, Bool.or_eq_true, beq_iff_eq] at h
  refine ⟨by omega, by omega, ?_⟩
  simp only [isHexLower, isDigit, Bool.or_eq_false_iff, decide_eq_false_iff_not]
  omega

theorem findHexGo_suffix_spaces (suf : Str) (h : ∀ b ∈ suf, isSpace b = true) (st : HexSt) :
    findHexGo suf st = findHexGo [] st := by
  have h0 : findHexGo suf .s0 = [] := findHexGo_none suf (fun b hb => (isSpace_neutral (h b hb)).1)
  cases suf with
  | nil => rfl
  | cons c t =>
    have hc := isSpace_neutral (h c (by simp))
    have ht : findHexGo t .s0 = [] := findHexGo_none t (fun b hb => (isSpace_neutral (h b (by simp [hb]))).1)
    cases st with
    | s0 => simpa [findHexGo] using h0
    | s1 => simp [findHexGo, hc.2.1, hexRestart_of_ne hc.1, ht]
    | s2 => simp [findHexGo, hc.2.2, hexRestart_of_ne hc.1, ht]
    | s3 acc => simp [findHexGo, hc.2.2, hexRestart_of_ne hc.1, ht]

theorem findHexGo_append_spaces (S suf : Str) (h : ∀ b ∈ suf, isSpace b = true) (st : HexSt) :
    findHexGo (S ++ suf) st = findHexGo S st := by
  induction S generalizing st with
  | nil => simpa using findHexGo_suffix_spaces suf h st
  | cons b S ih =>
    cases st with
    | s0 => simp [findHexGo, ih]
    | s1 => simp only [List.cons_append, findHexGo]; split <;> simp [ih]
    | s2 => simp only [List.cons_append, findHexGo]; split <;> simp [ih]
    | s3 acc => simp only [List.cons_append, findHexGo]; split <;> simp [ih]

theorem findHex_trimSpace (s : Str) : findHex (trimSpace s) = findHex s := by
  obtain ⟨pre, suf, hs, hpre, hsuf⟩ := trimSpace_decomp s
  conv => rhs; rw [hs]
  unfold findHex
  rw [findHexGo_skip pre _ (fun b hb => (isSpace_neutral (hpre b hb)).1), findHexGo_append_spaces _ _ hsuf]

theorem sp_succ_right (k : Nat) (r : Str) : sp k ++ (32 :: r) = sp (k + 1) ++ r := by
  induction k with
  | zero => simp [sp]
  | succ k ih => rw [sp_succ, ih, sp_succ (k + 1)]

/-- a line of the form blanks + body: its trimmed form is empty or starts with the body's first byte -/
theorem trimSpace_head (k : Nat) (c : UInt8) (t : Str) (hc : isSpace c = false) :
    ∃ t', trimSpace (sp k ++ c :: t) = c :: t' := by
  unfold trimSpace sp
  rw [trimLeft_replicate _ _ (by simpa using hc)]
  exact trimRight_cons t hc


/-! ### stack lines -/
def symText (o : Option Str) : Str := match o with | none => [] | some t => asc ": " ++ t

theorem ThreadLine.print_eq (w : Nat) (l : ThreadLine) :
    l.print w = sp l.indent ++ (l.label.print ++ (printAddrs w l.addrs ++ symText l.sym)) := by
  unfold ThreadLine.print symText
  simp only [List.append_assoc]
  cases l.sym <;> rfl

theorem symOK_bytes {t : Str} (h : symOK t = true) : ∀ b ∈ t, b.toNat ≠ 48 ∧ b.toNat ≠ 118 ∧ isPrint b = true := by
  intro b hb
  simp only [symOK, List.all_eq_true, Bool.and_eq_true, bne_iff_ne, ne_eq] at h
  exact ⟨(h b hb).1.2, (h b hb).2, (h b hb).1.1⟩

theorem symText_no0 {o : Option Str} (h : o.all symOK = true) : ∀ b ∈ symText o, b.toNat ≠ 48 := by
  intro b hb
  cases o with
  | none => simp [symText] at hb
  | some t =>
    simp only [symText, List.mem_append] at hb
    rcases hb with hb | hb
    · revert b; decide
    · exact (symOK_bytes (by simpa using h) b hb).1

theorem symText_stops (o : Option Str) : Stops isHexLower (symText o) := by
  cases o with
  | none => simp [symText]
  | some t => exact Stops_append_of_ne_nil (by decide) (Stops_of_stopsB (by decide))

theorem label_no0 (lb : ThreadLabel) : ∀ b ∈ lb.print, b.toNat ≠ 48 := by cases lb <;> decide

theorem ThreadLine.findHex (w : Nat) (l : ThreadLine) (h : l.sym.all symOK = true) :
    findHex (l.print w) = l.addrs.map (hexPad w) := by
  rw [l.print_eq]
  unfold Legacy.findHex
  rw [← List.append_assoc, findHexGo_skip _ _ (by
    intro b hb
    rcases List.mem_append.1 hb with hb | hb
    · simp only [sp, List.mem_replicate] at hb; rw [hb.2]; decide
    · exact label_no0 _ b hb)]
  rw [findHexGo_printAddrs w l.addrs _ (symText_stops _), findHexGo_none _ (symText_no0 h)]
  simp

theorem ThreadLine.no_v (w : Nat) (l : ThreadLine) (h : l.sym.all symOK = true) : (118 : UInt8) ∉ l.print w := by
  rw [l.print_eq]
  intro hm
  simp only [List.mem_append] at hm
  rcases hm with hm | hm | hm | hm
  · simp only [sp, List.mem_replicate] at hm; exact absurd hm.2 (by decide)
  · revert hm; cases l.label <;> decide
  · have := printAddrs_isAddrText w l.addrs 118 hm; revert this; decide
  · cases hs : l.sym with
    | none => simp [hs, symText] at hm
    | some t =>
      simp only [hs, symText, List.mem_append] at hm
      rcases hm with hm | hm
      · revert hm; decide
      · rw [hs] at h
        exact (symOK_bytes (by simpa using h) 118 hm).2.1 rfl

/-- the trimmed line is empty or starts with a byte other than `-` -/
theorem ThreadLine.trim_head (w : Nat) (l : ThreadLine) :
    trimSpace (l.print w) = [] ∨ ∃ c t, trimSpace (l.print w) = c :: t ∧ c ≠ 45 := by
  rw [l.print_eq]
  cases hl : l.label with
  | pc =>
    obtain ⟨t', ht'⟩ := trimSpace_head l.indent 80 (asc "C:" ++ (printAddrs w l.addrs ++ symText l.sym)) (by decide)
    exact Or.inr ⟨80, t', ht', by decide⟩
  | pc2 =>
    obtain ⟨t', ht'⟩ := trimSpace_head l.indent 80 (asc "C: " ++ (printAddrs w l.addrs ++ symText l.sym)) (by decide)
    exact Or.inr ⟨80, t', ht', by decide⟩
  | creator =>
    obtain ⟨t', ht'⟩ := trimSpace_head l.indent 99 (asc "reator:" ++ (printAddrs w l.addrs ++ symText l.sym)) (by decide)
    exact Or.inr ⟨99, t', ht', by decide⟩
  | none =>
    simp only [ThreadLabel.print, List.nil_append]
    cases ha : l.addrs with
    | cons a as =>
      rw [printAddrs_cons]
      have : sp l.indent ++ (32 :: 48 :: 120 :: (hexPad w a ++ printAddrs w as) ++ symText l.sym)
          = sp (l.indent + 1) ++ (48 :: (120 :: (hexPad w a ++ printAddrs w as) ++ symText l.sym)) := by
        simp only [List.cons_append]; rw [sp_succ_right]
      rw [this]
      obtain ⟨t', ht'⟩ := trimSpace_head (l.indent + 1) 48 (120 :: (hexPad w a ++ printAddrs w as) ++ symText l.sym) (by decide)
      exact Or.inr ⟨48, t', ht', by decide⟩
    | nil =>
      simp only [printAddrs_nil, List.nil_append]
      cases hs : l.sym with
      | none => left; simpa [symText, sp] using trimSpace_blank l.indent
      | some t =>
        obtain ⟨t', ht'⟩ := trimSpace_head l.indent 58 (32 :: t) (by decide)
        exact Or.inr ⟨58, t', by simpa [symText, asc] using ht', by decide⟩


/-! ### `parseThreadSample` -/
/-- a line that ends a traceback: already trimmed and starting with `---` -/
def IsBoundary (l : Str) : Prop := trimSpace l = l ∧ hasPrefix (asc "---") l = true

theorem IsBoundary.ne_nil {l : Str} (h : IsBoundary l) : l.isEmpty = false := by
  cases l with
  | nil => have := h.2; revert this; decide
  | cons _ _ => rfl

theorem threadSample_blanks (n : Nat) (R : List Str) (same : Bool) (acc : List Nat) (hR : R ≠ []) :
    ∀ last, threadSample last (List.replicate n [] ++ R) same acc = threadSample (if n = 0 then last else []) R same acc := by
  induction n with
  | zero => intro last; rfl
  | succ n ih =>
    intro last
    have : trimSpace ([] : Str) = [] := by decide
    simp only [List.replicate_succ, List.cons_append, threadSample, this, List.isEmpty_nil, if_true]
    rw [ih []]
    cases n <;> simp

theorem threadSample_boundary (l : Str) (hl : IsBoundary l) (more : List Str) (same : Bool) (acc : List Nat) (last : Str) :
    threadSample last (l :: more) same acc = .ok (l, more, if same then [] else acc) := by
  simp [threadSample, hl.1, hl.ne_nil, hl.2]

theorem map_hexPad_eq_nil {w : Nat} {as : List Nat} (h : as.map (hexPad w) = []) : as = [] := by
  cases as with
  | nil => rfl
  | cons _ _ => simp at h

theorem threadSample_line (w : Nat) (l : ThreadLine) (hs : l.sym.all symOK = true) (ha : ∀ a ∈ l.addrs, a < two64)
    (R : List Str) (same : Bool) (acc : List Nat) (last : Str) :
    threadSample last (l.print w :: R) same acc = threadSample (trimSpace (l.print w)) R same (acc ++ l.addrs) := by
  have hfh : findHex (trimSpace (l.print w)) = l.addrs.map (hexPad w) := by rw [findHex_trimSpace, l.findHex w hs]
  rcases l.trim_head w with h0 | ⟨c, t, hct, hc⟩
  · have : l.addrs = [] := map_hexPad_eq_nil (by rw [← hfh, h0]; rfl)
    simp [threadSample, h0, this]
  · have h1 : hasPrefix (asc "---") (trimSpace (l.print w)) = false := by rw [hct]; exact hasPrefix_dashes_ne _ hc
    have h2 : containsSub (asc "same as previous thread") (trimSpace (l.print w)) = false := by
      cases hq : containsSub (asc "same as previous thread") (trimSpace (l.print w)) with
      | false => rfl
      | true =>
        have := containsSub_mem hq (by decide) 118 (by decide)
        exact absurd (trimSpace_mem this) (l.no_v w hs)
    have h3 : parseHexAddresses (trimSpace (l.print w)) = some l.addrs := by
      unfold parseHexAddresses; rw [hfh]; exact parseHexList_map w l.addrs ha
    have h4 : (trimSpace (l.print w)).isEmpty = false := by rw [hct]; rfl
    rw [threadSample]
    simp only [h4, h1, h2, h3, Bool.false_eq_true, if_false]

theorem threadSample_stack (w : Nat) (ls : List ThreadLine)
    (h : ∀ l ∈ ls, l.sym.all symOK = true ∧ ∀ a ∈ l.addrs, a < two64)
    (next : Str) (hn : IsBoundary next) (more : List Str) (acc : List Nat) :
    ∀ last, threadSample last (ls.flatMap (fun l => List.replicate l.blanks [] ++ [l.print w]) ++ next :: more) false acc
      = .ok (next, more, acc ++ ls.flatMap (·.addrs)) := by
  induction ls generalizing acc with
  | nil => intro last; simpa using threadSample_boundary next hn more false acc last
  | cons l ls ih =>
    intro last
    simp only [List.flatMap_cons, List.append_assoc, List.singleton_append, List.cons_append, List.nil_append]
    rw [threadSample_blanks _ _ _ _ (by simp), threadSample_line w l (h l (by simp)).1 (h l (by simp)).2,
      ih (fun x hx => h x (by simp [hx]))]
    simp

theorem threadSample_same (blanks indent : Nat) (next : Str) (hn : IsBoundary next) (more : List Str) (last : Str) :
    threadSample last (List.replicate blanks [] ++ [sp indent ++ sameMarker] ++ next :: more) false []
      = .ok (next, more, []) := by
  have ht : trimSpace (sp indent ++ sameMarker) = sameMarker :=
    trimSpace_replicate indent sameMarker (Stops_of_stopsB (by decide)) (Stops_of_stopsB (by decide))
  have h1 : sameMarker.isEmpty = false := by decide
  have h2 : hasPrefix (asc "---") sameMarker = false := by decide
  have h3 : containsSub (asc "same as previous thread") sameMarker = true := by decide
  simp only [List.append_assoc, List.singleton_append]
  rw [threadSample_blanks _ _ _ _ (by simp), threadSample]
  simp only [ht, h1, h2, h3, Bool.false_eq_true, if_false, if_true]
  rw [threadSample_boundary next hn more true [] sameMarker]
  rfl

/-! ### boundary lines -/
theorem ThreadRec.header_boundary (r : ThreadRec) : IsBoundary r.headerLine := by
  have e : r.headerLine = asc "--- Thread " ++ ((hex r.id ++ asc " (name: " ++ r.name ++ [47] ++ dec r.tid) ++ asc ") stack: ---") := by
    simp [ThreadRec.headerLine, List.append_assoc]
  constructor
  · rw [e]
    apply trimSpace_of_stops
    · exact Stops_append_of_ne_nil (by decide) (Stops_of_stopsB (by decide))
    · rw [← List.append_assoc]
      exact Stops_reverse_append _ _ (by decide) (Stops_of_stopsB (by decide))
  · have : r.headerLine = asc "---" ++ (asc " Thread " ++ (hex r.id ++ asc " (name: " ++ r.name ++ [47] ++ dec r.tid ++ asc ") stack: ---")) := by
      simp [ThreadRec.headerLine, List.append_assoc, asc]
    rw [this, hasPrefix_append]

theorem noStackLine_boundary (n : Nat) : IsBoundary (noStackLine n) := by
  constructor
  · unfold noStackLine
    apply trimSpace_of_stops
    · rw [List.append_assoc]
      exact Stops_append_of_ne_nil (by decide) (Stops_of_stopsB (by decide))
    · exact Stops_reverse_append _ _ (by decide) (Stops_of_stopsB (by decide))
  · have : noStackLine n = asc "---" ++ (asc "- no stack trace for " ++ (dec n ++ asc " threads ----")) := by
      simp [noStackLine, List.append_assoc, asc]
    rw [this, hasPrefix_append]

theorem sentinel_boundary : IsBoundary sentinelMemoryMap := ⟨by decide, by decide⟩


/-! ### the main loop -/
theorem searchRe_isSome_append {α} (m : Str → Option α) (a b : Str) (h : (m b).isSome = true) :
    (searchRe m (a ++ b)).isSome = true := by
  induction a with
  | nil =>
    cases b with
    | nil => simpa [searchRe] using h
    | cons c t =>
      simp only [List.nil_append, searchRe]
      cases hq : m (c :: t) with
      | none => rw [hq] at h; simp at h
      | some r => rfl
  | cons x a ih =>
    simp only [List.cons_append, searchRe]
    cases m (x :: (a ++ b)) with
    | none => exact ih
    | some r => rfl

theorem isSome_unit {x : Option Unit} (h : x.isSome = true) : x = some () := by
  cases x with
  | none => simp at h
  | some u => rfl

theorem matchThreadTailAt_tail (tid : Nat) :
    matchThreadTailAt ([47] ++ (dec tid ++ asc ") stack: ---")) = some () := by
  unfold matchThreadTailAt
  rw [stripPrefix_append]
  simp only [Option.bind_eq_bind, Option.bind_some]
  rw [reDigits_dec _ _ (Stops_of_stopsB (by decide))]
  simp only [Option.bind_some]
  have : stripPrefix (asc ") stack: ---") (asc ") stack: ---") = some [] := by decide
  rw [this]
  rfl

theorem ThreadRec.isThreadStart (r : ThreadRec) : isThreadStart r.headerLine = true := by
  have e : r.headerLine = asc "--- Thread " ++ (hex r.id ++ (asc " (name: " ++ (r.name ++ ([47] ++ (dec r.tid ++ asc ") stack: ---"))))) := by
    simp [ThreadRec.headerLine, List.append_assoc]
  unfold Legacy.isThreadStart
  have hm : matchThreadStartAt r.headerLine = some () := by
    apply isSome_unit
    rw [e]
    unfold matchThreadStartAt
    rw [stripPrefix_append]
    simp only [Option.bind_eq_bind, Option.bind_some]
    have hS : Stops isXDigit (asc " (name: " ++ (r.name ++ ([47] ++ (dec r.tid ++ asc ") stack: ---")))) :=
      Stops_append_of_ne_nil (by decide) (Stops_of_stopsB (by decide))
    rw [takeWhile_append_stops (hex_isXDigit r.id) hS, dropWhile_append_stops (hex_isXDigit r.id) hS]
    simp only [isEmpty_false_of_ne_nil (hex_ne_nil r.id), Bool.false_eq_true, if_false, stripPrefix_append, Option.bind_some]
    exact searchRe_isSome_append _ _ _ (by rw [matchThreadTailAt_tail]; rfl)
  rw [searchRe_of_some _ _ _ hm]; rfl

theorem ThreadRec.not_noStack (r : ThreadRec) : hasPrefix (asc "---- no stack trace for") r.headerLine = false := by
  have : r.headerLine = 45 :: 45 :: 45 :: 32 :: (asc "Thread " ++ (hex r.id ++ asc " (name: " ++ r.name ++ [47] ++ dec r.tid ++ asc ") stack: ---")) := by
    simp [ThreadRec.headerLine, List.append_assoc, asc]
  rw [this]
  simp [hasPrefix, asc, stripPrefix]

/-- what one record does to the samples collected so far (newest first) -/
def ThreadRec.step (r : ThreadRec) (acc : List RawSample) : List RawSample :=
  match r.body with
  | .same _ _ => bumpLast acc
  | .stack ls => { addrs := adjustCallers (ls.flatMap (·.addrs)), values := [1], numLabel := [] } :: acc

theorem threadSamplesRev_eq (rs : List ThreadRec) (acc : List RawSample) :
    threadSamplesRev rs acc = rs.foldl (fun a r => r.step a) acc := by
  induction rs generalizing acc with
  | nil => rfl
  | cons r rs ih =>
    rw [List.foldl_cons, ← ih]
    unfold ThreadRec.step
    cases hb : r.body <;> simp [threadSamplesRev, hb]

theorem threadLoop_rec (w : Nat) (r : ThreadRec) (hr : r.wf = true) (f : Nat) (next : Str) (hn : IsBoundary next)
    (more : List Str) (acc : List RawSample) :
    threadLoop (f+1) r.headerLine (r.body.lines w ++ next :: more) acc = threadLoop f next more (r.step acc) := by
  simp only [ThreadRec.wf, Bool.and_eq_true, Bool.not_eq_true', List.all_eq_true, Option.isNone_iff_eq_none] at hr
  obtain ⟨⟨⟨_, hsent⟩, _⟩, hbody⟩ := hr
  rw [threadLoop]
  simp only [hsent, r.not_noStack, r.isThreadStart, Bool.false_eq_true, if_false, Bool.not_true]
  unfold ThreadRec.step
  cases hb : r.body with
  | same blanks indent =>
    simp only [ThreadBody.lines]
    rw [threadSample_same blanks indent next hn more []]
    simp
  | stack ls =>
    rw [hb] at hbody
    simp only [Bool.and_eq_true, List.all_eq_true, bne_iff_ne, ne_eq, decide_eq_true_eq] at hbody
    simp only [ThreadBody.lines]
    rw [threadSample_stack w ls (fun l hl => ⟨(hbody.1 l hl).2, (hbody.1 l hl).1⟩) next hn more [] []]
    have hne : (ls.flatMap (·.addrs)).isEmpty = false := by
      cases hq : ls.flatMap (·.addrs) with
      | nil => exact absurd hq hbody.2
      | cons _ _ => rfl
    simp [hne]

/-- run the loop on a non-empty list of lines -/
def loopOn (fuel : Nat) (ls : List Str) (acc : List RawSample) : Outcome (List RawSample × Str × List Str) :=
  match ls with
  | [] => .err "unrecognized"
  | x :: xs => threadLoop fuel x xs acc

theorem loopOn_recs (w : Nat) (rs : List ThreadRec) (h : ∀ r ∈ rs, r.wf = true) (E : List Str)
    (hE : ∃ e more, E = e :: more ∧ IsBoundary e) (f : Nat) (acc : List RawSample) :
    loopOn (f + rs.length) (rs.flatMap (ThreadRec.lines w) ++ E) acc = loopOn f E (rs.foldl (fun a r => r.step a) acc) := by
  induction rs generalizing acc with
  | nil => simp
  | cons r rs ih =>
    have hnext : ∃ e more, rs.flatMap (ThreadRec.lines w) ++ E = e :: more ∧ IsBoundary e := by
      cases rs with
      | nil => simpa using hE
      | cons r2 rs2 =>
        exact ⟨r2.headerLine, r2.body.lines w ++ (rs2.flatMap (ThreadRec.lines w) ++ E),
          by simp [ThreadRec.lines], r2.header_boundary⟩
    obtain ⟨e, more, hem, he⟩ := hnext
    have hlen : f + (r :: rs).length = (f + rs.length) + 1 := by simp; omega
    simp only [List.flatMap_cons, ThreadRec.lines, List.cons_append, List.append_assoc, loopOn, hlen]
    rw [hem, threadLoop_rec w r (h r (by simp)) _ e he more acc]
    have := ih (fun x hx => h x (by simp [hx])) (r.step acc)
    rw [hem] at this
    simpa [loopOn] using this


/-! ### ending, front, whole document -/
theorem noStackLine_no_colon (n : Nat) : (58 : UInt8) ∉ noStackLine n := by
  unfold noStackLine
  intro hm
  simp only [List.mem_append] at hm
  rcases hm with (hm | hm) | hm
  · revert hm; decide
  · have := dec_isDigit n 58 hm; revert this; decide
  · revert hm; decide

theorem noStackLine_prefix (n : Nat) : hasPrefix (asc "---- no stack trace for") (noStackLine n) = true := by
  have : noStackLine n = asc "---- no stack trace for" ++ ([32] ++ (dec n ++ asc " threads ----")) := by
    simp [noStackLine, List.append_assoc, asc]
  rw [this, hasPrefix_append]

theorem ThreadEnd.lines_boundary (e : ThreadEnd) : ∃ x more, e.lines = x :: more ∧ IsBoundary x := by
  cases e with
  | map m => exact ⟨_, _, rfl, sentinel_boundary⟩
  | noStack n m => exact ⟨_, _, rfl, noStackLine_boundary n⟩

theorem loopOn_ending (f : Nat) (e : ThreadEnd) (he : e.wf = true) (acc : List RawSample) :
    ∃ cur rest, loopOn (f+1) e.lines acc = .ok (acc.reverse, cur, rest) ∧ parseAdditionalSections cur rest = e.mappings := by
  cases e with
  | map m =>
    refine ⟨sentinelMemoryMap, m.bodyLines, ?_, ?_⟩
    · simp [loopOn, ThreadEnd.lines, tailLines, threadLoop, isMemoryMapSentinel_memoryMap]
    · simp only [parseAdditionalSections, isMemoryMapSentinel_memoryMap, if_true, ThreadEnd.mappings]
      exact parseProcMaps_bodyLines m he
  | noStack n m =>
    refine ⟨noStackLine n, tailLines sentinelMemoryMap m, ?_, ?_⟩
    · simp [loopOn, ThreadEnd.lines, threadLoop, not_sentinel_of_no_colon (noStackLine_no_colon n), noStackLine_prefix]
    · simp only [parseAdditionalSections, not_sentinel_of_no_colon (noStackLine_no_colon n), Bool.false_eq_true, if_false,
        ThreadEnd.mappings]
      cases m with
      | none => simp [tailLines, skipToSentinel, parseProcMaps, tailMappings]
      | some m' =>
        simp only [tailLines, skipToSentinel, isMemoryMapSentinel_memoryMap, if_true, tailMappings]
        exact parseProcMaps_bodyLines m' he

theorem flatMap_lines_length (w : Nat) (rs : List ThreadRec) : rs.length ≤ (rs.flatMap (ThreadRec.lines w)).length := by
  induction rs with
  | nil => simp
  | cons r rs ih =>
    simp only [List.flatMap_cons, List.length_append, ThreadRec.lines, List.length_cons]
    omega

theorem threadzLine_match (n : Nat) : (searchRe matchThreadzAt (threadzLine n)).isSome = true := by
  have hm : matchThreadzAt (threadzLine n) = some () := by
    have e : threadzLine n = asc "--- threadz " ++ (dec n ++ asc " ---") := by simp [threadzLine, List.append_assoc]
    rw [e]
    unfold matchThreadzAt
    rw [stripPrefix_append]
    simp only [Option.bind_eq_bind, Option.bind_some]
    rw [reDigits_dec _ _ (Stops_of_stopsB (by decide))]
    simp only [Option.bind_some]
    have : stripPrefix (asc " ---") (asc " ---") = some [] := by decide
    rw [this]; rfl
  rw [searchRe_of_some _ _ _ hm]; rfl

theorem threadzLine_not_filler (n : Nat) : isSpaceOrComment (threadzLine n) = false := by
  have e : threadzLine n = 45 :: (asc "-- threadz " ++ (dec n ++ asc " ---")) := by simp [threadzLine, List.append_assoc, asc]
  rw [e]; exact isSpaceOrComment_head' _ (by decide) (by decide)

theorem IsBoundary.dash {l : Str} (h : IsBoundary l) : ∃ t, l = 45 :: t := by
  have := h.2
  unfold hasPrefix at this
  cases hq : stripPrefix (asc "---") l with
  | none => simp [hq] at this
  | some r => exact ⟨45 :: 45 :: r, by rw [stripPrefix_eq_some hq]; rfl⟩

theorem IsBoundary.not_filler {l : Str} (h : IsBoundary l) : isSpaceOrComment l = false := by
  obtain ⟨t, rfl⟩ := h.dash
  exact isSpaceOrComment_head' _ (by decide) (by decide)

theorem filler_no_dash (f : Filler) : hasPrefix [45] f.print = false := by
  unfold Filler.print
  cases f.indent with
  | zero =>
    cases f.comment with
    | none => rfl
    | some t => simp [hasPrefix, stripPrefix]
  | succ n => simp [List.replicate_succ, hasPrefix, stripPrefix]

theorem skipPreamble_fillers (fs : List Filler) (hfs : ∀ f ∈ fs, f.wf = true) (x : Str) (hx : IsBoundary x) (more : List Str) :
    ∀ last, skipPreamble last (printFillers fs ++ x :: more) = (x, more) := by
  induction fs with
  | nil =>
    intro last
    obtain ⟨t, rfl⟩ := hx.dash
    simp [printFillers, skipPreamble, hasPrefix, stripPrefix]
  | cons f fs ih =>
    intro last
    simp only [printFillers, List.map_cons, List.cons_append, skipPreamble,
      filler_not_sentinel (hfs f (by simp)), filler_no_dash, Bool.or_self, Bool.false_eq_true, if_false]
    exact ih (fun g hg => hfs g (by simp [hg])) _

theorem LineOK_threadLabel (lb : ThreadLabel) : LineOK lb.print := by cases lb <;> decide

theorem ThreadDoc.lines_ok (d : ThreadDoc) (h : d.wf = true) : ∀ l ∈ d.lines, LineOK l := by
  simp only [ThreadDoc.wf, Bool.and_eq_true, List.all_eq_true] at h
  obtain ⟨⟨⟨hpre, hhead⟩, hrecs⟩, hend⟩ := h
  intro l hl
  simp only [ThreadDoc.lines, List.mem_append, List.mem_flatMap] at hl
  rcases hl with ((hl | hl) | ⟨r, hr, hl⟩) | hl
  · exact LineOK_fillers (List.all_eq_true.2 hpre) l hl
  · cases hh : d.head with
    | none => simp [hh] at hl
    | some p =>
      obtain ⟨n, fs⟩ := p
      simp only [hh, List.mem_cons] at hl hhead
      rcases hl with rfl | hl
      · have h1 : LineOK (asc "--- threadz ") := by decide
        have h2 : LineOK (asc " ---") := by decide
        simp only [threadzLine]; lineok; exact ⟨h1, h2⟩
      · exact LineOK_fillers hhead l hl
  · have hw := hrecs r hr
    simp only [ThreadRec.wf, Bool.and_eq_true, List.all_eq_true] at hw
    simp only [ThreadRec.lines, List.mem_cons] at hl
    rcases hl with rfl | hl
    · have h1 : LineOK (asc "--- Thread ") := by decide
      have h2 : LineOK (asc " (name: ") := by decide
      have h3 : LineOK (asc ") stack: ---") := by decide
      have h4 : LineOK r.name := LineOK_of_isPrint hw.1.1.1
      simp only [ThreadRec.headerLine]; lineok
      exact ⟨⟨⟨⟨h1, h2⟩, h4⟩, by decide⟩, h3⟩
    · cases hb : r.body with
      | same blanks indent =>
        simp only [hb, ThreadBody.lines, List.mem_append, List.mem_replicate, List.mem_singleton] at hl
        rcases hl with hl | hl
        · rw [hl.2]; exact LineOK_nil
        · subst hl
          have : LineOK sameMarker := by decide
          lineok; exact this
      | stack ls =>
        have hb' := hw.2
        simp only [hb, Bool.and_eq_true, List.all_eq_true] at hb'
        simp only [hb, ThreadBody.lines, List.mem_flatMap, List.mem_append, List.mem_replicate, List.mem_singleton] at hl
        obtain ⟨tl, htl, hl⟩ := hl
        rcases hl with hl | hl
        · rw [hl.2]; exact LineOK_nil
        · subst hl
          have hs : LineOK (match tl.sym with | none => [] | some t => asc ": " ++ t) := by
            cases hsym : tl.sym with
            | none => exact LineOK_nil
            | some t =>
              have := (hb'.1 tl htl).2
              rw [hsym] at this
              have hlit : LineOK (asc ": ") := by decide
              exact LineOK_append hlit (LineOK_of_isPrint (fun b hb => (symOK_bytes (by simpa using this) b hb).2.2))
          simp only [ThreadLine.print]; lineok
          exact ⟨LineOK_threadLabel _, hs⟩
  · cases he : d.ending with
    | map m =>
      rw [he] at hl hend
      have hl' : l ∈ tailLines sentinelMemoryMap (some m) := hl
      exact LineOK_tailLines LineOK_sentinelMemoryMap (fun m' hm' => by cases hm'; exact hend) l hl'
    | noStack n m =>
      rw [he] at hl hend
      simp only [ThreadEnd.lines, List.mem_cons] at hl
      rcases hl with rfl | hl
      · have h1 : LineOK (asc "---- no stack trace for ") := by decide
        have h2 : LineOK (asc " threads ----") := by decide
        simp only [noStackLine]; lineok; exact ⟨h1, h2⟩
      · exact LineOK_tailLines LineOK_sentinelMemoryMap (fun m' hm' => by
          subst hm'; simpa [ThreadEnd.wf] using hend) l hl

theorem splitLines_printThread (d : ThreadDoc) (h : d.wf = true) : splitLines (printThread d) = d.lines :=
  splitLines_unlines _ (d.lines_ok h)

theorem parseThread_printThread (d : ThreadDoc) (h : d.wf = true) : parseThread (printThread d) = .ok (expectedThread d) := by
  have hlines := splitLines_printThread d h
  simp only [ThreadDoc.wf, Bool.and_eq_true, List.all_eq_true] at h
  obtain ⟨⟨⟨hpre, hhead⟩, hrecs⟩, hend⟩ := h
  -- the lines after the preamble
  obtain ⟨e0, emore, hE, he0⟩ := d.ending.lines_boundary
  have hALL : ∃ x more, d.recs.flatMap (ThreadRec.lines d.width) ++ d.ending.lines = x :: more ∧ IsBoundary x ∧
      (d.head = none → ∃ r, r ∈ d.recs ∧ x = r.headerLine) := by
    cases hr : d.recs with
    | nil =>
      refine ⟨e0, emore, by simpa using hE, he0, ?_⟩
      intro hn; rw [hn, hr] at hhead; simp at hhead
    | cons r rs =>
      exact ⟨r.headerLine, r.body.lines d.width ++ (rs.flatMap (ThreadRec.lines d.width) ++ d.ending.lines),
        by simp [ThreadRec.lines], r.header_boundary, fun _ => ⟨r, by simp, rfl⟩⟩
  obtain ⟨x, more, hxm, hx, hxr⟩ := hALL
  have hlen : d.recs.length ≤ more.length := by
    have h1 := flatMap_lines_length d.width d.recs
    have h2 : (d.recs.flatMap (ThreadRec.lines d.width) ++ d.ending.lines).length = more.length + 1 := by rw [hxm]; simp
    have h3 : 1 ≤ d.ending.lines.length := by rw [hE]; simp
    simp only [List.length_append] at h2; omega
  -- the loop from the first boundary line
  have hloop : ∃ cur rest, threadLoop (more.length + 2) x more [] = .ok ((threadSamplesRev d.recs []).reverse, cur, rest) ∧
      parseAdditionalSections cur rest = d.ending.mappings := by
    have h1 : threadLoop (more.length + 2) x more [] = loopOn (more.length + 2) (x :: more) [] := rfl
    rw [h1, ← hxm]
    have h2 : more.length + 2 = (more.length + 1 - d.recs.length + 1) + d.recs.length := by omega
    rw [h2, loopOn_recs d.width d.recs hrecs d.ending.lines ⟨e0, emore, hE, he0⟩]
    obtain ⟨cur, rest, hc1, hc2⟩ := loopOn_ending (more.length + 1 - d.recs.length) d.ending hend
      (d.recs.foldl (fun a r => r.step a) [])
    exact ⟨cur, rest, by rw [hc1, threadSamplesRev_eq], hc2⟩
  obtain ⟨cur, rest, hl1, hl2⟩ := hloop
  unfold parseThread
  rw [hlines]
  unfold parseThreadLines ThreadDoc.lines
  cases hh : d.head with
  | some p =>
    obtain ⟨n, fs⟩ := p
    rw [hh] at hhead
    simp only [List.append_assoc, List.cons_append]
    rw [skipLeadingFillers_fillers _ _ _ (threadzLine_not_filler n)]
    simp only [threadzLine_match, if_true, hxm]
    have hfs : ∀ f ∈ fs, f.wf = true := by simpa [List.all_eq_true] using hhead
    rw [skipPreamble_fillers fs hfs x hx more]
    simp only [hl1, hl2, expectedThread]
  | none =>
    obtain ⟨r, hr, hxr'⟩ := hxr hh
    simp only [List.nil_append, List.append_assoc, hxm]
    rw [skipLeadingFillers_fillers _ _ _ hx.not_filler]
    have hw := hrecs r hr
    simp only [ThreadRec.wf, Bool.and_eq_true, Option.isNone_iff_eq_none] at hw
    have hz : (searchRe matchThreadzAt x).isSome = false := by rw [hxr', hw.1.2]; rfl
    have hts : isThreadStart x = true := by rw [hxr']; exact r.isThreadStart
    simp only [hz, hts, Bool.false_eq_true, if_false, if_true, hl1, hl2, expectedThread]

end PV.Legacy
