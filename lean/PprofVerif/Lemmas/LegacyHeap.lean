import PprofVerif.Lemmas.LegacyCount
import PprofVerif.Model.LegacyHeap
/-!
Helper lemmas for C14: heap profiles — `parseHeap (printHeap d) = ok (expectedHeap d)`.
-/
namespace PV.Legacy
open PV

/-! ### small scanners -/
theorem skipSp_sp (n : Nat) (r : Str) (h : Stops (fun b => b.toNat == 32) r) : skipSp (sp n ++ r) = r := by
  unfold skipSp
  exact dropWhile_append_stops (by intro b hb; simp only [sp, List.mem_replicate] at hb; rw [hb.2]; rfl) h

theorem skipSp_stops {r : Str} (h : Stops (fun b => b.toNat == 32) r) : skipSp r = r := dropWhile_stops h

theorem reDigits_dec (n : Nat) (r : Str) (h : Stops isDigit r) : reDigits (dec n ++ r) = some (dec n, r) := by
  unfold reDigits
  rw [takeWhile_append_stops (dec_isDigit n) h, dropWhile_append_stops (dec_isDigit n) h]
  simp [isEmpty_false_of_ne_nil (dec_ne_nil n)]

theorem Stops_sp32_dec (n : Nat) (r : Str) : Stops (fun b => b.toNat == 32) (dec n ++ r) := by
  obtain ⟨c, t, hd, hc⟩ := dec_cons n
  rw [hd]
  simp only [List.cons_append, Stops_cons, beq_eq_false_iff_ne]
  simp only [isDigit, decide_eq_true_eq] at hc; omega

theorem searchRe_of_some {α} (m : Str → Option α) (s : Str) (a : α) (h : m s = some a) : searchRe m s = some a := by
  cases s with
  | nil => simpa [searchRe] using h
  | cons b t => simp [searchRe, h]

theorem dec_inj {a b : Nat} (h : dec a = dec b) : a = b := by
  have := parseNat_dec a
  rw [h, parseNat_dec] at this
  exact (Option.some.inj this).symm

theorem dec_bne (a b : Nat) : (dec a != dec b) = (a != b) := by
  rw [Bool.eq_iff_iff]
  simp only [bne_iff_ne, ne_eq]
  exact not_congr ⟨dec_inj, fun e => by rw [e]⟩

theorem asc_zero : asc "0" = dec 0 := by decide

/-! ### the four numbers -/
theorem heapNumbers_eq (pad a b c d : Nat) (rest : Str) :
    heapNumbers pad a b c d ++ rest =
      sp pad ++ (dec a ++ (58 :: (sp (pad+1) ++ (dec b ++ (sp (pad+1) ++ (91 :: (sp pad ++ (dec c ++ (58 :: (sp (pad+1) ++
        (dec d ++ (sp pad ++ (93 :: rest))))))))))))) := by
  simp [heapNumbers, List.append_assoc]

theorem isDigit_58 : isDigit 58 = false := by decide
theorem isDigit_91 : isDigit 91 = false := by decide
theorem isDigit_93 : isDigit 93 = false := by decide

theorem Stops_isDigit_sp (n : Nat) (c : UInt8) (r : Str) (hc : isDigit c = false) : Stops isDigit (sp n ++ c :: r) := by
  cases n with
  | zero => simpa [sp] using hc
  | succ n => simp [sp_succ, isDigit_32]

theorem Stops_sp32_cons {c : UInt8} (r : Str) (hc : c.toNat ≠ 32) : Stops (fun b => b.toNat == 32) (c :: r) := by
  simp [hc]

theorem sp_add (a b : Nat) (r : Str) : sp a ++ (sp b ++ r) = sp (a + b) ++ r := by
  induction a with
  | zero => simp [sp]
  | succ a ih =>
    rw [show a + 1 + b = (a + b) + 1 by omega, sp_succ, sp_succ, ih]

theorem reNumColon_print (k a : Nat) (r : Str) : reNumColon (sp k ++ (dec a ++ 58 :: r)) = some (dec a, r) := by
  unfold reNumColon
  rw [skipSp_sp k _ (Stops_sp32_dec _ _), reDigits_dec a _ (by simp [isDigit_58])]
  simp only [Option.bind_eq_bind, Option.bind_some]
  rw [show (58 :: r) = [58] ++ r from rfl, stripPrefix_append]; rfl

theorem reNumThen_print (c : UInt8) (hc : isDigit c = false) (hc32 : c.toNat ≠ 32) (k j a : Nat) (r : Str) :
    reNumThen c (sp k ++ (dec a ++ (sp j ++ c :: r))) = some (dec a, r) := by
  unfold reNumThen
  rw [skipSp_sp k _ (Stops_sp32_dec _ _), reDigits_dec a _ (Stops_isDigit_sp _ _ _ hc)]
  simp only [Option.bind_eq_bind, Option.bind_some]
  rw [skipSp_sp j _ (Stops_sp32_cons _ hc32), show (c :: r) = [c] ++ r from rfl, stripPrefix_append]; rfl

/-- ` *(\d+): *(\d+) *\[ *(\d+): *(\d+) *\]` on printed numbers (after `k` leading blanks) -/
theorem reFourNumbers_print (k pad a b c d : Nat) (rest : Str) :
    reFourNumbers (sp k ++ (heapNumbers pad a b c d ++ rest)) = some (dec a, dec b, dec c, dec d, rest) := by
  rw [heapNumbers_eq, sp_add]
  unfold reFourNumbers
  rw [reNumColon_print]
  simp only [Option.bind_eq_bind, Option.bind_some]
  rw [reNumThen_print 91 (by decide) (by decide)]
  simp only [Option.bind_some]
  rw [reNumColon_print]
  simp only [Option.bind_some]
  rw [reNumThen_print 93 (by decide) (by decide)]
  rfl


/-! ### header -/
def HeapKind.suffix : HeapKind → Str
  | .heapzV2 => asc "z_v2" | .heapV2 => asc "_v2" | .heapprofile => asc "profile" | _ => []

theorem HeapKind.print_heap (k : HeapKind) (h : k.isHeap = true) : k.print = asc "heap" ++ k.suffix := by
  cases k <;> first | rfl | (simp [HeapKind.isHeap] at h)

theorem HeapKind.suffix_nameBytes (k : HeapKind) : ∀ b ∈ k.suffix, isHeapNameByte b = true := by
  cases k <;> decide

def HeapDoc.rateSuffix (d : HeapDoc) : Str :=
  match d.rate with | some r => if d.kind.isHeap then 47 :: dec r else [] | none => []

def HeapDoc.rateDigits (d : HeapDoc) : Str :=
  match d.rate with | some r => if d.kind.isHeap then dec r else [] | none => []

theorem HeapDoc.headerLine_eq (d : HeapDoc) :
    d.headerLine = asc "heap profile:" ++ (sp 1 ++ (heapNumbers d.pad d.totInuseN d.totInuseB d.totAllocN d.totAllocB ++
      (asc " @ " ++ (d.kind.print ++ d.rateSuffix)))) := by
  have : asc "heap profile: " = asc "heap profile:" ++ sp 1 := by decide
  unfold HeapDoc.headerLine HeapDoc.rateSuffix
  rw [this]
  simp only [List.append_assoc]
  cases d.rate <;> rfl

theorem rate_tail (d : HeapDoc) :
    (stripPrefix [47] d.rateSuffix).getD d.rateSuffix = d.rateDigits ∧ Stops isHeapNameByte d.rateSuffix := by
  unfold HeapDoc.rateSuffix HeapDoc.rateDigits
  cases d.rate with
  | none => simp [stripPrefix]
  | some r =>
    cases d.kind.isHeap with
    | false => simp [stripPrefix]
    | true =>
      simp only [if_true]
      rw [show (47 :: dec r) = [47] ++ dec r from rfl, stripPrefix_append]
      exact ⟨rfl, by simp; decide⟩

theorem rateDigits_takeWhile (d : HeapDoc) : d.rateDigits.takeWhile isDigit = d.rateDigits := by
  unfold HeapDoc.rateDigits
  cases d.rate with
  | none => rfl
  | some r =>
    cases d.kind.isHeap with
    | false => rfl
    | true => simpa using takeWhile_append_stops (dec_isDigit r) (Stops_nil isDigit)

theorem matchHeapHeaderAt_header (d : HeapDoc) (hk : d.kind.isHeap = true) :
    matchHeapHeaderAt d.headerLine =
      some (dec d.totInuseN, dec d.totInuseB, dec d.totAllocN, dec d.totAllocB, d.kind.print, d.rateDigits) := by
  rw [d.headerLine_eq]
  unfold matchHeapHeaderAt
  rw [stripPrefix_append]
  simp only [Option.bind_eq_bind, Option.bind_some]
  rw [reFourNumbers_print]
  simp only [Option.bind_some]
  have e1 : skipSp (asc " @ " ++ (d.kind.print ++ d.rateSuffix)) = [64] ++ (sp 1 ++ (d.kind.print ++ d.rateSuffix)) := by
    rw [show asc " @ " ++ (d.kind.print ++ d.rateSuffix) = sp 1 ++ (64 :: (sp 1 ++ (d.kind.print ++ d.rateSuffix))) by
      simp [sp, asc]]
    rw [skipSp_sp 1 _ (Stops_sp32_cons _ (by decide))]; rfl
  rw [e1, stripPrefix_append]
  simp only [Option.bind_some]
  rw [d.kind.print_heap hk]
  have e2 : skipSp (sp 1 ++ (asc "heap" ++ d.kind.suffix ++ d.rateSuffix)) = asc "heap" ++ (d.kind.suffix ++ d.rateSuffix) := by
    rw [List.append_assoc, skipSp_sp 1 _ (Stops_append_of_ne_nil (by decide) (Stops_of_stopsB (by decide)))]
  rw [e2, stripPrefix_append]
  simp only [Option.bind_some]
  have hrt := rate_tail d
  rw [takeWhile_append_stops d.kind.suffix_nameBytes hrt.2, dropWhile_append_stops d.kind.suffix_nameBytes hrt.2, hrt.1,
    rateDigits_takeWhile]
  rfl

theorem rateDigits_period (d : HeapDoc) (hk : d.kind.isHeap = true) (hr : d.rate.all (· < two63) = true) :
    (if d.rateDigits.isEmpty then some 0 else parseI64 d.rateDigits) = some (d.rate.getD 0) := by
  unfold HeapDoc.rateDigits
  cases h : d.rate with
  | none => simp
  | some r =>
    have hr' : r < two63 := by simpa [h] using hr
    simp [hk, isEmpty_false_of_ne_nil (dec_ne_nil r), parseI64_dec hr']

theorem parseHeapHeader_header (d : HeapDoc) (hk : d.kind.isHeap = true) (hr : d.rate.all (· < two63) = true) :
    parseHeapHeader d.headerLine = .ok (d.v2, d.period, d.hasAlloc) := by
  unfold parseHeapHeader
  rw [searchRe_of_some _ _ _ (matchHeapHeaderAt_header d hk)]
  simp only [rateDigits_period d hk hr]
  have hA : ((dec d.totAllocN != dec d.totInuseN && dec d.totAllocN != asc "0") ||
      (dec d.totAllocB != dec d.totInuseB && dec d.totAllocB != asc "0")) = d.hasAlloc := by
    simp only [asc_zero, dec_bne, HeapDoc.hasAlloc, hk, Bool.true_and]
  rw [hA]
  have n1 : asc "heap" ≠ asc "heapz_v2" := by decide
  have n2 : asc "heap" ≠ asc "heap_v2" := by decide
  have n3 : asc "heap" ≠ asc "heapprofile" := by decide
  have n4 : asc "heapprofile" ≠ asc "heapz_v2" := by decide
  have n5 : asc "heapprofile" ≠ asc "heap_v2" := by decide
  have n6 : asc "heap_v2" ≠ asc "heapz_v2" := by decide
  cases hkind : d.kind <;> simp [hkind, HeapKind.isHeap] at hk <;>
    simp [HeapKind.print, HeapDoc.v2, HeapDoc.period, hkind, n1, n2, n3, n4, n5, n6]


/-! ### growth / fragmentation headers: the other regexps do not match anywhere -/
theorem searchRe_skip {α} (m : Str → Option α) (hm : ∀ c t, c ≠ (104 : UInt8) → m (c :: t) = none)
    (A B : Str) (hA : ∀ b ∈ A, b ≠ (104 : UInt8)) : searchRe m (A ++ B) = searchRe m B := by
  induction A with
  | nil => rfl
  | cons c A ih =>
    simp only [List.cons_append, searchRe, hm c _ (hA c (by simp))]
    exact ih (fun b hb => hA b (by simp [hb]))

theorem heapNumbers_bytes (pad a b c d : Nat) :
    ∀ x ∈ heapNumbers pad a b c d, isDigit x = true ∨ x = 32 ∨ x = 58 ∨ x = 91 ∨ x = 93 := by
  intro x hx
  simp only [heapNumbers, List.mem_append, sp, List.mem_replicate, List.mem_singleton] at hx
  rcases hx with ((((((((((((h | h) | h) | h) | h) | h) | h) | h) | h) | h) | h) | h) | h) | h
  all_goals first
    | exact Or.inl (dec_isDigit _ x h)
    | (right; simp [h.2])
    | (right; simp [h])

theorem ne104_of_isDigit {b : UInt8} (h : isDigit b = true) : b ≠ 104 := by
  intro e; subst e; revert h; decide

theorem heapNumbers_no_h (pad a b c d : Nat) : ∀ x ∈ heapNumbers pad a b c d, x ≠ (104 : UInt8) := by
  intro x hx
  rcases heapNumbers_bytes pad a b c d x hx with h | h | h | h | h
  · exact ne104_of_isDigit h
  all_goals (subst h; decide)

def HeapKind.kpre : HeapKind → Str
  | .growth => asc "growt" | .growthz => asc "growt" | k => k.print
def HeapKind.kpost : HeapKind → Str
  | .growth => asc "h" | .growthz => asc "hz" | _ => []

theorem HeapKind.print_split (k : HeapKind) : k.print = k.kpre ++ k.kpost := by cases k <;> decide

theorem headerLine_other (d : HeapDoc) (hk : d.kind.isHeap = false) :
    d.headerLine = 104 :: ((asc "eap profile:" ++ (sp 1 ++ (heapNumbers d.pad d.totInuseN d.totInuseB d.totAllocN d.totAllocB ++
      (asc " @ " ++ d.kind.kpre)))) ++ d.kind.kpost) := by
  have hs : d.rateSuffix = [] := by
    unfold HeapDoc.rateSuffix; cases d.rate <;> simp [hk]
  rw [d.headerLine_eq, hs, d.kind.print_split]
  have : asc "heap profile:" = 104 :: asc "eap profile:" := by decide
  rw [this]
  simp only [List.append_assoc, List.cons_append, List.append_nil]

theorem searchRe_header_other {α} (m : Str → Option α) (hm : ∀ c t, c ≠ (104 : UInt8) → m (c :: t) = none)
    (d : HeapDoc) (hk : d.kind.isHeap = false) (hpost : searchRe m d.kind.kpost = none) :
    searchRe m d.headerLine = m d.headerLine := by
  have hA : ∀ b ∈ (asc "eap profile:" ++ (sp 1 ++ (heapNumbers d.pad d.totInuseN d.totInuseB d.totAllocN d.totAllocB ++
      (asc " @ " ++ d.kind.kpre)))), b ≠ (104 : UInt8) := by
    intro b hb
    simp only [List.mem_append] at hb
    rcases hb with h | h | h | h | h
    · revert b; decide
    · simp only [sp, List.mem_replicate] at h; rw [h.2]; decide
    · exact heapNumbers_no_h _ _ _ _ _ b h
    · revert b; decide
    · revert b; cases hkind : d.kind <;> simp [hkind, HeapKind.isHeap] at hk <;> decide
  have e := headerLine_other d hk
  rw [e]
  simp only [searchRe]
  rw [searchRe_skip m hm _ _ hA, hpost]
  cases m _ <;> rfl

theorem matchHeapHeaderAt_ne_h (c : UInt8) (t : Str) (h : c ≠ 104) : matchHeapHeaderAt (c :: t) = none := by
  have : asc "heap profile:" = 104 :: asc "eap profile:" := by decide
  unfold matchHeapHeaderAt
  rw [this, stripPrefix_cons_ne _ _ (Ne.symm h)]; rfl

theorem matchOtherHeaderAt_ne_h (k : Str) (c : UInt8) (t : Str) (h : c ≠ 104) : matchOtherHeaderAt k (c :: t) = none := by
  have : asc "heap profile:" = 104 :: asc "eap profile:" := by decide
  unfold matchOtherHeaderAt
  rw [this, stripPrefix_cons_ne _ _ (Ne.symm h)]; rfl

theorem bind2_none {α} (x : Option Str) (g : Str → Option Str) (f : Str → Str → Option α)
    (h : x.bind g = none) : (x.bind fun s => (g s).bind (f s)) = none := by
  cases x with
  | none => rfl
  | some s => simp only [Option.bind_some] at h ⊢; rw [h]; rfl

theorem matchHeapHeaderAt_other (d : HeapDoc) (hk : d.kind.isHeap = false) : matchHeapHeaderAt d.headerLine = none := by
  have hs : d.rateSuffix = [] := by
    unfold HeapDoc.rateSuffix; cases d.rate <;> simp [hk]
  rw [d.headerLine_eq, hs]
  unfold matchHeapHeaderAt
  rw [stripPrefix_append]
  simp only [Option.bind_eq_bind, Option.bind_some]
  rw [reFourNumbers_print]
  simp only [Option.bind_some]
  cases hkind : d.kind <;> simp [hkind, HeapKind.isHeap] at hk <;>
    (simp only [HeapKind.print]; exact bind2_none _ _ _ (by decide))

theorem matchOtherHeaderAt_header (k : Str) (d : HeapDoc) (hk : d.kind.isHeap = false) :
    matchOtherHeaderAt k d.headerLine = (stripPrefix (asc " @ " ++ k) (asc " @ " ++ d.kind.print)).map (fun _ => ()) := by
  have hs : d.rateSuffix = [] := by
    unfold HeapDoc.rateSuffix; cases d.rate <;> simp [hk]
  rw [d.headerLine_eq, hs]
  unfold matchOtherHeaderAt
  rw [stripPrefix_append]
  simp only [Option.bind_eq_bind, Option.bind_some]
  rw [reFourNumbers_print]
  simp only [Option.bind_some, List.append_nil]
  cases stripPrefix (asc " @ " ++ k) (asc " @ " ++ d.kind.print) <;> rfl

/-- what `parseHeap` concludes from the header line: sampling v2?, period, alloc columns? -/
theorem heapHeader_dispatch (d : HeapDoc) (hr : d.rate.all (· < two63) = true) :
    (if (searchRe matchHeapHeaderAt d.headerLine).isSome then parseHeapHeader d.headerLine
      else if (searchRe (matchOtherHeaderAt (asc "growth")) d.headerLine).isSome then .ok (false, 1, false)
      else if (searchRe (matchOtherHeaderAt (asc "fragmentation")) d.headerLine).isSome then .ok (false, 1, false)
      else .err "unrecognized") = .ok (d.v2, d.period, d.hasAlloc) := by
  cases hk : d.kind.isHeap with
  | true =>
    rw [searchRe_of_some _ _ _ (matchHeapHeaderAt_header d hk)]
    simp [parseHeapHeader_header d hk hr]
  | false =>
    have p1 : searchRe matchHeapHeaderAt d.kind.kpost = none := by cases d.kind <;> decide
    have p2 : searchRe (matchOtherHeaderAt (asc "growth")) d.kind.kpost = none := by cases d.kind <;> decide
    have p3 : searchRe (matchOtherHeaderAt (asc "fragmentation")) d.kind.kpost = none := by cases d.kind <;> decide
    rw [searchRe_header_other _ matchHeapHeaderAt_ne_h d hk p1, matchHeapHeaderAt_other d hk,
      searchRe_header_other _ (matchOtherHeaderAt_ne_h _) d hk p2, matchOtherHeaderAt_header _ d hk,
      searchRe_header_other _ (matchOtherHeaderAt_ne_h _) d hk p3, matchOtherHeaderAt_header _ d hk]
    have hv : d.v2 = false ∧ d.period = 1 ∧ d.hasAlloc = false := by
      cases hkind : d.kind <;> simp [hkind, HeapKind.isHeap] at hk <;> simp [HeapDoc.v2, HeapDoc.period, HeapDoc.hasAlloc, hkind, HeapKind.isHeap]
    rw [hv.1, hv.2.1, hv.2.2]
    cases hkind : d.kind <;> simp [hkind, HeapKind.isHeap] at hk <;> simp [HeapKind.print] <;> decide

end PV.Legacy
