import PprofVerif.Lemmas.LegacyCount
import PprofVerif.Model.LegacyHeap
/-!
Helper lemmas for C14: heap profiles — `parseHeap (printHeap d) = ok (expectedHeap d)`.
-/
namespace PV.Legacy
open PV

/-! ### small scanners -/
theorem skipSp_sp (n : Nat) (r : Str) (h : Stops (fun b => b.toNat == 32) r) : skipSp (sp n ++ r) = r := by
  unfold skipSp
  exact dropWhile_append_stops (by intro b hb; simp only [sp, List.mem_replicate] at hb; rw [hb.2]; rfl) h

theorem skipSp_stops {r : Str} (h : Stops (fun b => b.toNat == 32) r) : skipSp r = r := dropWhile_stops h

theorem reDigits_dec (n : Nat) (r : Str) (h : Stops isDigit r) : reDigits (dec n ++ r) = some (dec n, r) := by
  unfold reDigits
  rw [takeWhile_append_stops (dec_isDigit n) h, dropWhile_append_stops (dec_isDigit n) h]
  simp [isEmpty_false_of_ne_nil (dec_ne_nil n)]

theorem Stops_sp32_dec (n : Nat) (r : Str) : Stops (fun b => b.toNat == 32) (dec n ++ r) := by
  obtain ⟨c, t, hd, hc⟩ := dec_cons n
  rw [hd]
  simp only [List.cons_append, Stops_cons, beq_eq_false_iff_ne]
  simp only [isDigit, decide_eq_true_eq] at hc; omega

theorem searchRe_of_some {α} (m : Str → Option α) (s : Str) (a : α) (h : m s = some a) : searchRe m s = some a := by
  cases s with
  | nil => simpa [searchRe] using h
  | cons b t => simp [searchRe, h]

theorem dec_inj {a b : Nat} (h : dec a = dec b) : a = b := by
  have := parseNat_dec a
  rw [h, parseNat_dec] at this
  exact (Option.some.inj this).symm

theorem dec_bne (a b : Nat) : (dec a != dec b) = (a != b) := by
  rw [Bool.eq_iff_iff]
  simp only [bne_iff_ne, ne_eq]
  exact not_congr ⟨dec_inj, fun e => by rw [e]⟩

theorem asc_zero : asc "0" = dec 0 := by decide

/-! ### the four numbers -/
theorem heapNumbers_eq (pad a b c d : Nat) (rest : Str) :
    heapNumbers pad a b c d ++ rest =
      sp pad ++ (dec a ++ (58 :: (sp (pad+1) ++ (dec b ++ (sp (pad+1) ++ (91 :: (sp pad ++ (dec c ++ (58 :: (sp (pad+1) ++
        (dec d ++ (sp pad ++ (93 :: rest))))))))))))) := by
  simp [heapNumbers, List.append_assoc]

theorem isDigit_58 : isDigit 58 = false := by decide
theorem isDigit_91 : isDigit 91 = false := by decide
theorem isDigit_93 : isDigit 93 = false := by decide

theorem Stops_isDigit_sp (n : Nat) (c : UInt8) (r : Str) (hc : isDigit c = false) : Stops isDigit (sp n ++ c :: r) := by
  cases n with
  | zero => simpa [sp] using hc
  | succ n => simp [sp_succ, isDigit_32]

theorem Stops_sp32_cons {c : UInt8} (r : Str) (hc : c.toNat ≠ 32) : Stops (fun b => b.toNat == 32) (c :: r) := by
  simp [hc]

theorem sp_add (a b : Nat) (r : Str) : sp a ++ (sp b ++ r) = sp (a + b) ++ r := by
  induction a with
  | zero => simp [sp]
  | succ a ih =>
    rw [show a + 1 + b = (a + b) + 1 by omega, sp_succ, sp_succ, ih]

theorem reNumColon_print (k a : Nat) (r : Str) : reNumColon (sp k ++ (dec a ++ 58 :: r)) = some (dec a, r) := by
  unfold reNumColon
  rw [skipSp_sp k _ (Stops_sp32_dec _ _), reDigits_dec a _ (by simp [isDigit_58])]
  simp only [Option.bind_eq_bind, Option.bind_some]
  rw [show (58 :: r) = [58] ++ r from rfl, stripPrefix_append]; rfl

theorem reNumThen_print (c : UInt8) (hc : isDigit c = false) (hc32 : c.toNat ≠ 32) (k j a : Nat) (r : Str) :
    reNumThen c (sp k ++ (dec a ++ (sp j ++ c :: r))) = some (dec a, r) := by
  unfold reNumThen
  rw [skipSp_sp k _ (Stops_sp32_dec _ _), reDigits_dec a _ (Stops_isDigit_sp _ _ _ hc)]
  simp only [Option.bind_eq_bind, Option.bind_some]
  rw [skipSp_sp j _ (Stops_sp32_cons _ hc32), show (c :: r) = [c] ++ r from rfl, stripPrefix_append]; rfl

/-! ### signed numbers (the in-use columns of a record) -/
theorem intStr_nonneg {i : Int} (h : 0 ≤ i) : intStr i = dec i.natAbs := by
  unfold intStr; simp [Int.not_lt.2 h]

theorem intStr_neg {i : Int} (h : i < 0) : intStr i = 45 :: dec i.natAbs := by
  unfold intStr; simp [h]

theorem intStr_digit_or_dash (i : Int) : ∀ b ∈ intStr i, isDigit b = true ∨ b = 45 := by
  intro b hb
  unfold intStr at hb
  split at hb
  · rcases List.mem_cons.1 hb with h | h
    · exact Or.inr h
    · exact Or.inl (dec_isDigit _ b h)
  · exact Or.inl (dec_isDigit _ b hb)

theorem intStr_cons (i : Int) : ∃ c t, intStr i = c :: t ∧ (isDigit c = true ∨ c = 45) := by
  cases hq : intStr i with
  | nil =>
    exfalso
    unfold intStr at hq
    split at hq
    · cases hq
    · exact dec_ne_nil _ hq
  | cons c t => exact ⟨c, t, rfl, intStr_digit_or_dash i c (by simp [hq])⟩

theorem intStr_ne_nil (i : Int) : intStr i ≠ [] := by
  obtain ⟨c, t, h, _⟩ := intStr_cons i
  rw [h]; simp

theorem stripDash_dec (n : Nat) (r : Str) : stripPrefix [45] (dec n ++ r) = none := by
  obtain ⟨c, t, hd, hc⟩ := dec_cons n
  rw [hd]
  have : (45 : UInt8) ≠ c := fun e => ne45_of_isDigit hc e.symm
  simp [stripPrefix, this]

theorem reSDigits_intStr (i : Int) (r : Str) (h : Stops isDigit r) : reSDigits (intStr i ++ r) = some (intStr i, r) := by
  unfold reSDigits
  by_cases hn : i < 0
  · rw [intStr_neg hn]
    have : stripPrefix [45] (45 :: dec i.natAbs ++ r) = some (dec i.natAbs ++ r) := by simp [stripPrefix]
    rw [this]
    simp [reDigits_dec _ _ h]
  · rw [intStr_nonneg (Int.not_lt.1 hn), stripDash_dec]
    simp [reDigits_dec _ _ h]

theorem parseI64Z_intStr {i : Int} (h1 : -(two63 : Int) ≤ i) (h2 : i < (two63 : Int)) : parseI64Z (intStr i) = some i := by
  unfold parseI64Z
  by_cases hn : i < 0
  · rw [intStr_neg hn]
    have : stripPrefix [45] (45 :: dec i.natAbs) = some (dec i.natAbs) := by simp [stripPrefix]
    rw [this]
    have e63 : ((two63 : Nat) : Int) = 9223372036854775808 := rfl
    rw [e63] at h1 h2
    have hle : i.natAbs ≤ two63 := by show i.natAbs ≤ 9223372036854775808; omega
    have hv : -(i.natAbs : Int) = i := by omega
    simp [parseNat_dec, Option.filter, hle, hv]
  · have h0 : 0 ≤ i := Int.not_lt.1 hn
    rw [intStr_nonneg h0]
    have := stripDash_dec i.natAbs []
    simp only [List.append_nil] at this
    rw [this]
    have e63 : ((two63 : Nat) : Int) = 9223372036854775808 := rfl
    rw [e63] at h1 h2
    have hlt : i.natAbs < two63 := by show i.natAbs < 9223372036854775808; omega
    have hv : (i.natAbs : Int) = i := by omega
    simp [parseI64_dec hlt, hv]

theorem Stops_sp32_intStr (i : Int) (r : Str) : Stops (fun b => b.toNat == 32) (intStr i ++ r) := by
  obtain ⟨c, t, hd, hc⟩ := intStr_cons i
  rw [hd]
  simp only [List.cons_append, Stops_cons, beq_eq_false_iff_ne]
  rcases hc with hc | hc
  · simp only [isDigit, decide_eq_true_eq] at hc; omega
  · subst hc; decide

theorem intStr_reverse_stops (i : Int) : Stops isSpace (intStr i).reverse := by
  unfold intStr
  split
  · rw [show (45 :: dec i.natAbs) = [45] ++ dec i.natAbs from rfl]
    exact Stops_reverse_append _ _ (dec_ne_nil _) (dec_reverse_stops _)
  · exact dec_reverse_stops _

theorem parseNatBase0_dec (n : Nat) : parseNatBase0 (dec n) = some n := by
  rw [← parseNat_dec n]
  by_cases hn : n = 0
  · subst hn; decide
  · obtain ⟨c, r, hq, hc⟩ := dec_head (Nat.pos_of_ne_zero hn)
    rw [hq]
    cases r with
    | nil => rfl
    | cons c2 r2 => simp [parseNatBase0, hc]

theorem parseI64Base0Z_intStr {i : Int} (h1 : -(two63 : Int) ≤ i) (h2 : i < (two63 : Int)) :
    parseI64Base0Z (intStr i) = some i := by
  unfold parseI64Base0Z
  have e63 : ((two63 : Nat) : Int) = 9223372036854775808 := rfl
  rw [e63] at h1 h2
  by_cases hn : i < 0
  · rw [intStr_neg hn]
    have : stripPrefix [45] (45 :: dec i.natAbs) = some (dec i.natAbs) := by simp [stripPrefix]
    rw [this]
    have hle : i.natAbs ≤ two63 := by show i.natAbs ≤ 9223372036854775808; omega
    have hv : -(i.natAbs : Int) = i := by omega
    simp [parseNatBase0_dec, Option.filter, hle, hv]
  · have h0 : 0 ≤ i := Int.not_lt.1 hn
    rw [intStr_nonneg h0]
    have := stripDash_dec i.natAbs []
    simp only [List.append_nil] at this
    rw [this]
    have hlt : i.natAbs < two63 := by show i.natAbs < 9223372036854775808; omega
    have hv : (i.natAbs : Int) = i := by omega
    simp [parseI64Base0_dec hlt, hv]

theorem reSNumColon_print (k : Nat) (a : Int) (r : Str) : reSNumColon (sp k ++ (intStr a ++ 58 :: r)) = some (intStr a, r) := by
  unfold reSNumColon
  rw [skipSp_sp k _ (Stops_sp32_intStr _ _), reSDigits_intStr a _ (by simp [isDigit_58])]
  simp only [Option.bind_eq_bind, Option.bind_some]
  rw [show (58 :: r) = [58] ++ r from rfl, stripPrefix_append]; rfl

theorem reSNumThen_print (c : UInt8) (hc : isDigit c = false) (hc32 : c.toNat ≠ 32) (k j : Nat) (a : Int) (r : Str) :
    reSNumThen c (sp k ++ (intStr a ++ (sp j ++ c :: r))) = some (intStr a, r) := by
  unfold reSNumThen
  rw [skipSp_sp k _ (Stops_sp32_intStr _ _), reSDigits_intStr a _ (Stops_isDigit_sp _ _ _ hc)]
  simp only [Option.bind_eq_bind, Option.bind_some]
  rw [skipSp_sp j _ (Stops_sp32_cons _ hc32), show (c :: r) = [c] ++ r from rfl, stripPrefix_append]; rfl

/-- the four numbers of a record without the leading blanks, followed by `rest` -/
def heapNumsCoreZ (pad : Nat) (a b : Int) (c d : Nat) (rest : Str) : Str :=
  intStr a ++ (58 :: (sp (pad+1) ++ (intStr b ++ (sp (pad+1) ++ (91 :: (sp pad ++ (dec c ++ (58 :: (sp (pad+1) ++
    (dec d ++ (sp pad ++ (93 :: rest))))))))))))

theorem heapNumbersZ_core (pad : Nat) (a b : Int) (c d : Nat) (rest : Str) :
    heapNumbersZ pad a b c d ++ rest = sp pad ++ heapNumsCoreZ pad a b c d rest := by
  simp [heapNumbersZ, heapNumsCoreZ, List.append_assoc]

theorem heapNumsCoreZ_append (pad : Nat) (a b : Int) (c d : Nat) (x y : Str) :
    heapNumsCoreZ pad a b c d (x ++ y) = heapNumsCoreZ pad a b c d x ++ y := by
  simp [heapNumsCoreZ, List.append_assoc]

theorem reFourNumbersZ_core (k pad : Nat) (a b : Int) (c d : Nat) (rest : Str) :
    reFourNumbersZ (sp k ++ heapNumsCoreZ pad a b c d rest) = some (intStr a, intStr b, dec c, dec d, rest) := by
  unfold reFourNumbersZ heapNumsCoreZ
  rw [reSNumColon_print]
  simp only [Option.bind_eq_bind, Option.bind_some]
  rw [reSNumThen_print 91 (by decide) (by decide)]
  simp only [Option.bind_some]
  rw [reNumColon_print]
  simp only [Option.bind_some]
  rw [reNumThen_print 93 (by decide) (by decide)]
  rfl

theorem heapNumsCoreZ_bytes (pad : Nat) (a b : Int) (c d : Nat) :
    ∀ x ∈ heapNumsCoreZ pad a b c d [], isDigit x = true ∨ x = 45 ∨ x = 32 ∨ x = 58 ∨ x = 91 ∨ x = 93 := by
  intro x hx
  have hI : ∀ i : Int, x ∈ intStr i → (isDigit x = true ∨ x = 45 ∨ x = 32 ∨ x = 58 ∨ x = 91 ∨ x = 93) := by
    intro i h
    rcases intStr_digit_or_dash i x h with h' | h'
    · exact Or.inl h'
    · exact Or.inr (Or.inl h')
  have hD : ∀ n : Nat, x ∈ dec n → (isDigit x = true ∨ x = 45 ∨ x = 32 ∨ x = 58 ∨ x = 91 ∨ x = 93) :=
    fun n h => Or.inl (dec_isDigit n x h)
  have hS : ∀ n : Nat, x ∈ sp n → (isDigit x = true ∨ x = 45 ∨ x = 32 ∨ x = 58 ∨ x = 91 ∨ x = 93) := by
    intro n h; simp only [sp, List.mem_replicate] at h; rw [h.2]; decide
  simp only [heapNumsCoreZ, List.mem_append, List.mem_cons, List.not_mem_nil, or_false] at hx
  rcases hx with h | h | h | h | h | h | h | h | h | h | h | h | h
  · exact hI _ h
  · subst h; decide
  · exact hS _ h
  · exact hI _ h
  · exact hS _ h
  · subst h; decide
  · exact hS _ h
  · exact hD _ h
  · subst h; decide
  · exact hS _ h
  · exact hD _ h
  · exact hS _ h
  · subst h; decide

/-- the four numbers without the leading blanks, followed by `rest` -/
def heapNumsCore (pad a b c d : Nat) (rest : Str) : Str :=
  dec a ++ (58 :: (sp (pad+1) ++ (dec b ++ (sp (pad+1) ++ (91 :: (sp pad ++ (dec c ++ (58 :: (sp (pad+1) ++
    (dec d ++ (sp pad ++ (93 :: rest))))))))))))

theorem heapNumbers_core (pad a b c d : Nat) (rest : Str) :
    heapNumbers pad a b c d ++ rest = sp pad ++ heapNumsCore pad a b c d rest := heapNumbers_eq pad a b c d rest

theorem heapNumsCore_append (pad a b c d : Nat) (x y : Str) :
    heapNumsCore pad a b c d (x ++ y) = heapNumsCore pad a b c d x ++ y := by
  simp [heapNumsCore, List.append_assoc]

theorem reFourNumbers_core (k pad a b c d : Nat) (rest : Str) :
    reFourNumbers (sp k ++ heapNumsCore pad a b c d rest) = some (dec a, dec b, dec c, dec d, rest) := by
  unfold reFourNumbers heapNumsCore
  rw [reNumColon_print]
  simp only [Option.bind_eq_bind, Option.bind_some]
  rw [reNumThen_print 91 (by decide) (by decide)]
  simp only [Option.bind_some]
  rw [reNumColon_print]
  simp only [Option.bind_some]
  rw [reNumThen_print 93 (by decide) (by decide)]
  rfl

/-- ` *(\d+): *(\d+) *\[ *(\d+): *(\d+) *\]` on printed numbers (after `k` leading blanks) -/
theorem reFourNumbers_print (k pad a b c d : Nat) (rest : Str) :
    reFourNumbers (sp k ++ (heapNumbers pad a b c d ++ rest)) = some (dec a, dec b, dec c, dec d, rest) := by
  rw [heapNumbers_core, sp_add]
  exact reFourNumbers_core _ _ _ _ _ _ _

/-! ### header -/
def HeapKind.suffix : HeapKind → Str
  | .heapzV2 => asc "z_v2" | .heapV2 => asc "_v2" | .heapprofile => asc "profile" | _ => []

theorem HeapKind.print_heap (k : HeapKind) (h : k.isHeap = true) : k.print = asc "heap" ++ k.suffix := by
  cases k <;> first | rfl | (simp [HeapKind.isHeap] at h)

theorem HeapKind.suffix_nameBytes (k : HeapKind) : ∀ b ∈ k.suffix, isHeapNameByte b = true := by
  cases k <;> decide

def HeapDoc.rateSuffix (d : HeapDoc) : Str :=
  match d.rate with | some r => if d.kind.isHeap then 47 :: dec r else [] | none => []

def HeapDoc.rateDigits (d : HeapDoc) : Str :=
  match d.rate with | some r => if d.kind.isHeap then dec r else [] | none => []

theorem HeapDoc.headerLine_eq (d : HeapDoc) :
    d.headerLine = asc "heap profile:" ++ (sp 1 ++ (heapNumbers d.pad d.totInuseN d.totInuseB d.totAllocN d.totAllocB ++
      (asc " @ " ++ (d.kind.print ++ d.rateSuffix)))) := by
  have : asc "heap profile: " = asc "heap profile:" ++ sp 1 := by decide
  unfold HeapDoc.headerLine HeapDoc.rateSuffix
  rw [this]
  simp only [List.append_assoc]
  cases d.rate <;> rfl

theorem rate_tail (d : HeapDoc) :
    (stripPrefix [47] d.rateSuffix).getD d.rateSuffix = d.rateDigits ∧ Stops isHeapNameByte d.rateSuffix := by
  unfold HeapDoc.rateSuffix HeapDoc.rateDigits
  cases d.rate with
  | none => simp [stripPrefix]
  | some r =>
    cases d.kind.isHeap with
    | false => simp [stripPrefix]
    | true =>
      simp only [if_true]
      rw [show (47 :: dec r) = [47] ++ dec r from rfl, stripPrefix_append]
      exact ⟨rfl, by simp; decide⟩

theorem rateDigits_takeWhile (d : HeapDoc) : d.rateDigits.takeWhile isDigit = d.rateDigits := by
  unfold HeapDoc.rateDigits
  cases d.rate with
  | none => rfl
  | some r =>
    cases d.kind.isHeap with
    | false => rfl
    | true => simpa using takeWhile_append_stops (dec_isDigit r) (Stops_nil isDigit)

theorem matchHeapHeaderAt_header (d : HeapDoc) (hk : d.kind.isHeap = true) :
    matchHeapHeaderAt d.headerLine =
      some (dec d.totInuseN, dec d.totInuseB, dec d.totAllocN, dec d.totAllocB, d.kind.print, d.rateDigits) := by
  rw [d.headerLine_eq]
  unfold matchHeapHeaderAt
  rw [stripPrefix_append]
  simp only [Option.bind_eq_bind, Option.bind_some]
  rw [reFourNumbers_print]
  simp only [Option.bind_some]
  have e1 : skipSp (asc " @ " ++ (d.kind.print ++ d.rateSuffix)) = [64] ++ (sp 1 ++ (d.kind.print ++ d.rateSuffix)) := by
    rw [show asc " @ " ++ (d.kind.print ++ d.rateSuffix) = sp 1 ++ (64 :: (sp 1 ++ (d.kind.print ++ d.rateSuffix))) by
      simp [sp, asc]]
    rw [skipSp_sp 1 _ (Stops_sp32_cons _ (by decide))]; rfl
  rw [e1, stripPrefix_append]
  simp only [Option.bind_some]
  rw [d.kind.print_heap hk]
  have e2 : skipSp (sp 1 ++ (asc "heap" ++ d.kind.suffix ++ d.rateSuffix)) = asc "heap" ++ (d.kind.suffix ++ d.rateSuffix) := by
    rw [List.append_assoc, skipSp_sp 1 _ (Stops_append_of_ne_nil (by decide) (Stops_of_stopsB (by decide)))]
  rw [e2, stripPrefix_append]
  simp only [Option.bind_some]
  have hrt := rate_tail d
  rw [takeWhile_append_stops d.kind.suffix_nameBytes hrt.2, dropWhile_append_stops d.kind.suffix_nameBytes hrt.2, hrt.1,
    rateDigits_takeWhile]
  rfl

theorem rateDigits_period (d : HeapDoc) (hk : d.kind.isHeap = true) (hr : d.rate.all (· < two63) = true) :
    (if d.rateDigits.isEmpty then some 0 else parseI64 d.rateDigits) = some (d.rate.getD 0) := by
  unfold HeapDoc.rateDigits
  cases h : d.rate with
  | none => simp
  | some r =>
    have hr' : r < two63 := by simpa [h] using hr
    simp [hk, isEmpty_false_of_ne_nil (dec_ne_nil r), parseI64_dec hr']

theorem parseHeapHeader_header (d : HeapDoc) (hk : d.kind.isHeap = true) (hr : d.rate.all (· < two63) = true) :
    parseHeapHeader d.headerLine = .ok (d.v2, d.period, d.hasAlloc) := by
  unfold parseHeapHeader
  rw [searchRe_of_some _ _ _ (matchHeapHeaderAt_header d hk)]
  simp only [rateDigits_period d hk hr]
  have hA : ((dec d.totAllocN != dec d.totInuseN && dec d.totAllocN != asc "0") ||
      (dec d.totAllocB != dec d.totInuseB && dec d.totAllocB != asc "0")) = d.hasAlloc := by
    simp only [asc_zero, dec_bne, HeapDoc.hasAlloc, hk, Bool.true_and]
  rw [hA]
  have n1 : asc "heap" ≠ asc "heapz_v2" := by decide
  have n2 : asc "heap" ≠ asc "heap_v2" := by decide
  have n3 : asc "heap" ≠ asc "heapprofile" := by decide
  have n4 : asc "heapprofile" ≠ asc "heapz_v2" := by decide
  have n5 : asc "heapprofile" ≠ asc "heap_v2" := by decide
  have n6 : asc "heap_v2" ≠ asc "heapz_v2" := by decide
  cases hkind : d.kind <;> simp [hkind, HeapKind.isHeap] at hk <;>
    simp [HeapKind.print, HeapDoc.v2, HeapDoc.period, hkind, n1, n2, n3, n4, n5, n6]


/-! ### growth / fragmentation headers: the other regexps do not match anywhere -/
theorem searchRe_skip {α} (m : Str → Option α) (hm : ∀ c t, c ≠ (104 : UInt8) → m (c :: t) = none)
    (A B : Str) (hA : ∀ b ∈ A, b ≠ (104 : UInt8)) : searchRe m (A ++ B) = searchRe m B := by
  induction A with
  | nil => rfl
  | cons c A ih =>
    simp only [List.cons_append, searchRe, hm c _ (hA c (by simp))]
    exact ih (fun b hb => hA b (by simp [hb]))

theorem heapNumbers_bytes (pad a b c d : Nat) :
    ∀ x ∈ heapNumbers pad a b c d, isDigit x = true ∨ x = 32 ∨ x = 58 ∨ x = 91 ∨ x = 93 := by
  intro x hx
  simp only [heapNumbers, List.mem_append, sp, List.mem_replicate, List.mem_singleton] at hx
  rcases hx with ((((((((((((h | h) | h) | h) | h) | h) | h) | h) | h) | h) | h) | h) | h) | h
  all_goals first
    | exact Or.inl (dec_isDigit _ x h)
    | (right; simp [h.2])
    | (right; simp [h])

theorem ne104_of_isDigit {b : UInt8} (h : isDigit b = true) : b ≠ 104 := by
  intro e; subst e; revert h; decide

theorem heapNumbers_no_h (pad a b c d : Nat) : ∀ x ∈ heapNumbers pad a b c d, x ≠ (104 : UInt8) := by
  intro x hx
  rcases heapNumbers_bytes pad a b c d x hx with h | h | h | h | h
  · exact ne104_of_isDigit h
  all_goals (subst h; decide)

def HeapKind.kpre : HeapKind → Str
  | .growth => asc "growt" | .growthz => asc "growt" | k => k.print
def HeapKind.kpost : HeapKind → Str
  | .growth => asc "h" | .growthz => asc "hz" | _ => []

theorem HeapKind.print_split (k : HeapKind) : k.print = k.kpre ++ k.kpost := by cases k <;> decide

theorem headerLine_other (d : HeapDoc) (hk : d.kind.isHeap = false) :
    d.headerLine = 104 :: ((asc "eap profile:" ++ (sp 1 ++ (heapNumbers d.pad d.totInuseN d.totInuseB d.totAllocN d.totAllocB ++
      (asc " @ " ++ d.kind.kpre)))) ++ d.kind.kpost) := by
  have hs : d.rateSuffix = [] := by
    unfold HeapDoc.rateSuffix; cases d.rate <;> simp [hk]
  rw [d.headerLine_eq, hs, d.kind.print_split]
  have : asc "heap profile:" = 104 :: asc "eap profile:" := by decide
  rw [this]
  simp only [List.append_assoc, List.cons_append, List.append_nil]

theorem searchRe_header_other {α} (m : Str → Option α) (hm : ∀ c t, c ≠ (104 : UInt8) → m (c :: t) = none)
    (d : HeapDoc) (hk : d.kind.isHeap = false) (hpost : searchRe m d.kind.kpost = none) :
    searchRe m d.headerLine = m d.headerLine := by
  have hA : ∀ b ∈ (asc "eap profile:" ++ (sp 1 ++ (heapNumbers d.pad d.totInuseN d.totInuseB d.totAllocN d.totAllocB ++
      (asc " @ " ++ d.kind.kpre)))), b ≠ (104 : UInt8) := by
    intro b hb
    simp only [List.mem_append] at hb
    rcases hb with h | h | h | h | h
    · revert b; decide
    · simp only [sp, List.mem_replicate] at h; rw [h.2]; decide
    · exact heapNumbers_no_h _ _ _ _ _ b h
    · revert b; decide
    · revert b; cases hkind : d.kind <;> simp [hkind, HeapKind.isHeap] at hk <;> decide
  have e := headerLine_other d hk
  rw [e]
  simp only [searchRe]
  rw [searchRe_skip m hm _ _ hA, hpost]
  cases m _ <;> rfl

theorem matchHeapHeaderAt_ne_h (c : UInt8) (t : Str) (h : c ≠ 104) : matchHeapHeaderAt (c :: t) = none := by
  have : asc "heap profile:" = 104 :: asc "eap profile:" := by decide
  unfold matchHeapHeaderAt
  rw [this, stripPrefix_cons_ne _ _ (Ne.symm h)]; rfl

theorem matchOtherHeaderAt_ne_h (k : Str) (c : UInt8) (t : Str) (h : c ≠ 104) : matchOtherHeaderAt k (c :: t) = none := by
  have : asc "heap profile:" = 104 :: asc "eap profile:" := by decide
  unfold matchOtherHeaderAt
  rw [this, stripPrefix_cons_ne _ _ (Ne.symm h)]; rfl

theorem bind2_none {α} (x : Option Str) (g : Str → Option Str) (f : Str → Str → Option α)
    (h : x.bind g = none) : (x.bind fun s => (g s).bind (f s)) = none := by
  cases x with
  | none => rfl
  | some s => simp only [Option.bind_some] at h ⊢; rw [h]; rfl

theorem matchHeapHeaderAt_other (d : HeapDoc) (hk : d.kind.isHeap = false) : matchHeapHeaderAt d.headerLine = none := by
  have hs : d.rateSuffix = [] := by
    unfold HeapDoc.rateSuffix; cases d.rate <;> simp [hk]
  rw [d.headerLine_eq, hs]
  unfold matchHeapHeaderAt
  rw [stripPrefix_append]
  simp only [Option.bind_eq_bind, Option.bind_some]
  rw [reFourNumbers_print]
  simp only [Option.bind_some]
  cases hkind : d.kind <;> simp [hkind, HeapKind.isHeap] at hk <;>
    (simp only [HeapKind.print]; exact bind2_none _ _ _ (by decide))

theorem matchOtherHeaderAt_header (k : Str) (d : HeapDoc) (hk : d.kind.isHeap = false) :
    matchOtherHeaderAt k d.headerLine = (stripPrefix (asc " @ " ++ k) (asc " @ " ++ d.kind.print)).map (fun _ => ()) := by
  have hs : d.rateSuffix = [] := by
    unfold HeapDoc.rateSuffix; cases d.rate <;> simp [hk]
  rw [d.headerLine_eq, hs]
  unfold matchOtherHeaderAt
  rw [stripPrefix_append]
  simp only [Option.bind_eq_bind, Option.bind_some]
  rw [reFourNumbers_print]
  simp only [Option.bind_some, List.append_nil]
  cases stripPrefix (asc " @ " ++ k) (asc " @ " ++ d.kind.print) <;> rfl

/-- what `parseHeap` concludes from the header line: sampling v2?, period, alloc columns? -/
theorem heapHeader_dispatch (d : HeapDoc) (hr : d.rate.all (· < two63) = true) :
    (if (searchRe matchHeapHeaderAt d.headerLine).isSome then parseHeapHeader d.headerLine
      else if (searchRe (matchOtherHeaderAt (asc "growth")) d.headerLine).isSome then .ok (false, 1, false)
      else if (searchRe (matchOtherHeaderAt (asc "fragmentation")) d.headerLine).isSome then .ok (false, 1, false)
      else .err "unrecognized") = .ok (d.v2, d.period, d.hasAlloc) := by
  cases hk : d.kind.isHeap with
  | true =>
    rw [searchRe_of_some _ _ _ (matchHeapHeaderAt_header d hk)]
    simp [parseHeapHeader_header d hk hr]
  | false =>
    have p1 : searchRe matchHeapHeaderAt d.kind.kpost = none := by cases d.kind <;> decide
    have p2 : searchRe (matchOtherHeaderAt (asc "growth")) d.kind.kpost = none := by cases d.kind <;> decide
    have p3 : searchRe (matchOtherHeaderAt (asc "fragmentation")) d.kind.kpost = none := by cases d.kind <;> decide
    rw [searchRe_header_other _ matchHeapHeaderAt_ne_h d hk p1, matchHeapHeaderAt_other d hk,
      searchRe_header_other _ (matchOtherHeaderAt_ne_h _) d hk p2, matchOtherHeaderAt_header _ d hk,
      searchRe_header_other _ (matchOtherHeaderAt_ne_h _) d hk p3, matchOtherHeaderAt_header _ d hk]
    have hv : d.v2 = false ∧ d.period = 1 ∧ d.hasAlloc = false := by
      cases hkind : d.kind <;> simp [hkind, HeapKind.isHeap] at hk <;> simp [HeapDoc.v2, HeapDoc.period, HeapDoc.hasAlloc, hkind, HeapKind.isHeap]
    rw [hv.1, hv.2.1, hv.2.2]
    cases hkind : d.kind <;> simp [hkind, HeapKind.isHeap] at hk <;> simp [HeapKind.print] <;> decide


/-! ### records -/
/-- a record line without its indentation -/
def HeapRec.core (pad w : Nat) (r : HeapRec) : Str :=
  heapNumsCoreZ pad r.inuseN r.inuseB r.allocN r.allocB (asc " @" ++ printAddrs w r.addrs)

theorem HeapRec.print_eq (pad w : Nat) (r : HeapRec) : r.print pad w = sp (r.indent + pad) ++ r.core pad w := by
  unfold HeapRec.print HeapRec.core
  rw [List.append_assoc, List.append_assoc, heapNumbersZ_core, sp_add]

theorem HeapRec.core_cons (pad w : Nat) (r : HeapRec) : ∃ c t, r.core pad w = c :: t ∧ (isDigit c = true ∨ c = 45) := by
  obtain ⟨c, t, hd, hc⟩ := intStr_cons r.inuseN
  unfold HeapRec.core heapNumsCoreZ
  rw [hd]
  exact ⟨c, _, rfl, hc⟩

theorem head_not_space {c : UInt8} (hc : isDigit c = true ∨ c = 45) : isSpace c = false ∧ c.toNat ≠ 35 := by
  rcases hc with hc | hc
  · exact ⟨isSpace_false_of_isDigit hc, ne35_of_isDigit hc⟩
  · subst hc; exact ⟨by decide, by decide⟩

theorem HeapRec.core_reverse_stops (pad w : Nat) (r : HeapRec) : Stops isSpace (r.core pad w).reverse := by
  unfold HeapRec.core
  rw [heapNumsCoreZ_append]
  apply append_printAddrs_reverse_stops
  · rw [show heapNumsCoreZ pad r.inuseN r.inuseB r.allocN r.allocB (asc " @")
          = heapNumsCoreZ pad r.inuseN r.inuseB r.allocN r.allocB [] ++ asc " @" by rw [← heapNumsCoreZ_append]; rfl]
    exact Stops_reverse_append _ _ (by decide) (Stops_of_stopsB (by decide))
  · simp [heapNumsCoreZ, intStr_ne_nil]

theorem HeapRec.trim (pad w : Nat) (r : HeapRec) : trimSpace (r.print pad w) = r.core pad w := by
  rw [HeapRec.print_eq]
  obtain ⟨c, t, hd, hc⟩ := r.core_cons pad w
  exact trimSpace_replicate _ _ (by rw [hd]; simpa using (head_not_space hc).1) (r.core_reverse_stops pad w)

theorem ne77_of_isDigit {b : UInt8} (h : isDigit b = true) : b ≠ 77 := by
  intro e; subst e; revert h; decide

theorem HeapRec.core_not_sentinel (pad w : Nat) (r : HeapRec) : isMemoryMapSentinel (r.core pad w) = false := by
  apply not_sentinel_of_no_M
  unfold HeapRec.core
  rw [heapNumsCoreZ_append,
    show heapNumsCoreZ pad r.inuseN r.inuseB r.allocN r.allocB (asc " @")
      = heapNumsCoreZ pad r.inuseN r.inuseB r.allocN r.allocB [] ++ asc " @" by rw [← heapNumsCoreZ_append]; rfl]
  intro hm
  simp only [List.mem_append] at hm
  rcases hm with (hm | hm) | hm
  · rcases heapNumsCoreZ_bytes _ _ _ _ _ 77 hm with h | h | h | h | h | h
    · exact ne77_of_isDigit h rfl
    all_goals (revert h; decide)
  · revert hm; decide
  · have := printAddrs_isAddrText w r.addrs 77 hm
    revert this; decide

theorem takeWhile_addrText (w : Nat) (as : List Nat) :
    (printAddrs w as).takeWhile (fun x => x.toNat == 32 || x.toNat == 120 || isHexLower x) = printAddrs w as := by
  have := takeWhile_append_stops (p := fun x => x.toNat == 32 || x.toNat == 120 || isHexLower x)
    (a := printAddrs w as) (r := []) (printAddrs_isAddrText w as) (by simp)
  simpa using this

theorem matchHeapSampleAt_core (pad w : Nat) (r : HeapRec) :
    matchHeapSampleAt (r.core pad w) = some (intStr r.inuseN, intStr r.inuseB, dec r.allocN, dec r.allocB, printAddrs w r.addrs) := by
  unfold matchHeapSampleAt HeapRec.core
  have := reFourNumbersZ_core 0 pad r.inuseN r.inuseB r.allocN r.allocB (asc " @" ++ printAddrs w r.addrs)
  simp only [sp, List.replicate_zero, List.nil_append] at this
  rw [this]
  simp only [Option.bind_eq_bind, Option.bind_some, stripPrefix_append, takeWhile_addrText]
  rfl

theorem parseHeapSample_core (scale : ScaleFn) (pad w : Nat) (r : HeapRec) (rate : Nat) (v2 hasAlloc : Bool)
    (hr : r.wf hasAlloc = true) :
    parseHeapSample scale (r.core pad w) rate v2 hasAlloc =
      .ok (heapSample scale hasAlloc v2 rate r.inuseN r.inuseB r.allocN r.allocB r.addrs) := by
  simp only [HeapRec.wf, Bool.and_eq_true, decide_eq_true_eq, List.all_eq_true, Bool.or_eq_true,
    bne_iff_ne, ne_eq, beq_iff_eq, Bool.not_eq_true'] at hr
  obtain ⟨⟨⟨⟨⟨⟨⟨_, h1⟩, h2⟩, h3⟩, h4⟩, h5⟩, h6⟩, h7⟩ := hr
  unfold parseHeapSample
  rw [searchRe_of_some _ _ _ (matchHeapSampleAt_core pad w r)]
  simp only [parseI64Z_intStr h1.1 h1.2, parseI64Z_intStr h2.1 h2.2, parseI64_dec h3, parseI64_dec h4,
    parseHexAddresses_printAddrs w r.addrs h7]
  have c1 : (hasAlloc && r.allocN == 0 && r.allocB != 0) = false := by
    cases hasAlloc with
    | false => rfl
    | true =>
      rcases h6 with (h | h) | h
      · cases h
      · simp [h]
      · simp [h]
  have c2 : (r.inuseN == 0 && r.inuseB != 0) = false := by
    rcases h5 with h | h
    · simp [h]
    · simp [h]
  simp [c1, c2]

/-! ### the loop -/
theorem trimSpace_filler (f : Filler) : isSpaceOrComment (trimSpace f.print) = true := by
  unfold Filler.print
  cases f.comment with
  | none => simp [trimSpace_blank]; decide
  | some t =>
    simp only [trimSpace]
    rw [trimLeft_replicate _ _ (by simp; decide)]
    obtain ⟨t', ht'⟩ := trimRight_cons (c := 35) t (by decide)
    rw [ht']
    unfold isSpaceOrComment trimSpace
    have : trimLeft (35 :: t') = 35 :: t' := dropWhile_stops (by simp; decide)
    rw [this]
    obtain ⟨t'', ht''⟩ := trimRight_cons (c := 35) t' (by decide)
    rw [ht'']; rfl

theorem heapLoop_fillers (scale : ScaleFn) (rate : Nat) (v2 hasAlloc : Bool) (fs : List Filler) (R : List Str)
    (acc : List RawSample) :
    heapLoop scale rate v2 hasAlloc (printFillers fs ++ R) acc = heapLoop scale rate v2 hasAlloc R acc := by
  induction fs with
  | nil => rfl
  | cons f fs ih => simpa [printFillers, heapLoop, trimSpace_filler] using ih

theorem heapLoop_rec (scale : ScaleFn) (rate : Nat) (v2 hasAlloc : Bool) (pad w : Nat) (r : HeapRec)
    (hr : r.wf hasAlloc = true) (R : List Str) (acc : List RawSample) :
    heapLoop scale rate v2 hasAlloc (r.print pad w :: R) acc =
      heapLoop scale rate v2 hasAlloc R
        (heapSample scale hasAlloc v2 rate r.inuseN r.inuseB r.allocN r.allocB r.addrs :: acc) := by
  obtain ⟨c, t, hd, hc⟩ := r.core_cons pad w
  have h1 : isSpaceOrComment (r.core pad w) = false := by
    rw [hd]; exact isSpaceOrComment_head' _ (head_not_space hc).1 (head_not_space hc).2
  rw [heapLoop]
  simp only [HeapRec.trim, h1, r.core_not_sentinel pad w, Bool.false_eq_true, if_false,
    parseHeapSample_core scale pad w r rate v2 hasAlloc hr]

theorem heapLoop_recs (scale : ScaleFn) (rate : Nat) (v2 hasAlloc : Bool) (pad w : Nat) (rs : List HeapRec)
    (h : ∀ r ∈ rs, r.wf hasAlloc = true) (R : List Str) (acc : List RawSample) :
    heapLoop scale rate v2 hasAlloc (rs.flatMap (fun r => printFillers r.fill ++ [r.print pad w]) ++ R) acc
      = heapLoop scale rate v2 hasAlloc R
          ((rs.map (fun r => heapSample scale hasAlloc v2 rate r.inuseN r.inuseB r.allocN r.allocB r.addrs)).reverse ++ acc) := by
  induction rs generalizing acc with
  | nil => rfl
  | cons r rs ih =>
    simp only [List.flatMap_cons, List.append_assoc, heapLoop_fillers, List.singleton_append, List.cons_append,
      List.nil_append]
    rw [heapLoop_rec scale rate v2 hasAlloc pad w r (h r (by simp)), ih (fun x hx => h x (by simp [hx]))]
    simp

theorem heapLoop_tail (scale : ScaleFn) (rate : Nat) (v2 hasAlloc : Bool) (sentinel : Str)
    (hs : sentinel = sentinelMemoryMap ∨ sentinel = sentinelMappedLibraries) (map : Option MapSection) (acc : List RawSample) :
    heapLoop scale rate v2 hasAlloc (tailLines sentinel map) acc =
      .ok (acc.reverse, (match tailLines sentinel map with | [] => [] | c :: _ => c),
                        (match tailLines sentinel map with | [] => [] | _ :: r => r)) := by
  cases map with
  | none => simp [tailLines, heapLoop]
  | some m =>
    have h1 : isSpaceOrComment (trimSpace sentinel) = false := by rcases hs with rfl | rfl <;> decide
    have h2 : isMemoryMapSentinel (trimSpace sentinel) = true := by rcases hs with rfl | rfl <;> decide
    simp [tailLines, heapLoop, h1, h2]


/-! ### the whole document -/
theorem LineOK_heapNumbers (pad a b c d : Nat) : LineOK (heapNumbers pad a b c d) := by
  intro x hx
  rcases heapNumbers_bytes pad a b c d x hx with h | h | h | h | h
  · simp only [isDigit, decide_eq_true_eq] at h; omega
  all_goals (subst h; decide)

theorem LineOK_intStr (i : Int) : LineOK (intStr i) := by
  intro x hx
  rcases intStr_digit_or_dash i x hx with h | h
  · simp only [isDigit, decide_eq_true_eq] at h; omega
  · subst h; decide

theorem LineOK_heapNumbersZ (pad : Nat) (a b : Int) (c d : Nat) : LineOK (heapNumbersZ pad a b c d) := by
  have e := heapNumbersZ_core pad a b c d []
  simp only [List.append_nil] at e
  rw [e]
  apply LineOK_append (LineOK_sp _)
  intro x hx
  rcases heapNumsCoreZ_bytes pad a b c d x hx with h | h | h | h | h | h
  · simp only [isDigit, decide_eq_true_eq] at h; omega
  all_goals (subst h; decide)

theorem LineOK_heapKind (k : HeapKind) : LineOK k.print := by cases k <;> decide

theorem HeapDoc.lines_ok (d : HeapDoc) (h : d.wf = true) : ∀ l ∈ d.lines, LineOK l := by
  simp only [HeapDoc.wf, Bool.and_eq_true, List.all_eq_true, decide_eq_true_eq] at h
  obtain ⟨⟨⟨⟨⟨⟨⟨hrecs, hpost⟩, hrate⟩, _⟩, _⟩, _⟩, _⟩, hmap⟩ := h
  have hmap' : ∀ m, d.map = some m → m.wf = true := by
    intro m hm; rw [hm] at hmap; exact hmap
  have hsent : d.sentinel = sentinelMemoryMap ∨ d.sentinel = sentinelMappedLibraries := by
    unfold HeapDoc.sentinel; cases d.libs <;> simp
  have hsentOK : LineOK d.sentinel := by
    rcases hsent with h | h <;> rw [h]
    · exact LineOK_sentinelMemoryMap
    · exact LineOK_sentinelMappedLibraries
  have hsentS : isMemoryMapSentinel d.sentinel = true := by
    rcases hsent with h | h <;> rw [h] <;> decide
  intro l hl
  simp only [HeapDoc.lines, List.mem_append, List.mem_singleton, List.mem_flatMap] at hl
  rcases hl with ((hl | ⟨r, hr, hl⟩) | hl) | hl
  · subst hl
    have h1 : LineOK (asc "heap profile: ") := by decide
    have h2 : LineOK (asc " @ ") := by decide
    have h3 : LineOK (match d.rate with | some r => if d.kind.isHeap then 47 :: dec r else [] | none => []) := by
      cases d.rate with
      | none => exact LineOK_nil
      | some r =>
        cases d.kind.isHeap with
        | false => exact LineOK_nil
        | true => exact LineOK_cons (by decide) (LineOK_dec r)
    simp only [HeapDoc.headerLine]
    lineok
    exact ⟨⟨⟨⟨h1, LineOK_heapNumbers _ _ _ _ _⟩, h2⟩, LineOK_heapKind _⟩, h3⟩
  · have hw := hrecs r hr
    simp only [HeapRec.wf, Bool.and_eq_true, List.all_eq_true] at hw
    rcases hl with hl | hl
    · exact LineOK_fillers (List.all_eq_true.2 hw.1.1.1.1.1.1.1) l hl
    · subst hl
      have hlit : LineOK (asc " @") := by decide
      simp only [HeapRec.print]
      lineok
      exact ⟨LineOK_heapNumbersZ _ _ _ _ _, hlit⟩
  · exact LineOK_fillers (List.all_eq_true.2 hpost) l hl
  · exact LineOK_tailLines hsentOK hmap' l hl

theorem splitLines_printHeap (d : HeapDoc) (h : d.wf = true) : splitLines (printHeap d) = d.lines :=
  splitLines_unlines _ (d.lines_ok h)

theorem parseHeap_printHeap (scale : ScaleFn) (d : HeapDoc) (h : d.wf = true) :
    parseHeap scale (printHeap d) = .ok (expectedHeap scale d) := by
  have hlines := splitLines_printHeap d h
  simp only [HeapDoc.wf, Bool.and_eq_true, List.all_eq_true, decide_eq_true_eq] at h
  obtain ⟨⟨⟨⟨⟨⟨⟨hrecs, hpost⟩, hrate⟩, _⟩, _⟩, _⟩, _⟩, hmap⟩ := h
  have hmap' : ∀ m, d.map = some m → m.wf = true := by
    intro m hm; rw [hm] at hmap; exact hmap
  have hsent : d.sentinel = sentinelMemoryMap ∨ d.sentinel = sentinelMappedLibraries := by
    unfold HeapDoc.sentinel; cases d.libs <;> simp
  have hsentOK : LineOK d.sentinel := by
    rcases hsent with h | h <;> rw [h]
    · exact LineOK_sentinelMemoryMap
    · exact LineOK_sentinelMappedLibraries
  have hsentS : isMemoryMapSentinel d.sentinel = true := by
    rcases hsent with h | h <;> rw [h] <;> decide
  unfold parseHeap
  rw [hlines]
  unfold HeapDoc.lines
  simp only [List.append_assoc, List.singleton_append, List.cons_append, List.nil_append, parseHeapLines]
  rw [heapHeader_dispatch d (by simpa [Option.all_eq_true_iff_get, List.all_eq_true] using (show d.rate.all (· < two63) = true by
    cases hq : d.rate with
    | none => rfl
    | some r => simpa [hq] using hrate))]
  simp only []
  rw [heapLoop_recs scale d.period d.v2 d.hasAlloc d.pad d.width d.recs hrecs, heapLoop_fillers,
    heapLoop_tail _ _ _ _ _ hsent]
  simp only [List.append_nil, List.reverse_reverse, expectedHeap]
  have := parseAdditionalSections_tail d.sentinel hsentS d.map hmap'
  cases hq : tailLines d.sentinel d.map with
  | nil => rw [hq] at this; simp only [this]
  | cons c r => rw [hq] at this; simp only [this]

end PV.Legacy
