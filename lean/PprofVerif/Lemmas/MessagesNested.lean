import PprofVerif.Lemmas.Messages
/-!
Wire round trips of the nested messages `Sample`, `Location` and `Profile`
(`unmarshal (encode x) = ok x`), built from the flat-message round trips.
-/
namespace PV.Wire
section steps
variable {M : Type} (apply : M → Field → Outcome M)

theorem foldl_app {α : Type} (app : M → List α → M) (hnil : ∀ m, app m [] = m)
    (happ : ∀ m a b, app (app m a) b = app m (a ++ b)) :
    ∀ (xs : List α) (m : M), xs.foldl (fun m x => app m [x]) m = app m xs
  | [], m => (hnil m).symm
  | x :: xs, m => by
    simp only [List.foldl_cons]
    rw [foldl_app app hnil happ xs (app m [x]), happ]; rfl

theorem step_uint64s (app : M → List Nat → M) (hnil : ∀ m, app m [] = m)
    (happ : ∀ m a b, app (app m a) b = app m (a ++ b)) {tag : Nat} {xs : List Nat} {m : M} {rest : List Field}
    (hp : ∀ m, apply m (fLen tag (xs.flatMap encodeVarint)) = .ok (app m xs))
    (hs : ∀ m x, apply m (fU64 tag x) = .ok (app m [x])) :
    applyAll apply m (fUint64s tag xs ++ rest) = applyAll apply (app m xs) rest := by
  unfold fUint64s
  split
  · exact applyAll_cons_ok apply (hp m)
  · rw [step_push apply (fun m x => app m [x]) (fU64 tag) xs m rest (fun m a _ => hs m a),
      foldl_app app hnil happ]

theorem step_int64s (app : M → List Int → M) (hnil : ∀ m, app m [] = m)
    (happ : ∀ m a b, app (app m a) b = app m (a ++ b)) {tag : Nat} {xs : List Int} {m : M} {rest : List Field}
    (hp : ∀ m, apply m (fLen tag ((xs.map toU64).flatMap encodeVarint)) = .ok (app m xs))
    (hs : ∀ m x, x ∈ xs → apply m (fU64 tag (toU64 x)) = .ok (app m [x])) :
    applyAll apply m (fInt64s tag xs ++ rest) = applyAll apply (app m xs) rest := by
  unfold fInt64s fUint64s
  split
  · exact applyAll_cons_ok apply (hp m)
  · rw [List.map_map]
    rw [step_push apply (fun m x => app m [x]) (fU64 tag ∘ toU64) xs m rest (fun m a ha => hs m a ha),
      foldl_app app hnil happ]

end steps
end PV.Wire

namespace PV.Codec
open PV.Wire

/-! ### Sample -/
def SampleX.WF (p : SampleX) : Prop :=
  (∀ x ∈ p.locationIDX, x < two64) ∧ (∀ v ∈ p.value, InI64 v) ∧ (∀ l ∈ p.labelX, l.WF) ∧
  (p.locationIDX.flatMap encodeVarint).length < two64 ∧
  ((p.value.map toU64).flatMap encodeVarint).length < two64 ∧
  (∀ l ∈ p.labelX, l.encode.length < two64)

def SampleX.fields (p : SampleX) : List Field :=
  fUint64s 1 p.locationIDX ++ fInt64s 2 p.value ++ p.labelX.map (fun l => fLen 3 l.encode)

theorem SampleX.decodes (p : SampleX) (h : p.WF) : Decodes p.encode (SampleX.fields p) := by
  obtain ⟨h1, _, _, h4, h5, h6⟩ := h
  unfold SampleX.encode SampleX.fields
  exact Decodes.append (Decodes.append (Decodes.uint64s (smallTag 1) h1 h4) (Decodes.int64s (smallTag 2) h5))
    (Decodes.messages LabelX.encode (smallTag 3) h6)

theorem SampleX.apply_loc_packed (m : SampleX) (xs : List Nat) (h : ∀ x ∈ xs, x < two64) :
    SampleX.apply m (fLen 1 (xs.flatMap encodeVarint)) = .ok { m with locationIDX := m.locationIDX ++ xs } := by
  show (decodeUint64s (fLen 1 (xs.flatMap encodeVarint)) m.locationIDX >>= fun x => pure { m with locationIDX := x }) = _
  rw [decodeUint64s_packed 1 xs m.locationIDX h]; rfl

theorem SampleX.apply_loc_single (m : SampleX) (x : Nat) :
    SampleX.apply m (fU64 1 x) = .ok { m with locationIDX := m.locationIDX ++ [x] } := by
  show (decodeUint64s (fU64 1 x) m.locationIDX >>= fun x => pure { m with locationIDX := x }) = _
  rw [decodeUint64s_single]; rfl

theorem SampleX.apply_val_packed (m : SampleX) (xs : List Int) (h : ∀ x ∈ xs, InI64 x) :
    SampleX.apply m (fLen 2 ((xs.map toU64).flatMap encodeVarint)) = .ok { m with value := m.value ++ xs } := by
  show (decodeInt64s (fLen 2 ((xs.map toU64).flatMap encodeVarint)) m.value >>= fun x => pure { m with value := x }) = _
  rw [decodeInt64s_packed 2 xs m.value h]; rfl

theorem SampleX.apply_val_single (m : SampleX) (x : Int) (h : InI64 x) :
    SampleX.apply m (fU64 2 (toU64 x)) = .ok { m with value := m.value ++ [x] } := by
  show (decodeInt64s (fU64 2 (toU64 x)) m.value >>= fun x => pure { m with value := x }) = _
  rw [decodeInt64s_single 2 x m.value h]; rfl

theorem SampleX.apply_label (m : SampleX) (l : LabelX) (h : l.WF) :
    SampleX.apply m (fLen 3 l.encode) = .ok { m with labelX := m.labelX ++ [l] } := by
  show (decodeMessage LabelX.apply {} (fLen 3 l.encode) >>= fun x => pure { m with labelX := m.labelX ++ [x] }) = _
  rw [LabelX.decodeMessage_encode l h]; rfl

theorem SampleX.foldl_push_label (labs : List LabelX) (m : SampleX) :
    labs.foldl (fun m l => { m with labelX := m.labelX ++ [l] }) m = { m with labelX := m.labelX ++ labs } := by
  induction labs generalizing m with
  | nil => simp
  | cons l labs ih => simp [ih, List.append_assoc]

theorem SampleX.applyAll_fields (p : SampleX) (h : p.WF) :
    applyAll SampleX.apply {} (SampleX.fields p) = .ok p := by
  obtain ⟨locs, vals, labs⟩ := p
  obtain ⟨h1, h2, h3, _, _, _⟩ := h
  simp only at h1 h2 h3
  have e : SampleX.fields ⟨locs, vals, labs⟩ =
      fUint64s 1 locs ++ (fInt64s 2 vals ++ (labs.map (fun l => fLen 3 l.encode) ++ [])) := by
    simp [SampleX.fields, List.append_assoc]
  rw [e]
  rw [step_uint64s SampleX.apply (fun m xs => { m with locationIDX := m.locationIDX ++ xs })
        (by intro m; simp) (by intro m a b; simp [List.append_assoc])
        (fun m => SampleX.apply_loc_packed m locs h1) (fun m x => SampleX.apply_loc_single m x)]
  rw [step_int64s SampleX.apply (fun m xs => { m with value := m.value ++ xs })
        (by intro m; simp) (by intro m a b; simp [List.append_assoc])
        (fun m => SampleX.apply_val_packed m vals h2) (fun m x hx => SampleX.apply_val_single m x (h2 x hx))]
  rw [step_push SampleX.apply (fun m l => { m with labelX := m.labelX ++ [l] }) (fun l => fLen 3 l.encode) labs _ []
        (fun m l hl => SampleX.apply_label m l (h3 l hl))]
  rw [SampleX.foldl_push_label]
  simp [applyAll]

theorem SampleX.roundtrip (p : SampleX) (h : p.WF) : decodeAll SampleX.apply {} p.encode = .ok p := by
  rw [(SampleX.decodes p h).decodeAll_eq]; exact SampleX.applyAll_fields p h

theorem SampleX.decodeMessage_encode (p : SampleX) (h : p.WF) (tag : Nat) :
    decodeMessage SampleX.apply {} (fLen tag p.encode) = .ok p := by
  unfold decodeMessage fLen
  simp only [ne_eq, not_true_eq_false, if_false]
  exact SampleX.roundtrip p h

/-! ### Location -/
def LocationX.WF (p : LocationX) : Prop :=
  p.id < two64 ∧ p.mappingIDX < two64 ∧ p.address < two64 ∧ (∀ l ∈ p.line, l.WF) ∧
  (∀ l ∈ p.line, l.encode.length < two64)

def LocationX.fields (p : LocationX) : List Field :=
  fUint64Opt 1 p.id ++ fUint64Opt 2 p.mappingIDX ++ fUint64Opt 3 p.address ++
  p.line.map (fun l => fLen 4 l.encode) ++ fBoolOpt 5 p.isFolded

theorem LocationX.decodes (p : LocationX) (h : p.WF) : Decodes p.encode (LocationX.fields p) := by
  obtain ⟨h1, h2, h3, _, h5⟩ := h
  unfold LocationX.encode LocationX.fields
  exact Decodes.append (Decodes.append (Decodes.append (Decodes.append
    (Decodes.uint64Opt (smallTag 1) h1) (Decodes.uint64Opt (smallTag 2) h2)) (Decodes.uint64Opt (smallTag 3) h3))
    (Decodes.messages LineX.encode (smallTag 4) h5)) (Decodes.boolOpt (smallTag 5))

theorem LocationX.apply_line (m : LocationX) (l : LineX) (h : l.WF) :
    LocationX.apply m (fLen 4 l.encode) = .ok { m with line := m.line ++ [l] } := by
  show (decodeMessage LineX.apply {} (fLen 4 l.encode) >>= fun x => pure { m with line := m.line ++ [x] }) = _
  rw [LineX.decodeMessage_encode l h]; rfl

theorem LocationX.foldl_push_line (ls : List LineX) (m : LocationX) :
    ls.foldl (fun m l => { m with line := m.line ++ [l] }) m = { m with line := m.line ++ ls } := by
  induction ls generalizing m with
  | nil => simp
  | cons l ls ih => simp [ih, List.append_assoc]

theorem LocationX.applyAll_fields (p : LocationX) (h : p.WF) :
    applyAll LocationX.apply {} (LocationX.fields p) = .ok p := by
  obtain ⟨id, mappingIDX, address, line, isFolded⟩ := p
  obtain ⟨_, _, _, h4, _⟩ := h
  simp only at h4
  have e : LocationX.fields ⟨id, mappingIDX, address, line, isFolded⟩ =
      fUint64Opt 1 id ++ (fUint64Opt 2 mappingIDX ++ (fUint64Opt 3 address ++
        (line.map (fun l => fLen 4 l.encode) ++ (fBoolOpt 5 isFolded ++ [])))) := by
    simp [LocationX.fields, List.append_assoc]
  rw [e]
  rw [step_uint64Opt LocationX.apply (m := ({} : LocationX)) (m' := ({ id := id } : LocationX))
        (by simp [LocationX.apply, fU64, decodeUint64, bind, Outcome.bind]) (by intro h0; simp [h0])]
  rw [step_uint64Opt LocationX.apply (m := ({ id := id } : LocationX)) (m' := ({ id := id, mappingIDX := mappingIDX } : LocationX))
        (by simp [LocationX.apply, fU64, decodeUint64, bind, Outcome.bind]) (by intro h0; simp [h0])]
  rw [step_uint64Opt LocationX.apply (m := ({ id := id, mappingIDX := mappingIDX } : LocationX))
        (m' := ({ id := id, mappingIDX := mappingIDX, address := address } : LocationX))
        (by simp [LocationX.apply, fU64, decodeUint64, bind, Outcome.bind]) (by intro h0; simp [h0])]
  rw [step_push LocationX.apply (fun m l => { m with line := m.line ++ [l] }) (fun l => fLen 4 l.encode) line _ _
        (fun m l hl => LocationX.apply_line m l (h4 l hl))]
  rw [LocationX.foldl_push_line]
  rw [step_boolOpt LocationX.apply (m := ({ id := id, mappingIDX := mappingIDX, address := address, line := [] ++ line } : LocationX))
        (m' := ({ id := id, mappingIDX := mappingIDX, address := address, line := line, isFolded := isFolded } : LocationX))
        (by intro hb; simp [LocationX.apply, fU64, decodeBool, bind, Outcome.bind, toI64_one, hb]) (by intro h0; simp [h0])]
  rfl

theorem LocationX.roundtrip (p : LocationX) (h : p.WF) : decodeAll LocationX.apply {} p.encode = .ok p := by
  rw [(LocationX.decodes p h).decodeAll_eq]; exact LocationX.applyAll_fields p h

theorem LocationX.decodeMessage_encode (p : LocationX) (h : p.WF) (tag : Nat) :
    decodeMessage LocationX.apply {} (fLen tag p.encode) = .ok p := by
  unfold decodeMessage fLen
  simp only [ne_eq, not_true_eq_false, if_false]
  exact LocationX.roundtrip p h

end PV.Codec

namespace PV.Codec
open PV.Wire

/-! ### Profile -/

/-- what survives of `PeriodType` on the wire: a nil pointer and an all-zero value are both
elided by `encode`, and the decoder then leaves the pointer nil. -/
def normPT : Option ValueTypeX → Option ValueTypeX
  | some pt => if pt.typeX ≠ 0 ∨ pt.unitX ≠ 0 then some pt else none
  | none => none

def fPeriodType : Option ValueTypeX → List Field
  | some pt => if pt.typeX ≠ 0 ∨ pt.unitX ≠ 0 then [fLen 11 pt.encode] else []
  | none => []

def ProfileX.WF (p : ProfileX) : Prop :=
  (∀ x ∈ p.sampleType, x.WF) ∧ (∀ x ∈ p.sample, x.WF) ∧ (∀ x ∈ p.mapping, x.WF) ∧
  (∀ x ∈ p.location, x.WF) ∧ (∀ x ∈ p.function, x.WF) ∧
  (p.stringTable = [] ∨ p.stringTable.head? = some []) ∧
  InI64 p.dropFramesX ∧ InI64 p.keepFramesX ∧ InI64 p.timeNanos ∧ InI64 p.durationNanos ∧
  (∀ pt, p.periodType = some pt → pt.WF) ∧ InI64 p.period ∧ (∀ c ∈ p.commentX, InI64 c) ∧
  InI64 p.defaultSampleTypeX ∧ InI64 p.docURLX

/-- size side conditions: every length-delimited body is shorter than 2^64 bytes -/
def ProfileX.Sized (p : ProfileX) : Prop :=
  (∀ x ∈ p.sampleType, x.encode.length < two64) ∧ (∀ x ∈ p.sample, x.encode.length < two64) ∧
  (∀ x ∈ p.mapping, x.encode.length < two64) ∧ (∀ x ∈ p.location, x.encode.length < two64) ∧
  (∀ x ∈ p.function, x.encode.length < two64) ∧ (∀ s ∈ p.stringTable, s.length < two64) ∧
  (∀ pt, p.periodType = some pt → pt.encode.length < two64) ∧
  ((p.commentX.map toU64).flatMap encodeVarint).length < two64

def ProfileX.fields (p : ProfileX) : List Field :=
  p.sampleType.map (fun x => fLen 1 x.encode) ++
  p.sample.map (fun x => fLen 2 x.encode) ++
  p.mapping.map (fun x => fLen 3 x.encode) ++
  p.location.map (fun x => fLen 4 x.encode) ++
  p.function.map (fun x => fLen 5 x.encode) ++
  p.stringTable.map (fLen 6) ++
  fInt64Opt 7 p.dropFramesX ++ fInt64Opt 8 p.keepFramesX ++
  fInt64Opt 9 p.timeNanos ++ fInt64Opt 10 p.durationNanos ++
  fPeriodType p.periodType ++
  fInt64Opt 12 p.period ++ fInt64s 13 p.commentX ++
  fInt64 14 p.defaultSampleTypeX ++ fInt64Opt 15 p.docURLX

def encPT : Option ValueTypeX → Bytes
  | some pt => if pt.typeX ≠ 0 ∨ pt.unitX ≠ 0 then encodeMessage 11 pt.encode else []
  | none => []

theorem decodes_periodType (o : Option ValueTypeX) (h : ∀ pt, o = some pt → pt.encode.length < two64) :
    Decodes (encPT o) (fPeriodType o) := by
  cases o with
  | none => exact Decodes.nil
  | some pt =>
    simp only [fPeriodType, encPT]
    split
    · exact Decodes.message (smallTag 11) (h pt rfl)
    · exact Decodes.nil

theorem ProfileX.decodes (p : ProfileX) (hs : p.Sized) : Decodes p.encode (ProfileX.fields p) := by
  obtain ⟨s1, s2, s3, s4, s5, s6, s7, s8⟩ := hs
  unfold ProfileX.encode ProfileX.fields
  exact Decodes.append (Decodes.append (Decodes.append (Decodes.append (Decodes.append (Decodes.append
    (Decodes.append (Decodes.append (Decodes.append (Decodes.append (Decodes.append (Decodes.append
    (Decodes.append (Decodes.append
      (Decodes.messages ValueTypeX.encode (smallTag 1) s1)
      (Decodes.messages SampleX.encode (smallTag 2) s2))
      (Decodes.messages MappingX.encode (smallTag 3) s3))
      (Decodes.messages LocationX.encode (smallTag 4) s4))
      (Decodes.messages FunctionX.encode (smallTag 5) s5))
      (Decodes.strings (smallTag 6) s6))
      (Decodes.int64Opt (smallTag 7))) (Decodes.int64Opt (smallTag 8)))
      (Decodes.int64Opt (smallTag 9))) (Decodes.int64Opt (smallTag 10)))
      (decodes_periodType p.periodType s7))
      (Decodes.int64Opt (smallTag 12))) (Decodes.int64s (smallTag 13) s8))
      (Decodes.int64 (smallTag 14))) (Decodes.int64Opt (smallTag 15))

theorem ProfileX.apply_sampleType (m : ProfileX) (x : ValueTypeX) (h : x.WF) :
    ProfileX.apply m (fLen 1 x.encode) = .ok { m with sampleType := m.sampleType ++ [x] } := by
  show (decodeMessage ValueTypeX.apply {} (fLen 1 x.encode) >>= fun y => pure { m with sampleType := m.sampleType ++ [y] }) = _
  rw [ValueTypeX.decodeMessage_encode x h]; rfl

theorem ProfileX.foldl_push_sampleType (l : List ValueTypeX) (m : ProfileX) :
    l.foldl (fun m x => { m with sampleType := m.sampleType ++ [x] }) m = { m with sampleType := m.sampleType ++ l } := by
  induction l generalizing m with
  | nil => simp
  | cons x l ih => simp [ih, List.append_assoc]

theorem ProfileX.apply_sample (m : ProfileX) (x : SampleX) (h : x.WF) :
    ProfileX.apply m (fLen 2 x.encode) = .ok { m with sample := m.sample ++ [x] } := by
  show (decodeMessage SampleX.apply {} (fLen 2 x.encode) >>= fun y => pure { m with sample := m.sample ++ [y] }) = _
  rw [SampleX.decodeMessage_encode x h]; rfl

theorem ProfileX.foldl_push_sample (l : List SampleX) (m : ProfileX) :
    l.foldl (fun m x => { m with sample := m.sample ++ [x] }) m = { m with sample := m.sample ++ l } := by
  induction l generalizing m with
  | nil => simp
  | cons x l ih => simp [ih, List.append_assoc]

theorem ProfileX.apply_mapping (m : ProfileX) (x : MappingX) (h : x.WF) :
    ProfileX.apply m (fLen 3 x.encode) = .ok { m with mapping := m.mapping ++ [x] } := by
  show (decodeMessage MappingX.apply {} (fLen 3 x.encode) >>= fun y => pure { m with mapping := m.mapping ++ [y] }) = _
  rw [MappingX.decodeMessage_encode x h]; rfl

theorem ProfileX.foldl_push_mapping (l : List MappingX) (m : ProfileX) :
    l.foldl (fun m x => { m with mapping := m.mapping ++ [x] }) m = { m with mapping := m.mapping ++ l } := by
  induction l generalizing m with
  | nil => simp
  | cons x l ih => simp [ih, List.append_assoc]

theorem ProfileX.apply_location (m : ProfileX) (x : LocationX) (h : x.WF) :
    ProfileX.apply m (fLen 4 x.encode) = .ok { m with location := m.location ++ [x] } := by
  show (decodeMessage LocationX.apply {} (fLen 4 x.encode) >>= fun y => pure { m with location := m.location ++ [y] }) = _
  rw [LocationX.decodeMessage_encode x h]; rfl

theorem ProfileX.foldl_push_location (l : List LocationX) (m : ProfileX) :
    l.foldl (fun m x => { m with location := m.location ++ [x] }) m = { m with location := m.location ++ l } := by
  induction l generalizing m with
  | nil => simp
  | cons x l ih => simp [ih, List.append_assoc]

theorem ProfileX.apply_function (m : ProfileX) (x : FunctionX) (h : x.WF) :
    ProfileX.apply m (fLen 5 x.encode) = .ok { m with function := m.function ++ [x] } := by
  show (decodeMessage FunctionX.apply {} (fLen 5 x.encode) >>= fun y => pure { m with function := m.function ++ [y] }) = _
  rw [FunctionX.decodeMessage_encode x h]; rfl

theorem ProfileX.foldl_push_function (l : List FunctionX) (m : ProfileX) :
    l.foldl (fun m x => { m with function := m.function ++ [x] }) m = { m with function := m.function ++ l } := by
  induction l generalizing m with
  | nil => simp
  | cons x l ih => simp [ih, List.append_assoc]

theorem head?_append_singleton_of {α : Type} (a : List α) (x : α) (l : List α) (v : α)
    (h : (a ++ x :: l).head? = some v) : (a ++ [x]).head? = some v := by
  cases a with
  | nil => simpa using h
  | cons y a => simpa using h

theorem ProfileX.apply_strings : ∀ (ss : List Str) (m : ProfileX) (rest : List Field),
    (m.stringTable ++ ss = [] ∨ (m.stringTable ++ ss).head? = some []) →
    applyAll ProfileX.apply m (ss.map (fLen 6) ++ rest) =
      applyAll ProfileX.apply { m with stringTable := m.stringTable ++ ss } rest
  | [], m, rest, _ => by simp
  | s :: ss, m, rest, h => by
    have hh : (m.stringTable ++ s :: ss).head? = some [] := by
      rcases h with h | h
      · simp at h
      · exact h
    have h1 := head?_append_singleton_of m.stringTable s ss [] hh
    have step : ProfileX.apply m (fLen 6 s) = .ok { m with stringTable := m.stringTable ++ [s] } := by
      show (decodeString (fLen 6 s) >>= fun s' =>
        match m.stringTable ++ [s'] with
        | [] => Outcome.panic "stringTable[0]: index out of range"
        | s0 :: _ => if s0 ≠ [] then Outcome.err "string_table[0] must be ''" else pure { m with stringTable := m.stringTable ++ [s'] }) = _
      simp only [decodeString, fLen, ne_eq, not_true_eq_false, if_false, bind, Outcome.bind]
      cases ht : m.stringTable ++ [s] with
      | nil => simp at ht
      | cons s0 t =>
        rw [ht] at h1
        simp only [List.head?_cons, Option.some.injEq] at h1
        simp [h1, pure]
    simp only [List.map_cons, List.cons_append]
    rw [applyAll_cons_ok ProfileX.apply step]
    have := ProfileX.apply_strings ss { m with stringTable := m.stringTable ++ [s] } rest
      (by right; simpa [List.append_assoc] using hh)
    rw [this]
    simp [List.append_assoc]

theorem ProfileX.apply_periodType (m : ProfileX) (pt : ValueTypeX) (h : pt.WF) :
    ProfileX.apply m (fLen 11 pt.encode) = .ok { m with periodType := some pt } := by
  show (decodeMessage ValueTypeX.apply {} (fLen 11 pt.encode) >>= fun y => pure { m with periodType := some y }) = _
  rw [ValueTypeX.decodeMessage_encode pt h]; rfl

theorem ProfileX.apply_comment_packed (m : ProfileX) (xs : List Int) (h : ∀ x ∈ xs, InI64 x) :
    ProfileX.apply m (fLen 13 ((xs.map toU64).flatMap encodeVarint)) = .ok { m with commentX := m.commentX ++ xs } := by
  show (decodeInt64s (fLen 13 ((xs.map toU64).flatMap encodeVarint)) m.commentX >>= fun x => pure { m with commentX := x }) = _
  rw [decodeInt64s_packed 13 xs m.commentX h]; rfl

theorem ProfileX.apply_comment_single (m : ProfileX) (x : Int) (h : InI64 x) :
    ProfileX.apply m (fU64 13 (toU64 x)) = .ok { m with commentX := m.commentX ++ [x] } := by
  show (decodeInt64s (fU64 13 (toU64 x)) m.commentX >>= fun x => pure { m with commentX := x }) = _
  rw [decodeInt64s_single 13 x m.commentX h]; rfl

theorem step_periodType (m : ProfileX) (o : Option ValueTypeX) (rest : List Field)
    (hm : m.periodType = none) (h : ∀ pt, o = some pt → pt.WF) :
    applyAll ProfileX.apply m (fPeriodType o ++ rest) =
      applyAll ProfileX.apply { m with periodType := normPT o } rest := by
  cases o with
  | none =>
    simp only [fPeriodType, normPT, List.nil_append]
    rw [← hm]
  | some pt =>
    simp only [fPeriodType, normPT]
    split
    · simp only [List.cons_append, List.nil_append]
      rw [applyAll_cons_ok ProfileX.apply (ProfileX.apply_periodType m pt (h pt rfl))]
    · simp only [List.nil_append]; rw [← hm]

theorem ProfileX.applyAll_fields (p : ProfileX) (h : p.WF) :
    applyAll ProfileX.apply {} (ProfileX.fields p) = .ok { p with periodType := normPT p.periodType } := by
  obtain ⟨sampleType, sample, mapping, location, function, stringTable, dropFramesX, keepFramesX, timeNanos,
    durationNanos, periodType, period, commentX, defaultSampleTypeX, docURLX⟩ := p
  obtain ⟨w1, w2, w3, w4, w5, w6, w7, w8, w9, w10, w11, w12, w13, w14, w15⟩ := h
  simp only at w1 w2 w3 w4 w5 w6 w7 w8 w9 w10 w11 w12 w13 w14 w15
  have e : ProfileX.fields ⟨sampleType, sample, mapping, location, function, stringTable, dropFramesX, keepFramesX,
      timeNanos, durationNanos, periodType, period, commentX, defaultSampleTypeX, docURLX⟩ =
      sampleType.map (fun x => fLen 1 x.encode) ++ (sample.map (fun x => fLen 2 x.encode) ++
      (mapping.map (fun x => fLen 3 x.encode) ++ (location.map (fun x => fLen 4 x.encode) ++
      (function.map (fun x => fLen 5 x.encode) ++ (stringTable.map (fLen 6) ++
      (fInt64Opt 7 dropFramesX ++ (fInt64Opt 8 keepFramesX ++ (fInt64Opt 9 timeNanos ++
      (fInt64Opt 10 durationNanos ++ (fPeriodType periodType ++ (fInt64Opt 12 period ++
      (fInt64s 13 commentX ++ (fInt64 14 defaultSampleTypeX ++ (fInt64Opt 15 docURLX ++ [])))))))))))))) := by
    simp [ProfileX.fields, List.append_assoc]
  rw [e]
  rw [step_push ProfileX.apply (fun m x => { m with sampleType := m.sampleType ++ [x] }) (fun x => fLen 1 x.encode)
        sampleType _ _ (fun m x hx => ProfileX.apply_sampleType m x (w1 x hx)), ProfileX.foldl_push_sampleType]
  rw [step_push ProfileX.apply (fun m x => { m with sample := m.sample ++ [x] }) (fun x => fLen 2 x.encode)
        sample _ _ (fun m x hx => ProfileX.apply_sample m x (w2 x hx)), ProfileX.foldl_push_sample]
  rw [step_push ProfileX.apply (fun m x => { m with mapping := m.mapping ++ [x] }) (fun x => fLen 3 x.encode)
        mapping _ _ (fun m x hx => ProfileX.apply_mapping m x (w3 x hx)), ProfileX.foldl_push_mapping]
  rw [step_push ProfileX.apply (fun m x => { m with location := m.location ++ [x] }) (fun x => fLen 4 x.encode)
        location _ _ (fun m x hx => ProfileX.apply_location m x (w4 x hx)), ProfileX.foldl_push_location]
  rw [step_push ProfileX.apply (fun m x => { m with function := m.function ++ [x] }) (fun x => fLen 5 x.encode)
        function _ _ (fun m x hx => ProfileX.apply_function m x (w5 x hx)), ProfileX.foldl_push_function]
  rw [ProfileX.apply_strings stringTable _ _ (by simpa using w6)]
  simp only [List.nil_append]
  rw [step_int64Opt ProfileX.apply
        (m := ({ sampleType := sampleType, sample := sample, mapping := mapping, location := location, function := function, stringTable := stringTable } : ProfileX))
        (m' := ({ sampleType := sampleType, sample := sample, mapping := mapping, location := location, function := function, stringTable := stringTable, dropFramesX := dropFramesX } : ProfileX))
        (by simp [ProfileX.apply, fU64, decodeInt64, bind, Outcome.bind, toI64_toU64 _ w7]) (by intro h0; simp [h0])]
  rw [step_int64Opt ProfileX.apply
        (m' := ({ sampleType := sampleType, sample := sample, mapping := mapping, location := location, function := function, stringTable := stringTable, dropFramesX := dropFramesX, keepFramesX := keepFramesX } : ProfileX))
        (by simp [ProfileX.apply, fU64, decodeInt64, bind, Outcome.bind, toI64_toU64 _ w8]) (by intro h0; simp [h0])]
  rw [step_int64Opt ProfileX.apply
        (m' := ({ sampleType := sampleType, sample := sample, mapping := mapping, location := location, function := function, stringTable := stringTable, dropFramesX := dropFramesX, keepFramesX := keepFramesX, timeNanos := timeNanos } : ProfileX))
        (by simp [ProfileX.apply, fU64, decodeInt64, bind, Outcome.bind, toI64_toU64 _ w9]) (by intro h0; simp [h0])]
  rw [step_int64Opt ProfileX.apply
        (m' := ({ sampleType := sampleType, sample := sample, mapping := mapping, location := location, function := function, stringTable := stringTable, dropFramesX := dropFramesX, keepFramesX := keepFramesX, timeNanos := timeNanos, durationNanos := durationNanos } : ProfileX))
        (by simp [ProfileX.apply, fU64, decodeInt64, bind, Outcome.bind, toI64_toU64 _ w10]) (by intro h0; simp [h0])]
  rw [step_periodType _ periodType _ rfl w11]
  rw [step_int64Opt ProfileX.apply
        (m' := ({ sampleType := sampleType, sample := sample, mapping := mapping, location := location, function := function, stringTable := stringTable, dropFramesX := dropFramesX, keepFramesX := keepFramesX, timeNanos := timeNanos, durationNanos := durationNanos, periodType := normPT periodType, period := period } : ProfileX))
        (by simp [ProfileX.apply, fU64, decodeInt64, bind, Outcome.bind, toI64_toU64 _ w12]) (by intro h0; simp [h0])]
  rw [step_int64s ProfileX.apply (fun m xs => { m with commentX := m.commentX ++ xs })
        (by intro m; simp) (by intro m a b; simp [List.append_assoc])
        (fun m => ProfileX.apply_comment_packed m commentX w13)
        (fun m x hx => ProfileX.apply_comment_single m x (w13 x hx))]
  rw [step_int64 ProfileX.apply
        (m' := ({ sampleType := sampleType, sample := sample, mapping := mapping, location := location, function := function, stringTable := stringTable, dropFramesX := dropFramesX, keepFramesX := keepFramesX, timeNanos := timeNanos, durationNanos := durationNanos, periodType := normPT periodType, period := period, commentX := commentX, defaultSampleTypeX := defaultSampleTypeX } : ProfileX))
        (by simp [ProfileX.apply, fU64, decodeInt64, bind, Outcome.bind, toI64_toU64 _ w14])]
  rw [step_int64Opt ProfileX.apply
        (m' := ({ sampleType := sampleType, sample := sample, mapping := mapping, location := location, function := function, stringTable := stringTable, dropFramesX := dropFramesX, keepFramesX := keepFramesX, timeNanos := timeNanos, durationNanos := durationNanos, periodType := normPT periodType, period := period, commentX := commentX, defaultSampleTypeX := defaultSampleTypeX, docURLX := docURLX } : ProfileX))
        (by simp [ProfileX.apply, fU64, decodeInt64, bind, Outcome.bind, toI64_toU64 _ w15]) (by intro h0; simp [h0])]
  rfl

/-- **Wire round trip of a whole profile message**: `unmarshal (encode x) = x`, up to the
elision of an all-zero `PeriodType`. -/
theorem unmarshal_encode (p : ProfileX) (h : p.WF) (hs : p.Sized) :
    unmarshal p.encode = .ok { p with periodType := normPT p.periodType } := by
  have := (ProfileX.decodes p hs).decodeAll_eq ProfileX.apply {}
  unfold decodeAll at this
  unfold unmarshal
  rw [this]
  exact ProfileX.applyAll_fields p h

end PV.Codec
