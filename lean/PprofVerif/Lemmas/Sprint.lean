import PprofVerif.Model.GraphOrder
/-!
# `fmt.Sprint(NodeInfo)` separates distinct infos whose string fields contain no space

`compareNodes` compares `fmt.Sprint(l.Info) < fmt.Sprint(r.Info)`.  The rendering joins the eight
fields with single spaces, so it is injective exactly as far as the fields can be recovered by
splitting on spaces.  (Core Lean tactics only.)
-/
namespace PV.GraphOrder
open PV PV.Order

/-! ### decimal rendering is injective and contains only digits -/

def valRev : List Nat → Nat
  | [] => 0
  | d :: ds => d + 10 * valRev ds

theorem valRev_digitsRev : ∀ (f n : Nat), n < f → valRev (digitsRev f n) = n
  | 0, n, h => by omega
  | f + 1, n, h => by
    unfold digitsRev
    by_cases hn : n < 10
    · simp [hn, valRev]
    · simp only [hn, if_false, valRev]
      have := valRev_digitsRev f (n / 10) (by omega)
      omega

theorem digitsRev_lt10 : ∀ (f n : Nat), ∀ d ∈ digitsRev f n, d < 10
  | 0, _, d, h => by simp [digitsRev] at h
  | f + 1, n, d, h => by
    unfold digitsRev at h
    by_cases hn : n < 10
    · simp [hn] at h; omega
    · simp only [hn, if_false, List.mem_cons] at h
      rcases h with e | hm
      · omega
      · exact digitsRev_lt10 f (n / 10) d hm

theorem digitByte_toNat {d : Nat} (h : d < 10) : (digitByte d).toNat = 48 + d := by
  unfold digitByte
  simp only [UInt8.toNat_ofNat']
  omega

theorem map_digitByte_inj : ∀ (xs ys : List Nat), (∀ d ∈ xs, d < 10) → (∀ d ∈ ys, d < 10) →
    xs.map digitByte = ys.map digitByte → xs = ys
  | [], [], _, _, _ => rfl
  | [], _ :: _, _, _, h => by simp at h
  | _ :: _, [], _, _, h => by simp at h
  | x :: xs, y :: ys, hx, hy, h => by
    simp only [List.map_cons, List.cons.injEq] at h
    have h1 := congrArg UInt8.toNat h.1
    rw [digitByte_toNat (hx x (List.mem_cons_self ..)), digitByte_toNat (hy y (List.mem_cons_self ..))] at h1
    have : x = y := by omega
    rw [this, map_digitByte_inj xs ys (fun d hd => hx d (List.mem_cons_of_mem _ hd))
      (fun d hd => hy d (List.mem_cons_of_mem _ hd)) h.2]

theorem decNat_inj {m n : Nat} (h : decNat m = decNat n) : m = n := by
  unfold decNat at h
  have hm : ∀ d ∈ (digitsRev (m + 1) m).reverse, d < 10 := fun d hd => digitsRev_lt10 _ _ d (List.mem_reverse.mp hd)
  have hn : ∀ d ∈ (digitsRev (n + 1) n).reverse, d < 10 := fun d hd => digitsRev_lt10 _ _ d (List.mem_reverse.mp hd)
  have h2 := map_digitByte_inj _ _ hm hn h
  have h3 := List.reverse_inj.mp h2
  have := congrArg valRev h3
  rwa [valRev_digitsRev _ _ (by omega), valRev_digitsRev _ _ (by omega)] at this

theorem decNat_digits (n : Nat) : ∀ b ∈ decNat n, 48 ≤ b.toNat ∧ b.toNat ≤ 57 := by
  intro b hb
  unfold decNat at hb
  obtain ⟨d, hd, rfl⟩ := List.mem_map.mp hb
  have := digitsRev_lt10 _ _ d (List.mem_reverse.mp hd)
  rw [digitByte_toNat this]; omega

theorem decInt_inj {i j : Int} (h : decInt i = decInt j) : i = j := by
  unfold decInt at h
  by_cases hi : i < 0 <;> by_cases hj : j < 0 <;> simp only [hi, hj, if_true, if_false] at h
  · have := decNat_inj (List.cons.inj h).2
    omega
  · have := decNat_digits j.toNat 45 (by rw [← h]; exact List.mem_cons_self ..)
    simp at this
  · have := decNat_digits i.toNat 45 (by rw [h]; exact List.mem_cons_self ..)
    simp at this
  · have := decNat_inj h
    omega

theorem sp_not_mem_decNat (n : Nat) : sp ∉ decNat n := by
  intro h
  have := decNat_digits n sp h
  simp [sp] at this

theorem sp_not_mem_decInt (i : Int) : sp ∉ decInt i := by
  unfold decInt
  by_cases hi : i < 0 <;> simp only [hi, if_true, if_false]
  · intro h
    rcases List.mem_cons.mp h with e | hm
    · simp [sp] at e
    · exact sp_not_mem_decNat _ hm
  · exact sp_not_mem_decNat _

/-! ### joining space-free fields with spaces is injective -/

theorem append_sp_inj : ∀ (s t x y : Str), sp ∉ s → sp ∉ t → s ++ sp :: x = t ++ sp :: y → s = t ∧ x = y
  | [], [], x, y, _, _, h => by simpa using h
  | [], b :: t, x, y, _, ht, h => by
    simp only [List.nil_append, List.cons_append, List.cons.injEq] at h
    exact absurd (h.1 ▸ List.mem_cons_self ..) ht
  | a :: s, [], x, y, hs, _, h => by
    simp only [List.nil_append, List.cons_append, List.cons.injEq] at h
    exact absurd (h.1 ▸ List.mem_cons_self ..) hs
  | a :: s, b :: t, x, y, hs, ht, h => by
    simp only [List.cons_append, List.cons.injEq] at h
    have := append_sp_inj s t x y (fun m => hs (List.mem_cons_of_mem _ m)) (fun m => ht (List.mem_cons_of_mem _ m)) h.2
    exact ⟨by rw [h.1, this.1], this.2⟩

/-- a space-free string is not a strict extension `t ++ ' ' :: y` -/
theorem ne_append_sp (s t y : Str) (hs : sp ∉ s) : s ≠ t ++ sp :: y := by
  intro h
  exact hs (h ▸ List.mem_append_right _ (List.mem_cons_self ..))

theorem joinSp_inj : ∀ (fs gs : List Str), fs.length = gs.length → (∀ f ∈ fs, sp ∉ f) → (∀ g ∈ gs, sp ∉ g) →
    joinSp fs = joinSp gs → fs = gs
  | [], [], _, _, _, _ => rfl
  | [], _ :: _, h, _, _, _ => by simp at h
  | _ :: _, [], h, _, _, _ => by simp at h
  | [s], [t], _, _, _, h => by simpa [joinSp] using h
  | [_], _ :: _ :: _, h, _, _, _ => by simp at h
  | _ :: _ :: _, [_], h, _, _, _ => by simp at h
  | s :: f :: fs, t :: g :: gs, hl, hf, hg, h => by
    simp only [joinSp] at h
    have hs : sp ∉ s := hf s (List.mem_cons_self ..)
    have ht : sp ∉ t := hg t (List.mem_cons_self ..)
    obtain ⟨e1, e2⟩ := append_sp_inj s t _ _ hs ht h
    have := joinSp_inj (f :: fs) (g :: gs) (by simpa using hl)
      (fun x hx => hf x (List.mem_cons_of_mem _ hx)) (fun x hx => hg x (List.mem_cons_of_mem _ hx)) e2
    rw [e1, this]

/-! ### the theorem -/

/-- the hypothesis under which `compareNodes` is a faithful tie-break -/
def SpaceFree (i : NodeInfo) : Prop := sp ∉ i.name ∧ sp ∉ i.origName ∧ sp ∉ i.file ∧ sp ∉ i.objfile

theorem sprintFields_spaceFree (i : NodeInfo) (h : SpaceFree i) : ∀ f ∈ sprintFields i, sp ∉ f := by
  obtain ⟨h1, h2, h3, h4⟩ := h
  intro f hf
  simp only [sprintFields, List.mem_cons, List.mem_nil_iff, or_false] at hf
  rcases hf with e | e | e | e | e | e | e | e <;> subst e
  · exact h1
  · exact h2
  · exact sp_not_mem_decNat _
  · exact h3
  · exact sp_not_mem_decInt _
  · exact sp_not_mem_decInt _
  · exact sp_not_mem_decInt _
  · exact h4

theorem sprintInfo_inj {a b : NodeInfo} (ha : SpaceFree a) (hb : SpaceFree b)
    (h : sprintInfo a = sprintInfo b) : a = b := by
  unfold sprintInfo at h
  have h1 := (List.cons.inj h).2
  have h2 := List.append_cancel_right h1
  have h3 := joinSp_inj _ _ (by simp [sprintFields]) (sprintFields_spaceFree a ha) (sprintFields_spaceFree b hb) h2
  simp only [sprintFields, List.cons.injEq, and_true] at h3
  obtain ⟨e1, e2, e3, e4, e5, e6, e7, e8⟩ := h3
  cases a; cases b
  simp only [NodeInfo.mk.injEq]
  exact ⟨e1, e2, decNat_inj e3, e4, decInt_inj e5, decInt_inj e6, decInt_inj e7, e8⟩

/-- `skey` (bytes as integers) is injective, so comparing keys compares the strings -/
theorem skey_inj : ∀ {s t : Str}, skey s = skey t → s = t
  | [], [], _ => rfl
  | [], _ :: _, h => by simp [skey] at h
  | _ :: _, [], h => by simp [skey] at h
  | a :: s, b :: t, h => by
    simp only [skey, List.map_cons, List.cons.injEq] at h
    have h1 : a.toNat = b.toNat := by omega
    have : a = b := UInt8.toNat_inj.mp h1
    rw [this, skey_inj (s := s) (t := t) (by simpa [skey] using h.2)]

theorem ikey_inj {m n : Int} (h : ikey m = ikey n) : m = n := by simpa [ikey] using h

end PV.GraphOrder
