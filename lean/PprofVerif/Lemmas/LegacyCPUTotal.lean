import PprofVerif.Model.LegacyCPU
import PprofVerif.Lemmas.CodecTotal
/-!
Totality of the binary legacy CPU parser model (property C02): no checked index or slice
access of `Model/LegacyCPU.lean` can fail, and the fuel `len(b)` always suffices.
-/
namespace PV
namespace LegacyCPU
open Wire (Bytes bind_ne_panic)
open Codec (pure_ne_panic)

theorem idx_ne_panic {b : Bytes} {i : Nat} (h : i < b.length) (s : String) : idx b i ≠ .panic s := by
  unfold idx
  rw [List.getElem?_eq_getElem h]
  simp

theorem elemAt_ne_panic {α} {l : List α} {i : Nat} (h : i < l.length) (s : String) : elemAt l i ≠ .panic s := by
  unfold elemAt
  rw [List.getElem?_eq_getElem h]
  simp

theorem sliceFrom_ne_panic {α} {l : List α} {n : Nat} (h : n ≤ l.length) (s : String) : sliceFrom l n ≠ .panic s := by
  unfold sliceFrom; simp [h]

theorem sliceTo_ne_panic {α} {l : List α} {n : Nat} (h : n ≤ l.length) (s : String) : sliceTo l n ≠ .panic s := by
  unfold sliceTo; simp [h]

theorem readLE_ne_panic (b : Bytes) : ∀ (n i : Nat), i + n ≤ b.length → ∀ s, readLE b i n ≠ .panic s
  | 0, i, _, s => by simp [readLE]
  | n + 1, i, h, s => by
    rw [readLE]
    exact bind_ne_panic (idx_ne_panic (by omega)) (fun _ =>
      bind_ne_panic (readLE_ne_panic b n (i + 1) (by omega)) (fun _ _ => pure_ne_panic _ _)) s

theorem readBE_ne_panic (b : Bytes) : ∀ (n i acc : Nat), i + n ≤ b.length → ∀ s, readBE b i n acc ≠ .panic s
  | 0, i, acc, _, s => by simp [readBE]
  | n + 1, i, acc, h, s => by
    rw [readBE]
    exact bind_ne_panic (idx_ne_panic (by omega)) (fun _ => readBE_ne_panic b n (i + 1) _ (by omega)) s

theorem readWord_ne_panic (w : Word) (b : Bytes) (h : w.size ≤ b.length) (s : String) : readWord w b ≠ .panic s := by
  unfold readWord
  split
  · exact readLE_ne_panic b _ 0 (by omega) s
  · exact readBE_ne_panic b _ 0 0 (by omega) s

theorem get_ne_panic (w : Word) (sl : Slice) (s : String) : get w sl ≠ .panic s := by
  unfold get
  split
  · simp
  · rename_i b
    split
    · simp
    · rename_i hlen
      exact bind_ne_panic (readWord_ne_panic w b (by omega)) (fun _ =>
        bind_ne_panic (sliceFrom_ne_panic (by omega)) (fun _ _ => pure_ne_panic _ _)) s

theorem Word.size_pos (w : Word) : 0 < w.size := by cases w <;> simp [Word.size]

/-- a successful `get` never grows the slice, and consumes ≥ 1 byte when the result is non-nil. -/
theorem get_len {w : Word} {sl sl' : Slice} {v : Nat} (h : get w sl = .ok (v, sl')) :
    sl'.len ≤ sl.len ∧ (sl'.isSome → sl'.len < sl.len) := by
  unfold get at h
  split at h
  · simp at h; obtain ⟨_, rfl⟩ := h; simp [Slice.len]
  · rename_i b
    split at h
    · simp at h; obtain ⟨_, rfl⟩ := h; simp [Slice.len]
    · rename_i hlen
      cases hv : readWord w b with
      | panic e => rw [hv] at h; simp at h
      | err e => rw [hv] at h; simp at h
      | ok x =>
        rw [hv] at h
        simp only [Outcome.bind_ok] at h
        unfold sliceFrom at h
        have hle : w.size ≤ b.length := by omega
        simp only [hle, if_true, Outcome.bind_ok, pure, Outcome.ok.injEq, Prod.mk.injEq] at h
        obtain ⟨_, rfl⟩ := h
        have := Word.size_pos w
        simp [Slice.len]
        omega

theorem readAddrs_ne_panic (w : Word) : ∀ (n : Nat) (sl : Slice) (s : String), readAddrs w n sl ≠ .panic s
  | 0, sl, s => by simp [readAddrs]
  | n + 1, sl, s => by
    rw [readAddrs]
    refine bind_ne_panic (get_ne_panic w sl) (fun p s => ?_) s
    obtain ⟨a, b⟩ := p
    exact bind_ne_panic (readAddrs_ne_panic w n b) (fun _ _ => pure_ne_panic _ _) s

theorem readAddrs_ok (w : Word) : ∀ (n : Nat) (sl sl' : Slice) (as : List Nat),
    readAddrs w n sl = .ok (as, sl') → as.length = n ∧ sl'.len ≤ sl.len
  | 0, sl, sl', as, h => by
    simp [readAddrs] at h; obtain ⟨rfl, rfl⟩ := h; simp
  | n + 1, sl, sl', as, h => by
    rw [readAddrs] at h
    cases hg : get w sl with
    | panic e => rw [hg] at h; simp at h
    | err e => rw [hg] at h; simp at h
    | ok p =>
      obtain ⟨a, b⟩ := p
      rw [hg] at h
      simp only [Outcome.bind_ok] at h
      cases hr : readAddrs w n b with
      | panic e => rw [hr] at h; simp at h
      | err e => rw [hr] at h; simp at h
      | ok q =>
        obtain ⟨r, b'⟩ := q
        rw [hr] at h
        simp only [Outcome.bind_ok, pure, Outcome.ok.injEq, Prod.mk.injEq] at h
        obtain ⟨rfl, rfl⟩ := h
        have ih := readAddrs_ok w n b b' r hr
        have := (get_len hg).1
        simp; omega

theorem parseCPUSamples_ne_panic (w : Word) (adjust : Bool) (period : Int) :
    ∀ (fuel : Nat) (sl : Slice) (acc : List CPUSample), sl.len ≤ fuel →
      ∀ s, parseCPUSamples w adjust period fuel sl acc ≠ .panic s
  | 0, sl, acc, h, s => by
    rw [parseCPUSamples]
    have : sl.len = 0 := by omega
    simp [this]
  | fuel + 1, sl, acc, h, s => by
    rw [parseCPUSamples]
    split
    · simp
    · rename_i hpos
      simp only
      cases hg1 : get w sl with
      | panic e => exact absurd hg1 (get_ne_panic _ _ _)
      | err e => simp
      | ok q1 =>
        obtain ⟨count, b1⟩ := q1
        simp only [Outcome.bind_ok]
        cases hg2 : get w b1 with
        | panic e => exact absurd hg2 (get_ne_panic _ _ _)
        | err e => simp
        | ok q2 =>
          obtain ⟨nstk, b2⟩ := q2
          simp only [Outcome.bind_ok]
          cases b2 with
          | none => simp [pure]
          | some bb =>
            simp only
            split
            · simp [pure]
            · cases hr : readAddrs w nstk (some bb) with
              | panic e => exact absurd hr (readAddrs_ne_panic _ _ _ _)
              | err e => simp
              | ok q3 =>
                obtain ⟨addrs, b3⟩ := q3
                simp only [Outcome.bind_ok]
                have hra := readAddrs_ok w nstk (some bb) b3 addrs hr
                have hl1 := (get_len hg1).1
                have hl2 := (get_len hg2).2 (by simp)
                have hb3 : b3.len ≤ fuel := by omega
                have hend : ∀ s, (if count = 0 ∧ nstk = 1 then (do
                        let a0 ← elemAt addrs 0
                        pure (a0 == 0))
                      else pure false : Outcome Bool) ≠ .panic s := by
                  intro s
                  split
                  · rename_i hc
                    exact bind_ne_panic (elemAt_ne_panic (by omega)) (fun _ _ => pure_ne_panic _ _) s
                  · exact pure_ne_panic _ _
                refine bind_ne_panic hend (fun isEnd s => ?_) s
                split
                · exact pure_ne_panic _ _
                · exact parseCPUSamples_ne_panic w adjust period fuel b3 _ hb3 s

theorem secondAddrs_ne_panic : ∀ (l : List CPUSample) (s : String), secondAddrs l ≠ .panic s
  | [], s => by simp [secondAddrs]
  | x :: rest, s => by
    rw [secondAddrs]
    refine bind_ne_panic (secondAddrs_ne_panic rest) (fun r s => ?_) s
    split
    · rename_i h
      exact bind_ne_panic (elemAt_ne_panic h) (fun _ _ => pure_ne_panic _ _) s
    · exact pure_ne_panic _ _

theorem dropSecond_ne_panic {l : List Nat} (h : l.length > 1) (s : String) : dropSecond l ≠ .panic s :=
  bind_ne_panic (sliceTo_ne_panic (by omega)) (fun _ =>
    bind_ne_panic (sliceFrom_ne_panic (by omega)) (fun _ _ => pure_ne_panic _ _)) s

theorem stripFrame_ne_panic (id1 : Nat) : ∀ (l : List CPUSample) (s : String), stripFrame id1 l ≠ .panic s
  | [], s => by simp [stripFrame]
  | x :: rest, s => by
    rw [stripFrame]
    refine bind_ne_panic (fun s => ?_) (fun _ =>
      bind_ne_panic (stripFrame_ne_panic id1 rest) (fun _ _ => pure_ne_panic _ _)) s
    split
    · rename_i h
      refine bind_ne_panic (elemAt_ne_panic h) (fun a s => ?_) s
      split
      · exact bind_ne_panic (dropSecond_ne_panic h) (fun _ _ => pure_ne_panic _ _) s
      · exact pure_ne_panic _ _
    · exact pure_ne_panic _ _

theorem removeFrameOnce_ne_panic (l : List CPUSample) (s : String) : removeFrameOnce l ≠ .panic s := by
  unfold removeFrameOnce
  refine bind_ne_panic (secondAddrs_ne_panic l) (fun secs s => ?_) s
  split
  · exact pure_ne_panic _ _
  · exact stripFrame_ne_panic _ _ _

theorem cleanupDup_ne_panic : ∀ (l : List CPUSample) (s : String), cleanupDup l ≠ .panic s
  | [], s => by simp [cleanupDup]
  | x :: rest, s => by
    rw [cleanupDup]
    refine bind_ne_panic (fun s => ?_) (fun _ =>
      bind_ne_panic (cleanupDup_ne_panic rest) (fun _ _ => pure_ne_panic _ _)) s
    split
    · rename_i h
      refine bind_ne_panic (elemAt_ne_panic (by omega)) (fun a0 s => ?_) s
      refine bind_ne_panic (elemAt_ne_panic h) (fun a1 s => ?_) s
      split
      · exact bind_ne_panic (dropSecond_ne_panic h) (fun _ _ => pure_ne_panic _ _) s
      · exact pure_ne_panic _ _
    · exact pure_ne_panic _ _

theorem cpuProfile_ne_panic (w : Word) (b : Slice) (period : Int) (s : String) : cpuProfile w b period ≠ .panic s := by
  unfold cpuProfile
  refine bind_ne_panic (parseCPUSamples_ne_panic w true _ _ b [] (Nat.le_refl _)) (fun r s => ?_) s
  split
  · exact pure_ne_panic _ _
  · refine bind_ne_panic (removeFrameOnce_ne_panic _) (fun _ s => ?_) s
    refine bind_ne_panic (removeFrameOnce_ne_panic _) (fun _ s => ?_) s
    exact bind_ne_panic (cleanupDup_ne_panic _) (fun _ _ => pure_ne_panic _ _) s

theorem javaCPUProfile_ne_panic (w : Word) (b : Slice) (period : Int) (s : String) :
    javaCPUProfile w b period ≠ .panic s := by
  unfold javaCPUProfile
  refine bind_ne_panic (parseCPUSamples_ne_panic w false _ _ b [] (Nat.le_refl _)) (fun r s => ?_) s
  split <;> exact pure_ne_panic _ _

theorem probe_ne_panic (w : Word) (b : Bytes) (s : String) : probe w b ≠ .panic s := by
  unfold probe
  refine bind_ne_panic (get_ne_panic _ _) (fun p s => ?_) s
  obtain ⟨n1, t1⟩ := p
  refine bind_ne_panic (get_ne_panic _ _) (fun p s => ?_) s
  obtain ⟨n2, t2⟩ := p
  refine bind_ne_panic (get_ne_panic _ _) (fun p s => ?_) s
  obtain ⟨n3, t3⟩ := p
  refine bind_ne_panic (get_ne_panic _ _) (fun p s => ?_) s
  obtain ⟨n4, t4⟩ := p
  refine bind_ne_panic (get_ne_panic _ _) (fun p s => ?_) s
  obtain ⟨n5, t5⟩ := p
  simp only
  split
  · exact bind_ne_panic (cpuProfile_ne_panic _ _ _) (fun _ _ => pure_ne_panic _ _) s
  · split
    · exact bind_ne_panic (javaCPUProfile_ne_panic _ _ _) (fun _ _ => pure_ne_panic _ _) s
    · exact pure_ne_panic _ _

theorem probeAll_ne_panic (b : Bytes) : ∀ (ws : List Word) (s : String), probeAll b ws ≠ .panic s
  | [], s => by simp [probeAll]
  | w :: ws, s => by
    rw [probeAll]
    refine bind_ne_panic (probe_ne_panic w b) (fun r s => ?_) s
    split
    · exact pure_ne_panic _ _
    · exact probeAll_ne_panic b ws s

theorem parseCPU_ne_panic (b : Bytes) (s : String) : parseCPU b ≠ .panic s :=
  probeAll_ne_panic b _ s

theorem count_add_count_le {a b : Nat} (hab : a ≠ b) : ∀ (l : List Nat), l.count a + l.count b ≤ l.length
  | [] => by simp
  | x :: l => by
    have ih := count_add_count_le hab l
    simp only [List.count_cons, List.length_cons]
    by_cases h1 : x = a
    · have h2 : ¬ x = b := by intro h; exact hab (h1.symm.trans h)
      simp [h1] at ih ⊢
      have : (if a = b then 1 else 0) = 0 := by simp [hab]
      omega
    · by_cases h2 : x = b
      · simp [h2] at ih ⊢
        have hba : ¬ b = a := fun h => hab h.symm
        simp [hba]
        omega
      · simp [h1, h2]
        omega

theorem secondAddrs_length : ∀ (l : List CPUSample) (r : List Nat), secondAddrs l = .ok r → r.length ≤ l.length
  | [], r, h => by simp [secondAddrs] at h; subst h; simp
  | x :: rest, r, h => by
    rw [secondAddrs] at h
    cases hr : secondAddrs rest with
    | panic e => rw [hr] at h; simp at h
    | err e => rw [hr] at h; simp at h
    | ok r0 =>
      rw [hr] at h
      have ih := secondAddrs_length rest r0 hr
      simp only [Outcome.bind_ok] at h
      split at h
      · cases ha : elemAt x.addrs 1 with
        | panic e => rw [ha] at h; simp at h
        | err e => rw [ha] at h; simp at h
        | ok a => rw [ha] at h; simp [pure] at h; subst h; simp; omega
      · simp [pure] at h; subst h; simp; omega

/-- at most one address can reach the removal threshold `len - len/32`: the order in which Go
ranges over the map `addr1` cannot influence which frame is stripped. -/
theorem frame_candidate_unique (seconds : List Nat) (n : Nat) (hlen : seconds.length ≤ n) (a b : Nat)
    (ha : a ∈ seconds) (hca : seconds.count a ≥ n - n / 32) (hcb : seconds.count b ≥ n - n / 32) : a = b := by
  apply Classical.byContradiction
  intro hab
  have h := count_add_count_le hab seconds
  have hn : n = 0 := by omega
  subst hn
  have : seconds = [] := List.eq_nil_of_length_eq_zero (by omega)
  subst this
  simp at ha

end LegacyCPU
end PV
