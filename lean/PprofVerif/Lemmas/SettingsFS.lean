import PprofVerif.Model.SettingsFS
/-! Crash atomicity of the temp-file + fsync + rename protocol (C19, DESIGN A.5). -/
namespace PV.FS

section assoc
variable {κ α : Type} [DecidableEq κ]

theorem aget_adel (l : List (κ × α)) (k k' : κ) :
    aget (adel l k) k' = if k = k' then none else aget l k' := by
  induction l with
  | nil => simp [adel, aget]
  | cons p r ih =>
    obtain ⟨a, b⟩ := p
    unfold adel at ih ⊢
    by_cases h : a = k
    · subst h
      by_cases h' : a = k' <;> simp_all [List.filter_cons, aget]
    · by_cases h' : k = k'
      · subst h'
        simp_all [List.filter_cons, aget]
      · by_cases h'' : a = k' <;> simp_all [List.filter_cons, aget]

theorem aget_aset (l : List (κ × α)) (k : κ) (v : α) (k' : κ) :
    aget (aset l k v) k' = if k = k' then some v else aget l k' := by
  unfold aset
  by_cases h : k = k'
  · simp [aget, h]
  · simp [aget, h, aget_adel]

end assoc

theorem overwrite_end (c d : Bytes) : overwrite c c.length d = c ++ d := by
  simp [overwrite]

/-- `P` holds in every state of the run, all operations succeed, `Q` holds at the end. -/
def AllStates (P Q : FS → Prop) : FS → List Op → Prop
  | s, [] => P s ∧ Q s
  | s, op :: r => P s ∧ ∃ s', step s op = some s' ∧ AllStates P Q s' r

theorem AllStates.trace {P Q : FS → Prop} : ∀ (ops : List Op) (s : FS), AllStates P Q s ops →
    ∃ sts, trace s ops = some sts ∧ (∀ st ∈ sts, P st) ∧ ∃ sN, run s ops = some sN ∧ Q sN := by
  intro ops
  induction ops with
  | nil =>
    intro s h
    exact ⟨[s], rfl, by simpa using h.1, s, rfl, h.2⟩
  | cons op r ih =>
    intro s h
    obtain ⟨hp, s', hs, hr⟩ := h
    obtain ⟨sts, ht, hall, sN, hrun, hq⟩ := ih s' hr
    refine ⟨s :: sts, by simp [PV.FS.trace, hs, ht], ?_, sN, by simp [run, hs, hrun], hq⟩
    intro st hst
    rcases List.mem_cons.1 hst with h | h
    · subst h; exact hp
    · exact hall st h

/-- the crash images of `f` are all old or new. -/
def Good (f : Str) (old : Option Bytes) (new : Bytes) (s : FS) : Prop :=
  ∀ c, c ∈ crashContents s f → c = old ∨ c = some new

theorem oldOrNew_iff (s : FS) (f : Str) (old : Option Bytes) (new : Bytes) :
    oldOrNew s f old new = true ↔ Good f old new s := by
  simp [oldOrNew, Good, List.all_eq_true]

/-- start state of a save: everything synced, no earlier directory state to fall back to, inode
numbers below `next`. -/
structure Quiet (s : FS) : Prop where
  dirOld : s.dirOld = []
  synced : ∀ i ino, aget s.inodes i = some ino → ino.pending = [] ∧ ino.synced = ino.cur
  fresh : ∀ n i, aget s.dir n = some i → i < s.next

theorem look_quiet (s : FS) (h : Quiet s) (f : Str) : look s s.dir f = [content s f] := by
  unfold look content
  cases hd : aget s.dir f with
  | none => simp
  | some i =>
    cases hi : aget s.inodes i with
    | none => simp [hi]
    | some ino =>
      have := h.synced i ino hi
      simp [hi, Inode.images, this.1, this.2]

/-- `look` only depends on the inode the name resolves to. -/
theorem look_congr (s s' : FS) (d : Dir) (f : Str)
    (h : ∀ i, aget d f = some i → aget s'.inodes i = aget s.inodes i) : look s' d f = look s d f := by
  unfold look
  cases hd : aget d f with
  | none => rfl
  | some i => simp [h i hd]

/-- invariant of the write phase: the temp inode `nx` is reachable only through `tmp`, `fd` points at
its end, everything else is as in the quiescent start state `s0`. -/
structure WPhase (s0 : FS) (fd : Nat) (tmp : Str) (c : Bytes) (s : FS) : Prop where
  dir : s.dir = aset s0.dir tmp s0.next
  dirOld : s.dirOld = [s0.dir]
  others : ∀ i, i ≠ s0.next → aget s.inodes i = aget s0.inodes i
  fdp : aget s.fds fd = some (s0.next, c.length)
  ino : ∃ p, aget s.inodes s0.next = some { synced := [], cur := c, pending := p }

theorem look_old (s0 s : FS) (hq : Quiet s0) (f : Str)
    (ho : ∀ i, i ≠ s0.next → aget s.inodes i = aget s0.inodes i) :
    look s s0.dir f = [content s0 f] := by
  rw [← look_quiet s0 hq f]
  apply look_congr
  intro i hi
  exact ho i (Nat.ne_of_lt (hq.fresh f i hi))

theorem wphase_good (s0 s : FS) (fd : Nat) (tmp f : Str) (c new : Bytes) (hq : Quiet s0)
    (hne : tmp ≠ f) (h : WPhase s0 fd tmp c s) : Good f (content s0 f) new s := by
  intro x hx
  unfold crashContents at hx
  rw [h.dir, h.dirOld] at hx
  simp only [List.flatMap_cons, List.flatMap_nil, List.append_nil, List.mem_append] at hx
  have h1 : look s (aset s0.dir tmp s0.next) f = look s s0.dir f := by
    unfold look
    rw [aget_aset]
    simp [hne]
  rw [h1, look_old s0 s hq f h.others] at hx
  simp at hx
  exact Or.inl hx

theorem step_open_tmp (s0 : FS) (fd : Nat) (tmp : Str) (hq : Quiet s0) (hab : aget s0.dir tmp = none) :
    ∃ s1, step s0 (.open fd tmp true false true) = some s1 ∧ WPhase s0 fd tmp [] s1 := by
  refine ⟨_, by simp [step, hab]; rfl, ?_⟩
  refine ⟨rfl, by simp [hq.dirOld], ?_, by simp [aget_aset], ⟨[], by simp [aget_aset]⟩⟩
  intro i hi
  simp [aget_aset, Ne.symm hi]

theorem step_write (s0 s : FS) (fd : Nat) (tmp : Str) (c d : Bytes) (h : WPhase s0 fd tmp c s) :
    ∃ s', step s (.write fd d) = some s' ∧ WPhase s0 fd tmp (c ++ d) s' := by
  obtain ⟨p, hp⟩ := h.ino
  by_cases hd : d = []
  · subst hd
    refine ⟨s, by simp [step, h.fdp, hp], by simpa using h⟩
  · refine ⟨_, by simp [step, h.fdp, hp, hd]; rfl, ?_⟩
    refine ⟨h.dir, h.dirOld, ?_, by simp [aget_aset, List.length_append], ⟨_, by simp [aget_aset, overwrite_end]; rfl⟩⟩
    intro i hi
    simp [aget_aset, Ne.symm hi, h.others i hi]

/-- the tail of the protocol, from the state in which the whole document is in the temp file. -/
theorem tail_good (s0 s : FS) (fd : Nat) (tmp f : Str) (new : Bytes) (hq : Quiet s0)
    (hne : tmp ≠ f) (h : WPhase s0 fd tmp new s) :
    AllStates (Good f (content s0 f) new) (fun sN => content sN f = some new) s
      [.fsync fd, .close fd, .rename tmp f] := by
  obtain ⟨p, hp⟩ := h.ino
  -- fsync
  refine ⟨wphase_good s0 s fd tmp f new new hq hne h, _, by simp [step, h.fdp, hp]; rfl, ?_⟩
  -- state after fsync
  refine ⟨?_, _, by simp [step, h.fdp]; rfl, ?_⟩
  · -- Good after fsync: same argument, only inode nx changed
    intro x hx
    unfold crashContents at hx
    simp only [h.dir, h.dirOld, List.flatMap_cons, List.flatMap_nil, List.append_nil, List.mem_append] at hx
    have h1 : ∀ st : FS, look st (aset s0.dir tmp s0.next) f = look st s0.dir f := by
      intro st; unfold look; rw [aget_aset]; simp [hne]
    rw [h1, look_old s0 _ hq f (by intro i hi; simp [aget_aset, Ne.symm hi, h.others i hi])] at hx
    simp at hx
    exact Or.inl hx
  -- state after close
  refine ⟨?_, _, by simp [step, h.dir, aget_aset]; rfl, ?_⟩
  · intro x hx
    unfold crashContents at hx
    simp only [h.dir, h.dirOld, List.flatMap_cons, List.flatMap_nil, List.append_nil, List.mem_append] at hx
    have h1 : ∀ st : FS, look st (aset s0.dir tmp s0.next) f = look st s0.dir f := by
      intro st; unfold look; rw [aget_aset]; simp [hne]
    rw [h1, look_old s0 _ hq f (by intro i hi; simp [aget_aset, Ne.symm hi, h.others i hi])] at hx
    simp at hx
    exact Or.inl hx
  -- state after rename
  have hnew : ∀ st : FS, st.inodes = aset s.inodes s0.next { synced := new, cur := new, pending := [] } →
      look st (aset (adel (aset s0.dir tmp s0.next) tmp) f s0.next) f = [some new] := by
    intro st hst
    unfold look
    simp [aget_aset, hst, Inode.images]
  constructor
  · intro x hx
    unfold crashContents at hx
    simp only [h.dir, h.dirOld, List.flatMap_cons, List.flatMap_nil, List.append_nil, List.mem_append] at hx
    have h1 : ∀ st : FS, look st (aset s0.dir tmp s0.next) f = look st s0.dir f := by
      intro st; unfold look; rw [aget_aset]; simp [hne]
    rw [hnew _ rfl, h1, look_old s0 _ hq f (by intro i hi; simp [aget_aset, Ne.symm hi, h.others i hi])] at hx
    simp at hx
    rcases hx with hx | hx
    · exact Or.inr hx
    · exact Or.inl hx
  · simp [content, h.dir, aget_aset]

theorem writes_good (s0 : FS) (fd : Nat) (tmp f : Str) (new : Bytes) (hq : Quiet s0) (hne : tmp ≠ f)
    (Q : FS → Prop) (rest : List Op) :
    ∀ (chunks : List Bytes) (c : Bytes) (s : FS), WPhase s0 fd tmp c s →
      (∀ s', WPhase s0 fd tmp (c ++ chunks.flatten) s' → AllStates (Good f (content s0 f) new) Q s' rest) →
      AllStates (Good f (content s0 f) new) Q s (chunks.map (Op.write fd) ++ rest) := by
  intro chunks
  induction chunks with
  | nil =>
    intro c s h k
    simpa using k s (by simpa using h)
  | cons d r ih =>
    intro c s h k
    obtain ⟨s', hs, hw⟩ := step_write s0 s fd tmp c d h
    refine ⟨wphase_good s0 s fd tmp f c new hq hne h, s', hs, ?_⟩
    apply ih (c ++ d) s' hw
    intro s'' h''
    apply k
    simpa [List.append_assoc] using h''

/-- **Crash atomicity of temp + fsync + rename** in `AllStates` form. -/
theorem atomic_allStates (s0 : FS) (fd : Nat) (tmp f : Str) (chunks : List Bytes) (hq : Quiet s0)
    (hne : tmp ≠ f) (hab : aget s0.dir tmp = none) :
    AllStates (Good f (content s0 f) chunks.flatten) (fun sN => content sN f = some chunks.flatten) s0
      (atomicWriteOps fd tmp f chunks) := by
  obtain ⟨s1, h1, hw⟩ := step_open_tmp s0 fd tmp hq hab
  have hg0 : Good f (content s0 f) chunks.flatten s0 := by
    intro x hx
    unfold crashContents at hx
    simp [hq.dirOld, look_quiet s0 hq f] at hx
    exact Or.inl hx
  refine ⟨hg0, s1, h1, ?_⟩
  apply writes_good s0 fd tmp f chunks.flatten hq hne _ _ chunks [] s1 hw
  intro s' h'
  exact tail_good s0 s' fd tmp f chunks.flatten hq hne (by simpa using h')

/-- error path: after a failed write the temp file is closed and removed; the settings file keeps
its old content at every crash point and at the end. -/
theorem fail_allStates (s0 : FS) (fd : Nat) (tmp f : Str) (done : List Bytes) (new : Bytes) (hq : Quiet s0)
    (hne : tmp ≠ f) (hab : aget s0.dir tmp = none) :
    AllStates (Good f (content s0 f) new) (fun sN => content sN f = content s0 f) s0
      (atomicWriteFailOps fd tmp done) := by
  obtain ⟨s1, h1, hw⟩ := step_open_tmp s0 fd tmp hq hab
  have hg0 : Good f (content s0 f) new s0 := by
    intro x hx
    unfold crashContents at hx
    simp [hq.dirOld, look_quiet s0 hq f] at hx
    exact Or.inl hx
  refine ⟨hg0, s1, h1, ?_⟩
  apply writes_good s0 fd tmp f new hq hne _ _ done [] s1 hw
  intro s h
  have h1 : ∀ st : FS, look st (aset s0.dir tmp s0.next) f = look st s0.dir f := by
    intro st; unfold look; rw [aget_aset]; simp [hne]
  -- close
  refine ⟨wphase_good s0 s fd tmp f _ new hq hne h, _, by simp [step, h.fdp]; rfl, ?_⟩
  refine ⟨?_, _, by simp [step, h.dir, aget_aset]; rfl, ?_⟩
  · intro x hx
    unfold crashContents at hx
    simp only [h.dir, h.dirOld, List.flatMap_cons, List.flatMap_nil, List.append_nil, List.mem_append] at hx
    rw [h1, look_old s0 _ hq f (by intro i hi; simp [h.others i hi])] at hx
    simp at hx
    exact Or.inl hx
  -- unlink
  have hdel : ∀ st : FS, look st (adel (aset s0.dir tmp s0.next) tmp) f = look st s0.dir f := by
    intro st; unfold look; rw [aget_adel, aget_aset]; simp [hne]
  constructor
  · intro x hx
    unfold crashContents at hx
    simp only [h.dir, h.dirOld, List.flatMap_cons, List.flatMap_nil, List.append_nil, List.mem_append] at hx
    rw [hdel, h1, look_old s0 _ hq f (by intro i hi; simp [h.others i hi])] at hx
    simp at hx
    exact Or.inl hx
  · have : look s s0.dir f = [content s0 f] := look_old s0 s hq f h.others
    simp only [content, h.dir, aget_adel, aget_aset, hne, if_false]
    unfold content look at this
    cases hd : aget s0.dir f with
    | none => simp
    | some i =>
      have hi := h.others i (Nat.ne_of_lt (hq.fresh f i hd))
      simp [hi]

/-- soundness of the executable checker the trace refinement uses. -/
theorem firstBad_none (f : Str) (old : Option Bytes) (new : Bytes) :
    ∀ (ops : List Op) (s : FS) (k : Nat), firstBad f old new s ops k = none →
      ∃ sts, trace s ops = some sts ∧ ∀ st ∈ sts, Good f old new st := by
  intro ops
  induction ops with
  | nil =>
    intro s k h
    simp only [firstBad] at h
    by_cases hg : oldOrNew s f old new = true
    · exact ⟨[s], rfl, by simpa using (oldOrNew_iff s f old new).1 hg⟩
    · simp [hg] at h
  | cons op r ih =>
    intro s k h
    simp only [firstBad] at h
    by_cases hg : oldOrNew s f old new = true
    · simp only [hg, Bool.not_true, Bool.false_eq_true, if_false] at h
      cases hs : step s op with
      | none => simp [hs] at h
      | some s' =>
        simp only [hs] at h
        obtain ⟨sts, ht, hall⟩ := ih s' (k + 1) h
        refine ⟨s :: sts, by simp [PV.FS.trace, hs, ht], ?_⟩
        intro st hst
        rcases List.mem_cons.1 hst with h1 | h1
        · subst h1; exact (oldOrNew_iff _ f old new).1 hg
        · exact hall st h1
    · simp [hg] at h

/-- soundness of `accepts`: verdict "atomic" ⇒ every crash image of every prefix is old or new,
every operation succeeds, and the save took effect. -/
theorem accepts_none (f : Str) (old : Option Bytes) (new : Bytes) (s : FS) (ops : List Op)
    (h : accepts f old new false s ops = none) :
    (∃ sts, trace s ops = some sts ∧ ∀ st ∈ sts, Good f old new st) ∧
      ∃ sN, run s ops = some sN ∧ content sN f = some new := by
  unfold accepts at h
  cases hb : firstBad f old new s ops 0 with
  | some b => simp [hb] at h
  | none =>
    simp only [hb] at h
    refine ⟨firstBad_none f old new ops s 0 hb, ?_⟩
    cases hr : run s ops with
    | none => simp [hr] at h
    | some sN =>
      simp only [hr, Bool.false_and, Bool.or_false] at h
      by_cases hc : content sN f = some new
      · exact ⟨sN, rfl, hc⟩
      · simp [hc] at h

/-- `os.WriteFile` truncates first: after the very first system call of the in-place protocol the
file is EMPTY — for a reader, for a process that is killed there, and in the crash images. -/
theorem inplace_truncates (s0 : FS) (hq : Quiet s0) (fd : Nat) (f : Str) (old new : Bytes)
    (ho : content s0 f = some old) (h1 : old ≠ []) (h2 : new ≠ []) (chunks : List Bytes) :
    ∃ s1, run s0 ((inplaceWriteOps fd f chunks).take 1) = some s1 ∧ content s1 f = some [] ∧
      ¬ Good f (some old) new s1 := by
  unfold content at ho
  cases hd : aget s0.dir f with
  | none => simp [hd] at ho
  | some i =>
    cases hi : aget s0.inodes i with
    | none => simp [hd, hi] at ho
    | some ino =>
      simp only [hd, hi, Option.bind_some, Option.map_some, Option.some.injEq] at ho
      have hcur : ino.cur ≠ [] := by rw [ho]; exact h1
      refine ⟨_, by simp [inplaceWriteOps, run, step, hd, hi, hcur]; rfl, ?_, ?_⟩
      · simp [content, hd, aget_aset]
      · intro hg
        have := hg (some []) (by
          unfold crashContents look
          simp [hd, aget_aset, Inode.images, Pending.images])
        rcases this with h | h
        · exact h1 (Option.some.inj h).symm
        · exact h2 (Option.some.inj h).symm

/-! ### kill + restart -/

/-- start-up is the identity on what the file system holds: same content, same crash images. -/
theorem restart_id (s s' : FS) (f : Str) (h : step s .restart = some s') :
    content s' f = content s f ∧ crashContents s' f = crashContents s f := by
  simp only [step, Option.some.injEq] at h
  subst h
  exact ⟨rfl, rfl⟩

theorem trace_take : ∀ (ops : List Op) (s : FS) (sts : List FS), trace s ops = some sts →
    ∀ k, k ≤ ops.length → ∃ sk, run s (ops.take k) = some sk ∧ sk ∈ sts := by
  intro ops
  induction ops with
  | nil =>
    intro s sts h k hk
    simp only [PV.FS.trace, Option.some.injEq] at h
    subst h
    exact ⟨s, by simp [run], by simp⟩
  | cons op r ih =>
    intro s sts h k hk
    simp only [PV.FS.trace] at h
    cases hs : step s op with
    | none => simp [hs] at h
    | some s1 =>
      simp only [hs] at h
      cases ht : PV.FS.trace s1 r with
      | none => simp [ht] at h
      | some sts1 =>
        simp only [ht, Option.map_some, Option.some.injEq] at h
        subst h
        cases k with
        | zero => exact ⟨s, by simp [run], by simp⟩
        | succ k =>
          obtain ⟨sk, hr, hm⟩ := ih s1 sts1 ht k (by simpa using hk)
          exact ⟨sk, by simp [run, hs, hr], by simp [hm]⟩

/-- **kill at ANY point of the atomic protocol, then restart**: the run up to the kill succeeds, the
restart succeeds, and afterwards every crash image of `f` is still the complete old or the
complete new content. -/
theorem atomic_kill_restart (s0 : FS) (fd : Nat) (tmp f : Str) (chunks : List Bytes) (hq : Quiet s0)
    (hne : tmp ≠ f) (hab : aget s0.dir tmp = none) (k : Nat) (hk : k ≤ (atomicWriteOps fd tmp f chunks).length) :
    ∃ sk s', run s0 ((atomicWriteOps fd tmp f chunks).take k) = some sk ∧ step sk .restart = some s' ∧
      content s' f = content sk f ∧ Good f (content s0 f) chunks.flatten s' := by
  obtain ⟨sts, ht, hall, _⟩ := (atomic_allStates s0 fd tmp f chunks hq hne hab).trace _ _
  obtain ⟨sk, hr, hm⟩ := trace_take _ s0 sts ht k hk
  refine ⟨sk, { sk with fds := [] }, hr, rfl, rfl, ?_⟩
  intro c hc
  exact hall sk hm c hc

end PV.FS
