import PprofVerif.Lemmas.LegacyFinish
import PprofVerif.Lemmas.LegacyJavaCpu
import PprofVerif.Model.Legacy
/-!
Helper lemmas for C14: the dispatch of `parseLegacy` / `ParseData` for binary CPU (both flavours)
and heap documents; the text formats tried later in the chain are in `LegacyChain`.
-/
namespace PV.Legacy
open PV

theorem parseLegacy_printCpu (scale : ScaleFn) (cyc : CycFn) (d : CpuDoc) (h : d.wf = true) :
    parseLegacy scale cyc (printCpu d) = .ok (expectedCpu d) := by
  simp [parseLegacy, parseCPU_printCpu d h]

theorem leValue_pos_of_mem {l : Str} {c : UInt8} (hc : c ∈ l) (hne : c ≠ 0) : leValue l ≠ 0 := by
  induction l with
  | nil => cases hc
  | cons b r ih =>
    simp only [leValue]
    rcases List.mem_cons.1 hc with rfl | h
    · have : c.toNat ≠ 0 := by
        intro e; apply hne; exact UInt8.toNat_inj.1 (by simpa using e)
      omega
    · have := ih h; omega

/-- text (first byte non-zero) is not a CPU profile header under any decoder -/
theorem cpuHeaderWords_text (big w64 : Bool) (c : UInt8) (t : Str) (hc : c ≠ 0) : cpuHeaderWords big w64 (c :: t) = none := by
  unfold cpuHeaderWords
  cases h1 : getWord big w64 (c :: t) with
  | none => rfl
  | some x1 =>
    obtain ⟨n1, b1⟩ := x1
    have hn1 : n1 ≠ 0 := by
      unfold getWord at h1
      by_cases hlen : (c :: t).length < (if w64 = true then 8 else 4)
      · exfalso
        simp [hlen] at h1
        simp only [List.length_cons] at hlen
        omega
      · simp only [hlen, if_false, Option.some.injEq, Prod.mk.injEq] at h1
        rw [← h1.1]
        have hk : 0 < (if w64 = true then 8 else 4) := by cases w64 <;> simp
        have hmem : c ∈ List.take (if w64 = true then 8 else 4) (c :: t) := by
          cases hq : (if w64 = true then 8 else 4) with
          | zero => omega
          | succ k => simp
        cases big with
        | false => exact leValue_pos_of_mem hmem hc
        | true => exact leValue_pos_of_mem (by simpa using hmem) hc
    simp only [Option.bind_eq_bind, Option.bind_some]
    cases getWord big w64 b1 with
    | none => rfl
    | some x2 =>
      obtain ⟨n2, b2⟩ := x2
      simp only [Option.bind_some]
      cases getWord big w64 b2 with
      | none => rfl
      | some x3 =>
        obtain ⟨n3, b3⟩ := x3
        simp only [Option.bind_some]
        cases getWord big w64 b3 with
        | none => rfl
        | some x4 =>
          obtain ⟨n4, b4⟩ := x4
          simp only [Option.bind_some]
          cases getWord big w64 b4 with
          | none => rfl
          | some x5 =>
            obtain ⟨n5, b5⟩ := x5
            simp [hn1]

theorem parseCPU_text (c : UInt8) (t : Str) (hc : c ≠ 0) : parseCPU (c :: t) = .err "unrecognized" := by
  simp [parseCPU, parseCPUWith, cpuHeaderWords_text _ _ c t hc]

theorem parseLegacy_printJavaCpu (scale : ScaleFn) (cyc : CycFn) (d : JavaCpuDoc) (h : d.wf = true) :
    parseLegacy scale cyc (printJavaCpu d) = .ok (expectedJavaCpu d) := by
  simp [parseLegacy, parseCPU_printJavaCpu d h]

theorem parseLegacy_printHeap (scale : ScaleFn) (cyc : CycFn) (d : HeapDoc) (h : d.wf = true) :
    parseLegacy scale cyc (printHeap d) = .ok (expectedHeap scale d) := by
  have hcpu : parseCPU (printHeap d) = .err "unrecognized" := by
    have e1 : printHeap d = d.headerLine ++ ([10] ++ unlines (d.recs.flatMap (fun r => printFillers r.fill ++ [r.print d.pad d.width]) ++
        printFillers d.post ++ tailLines d.sentinel d.map)) := by
      simp [printHeap, HeapDoc.lines, unlines, List.append_assoc]
    have e2 : asc "heap profile:" = 104 :: asc "eap profile:" := by decide
    rw [e1, d.headerLine_eq, e2]
    exact parseCPU_text 104 _ (by decide)
  simp [parseLegacy, hcpu, parseHeap_printHeap scale d h]

theorem parseData_of_pb_rejects (pb : Str → Outcome Profile) (scale : ScaleFn) (cyc : CycFn) (b : Str)
    (h : PbRejects (pb b)) : parseData pb scale cyc b = parseLegacy scale cyc b := by
  obtain ⟨e, he, h1, h2⟩ := h
  unfold parseData
  rw [he]
  simp [h1, h2]

end PV.Legacy
