import PprofVerif.Lemmas.PruneLemmas
/-! Helper lemmas for C11: the per-sample loop with the one-line repair (family A gone), and
simplifyFunc on names without parentheses. -/
namespace PV.Prune
open PV PV.PruneSpec
open PV.FilterSpec hiding frameMatches

/-- hypothesis left once the one-line repair is applied: only family B is excluded. -/
def leadOKRepaired (cls : Nat → LocClass) (allm : Nat → Bool) : List Nat → Bool
  | [] => true
  | id :: r =>
    match cls id with
    | .user => true
    | .whole => allm id && leadOKRepaired cls allm r
    | .beneath => true

theorem scanRepaired_flatMap {β} (m : β → Bool) (cls : Nat → LocClass) (allm : Nat → Bool) (G G' : Nat → List β)
    (ids : List Nat) (fu : Bool)
    (hU : ∀ id ∈ ids, cls id = .user → G id ≠ [] ∧ (G id).all (fun x => !m x) = true ∧ G' id = G id)
    (hW : ∀ id ∈ ids, cls id = .whole → (∃ x t, G id = x :: t ∧ m x = true) ∧ G' id = G id)
    (hB : ∀ id ∈ ids, cls id = .beneath →
      ∃ u x t, G id = u ++ x :: t ∧ u ≠ [] ∧ u.all (fun x => !m x) = true ∧ m x = true ∧ G' id = u)
    (hA : ∀ id ∈ ids, allm id = true → (G id).all m = true)
    (hL : fu = true ∨ leadOKRepaired cls allm ids = true) :
    (scanRepaired cls ids fu).flatMap G' = krs m fu (ids.flatMap G) := by
  induction ids generalizing fu with
  | nil => cases fu <;> simp [scanRepaired, krs, keepRootSide]
  | cons id r ih =>
    have ihr := fun fu' hL' => ih fu' (fun x hx => hU x (by simp [hx])) (fun x hx => hW x (by simp [hx]))
      (fun x hx => hB x (by simp [hx])) (fun x hx => hA x (by simp [hx])) hL'
    simp only [List.flatMap_cons]
    cases hc : cls id with
    | user =>
      obtain ⟨hne, hall, hG⟩ := hU id (by simp) hc
      simp only [scanRepaired, hc, List.flatMap_cons, hG]
      rw [ihr true (Or.inl rfl), krs_user m fu (G id) _ hne hall]
    | whole =>
      obtain ⟨⟨x, t, hxt, hx⟩, hG⟩ := hW id (by simp) hc
      cases fu with
      | true =>
        simp only [scanRepaired, hc, ↓reduceIte, List.flatMap_nil]
        rw [hxt, krs_whole_true m x t _ hx]
      | false =>
        rcases hL with hL | hL
        · cases hL
        · simp only [leadOKRepaired, hc, Bool.and_eq_true] at hL
          simp only [scanRepaired, hc, Bool.false_eq_true, ↓reduceIte, List.flatMap_cons, hG]
          rw [ihr false (Or.inr hL.2), krs_whole_false m (G id) _ (hA id (by simp) hL.1)]
    | beneath =>
      obtain ⟨u, x, t, hG, hne, hu, hx, hG'⟩ := hB id (by simp) hc
      simp only [scanRepaired, hc, List.flatMap_cons, List.flatMap_nil, List.append_nil, hG']
      rw [hG, krs_beneath m fu u x t _ hne hu hx]

/-- hypothesis for the repaired loop: scanning from the root, every location whose root-most line
matches and that lies before the first location of another kind matches on all its lines. -/
def PruneHRepaired (p : Profile) (q : Str → Bool) (s : Sample) : Prop :=
  leadOKRepaired (classOf p q) (allMatchId p q) s.locationIDs.reverse = true

theorem pruneRepaired_frames_eq_spec (p : Profile) (wf : Filter.WF p) (drop : Rx) (keep : Option Rx) (s : Sample)
    (hs : s ∈ p.samples) (h : PruneHRepaired p (pruneName drop keep) s) :
    frames (pruneRepaired p drop keep)
        { s with locationIDs := (scanRepaired (classOf p (pruneName drop keep)) s.locationIDs.reverse false).reverse } =
      pruneFrames (frameMatches p (pruneName drop keep)) (frames p s) := by
  have hres := wf.sampleLocs s hs
  unfold frames pruneFrames
  simp only
  rw [← List.reverse_inj, List.reverse_reverse, reverse_flatMap_reverse, flatMap_reverse']
  have key := scanRepaired_flatMap (frameMatches p (pruneName drop keep)) (classOf p (pruneName drop keep))
    (allMatchId p (pruneName drop keep)) (G p) (G (pruneRepaired p drop keep))
    s.locationIDs.reverse false
    (by
      intro id hid hc
      obtain ⟨l, hf⟩ := hres id (List.mem_reverse.mp hid)
      exact G_user p _ _ rfl id l hf hc)
    (by
      intro id hid hc
      obtain ⟨l, hf⟩ := hres id (List.mem_reverse.mp hid)
      exact G_whole p _ _ rfl id l hf hc)
    (by
      intro id hid hc
      obtain ⟨l, hf⟩ := hres id (List.mem_reverse.mp hid)
      exact G_beneath p _ _ rfl id l hf hc)
    (fun id _ ha => G_allm p _ id ha)
    (Or.inr h)
  simp only [krs, Bool.false_eq_true, ↓reduceIte] at key
  exact key

/-! ### simplifyFunc on names without parentheses -/
theorem hasPrefix_head {pat s : Str} {b : UInt8} (hp : pat.head? = some b) (h : hasPrefix pat s = true) :
    s.head? = some b := by
  cases pat with
  | nil => cases hp
  | cons a as =>
    cases s with
    | nil => simp [hasPrefix] at h
    | cons c cs =>
      simp only [hasPrefix, Bool.and_eq_true, beq_iff_eq] at h
      simp only [List.head?_cons, Option.some.injEq] at hp ⊢
      rw [← hp, h.1]

theorem hasPrefix_mem {pat s : Str} (h : hasPrefix pat s = true) : ∀ x ∈ pat, x ∈ s := by
  induction pat generalizing s with
  | nil => intro x hx; cases hx
  | cons a as ih =>
    cases s with
    | nil => simp [hasPrefix] at h
    | cons c cs =>
      simp only [hasPrefix, Bool.and_eq_true, beq_iff_eq] at h
      intro x hx
      rcases List.mem_cons.mp hx with rfl | hx
      · simp [h.1]
      · exact List.mem_cons_of_mem _ (ih h.2 x hx)

theorem cutAtParen_noParen (k : Nat) (s : Str) (h : (40 : UInt8) ∉ s) : cutAtParen k s = s := by
  induction s generalizing k with
  | nil => cases k <;> rfl
  | cons b r ih =>
    have hr : (40 : UInt8) ∉ r := fun hx => h (List.mem_cons_of_mem _ hx)
    have hb : b ≠ 40 := fun hx => h (by simp [hx])
    cases k with
    | succ k => simp [cutAtParen, ih k hr]
    | zero =>
      unfold cutAtParen
      have h1 : hasPrefix anonNs (b :: r) = false := by
        cases hx : hasPrefix anonNs (b :: r) with
        | false => rfl
        | true => exact absurd (hasPrefix_mem hx 40 (by decide)) h
      have h2 : hasPrefix operatorCall (b :: r) = false := by
        cases hx : hasPrefix operatorCall (b :: r) with
        | false => rfl
        | true => exact absurd (hasPrefix_mem hx 40 (by decide)) h
      simp [h1, h2, hb, ih 0 hr]

end PV.Prune
