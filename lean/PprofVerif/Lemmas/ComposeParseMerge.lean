import PprofVerif.Lemmas.ComposeParse
import PprofVerif.Lemmas.MergeTop
/-!
# Composition C02 ← C03: a parser output meets the typing hypothesis of the merge theorems

C03's `Typed` (sample values and numeric label values are int64) is a part of C01's `InRange`,
which every parser output satisfies (`parseUncompressed_inRange`).  A parser output also always
carries a `PeriodType` (`postDecode` builds the empty value type for a nil pointer).
-/
namespace PV
namespace Codec
open Wire

theorem typed_of_inRange {p : Profile} (hr : InRange p) : Merge.Typed p :=
  fun s hs => ⟨(hr.samples s hs).2.1, (hr.samples s hs).2.2⟩

theorem parseUncompressed_typed (b : Bytes) (p : Profile) (h : parseUncompressed b = .ok p) : Merge.Typed p :=
  typed_of_inRange (parseUncompressed_inRange b p h)

theorem postDecode_periodType_isSome (x : ProfileX) (p : Profile) (h : postDecode x = .ok p) :
    p.periodType.isSome = true := by
  unfold postDecode at h
  obtain ⟨ms, _, h⟩ := Outcome.bind_eq_ok.mp h
  obtain ⟨fs, _, h⟩ := Outcome.bind_eq_ok.mp h
  obtain ⟨sts, _, h⟩ := Outcome.bind_eq_ok.mp h
  obtain ⟨ss, _, h⟩ := Outcome.bind_eq_ok.mp h
  obtain ⟨df, _, h⟩ := Outcome.bind_eq_ok.mp h
  obtain ⟨kf, _, h⟩ := Outcome.bind_eq_ok.mp h
  obtain ⟨pt, _, h⟩ := Outcome.bind_eq_ok.mp h
  obtain ⟨cs, _, h⟩ := Outcome.bind_eq_ok.mp h
  obtain ⟨dst, _, h⟩ := Outcome.bind_eq_ok.mp h
  obtain ⟨doc, _, h⟩ := Outcome.bind_eq_ok.mp h
  simp only [pure, Outcome.ok.injEq] at h
  subst h
  rfl

theorem parseUncompressed_periodType_isSome (b : Bytes) (p : Profile) (h : parseUncompressed b = .ok p) :
    p.periodType.isSome = true := by
  unfold parseUncompressed at h
  split at h
  · simp at h
  · obtain ⟨x, _, h⟩ := Outcome.bind_eq_ok.mp h
    exact postDecode_periodType_isSome x p h

end Codec
end PV

namespace PV
namespace Merge
open PV.Spec

/-- = `PV.Props.C03.compact_conserves`, derived from the same lemmas (`merge_spec`,
`srcOK_of_valid`, `sumV_singleton`, `weightR_VecOK`) so that other properties' Props files need not
import Props/C03.lean -/
theorem compact_spec (p : Profile) (hv : p.Valid) (ht : Typed p) :
    ∃ c, compact p = .ok c ∧ c.Valid ∧ Typed c ∧ ∀ k, weight c k = weight p k := by
  have hin : Inputs p [] := ⟨by intro q hq; simp at hq; subst hq; exact hv,
    by intro q hq; simp at hq; subst hq; exact ht, compatibleB_self_single p⟩
  obtain ⟨c, hc, hval, htyp, _, _, hw, _⟩ := merge_spec p [] hin
  refine ⟨c, hc, hval, htyp, fun k => ?_⟩
  rw [hw k]
  obtain ⟨src, _, hok⟩ := srcOK_of_valid hv ht
  show sumV _ [weight p k] = weight p k
  apply sumV_singleton
  simp only [weight, hok.res]
  exact weightR_VecOK hok.ok k

/-- every accepted input is valid and well typed: the per-profile hypotheses of `merge_spec` -/
theorem parsed_valid_typed (b : Wire.Bytes) (p : Profile) (h : Parse.parseData b = .ok p) : p.Valid ∧ Typed p := by
  obtain ⟨hp, hv⟩ := (Parse.parseData_ok_iff b p).mp h
  exact ⟨hv, Codec.parseUncompressed_typed b p hp⟩

end Merge
end PV
