import PprofVerif.Lemmas.ComposeMsgRange
import PprofVerif.Model.Parse
/-!
# Composition C02 ← C01: a parser output satisfies the range side condition of the round trip

`postDecode` keeps every integer of a `Ranged` wire message in its Go type, so every profile
returned by `ParseUncompressed` is `InRange` (hypothesis `hr` of C01's `parse_serialize` /
`copy_eq_normalize`).
-/
namespace PV
namespace Codec
open Wire

theorem mem_alSet {β} {m : List (Str × β)} {k : Str} {v : β} {e : Str × β} (h : e ∈ alSet m k v) :
    e ∈ m ∨ e = (k, v) := by
  unfold alSet at h
  split at h
  · obtain ⟨e0, he0, heq⟩ := List.mem_map.mp h
    split at heq
    · exact Or.inr heq.symm
    · subst heq; exact Or.inl he0
  · rcases List.mem_append.mp h with h | h
    · exact Or.inl h
    · simp only [List.mem_singleton] at h; exact Or.inr h

theorem getD_lookup_mem {β} {m : List (Str × List β)} {k : Str} {v : β}
    (h : v ∈ (m.lookup k).getD []) : ∃ e ∈ m, v ∈ e.2 := by
  cases hl : m.lookup k with
  | none => rw [hl] at h; simp at h
  | some vs => rw [hl] at h; exact ⟨(k, vs), lookup_mem hl, h⟩

theorem foldlM_inv_mem {α β} (f : β → α → Outcome β) (P : β → Prop) :
    ∀ (l : List α), (∀ b a b', a ∈ l → f b a = .ok b' → P b → P b') →
    ∀ (b r : β), l.foldlM f b = .ok r → P b → P r
  | [], _, b, r, h, hb => by simp [pure] at h; subst h; exact hb
  | a :: l, hstep, b, r, h, hb => by
    rw [List.foldlM_cons] at h
    obtain ⟨b', hb', h⟩ := Outcome.bind_eq_ok.mp h
    exact foldlM_inv_mem f P l (fun b a b' ha => hstep b a b' (List.mem_cons_of_mem _ ha)) b' r h
      (hstep b a b' (by simp) hb' hb)

def NumsInI64 (acc : LabelAcc) : Prop := ∀ e ∈ acc.numLabels, ∀ v ∈ e.2, InI64 v

theorem postLabel_nums (tab : List Str) (acc : LabelAcc) (l : LabelX) (acc' : LabelAcc) (hl : l.Ranged)
    (h : postLabel tab acc l = .ok acc') (hi : NumsInI64 acc) : NumsInI64 acc' := by
  unfold postLabel at h
  obtain ⟨key, _, h⟩ := Outcome.bind_eq_ok.mp h
  split at h
  · obtain ⟨value, _, h⟩ := Outcome.bind_eq_ok.mp h
    simp [pure] at h; subst h
    exact hi
  · split at h
    · obtain ⟨acc1, h1, h⟩ := Outcome.bind_eq_ok.mp h
      simp [pure] at h; subst h
      have hnl : acc1.numLabels = acc.numLabels := by
        split at h1
        · obtain ⟨unit, _, h1⟩ := Outcome.bind_eq_ok.mp h1
          simp [pure] at h1; subst h1; rfl
        · simp [pure] at h1; subst h1; rfl
      intro e he v hv
      simp only at he
      rcases mem_alSet he with he | he
      · rw [hnl] at he; exact hi e he v hv
      · subst he
        simp only at hv
        rcases List.mem_append.mp hv with hv | hv
        · obtain ⟨e', he', hv'⟩ := getD_lookup_mem hv
          exact hi e' he' v hv'
        · simp only [List.mem_singleton] at hv; subst hv; exact hl
    · simp [pure] at h; subst h; exact hi

theorem postSample_range (tab : List Str) (x : SampleX) (r : Sample) (hx : x.Ranged)
    (h : postSample tab x = .ok r) :
    r.locationIDs = x.locationIDX ∧ (∀ v ∈ r.values, InI64 v) ∧ ∀ e ∈ r.numLabel, ∀ v ∈ e.2, InI64 v := by
  unfold postSample at h
  obtain ⟨acc, hacc, h⟩ := Outcome.bind_eq_ok.mp h
  have hi : NumsInI64 acc := foldlM_inv_mem _ NumsInI64 _
    (fun b a b' ha hb hp => postLabel_nums tab b a b' (hx.2.2 a ha) hb hp) _ _ hacc (by intro e he; cases he)
  simp only [pure, Outcome.ok.injEq] at h
  subst h
  refine ⟨rfl, hx.2.1, ?_⟩
  intro e he
  exact hi e ((mem_sortKeys _ _).mp he)

theorem postMapping_fields {tab : List Str} {m : MappingX} {r : Mapping} (h : postMapping tab m = .ok r) :
    r.id = m.id ∧ r.start = m.start ∧ r.limit = m.limit ∧ r.offset = m.offset := by
  unfold postMapping at h
  obtain ⟨f, _, h⟩ := Outcome.bind_eq_ok.mp h
  obtain ⟨b, _, h⟩ := Outcome.bind_eq_ok.mp h
  simp only [pure, Outcome.ok.injEq] at h; subst h
  exact ⟨rfl, rfl, rfl, rfl⟩

theorem postFunction_fields {tab : List Str} {m : FunctionX} {r : Function} (h : postFunction tab m = .ok r) :
    r.id = m.id ∧ r.startLine = m.startLine := by
  unfold postFunction at h
  obtain ⟨f, _, h⟩ := Outcome.bind_eq_ok.mp h
  obtain ⟨b, _, h⟩ := Outcome.bind_eq_ok.mp h
  obtain ⟨c, _, h⟩ := Outcome.bind_eq_ok.mp h
  simp only [pure, Outcome.ok.injEq] at h; subst h
  exact ⟨rfl, rfl⟩

/-- `postDecode` keeps every integer in its Go type: a decoded profile is `InRange`. -/
theorem postDecode_inRange (x : ProfileX) (p : Profile) (hx : x.Ranged) (h : postDecode x = .ok p) : InRange p := by
  unfold postDecode at h
  obtain ⟨ms, hms, h⟩ := Outcome.bind_eq_ok.mp h
  obtain ⟨fs, hfs, h⟩ := Outcome.bind_eq_ok.mp h
  obtain ⟨sts, _, h⟩ := Outcome.bind_eq_ok.mp h
  obtain ⟨ss, hss, h⟩ := Outcome.bind_eq_ok.mp h
  obtain ⟨df, _, h⟩ := Outcome.bind_eq_ok.mp h
  obtain ⟨kf, _, h⟩ := Outcome.bind_eq_ok.mp h
  obtain ⟨pt, _, h⟩ := Outcome.bind_eq_ok.mp h
  obtain ⟨cs, _, h⟩ := Outcome.bind_eq_ok.mp h
  obtain ⟨dst, _, h⟩ := Outcome.bind_eq_ok.mp h
  obtain ⟨doc, _, h⟩ := Outcome.bind_eq_ok.mp h
  simp only [pure, Outcome.ok.injEq] at h
  subst h
  refine ⟨hx.timeNanos, hx.durationNanos, hx.period, ?_, ?_, ?_, ?_⟩
  · intro s hs
    simp only at hs
    obtain ⟨s0, hs0, rfl⟩ := List.mem_map.mp hs
    obtain ⟨a, ha, hpa⟩ := mapM_ok_mem _ _ _ hss s0 hs0
    obtain ⟨h1, h2, h3⟩ := postSample_range _ a s0 (hx.samples a ha) hpa
    refine ⟨?_, h2, h3⟩
    intro id hid
    simp only at hid
    obtain ⟨id0, hid0, rfl⟩ := List.mem_map.mp hid
    split
    · rw [h1] at hid0; exact (hx.samples a ha).1 id0 hid0
    · exact zero_lt_two64
  · intro m hm
    obtain ⟨a, ha, hpa⟩ := mapM_ok_mem _ _ _ hms m hm
    obtain ⟨e1, e2, e3, e4⟩ := postMapping_fields hpa
    obtain ⟨r1, r2, r3, r4⟩ := hx.mappings a ha
    exact ⟨e1 ▸ r1, e2 ▸ r2, e3 ▸ r3, e4 ▸ r4⟩
  · intro l hl
    simp only at hl
    obtain ⟨a, ha, rfl⟩ := List.mem_map.mp hl
    obtain ⟨r1, r2, r3, r4⟩ := hx.locations a ha
    refine ⟨r1, ?_, r3, ?_⟩
    · simp only; split
      · exact r2
      · exact zero_lt_two64
    · intro ln hln
      simp only at hln
      obtain ⟨b, hb, rfl⟩ := List.mem_map.mp hln
      obtain ⟨q1, q2, q3⟩ := r4 b hb
      refine ⟨?_, q2, q3⟩
      simp only; split
      · exact q1
      · exact zero_lt_two64
  · intro f hf
    obtain ⟨a, ha, hpa⟩ := mapM_ok_mem _ _ _ hfs f hf
    obtain ⟨e1, e2⟩ := postFunction_fields hpa
    obtain ⟨r1, r2⟩ := hx.functions a ha
    exact ⟨e1 ▸ r1, e2 ▸ r2⟩

/-- **Every profile `ParseUncompressed` returns has all its integers in their Go types**
(ids/addresses uint64, values/lines int64): the range side condition of C01's round trip is
free for parser outputs. -/
theorem parseUncompressed_inRange (b : Bytes) (p : Profile) (h : parseUncompressed b = .ok p) : InRange p := by
  unfold parseUncompressed at h
  split at h
  · simp at h
  · obtain ⟨x, hx, h⟩ := Outcome.bind_eq_ok.mp h
    exact postDecode_inRange x p (unmarshal_ranged b x hx) h

end Codec
end PV

/-! ### `ParseData` (protobuf path) and a sample input, for the properties that compose with C02 -/
namespace PV
namespace Parse
open Wire (Bytes)

/-- `parseData b = ok p` unfolds to: `ParseUncompressed` returned `p` and `p` passed the gate. -/
theorem parseData_ok_iff (b : Bytes) (p : Profile) :
    parseData b = .ok p ↔ Codec.parseUncompressed b = .ok p ∧ p.Valid := by
  unfold parseData Profile.Valid
  cases h : Codec.parseUncompressed b with
  | panic s => simp
  | err e => simp
  | ok q =>
    by_cases hv : q.validB = true
    · simp only [hv, if_true, Outcome.ok.injEq]
      constructor
      · rintro rfl; exact ⟨rfl, hv⟩
      · rintro ⟨rfl, _⟩; rfl
    · simp only [hv, Outcome.ok.injEq]
      constructor
      · intro h'; cases h'
      · rintro ⟨rfl, h2⟩; exact absurd h2 hv

/-- what an accepted input gives: everything C01's round trip asks of a profile except the size
side condition -/
theorem parseData_ok_contract (b : Bytes) (p : Profile) (h : parseData b = .ok p) :
    p.Valid ∧ p.unitsAligned = true ∧ p.mapsSorted = true ∧ Codec.InRange p := by
  obtain ⟨hp, hv⟩ := (parseData_ok_iff b p).mp h
  exact ⟨hv, (Codec.parseUncompressed_ok b p hp).1, (Codec.parseUncompressed_ok b p hp).2,
    Codec.parseUncompressed_inRange b p hp⟩

/-- a byte string the parser accepts (one sample type, one sample with a value and a numeric label
carrying a unit, string table ["", "a", "b"]) — the `exampleBytes` of Props/C02.lean -/
def sampleBytes : Bytes :=
  [0x0a, 0x04, 0x08, 0x01, 0x10, 0x02,
   0x12, 0x0a, 0x10, 0x05, 0x1a, 0x06, 0x08, 0x01, 0x18, 0x07, 0x20, 0x02,
   0x32, 0x00, 0x32, 0x01, 0x61, 0x32, 0x01, 0x62]

/-- what `ParseData` returns for it -/
def sampleParsed : Profile :=
  { sampleType := [⟨[97], [98]⟩], defaultSampleType := [],
    samples := [⟨[], [5], [], [([97], [7])], [([97], [[98]])]⟩],
    mappings := [], locations := [], functions := [], comments := [], docURL := [], dropFrames := [],
    keepFrames := [], timeNanos := 0, durationNanos := 0, periodType := some ⟨[], []⟩, period := 0 }

theorem parseData_sampleBytes : parseData sampleBytes = .ok sampleParsed := by decide

/-- the re-encoding of the sample result meets C01's size side condition -/
theorem sampleParsed_encSizes : ∀ x, Codec.preEncode sampleParsed = .ok x → Codec.EncSizes x := by
  intro x hx
  have hx' : x = (match Codec.preEncode sampleParsed with | .ok y => y | _ => default) := by rw [hx]
  subst hx'
  exact Codec.EncSizes_of_counts (by decide) (by decide) (by decide) (by decide) (by decide)

end Parse
end PV
