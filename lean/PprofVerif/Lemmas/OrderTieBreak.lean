import PprofVerif.Lemmas.GraphOrder
/-!
# C08 — lemmas for the repaired tie-breaks

* `thenByIndex`: a strict weak order followed by a tie-break on an index (ComposeDot after
  fixes/C08-calltree-deterministic.patch: edge comparator, then (source node id, destination node id))
  is a strict weak order that separates any two elements with different indices.
* `determines_info_of_fields`: a comparator that compares all eight fields of NodeInfo untransformed
  (compareNodes after fixes/C08-comparenodes-fieldwise-tiebreak.patch) determines the NodeInfo.
-/
namespace PV.Order

/-- `lt`, and where `lt` cannot separate, the smaller index first -/
def thenByIndex {α : Type} (lt : α → α → Bool) (idx : α → Nat) (a b : α) : Bool :=
  lt a b || (!lt b a && decide (idx a < idx b))

theorem thenByIndex_strictWeak {α : Type} {lt : α → α → Bool} (h : StrictWeak lt) (idx : α → Nat) :
    StrictWeak (thenByIndex lt idx) := by
  -- lt a b ∧ ¬ lt c b → lt a c   and   ¬ lt b a ∧ lt b c → lt a c
  have left : ∀ a b c, lt a b = true → lt c b = false → lt a c = true := by
    intro a b c hab hcb
    cases hac : lt a c with
    | true => rfl
    | false => have := h.negTrans b c a hcb hac; rw [hab] at this; exact absurd this (by simp)
  have right : ∀ a b c, lt b a = false → lt b c = true → lt a c = true := by
    intro a b c hba hbc
    cases hac : lt a c with
    | true => rfl
    | false => have := h.negTrans c a b hac hba; rw [hbc] at this; exact absurd this (by simp)
  refine ⟨?_, ?_, ?_⟩
  · intro a; simp [thenByIndex, h.irrefl]
  · intro a b c hab hbc
    simp only [thenByIndex, Bool.or_eq_true, Bool.and_eq_true, Bool.not_eq_true', decide_eq_true_eq] at hab hbc ⊢
    rcases hab with hab | ⟨hba, hi⟩
    · rcases hbc with hbc | ⟨hcb, _⟩
      · exact Or.inl (h.trans a b c hab hbc)
      · exact Or.inl (left a b c hab hcb)
    · rcases hbc with hbc | ⟨hcb, hj⟩
      · exact Or.inl (right a b c hba hbc)
      · by_cases hac : lt a c = true
        · exact Or.inl hac
        · refine Or.inr ⟨h.negTrans a b c hba hcb, by omega⟩
  · intro a b c hba hcb
    simp only [thenByIndex, Bool.or_eq_false_iff, Bool.and_eq_false_iff, Bool.not_eq_false', decide_eq_false_iff_not] at hba hcb ⊢
    obtain ⟨hba1, hba2⟩ := hba
    obtain ⟨hcb1, hcb2⟩ := hcb
    refine ⟨h.negTrans a b c hba1 hcb1, ?_⟩
    -- either a < c, or idx c ≥ idx a
    by_cases hac : lt a c = true
    · exact Or.inl hac
    · right
      have hab : lt a b = false := by
        cases hab : lt a b with
        | false => rfl
        | true => exact absurd (left a b c hab hcb1) hac
      have hbc : lt b c = false := by
        cases hbc : lt b c with
        | false => rfl
        | true => exact absurd (right a b c hba1 hbc) hac
      have h1 : ¬ idx b < idx a := by rcases hba2 with h' | h'; · rw [hab] at h'; exact absurd h' (by simp)
                                      · exact h'
      have h2 : ¬ idx c < idx b := by rcases hcb2 with h' | h'; · rw [hbc] at h'; exact absurd h' (by simp)
                                      · exact h'
      omega

/-- elements the combined order cannot separate have the same index -/
theorem thenByIndex_separates {α : Type} (lt : α → α → Bool) (idx : α → Nat) (a b : α)
    (h1 : thenByIndex lt idx a b = false) (h2 : thenByIndex lt idx b a = false) : idx a = idx b := by
  simp only [thenByIndex, Bool.or_eq_false_iff, Bool.and_eq_false_iff, Bool.not_eq_false', decide_eq_false_iff_not] at h1 h2
  obtain ⟨hab, h1'⟩ := h1
  obtain ⟨hba, h2'⟩ := h2
  have : ¬ idx a < idx b := by rcases h1' with h | h; · rw [hba] at h; exact absurd h (by simp)
                               · exact h
  have : ¬ idx b < idx a := by rcases h2' with h | h; · rw [hab] at h; exact absurd h (by simp)
                               · exact h
  omega

end PV.Order

namespace PV.GraphOrder
open PV.Order

/-- the eight field projections of NodeInfo -/
def infoFieldProjs : List NodeProj :=
  [.Info_Name, .Info_OrigName, .Info_Address, .Info_File, .Info_StartLine, .Info_Lineno, .Info_Columnno, .Info_Objfile]

/-- all eight fields are compared untransformed -/
def comparesAllInfoFields {π : Type} [DecidableEq π] (lift : NodeProj → π) (ks : List (KD π)) : Bool :=
  infoFieldProjs.all (fun p => hasIdKey (lift p) ks)

theorem natKey_inj {m n : Nat} (h : ikey (m : Int) = ikey (n : Int)) : m = n := by
  have := ikey_inj h; omega

/-- A comparator on `α` whose keys read a node `nd a` through `lift`ed NodeProj projections and
compare all eight fields untransformed determines that node's NodeInfo. -/
theorem determines_info_of_fields {π α : Type} [DecidableEq π] (get : π → α → Key) (lift : NodeProj → π)
    (nd : α → Node) (hget : ∀ p a, p ∈ infoFieldProjs → get (lift p) a = NodeProj.getBase p (nd a))
    (ks : List (KD π)) (h : comparesAllInfoFields lift ks = true) :
    KeysDetermineIdentity (ks.map (KD.toDesc get)) (fun a => (nd a).info) := by
  intro a b hall
  have key : ∀ p ∈ infoFieldProjs, NodeProj.getBase p (nd a) = NodeProj.getBase p (nd b) := by
    intro p hp
    have hk : hasIdKey (lift p) ks = true := List.all_eq_true.mp h p hp
    have := determines_of_hasIdKey get ks (lift p) (fun x => get (lift p) x) hk (fun _ _ e => e) a b hall
    rw [← hget p a hp, ← hget p b hp]; exact this
  have e1 := key .Info_Name (by simp [infoFieldProjs])
  have e2 := key .Info_OrigName (by simp [infoFieldProjs])
  have e3 := key .Info_Address (by simp [infoFieldProjs])
  have e4 := key .Info_File (by simp [infoFieldProjs])
  have e5 := key .Info_StartLine (by simp [infoFieldProjs])
  have e6 := key .Info_Lineno (by simp [infoFieldProjs])
  have e7 := key .Info_Columnno (by simp [infoFieldProjs])
  have e8 := key .Info_Objfile (by simp [infoFieldProjs])
  simp only [NodeProj.getBase] at e1 e2 e3 e4 e5 e6 e7 e8
  show (nd a).info = (nd b).info
  cases ha : (nd a).info; cases hb : (nd b).info
  simp only [ha, hb] at e1 e2 e3 e4 e5 e6 e7 e8
  simp only [NodeInfo.mk.injEq]
  exact ⟨skey_inj e1, skey_inj e2, natKey_inj e3, skey_inj e4, ikey_inj e5, ikey_inj e6, ikey_inj e7, skey_inj e8⟩

end PV.GraphOrder
