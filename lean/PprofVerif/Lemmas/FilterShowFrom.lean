import PprofVerif.Lemmas.FilterName
/-! Helper lemmas for C06: ShowFrom.  Main result: showFrom_views_eq_spec (under ShowFromWhole). -/
namespace PV.Filter
open PV PV.FilterSpec

theorem keepThroughLast_append {α} (q : α → Bool) (x y : List α) :
    keepThroughLast q (x ++ y) =
      match keepThroughLast q y with
      | some y' => some (x ++ y')
      | none => keepThroughLast q x := by
  induction x with
  | nil => simp only [List.nil_append]; cases h : keepThroughLast q y <;> simp [keepThroughLast]
  | cons a r ih =>
    simp only [List.cons_append, keepThroughLast, ih]
    cases keepThroughLast q y <;> rfl

theorem keepThroughLast_none {α} (q : α → Bool) (l : List α) (h : l.any q = false) :
    keepThroughLast q l = none := by
  induction l with
  | nil => rfl
  | cons a r ih =>
    simp only [List.any_cons, Bool.or_eq_false_iff] at h
    simp [keepThroughLast, ih h.2, h.1]

theorem keepThroughLast_isSome {α} (q : α → Bool) (l : List α) (h : l.any q = true) :
    ∃ l', keepThroughLast q l = some l' := by
  induction l with
  | nil => simp at h
  | cons a r ih =>
    simp only [List.any_cons, Bool.or_eq_true] at h
    unfold keepThroughLast
    cases hk : keepThroughLast q r with
    | some r' => exact ⟨_, rfl⟩
    | none =>
      rcases h with h | h
      · exact ⟨[a], by simp [h]⟩
      · obtain ⟨l', hl'⟩ := ih h; rw [hk] at hl'; cases hl'

theorem keepThroughLast_self {α} (q : α → Bool) (l : List α) (a : α) (h : l.getLast? = some a) (hq : q a = true) :
    keepThroughLast q l = some l := by
  induction l with
  | nil => simp at h
  | cons b r ih =>
    unfold keepThroughLast
    cases r with
    | nil =>
      simp only [List.getLast?_singleton, Option.some.injEq] at h
      subst h
      simp [keepThroughLast, hq]
    | cons c r' =>
      have : (c :: r').getLast? = some a := by simpa [List.getLast?_cons_cons] using h
      rw [ih this]

theorem keepThroughLast_flatMap {α β} (q : β → Bool) (Q : α → Bool) (F : α → List β) (ids : List α)
    (h1 : ∀ id ∈ ids, Q id = (F id).any q)
    (h2 : ∀ id ∈ ids, Q id = true → keepThroughLast q (F id) = some (F id)) :
    keepThroughLast q (ids.flatMap F) = (keepThroughLast Q ids).map (fun ids' => ids'.flatMap F) := by
  induction ids with
  | nil => rfl
  | cons a r ih =>
    have ih' := ih (fun id hid => h1 id (by simp [hid])) (fun id hid => h2 id (by simp [hid]))
    simp only [List.flatMap_cons, keepThroughLast_append, ih']
    have hstep : keepThroughLast Q (a :: r) =
        (match keepThroughLast Q r with
         | some r' => some (a :: r')
         | none => if Q a = true then some [a] else none) := rfl
    rw [hstep]
    cases hk : keepThroughLast Q r with
    | some r' => simp
    | none =>
      simp only [Option.map_none]
      cases hq : Q a with
      | true => simp [h2 a (by simp) hq]
      | false =>
        have := h1 a (by simp)
        rw [hq] at this
        simp [keepThroughLast_none q (F a) this.symm]

/-- hypothesis of `showFrom_spec_partial` for one location: show_from does not cut into it. -/
def ShowFromWhole (p : Profile) (re : Rx) (l : Location) : Prop :=
  mappingMatches p re l = true ∨ l.lines.any (lineMatches p re) = false ∨
    ∃ ln, l.lines.getLast? = some ln ∧ lineMatches p re ln = true

theorem showFromLoc_matched (p : Profile) (re : Rx) (l : Location) :
    (showFromLoc p re l).2 = matchesName p re l := by
  unfold showFromLoc matchesName
  cases mm : mappingMatches p re l with
  | true => simp
  | false =>
    simp only [Bool.false_eq_true, ↓reduceIte, Bool.or_false]
    cases ha : l.lines.any (lineMatches p re) with
    | false => rw [keepThroughLast_none _ _ ha]
    | true => obtain ⟨l', hl'⟩ := keepThroughLast_isSome _ _ ha; rw [hl']

theorem showFromLoc_whole (p : Profile) (re : Rx) (l : Location) (h : ShowFromWhole p re l) :
    (showFromLoc p re l).1 = l := by
  unfold showFromLoc
  rcases h with h | h | ⟨ln, h1, h2⟩
  · simp [h]
  · split
    · rfl
    · rw [keepThroughLast_none _ _ h]
  · split
    · rfl
    · rw [keepThroughLast_self _ _ ln h1 h2]

theorem locFrames_getLast (l : Location) :
    (locFrames l).getLast? =
      match l.lines.getLast? with
      | some ln => some ⟨l.id, l.mappingID, some ln⟩
      | none => some ⟨l.id, l.mappingID, none⟩ := by
  unfold locFrames
  cases h : l.lines with
  | nil => simp
  | cons a r =>
    simp only [List.isEmpty_cons, Bool.false_eq_true, ↓reduceIte, List.getLast?_map]
    cases hl : (a :: r).getLast? with
    | none => simp at hl
    | some x => simp

theorem showFrom_block (p : Profile) (re : Rx) (l : Location) (h : ShowFromWhole p re l)
    (hm : matchesName p re l = true) :
    keepThroughLast (frameMatches p re) (locFrames l) = some (locFrames l) := by
  have hlast := locFrames_getLast l
  cases hl : l.lines.getLast? with
  | none =>
    rw [hl] at hlast
    apply keepThroughLast_self _ _ _ hlast
    have hnil : l.lines = [] := by cases hx : l.lines with | nil => rfl | cons a r => rw [hx] at hl; simp at hl
    rw [frameMatches_pseudo]
    simpa [matchesName, hnil] using hm
  | some ln =>
    rw [hl] at hlast
    apply keepThroughLast_self _ _ _ hlast
    rw [frameMatches_line]
    rcases h with h | h | ⟨ln', h1, h2⟩
    · simp [h]
    · simp only [matchesName, h, Bool.false_or] at hm; simp [hm]
    · rw [hl] at h1; cases h1; simp [h2]


theorem map_eq_self_of_mem {α} (f : α → α) (l : List α) (h : ∀ x ∈ l, f x = x) : l.map f = l := by
  induction l with
  | nil => rfl
  | cons a r ih => simp [h a (by simp), ih (fun x hx => h x (by simp [hx]))]

theorem flatMap_congr_mem {α β} {l : List α} {f g : α → List β} (h : ∀ x ∈ l, f x = g x) :
    l.flatMap f = l.flatMap g := by
  induction l with
  | nil => rfl
  | cons a r ih => simp [h a (by simp), ih (fun x hx => h x (by simp [hx]))]

theorem locFramesOf_congr (p p' : Profile) (h : p'.locations = p.locations) (id : Nat) :
    locFramesOf p' id = locFramesOf p id := by
  unfold locFramesOf Profile.findLocation; rw [h]

/-- Under the hypothesis that show_from never cuts into a location, the model of `ShowFrom`
computes the frame-level rule. -/
theorem showFrom_views_eq_spec (p : Profile) (re : Rx) (h : ∀ l ∈ p.locations, ShowFromWhole p re l) :
    (showFrom p (some re)).1.samples.map (view (showFrom p (some re)).1) = showFromSpec p (some re) := by
  have hlocs : (showFrom p (some re)).1.locations = p.locations := by
    simp only [showFrom]
    exact map_eq_self_of_mem _ _ (fun l hl => showFromLoc_whole p re l (h l hl))
  simp only [showFrom, showFromSpec, List.map_filterMap]
  apply filterMap_congr_mem
  intro s _
  unfold showFromSample showFromSpecSample frames
  have key := keepThroughLast_flatMap (frameMatches p re) (showFromId p re) (locFramesOf p) s.locationIDs
    (by
      intro id _
      unfold showFromId locFramesOf
      cases p.findLocation id with
      | none => rfl
      | some l => simp only; rw [showFromLoc_matched, locFrames_any_matches])
    (by
      intro id _ hq
      unfold showFromId at hq
      unfold locFramesOf
      cases hf : p.findLocation id with
      | none => rw [hf] at hq; cases hq
      | some l =>
        rw [hf] at hq
        simp only at hq ⊢
        rw [showFromLoc_matched] at hq
        exact showFrom_block p re l (h l (find?_mem_id hf).1) hq)
  rw [key]
  cases keepThroughLast (showFromId p re) s.locationIDs with
  | none => rfl
  | some ids' =>
    simp only [Option.map_some, view, specView, frames]
    congr 2
    apply flatMap_congr_mem
    intro id _
    exact locFramesOf_congr p _ hlocs id

/-- the witness profile of the finding: one sample, leaf first `[sa sb fb | sb hb ha]`. -/
def witnessShowFrom : Profile :=
  let f (id : Nat) (n : Str) : Function := ⟨id, n, n, [], 0⟩
  { sampleType := [⟨[115], [99]⟩], defaultSampleType := [],
    samples := [⟨[1, 2], [3], [], [], []⟩], mappings := [],
    locations := [⟨1, 0, 4097, [⟨1, 10, 0⟩, ⟨2, 11, 0⟩, ⟨3, 12, 0⟩], false⟩,
                  ⟨2, 0, 4098, [⟨2, 10, 0⟩, ⟨4, 11, 0⟩, ⟨5, 12, 0⟩], false⟩],
    functions := [f 1 [115, 97], f 2 [115, 98], f 3 [102, 98], f 4 [104, 98], f 5 [104, 97]],  -- sa sb fb hb ha
    comments := [], docURL := [], dropFrames := [], keepFrames := [], timeNanos := 0,
    durationNanos := 0, periodType := none, period := 0 }

/-- `^s` -/
def startsWithS : Rx := fun s => s.head? == some 115

end PV.Filter
