import PprofVerif.Model.Stacks
/-! C17: a small concrete profile used by the non-vacuity examples in Props/C17.lean. -/
namespace PV.Stacks
open PV

/-- main → (f inlined g) → (f inlined g): recursion through an inlined frame, plus an empty stack
and a location without lines. -/
def exProfile : Profile :=
  { sampleType := [⟨[99], [110]⟩], defaultSampleType := [],
    samples := [
      { locationIDs := [2, 2, 3, 1], values := [5], label := [], numLabel := [], numUnit := [] },
      { locationIDs := [], values := [-2], label := [], numLabel := [], numUnit := [] },
      { locationIDs := [1], values := [7], label := [], numLabel := [], numUnit := [] } ],
    mappings := [],
    locations := [
      { id := 1, mappingID := 0, address := 16, lines := [⟨1, 10, 0⟩], isFolded := false },
      { id := 2, mappingID := 0, address := 32, lines := [⟨3, 30, 2⟩, ⟨2, 20, 0⟩], isFolded := false },
      { id := 3, mappingID := 0, address := 48, lines := [], isFolded := false } ],
    functions := [
      { id := 1, name := [109], systemName := [109], filename := [97], startLine := 1 },
      { id := 2, name := [102], systemName := [102], filename := [97], startLine := 2 },
      { id := 3, name := [103], systemName := [103], filename := [98], startLine := 3 } ],
    comments := [], docURL := [], dropFrames := [], keepFrames := [],
    timeNanos := 0, durationNanos := 0, periodType := none, period := 0 }


/-- f in file a (id 1), f in file b (id 2); sample main→ f/a, then location [f/b inlined into f/b]. -/
def uqProfile : Profile :=
  { exProfile with
    samples := [{ locationIDs := [2, 1], values := [5], label := [], numLabel := [], numUnit := [] }],
    locations := [
      { id := 1, mappingID := 0, address := 16, lines := [⟨1, 0, 0⟩], isFolded := false },
      { id := 2, mappingID := 0, address := 32, lines := [⟨2, 0, 0⟩, ⟨2, 0, 0⟩], isFolded := false } ],
    functions := [
      { id := 1, name := [102], systemName := [102], filename := [97], startLine := 1 },
      { id := 2, name := [102], systemName := [102], filename := [98], startLine := 2 } ] }

end PV.Stacks
