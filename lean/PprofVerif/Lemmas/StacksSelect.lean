import PprofVerif.Model.StacksSelect
/-! C17 helper lemmas, part H: `firstType` returns the first accepted sample type. -/
namespace PV.Stacks
open PV

theorem firstType_spec (q : Str → Bool) (l : List ValueType) : ∀ (k i : Nat), firstType q l k = some i →
    k ≤ i ∧ ∃ t, l[i - k]? = some t ∧ q t.typ = true ∧
      ∀ j, j < i - k → ∀ t', l[j]? = some t' → q t'.typ = false := by
  induction l with
  | nil => intro k i h; simp [firstType] at h
  | cons t r ih =>
    intro k i h
    simp only [firstType] at h
    by_cases hq : q t.typ = true
    · simp only [hq, if_true, Option.some.injEq] at h
      subst h
      exact ⟨Nat.le_refl _, t, by simp, hq, by intro j hj; omega⟩
    · simp only [hq, Bool.false_eq_true, if_false] at h
      obtain ⟨hk, t1, h1, h2, h3⟩ := ih (k+1) i h
      refine ⟨by omega, t1, ?_, h2, ?_⟩
      · have : i - k = (i - (k+1)) + 1 := by omega
        rw [this]; simpa using h1
      · intro j hj t' ht'
        cases j with
        | zero => simp at ht'; subst ht'; simpa using hq
        | succ n => exact h3 n (by omega) t' (by simpa using ht')

theorem firstType_none (q : Str → Bool) (l : List ValueType) : ∀ k, firstType q l k = none →
    ∀ t ∈ l, q t.typ = false := by
  induction l with
  | nil => intro k _ t ht; simp at ht
  | cons t r ih =>
    intro k h t' ht'
    simp only [firstType] at h
    by_cases hq : q t.typ = true
    · simp [hq] at h
    · simp only [hq, Bool.false_eq_true, if_false] at h
      rcases List.mem_cons.1 ht' with rfl | hm
      · simpa using hq
      · exact ih (k+1) h t' hm

end PV.Stacks
