import PprofVerif.Model.Filter
/-!
# C06 helper lemmas: FilterSamplesByName only removes (no validity hypothesis)
-/
namespace PV.Filter
open PV

theorem sampleStep_only_removes (p : Profile) (fo ig hi sh : Option Rx) (s s' : Sample)
    (h : sampleStep p fo ig hi sh s = some s') :
    s'.locationIDs.Sublist s.locationIDs ∧ s'.values = s.values ∧ s'.label = s.label ∧
      s'.numLabel = s.numLabel ∧ s'.numUnit = s.numUnit := by
  unfold sampleStep at h
  split at h
  · split at h
    · simp only at h
      split at h
      · cases h
      · cases h
        exact ⟨List.filter_sublist, rfl, rfl, rfl, rfl⟩
    · cases h
      exact ⟨List.Sublist.refl _, rfl, rfl, rfl, rfl⟩
  · cases h

theorem filterMap_data_sublist {α β} (f : α → Option α) (d : α → β) (hf : ∀ a a', f a = some a' → d a' = d a)
    (l : List α) : List.Sublist ((l.filterMap f).map d) (l.map d) := by
  induction l with
  | nil => simp
  | cons a r ih =>
    simp only [List.filterMap_cons, List.map_cons]
    split
    · exact List.Sublist.cons _ ih
    · rename_i a' ha
      rw [List.map_cons, hf a a' ha]
      exact List.Sublist.cons_cons _ ih

theorem filterSamplesByName_samples_sublist (p : Profile) (fo ig hi sh : Option Rx) :
    List.Sublist ((filterSamplesByName p fo ig hi sh).profile.samples.map (fun s => (s.values, s.label, s.numLabel, s.numUnit)))
      (p.samples.map (fun s => (s.values, s.label, s.numLabel, s.numUnit))) := by
  unfold filterSamplesByName
  split
  · exact List.Sublist.refl _
  · apply filterMap_data_sublist
    intro a a' h
    have := sampleStep_only_removes p fo ig hi sh a a' h
    simp [this.2.1, this.2.2.1, this.2.2.2.1, this.2.2.2.2]
end PV.Filter
