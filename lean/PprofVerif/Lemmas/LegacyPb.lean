import PprofVerif.Lemmas.LegacyChain
import PprofVerif.Model.LegacyPb
/-!
Helper lemmas for C14: what the protobuf decoder (`Codec.parseUncompressed`) does on printed
legacy documents — it rejects (with an error after which `ParseData` goes on to the legacy
parsers) every little-endian binary CPU profile, every heap, contention and Java text document;
it ACCEPTS the big-endian witness of the known finding.
-/
namespace PV.Legacy
open PV PV.Wire PV.Codec

/-- a zero byte pair is field number 0, wire type 0, value 0: skipped by the decoder table -/
theorem decodeLoop_zero_field (fuel : Nat) (m : ProfileX) (rest : Bytes) :
    decodeLoop ProfileX.apply (fuel + 1) m (0 :: 0 :: rest) = decodeLoop ProfileX.apply fuel m rest := by
  simp [decodeLoop, decodeField, decodeVarint, decodeVarintGo, ProfileX.apply, Wire.two64]

/-- a byte 3 is field number 0 with wire type 3 ("start group"): unknown wire type -/
theorem decodeLoop_wire3 (fuel : Nat) (m : ProfileX) (rest : Bytes) :
    decodeLoop ProfileX.apply (fuel + 1) m (3 :: rest) = .err "unknown wire type" := by
  simp [decodeLoop, decodeField, decodeVarint, decodeVarintGo, Wire.two64]

theorem pbRejects_err (e : String) (h1 : e ≠ errNoData) (h2 : e ≠ errConcatProfile) : PbRejects (.err e) :=
  ⟨e, rfl, h1, h2⟩

/-- the little-endian header `0 3 …` in 32-bit words -/
theorem pb_le32 (R : Str) : parseUncompressed (0 :: 0 :: 0 :: 0 :: 3 :: R) = .err "unknown wire type" := by
  unfold parseUncompressed unmarshal
  have hl : (0 :: 0 :: 0 :: 0 :: 3 :: R : Str).length = R.length + 2 + 1 + 1 + 1 := by simp
  rw [hl]
  simp only [List.length_cons, Nat.add_eq_zero_iff, Nat.succ_ne_zero, and_false, if_false]
  rw [decodeLoop_zero_field, decodeLoop_zero_field, decodeLoop_wire3]
  rfl

theorem pb_le64 (R : Str) : parseUncompressed (0 :: 0 :: 0 :: 0 :: 0 :: 0 :: 0 :: 0 :: 3 :: R) = .err "unknown wire type" := by
  unfold parseUncompressed unmarshal
  have hl : (0 :: 0 :: 0 :: 0 :: 0 :: 0 :: 0 :: 0 :: 3 :: R : Str).length = R.length + 4 + 1 + 1 + 1 + 1 + 1 := by simp
  rw [hl]
  simp only [List.length_cons, Nat.add_eq_zero_iff, Nat.succ_ne_zero, and_false, if_false]
  rw [decodeLoop_zero_field, decodeLoop_zero_field, decodeLoop_zero_field, decodeLoop_zero_field, decodeLoop_wire3]
  rfl

theorem pb_littleEndian_words (w64 : Bool) (R : Str) :
    parseUncompressed (word false w64 0 ++ (word false w64 3 ++ R)) = .err "unknown wire type" := by
  cases w64
  · have e0 : word false false 0 = [0, 0, 0, 0] := by decide
    have e3 : word false false 3 = [3, 0, 0, 0] := by decide
    rw [e0, e3]; exact pb_le32 _
  · have e0 : word false true 0 = [0, 0, 0, 0, 0, 0, 0, 0] := by decide
    have e3 : word false true 3 = [3, 0, 0, 0, 0, 0, 0, 0] := by decide
    rw [e0, e3]; exact pb_le64 _

theorem pbRejects_printCpu_littleEndian (d : CpuDoc) (hb : d.big = false) : PbRejects (parseUncompressed (printCpu d)) := by
  rw [printCpu_eq2, hb, pb_littleEndian_words]
  exact pbRejects_err _ (by decide) (by decide)

theorem pbRejects_printJavaCpu_littleEndian (d : JavaCpuDoc) (hb : d.big = false) :
    PbRejects (parseUncompressed (printJavaCpu d)) := by
  rw [printJavaCpu_eq2, hb, pb_littleEndian_words]
  exact pbRejects_err _ (by decide) (by decide)

/-- text starting with `-` (field 5 = function, wire type 5 = fixed32): type mismatch -/
theorem pb_dash (a b c d : UInt8) (R : Str) : parseUncompressed (45 :: a :: b :: c :: d :: R) = .err "type mismatch" := by
  unfold parseUncompressed unmarshal
  have hl : ¬ (R.length + 1 + 1 + 1 + 1 < 4) := by omega
  simp [decodeLoop, decodeField, decodeVarint, decodeVarintGo, ProfileX.apply, decodeMessage, Wire.two64, hl]

/-- text starting with `hea` (field 13 = comment, varint `e`; field 12 = period with wire type 1 =
fixed64): type mismatch -/
theorem pb_hea (b1 b2 b3 b4 b5 b6 b7 b8 : UInt8) (R : Str) :
    parseUncompressed (104 :: 101 :: 97 :: b1 :: b2 :: b3 :: b4 :: b5 :: b6 :: b7 :: b8 :: R) = .err "type mismatch" := by
  unfold parseUncompressed unmarshal
  have hl : ¬ (R.length + 1 + 1 + 1 + 1 + 1 + 1 + 1 + 1 < 8) := by omega
  simp [decodeLoop, decodeField, decodeVarint, decodeVarintGo, ProfileX.apply, decodeInt64s, decodeInt64, decodeUint64, Wire.two64, hl]

theorem pbRejects_printHeap (d : HeapDoc) : PbRejects (parseUncompressed (printHeap d)) := by
  have e1 : printHeap d = d.headerLine ++ ([10] ++ unlines (d.recs.flatMap (fun r => printFillers r.fill ++ [r.print d.pad d.width]) ++
      printFillers d.post ++ tailLines d.sentinel d.map)) := by
    simp [printHeap, HeapDoc.lines, unlines, List.append_assoc]
  have e2 : asc "heap profile:" = [104, 101, 97, 112, 32, 112, 114, 111, 102, 105, 108, 101, 58] := by decide
  rw [e1, d.headerLine_eq, e2]
  simp only [List.cons_append, List.nil_append]
  rw [pb_hea]
  exact pbRejects_err _ (by decide) (by decide)

theorem pbRejects_printContention (d : ContDoc) : PbRejects (parseUncompressed (printContention d)) := by
  obtain ⟨c, A, B, hp, _⟩ := d.head.shape
  have e : printContention d = 45 :: 45 :: 45 :: 32 :: c :: ((A ++ B) ++ 10 :: unlines d.lines.tail) := by
    simp [printContention, ContDoc.lines, unlines, hp, List.append_assoc]
  rw [e, pb_dash]
  exact pbRejects_err _ (by decide) (by decide)

theorem pbRejects_printJava (d : JavaDoc) : PbRejects (parseUncompressed (printJava d)) := by
  obtain ⟨rest, hL⟩ := d.lines_two
  have e : ∃ a b c dd R, printJava d = 45 :: a :: b :: c :: dd :: R := by
    unfold printJava; rw [hL]; unfold JavaDoc.headLine
    cases d.heap
    · exact ⟨45, 45, 32, 99, _, by simp [unlines, asc]; rfl⟩
    · exact ⟨45, 45, 32, 104, _, by simp [unlines, asc]; rfl⟩
  obtain ⟨a, b, c, dd, R, e⟩ := e
  rw [e, pb_dash]
  exact pbRejects_err _ (by decide) (by decide)

/-! ### the known finding: a big-endian CPU profile that is also a protobuf message -/
theorem shadowed_wf : shadowedCpuDoc.wf = true := by decide

theorem shadowed_pb : parseUncompressed (printCpu shadowedCpuDoc) = .ok emptyPbProfile := by decide

theorem shadowed_ne : emptyPbProfile ≠ expectedCpu shadowedCpuDoc := by decide

theorem parseDataReal_shadowed (scale : ScaleFn) (cyc : CycFn) :
    parseDataReal scale cyc (printCpu shadowedCpuDoc) = .ok emptyPbProfile := by
  simp [parseDataReal, parseData, shadowed_pb]

theorem parseDataReal_of_rejects (scale : ScaleFn) (cyc : CycFn) (b : Str) (h : PbRejects (parseUncompressed b)) :
    parseDataReal scale cyc b = parseLegacy scale cyc b :=
  parseData_of_pb_rejects _ scale cyc b h

/-! ### two more documents that never reach their parser -/
theorem concatCount_wf : concatCountDoc.wf = true := by decide

theorem concatCount_pb : parseUncompressed (printCount concatCountDoc) = .err errConcatProfile := by decide

theorem parseDataReal_concatCount (scale : ScaleFn) (cyc : CycFn) :
    parseDataReal scale cyc (printCount concatCountDoc) = .err errConcatProfile := by
  simp [parseDataReal, parseData, concatCount_pb, errConcatProfile, errNoData]

theorem heapNamedThread_wf : heapNamedThreadDoc.wf = true := by decide
theorem heapNamedThread_chain : heapNamedThreadDoc.chainOK = false := by decide

set_option maxRecDepth 20000 in
theorem parseLegacy_heapNamedThread (scale : ScaleFn) (cyc : CycFn) :
    parseLegacy scale cyc (printThread heapNamedThreadDoc) = .err "unexpected number of sample values" := by
  have h1 : parseCPU (printThread heapNamedThreadDoc) = .err "unrecognized" := by
    have : printThread heapNamedThreadDoc = 45 :: (printThread heapNamedThreadDoc).tail := by decide
    rw [this]; exact parseCPU_text 45 _ (by decide)
  have hl : heapNamedThreadDoc.lines = [heapNamedThreadRec.headerLine, asc "   0x10", noStackLine 0] := by decide
  have hh : (searchRe matchHeapHeaderAt heapNamedThreadRec.headerLine).isSome = true := by decide
  have hp : parseHeapHeader heapNamedThreadRec.headerLine = .ok (true, 1, true) := by decide
  have hs : searchRe matchHeapSampleAt (trimSpace (asc "   0x10")) = none := by decide
  have h3 : isSpaceOrComment (trimSpace (asc "   0x10")) = false := by decide
  have h4 : isMemoryMapSentinel (trimSpace (asc "   0x10")) = false := by decide
  have h2 : parseHeap scale (printThread heapNamedThreadDoc) = .err "unexpected number of sample values" := by
    unfold parseHeap
    rw [splitLines_printThread _ heapNamedThread_wf, hl]
    simp [parseHeapLines, hh, hp, heapLoop, h3, h4, parseHeapSample, hs]
  simp [parseLegacy, h1, h2]

end PV.Legacy
