import PprofVerif.Model.IdTables
import PprofVerif.Lemmas.CodecTotalPost
/-!
Helpers for property C02: the dense/sparse id tables of `postDecode` never index out of range
and resolve a reference iff its id occurs in the table (what `Model/Codec.lean` writes as
`List.contains`), to the last entity carrying the id.
-/
namespace PV
namespace IdTables

/-- what a lookup returns, without the checked access -/
def lookupPure (t : Tables) (id : Nat) : Option Nat :=
  if id < t.dense.length then (t.dense[id]?).getD none else t.sparse.lookup id

theorem lookup_eq (t : Tables) (id : Nat) : lookup t id = .ok (lookupPure t id) := by
  unfold lookup lookupPure getAt
  split
  · rename_i h
    rw [List.getElem?_eq_getElem h]
    simp
  · rfl

theorem insert_ok (t : Tables) (id idx : Nat) :
    ∃ t', insert t id idx = .ok t' ∧ t'.dense.length = t.dense.length ∧
      ∀ id', lookupPure t' id' = if id' = id then some idx else lookupPure t id' := by
  unfold insert
  split
  · rename_i h
    refine ⟨{ t with dense := t.dense.set id (some idx) }, by simp [setAt, h, pure], by simp, ?_⟩
    intro id'
    simp only [lookupPure, List.length_set]
    by_cases hid : id' = id
    · subst hid
      simp [h]
    · simp only [hid, if_false]
      split
      · rw [List.getElem?_set_ne (fun hc => hid hc.symm)]
      · rfl
  · rename_i h
    refine ⟨{ t with sparse := (id, idx) :: t.sparse }, by simp [pure], rfl, ?_⟩
    intro id'
    simp only [lookupPure]
    by_cases hid : id' = id
    · subst hid
      simp [h]
    · simp only [hid, if_false]
      split
      · rfl
      · have : (id' == id) = false := by simpa using hid
        simp [List.lookup_cons, this]

/-- index of the last occurrence of `id`, scanning with running index `i` -/
def specGo (acc : Option Nat) (id : Nat) : Nat → List Nat → Option Nat
  | _, [] => acc
  | i, x :: rest => specGo (if x = id then some i else acc) id (i + 1) rest

theorem buildGo_ok : ∀ (l : List Nat) (t : Tables) (i : Nat),
    ∃ t', buildGo t i l = .ok t' ∧ ∀ id, lookupPure t' id = specGo (lookupPure t id) id i l
  | [], t, i => ⟨t, rfl, fun _ => rfl⟩
  | x :: rest, t, i => by
    obtain ⟨t1, h1, _, hl1⟩ := insert_ok t x i
    obtain ⟨t2, h2, hl2⟩ := buildGo_ok rest t1 (i + 1)
    refine ⟨t2, by rw [buildGo, h1]; simpa using h2, ?_⟩
    intro id
    rw [hl2 id, hl1 id, specGo]
    by_cases h : x = id
    · subst h; simp
    · have : ¬ id = x := fun hc => h hc.symm
      simp [h, this]

theorem specGo_isSome (id : Nat) : ∀ (l : List Nat) (acc : Option Nat) (i : Nat),
    (specGo acc id i l).isSome = true ↔ (acc.isSome = true ∨ id ∈ l)
  | [], acc, i => by simp [specGo]
  | x :: rest, acc, i => by
    rw [specGo, specGo_isSome id rest]
    by_cases h : x = id
    · subst h; simp
    · have : ¬ id = x := fun hc => h hc.symm
      simp [h, this]

theorem specGo_get (id : Nat) : ∀ (l : List Nat) (acc : Option Nat) (i j : Nat),
    specGo acc id i l = some j → acc = some j ∨ (i ≤ j ∧ l[j - i]? = some id)
  | [], acc, i, j, h => by simp [specGo] at h; exact Or.inl h
  | x :: rest, acc, i, j, h => by
    rw [specGo] at h
    rcases specGo_get id rest _ (i + 1) j h with h1 | ⟨h1, h2⟩
    · by_cases hx : x = id
      · simp [hx] at h1; subst h1; right; simp [hx]
      · simp [hx] at h1; exact Or.inl h1
    · right
      refine ⟨by omega, ?_⟩
      have : j - i = (j - (i + 1)) + 1 := by omega
      rw [this, List.getElem?_cons_succ]; exact h2

theorem lookupPure_init (n id : Nat) : lookupPure { dense := List.replicate n none, sparse := [] } id = none := by
  unfold lookupPure
  split
  · rename_i h
    simp at h
    simp [h]
  · rfl

/-- the concrete dense/sparse algorithm never indexes out of range, and a reference resolves
exactly when its id occurs in the table — to an entity that carries this id. -/
theorem build_lookup (ids : List Nat) :
    ∃ t, build ids = .ok t ∧ ∀ id, ∃ r, lookup t id = .ok r ∧
      (r.isSome = true ↔ id ∈ ids) ∧ (∀ j, r = some j → ids[j]? = some id) := by
  unfold build
  obtain ⟨t, ht, hl⟩ := buildGo_ok ids { dense := List.replicate (ids.length + 1) none, sparse := [] } 0
  refine ⟨t, ht, fun id => ⟨lookupPure t id, lookup_eq t id, ?_, ?_⟩⟩
  · rw [hl id, lookupPure_init, specGo_isSome]; simp
  · intro j hj
    rw [hl id, lookupPure_init] at hj
    rcases specGo_get id ids none 0 j hj with h | ⟨_, h⟩
    · simp at h
    · simpa using h

end IdTables
end PV
