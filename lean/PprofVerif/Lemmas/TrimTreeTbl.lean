import PprofVerif.Model.TrimTree
import PprofVerif.Lemmas.TrimTotal
/-!
Map-table lemmas for the TrimTree model: `tfind` / `tdel` / `tset`, the per-node views `inEdges` /
`outEdges`, and the two inner loops `detachChildren` and `rewire` described by their lookups.
-/
namespace PV.TrimTree
open PV PV.GSpec PV.Graph

section generic
variable {α β : Type} [DecidableEq α]

theorem tfind_tdel (t : List (α × β)) (k k' : α) :
    tfind (tdel t k) k' = if k = k' then none else tfind t k' := by
  induction t with
  | nil => simp [tdel, tfind]
  | cons hd tl ih =>
    obtain ⟨k0, v0⟩ := hd
    unfold tdel at ih ⊢
    by_cases h0 : k0 = k
    · subst h0
      by_cases h1 : k0 = k'
      · subst h1; simpa using ih
      · simp [tfind, h1, ih]
    · by_cases h1 : k0 = k'
      · subst h1
        simp [List.filter_cons, h0, tfind]
        intro h; exact absurd h.symm h0
      · simp [List.filter_cons, h0, tfind, h1, ih]

theorem tfind_tset (t : List (α × β)) (k k' : α) (v : β) :
    tfind (tset t k v) k' = if k = k' then some v else tfind t k' := by
  induction t with
  | nil => simp [tset, tfind]
  | cons hd tl ih =>
    obtain ⟨k0, v0⟩ := hd
    by_cases h0 : k0 = k
    · subst h0
      by_cases h1 : k0 = k' <;> simp [tset, tfind, h1]
    · by_cases h1 : k0 = k'
      · subst h1
        simp [tset, tfind, h0]
        intro h; exact absurd h.symm h0
      · simp [tset, tfind, h0, h1, ih]

theorem mem_keys_tset (t : List (α × β)) (k k' : α) (v : β) :
    k' ∈ (tset t k v).map Prod.fst ↔ k' ∈ t.map Prod.fst ∨ k' = k := by
  induction t with
  | nil => simp [tset]
  | cons hd tl ih =>
    obtain ⟨k0, v0⟩ := hd
    by_cases h0 : k0 = k
    · subst h0
      simp only [tset, if_true, List.map_cons, List.mem_cons]
      constructor
      · rintro (h | h)
        · exact Or.inl (Or.inl h)
        · exact Or.inl (Or.inr h)
      · rintro ((h | h) | h)
        · exact Or.inl h
        · exact Or.inr h
        · exact Or.inl h
    · simp only [tset, h0, if_false, List.map_cons, List.mem_cons, ih]
      constructor
      · rintro (h | h | h)
        · exact Or.inl (Or.inl h)
        · exact Or.inl (Or.inr h)
        · exact Or.inr h
      · rintro ((h | h) | h)
        · exact Or.inl h
        · exact Or.inr (Or.inl h)
        · exact Or.inr (Or.inr h)

theorem keysNodup_tset {t : List (α × β)} (h : KeysNodup t) (k : α) (v : β) : KeysNodup (tset t k v) := by
  unfold KeysNodup at *
  induction t with
  | nil => simp [tset]
  | cons hd tl ih =>
    obtain ⟨k0, v0⟩ := hd
    rw [List.map_cons, List.nodup_cons] at h
    by_cases h0 : k0 = k
    · subst h0
      simp only [tset, if_true, List.map_cons, List.nodup_cons]
      exact h
    · simp only [tset, h0, if_false, List.map_cons, List.nodup_cons]
      refine ⟨?_, ih h.2⟩
      rw [mem_keys_tset]
      rintro (h1 | h1)
      · exact h.1 h1
      · exact h0 h1

theorem keysNodup_filter {t : List (α × β)} (h : KeysNodup t) (p : α × β → Bool) : KeysNodup (t.filter p) := by
  unfold KeysNodup at *
  exact h.sublist (List.Sublist.map _ List.filter_sublist)

theorem keysNodup_tdel {t : List (α × β)} (h : KeysNodup t) (k : α) : KeysNodup (tdel t k) :=
  keysNodup_filter h _

theorem tfind_of_mem {t : List (α × β)} (h : KeysNodup t) {k : α} {v : β} (hm : (k, v) ∈ t) :
    tfind t k = some v := by
  unfold KeysNodup at h
  induction t with
  | nil => simp at hm
  | cons hd tl ih =>
    obtain ⟨k0, v0⟩ := hd
    rw [List.map_cons, List.nodup_cons] at h
    rcases List.mem_cons.mp hm with heq | hm'
    · obtain ⟨rfl, rfl⟩ := Prod.mk.inj heq
      simp [tfind]
    · have hne : k0 ≠ k := by
        rintro rfl
        exact h.1 (List.mem_map.mpr ⟨(k0, v), hm', rfl⟩)
      simp only [tfind, hne, if_false]
      exact ih h.2 hm'

theorem mem_of_tfind {t : List (α × β)} {k : α} {v : β} (h : tfind t k = some v) : (k, v) ∈ t := by
  induction t with
  | nil => simp [tfind] at h
  | cons hd tl ih =>
    obtain ⟨k0, v0⟩ := hd
    by_cases h0 : k0 = k
    · subst h0
      simp [tfind] at h
      subst h
      exact List.mem_cons_self
    · simp only [tfind, h0, if_false] at h
      exact List.mem_cons_of_mem _ (ih h)

theorem tfind_none_of_not_mem {t : List (α × β)} {k : α} (h : ∀ v, (k, v) ∉ t) : tfind t k = none := by
  cases hf : tfind t k with
  | none => rfl
  | some v => exact absurd (mem_of_tfind hf) (h v)

theorem tfind_isSome_of_mem {t : List (α × β)} {k : α} {v : β} (hm : (k, v) ∈ t) : (tfind t k).isSome = true := by
  induction t with
  | nil => simp at hm
  | cons hd tl ih =>
    obtain ⟨k0, v0⟩ := hd
    by_cases h0 : k0 = k
    · simp [tfind, h0]
    · rcases List.mem_cons.mp hm with heq | hm'
      · exact absurd (Prod.mk.inj heq).1.symm h0
      · simp only [tfind, h0, if_false]; exact ih hm'

/-- a table with unique keys all of whose keys are the same key has at most one entry -/
theorem length_le_one_of_keys_eq {t : List (α × β)} (h : KeysNodup t) (k : α) (hk : ∀ e ∈ t, e.1 = k) :
    t.length ≤ 1 := by
  unfold KeysNodup at h
  match t, h, hk with
  | [], _, _ => simp
  | [_], _, _ => simp
  | a :: b :: r, h, hk =>
    exfalso
    rw [List.map_cons, List.nodup_cons] at h
    apply h.1
    rw [hk a List.mem_cons_self, ← hk b (List.mem_cons_of_mem _ List.mem_cons_self)]
    simp

end generic

variable {κ : Type} [DecidableEq κ]

theorem thas_eq_tfind {α : Type} (t : List (κ × α)) (k : κ) : thas t k = (tfind t k).isSome := by
  induction t with
  | nil => rfl
  | cons hd tl ih =>
    obtain ⟨k0, v0⟩ := hd
    by_cases h0 : k0 = k <;> simp [thas, tfind, h0, ih]

theorem tget_eq_tfind {α : Type} (t : List (κ × α)) (k : κ) (d : α) : tget t k d = (tfind t k).getD d := by
  induction t with
  | nil => rfl
  | cons hd tl ih =>
    obtain ⟨k0, v0⟩ := hd
    by_cases h0 : k0 = k <;> simp [tget, tfind, h0, ih]

theorem mem_inEdges (ins : ETable κ) (n : κ) (e : (κ × κ) × EdgeAcc) :
    e ∈ inEdges ins n ↔ e ∈ ins ∧ e.1.2 = n := by
  unfold inEdges; simp [List.mem_filter]

theorem mem_outEdges (outs : ETable κ) (n : κ) (e : (κ × κ) × EdgeAcc) :
    e ∈ outEdges outs n ↔ e ∈ outs ∧ e.1.1 = n := by
  unfold outEdges; simp [List.mem_filter]

theorem keysNodup_inEdges {ins : ETable κ} (h : KeysNodup ins) (n : κ) : KeysNodup (inEdges ins n) :=
  keysNodup_filter h _
theorem keysNodup_outEdges {outs : ETable κ} (h : KeysNodup outs) (n : κ) : KeysNodup (outEdges outs n) :=
  keysNodup_filter h _

theorem tfind_outEdges (outs : ETable κ) (n a b : κ) :
    tfind (outEdges outs n) (a, b) = if a = n then tfind outs (a, b) else none := by
  unfold outEdges
  induction outs with
  | nil => simp [tfind]
  | cons hd tl ih =>
    obtain ⟨⟨x, y⟩, v⟩ := hd
    by_cases hx : x = n
    · subst hx
      by_cases hk : (x, y) = (a, b)
      · obtain ⟨rfl, rfl⟩ := Prod.mk.inj hk
        simp [List.filter_cons, tfind]
      · simp only [List.filter_cons, decide_true, if_true, tfind, hk, if_false]
        exact ih
    · have hk : ¬ (x, y) = (a, b) ∨ ¬ a = n := by
        by_cases ha : a = n
        · left; rintro h; exact hx ((Prod.mk.inj h).1.trans ha)
        · right; exact ha
      simp only [List.filter_cons, hx, decide_false, Bool.false_eq_true, if_false]
      rw [ih]
      by_cases ha : a = n
      · have : ¬ (x, y) = (a, b) := by rintro h; exact hx ((Prod.mk.inj h).1.trans ha)
        simp [ha, tfind, this]
        simp [ha] at this
        intro h1 h2; exact absurd h1 (by rintro rfl; exact hx rfl)
      · simp [ha]

/-! ### `detachChildren` -/

theorem tfind_detachChildren (cur : κ) (L : List ((κ × κ) × EdgeAcc)) : ∀ (ins : ETable κ) (a b : κ),
    tfind (detachChildren cur ins L) (a, b) =
      if a = cur ∧ L.any (fun e => decide (e.1.2 = b)) = true then none else tfind ins (a, b) := by
  induction L with
  | nil => intro ins a b; simp [detachChildren]
  | cons e r ih =>
    intro ins a b
    simp only [detachChildren]
    rw [ih, tfind_tdel, List.any_cons]
    by_cases ha : a = cur
    · subst ha
      by_cases hb : e.1.2 = b
      · subst hb; simp
      · have hne : ¬ (a, e.1.2) = (a, b) := by rintro h; exact hb (Prod.mk.inj h).2
        rw [if_neg hne]
        simp only [hb, decide_false, Bool.false_or]
    · have hne : ¬ (cur, e.1.2) = (a, b) := by rintro h; exact ha (Prod.mk.inj h).1.symm
      simp [ha, hne]

theorem keysNodup_detachChildren (cur : κ) (L : List ((κ × κ) × EdgeAcc)) : ∀ (ins : ETable κ),
    KeysNodup ins → KeysNodup (detachChildren cur ins L) := by
  induction L with
  | nil => intro ins h; exact h
  | cons e r ih => intro ins h; exact ih _ (keysNodup_tdel h _)

/-! ### `rewire` -/

theorem keysNodup_rewire (p cur : κ) (L : List ((κ × κ) × EdgeAcc)) : ∀ (io : ETable κ × ETable κ),
    KeysNodup io.1 → KeysNodup io.2 →
    KeysNodup (rewire p cur io L).1 ∧ KeysNodup (rewire p cur io L).2 := by
  induction L with
  | nil => intro io h1 h2; exact ⟨h1, h2⟩
  | cons e r ih =>
    intro io h1 h2
    exact ih _ (keysNodup_tset (keysNodup_tdel h1 _) _ _) (keysNodup_tset h2 _ _)

/-- the `ins` table after the loop: the entry `cur → b` of every rewired child is gone, `p → b` holds
the edge (now residual) for every rewired child `b`, everything else is untouched. -/
theorem tfind_rewire_ins (p cur : κ) (hpc : p ≠ cur) (L : List ((κ × κ) × EdgeAcc))
    (hL : KeysNodup L) (hsrc : ∀ e ∈ L, e.1.1 = cur) : ∀ (io : ETable κ × ETable κ) (a b : κ),
    tfind (rewire p cur io L).1 (a, b) =
      if a = cur ∧ (tfind L (cur, b)).isSome then none
      else if a = p ∧ (tfind L (cur, b)).isSome then
        (tfind L (cur, b)).map (fun e => { e with residual := true })
      else tfind io.1 (a, b) := by
  induction L with
  | nil => intro io a b; simp [rewire, tfind]
  | cons e r ih =>
    intro io a b
    have hr : KeysNodup r := by
      unfold KeysNodup at hL ⊢
      rw [List.map_cons, List.nodup_cons] at hL
      exact hL.2
    have hek : e.1 = (cur, e.1.2) := by
      have := hsrc e List.mem_cons_self
      rw [← this]
    have hnotin : tfind r e.1 = none := by
      apply tfind_none_of_not_mem
      intro v hv
      unfold KeysNodup at hL
      rw [List.map_cons, List.nodup_cons] at hL
      exact hL.1 (List.mem_map.mpr ⟨(e.1, v), hv, rfl⟩)
    simp only [rewire]
    rw [ih hr (fun x hx => hsrc x (List.mem_cons_of_mem _ hx))]
    simp only [tfind_tset, tfind_tdel]
    obtain ⟨⟨ex, ey⟩, ev⟩ := e
    simp only at hek hnotin ⊢
    have hex : ex = cur := (Prod.mk.inj hek).1
    subst hex
    by_cases hb : ey = b
    · subst hb
      simp only [tfind, if_true, hnotin, Option.isSome_none, Bool.false_eq_true, and_false, if_false,
        Option.isSome_some, and_true, Option.map_some]
      by_cases ha : a = ex
      · subst ha
        simp [hpc]
      · by_cases hap : a = p
        · subst hap; simp [ha]
        · have h1 : ¬ (p, ey) = (a, ey) := by rintro h; exact hap (Prod.mk.inj h).1.symm
          have h2 : ¬ (ex, ey) = (a, ey) := by rintro h; exact ha (Prod.mk.inj h).1.symm
          simp [ha, hap, h1, h2]
    · have hk : ¬ (ex, ey) = (ex, b) := by rintro h; exact hb (Prod.mk.inj h).2
      simp only [tfind, hk, if_false]
      by_cases h1 : a = ex ∧ (tfind r (ex, b)).isSome
      · simp [h1]
      · simp only [h1, if_false]
        by_cases h2 : a = p ∧ (tfind r (ex, b)).isSome
        · simp [h2]
        · simp only [h2, if_false]
          have h3 : ¬ (p, ey) = (a, b) := by rintro h; exact hb (Prod.mk.inj h).2
          have h4 : ¬ (ex, ey) = (a, b) := by rintro h; exact hb (Prod.mk.inj h).2
          simp [h3, h4]

/-- the `outs` table after the loop: `p → b` holds the (now residual) edge for every rewired child,
everything else is untouched (in particular the stale entries `cur → b`). -/
theorem tfind_rewire_outs (p cur : κ) (L : List ((κ × κ) × EdgeAcc))
    (hL : KeysNodup L) (hsrc : ∀ e ∈ L, e.1.1 = cur) : ∀ (io : ETable κ × ETable κ) (a b : κ),
    tfind (rewire p cur io L).2 (a, b) =
      if a = p ∧ (tfind L (cur, b)).isSome then
        (tfind L (cur, b)).map (fun e => { e with residual := true })
      else tfind io.2 (a, b) := by
  induction L with
  | nil => intro io a b; simp [rewire, tfind]
  | cons e r ih =>
    intro io a b
    have hr : KeysNodup r := by
      unfold KeysNodup at hL ⊢
      rw [List.map_cons, List.nodup_cons] at hL
      exact hL.2
    have hek : e.1 = (cur, e.1.2) := by
      have := hsrc e List.mem_cons_self
      rw [← this]
    have hnotin : tfind r e.1 = none := by
      apply tfind_none_of_not_mem
      intro v hv
      unfold KeysNodup at hL
      rw [List.map_cons, List.nodup_cons] at hL
      exact hL.1 (List.mem_map.mpr ⟨(e.1, v), hv, rfl⟩)
    simp only [rewire]
    rw [ih hr (fun x hx => hsrc x (List.mem_cons_of_mem _ hx))]
    simp only [tfind_tset]
    obtain ⟨⟨ex, ey⟩, ev⟩ := e
    simp only at hek hnotin ⊢
    have hex : ex = cur := (Prod.mk.inj hek).1
    subst hex
    by_cases hb : ey = b
    · subst hb
      simp only [tfind, if_true, hnotin, Option.isSome_none, Bool.false_eq_true, and_false, if_false,
        Option.isSome_some, and_true, Option.map_some]
      by_cases hap : a = p
      · subst hap; simp
      · have h1 : ¬ (p, ey) = (a, ey) := by rintro h; exact hap (Prod.mk.inj h).1.symm
        simp [hap, h1]
    · have hk : ¬ (ex, ey) = (ex, b) := by rintro h; exact hb (Prod.mk.inj h).2
      simp only [tfind, hk, if_false]
      by_cases h2 : a = p ∧ (tfind r (ex, b)).isSome
      · simp [h2]
      · simp only [h2, if_false]
        have h3 : ¬ (p, ey) = (a, b) := by rintro h; exact hb (Prod.mk.inj h).2
        simp [h3]

end PV.TrimTree
