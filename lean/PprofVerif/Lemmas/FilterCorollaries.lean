import PprofVerif.Lemmas.FilterName
import Mathlib.Data.List.Forall2
/-! Helper lemmas for C06: corollaries of the name-filter rule (no hide/show case, order and data
preservation, totals) and the FilterSamplesByTag loop. -/
namespace PV.Filter
open PV PV.FilterSpec

theorem locAfter_none (p : Profile) : locAfter p none none = id := by
  funext l; rfl

theorem locHidden_none (p : Profile) (l : Location) : locHidden p none none l = false := by
  simp [locHidden, hiddenByHide, hideHit, hiddenByShow]

/-- without hide/show the result is the input profile with its samples filtered. -/
theorem filter_noHideShow (p : Profile) (wf : WF p) (fo ig : Option Rx)
    (h : ¬ (fo.isNone && ig.isNone) = true) :
    (filterSamplesByName p fo ig none none).profile =
      { p with samples := p.samples.filter (nameKeeps p fo ig) } := by
  unfold filterSamplesByName
  have hc : (fo.isNone && ig.isNone && (none : Option Rx).isNone && (none : Option Rx).isNone) = false := by
    cases fo <;> cases ig <;> simp_all
  simp only [hc, Bool.false_eq_true, ↓reduceIte, locAfter_none, List.map_id]
  congr 1
  have hany : p.locations.any (locHidden p none none) = false := by
    simp [List.any_eq_false, locHidden_none]
  rw [← List.filterMap_eq_filter]
  apply filterMap_congr_mem
  intro s hs
  unfold sampleStep
  rw [keep_eq p fo ig s (wf.sampleLocs s hs), hany]
  simp [Option.guard]

/-- values and labels of a view. -/
def sameData (v : View) (s : Sample) : Prop :=
  v.values = s.values ∧ v.label = s.label ∧ v.numLabel = s.numLabel ∧ v.numUnit = s.numUnit

theorem filterMap_forall₂_sublist {α β} (P : β → α → Prop) (g : α → Option β) (l : List α)
    (h : ∀ a ∈ l, ∀ b, g a = some b → P b a) :
    ∃ os : List α, os.Sublist l ∧ List.Forall₂ P (l.filterMap g) os := by
  induction l with
  | nil => exact ⟨[], List.Sublist.slnil, List.Forall₂.nil⟩
  | cons a r ih =>
    obtain ⟨os, hsub, hfa⟩ := ih (fun x hx => h x (by simp [hx]))
    simp only [List.filterMap_cons]
    cases hg : g a with
    | none => exact ⟨os, List.Sublist.cons a hsub, hfa⟩
    | some b => exact ⟨a :: os, List.Sublist.cons₂ a hsub, List.Forall₂.cons (h a (by simp) b hg) hfa⟩

theorem nameSpec_preserves (p : Profile) (fo ig hi sh : Option Rx) :
    ∃ os : List Sample, os.Sublist p.samples ∧
      List.Forall₂ (fun v s => sameData v s ∧ v.frames.Sublist (frames p s)) (nameSpec p fo ig hi sh) os := by
  unfold nameSpec
  split
  · rw [← List.filterMap_eq_map]
    apply filterMap_forall₂_sublist
    intro s _ v hv
    simp only [Function.comp, Option.some.injEq] at hv
    subst hv
    exact ⟨⟨rfl, rfl, rfl, rfl⟩, List.Sublist.refl _⟩
  · apply filterMap_forall₂_sublist
    intro s _ v hv
    unfold nameSpecSample at hv
    split at hv
    · simp only at hv
      split at hv
      · split at hv
        · simp only [Option.map_some, Option.some.injEq] at hv
          subst hv
          exact ⟨⟨rfl, rfl, rfl, rfl⟩, List.nil_sublist _⟩
        · simp at hv
      · simp only [Option.map_some, Option.some.injEq] at hv
        subst hv
        exact ⟨⟨rfl, rfl, rfl, rfl⟩, List.filter_sublist⟩
    · simp at hv

/-! ### totals -/
theorem total_filter_add (i : Nat) (q : Sample → Bool) (f : Sample → View) (l : List Sample) :
    total i ((l.filter q).map f) + total i ((l.filter (fun s => !q s)).map f) = total i (l.map f) := by
  induction l with
  | nil => simp [total]
  | cons a r ih =>
    simp only [List.filter_cons]
    cases hq : q a
    · simp only [Bool.false_eq_true, ↓reduceIte, Bool.not_false, List.map_cons]
      unfold total at ih ⊢
      simp only [List.map_cons, List.sum_cons]
      omega
    · simp only [↓reduceIte, Bool.not_true, Bool.false_eq_true, List.map_cons]
      unfold total at ih ⊢
      simp only [List.map_cons, List.sum_cons]
      omega

/-! ### FilterSamplesByTag / FilterTagsByName -/
theorem filterByTagLoop_eq (fo ig : Option TagMatch) (l acc : List Sample) (fm im : Bool) :
    filterByTagLoop fo ig l acc fm im =
      (acc.reverse ++ l.filter (fun s => tagFocused fo s && !tagIgnored ig s),
       fm || l.any (tagFocused fo), im || l.any (tagIgnored ig)) := by
  induction l generalizing acc fm im with
  | nil => simp [filterByTagLoop]
  | cons a r ih =>
    unfold filterByTagLoop
    simp only [ih, List.filter_cons, List.any_cons]
    cases h1 : tagFocused fo a <;> cases h2 : tagIgnored ig a <;> simp [Bool.or_assoc]

end PV.Filter
