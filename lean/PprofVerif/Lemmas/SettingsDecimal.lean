import PprofVerif.Model.Settings
/-! `strconv.Atoi (fmt.Sprint n) = n` for every int64 (C19, int-valued options). -/
namespace PV.Settings

theorem u8_ofNat_toNat {n : Nat} (h : n < 256) : (UInt8.ofNat n).toNat = n := by
  simp [Nat.mod_eq_of_lt h]

theorem digitByte_toNat {d : Nat} (h : d < 10) : (digitByte d).toNat = 48 + d := by
  unfold digitByte
  exact u8_ofNat_toNat (by omega)

theorem isDigit_digitByte {d : Nat} (h : d < 10) : isDigit (digitByte d) = true := by
  simp [isDigit, digitByte_toNat h]; omega

/-- value of least-significant-first digits. -/
def valRev : List UInt8 → Nat
  | [] => 0
  | c :: r => (c.toNat - 48) + 10 * valRev r

theorem natDigitsRev_spec : ∀ (fuel n : Nat), n < fuel →
    valRev (natDigitsRev fuel n) = n ∧ (∀ c ∈ natDigitsRev fuel n, isDigit c = true) ∧
      natDigitsRev fuel n ≠ [] := by
  intro fuel
  induction fuel with
  | zero => intro n h; omega
  | succ fuel ih =>
    intro n h
    have hm : n % 10 < 10 := Nat.mod_lt _ (by omega)
    simp only [natDigitsRev]
    by_cases h0 : n / 10 = 0
    · simp only [h0, if_true]
      refine ⟨?_, ?_, by simp⟩
      · simp [valRev, digitByte_toNat hm]; omega
      · intro c hc
        simp only [List.mem_singleton] at hc
        subst hc; exact isDigit_digitByte hm
    · simp only [h0, if_false]
      have hlt : n / 10 < fuel := by omega
      obtain ⟨hv, hd, _⟩ := ih (n / 10) hlt
      refine ⟨?_, ?_, by simp⟩
      · simp [valRev, digitByte_toNat hm, hv]; omega
      · intro c hc
        rcases List.mem_cons.1 hc with hc | hc
        · subst hc; exact isDigit_digitByte hm
        · exact hd c hc

theorem parseDigits_snoc : ∀ (xs : List UInt8) (c : UInt8) (acc : Nat),
    parseDigits (xs ++ [c]) acc =
      (parseDigits xs acc).bind (fun a => if isDigit c then some (a * 10 + (c.toNat - 48)) else none) := by
  intro xs
  induction xs with
  | nil => intro c acc; simp [parseDigits]
  | cons x xs ih =>
    intro c acc
    simp only [List.cons_append, parseDigits]
    by_cases hx : isDigit x = true
    · simp [hx, ih]
    · simp [hx]

theorem parseDigits_reverse : ∀ (l : List UInt8), (∀ c ∈ l, isDigit c = true) →
    parseDigits l.reverse 0 = some (valRev l) := by
  intro l
  induction l with
  | nil => intro _; rfl
  | cons c r ih =>
    intro h
    have hr := ih (fun x hx => h x (by simp [hx]))
    have hc := h c (by simp)
    rw [List.reverse_cons, parseDigits_snoc, hr]
    simp [hc, valRev]; omega

theorem parse_showNat (n : Nat) : parseDigits (showNat n) 0 = some n := by
  obtain ⟨hv, hd, _⟩ := natDigitsRev_spec (n + 1) n (by omega)
  unfold showNat
  rw [parseDigits_reverse _ hd, hv]

theorem showNat_digits (n : Nat) : ∀ c ∈ showNat n, isDigit c = true := by
  obtain ⟨_, hd, _⟩ := natDigitsRev_spec (n + 1) n (by omega)
  intro c hc
  exact hd c (by simpa [showNat] using hc)

theorem showNat_ne_nil (n : Nat) : showNat n ≠ [] := by
  obtain ⟨_, _, hne⟩ := natDigitsRev_spec (n + 1) n (by omega)
  simpa [showNat] using hne

theorem atoiDigits_showNat (neg : Bool) (m : Nat)
    (h : inI64 (if neg then -(m : Int) else (m : Int)) = true) :
    atoiDigits neg (showNat m) = some (if neg then -(m : Int) else (m : Int)) := by
  unfold atoiDigits
  cases hs : showNat m with
  | nil => exact absurd hs (showNat_ne_nil m)
  | cons c r =>
    have := parse_showNat m
    rw [hs] at this
    simp [this, h]

theorem isDigit_ne_sign {c : UInt8} (h : isDigit c = true) : c ≠ 45 ∧ c ≠ 43 := by
  constructor <;> (intro e; subst e; simp [isDigit] at h)

/-- **`Atoi ∘ Sprint = id` on int64.** -/
theorem atoi_showInt (n : Int) (h : inI64 n = true) : atoi (showInt n) = some n := by
  unfold showInt
  by_cases hn : n < 0
  · simp only [hn, if_true, atoi]
    have hv : (if true = true then -((n.natAbs : Nat) : Int) else (n.natAbs : Int)) = n := by
      simp; omega
    have := atoiDigits_showNat true n.natAbs (by rw [hv]; exact h)
    rw [hv] at this
    simpa using this
  · simp only [hn, if_false]
    cases hs : showNat n.natAbs with
    | nil => exact absurd hs (showNat_ne_nil _)
    | cons c r =>
      have hc : isDigit c = true := showNat_digits n.natAbs c (by simp [hs])
      obtain ⟨h1, h2⟩ := isDigit_ne_sign hc
      have hv : (if false = true then -((n.natAbs : Nat) : Int) else (n.natAbs : Int)) = n := by
        simp; omega
      have := atoiDigits_showNat false n.natAbs (by rw [hv]; exact h)
      rw [hv, hs] at this
      simp [atoi, h1, h2, this]

theorem showInt_ne_nil (n : Int) : showInt n ≠ [] := by
  unfold showInt
  by_cases hn : n < 0
  · simp [hn]
  · simp [hn, showNat_ne_nil]

theorem showInt_inj {a b : Int} (ha : inI64 a = true) (hb : inI64 b = true)
    (h : showInt a = showInt b) : a = b := by
  have h1 := atoi_showInt a ha
  rw [h, atoi_showInt b hb] at h1
  exact (Option.some.inj h1).symm

end PV.Settings
