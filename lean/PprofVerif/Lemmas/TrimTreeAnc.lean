import PprofVerif.Spec.TrimTree
import PprofVerif.Lemmas.GraphTreeEdges
/-!
Ancestors of a call-tree node (proper non-empty prefixes of its path, nearest first) and the
"nearest ancestor that is not removed" function of `Spec/TrimTree.lean`: how it changes when one
more node is removed.
-/
namespace PV.GSpec
open PV.Graph
variable {κ : Type} [DecidableEq κ]

theorem prefixes_append (a t : List κ) : prefixes (a ++ t) = prefixes a ++ pathsFrom a t := by
  induction a with
  | nil => simp [prefixes, pathsFrom]
  | cons x a ih =>
    simp only [List.cons_append, prefixes, ih, List.map_append, List.cons_append]
    congr 1
    unfold pathsFrom
    simp [List.map_map, Function.comp]

theorem prefixes_ne_nil {t : List κ} (h : t ≠ []) : prefixes t ≠ [] := by
  cases t with
  | nil => exact absurd rfl h
  | cons x r => simp [prefixes]

theorem prefixes_reverse {a : List κ} (h : a ≠ []) : (prefixes a).reverse = a :: ancestors a := by
  unfold ancestors
  have hl : (prefixes a).reverse.head? = some a := by
    rw [List.head?_reverse, prefixes_getLast]; simp [h]
  cases hr : (prefixes a).reverse with
  | nil => rw [hr] at hl; simp at hl
  | cons x r => rw [hr] at hl; simp at hl; simp [hl]

theorem mem_prefixes_length {b x : List κ} (h : x ∈ prefixes b) : x ≠ [] ∧ x.length ≤ b.length := by
  induction b generalizing x with
  | nil => simp [prefixes] at h
  | cons y r ih =>
    simp only [prefixes, List.mem_cons, List.mem_map] at h
    rcases h with rfl | ⟨z, hz, rfl⟩
    · simp
    · have := ih hz
      simp; omega

/-- ancestors of `a ++ t`: the nodes strictly between, then `a`, then the ancestors of `a`. -/
theorem ancestors_split {a t : List κ} (ha : a ≠ []) (ht : t ≠ []) :
    ancestors (a ++ t) = (pathsFrom a t).reverse.tail ++ a :: ancestors a := by
  unfold ancestors
  rw [prefixes_append, List.reverse_append]
  have hne : (pathsFrom a t).reverse ≠ [] := by
    unfold pathsFrom
    simp [prefixes_ne_nil ht]
  rw [List.tail_append_of_ne_nil hne, prefixes_reverse ha]
  rfl

theorem mem_ancestors_length {b x : List κ} (h : x ∈ ancestors b) : x ≠ [] ∧ x.length < b.length := by
  unfold ancestors at h
  by_cases hb : b = []
  · subst hb; simp [prefixes] at h
  · have hx : x ∈ (prefixes b).reverse := List.mem_of_mem_tail h
    have h1 := mem_prefixes_length (List.mem_reverse.mp hx)
    refine ⟨h1.1, ?_⟩
    -- x is not b itself: b is the head of the reversed list and prefixes have distinct lengths
    rw [prefixes_reverse hb] at hx h
    simp only [List.tail_cons] at h
    -- h : x ∈ ancestors b ; show by induction through pathsFrom
    rcases Nat.lt_or_ge x.length b.length with hlt | hge
    · exact hlt
    · exfalso
      -- all elements of (prefixes b) have pairwise distinct lengths: use prefixes = pathsFrom []
      have hnd : ((prefixes b).map List.length) = List.range' 1 b.length := by
        clear hx h h1 hge hb
        induction b with
        | nil => simp [prefixes]
        | cons y r ih =>
          simp only [prefixes, List.map_cons, List.map_map, List.length_cons]
          have : (List.length ∘ fun x => y :: x) = (fun n => 1 + n) ∘ List.length := by
            funext z; simp; omega
          rw [this, ← List.map_map, ih]
          rw [List.range'_succ]
          congr 1
          exact List.map_add_range' 1 r.length 1
      have hrev : ((prefixes b).reverse.map List.length) = (List.range' 1 b.length).reverse := by
        rw [List.map_reverse, hnd]
      rw [prefixes_reverse hb] at hrev
      simp only [List.map_cons] at hrev
      have hmem : x.length ∈ (ancestors b).map List.length := List.mem_map.mpr ⟨x, h, rfl⟩
      have hnodup : ((b.length) :: (ancestors b).map List.length).Nodup := by
        rw [hrev]; exact (List.reverse_perm _).nodup_iff.mpr List.nodup_range'
      have hle : x.length ≤ b.length := h1.2
      have : x.length = b.length := Nat.le_antisymm hle hge
      rw [this] at hmem
      exact (List.nodup_cons.mp hnodup).1 hmem

theorem not_mem_ancestors_self (b : List κ) : b ∉ ancestors b := fun h =>
  Nat.lt_irrefl _ (mem_ancestors_length h).2

/-- an ancestor is a non-empty proper prefix -/
theorem mem_ancestors_prefix {b x : List κ} (h : x ∈ ancestors b) : ∃ t, t ≠ [] ∧ b = x ++ t := by
  have hlen := mem_ancestors_length h
  unfold ancestors at h
  have hx : x ∈ prefixes b := List.mem_reverse.mp (List.mem_of_mem_tail h)
  have : ∃ t, b = x ++ t := by
    clear h hlen
    induction b generalizing x with
    | nil => simp [prefixes] at hx
    | cons y r ih =>
      simp only [prefixes, List.mem_cons, List.mem_map] at hx
      rcases hx with rfl | ⟨z, hz, rfl⟩
      · exact ⟨r, rfl⟩
      · obtain ⟨t, ht⟩ := ih hz
        exact ⟨t, by rw [ht]; rfl⟩
  obtain ⟨t, ht⟩ := this
  refine ⟨t, ?_, ht⟩
  rintro rfl
  rw [ht] at hlen
  simp at hlen

theorem ancestors_of_mem {b x : List κ} (h : x ∈ ancestors b) :
    ∃ pre, ancestors b = pre ++ x :: ancestors x ∧ ∀ y ∈ pre, x.length < y.length := by
  obtain ⟨t, ht, rfl⟩ := mem_ancestors_prefix h
  have hx := (mem_ancestors_length h).1
  refine ⟨(pathsFrom x t).reverse.tail, ancestors_split hx ht, ?_⟩
  intro y hy
  exact pathsFrom_length_gt x t y (List.mem_reverse.mp (List.mem_of_mem_tail hy))

/-- the parent is the first ancestor -/
theorem ancestors_dropLast {b : List κ} (h : 2 ≤ b.length) :
    ancestors b = b.dropLast :: ancestors b.dropLast := by
  have hb : b ≠ [] := by rintro rfl; simp at h
  have hd : b.dropLast ≠ [] := by
    intro hd
    have := congrArg List.length hd
    simp at this; omega
  have e : b = b.dropLast ++ [b.getLast hb] := (List.dropLast_concat_getLast hb).symm
  have := ancestors_split (a := b.dropLast) (t := [b.getLast hb]) hd (by simp)
  rw [← e] at this
  rw [this]
  simp [pathsFrom, prefixes]

/-! ### nearest ancestor that is not removed -/

theorem find?_weaken {α : Type} (p q : α → Bool) (l : List α) (x : α) (hq : ∀ y, q y = true → p y = true)
    (h : l.find? p = some x) (hx : q x = true) : l.find? q = some x := by
  induction l with
  | nil => simp at h
  | cons y r ih =>
    rw [List.find?_cons] at h ⊢
    cases hp : p y with
    | true =>
      rw [hp] at h
      simp at h; subst h
      simp [hx]
    | false =>
      rw [hp] at h
      have : q y = false := by
        cases hqy : q y with
        | false => rfl
        | true => rw [hq y hqy] at hp; exact absurd hp (by simp)
      rw [this]
      exact ih h

theorem find?_weaken_none {α : Type} (p q : α → Bool) (l : List α) (hq : ∀ y, q y = true → p y = true)
    (h : l.find? p = none) : l.find? q = none := by
  rw [List.find?_eq_none] at h ⊢
  intro x hx hqx
  exact h x hx (hq x hqx)

theorem find?_congr_mem {α : Type} (p q : α → Bool) (l : List α) (h : ∀ x ∈ l, p x = q x) :
    l.find? p = l.find? q := by
  induction l with
  | nil => rfl
  | cons y r ih =>
    rw [List.find?_cons, List.find?_cons, h y List.mem_cons_self,
      ih (fun x hx => h x (List.mem_cons_of_mem _ hx))]

theorem find?_split_some {α : Type} (p : α → Bool) (pre rest : List α) (x : α) (hx : x ∉ pre)
    (h : (pre ++ x :: rest).find? p = some x) : ∀ y ∈ pre, p y = false := by
  induction pre with
  | nil => intro y hy; simp at hy
  | cons z r ih =>
    intro y hy
    rw [List.cons_append, List.find?_cons] at h
    cases hp : p z with
    | true =>
      rw [hp] at h
      simp at h
      subst h
      exact absurd List.mem_cons_self hx
    | false =>
      rw [hp] at h
      rcases List.mem_cons.mp hy with rfl | hy'
      · exact hp
      · exact ih (fun hm => hx (List.mem_cons_of_mem _ hm)) h y hy'

theorem find?_skip {α : Type} (p : α → Bool) (pre rest : List α) (h : ∀ y ∈ pre, p y = false) :
    (pre ++ rest).find? p = rest.find? p := by
  induction pre with
  | nil => rfl
  | cons z r ih =>
    rw [List.cons_append, List.find?_cons, h z List.mem_cons_self]
    exact ih (fun y hy => h y (List.mem_cons_of_mem _ hy))

/-- removal of one more node -/
def alsoRemoved (R : List κ → Bool) (cur : List κ) : List κ → Bool := fun x => R x || decide (x = cur)

theorem nearestKept_some {R : List κ → Bool} {b a : List κ} (h : nearestKept R b = some a) :
    a ∈ ancestors b ∧ R a = false := by
  unfold nearestKept at h
  refine ⟨List.mem_of_find?_eq_some h, ?_⟩
  have := List.find?_some h
  simpa using this

theorem nearestKept_self_step (R : List κ → Bool) (cur : List κ) :
    nearestKept (alsoRemoved R cur) cur = nearestKept R cur := by
  unfold nearestKept
  apply find?_congr_mem
  intro x hx
  have : x ≠ cur := by rintro rfl; exact not_mem_ancestors_self _ hx
  simp [alsoRemoved, this]

/-- (i) the nearest surviving ancestor was `cur`: now it is `cur`'s nearest surviving ancestor -/
theorem nearestKept_step_through (R : List κ → Bool) (cur b : List κ) (h : nearestKept R b = some cur) :
    nearestKept (alsoRemoved R cur) b = nearestKept R cur := by
  obtain ⟨hmem, _⟩ := nearestKept_some h
  obtain ⟨pre, hsplit, hlen⟩ := ancestors_of_mem hmem
  have hnotpre : cur ∉ pre := fun hm => Nat.lt_irrefl _ (hlen cur hm)
  unfold nearestKept at h ⊢
  rw [hsplit] at h ⊢
  have hpre := find?_split_some _ pre _ cur hnotpre h
  have hpre' : ∀ y ∈ pre ++ [cur], (fun a => !alsoRemoved R cur a) y = false := by
    intro y hy
    rcases List.mem_append.mp hy with hy | hy
    · have := hpre y hy
      simp only [Bool.not_eq_false'] at this
      simp [alsoRemoved, this]
    · simp at hy; subst hy; simp [alsoRemoved]
  have e : pre ++ cur :: ancestors cur = (pre ++ [cur]) ++ ancestors cur := by simp
  rw [e, find?_skip _ _ _ hpre']
  exact nearestKept_self_step R cur

/-- (ii) the nearest surviving ancestor is another node: unchanged -/
theorem nearestKept_step_other (R : List κ → Bool) (cur b x : List κ) (h : nearestKept R b = some x)
    (hx : x ≠ cur) : nearestKept (alsoRemoved R cur) b = some x := by
  unfold nearestKept at h ⊢
  apply find?_weaken _ _ _ _ _ h
  · have := List.find?_some h
    simp only [Bool.not_eq_true'] at this
    simp [alsoRemoved, this, hx]
  · intro y hy
    simp only [alsoRemoved, Bool.not_eq_true', Bool.or_eq_false_iff] at hy
    simp [hy.1]

/-- (iii) no surviving ancestor: still none -/
theorem nearestKept_step_none (R : List κ → Bool) (cur b : List κ) (h : nearestKept R b = none) :
    nearestKept (alsoRemoved R cur) b = none := by
  unfold nearestKept at h ⊢
  apply find?_weaken_none _ _ _ _ h
  intro y hy
  simp only [alsoRemoved, Bool.not_eq_true', Bool.or_eq_false_iff] at hy
  simp [hy.1]

/-- a result other than the parent means the parent was removed (at least one node is bypassed) -/
theorem nearestKept_ne_parent {R : List κ → Bool} {b a : List κ} (h : nearestKept R b = some a)
    (hne : a ≠ b.dropLast) : 2 ≤ b.length ∧ R b.dropLast = true := by
  obtain ⟨hmem, _⟩ := nearestKept_some h
  have hl := mem_ancestors_length hmem
  have h2 : 2 ≤ b.length := by
    have : 0 < a.length := List.length_pos_iff.mpr hl.1
    omega
  refine ⟨h2, ?_⟩
  unfold nearestKept at h
  rw [ancestors_dropLast h2, List.find?_cons] at h
  cases hr : R b.dropLast with
  | true => rfl
  | false =>
    rw [hr] at h
    simp at h
    exact absurd h.symm hne

/-- the parent survives: it is the nearest surviving ancestor -/
theorem nearestKept_parent {R : List κ → Bool} {b : List κ} (h2 : 2 ≤ b.length) (hr : R b.dropLast = false) :
    nearestKept R b = some b.dropLast := by
  unfold nearestKept
  rw [ancestors_dropLast h2, List.find?_cons, hr]
  rfl

end PV.GSpec
