import PprofVerif.Lemmas.Varint
/-! Wire-field round trips: what `decodeField` returns on the output of each field encoder. -/
namespace PV.Wire

theorem toI64_toU64 (i : Int) (h : InI64 i) : toI64 (toU64 i) = i := by
  unfold InI64 two63 at h
  unfold toI64 toU64 two64 two63
  simp only [Nat.cast_ofNat]
  split <;> omega

theorem toU64_lt (i : Int) : toU64 i < two64 := by
  unfold toU64 two64
  simp only [Nat.cast_ofNat]
  omega

/-- a varint-typed field (`encodeUint64`) decodes to that field. -/
theorem decodeField_encodeUint64 (tag x : Nat) (ht : tag * 8 < two64) (hx : x < two64) (rest : Bytes) :
    decodeField (encodeUint64 tag x ++ rest) = .ok ({ num := tag, typ := 0, u64 := x, data := [] }, rest) := by
  unfold decodeField encodeUint64
  rw [List.append_assoc, decodeVarint_encodeVarint _ ht]
  simp only [bind]
  have h1 : tag * 8 / 8 = tag := by omega
  have h2 : tag * 8 % 8 = 0 := by omega
  simp only [Outcome.bind, h1, h2, decodeVarint_encodeVarint _ hx, pure]

/-- a length-delimited field (`encodeMessage`, `encodeString`, packed scalars) decodes to its body. -/
theorem decodeField_encodeMessage (tag : Nat) (body : Bytes) (ht : tag * 8 + 2 < two64)
    (hl : body.length < two64) (rest : Bytes) :
    decodeField (encodeMessage tag body ++ rest) = .ok ({ num := tag, typ := 2, u64 := 0, data := body }, rest) := by
  unfold decodeField encodeMessage encodeLength
  rw [List.append_assoc, List.append_assoc, decodeVarint_encodeVarint _ ht]
  simp only [bind]
  have h1 : (tag * 8 + 2) / 8 = tag := by omega
  have h2 : (tag * 8 + 2) % 8 = 2 := by omega
  simp only [Outcome.bind, h1, h2, decodeVarint_encodeVarint _ hl, pure]
  simp

end PV.Wire
