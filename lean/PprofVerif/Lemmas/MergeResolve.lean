import PprofVerif.Model.Merge
import PprofVerif.Spec.Weight
import PprofVerif.Lemmas.MergeIntern
/-!
Facts about the resolved view (`Model/MergeResolve.lean`): `optMap`, and that every id of a
profile satisfying `Profile.Valid` resolves, with non-nil functions behind every line.
-/
namespace PV.Merge
open PV.Spec

theorem optMap_some {α β : Type} (f : α → Option β) :
    ∀ (xs : List α) (ys : List β), optMap f xs = some ys → List.Forall₂ (fun x y => f x = some y) xs ys
  | [], ys, h => by simp [optMap] at h; subst h; exact List.Forall₂.nil
  | x :: xs, ys, h => by
    simp only [optMap] at h
    cases hx : f x with
    | none => rw [hx] at h; cases h
    | some b =>
      rw [hx] at h
      cases hr : optMap f xs with
      | none => rw [hr] at h; cases h
      | some bs =>
        rw [hr] at h
        simp only [Option.some.injEq] at h
        subst h
        exact List.Forall₂.cons hx (optMap_some f xs bs hr)

theorem optMap_of_forall₂ {α β : Type} (f : α → Option β) :
    ∀ (xs : List α) (ys : List β), List.Forall₂ (fun x y => f x = some y) xs ys → optMap f xs = some ys
  | _, _, List.Forall₂.nil => rfl
  | _, _, List.Forall₂.cons hx hr => by
    simp only [optMap, hx, optMap_of_forall₂ f _ _ hr]

theorem optMap_isSome {α β : Type} (f : α → Option β) (xs : List α) (h : ∀ x ∈ xs, (f x).isSome) :
    ∃ ys, optMap f xs = some ys := by
  induction xs with
  | nil => exact ⟨[], rfl⟩
  | cons x xs ih =>
    obtain ⟨ys, hys⟩ := ih (fun a ha => h a (List.mem_cons_of_mem _ ha))
    have hx := h x (by simp)
    cases hfx : f x with
    | none => rw [hfx] at hx; cases hx
    | some b => exact ⟨b :: ys, by simp [optMap, hfx, hys]⟩

theorem forall₂_mem_right {α β : Type} {R : α → β → Prop} {xs : List α} {ys : List β}
    (h : List.Forall₂ R xs ys) {y : β} (hy : y ∈ ys) : ∃ x ∈ xs, R x y := by
  induction h with
  | nil => cases hy
  | cons hr _ ih =>
    rcases List.mem_cons.mp hy with rfl | hy'
    · exact ⟨_, by simp, hr⟩
    · obtain ⟨x, hx, hR⟩ := ih hy'
      exact ⟨x, List.mem_cons_of_mem _ hx, hR⟩

theorem forall₂_mem_left {α β : Type} {R : α → β → Prop} {xs : List α} {ys : List β}
    (h : List.Forall₂ R xs ys) {x : α} (hx : x ∈ xs) : ∃ y ∈ ys, R x y := by
  induction h with
  | nil => cases hx
  | cons hr _ ih =>
    rcases List.mem_cons.mp hx with rfl | hx'
    · exact ⟨_, by simp, hr⟩
    · obtain ⟨y, hy, hR⟩ := ih hx'
      exact ⟨y, List.mem_cons_of_mem _ hy, hR⟩

theorem forall₂_map_eq {α β γ : Type} {R : α → β → Prop} {f : α → γ} {g : β → γ} {xs : List α} {ys : List β}
    (h : List.Forall₂ R xs ys) (hfg : ∀ x y, R x y → f x = g y) : xs.map f = ys.map g := by
  induction h with
  | nil => rfl
  | cons hr _ ih => simp [hfg _ _ hr, ih]

/-! ### what a resolved sample keeps of the sample -/

theorem resolveSample_fields {p : Profile} {s : Sample} {rs : RSample} (h : resolveSample p s = some rs) :
    rs.values = s.values ∧ rs.label = s.label ∧ rs.numLabel = s.numLabel ∧ rs.numUnit = s.numUnit ∧
    optMap (resolveLocID p) s.locationIDs = some rs.locs := by
  unfold resolveSample at h
  cases hl : optMap (resolveLocID p) s.locationIDs with
  | none => rw [hl] at h; cases h
  | some locs =>
    rw [hl] at h
    simp only [Option.some.injEq] at h
    subst h
    exact ⟨rfl, rfl, rfl, rfl, rfl⟩

/-! ### valid profiles resolve -/

theorem find?_isSome_of_any {α : Type} (l : List α) (q : α → Bool) (h : l.any q = true) :
    ∃ a, l.find? q = some a ∧ a ∈ l ∧ q a = true := by
  obtain ⟨a, ha, hq⟩ := List.any_eq_true.mp h
  have : (l.find? q).isSome := by rw [List.find?_isSome]; exact ⟨a, ha, hq⟩
  cases hf : l.find? q with
  | none => rw [hf] at this; cases this
  | some b => exact ⟨b, rfl, List.mem_of_find?_eq_some hf, List.find?_some hf⟩

structure ValidParts (p : Profile) : Prop where
  samples : ∀ s ∈ p.samples, s.values.length = p.sampleType.length ∧
      ∀ id ∈ s.locationIDs, id ≠ 0 ∧ p.locations.any (·.id == id) = true
  locs : ∀ l ∈ p.locations, (l.mappingID = 0 ∨ p.mappings.any (·.id == l.mappingID) = true) ∧
      ∀ ln ∈ l.lines, ln.functionID ≠ 0 ∧ p.functions.any (·.id == ln.functionID) = true
  types : p.sampleType.length ≠ 0 ∨ p.samples = []

theorem validParts_of_valid {p : Profile} (h : p.Valid) : ValidParts p := by
  unfold Profile.Valid Profile.validB at h
  simp only [Bool.and_eq_true, List.all_eq_true, Bool.or_eq_true, bne_iff_ne, ne_eq,
    beq_iff_eq, decide_eq_true_eq, List.isEmpty_iff] at h
  obtain ⟨⟨⟨⟨⟨h1, h2⟩, _⟩, _⟩, _⟩, h6⟩ := h
  refine ⟨?_, ?_, h1⟩
  · intro s hs
    obtain ⟨ha, hb⟩ := h2 s hs
    exact ⟨ha, fun id hid => hb id hid⟩
  · intro l hl
    obtain ⟨ha, hb⟩ := h6 l hl
    exact ⟨ha, fun ln hln => hb ln hln⟩

/-- the lines of a resolved location of a valid profile all have a function. -/
def RLocation.linesHaveFn (l : RLocation) : Prop := ∀ ln ∈ l.lines, ln.fn.isSome

theorem resolveLine_valid {p : Profile} {ln : Line} (h0 : ln.functionID ≠ 0)
    (h : p.functions.any (·.id == ln.functionID) = true) :
    ∃ r, resolveLine p ln = some r ∧ r.fn.isSome := by
  obtain ⟨f, hf, _, _⟩ := find?_isSome_of_any _ _ h
  unfold resolveLine Profile.findFunction
  rw [if_neg h0, hf]
  exact ⟨_, rfl, rfl⟩

theorem resolveLoc_valid {p : Profile} (hv : ValidParts p) {l : Location} (hl : l ∈ p.locations) :
    ∃ r, resolveLoc p l = some r ∧ r.linesHaveFn := by
  obtain ⟨hm, hlines⟩ := hv.locs l hl
  have h1 : ∃ m, resolveMappingRef p l.mappingID = some m := by
    unfold resolveMappingRef
    by_cases h0 : l.mappingID = 0
    · exact ⟨none, by simp [h0]⟩
    · rcases hm with hm | hm
      · exact absurd hm h0
      · obtain ⟨m, hmf, _, _⟩ := find?_isSome_of_any _ _ hm
        unfold Profile.findMapping
        rw [if_neg h0, hmf]; exact ⟨_, rfl⟩
  obtain ⟨m, hm'⟩ := h1
  obtain ⟨lines, hlines'⟩ := optMap_isSome (resolveLine p) l.lines (by
    intro ln hln
    obtain ⟨r, hr, _⟩ := resolveLine_valid (hlines ln hln).1 (hlines ln hln).2
    rw [hr]; rfl)
  refine ⟨⟨l.id, m, l.address, lines, l.isFolded⟩, by simp only [resolveLoc, hm', hlines'], ?_⟩
  intro r hr
  obtain ⟨ln, hln, hres⟩ := forall₂_mem_right (optMap_some _ _ _ hlines') hr
  obtain ⟨r', hr', hfn⟩ := resolveLine_valid (hlines ln hln).1 (hlines ln hln).2
  rw [hr'] at hres
  simp only [Option.some.injEq] at hres
  rw [← hres]; exact hfn

theorem resolveLocID_valid {p : Profile} (hv : ValidParts p) {id : Nat} (h0 : id ≠ 0)
    (h : p.locations.any (·.id == id) = true) : ∃ r, resolveLocID p id = some r ∧ r.linesHaveFn := by
  obtain ⟨l, hl, hlm, _⟩ := find?_isSome_of_any _ _ h
  unfold resolveLocID Profile.findLocation
  rw [if_neg h0, hl]
  exact resolveLoc_valid hv hlm

theorem resolveSample_valid {p : Profile} (hv : ValidParts p) {s : Sample} (hs : s ∈ p.samples) :
    ∃ r, resolveSample p s = some r ∧ ∀ l ∈ r.locs, l.linesHaveFn := by
  obtain ⟨_, hids⟩ := hv.samples s hs
  obtain ⟨locs, hlocs⟩ := optMap_isSome (resolveLocID p) s.locationIDs (by
    intro id hid
    obtain ⟨r, hr, _⟩ := resolveLocID_valid hv (hids id hid).1 (hids id hid).2
    rw [hr]; rfl)
  refine ⟨⟨locs, s.values, s.label, s.numLabel, s.numUnit⟩, by simp only [resolveSample, hlocs], ?_⟩
  intro l hl
  obtain ⟨id, hid, hres⟩ := forall₂_mem_right (optMap_some _ _ _ hlocs) hl
  obtain ⟨r', hr', hfn⟩ := resolveLocID_valid hv (hids id hid).1 (hids id hid).2
  rw [hr'] at hres
  simp only [Option.some.injEq] at hres
  rw [← hres]; exact hfn

/-- **every valid profile resolves**, sample by sample, and behind every line there is a function. -/
theorem resolve_valid {p : Profile} (h : p.Valid) :
    ∃ rs, resolve p = some rs ∧ List.Forall₂ (fun s r => resolveSample p s = some r) p.samples rs ∧
      ∀ r ∈ rs, ∀ l ∈ r.locs, l.linesHaveFn := by
  have hv := validParts_of_valid h
  obtain ⟨rs, hrs⟩ := optMap_isSome (resolveSample p) p.samples (by
    intro s hs
    obtain ⟨r, hr, _⟩ := resolveSample_valid hv hs
    rw [hr]; rfl)
  have hf := optMap_some _ _ _ hrs
  refine ⟨rs, hrs, hf, ?_⟩
  intro r hr
  obtain ⟨s, hs, hres⟩ := forall₂_mem_right hf hr
  obtain ⟨r', hr', hfn⟩ := resolveSample_valid hv hs
  rw [hr'] at hres
  simp only [Option.some.injEq] at hres
  rw [← hres]; exact hfn

end PV.Merge
