import PprofVerif.Spec.Stacks
/-! C17 helper lemmas, part B: the interning table of `makeInitialStacks` (DESIGN A.1) and the
invariant of the sample loop. -/
namespace PV.Stacks
open PV

/-- the index the `srcs` map gives to the identity of frame `f` (0 when absent). -/
def idxIn (M : List (Key × Nat)) (f : Frame) : Nat := (M.lookup f.key).getD 0

/-- source `s` shows the attributes of frame identity `k`. -/
def Describes (o : Opts) (s : Source) (k : Key) : Prop :=
  s.fullName = k.fullName o ∧ s.fileName = k.fileName o ∧ s.inlined = k.inlined

structure WF (o : Opts) (st : St) : Prop where
  len : st.sources.elems.length = st.srcs.length + 1
  nn : st.sources.nonnil = true
  rng : ∀ k i, st.srcs.lookup k = some i → 1 ≤ i ∧ i < st.sources.elems.length
  desc : ∀ k i, st.srcs.lookup k = some i → ∃ s, st.sources.elems[i]? = some s ∧ Describes o s k
  inj : ∀ k k' i, st.srcs.lookup k = some i → st.srcs.lookup k' = some i → k = k'

/-- `st'` extends `st`: indices handed out stay valid, sources are only appended, and the appended
ones are fresh (no self value, empty non-nil place list). -/
structure Ext (st st' : St) : Prop where
  mono : ∀ k i, st.srcs.lookup k = some i → st'.srcs.lookup k = some i
  app : ∃ extra, st'.sources.elems = st.sources.elems ++ extra ∧
          ∀ s ∈ extra, s.self = 0 ∧ s.places = Slice.lit []

theorem Ext.refl (st : St) : Ext st st := ⟨fun _ _ h => h, [], by simp, by simp⟩

theorem Ext.trans {a b c : St} (h1 : Ext a b) (h2 : Ext b c) : Ext a c := by
  obtain ⟨e1, he1, hf1⟩ := h1.app
  obtain ⟨e2, he2, hf2⟩ := h2.app
  refine ⟨fun k i h => h2.mono k i (h1.mono k i h), e1 ++ e2, by rw [he2, he1, List.append_assoc], ?_⟩
  intro s hs
  rcases List.mem_append.1 hs with h | h
  · exact hf1 s h
  · exact hf2 s h

theorem lookup_cons_self {β} (k : Key) (b : β) (l : List (Key × β)) :
    List.lookup k ((k, b) :: l) = some b := by simp

theorem lookup_cons_ne {β} (k k' : Key) (b : β) (l : List (Key × β)) (h : k ≠ k') :
    List.lookup k ((k', b) :: l) = List.lookup k l := by
  have : (k == k') = false := by simpa using h
  simp [List.lookup_cons, this]

theorem getSrc_spec (o : Opts) (st : St) (f : Frame) (h : WF o st) :
    WF o (getSrc o st f).1 ∧ Ext st (getSrc o st f).1 ∧
    (getSrc o st f).1.srcs.lookup f.key = some (getSrc o st f).2 := by
  unfold getSrc
  cases hl : st.srcs.lookup f.key with
  | some i => exact ⟨h, Ext.refl st, hl⟩
  | none =>
    simp only [Slice.push, Slice.len, List.length_append, List.length_cons, List.length_nil,
      Nat.zero_add, Nat.add_sub_cancel]
    have hpos : 1 ≤ st.sources.elems.length := by rw [h.len]; omega
    refine ⟨⟨?_, rfl, ?_, ?_, ?_⟩, ⟨?_, ?_⟩, ?_⟩
    · simp [h.len]
    · intro k i hk
      by_cases e : k = f.key
      · subst e
        rw [lookup_cons_self] at hk
        simp only [Option.some.injEq] at hk
        simp only [List.length_append, List.length_cons, List.length_nil]
        omega
      · rw [lookup_cons_ne _ _ _ _ e] at hk
        have := h.rng k i hk
        simp only [List.length_append, List.length_cons, List.length_nil]
        omega
    · intro k i hk
      by_cases e : k = f.key
      · subst e
        rw [lookup_cons_self] at hk
        simp only [Option.some.injEq] at hk
        subst hk
        exact ⟨_, List.getElem?_concat_length, rfl, rfl, rfl⟩
      · rw [lookup_cons_ne _ _ _ _ e] at hk
        obtain ⟨s, hs, hd⟩ := h.desc k i hk
        exact ⟨s, by rw [List.getElem?_append_left (h.rng k i hk).2]; exact hs, hd⟩
    · intro k k' i hk hk'
      by_cases e : k = f.key <;> by_cases e' : k' = f.key
      · rw [e, e']
      · subst e
        rw [lookup_cons_self] at hk
        rw [lookup_cons_ne _ _ _ _ e'] at hk'
        simp only [Option.some.injEq] at hk
        have := (h.rng k' i hk').2
        omega
      · subst e'
        rw [lookup_cons_self] at hk'
        rw [lookup_cons_ne _ _ _ _ e] at hk
        simp only [Option.some.injEq] at hk'
        have := (h.rng k i hk).2
        omega
      · rw [lookup_cons_ne _ _ _ _ e] at hk
        rw [lookup_cons_ne _ _ _ _ e'] at hk'
        exact h.inj k k' i hk hk'
    · intro k i hk
      by_cases e : k = f.key
      · subst e; rw [hl] at hk; cases hk
      · rw [lookup_cons_ne _ _ _ _ e]; exact hk
    · exact ⟨[_], rfl, by simp⟩
    · exact lookup_cons_self _ _ _

theorem idxIn_of_lookup {M : List (Key × Nat)} {f : Frame} {i : Nat} (h : M.lookup f.key = some i) :
    idxIn M f = i := by simp [idxIn, h]

theorem pushFrames_spec (o : Opts) (fs : List Frame) : ∀ (st : St) (idxs : Slice Nat), WF o st →
    WF o (pushFrames o st idxs fs).1 ∧ Ext st (pushFrames o st idxs fs).1 ∧
    (pushFrames o st idxs fs).2.elems = idxs.elems ++ fs.map (idxIn (pushFrames o st idxs fs).1.srcs) ∧
    (idxs.nonnil = true → (pushFrames o st idxs fs).2.nonnil = true) ∧
    (∀ f ∈ fs, ((pushFrames o st idxs fs).1.srcs.lookup f.key).isSome = true) := by
  induction fs with
  | nil => intro st idxs h; exact ⟨h, Ext.refl st, by simp [pushFrames], fun h => h, by simp⟩
  | cons f r ih =>
    intro st idxs h
    obtain ⟨w1, e1, l1⟩ := getSrc_spec o st f h
    obtain ⟨w2, e2, el, nn, kn⟩ := ih (getSrc o st f).1 (idxs.push (getSrc o st f).2) w1
    have hstep : pushFrames o st idxs (f :: r) = pushFrames o (getSrc o st f).1 (idxs.push (getSrc o st f).2) r := by
      simp [pushFrames]
    rw [hstep]
    have l2 := e2.mono _ _ l1
    refine ⟨w2, e1.trans e2, ?_, fun _ => nn rfl, ?_⟩
    · rw [el, List.map_cons, idxIn_of_lookup l2]; simp [Slice.push]
    · intro g hg
      rcases List.mem_cons.1 hg with rfl | hg
      · simp [l2]
      · exact kn g hg

end PV.Stacks
